(* C18 - proofs about the pool forest model (UT/Pforest.v): hierarchy x reference counting of iwpool.c.

   ginv D f          the invariant: reference counts >= 1, the parent of a live pool is live and older, the sibling chain of
                     a live pool lists exactly the live pools whose parent pointer names it (numbers strictly decreasing);
                     D = the pools in the middle of their own iwpool_destroy (count 0, children being taken off one by one).
   destroy_mut       the recursion of iwpool_destroy (pool without parent) and its child loop keep ginv, never load or store
                     through a pointer to a released pool, never run out of the fuel 2 * pools + 2, change no pool older than
                     the argument, and satisfy [post]: who is released (exactly: the argument at count 1 and, recursively,
                     the pools whose parent is released in the same call and whose count is 1), what happens to the others
                     (children of a released pool with count > 1: count - 1, parent pointer cleared; everybody else untouched)
                     and which releases are logged (per released pool: units, user data destructor if set, struct - once).
   ginv_unlink       _parent_remove_child: the chain surgery (head / middle / tail) gives a clean state again.
   destroy_top       iwpool_destroy called by the client on any live pool (attached or not).
   inv_step/inv_run  every call sequence that never passes a released pool keeps inv = ginv [].
   destroy_spec      the release rule in terms of observable fields.        logok_run   the log of a whole run.
   drain_all         dropping every reference releases every pool.          seed5_refuted   the variant without
                     `c->parent = 0` in the child loop faults (use after free) on create, attach, ref, destroy parent, destroy child. *)
Require Import ZArith List Bool Lia Arith.
Require Import IW.Gen.Facts IW.UT.Pool IW.UT.Pforest.
Import ListNotations.

(* ================================================================ lists, get / set *)
Lemma upd_length : forall A (l : list A) i x, length (upd l i x) = length l.
Proof. induction l as [|h t IH]; intros [|i] x; simpl; auto. Qed.

Lemma nth_error_upd_eq : forall A (l : list A) i x, i < length l -> nth_error (upd l i x) i = Some x.
Proof.
  induction l as [|h t IH]; intros [|i] x Hi; simpl in *; try lia; auto. apply IH. lia.
Qed.

Lemma nth_error_upd_neq : forall A (l : list A) i j x, i <> j -> nth_error (upd l i x) j = nth_error l j.
Proof.
  induction l as [|h t IH]; intros [|i] [|j] x Hij; simpl; auto; try congruence.
Qed.

Lemma get_lt : forall f i c, get f i = Some c -> i < length (f_slots f).
Proof.
  intros f i c H. unfold get in H. destruct (nth_error (f_slots f) i) eqn:E; try discriminate.
  apply nth_error_Some. congruence.
Qed.

Lemma get_set_eq : forall f i c, i < length (f_slots f) -> get (set f i c) i = Some c.
Proof. intros f i c Hi. unfold get, set, set_slot. simpl. rewrite nth_error_upd_eq; auto. Qed.

Lemma get_set_neq : forall f i j c, i <> j -> get (set f i c) j = get f j.
Proof. intros f i j c Hij. unfold get, set, set_slot. simpl. rewrite nth_error_upd_neq; auto. Qed.

Lemma get_free_eq : forall f i, get (set_slot f i Freed) i = None.
Proof.
  intros f i. unfold get, set_slot. simpl.
  destruct (lt_dec i (length (f_slots f))) as [Hi|Hi].
  - rewrite nth_error_upd_eq; auto.
  - assert (H : nth_error (upd (f_slots f) i Freed) i = None).
    { apply nth_error_None. rewrite upd_length. lia. }
    rewrite H. reflexivity.
Qed.

Lemma get_free_neq : forall f i j, i <> j -> get (set_slot f i Freed) j = get f j.
Proof. intros f i j Hij. unfold get, set_slot. simpl. rewrite nth_error_upd_neq; auto. Qed.

Lemma get_emit : forall f e i, get (emit f e) i = get f i.
Proof. reflexivity. Qed.

Lemma get_fault : forall f i, get (fault f) i = get f i.
Proof. reflexivity. Qed.

Lemma len_set : forall f i c, length (f_slots (set f i c)) = length (f_slots f).
Proof. intros. unfold set, set_slot. simpl. apply upd_length. Qed.

Lemma len_free : forall f i, length (f_slots (set_slot f i Freed)) = length (f_slots f).
Proof. intros. unfold set_slot. simpl. apply upd_length. Qed.

(* ================================================================ vocabulary *)
Definition haspar (f : forest) (x q : nat) : Prop := exists xc, get f x = Some xc /\ c_parent xc = Some q.

(* the sibling chain starting at pointer o is the list L of live pools, numbers strictly decreasing and below ub *)
Fixpoint chain (f : forest) (ub : nat) (o : option nat) (L : list nat) : Prop :=
  match L with
  | [] => o = None
  | x :: L' => o = Some x /\ x < ub /\ exists xc, get f x = Some xc /\ chain f x (c_next xc) L'
  end.

Definition is_att (s : slot) : bool :=
  match s with Live c => match c_parent c with Some _ => true | None => false end | Freed => false end.
Definition attached (f : forest) : nat := length (filter is_att (f_slots f)).

(* D = pools in the middle of their own iwpool_destroy (numrefs 0, children being processed) *)
Record ginv (D : list nat) (f : forest) : Prop := {
  g_nofault : f_fault f = false;
  g_refs : forall i c, get f i = Some c -> ~ In i D -> (1 <= c_refs c)%Z;
  g_dying : forall i c, get f i = Some c -> In i D -> c_parent c = None;
  g_parent : forall i c q, get f i = Some c -> c_parent c = Some q -> q < i /\ exists qc, get f q = Some qc;
  g_kids : forall q qc, get f q = Some qc -> ~ In q D ->
           exists L, chain f (length (f_slots f)) (c_children qc) L /\ forall x, In x L <-> haspar f x q;
  g_next : forall i c q y, get f i = Some c -> c_parent c = Some q -> c_next c = Some y -> y < i /\ haspar f y q
}.

(* ================================================================ chains *)
Lemma chain_lt : forall f L ub o, chain f ub o L -> forall x, In x L -> x < ub.
Proof.
  intros f L. induction L as [|a L IH]; intros ub o H x Hx; simpl in *; [contradiction|].
  destruct H as (_ & Ha & xc & _ & Hc). destruct Hx as [<-|Hx]; auto.
  specialize (IH _ _ Hc x Hx). lia.
Qed.

Lemma chain_weaken : forall f L ub ub' o, chain f ub o L -> ub <= ub' -> chain f ub' o L.
Proof.
  intros f [|a L] ub ub' o H Hle; simpl in *; auto.
  destruct H as (Ho & Ha & xc & Hg & Hc). split; [auto|]. split; [lia|]. exists xc; auto.
Qed.

(* f' has the same next pointers as f on the members of the chain *)
Lemma chain_ext : forall f f' L ub o,
  (forall x xc, In x L -> get f x = Some xc -> exists xc', get f' x = Some xc' /\ c_next xc' = c_next xc) ->
  chain f ub o L -> chain f' ub o L.
Proof.
  intros f f' L. induction L as [|a L IH]; intros ub o Hs H; simpl in *; auto.
  destruct H as (Ho & Ha & xc & Hg & Hc).
  destruct (Hs a xc (or_introl eq_refl) Hg) as (xc' & Hg' & Hn).
  split; [auto|]. split; [auto|]. exists xc'. split; auto. rewrite Hn.
  apply IH; [intros x xc0 Hx; apply Hs; right; exact Hx | exact Hc].
Qed.

Lemma chain_in_next : forall f L ub o i c y, chain f ub o L -> In i L -> get f i = Some c -> c_next c = Some y ->
  In y L /\ y < i.
Proof.
  intros f L. induction L as [|a L IH]; intros ub o i c y H Hi Hg Hn; simpl in *; [contradiction|].
  destruct H as (Ho & Ha & xc & Hga & Hc).
  destruct Hi as [<-|Hi].
  - rewrite Hg in Hga. inversion Hga; subst xc. rewrite Hn in Hc.
    destruct L as [|b L]; simpl in Hc; [discriminate|].
    destruct Hc as (Hb & Hlt & _). inversion Hb; subst b. split; [right; left; auto|auto].
  - destruct (IH _ _ _ _ _ Hc Hi Hg Hn). split; auto.
Qed.

(* no member of the chain points back to its head *)
Lemma chain_head_max : forall f L ub a i c, chain f ub (Some a) L -> In i L -> get f i = Some c -> c_next c <> Some a.
Proof.
  intros f L ub a i c H Hi Hg Hn.
  destruct (chain_in_next _ _ _ _ _ _ _ H Hi Hg Hn) as [_ Hlt].
  destruct L as [|b L]; simpl in H; [contradiction|].
  destruct H as (Hb & Hbu & xc & Hgb & Hc). inversion Hb; subst b.
  destruct Hi as [<-|Hi]; [lia|].
  pose proof (chain_lt _ _ _ _ Hc i Hi). lia.
Qed.

(* ================================================================ attached count *)
Definition b2n (b : bool) : nat := if b then 1 else 0.

Lemma att_upd : forall l i s s', nth_error l i = Some s ->
  length (filter is_att (upd l i s')) + b2n (is_att s) = length (filter is_att l) + b2n (is_att s').
Proof.
  induction l as [|h t IH]; intros [|i] s s' H; simpl in *; try discriminate.
  - inversion H; subst h. destruct (is_att s), (is_att s'); simpl; lia.
  - specialize (IH i s s' H). destruct (is_att h); simpl; lia.
Qed.

Lemma nth_of_get : forall f i c, get f i = Some c -> nth_error (f_slots f) i = Some (Live c).
Proof.
  intros f i c H. unfold get in H. destruct (nth_error (f_slots f) i) as [[c'|]|]; try discriminate. congruence.
Qed.

Lemma attached_set : forall f i c c', get f i = Some c ->
  attached (set f i c') + b2n (is_att (Live c)) = attached f + b2n (is_att (Live c')).
Proof. intros f i c c' H. exact (att_upd _ _ _ (Live c') (nth_of_get _ _ _ H)). Qed.

Lemma attached_free : forall f i c, get f i = Some c -> attached (set_slot f i Freed) <= attached f.
Proof.
  intros f i c H.
  pose proof (att_upd _ _ _ Freed (nth_of_get _ _ _ H)) as H0.
  change (attached (set_slot f i Freed) + b2n (is_att (Live c)) = attached f + 0) in H0. lia.
Qed.

(* ================================================================ updates of one cell that keep the invariant *)
Lemma get_set_cases : forall f p c' i ci, p < length (f_slots f) -> get (set f p c') i = Some ci ->
  (i = p /\ ci = c') \/ (i <> p /\ get f i = Some ci).
Proof.
  intros f p c' i ci Hp H. destruct (Nat.eq_dec i p) as [->|Hne].
  - rewrite get_set_eq in H; auto. left. split; congruence.
  - rewrite get_set_neq in H; auto.
Qed.

(* same liveness, same parent / next / children pointers everywhere *)
Definition links_eq (f f' : forest) : Prop :=
  forall i, match get f i, get f' i with
            | Some c, Some c' => c_parent c' = c_parent c /\ c_next c' = c_next c /\ c_children c' = c_children c
            | None, None => True
            | _, _ => False
            end.

Lemma links_eq_sym : forall f f', links_eq f f' -> links_eq f' f.
Proof.
  intros f f' H i. specialize (H i). destruct (get f i), (get f' i); auto. destruct H as (A & B & C). auto.
Qed.

Lemma haspar_links : forall f f' x q, links_eq f f' -> haspar f x q -> haspar f' x q.
Proof.
  intros f f' x q H (xc & Hg & Hp). specialize (H x). rewrite Hg in H.
  destruct (get f' x) as [c'|] eqn:E; [|contradiction]. destruct H as (A & _). exists c'. split; congruence.
Qed.

Lemma chain_links : forall f f' L ub o, links_eq f f' -> chain f ub o L -> chain f' ub o L.
Proof.
  intros f f' L ub o H. apply chain_ext. intros x xc _ Hg. specialize (H x). rewrite Hg in H.
  destruct (get f' x) as [c'|]; [|contradiction]. exists c'. destruct H as (_ & B & _). auto.
Qed.

Lemma links_set_refs : forall f p c n, get f p = Some c -> links_eq f (set f p (with_refs c n)).
Proof.
  intros f p c n Hg i. destruct (Nat.eq_dec i p) as [->|Hne].
  - rewrite Hg, get_set_eq by (eapply get_lt; eauto). simpl. auto.
  - rewrite get_set_neq by auto. destruct (get f i); auto.
Qed.

Lemma ginv_refs_gen : forall D D' f p c n, ginv D f -> get f p = Some c ->
  (forall i, ~ In i D' -> ~ In i D) ->
  (forall i, In i D' -> In i D \/ i = p) ->
  (~ In p D' -> (1 <= n)%Z) ->
  (In p D' -> c_parent c = None) ->
  ginv D' (set f p (with_refs c n)).
Proof.
  intros D D' f p c n G Hg Hsub Hsup Hn Hd.
  pose proof (get_lt _ _ _ Hg) as Hp.
  pose proof (links_set_refs f p c n Hg) as HL.
  pose proof (links_eq_sym _ _ HL) as HL'.
  constructor.
  - apply G.
  - intros i ci Hi Hni. destruct (get_set_cases _ _ _ _ _ Hp Hi) as [[-> ->]|[Hne Hi']].
    + simpl. auto.
    + eapply g_refs; eauto.
  - intros i ci Hi Hin. destruct (get_set_cases _ _ _ _ _ Hp Hi) as [[-> ->]|[Hne Hi']].
    + simpl. auto.
    + destruct (Hsup i Hin) as [Hin'|]; [|contradiction]. eapply g_dying; eauto.
  - intros i ci q Hi Hpar.
    assert (Hh : haspar f i q). { apply (haspar_links _ _ _ _ HL'). exists ci; auto. }
    destruct Hh as (xc & Hgx & Hpx). destruct (g_parent _ _ G _ _ _ Hgx Hpx) as (Hlt & qc & Hq).
    split; auto. specialize (HL q). rewrite Hq in HL. destruct (get (set f p (with_refs c n)) q) as [qc'|]; [eauto|contradiction].
  - intros q qc Hq Hnq.
    assert (Hq0 : exists qc0, get f q = Some qc0 /\ c_children qc0 = c_children qc).
    { specialize (HL q). rewrite Hq in HL. destruct (get f q) as [qc0|]; [|contradiction]. exists qc0. destruct HL as (_ & _ & C). auto. }
    destruct Hq0 as (qc0 & Hq0 & Hch).
    destruct (g_kids _ _ G q qc0 Hq0 (Hsub _ Hnq)) as (L & Hc & HLq).
    exists L. rewrite len_set, <- Hch. split.
    + apply (chain_links _ _ _ _ _ HL). auto.
    + intros x. rewrite HLq. split; apply haspar_links; auto.
  - intros i ci q y Hi Hpar Hnx.
    assert (Hh : exists xc, get f i = Some xc /\ c_parent xc = Some q /\ c_next xc = Some y).
    { specialize (HL i). rewrite Hi in HL. destruct (get f i) as [xc|]; [|contradiction]. exists xc. destruct HL as (A & B & _).
      repeat split; congruence. }
    destruct Hh as (xc & Hgx & Hpx & Hnx').
    destruct (g_next _ _ G _ _ _ _ Hgx Hpx Hnx') as (Hlt & Hy). split; auto. apply (haspar_links _ _ _ _ HL). auto.
Qed.

Lemma ginv_refs : forall D f p c n, ginv D f -> get f p = Some c -> (1 <= n)%Z -> ginv D (set f p (with_refs c n)).
Proof.
  intros D f p c n G Hg Hn. eapply ginv_refs_gen; eauto.
  intros Hin. eapply g_dying; eauto.
Qed.

Lemma ginv_dying : forall D f p c n, ginv D f -> get f p = Some c -> c_parent c = None ->
  ginv (p :: D) (set f p (with_refs c n)).
Proof.
  intros D f p c n G Hg Hpar. eapply ginv_refs_gen; eauto.
  - intros i Hni Hin. apply Hni. right; auto.
  - intros i [<-|Hin]; auto.
  - intros Hni. exfalso. apply Hni. left; auto.
Qed.

(* the child loop of iwpool_destroy: `c->parent = 0` for the head a of what is left of the chain of a dying pool q *)
Lemma ginv_detach : forall D f a cc q L ub,
  ginv D f -> get f a = Some cc -> c_parent cc = Some q -> In q D ->
  chain f ub (Some a) L -> (forall x, In x L <-> haspar f x q) ->
  ginv D (set f a (with_parent cc None)).
Proof.
  intros D f a cc q L ub G Hg Hpar Hq Hch HL.
  pose proof (get_lt _ _ _ Hg) as Ha.
  assert (HaD : ~ In a D). { intros Hin. rewrite (g_dying _ _ G _ _ Hg Hin) in Hpar. discriminate. }
  set (f' := set f a (with_parent cc None)).
  assert (Hget : forall i ci, get f' i = Some ci -> (i = a /\ ci = with_parent cc None) \/ (i <> a /\ get f i = Some ci)).
  { intros i ci. apply get_set_cases. auto. }
  assert (Hlive : forall i ci, get f i = Some ci -> exists ci', get f' i = Some ci' /\ c_next ci' = c_next ci /\ c_children ci' = c_children ci).
  { intros i ci Hi. destruct (Nat.eq_dec i a) as [->|Hne].
    - exists (with_parent cc None). unfold f'. rewrite get_set_eq by auto. rewrite Hg in Hi. inversion Hi; subst. auto.
    - exists ci. unfold f'. rewrite get_set_neq by auto. auto. }
  assert (Hhp : forall x q', haspar f' x q' <-> haspar f x q' /\ x <> a).
  { intros x q'. split.
    - intros (xc & Hx & Hp). destruct (Hget _ _ Hx) as [[-> ->]|[Hne Hx']]; [discriminate|]. split; auto. exists xc; auto.
    - intros ((xc & Hx & Hp) & Hne). exists xc. split; auto. unfold f'. rewrite get_set_neq; auto. }
  constructor.
  - apply G.
  - intros i ci Hi Hni. destruct (Hget _ _ Hi) as [[-> ->]|[Hne Hi']]; simpl; eapply g_refs; eauto.
  - intros i ci Hi Hin. destruct (Hget _ _ Hi) as [[-> ->]|[Hne Hi']]; simpl; auto. eapply g_dying; eauto.
  - intros i ci q' Hi Hp. destruct (Hget _ _ Hi) as [[-> ->]|[Hne Hi']]; [discriminate|].
    destruct (g_parent _ _ G _ _ _ Hi' Hp) as (Hlt & qc & Hq'). split; auto.
    destruct (Hlive _ _ Hq') as (qc' & Hq'' & _). eauto.
  - intros q' qc' Hq' Hnq.
    assert (Hq0 : exists qc0, get f q' = Some qc0 /\ c_children qc0 = c_children qc').
    { destruct (Hget _ _ Hq') as [[-> ->]|[Hne Hq'']]; eauto. }
    destruct Hq0 as (qc0 & Hq0 & Hc0).
    destruct (g_kids _ _ G _ _ Hq0 Hnq) as (L' & Hc & HL').
    exists L'. replace (length (f_slots f')) with (length (f_slots f)) by (symmetry; apply len_set). rewrite <- Hc0. split.
    + eapply chain_ext; [|exact Hc]. intros x xc _ Hx. destruct (Hlive _ _ Hx) as (xc' & A & B & _). eauto.
    + intros x. rewrite HL', Hhp. split; [|tauto]. intros Hh. split; auto. intros ->.
      destruct Hh as (xc & Hx & Hp). rewrite Hg in Hx. inversion Hx; subst xc. rewrite Hpar in Hp. inversion Hp; subst q'. contradiction.
  - intros i ci q' y Hi Hp Hn. destruct (Hget _ _ Hi) as [[-> ->]|[Hne Hi']]; [discriminate|].
    destruct (g_next _ _ G _ _ _ _ Hi' Hp Hn) as (Hlt & Hy). split; auto. apply Hhp. split; auto. intros ->.
    destruct Hy as (xc & Hx & Hp'). rewrite Hg in Hx. inversion Hx; subst xc. rewrite Hpar in Hp'. inversion Hp'; subst q'.
    assert (Hi'' : In i L). { apply HL. exists ci; auto. }
    exact (chain_head_max _ _ _ _ _ _ Hch Hi'' Hi' Hn).
Qed.

(* free(pool) of a dying pool that nobody names as its parent any more *)
Lemma ginv_free : forall D f f' p c, ginv (p :: D) f -> get f p = Some c -> (forall x, ~ haspar f x p) ->
  length (f_slots f') = length (f_slots f) -> f_fault f' = f_fault f -> get f' p = None ->
  (forall i, i <> p -> get f' i = get f i) ->
  ginv D f'.
Proof.
  intros D f f' p c G Hg Hnk Hlen Hfl Hp Hoth.
  assert (Hpp : c_parent c = None). { eapply g_dying; eauto. left; auto. }
  assert (Hget : forall i ci, get f' i = Some ci -> i <> p /\ get f i = Some ci).
  { intros i ci Hi. destruct (Nat.eq_dec i p) as [->|Hne]; [congruence|]. rewrite Hoth in Hi; auto. }
  assert (Hhp : forall x q, haspar f' x q <-> haspar f x q).
  { intros x q. split.
    - intros (xc & Hx & Hq). destruct (Hget _ _ Hx). exists xc; auto.
    - intros (xc & Hx & Hq). exists xc. split; auto. rewrite Hoth; auto. intros ->. congruence. }
  constructor.
  - rewrite Hfl. apply G.
  - intros i ci Hi Hni. destruct (Hget _ _ Hi) as (Hne & Hi'). eapply g_refs; eauto. intros [E|Hin]; auto.
  - intros i ci Hi Hin. destruct (Hget _ _ Hi) as (Hne & Hi'). eapply g_dying; eauto. right; auto.
  - intros i ci q Hi Hq. destruct (Hget _ _ Hi) as (Hne & Hi').
    destruct (g_parent _ _ G _ _ _ Hi' Hq) as (Hlt & qc & Hgq). split; auto. exists qc. rewrite Hoth; auto.
    intros ->. apply (Hnk i). exists ci; auto.
  - intros q qc Hq Hnq. destruct (Hget _ _ Hq) as (Hne & Hq').
    destruct (g_kids _ _ G _ _ Hq') as (L & Hc & HL). { intros [E|Hin]; auto. }
    exists L. rewrite Hlen. split.
    + eapply chain_ext; [|exact Hc]. intros x xc Hx Hgx. exists xc. split; auto. rewrite Hoth; auto. intros ->.
      apply HL in Hx. destruct Hx as (xc' & A & B). congruence.
    + intros x. rewrite HL. symmetry. apply Hhp.
  - intros i ci q y Hi Hq Hn. destruct (Hget _ _ Hi) as (Hne & Hi').
    destruct (g_next _ _ G _ _ _ _ Hi' Hq Hn) as (Hlt & Hy). split; auto. apply Hhp. auto.
Qed.

(* ================================================================ what one (possibly nested) destroy does to the forest *)
Definition ev_id (e : event) : nat := match e with EUnits i _ => i | EUd i _ => i | EFree i => i end.
Definition evs_of (i : nat) (evs : list event) : list event := filter (fun e => ev_id e =? i) evs.

(* the releases of one pool: its units, then its user data destructor (when one is set), then the struct *)
Definition block (i : nat) (c : cell) : list event :=
  EUnits i (length (p_units (c_pool c))) :: (if c_udfn c then [EUd i (c_ud c)] else []) ++ [EFree i].

Definition newly (f f' : forest) (x : nat) : Prop := (exists c, get f x = Some c) /\ get f' x = None.

(* the state a pool is left in when it loses the reference its dying parent held (or one reference of the caller) *)
Definition survivor (c : cell) : cell := with_parent (with_refs c (c_refs c - 1)) None.

Record post (R : list nat) (f f' : forest) (evs : list event) : Prop := {
  po_len : length (f_slots f') = length (f_slots f);
  po_fault : f_fault f' = f_fault f;
  po_dead : forall i, get f i = None -> get f' i = None;
  po_par : forall x q, haspar f' x q -> haspar f x q;
  po_att : attached f' <= attached f;
  po_log : f_log f' = f_log f ++ evs;
  po_data : forall i c c', get f i = Some c -> get f' i = Some c' ->
            c_pool c' = c_pool c /\ c_ud c' = c_ud c /\ c_udfn c' = c_udfn c /\ c_next c' = c_next c /\ c_children c' = c_children c;
  po_evs : forall i, (forall c, get f i = Some c -> get f' i = None -> evs_of i evs = block i c) /\
                     (get f i = None \/ get f' i <> None -> evs_of i evs = []);
  po_why : forall x c, get f x = Some c -> get f' x = None ->
           c_refs c = 1%Z /\ (In x R \/ exists y, c_parent c = Some y /\ newly f f' y);
  po_fate : forall x c, get f x = Some c -> (In x R \/ exists y, c_parent c = Some y /\ newly f f' y) ->
            (c_refs c = 1%Z -> get f' x = None) /\ (c_refs c <> 1%Z -> get f' x = Some (survivor c));
  po_keep : forall x c, get f x = Some c -> ~ In x R -> (forall y, c_parent c = Some y -> get f' y <> None) -> get f' x = Some c
}.

Definition frame (k : nat) (f f' : forest) : Prop := forall i, i < k -> get f' i = get f i.

Lemma evs_of_app : forall i a b, evs_of i (a ++ b) = evs_of i a ++ evs_of i b.
Proof. intros. unfold evs_of. apply filter_app. Qed.

Lemma evs_of_block_same : forall i c, evs_of i (block i c) = block i c.
Proof.
  intros i c. unfold block, evs_of. simpl. rewrite Nat.eqb_refl. f_equal.
  destruct (c_udfn c); simpl; rewrite !Nat.eqb_refl; reflexivity.
Qed.

Lemma evs_of_block_other : forall i j c, i <> j -> evs_of i (block j c) = [].
Proof.
  intros i j c Hne. unfold block, evs_of. simpl.
  assert (E : (j =? i) = false) by (apply Nat.eqb_neq; auto).
  rewrite E. destruct (c_udfn c); simpl; rewrite ?E; reflexivity.
Qed.

Lemma survivor_detached : forall c, survivor (with_parent c None) = survivor c.
Proof. intros c. reflexivity. Qed.

Lemma survivor_root : forall c, c_parent c = None -> survivor c = with_refs c (c_refs c - 1).
Proof. intros [r p k n pl u fn] H. simpl in H. subst p. reflexivity. Qed.

(* ---------------------------------------------------------------- the call that only drops a reference *)
Lemma post_keep : forall f p c, get f p = Some c -> c_parent c = None -> c_refs c <> 1%Z ->
  post [p] f (set f p (with_refs c (c_refs c - 1))) [].
Proof.
  intros f p c Hg Hpar Hr.
  pose proof (get_lt _ _ _ Hg) as Hp.
  set (f' := set f p (with_refs c (c_refs c - 1))).
  assert (Hsame : forall i, get f i = None <-> get f' i = None).
  { intros i. unfold f'. destruct (Nat.eq_dec i p) as [->|Hne].
    - rewrite get_set_eq, Hg by auto. split; discriminate.
    - rewrite get_set_neq by auto. tauto. }
  assert (Hnn : forall y, ~ newly f f' y).
  { intros y ((cy & Hy) & Hy'). apply Hsame in Hy'. congruence. }
  constructor.
  - apply len_set.
  - reflexivity.
  - intros i. apply Hsame.
  - intros x q Hh. apply (haspar_links _ _ _ _ (links_eq_sym _ _ (links_set_refs f p c (c_refs c - 1) Hg))). exact Hh.
  - pose proof (attached_set f p c (with_refs c (c_refs c - 1)) Hg) as HA. simpl in HA. fold f' in HA. lia.
  - simpl. rewrite app_nil_r. reflexivity.
  - intros i ci ci' Hi Hi'. unfold f' in Hi'. destruct (Nat.eq_dec i p) as [->|Hne].
    + rewrite get_set_eq in Hi' by auto. rewrite Hg in Hi. inversion Hi; inversion Hi'; subst. simpl. auto.
    + rewrite get_set_neq in Hi' by auto. rewrite Hi in Hi'. inversion Hi'; subst. auto.
  - intros i. split; [intros ci Hi Hi'; apply Hsame in Hi'; congruence | reflexivity].
  - intros x cx Hx Hx'. apply Hsame in Hx'. congruence.
  - intros x cx Hx [[<-|[]]|(y & _ & Hy)]; [|exfalso; eapply Hnn; eauto].
    rewrite Hg in Hx. inversion Hx; subst cx. split; [intros; contradiction|]. intros _.
    unfold f'. rewrite get_set_eq by auto. rewrite survivor_root; auto.
  - intros x cx Hx Hnr _. unfold f'. rewrite get_set_neq; auto. intros ->. apply Hnr. left; auto.
Qed.

Lemma post_nil : forall f, post [] f f [].
Proof.
  intros f.
  assert (Hnn : forall y, ~ newly f f y). { intros y ((cy & Hy) & Hy'). congruence. }
  constructor; auto.
  - rewrite app_nil_r; auto.
  - intros i c c' H H'. rewrite H in H'. inversion H'; subst. auto.
  - intros i. split; [intros ci Hi Hi'; congruence | reflexivity].
  - intros x c H H'. congruence.
  - intros x c H [[]|(y & _ & Hy)]. exfalso; eapply Hnn; eauto.
Qed.

Lemma block_data : forall i c c', c_pool c' = c_pool c -> c_ud c' = c_ud c -> c_udfn c' = c_udfn c -> block i c' = block i c.
Proof. intros i c c' A B C. unfold block. rewrite A, B, C. reflexivity. Qed.

Lemma newly_mid : forall f f2 f3 y, (forall i, get f2 i = None -> get f3 i = None) -> newly f f3 y ->
  get f2 y = None \/ exists c2, get f2 y = Some c2.
Proof. intros. destruct (get f2 y); eauto. Qed.

(* ---------------------------------------------------------------- one round of the child loop followed by the rest of it *)
Lemma post_cons : forall f a cc L' f2 f3 e1 e2,
  get f a = Some cc ->
  post [a] (set f a (with_parent cc None)) f2 e1 ->
  frame a (set f a (with_parent cc None)) f2 ->
  post L' f2 f3 e2 ->
  (forall x, In x L' -> x < a) ->
  post (a :: L') f f3 (e1 ++ e2).
Proof.
  intros f a cc L' f2 f3 e1 e2 Hga.
  set (f1 := set f a (with_parent cc None)).
  intros P1 Fr P2 Hlt.
  pose proof (get_lt _ _ _ Hga) as Ha.
  assert (G1 : forall i, i <> a -> get f1 i = get f i). { intros i Hne. unfold f1. rewrite get_set_neq; auto. }
  assert (Ga : get f1 a = Some (with_parent cc None)). { unfold f1. rewrite get_set_eq; auto. }
  assert (Hlv : forall i, get f i = None <-> get f1 i = None).
  { intros i. destruct (Nat.eq_dec i a) as [->|Hne]; [rewrite Hga, Ga; split; discriminate|rewrite G1 by auto; tauto]. }
  assert (HaL : ~ In a L'). { intros Hin. specialize (Hlt _ Hin). lia. }
  (* the cell of x in f1 *)
  assert (Hc1 : forall x c, get f x = Some c -> exists c1, get f1 x = Some c1 /\ c_refs c1 = c_refs c /\ c_pool c1 = c_pool c /\
                 c_ud c1 = c_ud c /\ c_udfn c1 = c_udfn c /\ c_next c1 = c_next c /\ c_children c1 = c_children c /\
                 (x <> a -> c1 = c) /\ (x = a -> c1 = with_parent cc None /\ c = cc)).
  { intros x c Hx. destruct (Nat.eq_dec x a) as [->|Hne].
    - rewrite Hga in Hx. inversion Hx; subst c. exists (with_parent cc None). simpl. repeat split; auto; try contradiction.
    - exists c. rewrite G1 by auto. repeat split; auto; try contradiction. }
  assert (Hnew12 : forall y, newly f1 f2 y -> newly f f3 y).
  { intros y ((cy & Hy) & Hy'). split.
    - destruct (get f y) eqn:E; eauto. apply Hlv in E. congruence.
    - apply (po_dead _ _ _ _ P2). auto. }
  assert (Hnew23 : forall y, newly f2 f3 y -> newly f f3 y).
  { intros y ((cy & Hy) & Hy'). split; auto.
    destruct (get f y) eqn:E; eauto. apply Hlv in E. apply (po_dead _ _ _ _ P1) in E. congruence. }
  constructor.
  - rewrite (po_len _ _ _ _ P2), (po_len _ _ _ _ P1). apply len_set.
  - rewrite (po_fault _ _ _ _ P2), (po_fault _ _ _ _ P1). reflexivity.
  - intros i Hi. apply (po_dead _ _ _ _ P2), (po_dead _ _ _ _ P1), Hlv, Hi.
  - intros x q Hh. apply (po_par _ _ _ _ P2), (po_par _ _ _ _ P1) in Hh. destruct Hh as (xc & Hx & Hq).
    destruct (Nat.eq_dec x a) as [->|Hne].
    + rewrite Ga in Hx. inversion Hx; subst xc. discriminate.
    + exists xc. rewrite <- G1; auto.
  - pose proof (po_att _ _ _ _ P2). pose proof (po_att _ _ _ _ P1).
    pose proof (attached_set f a cc (with_parent cc None) Hga) as HA. fold f1 in HA. simpl in HA.
    destruct (c_parent cc); simpl in HA; lia.
  - rewrite (po_log _ _ _ _ P2), (po_log _ _ _ _ P1). unfold f1. simpl. rewrite app_assoc. reflexivity.
  - intros i c c3 Hi Hi3.
    destruct (Hc1 _ _ Hi) as (c1 & Hi1 & _ & A1 & A2 & A3 & A4 & A5 & _).
    destruct (get f2 i) as [c2|] eqn:Hi2; [|apply (po_dead _ _ _ _ P2) in Hi2; congruence].
    destruct (po_data _ _ _ _ P1 _ _ _ Hi1 Hi2) as (B1 & B2 & B3 & B4 & B5).
    destruct (po_data _ _ _ _ P2 _ _ _ Hi2 Hi3) as (C1 & C2 & C3 & C4 & C5).
    repeat split; congruence.
  - intros i. rewrite evs_of_app. split.
    + intros c Hi Hi3.
      destruct (Hc1 _ _ Hi) as (c1 & Hi1 & _ & A1 & A2 & A3 & _).
      destruct (get f2 i) as [c2|] eqn:Hi2.
      * destruct (po_evs _ _ _ _ P1 i) as (_ & E1). rewrite E1 by (right; congruence).
        destruct (po_evs _ _ _ _ P2 i) as (E2 & _). rewrite (E2 _ Hi2 Hi3). simpl.
        destruct (po_data _ _ _ _ P1 _ _ _ Hi1 Hi2) as (B1 & B2 & B3 & _).
        apply block_data; congruence.
      * destruct (po_evs _ _ _ _ P1 i) as (E1 & _). rewrite (E1 _ Hi1 Hi2).
        destruct (po_evs _ _ _ _ P2 i) as (_ & E2). rewrite E2 by (left; auto). rewrite app_nil_r.
        apply block_data; auto.
    + intros Hor.
      assert (H2 : get f1 i = None \/ get f2 i <> None).
      { destruct Hor as [Hn|Hn]; [left; apply Hlv; auto|]. right. intros E. apply Hn. apply (po_dead _ _ _ _ P2). auto. }
      assert (H3 : get f2 i = None \/ get f3 i <> None).
      { destruct Hor as [Hn|Hn]; [left; apply (po_dead _ _ _ _ P1), Hlv; auto|right; auto]. }
      destruct (po_evs _ _ _ _ P1 i) as (_ & E1). destruct (po_evs _ _ _ _ P2 i) as (_ & E2).
      rewrite E1, E2; auto.
  - (* why *)
    intros x c Hx Hx3.
    destruct (Hc1 _ _ Hx) as (c1 & Hx1 & R1 & _ & _ & _ & _ & _ & Hne1 & Heq1).
    destruct (get f2 x) as [c2|] eqn:Hx2.
    + destruct (po_why _ _ _ _ P2 _ _ Hx2 Hx3) as (Hr & Hd).
      destruct Hd as [Hin|(y & Hy & Hny)].
      * assert (x < a) by auto. rewrite Fr, Hx1 in Hx2 by auto. inversion Hx2; subst c2.
        split; [congruence|]. left. right. auto.
      * assert (Hh : haspar f1 x y). { apply (po_par _ _ _ _ P1). exists c2; auto. }
        destruct Hh as (c1' & Hx1' & Hp1). rewrite Hx1 in Hx1'. inversion Hx1'; subst c1'.
        assert (Hxa : x <> a). { intros ->. destruct (Heq1 eq_refl) as [-> _]. discriminate. }
        rewrite (Hne1 Hxa) in *.
        assert (Hk : get f2 x = Some c).
        { apply (po_keep _ _ _ _ P1 _ _ Hx1); [intros [E|[]]; auto|].
          intros y' Hy'. rewrite Hp1 in Hy'. inversion Hy'; subst y'. destruct Hny as ((cy & Hcy) & _). congruence. }
        rewrite Hx2 in Hk. inversion Hk; subst c2.
        split; auto. right. exists y. split; auto.
    + destruct (po_why _ _ _ _ P1 _ _ Hx1 Hx2) as (Hr & Hd). split; [congruence|].
      destruct Hd as [[E|[]]|(y & Hy & Hny)].
      * left. left. auto.
      * assert (Hxa : x <> a). { intros ->. destruct (Heq1 eq_refl) as [-> _]. discriminate. }
        rewrite (Hne1 Hxa) in *. right. exists y. split; auto.
  - (* fate *)
    intros x c Hx Hd.
    destruct (Hc1 _ _ Hx) as (c1 & Hx1 & R1 & _ & _ & _ & _ & _ & Hne1 & Heq1).
    destruct (Nat.eq_dec x a) as [->|Hxa].
    + destruct (Heq1 eq_refl) as [-> ->].
      destruct (po_fate _ _ _ _ P1 _ _ Hx1 (or_introl (or_introl eq_refl))) as (F1 & F2). simpl in F1, F2. split.
      * intros Hr. apply (po_dead _ _ _ _ P2). auto.
      * intros Hr. apply (po_keep _ _ _ _ P2); auto. intros y Hy. discriminate.
    + rewrite (Hne1 Hxa) in *. clear Heq1.
      destruct (in_dec Nat.eq_dec x L') as [Hin|Hnin].
      * assert (x < a) by auto. assert (Hx2 : get f2 x = Some c). { rewrite Fr, Hx1; auto. }
        apply (po_fate _ _ _ _ P2 _ _ Hx2). left; auto.
      * destruct Hd as [[E|Hin]|(y & Hy & Hny)]; [congruence|contradiction|].
        destruct (get f2 y) as [cy2|] eqn:Hy2.
        -- assert (Hx2 : get f2 x = Some c).
           { apply (po_keep _ _ _ _ P1 _ _ Hx1); [intros [E|[]]; auto|].
             intros y' Hy'. rewrite Hy in Hy'. inversion Hy'; subst y'. congruence. }
           apply (po_fate _ _ _ _ P2 _ _ Hx2). right. exists y. split; auto. split; eauto. apply Hny.
        -- assert (Hn1 : newly f1 f2 y).
           { split; auto. destruct Hny as ((cy & Hcy) & _). destruct (get f1 y) eqn:E; eauto. apply Hlv in E. congruence. }
           destruct (po_fate _ _ _ _ P1 _ _ Hx1 (or_intror (ex_intro _ y (conj Hy Hn1)))) as (F1 & F2). split.
           ++ intros Hr. apply (po_dead _ _ _ _ P2). auto.
           ++ intros Hr. apply (po_keep _ _ _ _ P2); auto. intros y' Hy'. discriminate.
  - (* keep *)
    intros x c Hx Hnr Hpar.
    assert (Hxa : x <> a). { intros ->. apply Hnr. left; auto. }
    assert (Hx1 : get f1 x = Some c). { rewrite G1; auto. }
    assert (Hx2 : get f2 x = Some c).
    { apply (po_keep _ _ _ _ P1 _ _ Hx1); [intros [E|[]]; auto|].
      intros y Hy E. apply (Hpar y Hy). apply (po_dead _ _ _ _ P2). auto. }
    apply (po_keep _ _ _ _ P2 _ _ Hx2); auto. intros Hin. apply Hnr. right; auto.
Qed.

(* ---------------------------------------------------------------- the tail of iwpool_destroy: units, user data, free(pool) *)
Definition release (f : forest) (p : nat) (c : cell) : forest :=
  let f4 := emit f (EUnits p (length (p_units (c_pool c)))) in
  let f5 := if c_udfn c then emit f4 (EUd p (c_ud c)) else f4 in
  emit (set_slot f5 p Freed) (EFree p).

Lemma release_slots : forall f p c, f_slots (release f p c) = upd (f_slots f) p Freed.
Proof. intros f p c. unfold release. destruct (c_udfn c); reflexivity. Qed.

Lemma release_fault : forall f p c, f_fault (release f p c) = f_fault f.
Proof. intros f p c. unfold release. destruct (c_udfn c); reflexivity. Qed.

Lemma release_log : forall f p c, f_log (release f p c) = f_log f ++ block p c.
Proof.
  intros f p c. unfold release, block. destruct (c_udfn c); simpl; rewrite <- ?app_assoc; reflexivity.
Qed.

Lemma get_release : forall f p c i, get (release f p c) i = if i =? p then None else get f i.
Proof.
  intros f p c i. unfold get at 1. rewrite release_slots.
  change (get (set_slot f p Freed) i = if i =? p then None else get f i).
  destruct (Nat.eqb_spec i p) as [->|Hne]; [apply get_free_eq|apply get_free_neq; auto].
Qed.

Lemma len_release : forall f p c, length (f_slots (release f p c)) = length (f_slots f).
Proof. intros. rewrite release_slots. apply upd_length. Qed.

Lemma attached_release : forall f p c c', get f p = Some c' -> attached (release f p c) <= attached f.
Proof.
  intros f p c c' H. unfold attached. rewrite release_slots. exact (attached_free f p c' H).
Qed.

Lemma post_release : forall f p c L f3 e,
  get f p = Some c -> c_refs c = 1%Z -> c_parent c = None ->
  post L (set f p (with_refs c 0)) f3 e ->
  (forall x, In x L <-> haspar f x p) ->
  get f3 p = Some (with_refs c 0) ->
  post [p] f (release f3 p (with_refs c 0)) (e ++ block p c).
Proof.
  intros f p c L f3 e Hg Hr Hpar.
  set (f1 := set f p (with_refs c 0)). set (c3 := with_refs c 0). set (f' := release f3 p c3).
  intros P HL Hg3.
  pose proof (get_lt _ _ _ Hg) as Hp.
  assert (G1 : forall i, i <> p -> get f1 i = get f i). { intros i Hne. unfold f1. rewrite get_set_neq; auto. }
  assert (Gp : get f1 p = Some c3). { unfold f1. rewrite get_set_eq; auto. }
  assert (Hlv : forall i, get f i = None <-> get f1 i = None).
  { intros i. destruct (Nat.eq_dec i p) as [->|Hne]; [rewrite Hg, Gp; split; discriminate|rewrite G1 by auto; tauto]. }
  assert (R1 : get f' p = None). { unfold f'. rewrite get_release, Nat.eqb_refl. auto. }
  assert (R2 : forall i, i <> p -> get f' i = get f3 i).
  { intros i Hne. unfold f'. rewrite get_release. destruct (Nat.eqb_spec i p); [contradiction|auto]. }
  assert (Hblk : block p c3 = block p c). { apply block_data; reflexivity. }
  assert (Hnp : newly f f' p). { split; eauto. }
  constructor.
  - unfold f'. rewrite len_release, (po_len _ _ _ _ P). apply len_set.
  - unfold f'. rewrite release_fault, (po_fault _ _ _ _ P). reflexivity.
  - intros i Hi. destruct (Nat.eq_dec i p) as [->|Hne]; auto. rewrite R2 by auto. apply (po_dead _ _ _ _ P), Hlv, Hi.
  - intros x q (xc & Hx & Hq). destruct (Nat.eq_dec x p) as [->|Hne]; [congruence|]. rewrite R2 in Hx by auto.
    assert (Hh : haspar f1 x q). { apply (po_par _ _ _ _ P). exists xc; auto. }
    destruct Hh as (xc1 & Hx1 & Hq1). exists xc1. rewrite <- G1; auto.
  - pose proof (po_att _ _ _ _ P). pose proof (attached_release f3 p c3 _ Hg3).
    assert (HA : attached f1 = attached f).
    { pose proof (attached_set f p c (with_refs c 0) Hg) as HA. simpl in HA. rewrite Hpar in HA. simpl in HA. unfold f1. lia. }
    unfold f'. lia.
  - unfold f'. rewrite release_log, (po_log _ _ _ _ P), Hblk. unfold f1. simpl. rewrite app_assoc. reflexivity.
  - intros i c0 c' Hi Hi'. destruct (Nat.eq_dec i p) as [->|Hne]; [congruence|]. rewrite R2 in Hi' by auto.
    apply (po_data _ _ _ _ P i); auto. rewrite G1; auto.
  - intros i. rewrite evs_of_app. destruct (Nat.eq_dec i p) as [->|Hne].
    + destruct (po_evs _ _ _ _ P p) as (_ & E). rewrite E by (right; congruence). rewrite app_nil_l, evs_of_block_same. split.
      * intros c0 Hc0 _. congruence.
      * intros [E'|E']; congruence.
    + rewrite evs_of_block_other by auto. rewrite app_nil_r. rewrite R2 by auto.
      destruct (po_evs _ _ _ _ P i) as (E1 & E2). split.
      * intros c0 Hc0 Hn. apply E1; auto. rewrite G1; auto.
      * intros [Hn|Hn]; apply E2; [left; apply Hlv; auto|right; auto].
  - intros x c0 Hx Hx'. destruct (Nat.eq_dec x p) as [->|Hne].
    + rewrite Hg in Hx. inversion Hx; subst c0. split; auto. left; left; auto.
    + rewrite R2 in Hx' by auto. assert (Hx1 : get f1 x = Some c0) by (rewrite G1; auto).
      destruct (po_why _ _ _ _ P _ _ Hx1 Hx') as (Hr0 & Hd). split; auto. right.
      destruct Hd as [Hin|(y & Hy & (cy & Hcy) & Hy3)].
      * apply HL in Hin. destruct Hin as (xc & Hxc & Hq). rewrite Hx in Hxc. inversion Hxc; subst xc. exists p. split; auto.
      * exists y. split; auto. split.
        -- destruct (get f y) eqn:E; eauto. apply Hlv in E. congruence.
        -- destruct (Nat.eq_dec y p) as [->|Hny]; auto. rewrite R2; auto.
  - intros x c0 Hx Hd. destruct (Nat.eq_dec x p) as [->|Hne].
    + rewrite Hg in Hx. inversion Hx; subst c0. split; auto. intros; contradiction.
    + rewrite R2 by auto. assert (Hx1 : get f1 x = Some c0) by (rewrite G1; auto).
      destruct Hd as [[E|[]]|(y & Hy & (cy & Hcy) & Hy')]; [congruence|].
      destruct (Nat.eq_dec y p) as [->|Hny].
      * apply (po_fate _ _ _ _ P _ _ Hx1). left. apply HL. exists c0; auto.
      * apply (po_fate _ _ _ _ P _ _ Hx1). right. exists y. split; auto. split.
        -- destruct (get f1 y) eqn:E; eauto. apply Hlv in E. congruence.
        -- rewrite <- R2; auto.
  - intros x c0 Hx Hnr Hpy.
    assert (Hne : x <> p). { intros ->. apply Hnr. left; auto. }
    rewrite R2 by auto. apply (po_keep _ _ _ _ P); [rewrite G1; auto| |].
    + intros Hin. apply HL in Hin. destruct Hin as (xc & Hxc & Hq). rewrite Hx in Hxc. inversion Hxc; subst xc.
      apply (Hpy p Hq). auto.
    + intros y Hy E. apply (Hpy y Hy). destruct (Nat.eq_dec y p) as [->|Hny]; auto. rewrite R2; auto.
Qed.

(* ================================================================ the recursion of iwpool_destroy (the code: clr = true) *)
Lemma destroy_S : forall clr fuel f p, destroy clr (S fuel) f p =
    match get f p with
    | None => (fault f, false)
    | Some c =>
      let n := (c_refs c - 1)%Z in
      let f1 := set f p (with_refs c n) in
      if (0 <? n)%Z then (f1, false)
      else
        let f2 := match c_parent c with Some q => prc f1 q p | None => f1 end in
        match get f2 p with
        | None => (fault f2, false)
        | Some c2 =>
          let f3 := destroy_kids clr fuel f2 (c_children c2) in
          match get f3 p with
          | None => (fault f3, false)
          | Some c3 => (release f3 p c3, true)
          end
        end
    end.
Proof. reflexivity. Qed.

Lemma kids_S : forall clr fuel f c, destroy_kids clr (S fuel) f c =
  match c with
  | None => f
  | Some ci =>
    match get f ci with
    | None => fault f
    | Some cc => destroy_kids clr fuel (fst (destroy clr fuel (if clr then set f ci (with_parent cc None) else f) ci)) (c_next cc)
    end
  end.
Proof. reflexivity. Qed.

Lemma kids_None : forall clr fuel f, destroy_kids clr fuel f None = f.
Proof. intros clr [|fuel] f; reflexivity. Qed.

Lemma destroy_mut : forall fuel,
  (forall D f p c, ginv D f -> ~ In p D -> get f p = Some c -> c_parent c = None -> 2 * attached f + 2 <= fuel ->
     exists f' r evs, destroy true fuel f p = (f', r) /\ ginv D f' /\ post [p] f f' evs /\ frame p f f' /\
       r = (c_refs c =? 1)%Z)
  /\
  (forall D f q L ub cn, ginv D f -> In q D -> get f q <> None -> chain f ub cn L -> (forall x, In x L <-> haspar f x q) ->
     2 * attached f + 1 <= fuel ->
     exists f' evs, destroy_kids true fuel f cn = f' /\ ginv D f' /\ post L f f' evs /\ frame (S q) f f' /\
       (forall x, ~ haspar f' x q)).
Proof.
  induction fuel as [|fuel [IHd IHk]].
  { split; intros; lia. }
  split.
  - (* iwpool_destroy *)
    intros D f p c G HpD Hg Hpar Hfuel.
    pose proof (get_lt _ _ _ Hg) as Hp.
    pose proof (g_refs _ _ G _ _ Hg HpD) as Hr1.
    rewrite destroy_S, Hg. cbv zeta.
    destruct (0 <? c_refs c - 1)%Z eqn:En.
    + apply Z.ltb_lt in En.
      exists (set f p (with_refs c (c_refs c - 1))), false, [].
      split; [reflexivity|]. split; [apply ginv_refs; auto; lia|]. split; [apply post_keep; auto; lia|]. split.
      * intros i Hi. apply get_set_neq. lia.
      * symmetry. apply Z.eqb_neq. lia.
    + apply Z.ltb_ge in En. assert (Hr : c_refs c = 1%Z) by lia.
      rewrite Hpar. replace (c_refs c - 1)%Z with 0%Z by lia.
      set (f1 := set f p (with_refs c 0)).
      assert (Gp : get f1 p = Some (with_refs c 0)). { unfold f1. apply get_set_eq; auto. }
      rewrite Gp. change (c_children (with_refs c 0)) with (c_children c).
      destruct (g_kids _ _ G _ _ Hg HpD) as (L & Hch & HL).
      pose proof (links_set_refs f p c 0 Hg) as Hlk. fold f1 in Hlk.
      assert (G1 : ginv (p :: D) f1). { apply ginv_dying; auto. }
      assert (HA : attached f1 = attached f).
      { pose proof (attached_set f p c (with_refs c 0) Hg) as HA. simpl in HA. rewrite Hpar in HA. simpl in HA. unfold f1. lia. }
      destruct (IHk (p :: D) f1 p L (length (f_slots f)) (c_children c) G1) as (f3 & e & Hk & G3 & P3 & Fr3 & Hnk).
      { left; auto. } { congruence. } { apply (chain_links _ _ _ _ _ Hlk). auto. }
      { intros x. rewrite HL. split; apply haspar_links; auto. apply links_eq_sym; auto. }
      { lia. }
      rewrite Hk.
      assert (Hg3 : get f3 p = Some (with_refs c 0)). { rewrite Fr3 by lia. auto. }
      rewrite Hg3.
      exists (release f3 p (with_refs c 0)), true, (e ++ block p c).
      split; [reflexivity|]. split; [|split; [|split]].
      * eapply ginv_free; eauto.
        -- apply len_release.
        -- apply release_fault.
        -- rewrite get_release, Nat.eqb_refl. auto.
        -- intros i Hne. rewrite get_release. destruct (Nat.eqb_spec i p); [contradiction|auto].
      * apply post_release with (L := L); auto.
      * intros i Hi. rewrite get_release. destruct (Nat.eqb_spec i p); [lia|]. rewrite Fr3 by lia. unfold f1. apply get_set_neq. lia.
      * rewrite Hr. reflexivity.
  - (* the child loop *)
    intros D f q L ub cn G HqD Hq Hch HL Hfuel.
    destruct cn as [a|].
    + destruct L as [|a' L']; simpl in Hch; [discriminate|].
      destruct Hch as (Ea & Hub & cc & Hga & Hch'). inversion Ea; subst a'. clear Ea.
      rewrite kids_S, Hga.
      assert (Hpa : c_parent cc = Some q).
      { assert (Hh : haspar f a q) by (apply HL; left; auto). destruct Hh as (xc & Hx & Hxq). congruence. }
      assert (HaD : ~ In a D). { intros Hin. rewrite (g_dying _ _ G _ _ Hga Hin) in Hpa. discriminate. }
      destruct (g_parent _ _ G _ _ _ Hga Hpa) as (Hqa & _).
      pose proof (get_lt _ _ _ Hga) as Ha.
      set (f1 := set f a (with_parent cc None)).
      assert (Hchain : chain f ub (Some a) (a :: L')). { simpl. split; auto. split; auto. exists cc; auto. }
      assert (G1 : ginv D f1). { eapply ginv_detach; eauto. }
      assert (Ga : get f1 a = Some (with_parent cc None)). { unfold f1. apply get_set_eq; auto. }
      assert (G1o : forall i, i <> a -> get f1 i = get f i). { intros i Hne. unfold f1. apply get_set_neq; auto. }
      assert (HA : attached f1 + 1 = attached f).
      { pose proof (attached_set f a cc (with_parent cc None) Hga) as HA. simpl in HA. rewrite Hpa in HA. simpl in HA. unfold f1. lia. }
      destruct (IHd D f1 a (with_parent cc None) G1 HaD Ga eq_refl) as (f2 & r & e1 & Hd & G2 & P2 & Fr2 & _). { lia. }
      rewrite Hd. simpl fst.
      assert (HltL : forall x, In x L' -> x < a). { intros x Hx. exact (chain_lt _ _ _ _ Hch' x Hx). }
      assert (Hsame : forall i, i < a -> get f2 i = get f i). { intros i Hi. rewrite Fr2 by auto. apply G1o. lia. }
      destruct (IHk D f2 q L' a (c_next cc) G2 HqD) as (f3 & e2 & Hk & G3 & P3 & Fr3 & Hnk).
      { rewrite Hsame; auto. }
      { eapply chain_ext; [|exact Hch']. intros x xc Hx Hgx. exists xc. split; auto. rewrite Hsame; auto. }
      { intros x. split.
        - intros Hx. assert (Hh : haspar f x q) by (apply HL; right; auto).
          destruct Hh as (xc & Hgx & Hxq). exists xc. split; auto. rewrite Hsame; auto.
        - intros Hh. apply (po_par _ _ _ _ P2) in Hh. destruct Hh as (xc & Hgx & Hxq).
          destruct (Nat.eq_dec x a) as [->|Hne]; [rewrite Ga in Hgx; inversion Hgx; subst xc; discriminate|].
          rewrite G1o in Hgx by auto.
          assert (Hin : In x (a :: L')) by (apply HL; exists xc; auto).
          destruct Hin as [E|Hin]; [congruence|auto]. }
      { pose proof (po_att _ _ _ _ P2). lia. }
      rewrite Hk. exists f3, (e1 ++ e2).
      split; [reflexivity|]. split; [auto|]. split; [|split; [|auto]].
      * eapply post_cons; eauto.
      * intros i Hi. rewrite Fr3 by auto. apply Hsame. lia.
    + destruct L as [|a' L']; simpl in Hch; [|destruct Hch; discriminate].
      rewrite kids_None. exists f, []. split; [reflexivity|]. split; [auto|]. split; [apply post_nil|]. split.
      * intros i _. reflexivity.
      * intros x Hh. apply HL in Hh. contradiction.
Qed.

(* ================================================================ _parent_remove_child: surgery on the sibling chain *)
Fixpoint lst (l : list nat) (d : nat) : nat := match l with [] => d | x :: t => lst t x end.

Lemma lst_in : forall l d, l <> [] -> In (lst l d) l.
Proof.
  induction l as [|x t IH]; intros d H; [congruence|]. simpl.
  destruct t as [|y t']; [left; reflexivity|]. right. apply IH. discriminate.
Qed.

Lemma lst_indep : forall l d d', l <> [] -> lst l d = lst l d'.
Proof. intros [|x t] d d' H; [congruence|reflexivity]. Qed.

Lemma chain_split_order : forall L1 f ub o p L2, chain f ub o (L1 ++ p :: L2) ->
  (forall x, In x L1 -> p < x) /\ (forall x, In x L2 -> x < p) /\ exists cp, get f p = Some cp /\ chain f p (c_next cp) L2.
Proof.
  induction L1 as [|a L1 IH]; intros f ub o p L2 H; simpl in H.
  - destruct H as (_ & _ & cp & Hg & Hc). split; [intros x []|]. split; [exact (chain_lt _ _ _ _ Hc)|eauto].
  - destruct H as (_ & _ & xc & Hg & Hc). destruct (IH _ _ _ _ _ Hc) as (A & B & C). split; [|auto].
    intros x [<-|Hx]; auto. apply (chain_lt _ _ _ _ Hc). apply in_or_app. right. left. auto.
Qed.

(* the only member of the chain whose next pointer is p is the one right before p *)
Lemma chain_pred_unique : forall L1 f ub o p L2 i ci d, chain f ub o (L1 ++ p :: L2) ->
  In i (L1 ++ p :: L2) -> get f i = Some ci -> c_next ci = Some p -> L1 <> [] /\ i = lst L1 d.
Proof.
  induction L1 as [|a L1 IH]; intros f ub o p L2 i ci d H Hi Hg Hn.
  - exfalso. simpl in *. destruct H as (-> & Hub & xc & Hgp & Hc).
    refine (chain_head_max f (p :: L2) ub p i ci _ Hi Hg Hn). simpl. split; auto. split; auto. eauto.
  - split; [discriminate|].
    pose proof (chain_split_order _ _ _ _ _ _ H) as (Hgt & _).
    simpl in H. destruct H as (_ & _ & xc & Hga & Hc). destruct Hi as [<-|Hi].
    + rewrite Hg in Hga. inversion Hga; subst xc. rewrite Hn in Hc.
      destruct L1 as [|b L1']; [reflexivity|]. simpl in Hc. destruct Hc as (E & _). inversion E; subst b.
      specialize (Hgt p (or_intror (or_introl eq_refl))). lia.
    + destruct (IH _ _ _ _ _ _ _ a Hc Hi Hg Hn) as (Hne & E). simpl. exact E.
Qed.

(* the chain without p, read in a forest g whose next pointers are those of f except that the predecessor of p now
   points to the successor of p *)
Lemma chain_unlink : forall L1 f g ub o p cp L2,
  chain f ub o (L1 ++ p :: L2) -> get f p = Some cp ->
  (forall x xc, In x (L1 ++ L2) -> (L1 = [] \/ x <> lst L1 0) -> get f x = Some xc ->
     exists xc', get g x = Some xc' /\ c_next xc' = c_next xc) ->
  (L1 <> [] -> exists pc', get g (lst L1 0) = Some pc' /\ c_next pc' = c_next cp) ->
  chain g ub (match L1 with [] => c_next cp | _ => o end) (L1 ++ L2).
Proof.
  induction L1 as [|a L1 IH]; intros f g ub o p cp L2 H Hgp Hoth Hprev.
  - simpl in *. destruct H as (_ & Hub & xc & Hg & Hc). rewrite Hgp in Hg. inversion Hg; subst xc.
    apply chain_weaken with (ub := p); [|lia].
    eapply chain_ext; [|exact Hc]. intros x xc Hx Hgx. apply (Hoth x xc); auto.
  - pose proof (chain_split_order _ _ _ _ _ _ H) as (Hgt & Hlt & _).
    simpl in H. destruct H as (Ho & Hub & xc & Hga & Hc).
    simpl. split; [auto|]. split; [auto|].
    destruct L1 as [|b L1'].
    + (* a is the predecessor of p *)
      destruct Hprev as (pc' & Hpc & Hpn); [discriminate|]. simpl in Hpc. exists pc'. split; auto. rewrite Hpn.
      apply (IH f g a (c_next xc) p cp L2 Hc Hgp).
      * intros x xc0 Hx _ Hgx. apply (Hoth x xc0); auto. { right. auto. }
        right. simpl. simpl in Hx. specialize (Hlt x Hx). specialize (Hgt a (or_introl eq_refl)). lia.
      * intros Hne. congruence.
    + assert (Hane : a <> lst (a :: b :: L1') 0).
      { simpl. pose proof (lst_in (b :: L1') b) as Hin. specialize (Hin ltac:(discriminate)). simpl in Hin.
        assert (In (lst L1' b) (b :: L1' ++ p :: L2)).
        { destruct Hin as [E|Hin]; [left; auto|right; apply in_or_app; left; auto]. }
        pose proof (chain_lt _ _ _ _ Hc _ H). lia. }
      destruct (Hoth a xc) as (xc' & Hgx' & Hnx'); auto. { left; auto. }
      exists xc'. split; auto. rewrite Hnx'.
      apply (IH f g a (c_next xc) p cp L2 Hc Hgp).
      * intros x xc0 Hx Hd Hgx. apply (Hoth x xc0); auto. { right; auto. }
        right. destruct Hd as [Hd|Hd]; [discriminate|]. exact Hd.
      * intros _. apply Hprev. discriminate.
Qed.

Definition unlink (f : forest) (q p : nat) (cp : cell) (prev : option nat) : forest :=
  let f1 := set f p (with_parent cp None) in
  match prev with
  | Some pi => match get f1 pi with None => fault f1 | Some pc => set f1 pi (with_next pc (c_next cp)) end
  | None => match get f1 q with None => fault f1 | Some qc => set f1 q (with_children qc (c_next cp)) end
  end.

Definition prev_of (L1 : list nat) (prev : option nat) : option nat :=
  match L1 with [] => prev | _ => Some (lst L1 0) end.

Lemma prc_walk_spec : forall L1 fuel f q p prev o ub L2 cp,
  chain f ub o (L1 ++ p :: L2) -> ~ In p L1 -> get f p = Some cp -> ub <= fuel ->
  prc_walk fuel f q p prev o = unlink f q p cp (prev_of L1 prev).
Proof.
  induction L1 as [|a L1 IH]; intros fuel f q p prev o ub L2 cp H Hnp Hgp Hfuel; simpl in H.
  - destruct H as (-> & Hub & _). destruct fuel as [|fuel]; [lia|]. simpl. rewrite Nat.eqb_refl, Hgp. reflexivity.
  - destruct H as (-> & Hub & xc & Hga & Hc). destruct fuel as [|fuel]; [lia|]. simpl.
    assert (Hap : a <> p). { intros ->. apply Hnp. left; auto. }
    destruct (Nat.eqb_spec a p); [contradiction|]. rewrite Hga.
    rewrite (IH fuel f q p (Some a) (c_next xc) a L2 cp Hc); auto; [|intros Hin; apply Hnp; right; auto|lia].
    f_equal. unfold prev_of. destruct L1 as [|b L1']; reflexivity.
Qed.

Lemma upd_upd_eq : forall A (l : list A) i a b, upd (upd l i a) i b = upd l i b.
Proof. induction l as [|h t IH]; intros [|i] a b; simpl; auto. f_equal. apply IH. Qed.

Lemma upd_comm : forall A (l : list A) i j a b, i <> j -> upd (upd l i a) j b = upd (upd l j b) i a.
Proof.
  induction l as [|h t IH]; intros [|i] [|j] a b Hij; simpl; auto; try congruence. f_equal. apply IH. auto.
Qed.

(* p detached from its parent q in a state where nothing is being destroyed: the result is such a state again *)
Lemma ginv_unlink : forall f q p c qc L1 L2,
  ginv [] f -> get f p = Some c -> c_parent c = Some q -> get f q = Some qc ->
  chain f (length (f_slots f)) (c_children qc) (L1 ++ p :: L2) -> (forall x, In x (L1 ++ p :: L2) <-> haspar f x q) ->
  ginv [] (unlink f q p c (prev_of L1 None)).
Proof.
  intros f q p c qc L1 L2 G Hgp Hpar Hgq Hch HL.
  pose proof (chain_split_order _ _ _ _ _ _ Hch) as (Hgt & Hlt & cp0 & Hgp0 & Hch2).
  rewrite Hgp in Hgp0. inversion Hgp0; subst cp0. clear Hgp0.
  destruct (g_parent _ _ G _ _ _ Hgp Hpar) as (Hqp & _).
  pose proof (get_lt _ _ _ Hgp) as Hp. pose proof (get_lt _ _ _ Hgq) as Hq.
  set (cp' := with_parent c None).
  assert (HpL : ~ In p (L1 ++ L2)).
  { intros Hin. apply in_app_or in Hin. destruct Hin as [Hin|Hin]; [specialize (Hgt _ Hin)|specialize (Hlt _ Hin)]; lia. }
  (* the second cell that changes: the parent (p was the head of the chain) or the predecessor of p *)
  assert (HX : exists X xc xc', X <> p /\ get f X = Some xc /\
             unlink f q p c (prev_of L1 None) = set (set f p cp') X xc' /\
             c_refs xc' = c_refs xc /\ c_parent xc' = c_parent xc /\
             ((L1 = [] /\ X = q /\ c_next xc' = c_next xc /\ c_children xc' = c_next c) \/
              (L1 <> [] /\ X = lst L1 0 /\ c_next xc' = c_next c /\ c_children xc' = c_children xc /\ c_next xc = Some p))).
  { destruct L1 as [|a L1'] eqn:EL.
    - exists q, qc, (with_children qc (c_next c)). split; [lia|]. split; [auto|]. split.
      + unfold unlink, prev_of. rewrite get_set_neq by lia. rewrite Hgq. reflexivity.
      + split; [reflexivity|]. split; [reflexivity|]. left. auto.
    - rewrite <- EL in *. assert (Hne : L1 <> []) by (rewrite EL; discriminate).
      pose proof (lst_in L1 0 Hne) as Hin.
      assert (Hh : haspar f (lst L1 0) q). { apply HL. apply in_or_app. left; auto. }
      destruct Hh as (pc & Hgpc & Hpq).
      assert (Hxp : lst L1 0 <> p). { specialize (Hgt _ Hin). lia. }
      assert (Hnx : c_next pc = Some p).
      { (* the element before p *)
        clear - Hch Hne Hgpc. revert Hch Hgpc. generalize (length (f_slots f)) as ub. generalize (c_children qc) as o.
        induction L1 as [|a L IH]; intros o ub Hch Hg; [congruence|].
        simpl in Hch. destruct Hch as (_ & _ & xc & Hga & Hc).
        destruct L as [|b L'].
        - simpl in *. rewrite Hg in Hga. inversion Hga; subst xc. destruct Hc as (E & _). auto.
        - apply (IH ltac:(discriminate) _ _ Hc). exact Hg. }
      exists (lst L1 0), pc, (with_next pc (c_next c)). split; [auto|]. split; [auto|]. split.
      + unfold unlink, prev_of. rewrite EL. rewrite <- EL. rewrite get_set_neq by auto. rewrite Hgpc. reflexivity.
      + split; [reflexivity|]. split; [reflexivity|]. right. repeat split; auto. }
  destruct HX as (X & xc & xc' & HXp & HgX & -> & HXr & HXpar & Hcase).
  pose proof (get_lt _ _ _ HgX) as HXlt.
  set (g := set (set f p cp') X xc').
  assert (GX : get g X = Some xc'). { unfold g. apply get_set_eq. rewrite len_set. auto. }
  assert (Gp : get g p = Some cp'). { unfold g. rewrite get_set_neq by auto. apply get_set_eq. auto. }
  assert (Go : forall i, i <> X -> i <> p -> get g i = get f i).
  { intros i H1 H2. unfold g. rewrite !get_set_neq by auto. reflexivity. }
  assert (Hcases : forall i ci, get g i = Some ci ->
            (i = p /\ ci = cp') \/ (i = X /\ ci = xc') \/ (i <> p /\ i <> X /\ get f i = Some ci)).
  { intros i ci Hi. destruct (Nat.eq_dec i X) as [->|H1]; [right; left; split; congruence|].
    destruct (Nat.eq_dec i p) as [->|H2]; [left; split; congruence|]. right; right. rewrite Go in Hi; auto. }
  assert (Hlive : forall i ci, get f i = Some ci -> exists ci', get g i = Some ci').
  { intros i ci Hi. destruct (Nat.eq_dec i X) as [->|H1]; [eauto|]. destruct (Nat.eq_dec i p) as [->|H2]; [eauto|].
    rewrite Go; eauto. }
  assert (Hhp : forall x q', haspar g x q' <-> haspar f x q' /\ x <> p).
  { intros x q'. split.
    - intros (ci & Hi & Hq'). destruct (Hcases _ _ Hi) as [[-> ->]|[[-> ->]|(H1 & H2 & Hi')]].
      + discriminate.
      + split; auto. exists xc. split; auto. congruence.
      + split; auto. exists ci; auto.
    - intros ((ci & Hi & Hq') & Hne). destruct (Nat.eq_dec x X) as [->|H1].
      + exists xc'. split; auto. rewrite Hi in HgX. inversion HgX; subst. congruence.
      + exists ci. split; auto. rewrite Go; auto. }
  assert (Hlen : length (f_slots g) = length (f_slots f)). { unfold g. rewrite !len_set. reflexivity. }
  constructor.
  - apply G.
  - intros i ci Hi _. destruct (Hcases _ _ Hi) as [[-> ->]|[[-> ->]|(H1 & H2 & Hi')]].
    + simpl. eapply g_refs; eauto.
    + rewrite HXr. eapply g_refs; eauto.
    + eapply g_refs; eauto.
  - intros i ci _ [].
  - intros i ci q' Hi Hq'.
    assert (Hh : haspar f i q') by (apply Hhp; exists ci; auto).
    destruct Hh as (ci0 & Hi0 & Hq0). destruct (g_parent _ _ G _ _ _ Hi0 Hq0) as (Hlt' & qc' & Hgq').
    split; auto. eapply Hlive; eauto.
  - intros q' qc' Hq' _.
    destruct (Nat.eq_dec q' q) as [->|Hqq].
    + (* the chain of q without p *)
      exists (L1 ++ L2). split.
      * assert (Hhead : c_children qc' = match L1 with [] => c_next c | _ => c_children qc end).
        { destruct Hcase as [(-> & -> & _ & Hc')|(Hne & -> & _ & _ & _)].
          - rewrite GX in Hq'. inversion Hq'; subst. auto.
          - destruct L1; [congruence|]. rewrite Go in Hq'.
            + congruence.
            + intros E. pose proof (lst_in _ 0 Hne) as Hin. rewrite <- E in Hin. specialize (Hgt _ Hin). lia.
            + lia. }
        rewrite Hhead, Hlen. eapply chain_unlink; eauto.
        -- intros x cx Hx Hd Hgx.
           assert (x <> p). { intros ->. auto. }
           destruct (Nat.eq_dec x X) as [->|HxX].
           ++ destruct Hcase as [(_ & -> & Hn' & _)|(Hne & -> & _)].
              ** exists xc'. rewrite Hgx in HgX. inversion HgX; subst. auto.
              ** destruct Hd; congruence.
           ++ exists cx. rewrite Go; auto.
        -- intros Hne. destruct Hcase as [(-> & _)|(_ & -> & Hn' & _)]; [congruence|]. exists xc'. auto.
      * intros x. rewrite Hhp, <- HL. rewrite !in_app_iff. simpl. split.
        -- intros Hx. split; [tauto|]. intros ->. apply HpL. apply in_or_app. auto.
        -- intros ([|[|]] & Hne); auto. congruence.
    + assert (Hq0 : exists qc0, get f q' = Some qc0 /\ c_children qc0 = c_children qc').
      { destruct (Hcases _ _ Hq') as [[-> ->]|[[-> ->]|(H1 & H2 & Hi')]]; eauto.
        destruct Hcase as [(_ & -> & _)|(_ & _ & _ & Hc' & _)]; [congruence|eauto]. }
      destruct Hq0 as (qc0 & Hq0 & Hc0).
      destruct (g_kids _ _ G _ _ Hq0) as (L' & Hc' & HL'); auto.
      exists L'. rewrite Hlen, <- Hc0. split.
      * eapply chain_ext; [|exact Hc']. intros x cx Hx Hgx.
        assert (Hh : haspar f x q') by (apply HL'; auto).
        assert (x <> p). { intros ->. destruct Hh as (? & A & B). congruence. }
        destruct (Nat.eq_dec x X) as [->|HxX].
        -- exists xc'. split; auto. rewrite Hgx in HgX. inversion HgX; subst cx.
           destruct Hcase as [(_ & _ & Hn' & _)|(Hne & EX & _)]; auto.
           exfalso.
           assert (Hh2 : haspar f X q). { apply HL. apply in_or_app. left. rewrite EX. apply lst_in; auto. }
           destruct Hh as (c1 & A & B). destruct Hh2 as (c2 & A' & B'). rewrite A in A'. inversion A'; subst c2. congruence.
        -- exists cx. rewrite Go; auto.
      * intros x. rewrite HL', Hhp. split; [|tauto]. intros Hh. split; auto. intros ->.
        destruct Hh as (? & A & B). congruence.
  - intros i ci q' y Hi Hq' Hn.
    destruct (Hcases _ _ Hi) as [[-> ->]|[[-> ->]|(H1 & H2 & Hi')]].
    + discriminate.
    + destruct Hcase as [(_ & -> & Hn' & _)|(Hne & EX & Hn' & _ & Hnp)].
      * rewrite HXpar in Hq'. rewrite Hn' in Hn. destruct (g_next _ _ G _ _ _ _ HgX Hq' Hn) as (Hlt' & Hy).
        split; auto. apply Hhp. split; auto. lia.
      * rewrite Hn' in Hn. destruct (g_next _ _ G _ _ _ _ Hgp Hpar Hn) as (Hlt' & Hy).
        assert (Hin : In X L1). { rewrite EX. apply lst_in; auto. }
        specialize (Hgt _ Hin).
        assert (q' = q). { assert (Hh2 : haspar f X q) by (apply HL; apply in_or_app; left; auto).
                           destruct Hh2 as (? & A' & B'). congruence. }
        subst q'. split; [lia|]. apply Hhp. split; auto. lia.
    + destruct (g_next _ _ G _ _ _ _ Hi' Hq' Hn) as (Hlt' & Hy). split; auto. apply Hhp. split; auto. intros ->.
      assert (q' = q). { destruct Hy as (? & A & B). congruence. } subst q'.
      assert (Hin : In i (L1 ++ p :: L2)). { apply HL. exists ci; auto. }
      destruct (chain_pred_unique _ _ _ _ _ _ _ _ 0 Hch Hin Hi' Hn) as (Hne & Ei).
      destruct Hcase as [(-> & _)|(_ & EX & _)]; congruence.
Qed.

(* ================================================================ iwpool_destroy called by the client *)
Lemma forest_eq : forall a b, f_slots a = f_slots b -> f_log a = f_log b -> f_fault a = f_fault b -> a = b.
Proof. intros [s1 l1 x1] [s2 l2 x2]; simpl; intros; subst; reflexivity. Qed.

Lemma upd3 : forall A (l : list A) p q a1 a2 b1 Q, p <> q ->
  upd (upd (upd l p a1) p a2) q Q = upd (upd (upd l p b1) q Q) p a2.
Proof.
  intros A l p q a1 a2 b1 Q H. rewrite upd_upd_eq. rewrite (upd_comm _ l p q b1 Q) by auto. rewrite upd_upd_eq.
  apply upd_comm; auto.
Qed.

Lemma unlink_dec : forall f q p c prev X xc,
  get f p = Some c -> X <> p -> get f X = Some xc -> (prev = None /\ X = q \/ prev = Some X) ->
  unlink (set f p (with_refs c 0)) q p (with_refs c 0) prev = set (unlink f q p c prev) p (with_refs (with_parent c None) 0).
Proof.
  intros f q p c prev X xc Hgp HX HgX Hprev.
  unfold unlink. destruct Hprev as [[-> ->]| ->]; rewrite !get_set_neq by auto; rewrite HgX;
    apply forest_eq; try reflexivity; unfold set, set_slot; simpl; apply upd3; auto.
Qed.

Lemma attached_le : forall f, attached f <= length (f_slots f).
Proof.
  intros f. unfold attached. induction (f_slots f) as [|h t IH]; simpl; auto. destruct (is_att h); simpl; lia.
Qed.

(* the clean state the call passes through when p is attached and loses its last reference: p's parent pointer cleared and
   p taken out of the chain of its parent, i.e. the link fields of ONE other pool X (the parent's `children` or the `next`
   of p's predecessor) now skip p; nothing else differs *)
Definition detached (f : forest) (p : nat) (g : forest) : Prop :=
  exists c, get f p = Some c /\
  match c_parent c with
  | None => g = f
  | Some q => exists X xc xc', X <> p /\ get f X = Some xc /\ g = set (set f p (with_parent c None)) X xc' /\
              c_refs xc' = c_refs xc /\ c_parent xc' = c_parent xc /\ c_pool xc' = c_pool xc /\
              c_ud xc' = c_ud xc /\ c_udfn xc' = c_udfn xc
  end.

Lemma destroy_top : forall f p c, ginv [] f -> get f p = Some c ->
  exists f' r, f_destroy f p = (f', r) /\ ginv [] f' /\ r = (c_refs c =? 1)%Z /\
    (c_refs c <> 1%Z -> f' = set f p (with_refs c (c_refs c - 1))) /\
    (c_refs c = 1%Z -> exists g evs, detached f p g /\ ginv [] g /\ post [p] g f' evs /\ frame p g f').
Proof.
  intros f p c G Hg.
  pose proof (g_refs _ _ G _ _ Hg (fun x => x)) as Hr1.
  pose proof (attached_le f) as HAle.
  destruct (c_parent c) as [q|] eqn:Hpar.
  - (* attached *)
    unfold f_destroy, f_destroy_v, d_fuel. replace (2 * length (f_slots f) + 2) with (S (2 * length (f_slots f) + 1)) by lia.
    destruct (Z.eq_dec (c_refs c) 1) as [Hr|Hr].
    + destruct (g_parent _ _ G _ _ _ Hg Hpar) as (Hqp & qc & Hgq).
      destruct (g_kids _ _ G _ _ Hgq (fun x => x)) as (L & Hch & HL).
      assert (HpL : In p L) by (apply HL; exists c; auto).
      destruct (in_split _ _ HpL) as (L1 & L2 & ->).
      pose proof (chain_split_order _ _ _ _ _ _ Hch) as (Hgt & _ & _).
      assert (HpL1 : ~ In p L1). { intros Hin. specialize (Hgt _ Hin). lia. }
      set (g := unlink f q p c (prev_of L1 None)).
      assert (Gg : ginv [] g). { eapply ginv_unlink; eauto. }
      (* the second cell touched by the unlink *)
      assert (HX : exists X xc, X <> p /\ get f X = Some xc /\ (prev_of L1 None = None /\ X = q \/ prev_of L1 None = Some X)).
      { destruct L1 as [|a L1'] eqn:EL.
        - exists q, qc. split; [lia|]. auto.
        - rewrite <- EL in *. assert (Hne : L1 <> []) by (rewrite EL; discriminate).
          pose proof (lst_in L1 0 Hne) as Hin.
          assert (Hh : haspar f (lst L1 0) q). { apply HL. apply in_or_app. left; auto. }
          destruct Hh as (pc & Hgpc & _). exists (lst L1 0), pc. split; [specialize (Hgt _ Hin); lia|]. split; auto.
          right. unfold prev_of. rewrite EL. rewrite <- EL. reflexivity. }
      destruct HX as (X & xc & HXp & HgX & Hprev).
      assert (Hgp' : get g p = Some (with_parent c None)).
      { unfold g, unlink. pose proof (get_lt _ _ _ Hg) as Hp.
        destruct Hprev as [[-> ->]| ->]; rewrite get_set_neq by auto; rewrite HgX; rewrite get_set_neq by auto;
          apply get_set_eq; auto. }
      assert (Hlen : length (f_slots g) = length (f_slots f)).
      { unfold g, unlink. destruct Hprev as [[-> ->]| ->]; rewrite get_set_neq by auto; rewrite HgX; rewrite !len_set; reflexivity. }
      (* both calls continue from the same state *)
      assert (Heq : destroy true (S (2 * length (f_slots f) + 1)) f p = destroy true (S (2 * length (f_slots f) + 1)) g p).
      { rewrite !destroy_S. rewrite Hg, Hgp'. cbv zeta. simpl c_refs. rewrite Hr. simpl Z.sub. simpl Z.ltb. cbv iota.
        rewrite Hpar. simpl c_parent. cbv iota.
        assert (E : prc (set f p (with_refs c 0)) q p = set g p (with_refs (with_parent c None) 0)).
        { unfold prc. rewrite get_set_neq by lia. rewrite Hgq.
          rewrite (prc_walk_spec L1 _ _ q p None (c_children qc) (length (f_slots f)) L2 (with_refs c 0)).
          - unfold g. eapply unlink_dec; eauto.
          - apply (chain_links f); auto. apply links_set_refs; auto.
          - auto.
          - apply get_set_eq. eapply get_lt; eauto.
          - rewrite len_set. lia. }
        rewrite E. reflexivity. }
      rewrite Heq.
      destruct (destroy_mut (S (2 * length (f_slots f) + 1))) as (Hd & _).
      destruct (Hd [] g p (with_parent c None) Gg (fun x => x) Hgp' eq_refl) as (f' & r & evs & Hdes & G' & P & Fr & Hres).
      { pose proof (attached_le g). lia. }
      exists f', r. split; auto. split; auto. split; [simpl in Hres; auto|]. split; [intros; contradiction|].
      intros _. exists g, evs. split; [|auto]. exists c. split; auto. rewrite Hpar.
      destruct Hprev as [[Epv ->]|Epv].
      * exists q, xc, (with_children xc (c_next c)). split; auto. split; auto. split; [|repeat split].
        unfold g, unlink. rewrite Epv. rewrite get_set_neq by auto. rewrite HgX. reflexivity.
      * exists X, xc, (with_next xc (c_next c)). split; auto. split; auto. split; [|repeat split].
        unfold g, unlink. rewrite Epv. rewrite get_set_neq by auto. rewrite HgX. reflexivity.
    + rewrite destroy_S, Hg. cbv zeta.
      assert (En : (0 <? c_refs c - 1)%Z = true) by (apply Z.ltb_lt; lia). rewrite En.
      exists (set f p (with_refs c (c_refs c - 1))), false. split; auto. split; [apply ginv_refs; auto; lia|].
      split; [symmetry; apply Z.eqb_neq; auto|]. split; auto. intros; contradiction.
  - destruct (destroy_mut (d_fuel f)) as (Hd & _).
    destruct (Hd [] f p c G (fun x => x) Hg Hpar) as (f' & r & evs & Hdes & G' & P & Fr & Hres).
    { unfold d_fuel. lia. }
    exists f', r. split; auto. split; auto. split; auto. split.
    + intros Hr. unfold f_destroy, f_destroy_v in Hdes.
      destruct (d_fuel f) as [|fuel] eqn:Ef; [unfold d_fuel in Ef; lia|].
      rewrite destroy_S, Hg in Hdes. cbv zeta in Hdes.
      assert (En : (0 <? c_refs c - 1)%Z = true) by (apply Z.ltb_lt; lia). rewrite En in Hdes. congruence.
    + intros _. exists f, evs. split; [|auto]. exists c. split; auto. rewrite Hpar. auto.
Qed.

(* ================================================================ the other calls keep the invariant *)
Lemma ginv_ext : forall D f f', ginv D f -> f_slots f' = f_slots f -> f_fault f' = f_fault f -> ginv D f'.
Proof.
  intros D [s0 l0 x0] [s l x] G Hs Hf. simpl in *. subst.
  destruct G as [A B C E F H]. constructor; try assumption.
  intros q qc Hq Hnq. destruct (F q qc Hq Hnq) as (L & Hc & HL). exists L. split; [|exact HL].
  eapply chain_ext; [|exact Hc]. intros y yc _ Hy. exists yc. split; [exact Hy|reflexivity].
Qed.

(* a cell replaced by one with the same reference count and the same links *)
Lemma ginv_same_links : forall D f p c c', ginv D f -> get f p = Some c ->
  c_refs c' = c_refs c -> c_parent c' = c_parent c -> c_next c' = c_next c -> c_children c' = c_children c ->
  ginv D (set f p c').
Proof.
  intros D f p c c' G Hg Hr Hpa Hn Hc.
  pose proof (get_lt _ _ _ Hg) as Hp.
  assert (HL : links_eq f (set f p c')).
  { intros i. destruct (Nat.eq_dec i p) as [->|Hne].
    - rewrite Hg, get_set_eq by auto. auto.
    - rewrite get_set_neq by auto. destruct (get f i); auto. }
  pose proof (links_eq_sym _ _ HL) as HL'.
  constructor.
  - apply G.
  - intros i ci Hi Hni. destruct (get_set_cases _ _ _ _ _ Hp Hi) as [[-> ->]|[Hne Hi']].
    + rewrite Hr. eapply g_refs; eauto.
    + eapply g_refs; eauto.
  - intros i ci Hi Hin. destruct (get_set_cases _ _ _ _ _ Hp Hi) as [[-> ->]|[Hne Hi']].
    + rewrite Hpa. eapply g_dying; eauto.
    + eapply g_dying; eauto.
  - intros i ci q Hi Hpar.
    assert (Hh : haspar f i q). { apply (haspar_links _ _ _ _ HL'). exists ci; auto. }
    destruct Hh as (xc & Hgx & Hpx). destruct (g_parent _ _ G _ _ _ Hgx Hpx) as (Hlt & qc & Hq).
    split; auto. specialize (HL q). rewrite Hq in HL. destruct (get (set f p c') q) as [qc'|]; [eauto|contradiction].
  - intros q qc Hq Hnq.
    assert (Hq0 : exists qc0, get f q = Some qc0 /\ c_children qc0 = c_children qc).
    { specialize (HL q). rewrite Hq in HL. destruct (get f q) as [qc0|]; [|contradiction]. exists qc0. destruct HL as (_ & _ & C). auto. }
    destruct Hq0 as (qc0 & Hq0 & Hch).
    destruct (g_kids _ _ G q qc0 Hq0 Hnq) as (L & Hcn & HLq).
    exists L. rewrite len_set, <- Hch. split.
    + apply (chain_links _ _ _ _ _ HL). auto.
    + intros x. rewrite HLq. split; apply haspar_links; auto.
  - intros i ci q y Hi Hpar Hnx.
    assert (Hh : exists xc, get f i = Some xc /\ c_parent xc = Some q /\ c_next xc = Some y).
    { specialize (HL i). rewrite Hi in HL. destruct (get f i) as [xc|]; [|contradiction]. exists xc. destruct HL as (A & B & _).
      repeat split; congruence. }
    destruct Hh as (xc & Hgx & Hpx & Hnx').
    destruct (g_next _ _ G _ _ _ _ Hgx Hpx Hnx') as (Hlt & Hy). split; auto. apply (haspar_links _ _ _ _ HL). auto.
Qed.

Lemma get_create : forall f pl i,
  get (fst (f_create f pl)) i = if i =? length (f_slots f) then Some (fresh pl) else get f i.
Proof.
  intros f pl i. unfold get, f_create. simpl.
  destruct (Nat.eqb_spec i (length (f_slots f))) as [->|Hne].
  - rewrite nth_error_app2 by lia. rewrite Nat.sub_diag. reflexivity.
  - destruct (lt_dec i (length (f_slots f))) as [Hlt|Hge].
    + rewrite nth_error_app1 by auto. reflexivity.
    + assert (E1 : nth_error (f_slots f ++ [Live (fresh pl)]) i = None).
      { apply nth_error_None. rewrite app_length. simpl. lia. }
      assert (E2 : nth_error (f_slots f) i = None). { apply nth_error_None. lia. }
      rewrite E1, E2. reflexivity.
Qed.

Lemma len_create : forall f pl, length (f_slots (fst (f_create f pl))) = S (length (f_slots f)).
Proof. intros. unfold f_create. simpl. rewrite app_length. simpl. lia. Qed.

Lemma ginv_create : forall f pl, ginv [] f -> ginv [] (fst (f_create f pl)).
Proof.
  intros f pl G. set (n := length (f_slots f)). set (f1 := fst (f_create f pl)).
  assert (Hcases : forall i ci, get f1 i = Some ci -> (i = n /\ ci = fresh pl) \/ (i < n /\ get f i = Some ci)).
  { intros i ci Hi. unfold f1 in Hi. rewrite get_create in Hi. fold n in Hi. destruct (Nat.eqb_spec i n).
    - left. split; congruence.
    - right. split; auto. apply get_lt in Hi. auto. }
  assert (Hold : forall i ci, get f i = Some ci -> get f1 i = Some ci).
  { intros i ci Hi. unfold f1. rewrite get_create. pose proof (get_lt _ _ _ Hi). destruct (Nat.eqb_spec i (length (f_slots f))); [lia|auto]. }
  assert (Hhp : forall x q, haspar f1 x q <-> haspar f x q).
  { intros x q. split.
    - intros (ci & Hi & Hq). destruct (Hcases _ _ Hi) as [[-> ->]|[_ Hi']]; [discriminate|]. exists ci; auto.
    - intros (ci & Hi & Hq). exists ci. split; auto. }
  constructor.
  - apply G.
  - intros i ci Hi _. destruct (Hcases _ _ Hi) as [[-> ->]|[_ Hi']]; [simpl; lia|]. eapply g_refs; eauto.
  - intros i ci _ [].
  - intros i ci q Hi Hq. destruct (Hcases _ _ Hi) as [[-> ->]|[_ Hi']]; [discriminate|].
    destruct (g_parent _ _ G _ _ _ Hi' Hq) as (Hlt & qc & Hgq). split; auto. eauto.
  - intros q qc Hq _. replace (length (f_slots f1)) with (S n) by (unfold f1; rewrite len_create; reflexivity).
    destruct (Hcases _ _ Hq) as [[-> ->]|[Hlt Hq']].
    + exists []. split; [reflexivity|]. intros x. rewrite Hhp. split; [intros []|].
      intros (ci & Hi & Hpn). destruct (g_parent _ _ G _ _ _ Hi Hpn) as (_ & qc & Hgq). apply get_lt in Hgq. unfold n in *. lia.
    + destruct (g_kids _ _ G _ _ Hq') as (L & Hc & HL); auto. exists L. split.
      * apply chain_weaken with (ub := n); [|lia]. eapply chain_ext; [|exact Hc]. intros x xc _ Hx. eauto.
      * intros x. rewrite HL. symmetry. apply Hhp.
  - intros i ci q y Hi Hq Hn. destruct (Hcases _ _ Hi) as [[-> ->]|[_ Hi']]; [discriminate|].
    destruct (g_next _ _ G _ _ _ _ Hi' Hq Hn) as (Hlt & Hy). split; auto. apply Hhp. auto.
Qed.

Lemma f_attach_eq : forall f q pl, fst (f_attach f (Some q) pl) =
  let f1 := fst (f_create f pl) in
  let r := length (f_slots f) in
  match get f1 q with
  | None => fault f1
  | Some qc => set (set f1 r (mkCell 1 (Some q) None (c_children qc) pl None false)) q (with_children qc (Some r))
  end.
Proof.
  intros f q pl. unfold f_attach, f_create. simpl.
  destruct (get {| f_slots := f_slots f ++ [Live (fresh pl)]; f_log := f_log f; f_fault := f_fault f |} q); reflexivity.
Qed.

Lemma ginv_attach : forall f q pl, ginv [] f -> live f q = true -> ginv [] (fst (f_attach f (Some q) pl)).
Proof.
  intros f q pl G Hlq. unfold live in Hlq. destruct (get f q) as [qc|] eqn:Hgq; [|discriminate]. clear Hlq.
  set (n := length (f_slots f)).
  pose proof (get_lt _ _ _ Hgq) as Hqn. fold n in Hqn.
  rewrite f_attach_eq. cbv zeta. rewrite get_create. fold n.
  destruct (Nat.eqb_spec q n); [lia|]. rewrite Hgq.
  set (f1 := fst (f_create f pl)).
  set (rc := mkCell 1 (Some q) None (c_children qc) pl None false).
  set (qc' := with_children qc (Some n)).
  set (f2 := set (set f1 n rc) q qc').
  assert (Hlen1 : length (f_slots f1) = S n). { unfold f1. apply len_create. }
  assert (Hlen2 : length (f_slots f2) = S n). { unfold f2. rewrite !len_set. auto. }
  assert (Gq : get f2 q = Some qc'). { unfold f2. apply get_set_eq. rewrite len_set. lia. }
  assert (Gr : get f2 n = Some rc). { unfold f2. rewrite get_set_neq by lia. apply get_set_eq. lia. }
  assert (Go : forall i, i <> n -> i <> q -> get f2 i = get f i).
  { intros i H1 H2. unfold f2. rewrite !get_set_neq by auto. unfold f1. rewrite get_create. fold n.
    destruct (Nat.eqb_spec i n); [contradiction|auto]. }
  assert (Hcases : forall i ci, get f2 i = Some ci ->
            (i = n /\ ci = rc) \/ (i = q /\ ci = qc') \/ (i <> n /\ i <> q /\ get f i = Some ci)).
  { intros i ci Hi. destruct (Nat.eq_dec i n) as [->|H1]; [left; split; congruence|].
    destruct (Nat.eq_dec i q) as [->|H2]; [right; left; split; congruence|]. right; right. rewrite Go in Hi; auto. }
  assert (Hlive : forall i ci, get f i = Some ci -> exists ci', get f2 i = Some ci' /\ c_next ci' = c_next ci).
  { intros i ci Hi. pose proof (get_lt _ _ _ Hi). fold n in H. destruct (Nat.eq_dec i q) as [->|H2].
    - exists qc'. split; auto. rewrite Hgq in Hi. inversion Hi; subst. reflexivity.
    - exists ci. rewrite Go; auto. lia. }
  assert (Hhp : forall x q', haspar f2 x q' <-> haspar f x q' \/ (x = n /\ q' = q)).
  { intros x q'. split.
    - intros (ci & Hi & Hq'). destruct (Hcases _ _ Hi) as [[-> ->]|[[-> ->]|(H1 & H2 & Hi')]].
      + right. simpl in Hq'. split; congruence.
      + left. exists qc. auto.
      + left. exists ci; auto.
    - intros [(ci & Hi & Hq')|[-> ->]].
      + pose proof (get_lt _ _ _ Hi). fold n in H. destruct (Nat.eq_dec x q) as [->|H2].
        * exists qc'. split; auto. rewrite Hgq in Hi. inversion Hi; subst. auto.
        * exists ci. rewrite Go; auto. lia.
      + exists rc. auto. }
  fold f1. fold rc. fold qc'. fold f2.
  constructor.
  - apply G.
  - intros i ci Hi _. destruct (Hcases _ _ Hi) as [[-> ->]|[[-> ->]|(H1 & H2 & Hi')]].
    + simpl; lia.
    + simpl. eapply g_refs; eauto.
    + eapply g_refs; eauto.
  - intros i ci _ [].
  - intros i ci q' Hi Hq'. destruct (Hcases _ _ Hi) as [[-> ->]|[[-> ->]|(H1 & H2 & Hi')]].
    + simpl in Hq'. inversion Hq'; subst q'. split; [lia|eauto].
    + destruct (g_parent _ _ G _ _ _ Hgq Hq') as (Hlt & qc0 & Hg0). split; auto. destruct (Hlive _ _ Hg0) as (? & ? & _). eauto.
    + destruct (g_parent _ _ G _ _ _ Hi' Hq') as (Hlt & qc0 & Hg0). split; auto. destruct (Hlive _ _ Hg0) as (? & ? & _). eauto.
  - intros q' qc0 Hq' _. rewrite Hlen2.
    destruct (Hcases _ _ Hq') as [[-> ->]|[[-> ->]|(H1 & H2 & Hi')]].
    + exists []. split; [reflexivity|]. intros x. rewrite Hhp. split; [intros []|].
      intros [(ci & Hi & Hpn)|[_ E]]; [|lia].
      destruct (g_parent _ _ G _ _ _ Hi Hpn) as (_ & qq & Hgqq). apply get_lt in Hgqq. fold n in Hgqq. lia.
    + destruct (g_kids _ _ G _ _ Hgq) as (L & Hc & HL); auto.
      exists (n :: L). split.
      * simpl. split; auto. split; [lia|]. exists rc. split; auto. simpl.
        eapply chain_ext; [|exact Hc]. intros x xc _ Hx. apply Hlive; auto.
      * intros x. rewrite Hhp. simpl. rewrite HL. split; [intros [<-|H]; auto|intros [H|[-> _]]; auto].
    + destruct (g_kids _ _ G _ _ Hi') as (L & Hc & HL); auto. exists L. split.
      * apply chain_weaken with (ub := n); [|lia]. eapply chain_ext; [|exact Hc]. intros x xc _ Hx. apply Hlive; auto.
      * intros x. rewrite Hhp, HL. split; [auto|]. intros [H|[_ E]]; [auto|contradiction].
  - intros i ci q' y Hi Hq' Hn. destruct (Hcases _ _ Hi) as [[-> ->]|[[-> ->]|(H1 & H2 & Hi')]].
    + simpl in Hq', Hn. inversion Hq'; subst q'.
      destruct (g_kids _ _ G _ _ Hgq) as (L & Hc & HL); auto.
      destruct L as [|y' L']; simpl in Hc; [congruence|]. destruct Hc as (E & Hy & _). rewrite Hn in E. inversion E; subst y'.
      split; [lia|]. apply Hhp. left. apply HL. left; auto.
    + destruct (g_next _ _ G _ _ _ _ Hgq Hq' Hn) as (Hlt & Hy). split; auto. apply Hhp. auto.
    + destruct (g_next _ _ G _ _ _ _ Hi' Hq' Hn) as (Hlt & Hy). split; auto. apply Hhp. auto.
Qed.

(* ================================================================ every call sequence *)
Definition inv (f : forest) : Prop := ginv [] f.

Lemma live_get : forall f p, live f p = true -> exists c, get f p = Some c.
Proof. intros f p H. unfold live in H. destruct (get f p); [eauto|discriminate]. Qed.

Lemma ginv_emit : forall D f e, ginv D f -> ginv D (emit f e).
Proof. intros D f e G. eapply ginv_ext; eauto. Qed.

Lemma inv_empty : inv f_empty.
Proof.
  assert (Hn : forall i, get f_empty i = None). { intros [|i]; reflexivity. }
  constructor; try (intros; rewrite Hn in *; discriminate). reflexivity.
Qed.

Lemma inv_step : forall f op, inv f -> op_ok f op = true -> inv (f_step f op).
Proof.
  intros f op G Hok. unfold inv in *. destruct op as [siz| |[q|] siz|[q|]|p|[p|]|p n|p tok fn|p]; simpl in Hok; unfold f_step, f_step_v.
  - apply ginv_create; auto.
  - apply ginv_create; auto.
  - apply ginv_attach; auto.
  - apply ginv_create; auto.
  - apply ginv_attach; auto.
  - apply ginv_create; auto.
  - destruct (live_get _ _ Hok) as (c & Hg). unfold f_ref. rewrite Hg. simpl.
    apply ginv_refs; auto. pose proof (g_refs _ _ G _ _ Hg (fun x => x)). lia.
  - destruct (live_get _ _ Hok) as (c & Hg).
    destruct (destroy_top f p c G Hg) as (f' & r & Hd & G' & _). fold (f_destroy f p). rewrite Hd. auto.
  - auto.
  - destruct (live_get _ _ Hok) as (c & Hg). unfold f_alloc. rewrite Hg.
    destruct (p_alloc (c_pool c) n) as (pl & w). simpl. eapply ginv_same_links; eauto.
  - destruct (live_get _ _ Hok) as (c & Hg). unfold f_ud_set. rewrite Hg.
    destruct (c_udfn c).
    + eapply ginv_same_links with (c := c); [apply ginv_emit; auto|exact Hg| | | |]; reflexivity.
    + eapply ginv_same_links; eauto.
  - destruct (live_get _ _ Hok) as (c & Hg). unfold f_ud_detach. rewrite Hg. simpl. eapply ginv_same_links; eauto.
Qed.

Lemma inv_run_from : forall ops f, inv f -> inv (f_run f ops).
Proof.
  induction ops as [|op t IH]; intros f G; simpl; auto. unfold f_run in *. simpl.
  destruct (op_ok f op) eqn:E; auto. apply IH. apply inv_step; auto.
Qed.

Theorem inv_run : forall ops, inv (f_run f_empty ops).
Proof. intros. apply inv_run_from. apply inv_empty. Qed.

(* ================================================================ dropping every reference releases everything *)
Lemma destroy_n_root : forall n f p c, inv f -> get f p = Some c -> c_parent c = None -> c_refs c = Z.of_nat (S n) ->
  inv (destroy_n (S n) f p) /\ get (destroy_n (S n) f p) p = None /\ frame p f (destroy_n (S n) f p) /\
  (forall i, get f i = None -> get (destroy_n (S n) f p) i = None) /\
  length (f_slots (destroy_n (S n) f p)) = length (f_slots f).
Proof.
  induction n as [|n IH]; intros f p c G Hg Hpar Hr.
  - destruct (destroy_top f p c G Hg) as (f' & r & Hd & G' & _ & _ & H1).
    destruct (H1 Hr) as (g & evs & (c0 & Hg0 & Hdet) & _ & P & Fr).
    rewrite Hg in Hg0. inversion Hg0; subst c0. rewrite Hpar in Hdet. subst g.
    simpl. rewrite Hg, Hd. simpl. split; auto. split.
    + apply (po_fate _ _ _ _ P p c Hg); auto. left; left; auto.
    + split; auto. split; [apply (po_dead _ _ _ _ P)|apply (po_len _ _ _ _ P)].
  - destruct (destroy_top f p c G Hg) as (f' & r & Hd & G' & _ & H2 & _).
    assert (Hne : c_refs c <> 1%Z) by lia. specialize (H2 Hne).
    change (destroy_n (S (S n)) f p) with (match get f p with None => f | Some _ => destroy_n (S n) (fst (f_destroy f p)) p end).
    rewrite Hg, Hd. simpl fst. subst f'.
    pose proof (get_lt _ _ _ Hg) as Hp.
    destruct (IH (set f p (with_refs c (c_refs c - 1))) p (with_refs c (c_refs c - 1)) G') as (A & B & C & D & E).
    + apply get_set_eq; auto.
    + auto.
    + simpl. lia.
    + split; auto. split; auto. split; [|split].
      * intros i Hi. rewrite C by auto. apply get_set_neq. lia.
      * intros i Hi. apply D. destruct (Nat.eq_dec i p) as [->|Hnp]; [congruence|]. rewrite get_set_neq; auto.
      * rewrite E. apply len_set.
Qed.

Lemma drain_one_ok : forall f i, inv f -> (forall j, j < i -> get f j = None) ->
  inv (drain_one f i) /\ (forall j, j < S i -> get (drain_one f i) j = None) /\
  length (f_slots (drain_one f i)) = length (f_slots f).
Proof.
  intros f i G Hlow. unfold drain_one. destruct (get f i) as [c|] eqn:Hg.
  - destruct (c_parent c) as [q|] eqn:Hpar.
    + exfalso. destruct (g_parent _ _ G _ _ _ Hg Hpar) as (Hlt & qc & Hq). rewrite Hlow in Hq; auto. discriminate.
    + pose proof (g_refs _ _ G _ _ Hg (fun x => x)) as Hr.
      assert (E : exists n, Z.to_nat (c_refs c) = S n) by (exists (Z.to_nat (c_refs c) - 1); lia).
      destruct E as (n & En). rewrite En.
      destruct (destroy_n_root n f i c G Hg Hpar) as (A & B & C & D & E); [lia|].
      split; auto. split; auto. intros j Hj. destruct (Nat.eq_dec j i) as [->|Hne]; auto. apply D. apply Hlow. lia.
  - split; auto. split; auto. intros j Hj. destruct (Nat.eq_dec j i) as [->|Hne]; auto. apply Hlow. lia.
Qed.

Lemma drain_from_ok : forall k i f, inv f -> (forall j, j < i -> get f j = None) -> length (f_slots f) = i + k ->
  inv (drain_from k i f) /\ forall j, get (drain_from k i f) j = None.
Proof.
  induction k as [|k IH]; intros i f G Hlow Hlen; simpl.
  - split; auto. intros j. destruct (lt_dec j i); [auto|].
    destruct (get f j) eqn:E; auto. apply get_lt in E. lia.
  - destruct (drain_one_ok f i G Hlow) as (A & B & C). apply IH; auto. lia.
Qed.

Theorem drain_all : forall f, inv f -> inv (f_drain f) /\ forall j, get (f_drain f) j = None.
Proof. intros f G. unfold f_drain. apply drain_from_ok; auto. intros j Hj. lia. Qed.

(* ================================================================ the variant without `c->parent = 0` (round-5 seeded change) *)
Definition seed5_calls : list fop := [FCreate 64; FAttach (Some 0) 64; FRef 1; FDestroy (Some 0); FAlloc 1 100; FDestroy (Some 1)].

Lemma variant_refuted : f_fault (f_run_v false f_empty seed5_calls) = true /\ f_fault (f_run_v true f_empty seed5_calls) = false.
Proof. split; vm_compute; reflexivity. Qed.

(* ================================================================ iwpool_destroy: who is released, and when *)
Definition same_data (c c' : cell) : Prop := c_pool c' = c_pool c /\ c_ud c' = c_ud c /\ c_udfn c' = c_udfn c.

Lemma detached_cells : forall f p g, detached f p g ->
  length (f_slots g) = length (f_slots f) /\ f_log g = f_log f /\
  (forall i ci, get f i = Some ci -> exists gi, get g i = Some gi /\ c_refs gi = c_refs ci /\ same_data ci gi /\
                                       (i <> p -> c_parent gi = c_parent ci) /\ (i = p -> c_parent gi = None)) /\
  (forall i, get f i = None -> get g i = None).
Proof.
  intros f p g (c & Hg & Hd). destruct (c_parent c) as [q|] eqn:Hpar.
  - destruct Hd as (X & xc & xc' & HXp & HgX & -> & A1 & A2 & A3 & A4 & A5).
    pose proof (get_lt _ _ _ Hg) as Hp. pose proof (get_lt _ _ _ HgX) as HX.
    split; [rewrite !len_set; reflexivity|]. split; [reflexivity|]. split.
    + intros i ci Hi. destruct (Nat.eq_dec i X) as [->|H1].
      * exists xc'. rewrite get_set_eq by (rewrite len_set; auto). rewrite HgX in Hi. inversion Hi; subst ci.
        split; auto. split; auto. split; [unfold same_data; auto|]. split; [auto|]. intros ->. contradiction.
      * rewrite get_set_neq by auto. destruct (Nat.eq_dec i p) as [->|H2].
        -- rewrite get_set_eq by auto. rewrite Hg in Hi. inversion Hi; subst ci. exists (with_parent c None).
           split; auto. split; auto. split; [unfold same_data; auto|]. split; [intros; contradiction|auto].
        -- rewrite get_set_neq by auto. exists ci. split; auto. split; auto. split; [unfold same_data; auto|].
           split; [auto|intros; contradiction].
    + intros i Hi. destruct (Nat.eq_dec i X) as [->|H1]; [congruence|]. rewrite get_set_neq by auto.
      destruct (Nat.eq_dec i p) as [->|H2]; [congruence|]. rewrite get_set_neq by auto. auto.
  - subst g. split; auto. split; auto. split; auto.
    intros i ci Hi. exists ci. split; auto. split; auto. split; [unfold same_data; auto|]. split; auto.
    intros ->. congruence.
Qed.

Theorem destroy_spec : forall f p c, inv f -> get f p = Some c ->
  let f' := fst (f_destroy f p) in
  inv f' /\ snd (f_destroy f p) = (c_refs c =? 1)%Z /\
  (c_refs c <> 1%Z -> f' = set f p (with_refs c (c_refs c - 1))) /\
  (c_refs c = 1%Z ->
     get f' p = None /\
     (forall x cx, get f x = Some cx -> x <> p ->
        (get f' x = None <-> exists y, c_parent cx = Some y /\ get f' y = None /\ c_refs cx = 1%Z) /\
        (forall y, c_parent cx = Some y -> get f' y = None -> c_refs cx <> 1%Z ->
           exists cx', get f' x = Some cx' /\ c_refs cx' = (c_refs cx - 1)%Z /\ c_parent cx' = None /\ same_data cx cx') /\
        ((forall y, c_parent cx = Some y -> get f' y <> None) ->
           exists cx', get f' x = Some cx' /\ c_refs cx' = c_refs cx /\ c_parent cx' = c_parent cx /\ same_data cx cx')) /\
     (forall i, get f i = None -> get f' i = None) /\
     length (f_slots f') = length (f_slots f) /\
     exists evs, f_log f' = f_log f ++ evs /\
       forall i, (forall ci, get f i = Some ci -> get f' i = None -> evs_of i evs = block i ci) /\
                 (get f i = None \/ get f' i <> None -> evs_of i evs = [])).
Proof.
  intros f p c G Hg. destruct (destroy_top f p c G Hg) as (f' & r & Hd & G' & Hr & Hne & Heq).
  rewrite Hd. simpl. split; auto. split; auto. split; auto.
  intros Hr1. destruct (Heq Hr1) as (g & evs & Hdet & Gg & P & Fr).
  destruct (detached_cells _ _ _ Hdet) as (Hlen & Hlog & Hcell & Hnone).
  assert (Hlv : forall i, get g i = None -> get f i = None).
  { intros i Hi. destruct (get f i) eqn:E; auto. destruct (Hcell _ _ E) as (gi & A & _). congruence. }
  destruct (Hcell _ _ Hg) as (gp & Hgp & Hgr & _ & _ & Hgpar). specialize (Hgpar eq_refl).
  split; [|split; [|split; [|split]]].
  - apply (po_fate _ _ _ _ P _ _ Hgp); [left; left; auto|congruence].
  - intros x cx Hx Hxp. destruct (Hcell _ _ Hx) as (gx & Hgx & Hxr & Hxd & Hxpar & _). specialize (Hxpar Hxp).
    split; [split|split].
    + intros Hn. destruct (po_why _ _ _ _ P _ _ Hgx Hn) as (R1 & [[E|[]]|(y & Hy & _ & Hy')]); [congruence|].
      exists y. split; [congruence|]. split; [auto|congruence].
    + intros (y & Hy & Hy' & R1).
      apply (po_fate _ _ _ _ P _ _ Hgx); [|congruence]. right. exists y. split; [congruence|]. split; auto.
      destruct (g_parent _ _ G _ _ _ Hx Hy) as (_ & yc & Hyc). destruct (Hcell _ _ Hyc) as (gy & A & _). eauto.
    + intros y Hy Hy' R1.
      assert (Hnew : newly g f' y).
      { split; auto. destruct (g_parent _ _ G _ _ _ Hx Hy) as (_ & yc & Hyc). destruct (Hcell _ _ Hyc) as (gy & A & _). eauto. }
      destruct (po_fate _ _ _ _ P _ _ Hgx (or_intror (ex_intro _ y (conj (eq_trans Hxpar Hy) Hnew)))) as (_ & F2).
      exists (survivor gx). split; [apply F2; congruence|]. simpl. split; [congruence|]. split; [reflexivity|exact Hxd].
    + intros Hall. exists gx. split.
      * apply (po_keep _ _ _ _ P _ _ Hgx); [intros [E|[]]; congruence|]. intros y Hy. apply Hall. congruence.
      * split; auto.
  - intros i Hi. apply (po_dead _ _ _ _ P). auto.
  - rewrite (po_len _ _ _ _ P). auto.
  - exists evs. split; [rewrite (po_log _ _ _ _ P), Hlog; reflexivity|].
    intros i. destruct (po_evs _ _ _ _ P i) as (E1 & E2). split.
    + intros ci Hi Hi'. destruct (Hcell _ _ Hi) as (gi & Hgi & _ & (D1 & D2 & D3) & _).
      rewrite (E1 _ Hgi Hi'). apply block_data; auto.
    + intros [Hi|Hi]; apply E2; auto.
Qed.

(* ================================================================ the log of a whole run: every pool is released at most once,
   units + user data destructor + struct together, and nothing about it is released afterwards *)
Definition is_ud (e : event) : Prop := match e with EUd _ _ => True | _ => False end.

Definition logok (f : forest) : Prop :=
  forall i,
    (length (f_slots f) <= i -> evs_of i (f_log f) = []) /\
    (forall c, get f i = Some c -> Forall is_ud (evs_of i (f_log f))) /\
    (i < length (f_slots f) -> get f i = None ->
       exists pre c, Forall is_ud pre /\ evs_of i (f_log f) = pre ++ block i c).

Lemma logok_same : forall f f', logok f -> f_log f' = f_log f -> length (f_slots f') = length (f_slots f) ->
  (forall i, get f' i = None <-> get f i = None) -> logok f'.
Proof.
  intros f f' H Hlog Hlen Hlv i. destruct (H i) as (A & B & C). rewrite Hlog, Hlen. split; [auto|]. split.
  - intros c Hc. destruct (get f i) as [c0|] eqn:E; [eauto|]. apply Hlv in E. congruence.
  - intros Hi Hn. apply C; auto. apply Hlv; auto.
Qed.

Lemma set_live : forall f p c c' i, get f p = Some c -> (get (set f p c') i = None <-> get f i = None).
Proof.
  intros f p c c' i Hg. pose proof (get_lt _ _ _ Hg). destruct (Nat.eq_dec i p) as [->|Hne].
  - rewrite get_set_eq, Hg by auto. split; discriminate.
  - rewrite get_set_neq by auto. tauto.
Qed.

Lemma logok_create : forall f pl, logok f -> logok (fst (f_create f pl)).
Proof.
  intros f pl H i. destruct (H i) as (A & B & C). rewrite len_create, get_create.
  change (f_log (fst (f_create f pl))) with (f_log f).
  destruct (Nat.eqb_spec i (length (f_slots f))) as [->|Hne].
  - split; [intros; lia|]. split; [|intros; discriminate]. intros c _. rewrite A by lia. constructor.
  - split; [intros; apply A; lia|]. split; [auto|]. intros Hi Hn. apply C; auto. lia.
Qed.

Lemma logok_step : forall f op, inv f -> logok f -> op_ok f op = true -> logok (f_step f op).
Proof.
  intros f op G H Hok.
  assert (Hatt : forall q pl, live f q = true -> logok (fst (f_attach f (Some q) pl))).
  { intros q pl Hq. destruct (live_get _ _ Hq) as (qc & Hgq). rewrite f_attach_eq. cbv zeta.
    pose proof (get_lt _ _ _ Hgq) as Hlt.
    rewrite get_create. destruct (Nat.eqb_spec q (length (f_slots f))); [lia|]. rewrite Hgq.
    set (f1 := fst (f_create f pl)).
    assert (Hg1 : get f1 (length (f_slots f)) = Some (fresh pl)). { unfold f1. rewrite get_create, Nat.eqb_refl. auto. }
    assert (Hgq1 : get (set f1 (length (f_slots f)) (mkCell 1 (Some q) None (c_children qc) pl None false)) q = Some qc).
    { rewrite get_set_neq by lia. unfold f1. rewrite get_create. destruct (Nat.eqb_spec q (length (f_slots f))); [lia|auto]. }
    eapply logok_same; [apply (logok_create f pl H)|reflexivity|rewrite !len_set; reflexivity|].
    intros i. fold f1. rewrite (set_live _ _ _ _ i Hgq1). apply (set_live _ _ _ _ i Hg1). }
  destruct op as [siz| |[q|] siz|[q|]|p|[p|]|p n|p tok fn|p]; simpl in Hok; unfold f_step, f_step_v.
  - apply logok_create; auto.
  - apply logok_create; auto.
  - apply Hatt; auto.
  - apply logok_create; auto.
  - apply Hatt; auto.
  - apply logok_create; auto.
  - destruct (live_get _ _ Hok) as (c & Hg). unfold f_ref. rewrite Hg. simpl.
    eapply logok_same; eauto; [apply len_set|]. intros i. eapply set_live; eauto.
  - destruct (live_get _ _ Hok) as (c & Hg).
    pose proof (destroy_spec f p c G Hg) as (G' & _ & Hne & Heq). fold (f_destroy f p).
    destruct (Z.eq_dec (c_refs c) 1) as [Hr|Hr].
    + destruct (Heq Hr) as (Hp' & _ & Hdead & Hlen & evs & Hlog & Hevs).
      intros i. destruct (H i) as (A & B & C). rewrite Hlog, Hlen, evs_of_app. destruct (Hevs i) as (E1 & E2).
      split; [|split].
      * intros Hi. rewrite A by auto. rewrite E2; auto. left. destruct (get f i) eqn:E; auto. apply get_lt in E. lia.
      * intros ci Hci. rewrite E2 by (right; congruence). rewrite app_nil_r.
        destruct (get f i) as [c0|] eqn:E; [eauto|]. apply Hdead in E. congruence.
      * intros Hi Hn. destruct (get f i) as [c0|] eqn:E.
        -- exists (evs_of i (f_log f)), c0. split; [eauto|]. rewrite (E1 _ eq_refl Hn). reflexivity.
        -- rewrite E2 by (left; auto). rewrite app_nil_r. apply C; auto.
    + rewrite (Hne Hr). eapply logok_same; eauto; [apply len_set|]. intros i. eapply set_live; eauto.
  - auto.
  - destruct (live_get _ _ Hok) as (c & Hg). unfold f_alloc. rewrite Hg.
    destruct (p_alloc (c_pool c) n) as (pl & w). simpl.
    eapply logok_same; eauto; [apply len_set|]. intros i. eapply set_live; eauto.
  - destruct (live_get _ _ Hok) as (c & Hg). unfold f_ud_set. rewrite Hg.
    destruct (c_udfn c).
    + intros i. destruct (H i) as (A & B & C). rewrite len_set.
      change (length (f_slots (emit f (EUd p (c_ud c))))) with (length (f_slots f)).
      change (f_log (set (emit f (EUd p (c_ud c))) p (with_ud c tok fn))) with (f_log f ++ [EUd p (c_ud c)]).
      rewrite evs_of_app.
      assert (Hlv : get (set (emit f (EUd p (c_ud c))) p (with_ud c tok fn)) i = None <-> get f i = None).
      { apply (set_live (emit f (EUd p (c_ud c))) p c). exact Hg. }
      destruct (Nat.eq_dec i p) as [->|Hnp].
      * assert (E : evs_of p [EUd p (c_ud c)] = [EUd p (c_ud c)]). { unfold evs_of. simpl. rewrite Nat.eqb_refl. auto. }
        rewrite E. split; [intros Hi; apply get_lt in Hg; lia|]. split.
        -- intros ci _. apply Forall_app. split; [eauto|]. constructor; simpl; auto.
        -- intros _ Hn. apply Hlv in Hn. congruence.
      * assert (E : evs_of i [EUd p (c_ud c)] = []).
        { unfold evs_of. simpl. destruct (Nat.eqb_spec p i); [congruence|auto]. }
        rewrite E, app_nil_r. split; [auto|]. split.
        -- intros ci Hci. destruct (get f i) as [c0|] eqn:E0; [eauto|].
           assert (Hn : get (set (emit f (EUd p (c_ud c))) p (with_ud c tok fn)) i = None) by (apply Hlv; reflexivity).
           congruence.
        -- intros Hi Hn. apply C; auto. apply Hlv; auto.
    + eapply logok_same; eauto; [apply len_set|]. intros i. eapply set_live; eauto.
  - destruct (live_get _ _ Hok) as (c & Hg). unfold f_ud_detach. rewrite Hg. simpl.
    eapply logok_same; eauto; [apply len_set|]. intros i. eapply set_live; eauto.
Qed.

Theorem logok_run : forall ops, logok (f_run f_empty ops).
Proof.
  assert (Hgen : forall ops f, inv f -> logok f -> logok (f_run f ops)).
  { induction ops as [|op t IH]; intros f G H; simpl; auto. unfold f_run in *. simpl.
    destruct (op_ok f op) eqn:E; auto. apply IH; [apply inv_step|apply logok_step]; auto. }
  intros ops. apply Hgen; [apply inv_empty|].
  intros i. split; [reflexivity|]. split; [intros; constructor|]. simpl. intros; lia.
Qed.

(* ================================================================ statements for Properties_C18.v *)
Theorem run_no_fault : forall ops, f_fault (f_run f_empty ops) = false.
Proof. intros ops. apply (g_nofault _ _ (inv_run ops)). Qed.

Theorem run_links : forall ops i c, let F := f_run f_empty ops in get F i = Some c ->
  (1 <= c_refs c)%Z /\
  forall q, c_parent c = Some q ->
    q < i /\ exists qc L, get F q = Some qc /\ chain F (length (f_slots F)) (c_children qc) L /\ In i L /\
                          forall x, In x L <-> haspar F x q.
Proof.
  intros ops i c F Hg. pose proof (inv_run ops) as G. fold F in G. split.
  - apply (g_refs _ _ G _ _ Hg). auto.
  - intros q Hq. destruct (g_parent _ _ G _ _ _ Hg Hq) as (Hlt & qc & Hgq). split; auto.
    destruct (g_kids _ _ G _ _ Hgq) as (L & Hc & HL); auto. exists qc, L. split; auto. split; auto. split; auto.
    apply HL. exists c; auto.
Qed.

Theorem run_alloc : forall f p n c, get f p = Some c ->
  let f' := fst (f_alloc f p n) in
  get f' p = Some (with_pool c (fst (p_alloc (c_pool c) n))) /\ (forall i, i <> p -> get f' i = get f i) /\
  f_log f' = f_log f /\ f_fault f' = f_fault f.
Proof.
  intros f p n c Hg. unfold f_alloc. rewrite Hg. destruct (p_alloc (c_pool c) n) as (pl & w). simpl.
  split; [apply get_set_eq; eapply get_lt; eauto|]. split; [intros i Hi; apply get_set_neq; auto|]. auto.
Qed.

Theorem run_drain : forall ops, let F := f_drain (f_run f_empty ops) in f_fault F = false /\ forall j, get F j = None.
Proof.
  intros ops F. destruct (drain_all _ (inv_run ops)) as (G & Hn). split; [apply (g_nofault _ _ G)|exact Hn].
Qed.

Theorem seed5_refuted : exists ops, f_fault (f_run_v false f_empty ops) = true /\ f_fault (f_run f_empty ops) = false.
Proof. exists seed5_calls. exact variant_refuted. Qed.
