(* C18 - proofs for UT/AvlWalk.v: for EVERY tree (no search-tree or balance hypothesis) the parent-pointer walks of iwavl.c
   visit exactly the in-order sequence (forwards), its reverse (backwards) and the postorder sequence, each node once,
   and end with NULL; plus the fold of the AVL invariant over operation lists and the logarithmic height bound. *)
Require Import ZArith List Bool Lia.
Require Import IW.UT.Avl IW.UT.Avl_proofs IW.UT.AvlWalk.
Import ListNotations.

(* the keys in the order of a walk in direction d: SR = in-order, SL = reverse in-order *)
Fixpoint lin (d : side) (t : tree) : list Z :=
  match t with
  | Leaf => []
  | Node l k _ r => match d with SR => lin d l ++ k :: lin d r | SL => lin d r ++ k :: lin d l end
  end.

Lemma lin_SR : forall t, lin SR t = av_inorder t.
Proof. induction t as [| l IHl k bf r IHr]; [reflexivity |]. cbn [lin av_inorder]. rewrite IHl, IHr. reflexivity. Qed.

Lemma lin_SL : forall t, lin SL t = rev (av_inorder t).
Proof.
  induction t as [| l IHl k bf r IHr]; [reflexivity |]. cbn [lin av_inorder]. rewrite IHl, IHr.
  rewrite rev_app_distr. cbn [rev]. rewrite <- app_assoc. reflexivity.
Qed.

(* keys still to come once the subtree of the current node is finished *)
Fixpoint rest (d : side) (ctx : list frame) : list Z :=
  match ctx with
  | [] => []
  | f :: up => if side_eqb (f_side f) d then rest d up else f_key f :: lin d (f_sib f) ++ rest d up
  end.

(* keys from the current node on *)
Definition remaining (d : side) (p : pos) : list Z :=
  match fst p with
  | Leaf => []
  | Node _ k _ _ => k :: lin d (child (fst p) d) ++ rest d (snd p)
  end.

Lemma side_eqb_refl : forall d, side_eqb d d = true.
Proof. destruct d; reflexivity. Qed.
Lemma side_eqb_opp : forall d, side_eqb (opp d) d = false.
Proof. destruct d; reflexivity. Qed.

Lemma descend_SL_node : forall l k bf r ctx, descend SL (Node l k bf r) ctx =
  match l with Leaf => Some (Node l k bf r, ctx) | Node _ _ _ _ => descend SL l (mkF SL k bf r :: ctx) end.
Proof. reflexivity. Qed.
Lemma descend_SR_node : forall l k bf r ctx, descend SR (Node l k bf r) ctx =
  match r with Leaf => Some (Node l k bf r, ctx) | Node _ _ _ _ => descend SR r (mkF SR k bf l :: ctx) end.
Proof. reflexivity. Qed.

Lemma descend_spec : forall d t ctx, t <> Leaf ->
  exists p, descend (opp d) t ctx = Some p /\ fst p <> Leaf /\
            remaining d p = lin d t ++ rest d ctx /\ zip_up (fst p) (snd p) = zip_up t ctx.
Proof.
  intros d. induction t as [| l IHl k bf r IHr]; intros ctx Hne; [congruence |].
  destruct d; cbn [opp] in *.
  - (* d = SL: the walk goes right first *)
    rewrite descend_SR_node.
    destruct r as [| rl rk rb rr].
    + eexists. split; [reflexivity |]. split; [discriminate |]. split; [| reflexivity].
      unfold remaining. cbn [fst snd child lin app]. reflexivity.
    + destruct (IHr (mkF SR k bf l :: ctx) ltac:(discriminate)) as [p [Hd [Hn [Hr Hz]]]].
      exists p. split; [exact Hd |]. split; [exact Hn |]. split.
      * rewrite Hr. cbn [rest f_side side_eqb f_key f_sib].
        change (lin SL (Node l k bf (Node rl rk rb rr))) with (lin SL (Node rl rk rb rr) ++ k :: lin SL l).
        rewrite <- app_assoc. reflexivity.
      * rewrite Hz. reflexivity.
  - rewrite descend_SL_node.
    destruct l as [| ll lk lb lr].
    + eexists. split; [reflexivity |]. split; [discriminate |]. split; [| reflexivity].
      unfold remaining. cbn [fst snd child lin app]. reflexivity.
    + destruct (IHl (mkF SL k bf r :: ctx) ltac:(discriminate)) as [p [Hd [Hn [Hr Hz]]]].
      exists p. split; [exact Hd |]. split; [exact Hn |]. split.
      * rewrite Hr. cbn [rest f_side side_eqb f_key f_sib].
        change (lin SR (Node (Node ll lk lb lr) k bf r)) with (lin SR (Node ll lk lb lr) ++ k :: lin SR r).
        rewrite <- app_assoc. reflexivity.
      * rewrite Hz. reflexivity.
Qed.

Lemma plug_node : forall f cur, plug f cur <> Leaf.
Proof. intros f cur. unfold plug. destruct (f_side f); discriminate. Qed.

Lemma remaining_plug : forall d f cur up, side_eqb (f_side f) d = false ->
  remaining d (plug f cur, up) = f_key f :: lin d (f_sib f) ++ rest d up.
Proof.
  intros d f cur up H. unfold remaining, plug. destruct (f_side f), d; cbn in H; try discriminate; reflexivity.
Qed.

Lemma climb_spec : forall d ctx cur,
  match climb d cur ctx with
  | Some p' => fst p' <> Leaf /\ remaining d p' = rest d ctx /\ zip_up (fst p') (snd p') = zip_up cur ctx
  | None => rest d ctx = []
  end.
Proof.
  intros d. induction ctx as [| f up IH]; intros cur; cbn [climb rest]; [reflexivity |].
  destruct (side_eqb (f_side f) d) eqn:E.
  - specialize (IH (plug f cur)). destruct (climb d (plug f cur) up) as [p' |]; [| exact IH].
    destruct IH as [H1 [H2 H3]]. split; [exact H1 |]. split; [exact H2 |]. rewrite H3. reflexivity.
  - cbn [fst snd]. split; [apply plug_node |]. split; [apply remaining_plug; exact E | reflexivity].
Qed.

Lemma step_frame_side : forall t d, f_side (step_frame t d) = d.
Proof. intros [| l k bf r] d; reflexivity. Qed.

Lemma plug_step_frame : forall t d, t <> Leaf -> plug (step_frame t d) (child t d) = t.
Proof. intros [| l k bf r] d H; [congruence |]. destruct d; reflexivity. Qed.

Lemma step_spec : forall d p, fst p <> Leaf ->
  remaining d p = pkey p :: match step_in_order d p with Some p' => remaining d p' | None => [] end /\
  (forall p', step_in_order d p = Some p' -> fst p' <> Leaf /\ zip_up (fst p') (snd p') = zip_up (fst p) (snd p)).
Proof.
  intros d [t ctx] Hne. cbn [fst snd] in Hne. destruct t as [| l k bf r]; [congruence |].
  change (remaining d (Node l k bf r, ctx)) with (k :: lin d (child (Node l k bf r) d) ++ rest d ctx).
  change (pkey (Node l k bf r, ctx)) with k.
  unfold step_in_order. cbn [fst snd].
  destruct (child (Node l k bf r) d) as [| cl ck cb cr] eqn:Ec.
  - (* no child on side d: climb *)
    assert (Hc := climb_spec d ctx (Node l k bf r)).
    cbn [lin app].
    destruct (climb d (Node l k bf r) ctx) as [p' |].
    + destruct Hc as [H1 [H2 H3]]. split; [rewrite H2; reflexivity |].
      intros q Hq. inversion Hq; subst. split; assumption.
    + split; [rewrite Hc; reflexivity |]. intros q Hq. discriminate.
  - rewrite <- Ec.
    destruct (descend_spec d (child (Node l k bf r) d) (step_frame (Node l k bf r) d :: ctx))
      as [p' [Hd [Hn [Hr Hz]]]]; [rewrite Ec; discriminate |].
    rewrite Hd. split.
    + rewrite Hr. cbn [rest]. rewrite step_frame_side, side_eqb_refl. reflexivity.
    + intros q Hq. inversion Hq; subst. split; [exact Hn |]. rewrite Hz. cbn [zip_up].
      rewrite plug_step_frame by discriminate. reflexivity.
Qed.

Lemma walk_none : forall d fuel, walk d fuel None = [].
Proof. intros d [| f]; reflexivity. Qed.

Lemma walk_remaining : forall d fuel p, fst p <> Leaf -> length (remaining d p) <= fuel ->
  walk d fuel (Some p) = remaining d p.
Proof.
  intros d. induction fuel as [| f IH]; intros p Hne Hlen.
  - destruct (step_spec d p Hne) as [Hr _]. rewrite Hr in Hlen. cbn [length] in Hlen. lia.
  - destruct (step_spec d p Hne) as [Hr Hn]. cbn [walk]. rewrite Hr. f_equal.
    destruct (step_in_order d p) as [p' |].
    + apply IH; [apply (Hn p' eq_refl) |]. rewrite Hr in Hlen. cbn [length] in Hlen. lia.
    + apply walk_none.
Qed.

Lemma lin_length : forall d t, length (lin d t) = av_size t.
Proof.
  intros d t. unfold av_size. destruct d; [rewrite lin_SL, rev_length | rewrite lin_SR]; reflexivity.
Qed.

(* the walk in direction d from the first node in that direction, with any loop bound >= the number of nodes *)
Theorem walk_all : forall d t extra,
  walk d (av_size t + extra) (descend (opp d) t []) = lin d t.
Proof.
  intros d t extra. destruct t as [| l k bf r]; [cbn [descend]; destruct d; apply walk_none |].
  destruct (descend_spec d (Node l k bf r) [] ltac:(discriminate)) as [p [Hd [Hn [Hr _]]]].
  rewrite Hd. cbn [rest] in Hr. rewrite app_nil_r in Hr. rewrite <- Hr.
  apply walk_remaining; [exact Hn |]. rewrite Hr, lin_length. lia.
Qed.

Theorem walk_fwd_inorder : forall t extra, walk SR (av_size t + extra) (av_first t) = av_inorder t.
Proof. intros t extra. rewrite <- lin_SR. apply (walk_all SR). Qed.

Theorem walk_bwd_reverse : forall t extra, walk SL (av_size t + extra) (av_last t) = rev (av_inorder t).
Proof. intros t extra. rewrite <- lin_SL. apply (walk_all SL). Qed.

Theorem av_walk_fwd_ok : forall t, av_walk_fwd t = av_inorder t.
Proof. intro t. apply walk_fwd_inorder. Qed.
Theorem av_walk_bwd_ok : forall t, av_walk_bwd t = rev (av_inorder t).
Proof. intro t. apply walk_bwd_reverse. Qed.

(* every position the walks reach lies in the tree they started from *)
Theorem step_stays_in_tree : forall d p p', fst p <> Leaf -> step_in_order d p = Some p' ->
  fst p' <> Leaf /\ zip_up (fst p') (snd p') = zip_up (fst p) (snd p).
Proof. intros d p p' Hne Hs. exact (proj2 (step_spec d p Hne) p' Hs). Qed.

Theorem first_in_tree : forall d t p, descend d t [] = Some p -> fst p <> Leaf /\ zip_up (fst p) (snd p) = t.
Proof.
  intros d t p H. destruct t as [| l k bf r]; [discriminate |].
  destruct (descend_spec (opp d) (Node l k bf r) [] ltac:(discriminate)) as [q [Hd [Hn [_ Hz]]]].
  replace (opp (opp d)) with d in Hd by (destruct d; reflexivity).
  rewrite Hd in H. inversion H; subst. split; [exact Hn | exact Hz].
Qed.

(* ---------------------------------------------------------------- postorder *)
Fixpoint rest_post (ctx : list frame) : list Z :=
  match ctx with
  | [] => []
  | f :: up =>
    match f_side f with
    | SL => av_postorder (f_sib f) ++ f_key f :: rest_post up
    | SR => f_key f :: rest_post up
    end
  end.

Lemma descend_post_node : forall l k bf r ctx, descend_post (Node l k bf r) ctx =
  match l with
  | Node _ _ _ _ => descend_post l (mkF SL k bf r :: ctx)
  | Leaf => match r with
            | Node _ _ _ _ => descend_post r (mkF SR k bf l :: ctx)
            | Leaf => Some (Node l k bf r, ctx)
            end
  end.
Proof. reflexivity. Qed.

Lemma descend_post_spec : forall t ctx, t <> Leaf ->
  exists p, descend_post t ctx = Some p /\ fst p <> Leaf /\
            pkey p :: rest_post (snd p) = av_postorder t ++ rest_post ctx.
Proof.
  induction t as [| l IHl k bf r IHr]; intros ctx Hne; [congruence |].
  rewrite descend_post_node.
  destruct l as [| ll lk lb lr].
  - destruct r as [| rl rk rb rr].
    + eexists. split; [reflexivity |]. split; [discriminate |]. reflexivity.
    + destruct (IHr (mkF SR k bf Leaf :: ctx) ltac:(discriminate)) as [p [Hd [Hn Hr]]].
      exists p. split; [exact Hd |]. split; [exact Hn |]. rewrite Hr.
      cbn [rest_post f_side f_key].
      change (av_postorder (Node Leaf k bf (Node rl rk rb rr))) with ([] ++ av_postorder (Node rl rk rb rr) ++ [k]).
      cbn [app]. rewrite <- app_assoc. reflexivity.
  - destruct (IHl (mkF SL k bf r :: ctx) ltac:(discriminate)) as [p [Hd [Hn Hr]]].
    exists p. split; [exact Hd |]. split; [exact Hn |]. rewrite Hr.
    cbn [rest_post f_side f_key f_sib].
    change (av_postorder (Node (Node ll lk lb lr) k bf r)) with (av_postorder (Node ll lk lb lr) ++ av_postorder r ++ [k]).
    rewrite <- !app_assoc. reflexivity.
Qed.

Lemma pkey_plug : forall f cur, pkey (plug f cur, @nil frame) = f_key f.
Proof. intros f cur. unfold pkey, plug. destruct (f_side f); reflexivity. Qed.

Lemma next_post_spec : forall cur ctx,
  rest_post ctx = match av_next_post (cur, ctx) with Some p' => pkey p' :: rest_post (snd p') | None => [] end /\
  (forall p', av_next_post (cur, ctx) = Some p' -> fst p' <> Leaf).
Proof.
  intros cur ctx. destruct ctx as [| f up]; [split; [reflexivity | intros; discriminate] |].
  cbn [av_next_post rest_post].
  destruct (f_side f) eqn:Es.
  - destruct (f_sib f) as [| sl sk sb sr] eqn:Eb.
    + cbn [av_postorder app]. split.
      * unfold pkey, plug. rewrite Es. reflexivity.
      * intros q Hq. inversion Hq; subst. apply plug_node.
    + rewrite <- Eb.
      destruct (descend_post_spec (f_sib f) (mkF SR (f_key f) (f_bf f) cur :: up)) as [p [Hd [Hn Hr]]];
        [rewrite Eb; discriminate |].
      rewrite Hd. split.
      * rewrite Hr. reflexivity.
      * intros q Hq. inversion Hq; subst. exact Hn.
  - split.
    + unfold pkey, plug. rewrite Es. cbn [fst snd].
      destruct (f_sib f); reflexivity.
    + intros q Hq. destruct (f_sib f); inversion Hq; subst; apply plug_node.
Qed.

Lemma walk_post_none : forall fuel, walk_post fuel None = [].
Proof. intros [| f]; reflexivity. Qed.

Lemma walk_post_remaining : forall fuel p, length (rest_post (snd p)) < fuel ->
  walk_post fuel (Some p) = pkey p :: rest_post (snd p).
Proof.
  induction fuel as [| f IH]; intros [cur ctx] Hlen; [lia |].
  cbn [walk_post]. f_equal. cbn [snd] in *.
  destruct (next_post_spec cur ctx) as [Hr _].
  destruct (av_next_post (cur, ctx)) as [p' |].
  - rewrite Hr. apply IH. rewrite Hr in Hlen. cbn [length] in Hlen. lia.
  - rewrite Hr. apply walk_post_none.
Qed.

Lemma postorder_length : forall t, length (av_postorder t) = av_size t.
Proof.
  unfold av_size. induction t as [| l IHl k bf r IHr]; [reflexivity |].
  cbn [av_postorder av_inorder]. rewrite !app_length. cbn [length]. rewrite IHl, IHr. lia.
Qed.

Theorem walk_post_all : forall t extra,
  walk_post (av_size t + 1 + extra) (av_first_post t) = av_postorder t.
Proof.
  intros t extra. unfold av_first_post. destruct t as [| l k bf r]; [apply walk_post_none |].
  destruct (descend_post_spec (Node l k bf r) [] ltac:(discriminate)) as [p [Hd [Hn Hr]]].
  rewrite Hd. cbn [rest_post] in Hr. rewrite app_nil_r in Hr. rewrite <- Hr.
  apply walk_post_remaining.
  assert (Hl : length (pkey p :: rest_post (snd p)) = av_size (Node l k bf r)) by (rewrite Hr; apply postorder_length).
  cbn [length] in Hl. lia.
Qed.

Theorem av_walk_post_ok : forall t, av_walk_post t = av_postorder t.
Proof.
  intro t. unfold av_walk_post. replace (av_size t + 3) with (av_size t + 1 + 2) by lia. apply walk_post_all.
Qed.

(* the order that makes freeing the visited node safe: in the postorder sequence a node comes after every node of its
   two subtrees, and the sequence is a permutation of the in-order sequence (every node exactly once) *)
Inductive subtree : tree -> tree -> Prop :=
  | sub_refl : forall t, subtree t t
  | sub_left : forall s l k bf r, subtree s l -> subtree s (Node l k bf r)
  | sub_right : forall s l k bf r, subtree s r -> subtree s (Node l k bf r).

Theorem postorder_children_first : forall t l k bf r, subtree (Node l k bf r) t ->
  exists pre suf, av_postorder t = pre ++ (av_postorder l ++ av_postorder r ++ [k]) ++ suf.
Proof.
  intros t l k bf r H. remember (Node l k bf r) as s eqn:Es. induction H as [t | s l' k' bf' r' H IH | s l' k' bf' r' H IH].
  - subst t. exists [], []. cbn [av_postorder app]. rewrite app_nil_r. reflexivity.
  - destruct (IH Es) as [pre [suf E]]. exists pre, (suf ++ av_postorder r' ++ [k']).
    cbn [av_postorder]. rewrite E. rewrite <- !app_assoc. reflexivity.
  - destruct (IH Es) as [pre [suf E]]. exists (av_postorder l' ++ pre), (suf ++ [k']).
    cbn [av_postorder]. rewrite E. rewrite <- !app_assoc. reflexivity.
Qed.

Require Import Permutation.
Theorem postorder_perm_inorder : forall t, Permutation (av_postorder t) (av_inorder t).
Proof.
  induction t as [| l IHl k bf r IHr]; [constructor |].
  cbn [av_postorder av_inorder].
  apply Permutation_app; [exact IHl |].
  eapply Permutation_trans; [apply Permutation_app_comm |]. cbn [app]. constructor. exact IHr.
Qed.

(* ---------------------------------------------------------------- the invariant over operation lists *)
Definition av_exec (t : tree) (ops : list aop) : tree := fold_left (fun t o => fst (av_step t o)) ops t.

Lemma av_exec_inv : forall ops t, bst t -> balanced t -> bst (av_exec t ops) /\ balanced (av_exec t ops).
Proof.
  induction ops as [| o ops IH]; intros t Hb Hbal; [split; assumption |].
  unfold av_exec. cbn [fold_left]. destruct (av_step_inv t o Hb Hbal) as [Hb' Hbal']. apply IH; assumption.
Qed.

Lemma av_exec_inorder : forall ops t, bst t ->
  av_inorder (av_exec t ops) = fold_left (fun s o => fst (set_step s o)) ops (av_inorder t).
Proof.
  induction ops as [| o ops IH]; intros t Hb; [reflexivity |].
  unfold av_exec. cbn [fold_left].
  pose proof (av_step_refines t o Hb) as Hs. destruct (av_step t o) as [t' out] eqn:E. destruct Hs as [Hb' Hs].
  cbn [fst]. rewrite Hs. cbn [fst]. apply IH. exact Hb'.
Qed.

(* ---------------------------------------------------------------- height is logarithmic in the size *)
Local Open Scope Z_scope.

Lemma pow2_half_step : forall h, 2 <= h -> 2 ^ (h / 2) = 2 * 2 ^ ((h - 2) / 2).
Proof.
  intros h Hh. replace h with ((h - 2) + 1 * 2) at 1 by ring.
  rewrite Z.div_add by lia. rewrite Z.pow_add_r by (try apply Z.div_pos; lia). rewrite Z.pow_1_r. ring.
Qed.

Lemma pow2_half_mono : forall a b, 0 <= a <= b -> 2 ^ (a / 2) <= 2 ^ (b / 2).
Proof. intros a b H. apply Z.pow_le_mono_r; [lia |]. apply Z.div_le_mono; lia. Qed.

Theorem balanced_height_log : forall t, balanced t -> 2 ^ (height t / 2) <= Z.of_nat (av_size t) + 1.
Proof.
  unfold av_size. induction t as [| l IHl k bf r IHr]; intros Hbal.
  - cbn. lia.
  - cbn [balanced] in Hbal. destruct Hbal as [Hbf [Hr [Hbl Hbr]]].
    specialize (IHl Hbl). specialize (IHr Hbr).
    pose proof (height_nonneg l) as Hl0. pose proof (height_nonneg r) as Hr0.
    cbn [height av_inorder]. rewrite app_length. cbn [length].
    set (h := 1 + Z.max (height l) (height r)).
    assert (Hh : 1 <= h) by (unfold h; lia).
    destruct (Z_lt_le_dec h 2) as [H1 | H2].
    + assert (E : h / 2 = 0) by (apply Z.div_small; lia). rewrite E. cbn. lia.
    + rewrite (pow2_half_step h H2).
      assert (A : 2 ^ ((h - 2) / 2) <= 2 ^ (height l / 2)) by (apply pow2_half_mono; unfold h; lia).
      assert (B : 2 ^ ((h - 2) / 2) <= 2 ^ (height r / 2)) by (apply pow2_half_mono; unfold h; lia).
      lia.
Qed.

(* ---------------------------------------------------------------- everything about a reachable tree in one statement *)
Lemma bst_leaf : bst Leaf.
Proof. constructor. Qed.

Theorem avl_refines_set_inv : forall ops : list aop,
  let t := av_exec Leaf ops in
  bst t /\ balanced t /\
  av_run Leaf ops = set_run [] ops /\
  av_inorder t = fold_left (fun s o => fst (set_step s o)) ops [] /\
  (2 ^ (height t / 2) <= Z.of_nat (av_size t) + 1) /\
  av_walk_fwd t = av_inorder t /\ av_walk_bwd t = rev (av_inorder t) /\ av_walk_post t = av_postorder t.
Proof.
  intros ops t.
  destruct (av_exec_inv ops Leaf bst_leaf I) as [Hb Hbal]. fold t in Hb, Hbal.
  split; [exact Hb |]. split; [exact Hbal |]. split; [exact (avl_refines_set ops) |].
  split; [exact (av_exec_inorder ops Leaf bst_leaf) |]. split; [exact (balanced_height_log t Hbal) |].
  split; [exact (av_walk_fwd_ok t) |]. split; [exact (av_walk_bwd_ok t) | exact (av_walk_post_ok t)].
Qed.
