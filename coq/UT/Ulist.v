(* C18 - executable model of iwulist (src/utils/iwarr.c): fixed-size units in one byte array, addressed with
   BYTE offsets exactly as the C code does (array + index * usize).  Follows the code after fix 8c4442d
   (iwulist_clone scales start by usize).  Fresh memory is modelled as zero bytes (never observable: only
   units start .. start+num-1 are).  No proofs here. *)
Require Import ZArith List Bool Lia Arith.
Require Import IW.Gen.Facts.
Import ListNotations.

Definition ALLOC_UNIT : nat := Z.to_nat CONT_IWULIST_ALLOC_UNIT.

Record ulist := mkU { u_arr : list Z; u_usize : nat; u_start : nat; u_num : nat; u_anum : nat }.

(* return codes *)
Inductive urc := U_OK | U_OOB.

(* memory primitives on a byte list *)
Definition slice (a : list Z) (off n : nat) : list Z := firstn n (skipn off a).
(* memcpy(a + off, bs, |bs|) *)
Definition write (a : list Z) (off : nat) (bs : list Z) : list Z :=
  firstn off a ++ bs ++ skipn (off + length bs) a.
(* memmove(a + dst, a + src, n) *)
Definition move (a : list Z) (dst src n : nat) : list Z := write a dst (slice a src n).
(* realloc(a, n) *)
Definition resize (a : list Z) (n : nat) : list Z := firstn n a ++ repeat 0%Z (n - length a).

Definition u_init (initial_length usize : nat) : ulist :=
  let an := if Nat.eqb initial_length 0 then ALLOC_UNIT else initial_length in
  mkU (repeat 0%Z (usize * an)) usize 0 0 an.

Definition u_clear (l : ulist) : ulist := u_init ALLOC_UNIT (u_usize l).
Definition u_reset (l : ulist) : ulist := mkU (u_arr l) (u_usize l) 0 0 (u_anum l).
Definition u_length (l : ulist) : nat := u_num l.

(* iwulist_at / at2 / get *)
Definition u_get (l : ulist) (index : nat) : option (list Z) :=
  if (u_num l <=? index) then None
  else Some (slice (u_arr l) ((index + u_start l) * u_usize l) (u_usize l)).

Definition u_clone (l : ulist) : ulist :=
  if Nat.eqb (u_num l) 0 then u_init (u_anum l) (u_usize l)
  else
    let an := if (ALLOC_UNIT <? u_num l) then u_num l else ALLOC_UNIT in
    mkU (write (repeat 0%Z (an * u_usize l)) 0 (slice (u_arr l) (u_start l * u_usize l) (u_num l * u_usize l)))
        (u_usize l) 0 (u_num l) an.

(* growth used by push / insert / unshift: anum + num + 1 *)
Definition u_grow (l : ulist) : ulist :=
  let an := u_anum l + u_num l + 1 in
  mkU (resize (u_arr l) (an * u_usize l)) (u_usize l) (u_start l) (u_num l) an.

Definition u_push (l : ulist) (data : list Z) : ulist :=
  let index := u_start l + u_num l in
  let l1 := if (u_anum l <=? index) then u_grow l else l in
  mkU (write (u_arr l1) (index * u_usize l1) data) (u_usize l1) (u_start l1) (S (u_num l1)) (u_anum l1).

(* the shrink step shared by pop / shift / remove: [start] is the first live unit, [num] the live count *)
Definition u_shrink (l : ulist) (start num : nat) : ulist :=
  if (ALLOC_UNIT <? u_anum l) && (num * 2 <=? u_anum l) then
    let a1 := if Nat.eqb start 0 then u_arr l else move (u_arr l) 0 (start * u_usize l) (num * u_usize l) in
    let an := if (ALLOC_UNIT <? num) then num else ALLOC_UNIT in
    mkU (resize a1 (an * u_usize l)) (u_usize l) 0 num an
  else mkU (u_arr l) (u_usize l) start num (u_anum l).

Definition u_pop (l : ulist) : ulist * urc :=
  if Nat.eqb (u_num l) 0 then (l, U_OOB)
  else (u_shrink l (u_start l) (u_num l - 1), U_OK).

Definition u_shift (l : ulist) : ulist * urc :=
  if Nat.eqb (u_num l) 0 then (l, U_OOB)
  else (u_shrink l (u_start l + 1) (u_num l - 1), U_OK).

Definition u_insert (l : ulist) (index0 : nat) (data : list Z) : ulist * urc :=
  if (u_num l <? index0) then (l, U_OOB)
  else
    let index := index0 + u_start l in
    let l1 := if (u_anum l <=? u_start l + u_num l) then u_grow l else l in
    let us := u_usize l1 in
    let a1 := move (u_arr l1) ((index + 1) * us) (index * us) ((u_start l1 + u_num l1 - index) * us) in
    (mkU (write a1 (index * us) data) us (u_start l1) (S (u_num l1)) (u_anum l1), U_OK).

Definition u_set (l : ulist) (index0 : nat) (data : list Z) : ulist * urc :=
  if (u_num l <=? index0) then (l, U_OOB)
  else
    let index := index0 + u_start l in
    (mkU (write (u_arr l) (index * u_usize l) data) (u_usize l) (u_start l) (u_num l) (u_anum l), U_OK).

Definition u_remove (l : ulist) (index0 : nat) : ulist * urc :=
  if (u_num l <=? index0) then (l, U_OOB)
  else
    let index := index0 + u_start l in
    let num := u_num l - 1 in
    let us := u_usize l in
    let a1 := move (u_arr l) (index * us) ((index + 1) * us) ((u_start l + num - index) * us) in
    (u_shrink (mkU a1 us (u_start l) num (u_anum l)) (u_start l) num, U_OK).

Definition bytes_eqb (a b : list Z) : bool :=
  Nat.eqb (length a) (length b) && forallb (fun p => Z.eqb (fst p) (snd p)) (combine a b).

(* first i in [from, start+num) whose unit equals data; the loop of find_first / remove_first_by *)
Fixpoint u_scan (l : ulist) (data : list Z) (fuel i : nat) : option nat :=
  match fuel with
  | O => None
  | S f =>
    if bytes_eqb data (slice (u_arr l) (i * u_usize l) (u_usize l)) then Some (i - u_start l)
    else u_scan l data f (S i)
  end.

Definition u_find_first (l : ulist) (data : list Z) : option nat := u_scan l data (u_num l) (u_start l).

Definition u_remove_first_by (l : ulist) (data : list Z) : ulist * bool :=
  match u_find_first l data with
  | Some i => let '(l', rc) := u_remove l i in (l', match rc with U_OK => true | U_OOB => false end)
  | None => (l, false)
  end.

Definition u_unshift (l : ulist) (data : list Z) : ulist :=
  let l2 :=
    if Nat.eqb (u_start l) 0 then
      let l1 := if (u_anum l <=? u_num l) then u_grow l else l in
      let st := u_anum l1 - u_num l1 in
      mkU (move (u_arr l1) (st * u_usize l1) 0 (u_num l1 * u_usize l1)) (u_usize l1) st (u_num l1) (u_anum l1)
    else l in
  mkU (write (u_arr l2) ((u_start l2 - 1) * u_usize l2) data) (u_usize l2) (u_start l2 - 1) (S (u_num l2)) (u_anum l2).

(* the live units, in order *)
Definition u_units (l : ulist) : list (list Z) :=
  map (fun i => slice (u_arr l) ((u_start l + i) * u_usize l) (u_usize l)) (seq 0 (u_num l)).

(* iwulist_copy: push every unit of l onto tgt *)
Definition u_copy (l tgt : ulist) : ulist := fold_left u_push (u_units l) tgt.

(* iwulist_sort with the harness comparator memcmp(a, b, usize): insertion sort of the units *)
Fixpoint bytes_leb (a b : list Z) : bool :=
  match a, b with
  | [], _ => true
  | _ :: _, [] => false
  | x :: a', y :: b' => if (x <? y)%Z then true else if (y <? x)%Z then false else bytes_leb a' b'
  end.
Fixpoint ins_sorted (x : list Z) (l : list (list Z)) : list (list Z) :=
  match l with
  | [] => [x]
  | y :: t => if bytes_leb x y then x :: l else y :: ins_sorted x t
  end.
Definition sort_units (l : list (list Z)) : list (list Z) := fold_right ins_sorted [] l.

Definition u_sort (l : ulist) : ulist :=
  mkU (write (u_arr l) (u_start l * u_usize l) (concat (sort_units (u_units l))))
      (u_usize l) (u_start l) (u_num l) (u_anum l).

(* ---------------------------------------------------------------- specification: a plain list of units *)
Definition l_insert {A} (l : list A) (i : nat) (x : A) : list A := firstn i l ++ x :: skipn i l.
Definition l_set {A} (l : list A) (i : nat) (x : A) : list A := firstn i l ++ x :: skipn (S i) l.
Definition l_remove {A} (l : list A) (i : nat) : list A := firstn i l ++ skipn (S i) l.

(* ---------------------------------------------------------------- call sequences: model and specification side by side *)
Inductive uop :=
  | UPush (d : list Z) | UUnshift (d : list Z) | UPop | UShift
  | UInsert (i : nat) (d : list Z) | USet (i : nat) (d : list Z) | URemove (i : nat)
  | URemoveBy (d : list Z) | UFind (d : list Z) | UGet (i : nat) | ULength
  | UClone | UCopy (il : nat) | UClear | UReset | USort.

Inductive uout :=
  | ORc (rc : urc) | OIdx (i : option nat) | OUnit (u : option (list Z)) | OBool (b : bool)
  | ONat (n : nat) | OList (l : list (list Z)).

Definition u_step (l : ulist) (op : uop) : ulist * uout :=
  match op with
  | UPush d => (u_push l d, ORc U_OK)
  | UUnshift d => (u_unshift l d, ORc U_OK)
  | UPop => let '(l', rc) := u_pop l in (l', ORc rc)
  | UShift => let '(l', rc) := u_shift l in (l', ORc rc)
  | UInsert i d => let '(l', rc) := u_insert l i d in (l', ORc rc)
  | USet i d => let '(l', rc) := u_set l i d in (l', ORc rc)
  | URemove i => let '(l', rc) := u_remove l i in (l', ORc rc)
  | URemoveBy d => let '(l', b) := u_remove_first_by l d in (l', OBool b)
  | UFind d => (l, OIdx (u_find_first l d))
  | UGet i => (l, OUnit (u_get l i))
  | ULength => (l, ONat (u_length l))
  | UClone => (l, OList (u_units (u_clone l)))
  | UCopy il => (l, OList (u_units (u_copy l (u_init il (u_usize l)))))
  | UClear => (u_clear l, ORc U_OK)
  | UReset => (u_reset l, ORc U_OK)
  | USort => (u_sort l, ORc U_OK)
  end.

(* index of the first element equal to d *)
Fixpoint l_find (l : list (list Z)) (d : list Z) : option nat :=
  match l with
  | [] => None
  | x :: t => if bytes_eqb d x then Some 0 else match l_find t d with Some i => Some (S i) | None => None end
  end.

Definition l_step (l : list (list Z)) (op : uop) : list (list Z) * uout :=
  match op with
  | UPush d => (l ++ [d], ORc U_OK)
  | UUnshift d => (d :: l, ORc U_OK)
  | UPop => match l with [] => (l, ORc U_OOB) | _ => (removelast l, ORc U_OK) end
  | UShift => match l with [] => (l, ORc U_OOB) | _ :: t => (t, ORc U_OK) end
  | UInsert i d => if (length l <? i) then (l, ORc U_OOB) else (l_insert l i d, ORc U_OK)
  | USet i d => if (length l <=? i) then (l, ORc U_OOB) else (l_set l i d, ORc U_OK)
  | URemove i => if (length l <=? i) then (l, ORc U_OOB) else (l_remove l i, ORc U_OK)
  | URemoveBy d => match l_find l d with Some i => (l_remove l i, OBool true) | None => (l, OBool false) end
  | UFind d => (l, OIdx (l_find l d))
  | UGet i => (l, OUnit (nth_error l i))
  | ULength => (l, ONat (length l))
  | UClone => (l, OList l)
  | UCopy _ => (l, OList l)
  | UClear => ([], ORc U_OK)
  | UReset => ([], ORc U_OK)
  | USort => (sort_units l, ORc U_OK)
  end.

Fixpoint u_run (l : ulist) (ops : list uop) : list uout :=
  match ops with
  | [] => []
  | op :: t => let '(l', o) := u_step l op in o :: u_run l' t
  end.
Fixpoint l_run (l : list (list Z)) (ops : list uop) : list uout :=
  match ops with
  | [] => []
  | op :: t => let '(l', o) := l_step l op in o :: l_run l' t
  end.

(* every unit handed in has exactly usize bytes *)
Definition uop_ok (us : nat) (op : uop) : Prop :=
  match op with
  | UPush d | UUnshift d | UInsert _ d | USet _ d | URemoveBy d | UFind d => length d = us
  | _ => True
  end.
