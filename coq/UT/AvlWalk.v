(* C18 - executable model of the NON-RECURSIVE traversal functions of src/utils/iwavl.c:
     iwavl_first_in_order / iwavl_last_in_order      (iwavl_first_or_last_in_order, sign = -1 / +1)
     iwavl_next_in_order / iwavl_prev_in_order       (iwavl_next_or_prev_in_order,  sign = +1 / -1)
     iwavl_first_in_postorder / iwavl_next_in_postorder (the loop of iwavl_for_each_in_postorder)
   The tree model of UT/Avl.v has no parent pointers; here the chain of parents that iwavl_get_parent yields is made
   explicit: a position is (the subtree rooted at the current node, the frames of its ancestors, nearest first).  A frame
   says on which side of the parent the node hangs (the test `node == iwavl_get_child(next, +sign)` / `prev == next->left`),
   and carries the parent's key, balance factor and other subtree.  Same control flow as the C loops.  No proofs here. *)
Require Import ZArith List Bool.
Require Import IW.UT.Avl.
Import ListNotations.

Inductive side := SL | SR.                      (* sign < 0 : left, sign > 0 : right *)
Definition opp (d : side) : side := match d with SL => SR | SR => SL end.
Definition side_eqb (a b : side) : bool :=
  match a, b with SL, SL => true | SR, SR => true | _, _ => false end.

(* iwavl_get_child(node, sign) *)
Definition child (t : tree) (d : side) : tree :=
  match t with
  | Leaf => Leaf
  | Node l _ _ r => match d with SL => l | SR => r end
  end.

Record frame := mkF { f_side : side; f_key : Z; f_bf : Z; f_sib : tree }.
Definition pos := (tree * list frame)%type.

(* the parent node, as a subtree, of the node whose subtree is cur *)
Definition plug (f : frame) (cur : tree) : tree :=
  match f_side f with
  | SL => Node cur (f_key f) (f_bf f) (f_sib f)
  | SR => Node (f_sib f) (f_key f) (f_bf f) cur
  end.

(* the frame that describes t as the parent of its child on side d *)
Definition step_frame (t : tree) (d : side) : frame :=
  match t with
  | Leaf => mkF d 0 0 Leaf
  | Node l k bf r => mkF d k bf (match d with SL => r | SR => l end)
  end.

Definition pkey (p : pos) : Z := match fst p with Node _ k _ _ => k | Leaf => 0%Z end.

(* the whole tree a position lives in *)
Fixpoint zip_up (cur : tree) (ctx : list frame) : tree :=
  match ctx with [] => cur | f :: up => zip_up (plug f cur) up end.

(* while (iwavl_get_child(first, +sign)) first = iwavl_get_child(first, +sign);   NULL for an empty tree *)
Fixpoint descend (d : side) (t : tree) (ctx : list frame) : option pos :=
  match t with
  | Leaf => None
  | Node l k bf r =>
    match d with
    | SL => match l with Leaf => Some (t, ctx) | Node _ _ _ _ => descend d l (mkF SL k bf r :: ctx) end
    | SR => match r with Leaf => Some (t, ctx) | Node _ _ _ _ => descend d r (mkF SR k bf l :: ctx) end
    end
  end.

Definition av_first (t : tree) : option pos := descend SL t [].     (* iwavl_first_in_order *)
Definition av_last (t : tree) : option pos := descend SR t [].      (* iwavl_last_in_order *)

(* for (next = parent(node); next && node == child(next, +sign); node = next, next = parent(next)); *)
Fixpoint climb (d : side) (cur : tree) (ctx : list frame) : option pos :=
  match ctx with
  | [] => None
  | f :: up => if side_eqb (f_side f) d then climb d (plug f cur) up else Some (plug f cur, up)
  end.

(* iwavl_next_or_prev_in_order(node, sign) *)
Definition step_in_order (d : side) (p : pos) : option pos :=
  let '(t, ctx) := p in
  match child t d with
  | Node _ _ _ _ => descend (opp d) (child t d) (step_frame t d :: ctx)
  | Leaf => climb d t ctx
  end.

Definition av_next : pos -> option pos := step_in_order SR.    (* iwavl_next_in_order *)
Definition av_prev : pos -> option pos := step_in_order SL.    (* iwavl_prev_in_order *)

(* the loop `for (x = first; x && lim; x = step(x), --lim)` of the harness *)
Fixpoint walk (d : side) (fuel : nat) (o : option pos) : list Z :=
  match fuel, o with
  | S f, Some p => pkey p :: walk d f (step_in_order d p)
  | _, _ => []
  end.

Definition av_size (t : tree) : nat := length (av_inorder t).
Definition av_walk_fwd (t : tree) : list Z := walk SR (av_size t + 3) (av_first t).
Definition av_walk_bwd (t : tree) : list Z := walk SL (av_size t + 3) (av_last t).

(* ---------------------------------------------------------------- postorder *)
(* while (first->left || first->right) first = first->left ? first->left : first->right; *)
Fixpoint descend_post (t : tree) (ctx : list frame) : option pos :=
  match t with
  | Leaf => None
  | Node l k bf r =>
    match l with
    | Node _ _ _ _ => descend_post l (mkF SL k bf r :: ctx)
    | Leaf =>
      match r with
      | Node _ _ _ _ => descend_post r (mkF SR k bf l :: ctx)
      | Leaf => Some (t, ctx)
      end
    end
  end.

Definition av_first_post (t : tree) : option pos := descend_post t [].      (* iwavl_first_in_postorder *)

(* iwavl_next_in_postorder(prev, prev_parent): next = prev_parent;
   if (next && prev == next->left && next->right) descend into next->right; *)
Definition av_next_post (p : pos) : option pos :=
  let '(cur, ctx) := p in
  match ctx with
  | [] => None
  | f :: up =>
    match f_side f, f_sib f with
    | SL, Node _ _ _ _ => descend_post (f_sib f) (mkF SR (f_key f) (f_bf f) cur :: up)
    | _, _ => Some (plug f cur, up)
    end
  end.

Fixpoint walk_post (fuel : nat) (o : option pos) : list Z :=
  match fuel, o with
  | S f, Some p => pkey p :: walk_post f (av_next_post p)
  | _, _ => []
  end.
Definition av_walk_post (t : tree) : list Z := walk_post (av_size t + 3) (av_first_post t).

(* reference: the recursive postorder *)
Fixpoint av_postorder (t : tree) : list Z :=
  match t with
  | Leaf => []
  | Node l k _ r => av_postorder l ++ av_postorder r ++ [k]
  end.

