(* C18 - proofs about the slot-level model of iwlist (UT/Plist.v): for every call sequence the model behaves like a
   plain list of byte strings (plist_refines_list).

   Method: [rep l items] = the invariant pl_wf (|arr| = anum, start + num <= anum, 0 < anum, live slots are Some)
   together with "slot start + i holds items[i]".  Every memory primitive (s_write / s_move / s_resize / s_slice) is
   characterised by what s_at reads from it afterwards, every list operation of the specification by its nth; the
   one-step simulation [step_sim] is then index arithmetic. *)
Require Import ZArith List Bool Lia Arith.
Require Import IW.UT.Plist.
Import ListNotations.

(* ---------------------------------------------------------------- nth on lists, any element type *)
Lemma nth_firstn_lt : forall (A : Type) (d : A) (a : list A) n i, i < n -> nth i (firstn n a) d = nth i a d.
Proof.
  intros A d a. induction a as [|x a IH]; intros n i Hi.
  - destruct n; reflexivity.
  - destruct n as [|n]; [lia|]. destruct i as [|i]; [reflexivity|]. simpl. apply IH. lia.
Qed.

Lemma nth_skipn_add : forall (A : Type) (d : A) n (a : list A) i, nth i (skipn n a) d = nth (n + i) a d.
Proof.
  intros A d n. induction n as [|n IH]; intros a i.
  - reflexivity.
  - destruct a as [|x a]; [destruct i; reflexivity|]. simpl. apply IH.
Qed.

Lemma nth_repeat_same : forall (A : Type) (d : A) n i, nth i (repeat d n) d = d.
Proof.
  intros A d n. induction n as [|n IH]; intros i.
  - destruct i; reflexivity.
  - destruct i as [|i]; [reflexivity|]. simpl. apply IH.
Qed.

Lemma nth_map_seq : forall (A : Type) (d : A) (f : nat -> A) len i, i < len -> nth i (map f (seq 0 len)) d = f i.
Proof.
  intros A d f len i Hi.
  rewrite (nth_indep _ d (f 0)) by (rewrite map_length, seq_length; exact Hi).
  rewrite map_nth, seq_nth by exact Hi. reflexivity.
Qed.

Lemma last_is_nth : forall (A : Type) (d : A) (l : list A), last l d = nth (length l - 1) l d.
Proof.
  intros A d l. induction l as [|x l IH]; [reflexivity|].
  destruct l as [|y l]; [reflexivity|].
  change (last (x :: y :: l) d) with (last (y :: l) d). rewrite IH.
  cbn [length]. replace (S (S (length l)) - 1) with (S (S (length l) - 1)) by lia. reflexivity.
Qed.

Lemma nth_removelast : forall (A : Type) (d : A) (l : list A) i, i < length l - 1 -> nth i (removelast l) d = nth i l d.
Proof.
  intros A d l i Hi. rewrite removelast_firstn_len. apply nth_firstn_lt. lia.
Qed.

Lemma removelast_length : forall (A : Type) (l : list A), length (removelast l) = length l - 1.
Proof.
  intros A l. rewrite removelast_firstn_len, firstn_length. lia.
Qed.

(* ---------------------------------------------------------------- the specification's list operations *)
Lemma pll_insert_length : forall l i x, i <= length l -> length (pll_insert l i x) = S (length l).
Proof.
  intros l i x Hi. unfold pll_insert. rewrite app_length, firstn_length. cbn [length]. rewrite skipn_length. lia.
Qed.

Lemma nth_pll_insert : forall l i x k, i <= length l ->
  nth k (pll_insert l i x) [] = if (k <? i) then nth k l [] else if (k =? i) then x else nth (k - 1) l [].
Proof.
  intros l i x k Hi. unfold pll_insert.
  destruct (Nat.ltb_spec k i) as [Hk|Hk].
  - rewrite app_nth1 by (rewrite firstn_length; lia). apply nth_firstn_lt. exact Hk.
  - rewrite app_nth2 by (rewrite firstn_length; lia). rewrite firstn_length.
    replace (Init.Nat.min i (length l)) with i by lia.
    destruct (Nat.eqb_spec k i) as [He|He].
    + subst k. rewrite Nat.sub_diag. reflexivity.
    + destruct (k - i) as [|m] eqn:Hm; [lia|]. cbn [nth]. rewrite nth_skipn_add. f_equal. lia.
Qed.

Lemma pll_set_length : forall l i x, i < length l -> length (pll_set l i x) = length l.
Proof.
  intros l i x Hi. unfold pll_set. rewrite app_length, firstn_length. cbn [length]. rewrite skipn_length. lia.
Qed.

Lemma nth_pll_set : forall l i x k, i < length l ->
  nth k (pll_set l i x) [] = if (k =? i) then x else nth k l [].
Proof.
  intros l i x k Hi. unfold pll_set.
  destruct (Nat.eqb_spec k i) as [He|He].
  - subst k. rewrite app_nth2 by (rewrite firstn_length; lia). rewrite firstn_length.
    replace (i - Init.Nat.min i (length l)) with 0 by lia. reflexivity.
  - destruct (Nat.lt_ge_cases k i) as [Hk|Hk].
    + rewrite app_nth1 by (rewrite firstn_length; lia). apply nth_firstn_lt. exact Hk.
    + rewrite app_nth2 by (rewrite firstn_length; lia). rewrite firstn_length.
      replace (Init.Nat.min i (length l)) with i by lia.
      destruct (k - i) as [|m] eqn:Hm; [lia|]. cbn [nth]. rewrite nth_skipn_add. f_equal. lia.
Qed.

Lemma pll_remove_length : forall l i, i < length l -> length (pll_remove l i) = length l - 1.
Proof.
  intros l i Hi. unfold pll_remove. rewrite app_length, firstn_length, skipn_length. lia.
Qed.

Lemma nth_pll_remove : forall l i k, i < length l ->
  nth k (pll_remove l i) [] = if (k <? i) then nth k l [] else nth (S k) l [].
Proof.
  intros l i k Hi. unfold pll_remove.
  destruct (Nat.ltb_spec k i) as [Hk|Hk].
  - rewrite app_nth1 by (rewrite firstn_length; lia). apply nth_firstn_lt. exact Hk.
  - rewrite app_nth2 by (rewrite firstn_length; lia). rewrite firstn_length.
    replace (Init.Nat.min i (length l)) with i by lia. rewrite nth_skipn_add. f_equal. lia.
Qed.

Lemma pl_ins_length : forall x l, length (pl_ins x l) = S (length l).
Proof.
  intros x l. induction l as [|y t IH]; [reflexivity|].
  cbn [pl_ins]. destruct (pl_leb x y); cbn [length]; [reflexivity|]. rewrite IH. reflexivity.
Qed.

Lemma pl_sort_items_length : forall l, length (pl_sort_items l) = length l.
Proof.
  intros l. unfold pl_sort_items. induction l as [|x t IH]; [reflexivity|].
  cbn [fold_right length]. rewrite pl_ins_length, IH. reflexivity.
Qed.

(* ---------------------------------------------------------------- memory primitives *)
Lemma s_at_nth : forall a i, s_at a i = nth i a None.
Proof. reflexivity. Qed.

Lemma s_slice_length : forall a off n, off + n <= length a -> length (s_slice a off n) = n.
Proof.
  intros a off n Hle. unfold s_slice. rewrite firstn_length, skipn_length. lia.
Qed.

Lemma s_at_slice : forall a off n i, i < n -> s_at (s_slice a off n) i = s_at a (off + i).
Proof.
  intros a off n i Hi. unfold s_slice, s_at. rewrite nth_firstn_lt by exact Hi. apply nth_skipn_add.
Qed.

Lemma s_write_length : forall a off bs, off + length bs <= length a -> length (s_write a off bs) = length a.
Proof.
  intros a off bs Hle. unfold s_write. rewrite !app_length, firstn_length, skipn_length. lia.
Qed.

Lemma s_at_write : forall a off bs i, off + length bs <= length a ->
  s_at (s_write a off bs) i =
  if (i <? off) then s_at a i else if (i <? off + length bs) then s_at bs (i - off) else s_at a i.
Proof.
  intros a off bs i Hle. unfold s_write, s_at.
  destruct (Nat.ltb_spec i off) as [Hi|Hi].
  - rewrite app_nth1 by (rewrite firstn_length; lia). apply nth_firstn_lt. exact Hi.
  - rewrite app_nth2 by (rewrite firstn_length; lia). rewrite firstn_length.
    replace (Init.Nat.min off (length a)) with off by lia.
    destruct (Nat.ltb_spec i (off + length bs)) as [Hj|Hj].
    + apply app_nth1. lia.
    + rewrite app_nth2 by lia. rewrite nth_skipn_add. f_equal. lia.
Qed.

Lemma s_move_length : forall a dst src n,
  src + n <= length a -> dst + n <= length a -> length (s_move a dst src n) = length a.
Proof.
  intros a dst src n Hs Hd. unfold s_move. apply s_write_length. rewrite s_slice_length; assumption.
Qed.

Lemma s_at_move : forall a dst src n i, src + n <= length a -> dst + n <= length a ->
  s_at (s_move a dst src n) i =
  if (i <? dst) then s_at a i else if (i <? dst + n) then s_at a (src + (i - dst)) else s_at a i.
Proof.
  intros a dst src n i Hs Hd. unfold s_move.
  rewrite s_at_write by (rewrite s_slice_length; assumption).
  rewrite s_slice_length by assumption.
  destruct (Nat.ltb_spec i dst) as [Hi|Hi]; [reflexivity|].
  destruct (Nat.ltb_spec i (dst + n)) as [Hj|Hj]; [|reflexivity].
  apply s_at_slice. lia.
Qed.

Lemma s_resize_length : forall a n, length (s_resize a n) = n.
Proof.
  intros a n. unfold s_resize. rewrite app_length, firstn_length, repeat_length. lia.
Qed.

Lemma s_at_resize : forall a n i, length a <= n -> s_at (s_resize a n) i = s_at a i.
Proof.
  intros a n i Hle. unfold s_resize, s_at. rewrite firstn_all2 by exact Hle.
  destruct (Nat.lt_ge_cases i (length a)) as [Hi|Hi].
  - apply app_nth1. exact Hi.
  - rewrite app_nth2 by exact Hi. rewrite nth_repeat_same. symmetry. apply nth_overflow. exact Hi.
Qed.

Lemma s_at_map_some : forall (l : list (list Z)) i, i < length l -> s_at (map (@Some (list Z)) l) i = Some (nth i l []).
Proof.
  intros l i Hi. unfold s_at.
  rewrite (nth_indep (map (@Some (list Z)) l) (@None (list Z)) (Some [])) by (rewrite map_length; exact Hi).
  apply (map_nth (@Some (list Z))).
Qed.

(* ---------------------------------------------------------------- invariant and representation *)
Definition pl_wf (l : plist) : Prop :=
  length (pl_arr l) = pl_anum l /\ pl_start l + pl_num l <= pl_anum l /\ 0 < pl_anum l /\
  forall i, i < pl_num l -> exists d, s_at (pl_arr l) (pl_start l + i) = Some d.

Definition rep (l : plist) (items : list (list Z)) : Prop :=
  length (pl_arr l) = pl_anum l /\ pl_start l + pl_num l <= pl_anum l /\ 0 < pl_anum l /\
  length items = pl_num l /\
  forall q, pl_start l <= q < pl_start l + pl_num l -> s_at (pl_arr l) q = Some (nth (q - pl_start l) items []).

Ltac plsimpl := cbn [pl_arr pl_start pl_num pl_anum fst snd length].
Tactic Notation "plsimpl" "in" hyp(H) := cbn [pl_arr pl_start pl_num pl_anum fst snd length] in H.

Lemma rep_wf : forall l items, rep l items -> pl_wf l.
Proof.
  intros l items [Hlen [Hbnd [Hpos [Hil Hat]]]]. repeat split; try assumption.
  intros i Hi. exists (nth (pl_start l + i - pl_start l) items []). apply Hat. lia.
Qed.

Lemma rep_items : forall l items, rep l items -> pl_items l = items.
Proof.
  intros l items [Hlen [Hbnd [Hpos [Hil Hat]]]]. unfold pl_items.
  apply (nth_ext _ _ [] []).
  - rewrite map_length, seq_length. symmetry. exact Hil.
  - intros i Hi. rewrite map_length, seq_length in Hi. rewrite nth_map_seq by exact Hi.
    rewrite Hat by lia. cbn [slot_bytes]. f_equal. lia.
Qed.

Lemma wf_rep : forall l, pl_wf l -> rep l (pl_items l).
Proof.
  intros l [Hlen [Hbnd [Hpos Hsome]]]. repeat split; try assumption.
  - unfold pl_items. rewrite map_length, seq_length. reflexivity.
  - intros q Hq. unfold pl_items. rewrite nth_map_seq by lia.
    replace (pl_start l + (q - pl_start l)) with q by lia.
    destruct (Hsome (q - pl_start l)) as [d Hd]; [lia|].
    replace (pl_start l + (q - pl_start l)) with q in Hd by lia. rewrite Hd. reflexivity.
Qed.

Lemma init_rep : forall an, rep (pl_init an) [].
Proof.
  intros an. unfold pl_init, rep. plsimpl. rewrite repeat_length.
  repeat split; try lia.
  - destruct (Nat.eqb_spec an 0); lia.
Qed.

Lemma grow_rep : forall l items, rep l items -> rep (pl_grow l) items.
Proof.
  intros l items [Hlen [Hbnd [Hpos [Hil Hat]]]]. unfold pl_grow, rep. plsimpl.
  rewrite s_resize_length. repeat split; try lia.
  intros q Hq. rewrite s_at_resize by lia. apply Hat. exact Hq.
Qed.

(* ---------------------------------------------------------------- the calls *)
Lemma push_rep : forall l items d, rep l items -> rep (pl_push l d) (items ++ [d]).
Proof.
  intros l items d Hrep. unfold pl_push.
  assert (H1 : exists l1, (if pl_anum l <=? pl_start l + pl_num l then pl_grow l else l) = l1 /\ rep l1 items /\
                          pl_start l1 = pl_start l /\ pl_num l1 = pl_num l /\ pl_start l1 + pl_num l1 < pl_anum l1).
  { destruct (Nat.leb_spec (pl_anum l) (pl_start l + pl_num l)) as [Hc|Hc].
    - exists (pl_grow l). split; [reflexivity|]. split; [apply grow_rep; exact Hrep|].
      destruct Hrep as [_ [Hb0 _]]. unfold pl_grow. plsimpl. lia.
    - exists l. split; [reflexivity|]. split; [exact Hrep|]. lia. }
  destruct H1 as [l1 [He [Hrep1 [Hs [Hn Hroom]]]]]. rewrite He. rewrite <- Hs, <- Hn.
  destruct Hrep1 as [Hlen [Hbnd [Hpos [Hil Hat]]]]. unfold rep. plsimpl.
  rewrite s_write_length by (plsimpl; lia).
  repeat split; try lia.
  - rewrite app_length. plsimpl. lia.
  - intros q Hq. rewrite s_at_write by (plsimpl; lia). plsimpl.
    destruct (Nat.ltb_spec q (pl_start l1 + pl_num l1)) as [Hlt|Hge].
    + rewrite Hat by lia. rewrite app_nth1 by lia. reflexivity.
    + destruct (Nat.ltb_spec q (pl_start l1 + pl_num l1 + 1)) as [Hlt2|Hge2]; [|lia].
      replace (q - (pl_start l1 + pl_num l1)) with 0 by lia.
      rewrite app_nth2 by lia. replace (q - pl_start l1 - length items) with 0 by lia. reflexivity.
Qed.

Lemma pop_sim : forall l items, rep l items ->
  rep (fst (pl_pop l)) (fst (list_step items PLPop)) /\
  (let '(rc, v) := snd (pl_pop l) in PLOVal rc v) = snd (list_step items PLPop).
Proof.
  intros l items Hrep. destruct Hrep as [Hlen [Hbnd [Hpos [Hil Hat]]]]. unfold pl_pop. cbn [list_step].
  destruct (Nat.eqb_spec (pl_num l) 0) as [Hz|Hnz].
  - destruct items as [|x t]; [|cbn [length] in Hil; lia]. plsimpl. split; [|reflexivity].
    repeat split; assumption.
  - destruct items as [|x t] eqn:Hitems; [cbn [length] in Hil; lia|]. rewrite <- Hitems in *. plsimpl.
    split.
    + unfold rep. plsimpl. rewrite removelast_length. repeat split; try lia.
      intros q Hq. rewrite Hat by lia. rewrite nth_removelast by lia. reflexivity.
    + rewrite Hat by lia. rewrite last_is_nth. do 3 f_equal. lia.
Qed.

Lemma shift_sim : forall l items, rep l items ->
  rep (fst (pl_shift l)) (fst (list_step items PLShift)) /\
  (let '(rc, v) := snd (pl_shift l) in PLOVal rc v) = snd (list_step items PLShift).
Proof.
  intros l items Hrep. destruct Hrep as [Hlen [Hbnd [Hpos [Hil Hat]]]]. unfold pl_shift. cbn [list_step].
  destruct (Nat.eqb_spec (pl_num l) 0) as [Hz|Hnz].
  - destruct items as [|x t]; [|cbn [length] in Hil; lia]. plsimpl. split; [|reflexivity].
    repeat split; assumption.
  - destruct items as [|x t]; [cbn [length] in Hil; lia|]. cbn [length] in Hil.
    assert (Hrv : s_at (pl_arr l) (pl_start l) = Some x).
    { rewrite Hat by lia. rewrite Nat.sub_diag. reflexivity. }
    destruct (Nat.eqb (Nat.land (pl_start l + 1) 255) 0 && (((pl_num l - 1) / 2) <? pl_start l + 1)) eqn:Hc; plsimpl.
    + split; [|rewrite Hrv; reflexivity].
      unfold rep. plsimpl. rewrite s_move_length by lia. repeat split; try lia.
      intros q Hq. rewrite s_at_move by lia.
      destruct (Nat.ltb_spec q 0) as [Hq0|Hq0]; [lia|].
      destruct (Nat.ltb_spec q (0 + (pl_num l - 1))) as [Hq1|Hq1]; [|lia].
      rewrite Hat by lia.
      replace (pl_start l + 1 + (q - 0) - pl_start l) with (S (q - 0)) by lia. reflexivity.
    + split; [|rewrite Hrv; reflexivity].
      unfold rep. plsimpl. repeat split; try lia.
      intros q Hq. rewrite Hat by lia.
      replace (q - pl_start l) with (S (q - (pl_start l + 1))) by lia. reflexivity.
Qed.

Lemma unshift_core : forall l2 items d, rep l2 items -> 0 < pl_start l2 ->
  rep (mkPL (s_write (pl_arr l2) (pl_start l2 - 1) [Some d]) (pl_start l2 - 1) (S (pl_num l2)) (pl_anum l2)) (d :: items).
Proof.
  intros l2 items d [Hlen [Hbnd [Hpos [Hil Hat]]]] Hst. unfold rep. plsimpl.
  rewrite s_write_length by (plsimpl; lia). repeat split; try lia.
  intros q Hq. rewrite s_at_write by (plsimpl; lia). plsimpl.
  destruct (Nat.ltb_spec q (pl_start l2 - 1)) as [Hlt|Hge]; [lia|].
  destruct (Nat.ltb_spec q (pl_start l2 - 1 + 1)) as [Hlt2|Hge2].
  - replace (q - (pl_start l2 - 1)) with 0 by lia. reflexivity.
  - rewrite Hat by lia. replace (q - (pl_start l2 - 1)) with (S (q - pl_start l2)) by lia. reflexivity.
Qed.

Lemma unshift_move : forall l1 items, rep l1 items -> pl_start l1 = 0 -> pl_num l1 < pl_anum l1 ->
  rep (mkPL (s_move (pl_arr l1) (pl_anum l1 - pl_num l1) 0 (pl_num l1)) (pl_anum l1 - pl_num l1) (pl_num l1) (pl_anum l1)) items.
Proof.
  intros l1 items [Hlen [Hbnd [Hpos [Hil Hat]]]] Hst Hroom. unfold rep. plsimpl.
  rewrite s_move_length by lia. repeat split; try lia.
  intros q Hq. rewrite s_at_move by lia.
  destruct (Nat.ltb_spec q (pl_anum l1 - pl_num l1)) as [Hlt|Hge]; [lia|].
  destruct (Nat.ltb_spec q (pl_anum l1 - pl_num l1 + pl_num l1)) as [Hlt2|Hge2]; [|lia].
  rewrite Hat by lia. f_equal. f_equal. lia.
Qed.

Lemma unshift_rep : forall l items d, rep l items -> rep (pl_unshift l d) (d :: items).
Proof.
  intros l items d Hrep. unfold pl_unshift.
  destruct (Nat.eqb_spec (pl_start l) 0) as [Hz|Hnz].
  - assert (H1 : exists l1, (if pl_anum l <=? pl_num l then pl_grow l else l) = l1 /\ rep l1 items /\
                            pl_start l1 = 0 /\ pl_num l1 < pl_anum l1).
    { destruct (Nat.leb_spec (pl_anum l) (pl_num l)) as [Hc|Hc].
      - exists (pl_grow l). split; [reflexivity|]. split; [apply grow_rep; exact Hrep|].
        destruct Hrep as [_ [Hb0 _]]. unfold pl_grow. plsimpl. lia.
      - exists l. split; [reflexivity|]. split; [exact Hrep|]. lia. }
    destruct H1 as [l1 [He [Hrep1 [Hs Hroom]]]]. rewrite He. cbv zeta.
    pose proof (unshift_move l1 items Hrep1 Hs Hroom) as Hmv.
    apply (unshift_core _ items d) in Hmv; [|plsimpl; lia].
    plsimpl in Hmv. plsimpl. exact Hmv.
  - cbv zeta. apply unshift_core; [exact Hrep|lia].
Qed.

Lemma insert_sim : forall l items i d, rep l items ->
  rep (fst (pl_insert l i d)) (fst (list_step items (PLInsert i d))) /\
  PLORc (snd (pl_insert l i d)) = snd (list_step items (PLInsert i d)).
Proof.
  intros l items i d Hrep. unfold pl_insert. cbn [list_step].
  assert (Hil0 : length items = pl_num l) by (destruct Hrep as [_ [_ [_ [Hil _]]]]; exact Hil).
  rewrite Hil0.
  destruct (Nat.ltb_spec (pl_num l) i) as [Hoob|Hin]; plsimpl; [split; [exact Hrep|reflexivity]|].
  split; [|reflexivity].
  assert (H1 : exists l1, (if pl_anum l <=? pl_start l + pl_num l then pl_grow l else l) = l1 /\ rep l1 items /\
                          pl_start l1 = pl_start l /\ pl_num l1 = pl_num l /\ pl_start l1 + pl_num l1 < pl_anum l1).
  { destruct (Nat.leb_spec (pl_anum l) (pl_start l + pl_num l)) as [Hc|Hc].
    - exists (pl_grow l). split; [reflexivity|]. split; [apply grow_rep; exact Hrep|].
      destruct Hrep as [_ [Hb0 _]]. unfold pl_grow. plsimpl. lia.
    - exists l. split; [reflexivity|]. split; [exact Hrep|]. lia. }
  destruct H1 as [l1 [He [Hrep1 [Hs [Hn Hroom]]]]]. rewrite He. rewrite <- Hs, <- Hn in *. clear He Hs Hn Hrep.
  destruct Hrep1 as [Hlen [Hbnd [Hpos [Hil Hat]]]]. unfold rep. plsimpl.
  rewrite s_write_length by (plsimpl; rewrite s_move_length by lia; lia).
  rewrite s_move_length by lia.
  rewrite pll_insert_length by lia.
  repeat split; try lia.
  intros q Hq. rewrite s_at_write by (plsimpl; rewrite s_move_length by lia; lia). plsimpl.
  rewrite nth_pll_insert by lia. rewrite s_at_move by lia.
  destruct (Nat.ltb_spec q (i + pl_start l1)) as [Hlt|Hge].
  - destruct (Nat.ltb_spec q (i + pl_start l1 + 1)) as [Hlt1|Hge1]; [|lia].
    destruct (Nat.ltb_spec (q - pl_start l1) i) as [Hlt2|Hge2]; [|lia].
    apply Hat. lia.
  - destruct (Nat.ltb_spec q (i + pl_start l1 + 1)) as [Hlt1|Hge1].
    + replace (q - (i + pl_start l1)) with 0 by lia.
      destruct (Nat.ltb_spec (q - pl_start l1) i) as [Hlt2|Hge2]; [lia|].
      destruct (Nat.eqb_spec (q - pl_start l1) i) as [Heq|Hne]; [reflexivity|lia].
    + destruct (Nat.ltb_spec (q - pl_start l1) i) as [Hlt2|Hge2]; [lia|].
      destruct (Nat.eqb_spec (q - pl_start l1) i) as [Heq|Hne]; [lia|].
      destruct (Nat.ltb_spec q (i + pl_start l1 + 1 + (pl_start l1 + pl_num l1 - (i + pl_start l1)))) as [Hlt3|Hge3]; [|lia].
      rewrite Hat by lia. f_equal. f_equal. lia.
Qed.

Lemma set_sim : forall l items i d, rep l items ->
  rep (fst (pl_set l i d)) (fst (list_step items (PLSet i d))) /\
  PLORc (snd (pl_set l i d)) = snd (list_step items (PLSet i d)).
Proof.
  intros l items i d Hrep. unfold pl_set. cbn [list_step].
  assert (Hil0 : length items = pl_num l) by (destruct Hrep as [_ [_ [_ [Hil _]]]]; exact Hil).
  rewrite Hil0.
  destruct (Nat.leb_spec (pl_num l) i) as [Hoob|Hin]; plsimpl; [split; [exact Hrep|reflexivity]|].
  split; [|reflexivity].
  destruct Hrep as [Hlen [Hbnd [Hpos [Hil Hat]]]]. unfold rep. plsimpl.
  rewrite s_write_length by (plsimpl; lia). rewrite pll_set_length by lia.
  repeat split; try lia.
  intros q Hq. rewrite s_at_write by (plsimpl; lia). plsimpl. rewrite nth_pll_set by lia.
  destruct (Nat.ltb_spec q (i + pl_start l)) as [Hlt|Hge].
  - destruct (Nat.eqb_spec (q - pl_start l) i) as [Heq|Hne]; [lia|]. apply Hat. lia.
  - destruct (Nat.ltb_spec q (i + pl_start l + 1)) as [Hlt1|Hge1].
    + replace (q - (i + pl_start l)) with 0 by lia.
      destruct (Nat.eqb_spec (q - pl_start l) i) as [Heq|Hne]; [reflexivity|lia].
    + destruct (Nat.eqb_spec (q - pl_start l) i) as [Heq|Hne]; [lia|]. apply Hat. lia.
Qed.

Lemma remove_sim : forall l items i, rep l items ->
  rep (fst (pl_remove l i)) (fst (list_step items (PLRemove i))) /\
  (let '(rc, v) := snd (pl_remove l i) in PLOVal rc v) = snd (list_step items (PLRemove i)).
Proof.
  intros l items i Hrep. unfold pl_remove. cbn [list_step].
  assert (Hil0 : length items = pl_num l) by (destruct Hrep as [_ [_ [_ [Hil _]]]]; exact Hil).
  rewrite Hil0.
  destruct (Nat.leb_spec (pl_num l) i) as [Hoob|Hin]; plsimpl; [split; [exact Hrep|reflexivity]|].
  destruct Hrep as [Hlen [Hbnd [Hpos [Hil Hat]]]].
  split.
  - unfold rep. plsimpl. rewrite s_move_length by lia. rewrite pll_remove_length by lia.
    repeat split; try lia.
    intros q Hq. rewrite s_at_move by lia. rewrite nth_pll_remove by lia.
    destruct (Nat.ltb_spec q (i + pl_start l)) as [Hlt|Hge].
    + destruct (Nat.ltb_spec (q - pl_start l) i) as [Hlt2|Hge2]; [|lia]. apply Hat. lia.
    + destruct (Nat.ltb_spec (q - pl_start l) i) as [Hlt2|Hge2]; [lia|].
      destruct (Nat.ltb_spec q (i + pl_start l + (pl_start l + (pl_num l - 1) - (i + pl_start l)))) as [Hlt3|Hge3]; [|lia].
      rewrite Hat by lia. f_equal. f_equal. lia.
  - rewrite Hat by lia. do 3 f_equal. lia.
Qed.

Lemma at_sim : forall l items i, rep l items ->
  (let '(rc, v) := pl_at l i in PLOVal rc v) = snd (list_step items (PLAt i)).
Proof.
  intros l items i [Hlen [Hbnd [Hpos [Hil Hat]]]]. unfold pl_at. cbn [list_step]. rewrite Hil.
  destruct (Nat.leb_spec (pl_num l) i) as [Hoob|Hin]; plsimpl; [reflexivity|].
  rewrite Hat by lia. do 3 f_equal. lia.
Qed.

Lemma clone_rep : forall l items, rep l items -> rep (pl_clone l) items.
Proof.
  intros l items [Hlen [Hbnd [Hpos [Hil Hat]]]]. unfold pl_clone.
  destruct (Nat.eqb_spec (pl_num l) 0) as [Hz|Hnz].
  - destruct items as [|x t]; [|cbn [length] in Hil; lia]. apply init_rep.
  - unfold rep. plsimpl. rewrite s_slice_length by lia. repeat split; try lia.
    intros q Hq. rewrite s_at_slice by lia. rewrite Hat by lia. f_equal. f_equal. lia.
Qed.

Lemma sort_rep : forall l items, rep l items -> rep (pl_sort l) (pl_sort_items items).
Proof.
  intros l items Hrep. unfold pl_sort. rewrite (rep_items l items Hrep).
  destruct Hrep as [Hlen [Hbnd [Hpos [Hil Hat]]]]. unfold rep. plsimpl.
  rewrite s_write_length by (rewrite map_length, pl_sort_items_length; lia). rewrite pl_sort_items_length.
  repeat split; try lia.
  intros q Hq. rewrite s_at_write by (rewrite map_length, pl_sort_items_length; lia).
  rewrite map_length, pl_sort_items_length, Hil.
  destruct (Nat.ltb_spec q (pl_start l)) as [Hlt|Hge]; [lia|].
  destruct (Nat.ltb_spec q (pl_start l + pl_num l)) as [Hlt1|Hge1]; [|lia].
  apply s_at_map_some. rewrite pl_sort_items_length. lia.
Qed.

(* ---------------------------------------------------------------- one step, whole runs *)
Lemma step_sim : forall l items op, rep l items ->
  rep (fst (pl_step l op)) (fst (list_step items op)) /\ snd (pl_step l op) = snd (list_step items op).
Proof.
  intros l items op Hrep. destruct op as [d|d| | |i d|i d|i|i| |].
  - cbn [pl_step list_step fst snd]. split; [apply push_rep; exact Hrep|reflexivity].
  - cbn [pl_step list_step fst snd]. split; [apply unshift_rep; exact Hrep|reflexivity].
  - pose proof (pop_sim l items Hrep) as [H1 H2]. cbn [pl_step].
    destruct (pl_pop l) as [l' [rc v]]. exact (conj H1 H2).
  - pose proof (shift_sim l items Hrep) as [H1 H2]. cbn [pl_step].
    destruct (pl_shift l) as [l' [rc v]]. exact (conj H1 H2).
  - pose proof (insert_sim l items i d Hrep) as [H1 H2]. cbn [pl_step].
    destruct (pl_insert l i d) as [l' rc]. exact (conj H1 H2).
  - pose proof (set_sim l items i d Hrep) as [H1 H2]. cbn [pl_step].
    destruct (pl_set l i d) as [l' rc]. exact (conj H1 H2).
  - pose proof (remove_sim l items i Hrep) as [H1 H2]. cbn [pl_step].
    destruct (pl_remove l i) as [l' [rc v]]. exact (conj H1 H2).
  - pose proof (at_sim l items i Hrep) as H2. cbn [pl_step].
    destruct (pl_at l i) as [rc v]. split; [|exact H2].
    cbn [list_step fst]. destruct (length items <=? i); exact Hrep.
  - cbn [pl_step list_step fst snd]. split; [exact Hrep|].
    rewrite (rep_items _ _ (clone_rep l items Hrep)). reflexivity.
  - cbn [pl_step list_step fst snd]. split; [apply sort_rep; exact Hrep|reflexivity].
Qed.

(* the invariant asked for: every call keeps the list well formed *)
Lemma pl_step_wf : forall l op, pl_wf l -> pl_wf (fst (pl_step l op)).
Proof.
  intros l op Hwf. apply wf_rep in Hwf. destruct (step_sim l _ op Hwf) as [Hrep _]. exact (rep_wf _ _ Hrep).
Qed.

Lemma pl_run_cons : forall l op t,
  pl_run l (op :: t) = let '(l', o) := pl_step l op in o :: pl_run l' t.
Proof. reflexivity. Qed.

Lemma list_run_cons : forall l op t,
  list_run l (op :: t) = let '(l', o) := list_step l op in o :: list_run l' t.
Proof. reflexivity. Qed.

Lemma run_sim : forall ops l items, rep l items -> pl_run l ops = list_run items ops.
Proof.
  induction ops as [|op t IH]; intros l items Hrep; [reflexivity|].
  rewrite pl_run_cons, list_run_cons.
  destruct (step_sim l items op Hrep) as [H1 H2].
  destruct (pl_step l op) as [l' o]. destruct (list_step items op) as [items' o'].
  cbn [fst snd] in H1, H2. subst o'. f_equal. apply IH. exact H1.
Qed.

Theorem plist_refines_list : forall an ops, pl_run (pl_init an) ops = list_run [] ops.
Proof.
  intros an ops. apply run_sim. apply init_rep.
Qed.

(* the states correspond too, not only the outputs *)
Fixpoint pl_exec (l : plist) (ops : list plop) : plist :=
  match ops with [] => l | op :: t => pl_exec (fst (pl_step l op)) t end.
Fixpoint list_exec (l : list (list Z)) (ops : list plop) : list (list Z) :=
  match ops with [] => l | op :: t => list_exec (fst (list_step l op)) t end.

Theorem plist_state_refines_list : forall an ops,
  pl_wf (pl_exec (pl_init an) ops) /\ pl_items (pl_exec (pl_init an) ops) = list_exec [] ops.
Proof.
  intros an ops.
  assert (H : forall ops l items, rep l items -> rep (pl_exec l ops) (list_exec items ops)).
  { induction ops0 as [|op t IH]; intros l items Hrep; [exact Hrep|].
    cbn [pl_exec list_exec]. apply IH. destruct (step_sim l items op Hrep) as [H1 _]. exact H1. }
  specialize (H ops _ _ (init_rep an)). split; [exact (rep_wf _ _ H)|exact (rep_items _ _ H)].
Qed.

(* ---------------------------------------------------------------- the compaction step of iwlist_shift, both sides of its threshold *)
(* !(start & 0xff): the new start offset is a multiple of 256 *)
Lemma land255_mod : forall s, Nat.land s 255 = s mod 256.
Proof. intros s. change 255 with (Nat.ones 8). rewrite Nat.land_ones. reflexivity. Qed.

Definition pl_compacts (l : plist) : bool :=
  Nat.eqb (Nat.land (pl_start l + 1) 255) 0 && ((pl_num l - 1) / 2 <? pl_start l + 1).

Lemma pl_compacts_spec : forall l,
  pl_compacts l = true <-> ((pl_start l + 1) mod 256 = 0 /\ (pl_num l - 1) / 2 < pl_start l + 1).
Proof.
  intros l. unfold pl_compacts. rewrite andb_true_iff, Nat.eqb_eq, Nat.ltb_lt, land255_mod. reflexivity.
Qed.

(* a shift of a non-empty list hands out the head element, read BEFORE the array is compacted; the remaining items
   are the tail; the array is compacted (start = 0) exactly when the threshold condition holds, otherwise the start
   offset advances by one; the allocation is never changed *)
Theorem shift_compaction_exact : forall l x t, rep l (x :: t) ->
  snd (pl_shift l) = (PL_OK, Some x) /\
  rep (fst (pl_shift l)) t /\
  pl_anum (fst (pl_shift l)) = pl_anum l /\
  pl_start (fst (pl_shift l)) = (if pl_compacts l then 0 else pl_start l + 1).
Proof.
  intros l x t Hrep.
  destruct (shift_sim l (x :: t) Hrep) as [Hr Ho]. cbn [list_step fst snd] in Hr, Ho.
  split; [|split; [exact Hr|]].
  - destruct (snd (pl_shift l)) as [rc v]. inversion Ho. reflexivity.
  - destruct Hrep as [_ [_ [_ [Hil _]]]]. cbn [length] in Hil.
    unfold pl_shift, pl_compacts.
    destruct (Nat.eqb_spec (pl_num l) 0) as [Hz|Hnz]; [lia|].
    destruct (Nat.eqb (Nat.land (pl_start l + 1) 255) 0 && ((pl_num l - 1) / 2 <? pl_start l + 1));
      cbn [fst pl_anum pl_start]; split; reflexivity.
Qed.

(* ---------------------------------------------------------------- the order of "read the element" and "compact" matters *)
(* the variant that reads array[index] AFTER the compaction (the round-2 seeded change; NOT the code) *)
Definition pl_shift_late (l : plist) : plist * (plrc * slot) :=
  if Nat.eqb (pl_num l) 0 then (l, (PL_OOB, None))
  else
    let index := pl_start l in
    let start := pl_start l + 1 in
    let num := pl_num l - 1 in
    let l' := if Nat.eqb (Nat.land start 255) 0 && (num / 2 <? start)
              then mkPL (s_move (pl_arr l) 0 start num) 0 num (pl_anum l)
              else mkPL (pl_arr l) start num (pl_anum l) in
    (l', (PL_OK, s_at (pl_arr l') index)).

(* outside the window "compaction with more than start items left" the variant cannot be told from the code *)
Theorem shift_late_same_outside_window : forall l, pl_wf l ->
  pl_compacts l = false \/ pl_num l - 1 <= pl_start l -> pl_shift_late l = pl_shift l.
Proof.
  intros l [Hlen [Hbnd [Hpos Hsome]]] Hw. unfold pl_shift_late, pl_shift, pl_compacts in *.
  destruct (Nat.eqb_spec (pl_num l) 0) as [Hz|Hnz]; [reflexivity|].
  destruct (Nat.eqb (Nat.land (pl_start l + 1) 255) 0 && ((pl_num l - 1) / 2 <? pl_start l + 1)) eqn:Hc.
  - destruct Hw as [Hw|Hw]; [discriminate|]. cbn [pl_arr]. f_equal. f_equal.
    rewrite s_at_move by lia.
    destruct (Nat.ltb_spec (pl_start l) 0) as [H0|H0]; [lia|].
    destruct (Nat.ltb_spec (pl_start l) (0 + (pl_num l - 1))) as [H1|H1]; [lia|reflexivity].
  - reflexivity.
Qed.

(* inside the window it returns the wrong element: 512 pushes, then the 256th shift *)
Definition late_witness : plist :=
  pl_exec (pl_init 0) (map (fun i => PLPush [Z.of_nat i]) (seq 0 512) ++ repeat PLShift 255).

Theorem shift_late_refuted :
  pl_wf late_witness /\ pl_compacts late_witness = true /\ pl_start late_witness = 255 /\ pl_num late_witness = 257 /\
  snd (pl_shift late_witness) = (PL_OK, Some [255%Z]) /\
  snd (pl_shift_late late_witness) = (PL_OK, Some [511%Z]).
Proof.
  split; [apply plist_state_refines_list|].
  vm_compute. repeat split; reflexivity.
Qed.

(* ---------------------------------------------------------------- the same, for the states an API user can reach *)
Lemma exec_rep : forall ops l items, rep l items -> rep (pl_exec l ops) (list_exec items ops).
Proof.
  induction ops as [|op t IH]; intros l items Hrep; [exact Hrep|].
  cbn [pl_exec list_exec]. apply IH. destruct (step_sim l items op Hrep) as [H1 _]. exact H1.
Qed.

Theorem shift_compaction_reachable : forall an ops x t,
  list_exec [] ops = x :: t ->
  let l := pl_exec (pl_init an) ops in
  snd (pl_shift l) = (PL_OK, Some x) /\
  pl_items (fst (pl_shift l)) = t /\
  pl_anum (fst (pl_shift l)) = pl_anum l /\
  pl_start (fst (pl_shift l)) =
    (if Nat.eqb ((pl_start l + 1) mod 256) 0 && ((pl_num l - 1) / 2 <? pl_start l + 1) then 0 else pl_start l + 1).
Proof.
  intros an ops x t Hx l.
  assert (Hrep : rep l (x :: t)). { rewrite <- Hx. apply exec_rep. apply init_rep. }
  destruct (shift_compaction_exact l x t Hrep) as [H1 [H2 [H3 H4]]].
  split; [exact H1|]. split; [exact (rep_items _ _ H2)|]. split; [exact H3|].
  rewrite H4. unfold pl_compacts. rewrite land255_mod. reflexivity.
Qed.

Theorem shift_late_window_reachable : forall an ops,
  let l := pl_exec (pl_init an) ops in
  (Nat.eqb ((pl_start l + 1) mod 256) 0 && ((pl_num l - 1) / 2 <? pl_start l + 1) = false \/ pl_num l - 1 <= pl_start l) ->
  pl_shift_late l = pl_shift l.
Proof.
  intros an ops l Hw. apply shift_late_same_outside_window.
  - apply plist_state_refines_list.
  - unfold pl_compacts. rewrite land255_mod. exact Hw.
Qed.
