(* C18 - hash map: the bucket lemma library (statements in Hmap_inv_proofs.v). *)
Require Import ZArith List Bool Lia Permutation.
Require Import IW.Gen.Facts IW.UT.Hmap IW.UT.Hmap_inv_proofs.
Import ListNotations.
Local Open Scope Z_scope.

(* ------------------------------------------------------------------ generic list facts *)
Lemma set_nth_app {A} : forall (l1 : list A) a l2 x,
  set_nth (length l1) x (l1 ++ a :: l2) = l1 ++ x :: l2.
Proof.
  induction l1 as [|b l1 IH]; intros a l2 x; cbn.
  - reflexivity.
  - rewrite IH. reflexivity.
Qed.

Lemma set_nth_split {A} : forall (l : list A) i d, (i < length l)%nat ->
  exists l1 a l2, l = l1 ++ a :: l2 /\ length l1 = i /\ nth i l d = a /\
                  forall x, set_nth i x l = l1 ++ x :: l2.
Proof.
  intros l i d Hi.
  destruct (nth_split l d Hi) as (l1 & l2 & Hl & Hlen).
  exists l1, (nth i l d), l2. split; [exact Hl|]. split; [exact Hlen|]. split; [reflexivity|].
  intros x. rewrite Hl at 1. rewrite <- Hlen. apply set_nth_app.
Qed.

Lemma set_nth_length {A} : forall (l : list A) i x, length (set_nth i x l) = length l.
Proof.
  induction l as [|a l IH]; intros i x.
  - destruct i; reflexivity.
  - destruct i as [|i]; cbn; [reflexivity|]. rewrite IH. reflexivity.
Qed.

Lemma nth_set_nth_eq {A} : forall (l : list A) i x d, (i < length l)%nat -> nth i (set_nth i x l) d = x.
Proof.
  induction l as [|a l IH]; intros i x d Hi; cbn in Hi; [lia|].
  destruct i as [|i]; cbn; [reflexivity|]. apply IH. lia.
Qed.

Lemma nth_set_nth_neq {A} : forall (l : list A) i j x d, j <> i -> nth j (set_nth i x l) d = nth j l d.
Proof.
  induction l as [|a l IH]; intros i j x d Hne.
  - destruct i; reflexivity.
  - destruct i as [|i]; destruct j as [|j]; cbn; try reflexivity; try congruence.
    apply IH. congruence.
Qed.

Lemma perm_mid2 {A} : forall (P l1 l2 Q : list A) x,
  Permutation (P ++ (l1 ++ x :: l2) ++ Q) (x :: P ++ (l1 ++ l2) ++ Q).
Proof.
  intros P l1 l2 Q x.
  apply Permutation_trans with (P ++ x :: (l1 ++ l2) ++ Q).
  - apply Permutation_app_head. rewrite <- !app_assoc. cbn. symmetry. apply Permutation_middle.
  - symmetry. apply Permutation_middle.
Qed.

Lemma NoDup_map_inj {A B} (f : A -> B) : forall l a b,
  NoDup (map f l) -> In a l -> In b l -> f a = f b -> a = b.
Proof.
  induction l as [|x l IH]; intros a b Hnd Ha Hb Hf; cbn in *; [contradiction|].
  inversion Hnd as [|y t Hnin Hnd']; subst.
  destruct Ha as [Ha|Ha]; destruct Hb as [Hb|Hb].
  - congruence.
  - subst x. exfalso. apply Hnin. rewrite Hf. apply in_map. exact Hb.
  - subst x. exfalso. apply Hnin. rewrite <- Hf. apply in_map. exact Ha.
  - apply IH; assumption.
Qed.

(* ------------------------------------------------------------------ the library *)
Section BktProofs.
Variable K : Type.
Variable keq : K -> K -> bool.
Variable hashf : K -> Z.
Hypothesis keq_spec : forall a b, keq a b = true <-> a = b.

Local Notation ekey := (e_key K).
Local Notation ehash := (e_hash K).
Local Notation bents := (b_ents K).
Local Notation entsK := (ents K).
Local Notation keysK := (keys K).
Local Notation bktK := (bkt K).
Local Notation bwfK := (bwf K hashf).

(* ---- buckets and set_nth *)
Lemma bkt_set_nth_eq : forall (bs : list (bucket K)) bi b', (bi < length bs)%nat ->
  bktK (set_nth bi b' bs) bi = b'.
Proof. intros bs bi b' Hbi. unfold bkt. apply nth_set_nth_eq. exact Hbi. Qed.

Lemma bkt_set_nth_neq : forall (bs : list (bucket K)) bi b' i, i <> bi ->
  bktK (set_nth bi b' bs) i = bktK bs i.
Proof. intros bs bi b' i Hne. unfold bkt. apply nth_set_nth_neq. exact Hne. Qed.

Lemma ents_split : forall (bs : list (bucket K)) bi, (bi < length bs)%nat ->
  exists P Q, entsK bs = P ++ bents (bktK bs bi) ++ Q /\
              forall b', entsK (set_nth bi b' bs) = P ++ bents b' ++ Q.
Proof.
  intros bs bi Hbi.
  destruct (set_nth_split bs bi (bempty K) Hbi) as (l1 & a & l2 & Hl & Hlen & Hnth & Hset).
  exists (entsK l1), (entsK l2). split.
  - unfold bkt. rewrite Hnth. rewrite Hl at 1. unfold ents. rewrite flat_map_app. reflexivity.
  - intros b'. rewrite Hset. unfold ents. rewrite flat_map_app. reflexivity.
Qed.

Lemma ents_in_bkt : forall (bs : list (bucket K)) i e, (i < length bs)%nat ->
  In e (bents (bktK bs i)) -> In e (entsK bs).
Proof.
  intros bs i e Hi Hin. unfold ents. apply in_flat_map. exists (bktK bs i). split; [|exact Hin].
  unfold bkt. apply nth_In. exact Hi.
Qed.

Lemma ents_in_inv : forall (bs : list (bucket K)) e, In e (entsK bs) ->
  exists i, (i < length bs)%nat /\ In e (bents (bktK bs i)).
Proof.
  intros bs e Hin. unfold ents in Hin. apply in_flat_map in Hin. destruct Hin as (b & Hb & He).
  destruct (In_nth bs b (bempty K) Hb) as (i & Hi & Hnth).
  exists i. split; [exact Hi|]. unfold bkt. rewrite Hnth. exact He.
Qed.

(* ---- the mask *)
Lemma bidx_lt : forall mask bs h, bwfK mask bs -> (bidx mask h < length bs)%nat.
Proof.
  intros mask bs h ((k & Hk & Hm) & Hl & _). rewrite Hl. subst mask. unfold bidx.
  rewrite Z.land_ones by exact Hk. rewrite Z.ones_equiv.
  assert (Hp : 0 < 2 ^ k) by (apply Z.pow_pos_nonneg; lia).
  pose proof (Z.mod_pos_bound h (2 ^ k) Hp) as Hb. lia.
Qed.

Lemma bwf_replace : forall mask bs bi es' tot, bwfK mask bs -> (bi < length bs)%nat ->
  (forall e, In e es' -> bidx mask (ehash e) = bi /\ ehash e = hashf (ekey e)) ->
  NoDup (keysK (set_nth bi (mkB K es' tot) bs)) ->
  bwfK mask (set_nth bi (mkB K es' tot) bs).
Proof.
  intros mask bs bi es' tot (Hm & Hl & He & Hn) Hbi Hes Hnd.
  split; [exact Hm|]. split; [rewrite set_nth_length; exact Hl|]. split; [|exact Hnd].
  intros i e Hi Hin. rewrite set_nth_length in Hi.
  destruct (Nat.eq_dec i bi) as [Heq|Hne].
  - subst i. rewrite bkt_set_nth_eq in Hin by exact Hbi. cbn in Hin. apply Hes. exact Hin.
  - rewrite bkt_set_nth_neq in Hin by exact Hne. apply He; assumption.
Qed.

Lemma bwf_bkt_facts : forall mask bs i e, bwfK mask bs -> (i < length bs)%nat ->
  In e (bents (bktK bs i)) -> bidx mask (ehash e) = i /\ ehash e = hashf (ekey e).
Proof. intros mask bs i e (_ & _ & He & _) Hi Hin. apply He; assumption. Qed.

Lemma NoDup_keys_perm : forall (l l' : list (entry K)), Permutation l l' ->
  NoDup (map ekey l) -> NoDup (map ekey l').
Proof.
  intros l l' Hp Hnd. eapply Permutation_NoDup; [|exact Hnd]. apply Permutation_map. exact Hp.
Qed.

(* ---- bwf_empty *)
Lemma ents_repeat_empty : forall n, entsK (repeat (bempty K) n) = [].
Proof. induction n as [|n IH]; cbn; [reflexivity|]. exact IH. Qed.

Lemma bwf_empty : bwf_empty_stmt K hashf.
Proof.
  intros k Hk. split; [|apply ents_repeat_empty].
  split; [exists k; split; [exact Hk|]; rewrite Z.ones_equiv; lia|].
  split; [rewrite repeat_length; f_equal; lia|].
  split.
  - intros i e Hi Hin. exfalso. unfold bkt in Hin.
    assert (Hb : nth i (repeat (bempty K) (Z.to_nat (2 ^ k))) (bempty K) = bempty K).
    { destruct (nth_in_or_default i (repeat (bempty K) (Z.to_nat (2 ^ k))) (bempty K)) as [Hr|Hr].
      - apply repeat_spec in Hr. exact Hr.
      - exact Hr. }
    rewrite Hb in Hin. cbn in Hin. exact Hin.
  - unfold keys. rewrite ents_repeat_empty. cbn. constructor.
Qed.

(* ---- find_in *)
Lemma find_in_some : forall es k h ei, find_in K keq k h es = Some ei ->
  exists e, nth_error es ei = Some e /\ ekey e = k.
Proof.
  induction es as [|e es IH]; intros k h ei Hf; cbn in Hf; [discriminate|].
  destruct ((h =? ehash e) && keq k (ekey e)) eqn:Ht.
  - injection Hf as <-. exists e. split; [reflexivity|].
    apply andb_prop in Ht. destruct Ht as [_ Hk]. apply keq_spec in Hk. congruence.
  - destruct (find_in K keq k h es) as [j|] eqn:Hr; [|discriminate].
    injection Hf as <-. cbn. apply (IH k h j). exact Hr.
Qed.

Lemma find_in_none : forall es k, find_in K keq k (hashf k) es = None ->
  (forall e, In e es -> ehash e = hashf (ekey e)) ->
  forall e, In e es -> ekey e <> k.
Proof.
  induction es as [|e0 es IH]; intros k Hf Hh e Hin; cbn in Hin; [contradiction|].
  cbn in Hf.
  destruct ((hashf k =? ehash e0) && keq k (ekey e0)) eqn:Ht; [discriminate|].
  destruct (find_in K keq k (hashf k) es) as [j|] eqn:Hr; [discriminate|].
  destruct Hin as [Heq|Hin].
  - subst e0. intro Hk. apply andb_false_iff in Ht. destruct Ht as [Ht|Ht].
    + apply Z.eqb_neq in Ht. apply Ht. rewrite (Hh e (or_introl eq_refl)). congruence.
    + assert (Hkk : keq k (ekey e) = true) by (apply keq_spec; congruence). congruence.
  - apply (IH k Hr); [|exact Hin]. intros x Hx. apply Hh. right. exact Hx.
Qed.

Lemma find_spec : find_spec_stmt K keq hashf.
Proof.
  intros mask bs k Hwf bi.
  assert (Hbi : (bi < length bs)%nat) by (apply bidx_lt; exact Hwf).
  split; [exact Hbi|].
  destruct (find_in K keq k (hashf k) (bents (bktK bs bi))) as [ei|] eqn:Hf.
  - apply (find_in_some _ _ _ _ Hf).
  - intros Hin. unfold keys in Hin. apply in_map_iff in Hin. destruct Hin as (e & Hk & He).
    destruct (ents_in_inv bs e He) as (j & Hj & Hej).
    destruct (bwf_bkt_facts mask bs j e Hwf Hj Hej) as [Hidx Hh].
    assert (Hjb : j = bi).
    { rewrite <- Hidx. unfold bi. rewrite Hh, Hk. reflexivity. }
    rewrite Hjb in Hej.
    apply (find_in_none _ _ Hf) with (e := e); [|exact Hej|exact Hk].
    intros x Hx. apply (bwf_bkt_facts mask bs bi x Hwf Hbi Hx).
Qed.

(* ---- ents *)
Lemma ents_in : ents_in_stmt K.
Proof.
  intros bs bi ei e Hbi Hn. apply (ents_in_bkt bs bi e Hbi). apply nth_error_In with ei. exact Hn.
Qed.

Lemma ents_key_unique : ents_key_unique_stmt K hashf.
Proof.
  intros mask bs e1 e2 (_ & _ & _ & Hnd) H1 H2 Hk. unfold keys in Hnd.
  apply (NoDup_map_inj ekey (entsK bs)); assumption.
Qed.

(* ---- set_total *)
Lemma set_total_ok : set_total_stmt K hashf.
Proof.
  intros mask bs bi tot Hwf Hbi bs'.
  destruct (ents_split bs bi Hbi) as (P & Q & HE & HS).
  assert (Hents : entsK bs' = entsK bs).
  { unfold bs'. rewrite HS, HE. reflexivity. }
  split; [|split; [exact Hents|apply set_nth_length]].
  unfold bs'. apply bwf_replace; [exact Hwf|exact Hbi| |].
  - intros e He. apply (bwf_bkt_facts mask bs bi e Hwf Hbi He).
  - fold bs'. unfold keys. rewrite Hents. destruct Hwf as (_ & _ & _ & Hnd). exact Hnd.
Qed.

(* ---- entry_add *)
Lemma entry_add_ok : entry_add_stmt K keq hashf.
Proof.
  intros mask bs k Hwf. unfold entry_add. cbv zeta.
  pose proof (find_spec mask bs k Hwf) as Hfs. cbv zeta in Hfs. destruct Hfs as [Hbi Hfs].
  set (bi := bidx mask (hashf k)) in *.
  set (b := bktK bs bi) in *.
  set (tot := if b_used K b + 1 >=? b_total K b then b_total K b + CONT_STEPS else b_total K b).
  destruct (find_in K keq k (hashf k) (bents b)) as [ei|] eqn:Hf.
  - destruct (set_total_ok mask bs bi tot Hwf Hbi) as (Hwf' & Hents & Hlen). fold b in Hwf', Hents, Hlen.
    split; [reflexivity|]. split; [exact Hbi|]. split; [exact Hwf'|]. split; [exact Hlen|].
    destruct Hfs as (e & Hn & Hk). exists e.
    rewrite bkt_set_nth_eq by exact Hbi. cbn [b_ents].
    split; [exact Hn|]. split; [exact Hk|exact Hents].
  - set (p := mkE K k 0 None (hashf k)).
    destruct (ents_split bs bi Hbi) as (P & Q & HE & HS). fold b in HE.
    assert (Hperm : Permutation (entsK (set_nth bi (mkB K (bents b ++ [p]) tot) bs)) (p :: entsK bs)).
    { rewrite HS, HE. cbn [b_ents].
      apply Permutation_trans with (P ++ (bents b ++ p :: []) ++ Q); [apply Permutation_refl|].
      eapply Permutation_trans; [apply perm_mid2|]. rewrite app_nil_r. apply Permutation_refl. }
    split; [reflexivity|]. split; [exact Hbi|]. split; [|split; [apply set_nth_length|]].
    + apply bwf_replace; [exact Hwf|exact Hbi| |].
      * intros e He. apply in_app_or in He. destruct He as [He|He].
        -- apply (bwf_bkt_facts mask bs bi e Hwf Hbi He).
        -- cbn in He. destruct He as [He|[]]. subst e. cbn. split; reflexivity.
      * unfold keys. apply (NoDup_keys_perm (p :: entsK bs)); [symmetry; exact Hperm|].
        cbn. constructor; [exact Hfs|]. destruct Hwf as (_ & _ & _ & Hnd). exact Hnd.
    + split; [exact Hfs|]. split; [|exact Hperm].
      rewrite bkt_set_nth_eq by exact Hbi. cbn [b_ents].
      rewrite nth_error_app2 by lia. rewrite Nat.sub_diag. reflexivity.
Qed.

(* ---- upd_entry *)
Lemma upd_entry_ok : upd_entry_stmt K hashf.
Proof.
  intros mask bs bi ei e f Hwf Hbi Hn Hfk Hfh bs'.
  subst bs'. unfold upd_entry. cbv zeta. rewrite Hn.
  set (b := bktK bs bi) in *.
  destruct (nth_error_split (bents b) ei Hn) as (l1 & l2 & Hes & Hlen).
  assert (Hset : set_nth ei (f e) (bents b) = l1 ++ f e :: l2).
  { rewrite Hes, <- Hlen. apply set_nth_app. }
  rewrite Hset.
  destruct (ents_split bs bi Hbi) as (P & Q & HE & HS). fold b in HE. rewrite Hes in HE.
  set (bs2 := set_nth bi (mkB K (l1 ++ f e :: l2) (b_total K b)) bs).
  assert (HE2 : entsK bs2 = P ++ (l1 ++ f e :: l2) ++ Q) by (unfold bs2; rewrite HS; reflexivity).
  set (rest := P ++ (l1 ++ l2) ++ Q).
  assert (Hp1 : Permutation (entsK bs) (e :: rest)) by (rewrite HE; apply perm_mid2).
  assert (Hp2 : Permutation (entsK bs2) (f e :: rest)) by (rewrite HE2; apply perm_mid2).
  destruct (bwf_bkt_facts mask bs bi e Hwf Hbi (nth_error_In _ _ Hn)) as [Hidx Hh].
  split; [|split; [apply set_nth_length|split; [|exists rest; split; assumption]]].
  - apply bwf_replace; [exact Hwf|exact Hbi| |].
    + intros x Hx. apply in_app_or in Hx. destruct Hx as [Hx|[Hx|Hx]].
      * apply (bwf_bkt_facts mask bs bi x Hwf Hbi). fold b. rewrite Hes. apply in_or_app. left. exact Hx.
      * subst x. rewrite Hfh, Hfk. split; assumption.
      * apply (bwf_bkt_facts mask bs bi x Hwf Hbi). fold b. rewrite Hes. apply in_or_app. right. right. exact Hx.
    + fold bs2. unfold keys. apply (NoDup_keys_perm (f e :: rest)); [symmetry; exact Hp2|].
      cbn [map]. rewrite Hfk. change (NoDup (map ekey (e :: rest))).
      apply (NoDup_keys_perm (entsK bs)); [exact Hp1|]. destruct Hwf as (_ & _ & _ & Hnd). exact Hnd.
  - fold bs2. unfold bs2. rewrite bkt_set_nth_eq by exact Hbi. cbn [b_ents].
    rewrite nth_error_app2 by lia. rewrite Hlen, Nat.sub_diag. reflexivity.
Qed.

(* ---- bdel *)
Lemma bdel_perm : forall es ei e, nth_error es ei = Some e ->
  Permutation es (e :: bdel K es ei e).
Proof.
  intros es ei e Hn.
  assert (Hne : es <> []) by (intro Hes; subst es; destruct ei; discriminate).
  destruct (exists_last Hne) as (es0 & z & Hes). subst es.
  assert (Hlt : (ei < length (es0 ++ [z]))%nat) by (apply nth_error_Some; congruence).
  rewrite app_length in Hlt. cbn [length] in Hlt.
  unfold bdel. rewrite app_length. cbn [length]. rewrite last_last.
  replace (length es0 + 1 - 1)%nat with (length es0) by lia.
  destruct (Nat.eq_dec ei (length es0)) as [Heq|Hneq].
  - subst ei. rewrite nth_error_app2 in Hn by lia. rewrite Nat.sub_diag in Hn. cbn in Hn.
    injection Hn as <-. rewrite Nat.eqb_refl.
    assert (Hr : removelast (if (1 <? length es0 + 1)%nat then es0 ++ [z] else es0 ++ [z]) = es0).
    { destruct (1 <? length es0 + 1)%nat; apply removelast_last. }
    rewrite Hr. symmetry. apply Permutation_cons_append.
  - assert (Hlt2 : (ei < length es0)%nat) by lia.
    assert (H1 : (1 <? length es0 + 1)%nat = true) by (apply Nat.ltb_lt; lia).
    assert (H2 : Nat.eqb ei (length es0) = false) by (apply Nat.eqb_neq; exact Hneq).
    rewrite H1, H2.
    rewrite nth_error_app1 in Hn by exact Hlt2.
    destruct (nth_error_split es0 ei Hn) as (l1 & l2 & Hes0 & Hlen).
    subst es0. rewrite <- Hlen.
    rewrite <- (app_assoc l1 (e :: l2) [z]). rewrite <- app_comm_cons.
    rewrite set_nth_app.
    change (l1 ++ z :: l2 ++ [z]) with (l1 ++ (z :: l2) ++ [z]). rewrite app_assoc. rewrite removelast_last.
    change (l1 ++ e :: l2 ++ [z]) with (l1 ++ (e :: l2) ++ [z]). rewrite app_assoc.
    eapply Permutation_trans; [symmetry; apply Permutation_cons_append|].
    apply Permutation_trans with (z :: e :: l1 ++ l2);
      [apply perm_skip; symmetry; apply Permutation_middle|].
    apply Permutation_trans with (e :: z :: l1 ++ l2); [apply perm_swap|].
    apply perm_skip. apply Permutation_middle.
Qed.

Lemma bdel_ok : bdel_stmt K hashf.
Proof.
  intros mask bs bi ei e tot Hwf Hbi Hn bs'.
  set (b := bktK bs bi) in *.
  pose proof (bdel_perm (bents b) ei e Hn) as Hp.
  set (es' := bdel K (bents b) ei e) in *.
  destruct (ents_split bs bi Hbi) as (P & Q & HE & HS). fold b in HE.
  assert (Hperm : Permutation (entsK bs) (e :: entsK bs')).
  { unfold bs'. rewrite HE, HS. cbn [b_ents].
    eapply Permutation_trans; [apply Permutation_app_head; apply Permutation_app_tail; exact Hp|].
    cbn. symmetry. apply Permutation_middle. }
  split; [|split; [apply set_nth_length|exact Hperm]].
  unfold bs'. apply bwf_replace; [exact Hwf|exact Hbi| |].
  - intros x Hx. apply (bwf_bkt_facts mask bs bi x Hwf Hbi). fold b.
    apply (Permutation_in x (Permutation_sym Hp)). right. exact Hx.
  - fold bs'. destruct Hwf as (_ & _ & _ & Hnd). unfold keys in *.
    pose proof (NoDup_keys_perm _ _ Hperm Hnd) as Hnd2. cbn [map] in Hnd2.
    inversion Hnd2; assumption.
Qed.

(* ---- rehash *)
Lemma rehash_step_ok : forall mask bs e, bwfK mask bs -> ehash e = hashf (ekey e) ->
  ~ In (ekey e) (keysK bs) ->
  bwfK mask (rehash_step K keq mask bs e) /\
  Permutation (entsK (rehash_step K keq mask bs e)) (e :: entsK bs).
Proof.
  intros mask bs e Hwf Hh Hnin. unfold rehash_step. rewrite Hh.
  pose proof (entry_add_ok mask bs (ekey e) Hwf) as Ha.
  destruct (entry_add K keq bs mask (ekey e) (hashf (ekey e))) as [[[bs1 bi] ei] isnew].
  destruct Ha as (Hbi & Hlt & Hwf1 & Hlen1 & Hc).
  destruct isnew.
  - destruct Hc as (_ & Hn & Hp).
    set (p := mkE K (ekey e) 0 None (hashf (ekey e))) in *.
    set (f := fun x : entry K => mkE K (ekey e) (e_val K e) (e_lru K e) (ehash x)).
    assert (Hlt1 : (bi < length bs1)%nat) by (rewrite Hlen1; exact Hlt).
    destruct (upd_entry_ok mask bs1 bi ei p f Hwf1 Hlt1 Hn eq_refl eq_refl) as (Hwf2 & _ & _ & rest & Hp1 & Hp2).
    split; [exact Hwf2|].
    assert (Hfe : f p = e).
    { unfold f, p. cbn. rewrite <- Hh. destruct e; reflexivity. }
    rewrite Hfe in Hp2.
    eapply Permutation_trans; [exact Hp2|]. apply perm_skip.
    apply Permutation_cons_inv with p.
    eapply Permutation_trans; [symmetry; exact Hp1|exact Hp].
  - exfalso. destruct Hc as (x & Hn & Hk & Hents). apply Hnin. unfold keys.
    rewrite <- Hents, <- Hk. apply in_map.
    apply (ents_in bs1 bi ei x); [rewrite Hlen1; exact Hlt|exact Hn].
Qed.

Lemma rehash_fold : forall mask todo bs0, bwfK mask bs0 ->
  NoDup (map ekey todo) ->
  (forall e, In e todo -> ~ In (ekey e) (keysK bs0)) ->
  (forall e, In e todo -> ehash e = hashf (ekey e)) ->
  bwfK mask (fold_left (rehash_step K keq mask) todo bs0) /\
  Permutation (entsK (fold_left (rehash_step K keq mask) todo bs0)) (todo ++ entsK bs0).
Proof.
  intros mask. induction todo as [|e t IH]; intros bs0 Hwf Hnd Hdis Hhs; cbn [fold_left].
  - split; [exact Hwf|apply Permutation_refl].
  - inversion Hnd as [|k l Hnin Hnd']; subst.
    destruct (rehash_step_ok mask bs0 e Hwf (Hhs e (or_introl eq_refl)) (Hdis e (or_introl eq_refl)))
      as [Hwf1 Hp1].
    destruct (IH (rehash_step K keq mask bs0 e) Hwf1 Hnd') as [Hwf2 Hp2].
    + intros x Hx Hin. unfold keys in Hin.
      apply (Permutation_in _ (Permutation_map ekey Hp1)) in Hin. cbn in Hin.
      destruct Hin as [Hin|Hin].
      * apply Hnin. rewrite Hin. apply in_map. exact Hx.
      * apply (Hdis x (or_intror Hx)). exact Hin.
    + intros x Hx. apply Hhs. right. exact Hx.
    + split; [exact Hwf2|].
      eapply Permutation_trans; [exact Hp2|].
      eapply Permutation_trans; [apply Permutation_app_head; exact Hp1|].
      symmetry. cbn. apply Permutation_middle.
Qed.

Lemma rehash_ok : rehash_stmt K keq hashf.
Proof.
  intros mask bs k' Hwf Hk' num bs'.
  destruct (bwf_empty k' Hk') as [Hwf0 Hents0]. fold num in Hwf0, Hents0.
  destruct (rehash_fold (num - 1) (entsK bs) (repeat (bempty K) (Z.to_nat num)) Hwf0) as [Hwf' Hp].
  - destruct Hwf as (_ & _ & _ & Hnd). exact Hnd.
  - intros e _. unfold keys. rewrite Hents0. cbn. intros [].
  - intros e He. destruct (ents_in_inv bs e He) as (i & Hi & Hin).
    apply (bwf_bkt_facts mask bs i e Hwf Hi Hin).
  - fold bs' in Hwf', Hp. split; [exact Hwf'|]. rewrite Hents0, app_nil_r in Hp. exact Hp.
Qed.

End BktProofs.
