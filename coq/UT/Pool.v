(* C18 - executable model of the bump-allocator memory pool src/utils/iwpool.c (iwpool_create,
   iwpool_create_empty, iwpool_extend, iwpool_alloc, iwpool_strndup, iwpool_copy_cstring_array).

   A pool is (usiz, asiz, sizes of the heap units NEWEST FIRST).  The C invariant pool->heap == unit->heap + usiz
   makes the heap pointer redundant: a region is named by (index of its unit counted from the OLDEST unit, byte
   offset inside that unit).  An empty pool (iwpool_create_empty) has no unit, usiz = asiz = 0, heap = NULL;
   iwpool_alloc(0) on it returns that NULL: the model answers (unit 0, offset 0) although unit 0 does not exist
   (a region of rounded size 0).  The SIZE_T_MAX overflow checks and malloc failures are out of scope.
   No proofs here. *)
Require Import ZArith List Bool Lia Arith.
Require Import IW.Gen.Facts.
Import ListNotations.

Definition P_ALIGN : nat := Z.to_nat CONT_IWPOOL_UNIT_ALIGN_SIZE.
Definition P_POOL_SIZ : nat := Z.to_nat CONT_IWPOOL_POOL_SIZ.
(* sizeof(char* ) of the build the harness runs on (T1 fact) *)
Definition P_PTR_SIZE : nat := Z.to_nat CONT_sizeof_charptr.

Record pool := mkPool { p_usiz : nat; p_asiz : nat; p_units : list nat }.

(* IW_ROUNDUP(n, IWPOOL_UNIT_ALIGN_SIZE) = (n + 8 - 1) & ~(8 - 1) *)
Definition roundup8 (n : nat) : nat := (n + P_ALIGN - 1) / P_ALIGN * P_ALIGN.

Definition p_create (siz : nat) : pool :=
  let siz := if (siz <? 1) then P_POOL_SIZ else siz in
  let siz := roundup8 siz in
  mkPool 0 siz [siz].

Definition p_create_empty : pool := mkPool 0 0 [].

(* iwpool_extend: a new unit of roundup8 siz bytes becomes the current one *)
Definition p_extend (p : pool) (siz : nat) : pool :=
  let siz := roundup8 siz in
  mkPool 0 siz (siz :: p_units p).

(* iwpool_alloc: result = (unit index counted from the oldest unit, byte offset inside the unit) *)
Definition p_alloc (p : pool) (siz0 : nat) : pool * (nat * nat) :=
  let siz := roundup8 siz0 in
  let usiz := p_usiz p + siz in
  let p1 := if (p_asiz p <? usiz) then p_extend p (usiz + p_asiz p) else p in
  (mkPool (p_usiz p1 + siz) (p_asiz p1) (p_units p1), (length (p_units p1) - 1, p_usiz p1)).

(* iwpool_strndup(pool, str, len): len + 1 bytes *)
Definition p_strndup (p : pool) (len : nat) : pool * (nat * nat) := p_alloc p (len + 1).

(* a region handed out: unit, offset, size reserved (= roundup8 of the request), size requested *)
Record region := mkR { r_unit : nat; r_off : nat; r_size : nat; r_req : nat }.

Definition p_alloc_r (p : pool) (n : nat) : pool * region :=
  let '(p', (u, off)) := p_alloc p n in (p', mkR u off (roundup8 n) n).

(* one allocation per requested size, in order *)
Fixpoint p_allocs (p : pool) (ns : list nat) : pool * list region :=
  match ns with
  | [] => (p, [])
  | n :: t =>
    let '(p1, r) := p_alloc_r p n in
    let '(p2, rs) := p_allocs p1 t in (p2, r :: rs)
  end.

(* iwpool_copy_cstring_array(v, pool), lens = strlen of the strings of v: nothing for an empty array, otherwise
   the pointer array (|v| + 1 slots) followed by one strdup per string *)
Definition p_cstrarr (p : pool) (lens : list nat) : pool * list region :=
  match lens with
  | [] => (p, [])
  | _ :: _ => p_allocs p (P_PTR_SIZE * (length lens + 1) :: map (fun len => len + 1) lens)
  end.

(* ---------------------------------------------------------------- call sequences *)
(* PAlloc also stands for iwpool_calloc (same arithmetic, the region is zeroed), PStrdup for iwpool_strndup / strndup2 / strdup /
   strdup2 and for iwpool_printf / iwpool_printf_va of a text of len bytes (one block of len + 1), PAllocs for a call that
   makes several requests in a row: iwpool_split_string / iwpool_printf_split ask for the sizes UT/PoolStr.split_sizes *)
Inductive pop := PAlloc (n : nat) | PStrdup (len : nat) | PCstrarr (lens : list nat) | PAllocs (ns : list nat).

(* the regions handed out by one call *)
Definition p_step (p : pool) (op : pop) : pool * list region :=
  match op with
  | PAlloc n => let '(p', r) := p_alloc_r p n in (p', [r])
  | PStrdup len => let '(p', r) := p_alloc_r p (len + 1) in (p', [r])
  | PCstrarr lens => p_cstrarr p lens
  | PAllocs ns => p_allocs p ns
  end.

(* final pool and all regions handed out, in order *)
Fixpoint p_run (p : pool) (ops : list pop) : pool * list region :=
  match ops with
  | [] => (p, [])
  | op :: t =>
    let '(p1, rs) := p_step p op in
    let '(p2, rs') := p_run p1 t in (p2, rs ++ rs')
  end.

(* ---------------------------------------------------------------- specification vocabulary *)
(* size of the unit with index u (counted from the oldest); 0 when there is no such unit *)
Definition unit_size (p : pool) (u : nat) : nat := nth u (rev (p_units p)) 0.

Definition p_wf (p : pool) : Prop :=
  p_usiz p <= p_asiz p /\
  p_asiz p = hd 0 (p_units p) /\
  Forall (fun s => s mod 8 = 0) (p_units p) /\
  p_usiz p mod 8 = 0.

(* l1 is a suffix of l2 *)
Definition is_suffix (l1 l2 : list nat) : Prop := exists pre, l2 = pre ++ l1.

Definition region_inside (p : pool) (r : region) : Prop :=
  r_off r mod 8 = 0 /\ r_size r = roundup8 (r_req r) /\ r_req r <= r_size r /\
  r_off r + r_size r <= unit_size p (r_unit r).

Definition regions_apart (r1 r2 : region) : Prop :=
  r_unit r1 = r_unit r2 -> r_off r1 + r_size r1 <= r_off r2 \/ r_off r2 + r_size r2 <= r_off r1.

(* every region lies inside its unit and is 8-aligned; two different regions (different positions in the list of all
   regions handed out) never overlap *)
Definition regions_ok (p : pool) (regs : list region) : Prop :=
  (forall r, In r regs -> region_inside p r) /\
  (forall i j r1 r2, i <> j -> nth_error regs i = Some r1 -> nth_error regs j = Some r2 -> regions_apart r1 r2).
