(* C18 - proofs for UT/Xstr.v: the byte-level growable string (buffer + size + terminator) refines a plain byte
   string under every call sequence; the invariant "size < asize = |mem| and mem[size] = 0" is preserved. *)
Require Import ZArith List Bool Lia Arith.
Require Import IW.Gen.Facts IW.UT.Xstr.
Import ListNotations.

(* ---------------------------------------------------------------- generic list lemmas *)
Section ListAux.
Variable T : Type.

Lemma firstn_app_len : forall (l1 l2 : list T) k j, length l1 = k ->
  firstn (k + j) (l1 ++ l2) = l1 ++ firstn j l2.
Proof. intros l1 l2 k j Hk. subst k. apply firstn_app_2. Qed.

Lemma firstn_app_len0 : forall (l1 l2 : list T) k, length l1 = k -> firstn k (l1 ++ l2) = l1.
Proof.
  intros l1 l2 k Hk. rewrite <- (Nat.add_0_r k). rewrite (firstn_app_len l1 l2 k 0 Hk).
  simpl. apply app_nil_r.
Qed.

Lemma skipn_app_len : forall (l1 l2 : list T) k j, length l1 = k ->
  skipn (k + j) (l1 ++ l2) = skipn j l2.
Proof.
  intros l1 l2 k j Hk. rewrite skipn_app. rewrite skipn_all2 by lia.
  simpl. f_equal. lia.
Qed.

Lemma skipn_app_len0 : forall (l1 l2 : list T) k, length l1 = k -> skipn k (l1 ++ l2) = l2.
Proof.
  intros l1 l2 k Hk. rewrite <- (Nat.add_0_r k). rewrite (skipn_app_len l1 l2 k 0 Hk). reflexivity.
Qed.

Lemma firstn_app_le : forall (l1 l2 : list T) k, k <= length l1 -> firstn k (l1 ++ l2) = firstn k l1.
Proof.
  intros l1 l2 k Hk. rewrite firstn_app. replace (k - length l1) with 0 by lia.
  simpl. apply app_nil_r.
Qed.

Lemma nth_app_len : forall (l1 l2 : list T) k j d, length l1 = k ->
  nth (k + j) (l1 ++ l2) d = nth j l2 d.
Proof. intros l1 l2 k j d Hk. subst k. apply app_nth2_plus. Qed.

Lemma nth_skipn_add : forall (l : list T) k j d, nth j (skipn k l) d = nth (k + j) l d.
Proof.
  induction l as [| a t IH]; intros k j d.
  - rewrite skipn_nil. destruct j; destruct (k + _); reflexivity.
  - destruct k as [| k].
    + reflexivity.
    + simpl. apply IH.
Qed.

Lemma nth_firstn_lt : forall (l : list T) k j d, j < k -> nth j (firstn k l) d = nth j l d.
Proof.
  induction l as [| a t IH]; intros k j d Hj.
  - rewrite firstn_nil. reflexivity.
  - destruct k as [| k]; [lia |].
    destruct j as [| j].
    + reflexivity.
    + simpl. apply IH. lia.
Qed.
End ListAux.

(* ---------------------------------------------------------------- xwrite / xslice / xresize *)
Lemma xwrite_length : forall a off bs, off + length bs <= length a ->
  length (xwrite a off bs) = length a.
Proof.
  intros a off bs H. unfold xwrite. rewrite !app_length, firstn_length_le, skipn_length by lia. lia.
Qed.

Lemma xwrite_firstn_before : forall a off bs k, k <= off -> off <= length a ->
  firstn k (xwrite a off bs) = firstn k a.
Proof.
  intros a off bs k Hk Hoff. unfold xwrite.
  rewrite firstn_app_le by (rewrite firstn_length_le by lia; lia).
  rewrite firstn_firstn. f_equal. lia.
Qed.

Lemma xwrite_firstn_mid : forall a off bs j, off <= length a -> j <= length bs ->
  firstn (off + j) (xwrite a off bs) = firstn off a ++ firstn j bs.
Proof.
  intros a off bs j Hoff Hj. unfold xwrite.
  rewrite (firstn_app_len Z (firstn off a) _ off j) by (apply firstn_length_le; lia).
  f_equal. apply firstn_app_le. exact Hj.
Qed.

Lemma xwrite_firstn_end : forall a off bs, off <= length a ->
  firstn (off + length bs) (xwrite a off bs) = firstn off a ++ bs.
Proof.
  intros a off bs Hoff. rewrite xwrite_firstn_mid by lia. f_equal. apply firstn_all.
Qed.

Lemma xwrite_skipn_off : forall a off bs, off <= length a ->
  skipn off (xwrite a off bs) = bs ++ skipn (off + length bs) a.
Proof.
  intros a off bs Hoff. unfold xwrite. apply skipn_app_len0. apply firstn_length_le. exact Hoff.
Qed.

Lemma xwrite_nth_in : forall a off bs j d, off <= length a -> j < length bs ->
  nth (off + j) (xwrite a off bs) d = nth j bs d.
Proof.
  intros a off bs j d Hoff Hj. unfold xwrite.
  rewrite (nth_app_len Z (firstn off a) _ off j d) by (apply firstn_length_le; lia).
  apply app_nth1. exact Hj.
Qed.

Lemma xslice_length : forall a off n, off + n <= length a -> length (xslice a off n) = n.
Proof.
  intros a off n H. unfold xslice. apply firstn_length_le. rewrite skipn_length. lia.
Qed.

Lemma xslice_0 : forall a n, xslice a 0 n = firstn n a.
Proof. reflexivity. Qed.

Lemma xresize_length : forall a n, length (xresize a n) = n.
Proof.
  intros a n. unfold xresize. rewrite app_length, firstn_length, repeat_length. lia.
Qed.

Lemma xresize_grow : forall a n, length a <= n -> xresize a n = a ++ repeat JUNK (n - length a).
Proof. intros a n H. unfold xresize. rewrite firstn_all2 by exact H. reflexivity. Qed.

(* writing the terminator at sz: nothing below sz changes *)
Lemma xwrite_term : forall m sz, sz < length m ->
  length (xwrite m sz [0%Z]) = length m /\
  firstn sz (xwrite m sz [0%Z]) = firstn sz m /\
  nth sz (xwrite m sz [0%Z]) (-1)%Z = 0%Z.
Proof.
  intros m sz H. split; [| split].
  - apply xwrite_length. simpl. lia.
  - apply xwrite_firstn_before; lia.
  - rewrite <- (Nat.add_0_r sz) at 1. rewrite xwrite_nth_in by (simpl; lia). reflexivity.
Qed.

(* ---------------------------------------------------------------- invariant *)
Definition x_inv (x : xstr) : Prop :=
  length (x_mem x) = x_asize x /\ x_size x < x_asize x /\ nth (x_size x) (x_mem x) (-1)%Z = 0%Z.

Lemma AUNIT_pos : 0 < AUNIT.
Proof. apply Nat.ltb_lt. reflexivity. Qed.

(* every call ends by writing the terminator at the new size *)
Lemma mk_term_inv : forall m sz a, length m = a -> sz < a ->
  x_inv (mkX (xwrite m sz [0%Z]) sz a) /\ x_data (mkX (xwrite m sz [0%Z]) sz a) = firstn sz m.
Proof.
  intros m sz a Hl Hsz. subst a.
  destruct (xwrite_term m sz Hsz) as [H1 [H2 H3]].
  unfold x_inv, x_data. simpl. repeat split; assumption.
Qed.

Lemma x_create_inv : forall siz, x_inv (x_create siz) /\ x_data (x_create siz) = [].
Proof.
  intros siz. unfold x_create.
  set (s := if Nat.eqb siz 0 then AUNIT else siz).
  assert (Hs : 0 < s).
  { unfold s. destruct (Nat.eqb siz 0) eqn:E; [apply AUNIT_pos |]. apply Nat.eqb_neq in E. lia. }
  destruct (mk_term_inv (repeat JUNK s) 0 s (repeat_length JUNK s) Hs) as [H1 H2].
  split; [exact H1 | exact H2].
Qed.

Lemma x_data_length : forall x, x_inv x -> length (x_data x) = x_size x.
Proof.
  intros x [Hl [Hs Ht]]. unfold x_data. apply firstn_length_le. lia.
Qed.

Lemma x_newasize_ge : forall a n, n <= x_newasize a n /\ a <= x_newasize a n.
Proof.
  intros a n. unfold x_newasize.
  destruct (a <? n) eqn:E1; [apply Nat.ltb_lt in E1 | apply Nat.ltb_ge in E1].
  - destruct (2 * a <? n) eqn:E2; [apply Nat.ltb_lt in E2 | apply Nat.ltb_ge in E2]; lia.
  - lia.
Qed.

Lemma x_ensure_spec : forall x n, x_inv x ->
  x_inv (x_ensure x n) /\ x_size (x_ensure x n) = x_size x /\
  x_data (x_ensure x n) = x_data x /\ n <= x_asize (x_ensure x n).
Proof.
  intros x n Hinv. destruct Hinv as [Hl [Hs Ht]]. unfold x_ensure.
  destruct (x_asize x <? n) eqn:E; [apply Nat.ltb_lt in E | apply Nat.ltb_ge in E].
  - destruct (x_newasize_ge (x_asize x) n) as [G1 G2].
    set (a := x_newasize (x_asize x) n) in *.
    unfold x_inv, x_data. simpl.
    rewrite xresize_grow by lia.
    split; [split; [| split] | split; [| split]].
    + rewrite app_length, repeat_length. lia.
    + lia.
    + rewrite app_nth1 by lia. exact Ht.
    + reflexivity.
    + apply firstn_app_le. lia.
    + exact G1.
  - unfold x_inv. repeat split; try assumption.
Qed.

(* ---------------------------------------------------------------- the calls *)
Lemma x_cat_spec : forall x bs, x_inv x ->
  x_inv (x_cat x bs) /\ x_data (x_cat x bs) = x_data x ++ bs.
Proof.
  intros x bs Hinv. unfold x_cat.
  destruct (x_ensure_spec x (x_size x + length bs + 1) Hinv) as [Hinv1 [Hsz [Hd Hcap]]].
  set (x1 := x_ensure x (x_size x + length bs + 1)) in *.
  destruct Hinv1 as [Hl [Hs Ht]].
  set (m := xwrite (x_mem x1) (x_size x1) bs).
  assert (Hml : length m = x_asize x1) by (unfold m; rewrite xwrite_length; lia).
  destruct (mk_term_inv m (x_size x1 + length bs) (x_asize x1) Hml) as [H1 H2]; [lia |].
  split; [exact H1 |]. rewrite H2. unfold m.
  rewrite xwrite_firstn_end by lia. rewrite <- Hd. reflexivity.
Qed.

Lemma x_unshift_spec : forall x bs, x_inv x ->
  x_inv (x_unshift x bs) /\ x_data (x_unshift x bs) = bs ++ x_data x.
Proof.
  intros x bs Hinv. unfold x_unshift.
  destruct (x_ensure_spec x (x_size x + length bs + 1) Hinv) as [Hinv1 [Hsz [Hd Hcap]]].
  set (x1 := x_ensure x (x_size x + length bs + 1)) in *.
  destruct Hinv1 as [Hl [Hs Ht]].
  set (m0 := if Nat.eqb (x_size x1) 0 then x_mem x1
             else xwrite (x_mem x1) (length bs) (xslice (x_mem x1) 0 (x_size x1))).
  assert (Hsl : length (xslice (x_mem x1) 0 (x_size x1)) = x_size x1)
    by (apply xslice_length; lia).
  assert (Hm0l : length m0 = x_asize x1).
  { unfold m0. destruct (Nat.eqb (x_size x1) 0); [exact Hl |]. rewrite xwrite_length; lia. }
  assert (Hm0d : firstn (x_size x1) (skipn (length bs) m0) = x_data x1).
  { unfold m0. destruct (Nat.eqb (x_size x1) 0) eqn:E.
    - apply Nat.eqb_eq in E. unfold x_data. rewrite E. reflexivity.
    - rewrite xwrite_skipn_off by lia. rewrite firstn_app_len0 by exact Hsl.
      reflexivity. }
  set (m := xwrite m0 0 bs).
  assert (Hml : length m = x_asize x1) by (unfold m; rewrite xwrite_length; lia).
  destruct (mk_term_inv m (x_size x1 + length bs) (x_asize x1) Hml) as [H1 H2]; [lia |].
  split; [exact H1 |]. rewrite H2. unfold m. unfold xwrite at 1. simpl.
  rewrite Nat.add_comm. rewrite (firstn_app_len Z bs _ (length bs) (x_size x1) eq_refl).
  rewrite Hm0d. rewrite Hd. reflexivity.
Qed.

Lemma x_shift_spec : forall x n0, x_inv x ->
  x_inv (x_shift x n0) /\ x_data (x_shift x n0) = skipn n0 (x_data x).
Proof.
  intros x n0 Hinv. unfold x_shift.
  destruct (Nat.eqb n0 0) eqn:E0.
  - apply Nat.eqb_eq in E0. subst n0. split; [exact Hinv | reflexivity].
  - apply Nat.eqb_neq in E0. destruct Hinv as [Hl [Hs Ht]].
    set (n := if x_size x <? n0 then x_size x else n0).
    assert (Hn : n = Nat.min (x_size x) n0).
    { unfold n. destruct (x_size x <? n0) eqn:E;
        [apply Nat.ltb_lt in E | apply Nat.ltb_ge in E]; lia. }
    set (m := if n <? x_size x then xwrite (x_mem x) 0 (xslice (x_mem x) n (x_size x - n)) else x_mem x).
    assert (Hsl : length (xslice (x_mem x) n (x_size x - n)) = x_size x - n)
      by (apply xslice_length; lia).
    assert (Hml : length m = x_asize x).
    { unfold m. destruct (n <? x_size x); [| exact Hl]. rewrite xwrite_length; lia. }
    destruct (mk_term_inv m (x_size x - n) (x_asize x) Hml) as [H1 H2]; [lia |].
    split; [exact H1 |]. rewrite H2. unfold m, x_data.
    destruct (n <? x_size x) eqn:E1; [apply Nat.ltb_lt in E1 | apply Nat.ltb_ge in E1].
    + assert (Hnn : n = n0) by lia.
      unfold xwrite at 1. simpl. rewrite firstn_app_len0 by exact Hsl.
      unfold xslice. rewrite skipn_firstn_comm. rewrite Hnn. reflexivity.
    + replace (x_size x - n) with 0 by lia. simpl.
      rewrite skipn_all2; [reflexivity |]. rewrite firstn_length_le by lia. lia.
Qed.

Lemma x_pop_spec : forall x n0, x_inv x ->
  x_inv (x_pop x n0) /\ x_data (x_pop x n0) = firstn (length (x_data x) - n0) (x_data x).
Proof.
  intros x n0 Hinv. unfold x_pop.
  assert (Hdl : length (x_data x) = x_size x) by (apply x_data_length; exact Hinv).
  destruct (Nat.eqb n0 0) eqn:E0.
  - apply Nat.eqb_eq in E0. subst n0. split; [exact Hinv |].
    rewrite Nat.sub_0_r. symmetry. apply firstn_all.
  - apply Nat.eqb_neq in E0. destruct Hinv as [Hl [Hs Ht]].
    set (n := if x_size x <? n0 then x_size x else n0).
    assert (Hn : n = Nat.min (x_size x) n0).
    { unfold n. destruct (x_size x <? n0) eqn:E;
        [apply Nat.ltb_lt in E | apply Nat.ltb_ge in E]; lia. }
    destruct (mk_term_inv (x_mem x) (x_size x - n) (x_asize x) Hl) as [H1 H2]; [lia |].
    split; [exact H1 |]. rewrite H2. rewrite Hdl. unfold x_data.
    rewrite firstn_firstn. f_equal. lia.
Qed.

Lemma x_clear_spec : forall x, x_inv x -> x_inv (x_clear x) /\ x_data (x_clear x) = [].
Proof.
  intros x Hinv. destruct Hinv as [Hl [Hs Ht]]. unfold x_clear.
  destruct (mk_term_inv (x_mem x) 0 (x_asize x) Hl) as [H1 H2]; [lia |].
  split; [exact H1 | exact H2].
Qed.

Lemma x_clone_spec : forall x, x_inv x ->
  x_inv (x_clone x) /\ x_data (x_clone x) = x_data x /\ x_size (x_clone x) = x_size x.
Proof.
  intros x Hinv. destruct Hinv as [Hl [Hs Ht]]. unfold x_clone.
  set (m0 := repeat JUNK (x_asize x)).
  assert (Hm0l : length m0 = x_asize x) by apply repeat_length.
  set (m1 := if Nat.eqb (x_size x) 0 then m0 else xwrite m0 0 (xslice (x_mem x) 0 (x_size x))).
  assert (Hsl : length (xslice (x_mem x) 0 (x_size x)) = x_size x) by (apply xslice_length; lia).
  assert (Hm1l : length m1 = x_asize x).
  { unfold m1. destruct (Nat.eqb (x_size x) 0); [exact Hm0l |]. rewrite xwrite_length; lia. }
  destruct (mk_term_inv m1 (x_size x) (x_asize x) Hm1l Hs) as [H1 H2].
  split; [exact H1 |]. split; [| reflexivity]. rewrite H2. unfold m1, x_data.
  destruct (Nat.eqb (x_size x) 0) eqn:E.
  - apply Nat.eqb_eq in E. rewrite E. reflexivity.
  - unfold xwrite. simpl. rewrite firstn_app_len0 by exact Hsl. reflexivity.
Qed.

Lemma x_insert_spec : forall x pos bs, x_inv x ->
  x_inv (fst (x_insert x pos bs)) /\
  (x_size x < pos ->
     snd (x_insert x pos bs) = X_OOB /\ x_data (fst (x_insert x pos bs)) = x_data x) /\
  (pos <= x_size x ->
     snd (x_insert x pos bs) = X_OK /\
     x_data (fst (x_insert x pos bs)) = firstn pos (x_data x) ++ bs ++ skipn pos (x_data x)).
Proof.
  intros x pos bs Hinv. unfold x_insert.
  destruct (x_size x <? pos) eqn:E0; [apply Nat.ltb_lt in E0 | apply Nat.ltb_ge in E0].
  { simpl. split; [exact Hinv |]. split; [intros _; split; reflexivity | intros H; lia]. }
  assert (Hdl : length (x_data x) = x_size x) by (apply x_data_length; exact Hinv).
  destruct (Nat.eqb (length bs) 0) eqn:E1.
  { apply Nat.eqb_eq in E1. apply length_zero_iff_nil in E1. subst bs. simpl.
    split; [exact Hinv |]. split; [intros H; lia |]. intros _. split; [reflexivity |].
    symmetry. apply firstn_skipn. }
  apply Nat.eqb_neq in E1. simpl.
  destruct (x_ensure_spec x (x_size x + length bs + 1) Hinv) as [Hinv1 [Hsz [Hd Hcap]]].
  set (x1 := x_ensure x (x_size x + length bs + 1)) in *.
  destruct Hinv1 as [Hl [Hs Ht]].
  rewrite <- Hd. rewrite <- Hsz in E0, Hcap. clear Hd Hdl Hinv.
  set (M := x_mem x1) in *. set (n := x_size x1) in *. set (lb := length bs) in *.
  set (sl := xslice M pos (n - pos + 1)).
  assert (Hsll : length sl = n - pos + 1) by (apply xslice_length; lia).
  set (m := xwrite M (pos + lb) sl).
  assert (Hml : length m = length M) by (unfold m; apply xwrite_length; lia).
  (* the final buffer, in pieces *)
  assert (Hfin : xwrite m pos bs =
                 (firstn pos M ++ bs ++ sl) ++ skipn (pos + lb + length sl) M).
  { unfold xwrite at 1. fold lb.
    assert (Hf : firstn pos m = firstn pos M) by (unfold m; apply xwrite_firstn_before; lia).
    assert (Hk : skipn (pos + lb) m = sl ++ skipn (pos + lb + length sl) M)
      by (unfold m; apply xwrite_skipn_off; lia).
    rewrite Hf, Hk. rewrite <- !app_assoc. reflexivity. }
  assert (Hhead : length (firstn pos M ++ bs) = pos + lb)
    by (rewrite app_length, firstn_length_le by lia; reflexivity).
  assert (Hsl1 : firstn (n - pos) sl = skipn pos (firstn n M)).
  { unfold sl, xslice. rewrite firstn_firstn. rewrite skipn_firstn_comm. f_equal. lia. }
  assert (Hsl2 : nth (n - pos) sl (-1)%Z = 0%Z).
  { unfold sl, xslice. rewrite nth_firstn_lt by lia. rewrite nth_skipn_add.
    replace (pos + (n - pos)) with n by lia. exact Ht. }
  split; [| split; [intros H; lia |]].
  - unfold x_inv. simpl. split; [| split].
    + rewrite xwrite_length by lia. lia.
    + lia.
    + rewrite Hfin. rewrite app_assoc.
      rewrite app_nth1 by (rewrite app_length, Hhead; lia).
      replace (n + lb) with ((pos + lb) + (n - pos)) by lia.
      rewrite (nth_app_len Z _ sl (pos + lb) (n - pos) (-1)%Z Hhead). exact Hsl2.
  - intros _. split; [reflexivity |]. unfold x_data. simpl. fold M n lb.
    rewrite Hfin. rewrite app_assoc.
    rewrite firstn_app_le by (rewrite app_length, Hhead; lia).
    replace (n + lb) with ((pos + lb) + (n - pos)) by lia.
    rewrite (firstn_app_len Z _ sl (pos + lb) (n - pos) Hhead).
    rewrite Hsl1. rewrite firstn_firstn. rewrite <- app_assoc.
    replace (Nat.min pos n) with pos by lia. reflexivity.
Qed.

(* ---------------------------------------------------------------- simulation *)
Lemma obs_eq : forall x' s' (rc : xrc), x_inv x' -> x_data x' = s' ->
  (rc, x_size x', x_data x', x_term x') = (rc, length s', s', 0%Z).
Proof.
  intros x' s' rc Hinv Hd.
  assert (Hl : length (x_data x') = x_size x') by (apply x_data_length; exact Hinv).
  destruct Hinv as [_ [_ Ht]]. unfold x_term. rewrite Ht. rewrite <- Hd, Hl. reflexivity.
Qed.

Theorem x_step_refines : forall x op, x_inv x ->
  x_inv (fst (x_step x op)) /\
  x_data (fst (x_step x op)) = fst (s_step (x_data x) op) /\
  snd (x_step x op) = snd (s_step (x_data x) op).
Proof.
  intros x op Hinv. destruct op as [b | b | n | n | p b | |]; unfold x_step, s_step; cbv beta zeta.
  all: try cbn [fst snd].
  - destruct (x_cat_spec x b Hinv) as [H1 H2].
    split; [exact H1 |]. split; [exact H2 |]. apply obs_eq; assumption.
  - destruct (x_unshift_spec x b Hinv) as [H1 H2].
    split; [exact H1 |]. split; [exact H2 |]. apply obs_eq; assumption.
  - destruct (x_shift_spec x n Hinv) as [H1 H2].
    split; [exact H1 |]. split; [exact H2 |]. apply obs_eq; assumption.
  - destruct (x_pop_spec x n Hinv) as [H1 H2].
    split; [exact H1 |]. split; [exact H2 |]. apply obs_eq; assumption.
  - destruct (x_insert_spec x p b Hinv) as [H1 [H2 H3]].
    assert (Hdl : length (x_data x) = x_size x) by (apply x_data_length; exact Hinv).
    destruct (x_insert x p b) as [x' rc] eqn:Ei. cbn [fst snd] in *.
    destruct (length (x_data x) <? p) eqn:E; [apply Nat.ltb_lt in E | apply Nat.ltb_ge in E];
      rewrite Hdl in E; cbn [fst snd].
    + destruct (H2 E) as [Hrc Hd]. subst rc.
      split; [exact H1 |]. split; [exact Hd |]. apply obs_eq; assumption.
    + destruct (H3 E) as [Hrc Hd]. subst rc.
      split; [exact H1 |]. split; [exact Hd |]. apply obs_eq; assumption.
  - destruct (x_clear_spec x Hinv) as [H1 H2].
    split; [exact H1 |]. split; [exact H2 |]. apply obs_eq; assumption.
  - destruct (x_clone_spec x Hinv) as [H1 [H2 H3]].
    split; [exact Hinv |]. split; [reflexivity |]. apply obs_eq; assumption.
Qed.

Lemma x_run_refines : forall ops x, x_inv x -> x_run x ops = s_run (x_data x) ops.
Proof.
  induction ops as [| op t IH]; intros x Hinv.
  - reflexivity.
  - simpl. destruct (x_step_refines x op Hinv) as [H1 [H2 H3]].
    destruct (x_step x op) as [x' o]. destruct (s_step (x_data x) op) as [s' o'].
    simpl in *. subst o' s'. f_equal. apply IH. exact H1.
Qed.

Theorem xstr_refines_bytes : forall siz ops, x_run (x_create siz) ops = s_run [] ops.
Proof.
  intros siz ops. destruct (x_create_inv siz) as [H1 H2].
  rewrite <- H2. apply x_run_refines. exact H1.
Qed.
