(* C18 - proofs for UT/Xstr.v: the byte-level growable string (buffer + size + terminator) refines a plain byte
   string under every call sequence; the invariant "size < asize = |mem| and mem[size] = 0" is preserved. *)
Require Import ZArith List Bool Lia Arith.
Require Import IW.Gen.Facts IW.UT.Xstr.
Import ListNotations.

(* ---------------------------------------------------------------- generic list lemmas *)
Section ListAux.
Variable T : Type.

Lemma firstn_app_len : forall (l1 l2 : list T) k j, length l1 = k ->
  firstn (k + j) (l1 ++ l2) = l1 ++ firstn j l2.
Proof. intros l1 l2 k j Hk. subst k. apply firstn_app_2. Qed.

Lemma firstn_app_len0 : forall (l1 l2 : list T) k, length l1 = k -> firstn k (l1 ++ l2) = l1.
Proof.
  intros l1 l2 k Hk. rewrite <- (Nat.add_0_r k). rewrite (firstn_app_len l1 l2 k 0 Hk).
  simpl. apply app_nil_r.
Qed.

Lemma skipn_app_len : forall (l1 l2 : list T) k j, length l1 = k ->
  skipn (k + j) (l1 ++ l2) = skipn j l2.
Proof.
  intros l1 l2 k j Hk. rewrite skipn_app. rewrite skipn_all2 by lia.
  simpl. f_equal. lia.
Qed.

Lemma skipn_app_len0 : forall (l1 l2 : list T) k, length l1 = k -> skipn k (l1 ++ l2) = l2.
Proof.
  intros l1 l2 k Hk. rewrite <- (Nat.add_0_r k). rewrite (skipn_app_len l1 l2 k 0 Hk). reflexivity.
Qed.

Lemma firstn_app_le : forall (l1 l2 : list T) k, k <= length l1 -> firstn k (l1 ++ l2) = firstn k l1.
Proof.
  intros l1 l2 k Hk. rewrite firstn_app. replace (k - length l1) with 0 by lia.
  simpl. apply app_nil_r.
Qed.

Lemma nth_app_len : forall (l1 l2 : list T) k j d, length l1 = k ->
  nth (k + j) (l1 ++ l2) d = nth j l2 d.
Proof. intros l1 l2 k j d Hk. subst k. apply app_nth2_plus. Qed.

Lemma nth_skipn_add : forall (l : list T) k j d, nth j (skipn k l) d = nth (k + j) l d.
Proof.
  induction l as [| a t IH]; intros k j d.
  - rewrite skipn_nil. destruct j; destruct (k + _); reflexivity.
  - destruct k as [| k].
    + reflexivity.
    + simpl. apply IH.
Qed.

Lemma nth_firstn_lt : forall (l : list T) k j d, j < k -> nth j (firstn k l) d = nth j l d.
Proof.
  induction l as [| a t IH]; intros k j d Hj.
  - rewrite firstn_nil. reflexivity.
  - destruct k as [| k]; [lia |].
    destruct j as [| j].
    + reflexivity.
    + simpl. apply IH. lia.
Qed.
End ListAux.

(* ---------------------------------------------------------------- xwrite / xslice / xresize *)
Lemma xwrite_length : forall a off bs, off + length bs <= length a ->
  length (xwrite a off bs) = length a.
Proof.
  intros a off bs H. unfold xwrite. rewrite !app_length, firstn_length_le, skipn_length by lia. lia.
Qed.

Lemma xwrite_firstn_before : forall a off bs k, k <= off -> off <= length a ->
  firstn k (xwrite a off bs) = firstn k a.
Proof.
  intros a off bs k Hk Hoff. unfold xwrite.
  rewrite firstn_app_le by (rewrite firstn_length_le by lia; lia).
  rewrite firstn_firstn. f_equal. lia.
Qed.

Lemma xwrite_firstn_mid : forall a off bs j, off <= length a -> j <= length bs ->
  firstn (off + j) (xwrite a off bs) = firstn off a ++ firstn j bs.
Proof.
  intros a off bs j Hoff Hj. unfold xwrite.
  rewrite (firstn_app_len Z (firstn off a) _ off j) by (apply firstn_length_le; lia).
  f_equal. apply firstn_app_le. exact Hj.
Qed.

Lemma xwrite_firstn_end : forall a off bs, off <= length a ->
  firstn (off + length bs) (xwrite a off bs) = firstn off a ++ bs.
Proof.
  intros a off bs Hoff. rewrite xwrite_firstn_mid by lia. f_equal. apply firstn_all.
Qed.

Lemma xwrite_skipn_off : forall a off bs, off <= length a ->
  skipn off (xwrite a off bs) = bs ++ skipn (off + length bs) a.
Proof.
  intros a off bs Hoff. unfold xwrite. apply skipn_app_len0. apply firstn_length_le. exact Hoff.
Qed.

Lemma xwrite_nth_in : forall a off bs j d, off <= length a -> j < length bs ->
  nth (off + j) (xwrite a off bs) d = nth j bs d.
Proof.
  intros a off bs j d Hoff Hj. unfold xwrite.
  rewrite (nth_app_len Z (firstn off a) _ off j d) by (apply firstn_length_le; lia).
  apply app_nth1. exact Hj.
Qed.

Lemma xslice_length : forall a off n, off + n <= length a -> length (xslice a off n) = n.
Proof.
  intros a off n H. unfold xslice. apply firstn_length_le. rewrite skipn_length. lia.
Qed.

Lemma xslice_0 : forall a n, xslice a 0 n = firstn n a.
Proof. reflexivity. Qed.

Lemma xresize_length : forall a n, length (xresize a n) = n.
Proof.
  intros a n. unfold xresize. rewrite app_length, firstn_length, repeat_length. lia.
Qed.

Lemma xresize_grow : forall a n, length a <= n -> xresize a n = a ++ repeat JUNK (n - length a).
Proof. intros a n H. unfold xresize. rewrite firstn_all2 by exact H. reflexivity. Qed.

(* writing the terminator at sz: nothing below sz changes *)
Lemma xwrite_term : forall m sz, sz < length m ->
  length (xwrite m sz [0%Z]) = length m /\
  firstn sz (xwrite m sz [0%Z]) = firstn sz m /\
  nth sz (xwrite m sz [0%Z]) (-1)%Z = 0%Z.
Proof.
  intros m sz H. split; [| split].
  - apply xwrite_length. simpl. lia.
  - apply xwrite_firstn_before; lia.
  - rewrite <- (Nat.add_0_r sz) at 1. rewrite xwrite_nth_in by (simpl; lia). reflexivity.
Qed.

(* ---------------------------------------------------------------- invariant *)
(* x_invt x t: the buffer has asize bytes, there is room for a terminator, and the byte at offset size is t (t = 0: terminated) *)
Definition x_invt (x : xstr) (t : Z) : Prop :=
  length (x_mem x) = x_asize x /\ x_size x < x_asize x /\ nth (x_size x) (x_mem x) (-1)%Z = t.
Definition x_inv (x : xstr) : Prop := x_invt x 0%Z.

Lemma AUNIT_pos : 0 < AUNIT.
Proof. apply Nat.ltb_lt. reflexivity. Qed.

(* every call ends by writing the terminator at the new size *)
Lemma mk_term_inv : forall m sz a, length m = a -> sz < a ->
  x_inv (mkX (xwrite m sz [0%Z]) sz a) /\ x_data (mkX (xwrite m sz [0%Z]) sz a) = firstn sz m.
Proof.
  intros m sz a Hl Hsz. subst a.
  destruct (xwrite_term m sz Hsz) as [H1 [H2 H3]].
  unfold x_inv, x_data. simpl. repeat split; assumption.
Qed.

Lemma x_create_inv : forall siz, x_inv (x_create siz) /\ x_data (x_create siz) = [].
Proof.
  intros siz. unfold x_create.
  set (s := if Nat.eqb siz 0 then AUNIT else siz).
  assert (Hs : 0 < s).
  { unfold s. destruct (Nat.eqb siz 0) eqn:E; [apply AUNIT_pos |]. apply Nat.eqb_neq in E. lia. }
  destruct (mk_term_inv (repeat JUNK s) 0 s (repeat_length JUNK s) Hs) as [H1 H2].
  split; [exact H1 | exact H2].
Qed.

Lemma x_data_length : forall x t, x_invt x t -> length (x_data x) = x_size x.
Proof.
  intros x t [Hl [Hs Ht]]. unfold x_data. apply firstn_length_le. lia.
Qed.

Lemma x_newasize_ge : forall a n, n <= x_newasize a n /\ a <= x_newasize a n.
Proof.
  intros a n. unfold x_newasize.
  destruct (a <? n) eqn:E1; [apply Nat.ltb_lt in E1 | apply Nat.ltb_ge in E1].
  - destruct (2 * a <? n) eqn:E2; [apply Nat.ltb_lt in E2 | apply Nat.ltb_ge in E2]; lia.
  - lia.
Qed.

Lemma x_ensure_spec : forall x n t, x_invt x t ->
  x_invt (x_ensure x n) t /\ x_size (x_ensure x n) = x_size x /\
  x_data (x_ensure x n) = x_data x /\ n <= x_asize (x_ensure x n).
Proof.
  intros x n t Hinv. destruct Hinv as [Hl [Hs Ht]]. unfold x_ensure.
  destruct (x_asize x <? n) eqn:E; [apply Nat.ltb_lt in E | apply Nat.ltb_ge in E].
  - destruct (x_newasize_ge (x_asize x) n) as [G1 G2].
    set (a := x_newasize (x_asize x) n) in *.
    unfold x_invt, x_data. simpl.
    rewrite xresize_grow by lia.
    split; [split; [| split] | split; [| split]].
    + rewrite app_length, repeat_length. lia.
    + lia.
    + rewrite app_nth1 by lia. exact Ht.
    + reflexivity.
    + apply firstn_app_le. lia.
    + exact G1.
  - unfold x_invt. repeat split; try assumption.
Qed.

(* ---------------------------------------------------------------- the calls *)
Lemma x_cat_spec : forall x bs t, x_invt x t ->
  x_inv (x_cat x bs) /\ x_data (x_cat x bs) = x_data x ++ bs.
Proof.
  intros x bs t Hinv. unfold x_cat.
  destruct (x_ensure_spec x (x_size x + length bs + 1) t Hinv) as [Hinv1 [Hsz [Hd Hcap]]].
  set (x1 := x_ensure x (x_size x + length bs + 1)) in *.
  destruct Hinv1 as [Hl [Hs Ht]].
  set (m := xwrite (x_mem x1) (x_size x1) bs).
  assert (Hml : length m = x_asize x1) by (unfold m; rewrite xwrite_length; lia).
  destruct (mk_term_inv m (x_size x1 + length bs) (x_asize x1) Hml) as [H1 H2]; [lia |].
  split; [exact H1 |]. rewrite H2. unfold m.
  rewrite xwrite_firstn_end by lia. rewrite <- Hd. reflexivity.
Qed.

Lemma x_unshift_spec : forall x bs t, x_invt x t ->
  x_inv (x_unshift x bs) /\ x_data (x_unshift x bs) = bs ++ x_data x.
Proof.
  intros x bs t Hinv. unfold x_unshift.
  destruct (x_ensure_spec x (x_size x + length bs + 1) t Hinv) as [Hinv1 [Hsz [Hd Hcap]]].
  set (x1 := x_ensure x (x_size x + length bs + 1)) in *.
  destruct Hinv1 as [Hl [Hs Ht]].
  set (m0 := if Nat.eqb (x_size x1) 0 then x_mem x1
             else xwrite (x_mem x1) (length bs) (xslice (x_mem x1) 0 (x_size x1))).
  assert (Hsl : length (xslice (x_mem x1) 0 (x_size x1)) = x_size x1)
    by (apply xslice_length; lia).
  assert (Hm0l : length m0 = x_asize x1).
  { unfold m0. destruct (Nat.eqb (x_size x1) 0); [exact Hl |]. rewrite xwrite_length; lia. }
  assert (Hm0d : firstn (x_size x1) (skipn (length bs) m0) = x_data x1).
  { unfold m0. destruct (Nat.eqb (x_size x1) 0) eqn:E.
    - apply Nat.eqb_eq in E. unfold x_data. rewrite E. reflexivity.
    - rewrite xwrite_skipn_off by lia. rewrite firstn_app_len0 by exact Hsl.
      reflexivity. }
  set (m := xwrite m0 0 bs).
  assert (Hml : length m = x_asize x1) by (unfold m; rewrite xwrite_length; lia).
  destruct (mk_term_inv m (x_size x1 + length bs) (x_asize x1) Hml) as [H1 H2]; [lia |].
  split; [exact H1 |]. rewrite H2. unfold m. unfold xwrite at 1. simpl.
  rewrite Nat.add_comm. rewrite (firstn_app_len Z bs _ (length bs) (x_size x1) eq_refl).
  rewrite Hm0d. rewrite Hd. reflexivity.
Qed.

Lemma x_shift_spec : forall x n0 t, x_invt x t ->
  x_invt (x_shift x n0) (if Nat.eqb n0 0 then t else 0%Z) /\ x_data (x_shift x n0) = skipn n0 (x_data x).
Proof.
  intros x n0 t Hinv. unfold x_shift.
  destruct (Nat.eqb n0 0) eqn:E0.
  - apply Nat.eqb_eq in E0. subst n0. split; [exact Hinv | reflexivity].
  - apply Nat.eqb_neq in E0. destruct Hinv as [Hl [Hs Ht]].
    set (n := if x_size x <? n0 then x_size x else n0).
    assert (Hn : n = Nat.min (x_size x) n0).
    { unfold n. destruct (x_size x <? n0) eqn:E;
        [apply Nat.ltb_lt in E | apply Nat.ltb_ge in E]; lia. }
    set (m := if n <? x_size x then xwrite (x_mem x) 0 (xslice (x_mem x) n (x_size x - n)) else x_mem x).
    assert (Hsl : length (xslice (x_mem x) n (x_size x - n)) = x_size x - n)
      by (apply xslice_length; lia).
    assert (Hml : length m = x_asize x).
    { unfold m. destruct (n <? x_size x); [| exact Hl]. rewrite xwrite_length; lia. }
    destruct (mk_term_inv m (x_size x - n) (x_asize x) Hml) as [H1 H2]; [lia |].
    split; [exact H1 |]. rewrite H2. unfold m, x_data.
    destruct (n <? x_size x) eqn:E1; [apply Nat.ltb_lt in E1 | apply Nat.ltb_ge in E1].
    + assert (Hnn : n = n0) by lia.
      unfold xwrite at 1. simpl. rewrite firstn_app_len0 by exact Hsl.
      unfold xslice. rewrite skipn_firstn_comm. rewrite Hnn. reflexivity.
    + replace (x_size x - n) with 0 by lia. simpl.
      rewrite skipn_all2; [reflexivity |]. rewrite firstn_length_le by lia. lia.
Qed.

Lemma x_pop_spec : forall x n0 t, x_invt x t ->
  x_invt (x_pop x n0) (if Nat.eqb n0 0 then t else 0%Z) /\ x_data (x_pop x n0) = firstn (length (x_data x) - n0) (x_data x).
Proof.
  intros x n0 t Hinv. unfold x_pop.
  assert (Hdl : length (x_data x) = x_size x) by (apply (x_data_length x t); exact Hinv).
  destruct (Nat.eqb n0 0) eqn:E0.
  - apply Nat.eqb_eq in E0. subst n0. split; [exact Hinv |].
    rewrite Nat.sub_0_r. symmetry. apply firstn_all.
  - apply Nat.eqb_neq in E0. destruct Hinv as [Hl [Hs Ht]].
    set (n := if x_size x <? n0 then x_size x else n0).
    assert (Hn : n = Nat.min (x_size x) n0).
    { unfold n. destruct (x_size x <? n0) eqn:E;
        [apply Nat.ltb_lt in E | apply Nat.ltb_ge in E]; lia. }
    destruct (mk_term_inv (x_mem x) (x_size x - n) (x_asize x) Hl) as [H1 H2]; [lia |].
    split; [exact H1 |]. rewrite H2. rewrite Hdl. unfold x_data.
    rewrite firstn_firstn. f_equal. lia.
Qed.

Lemma x_clear_spec : forall x t, x_invt x t -> x_inv (x_clear x) /\ x_data (x_clear x) = [].
Proof.
  intros x t Hinv. destruct Hinv as [Hl [Hs Ht]]. unfold x_clear.
  destruct (mk_term_inv (x_mem x) 0 (x_asize x) Hl) as [H1 H2]; [lia |].
  split; [exact H1 | exact H2].
Qed.

Lemma x_clone_spec : forall x t, x_invt x t ->
  x_inv (x_clone x) /\ x_data (x_clone x) = x_data x /\ x_size (x_clone x) = x_size x.
Proof.
  intros x t Hinv. destruct Hinv as [Hl [Hs Ht]]. unfold x_clone.
  set (m0 := repeat JUNK (x_asize x)).
  assert (Hm0l : length m0 = x_asize x) by apply repeat_length.
  set (m1 := if Nat.eqb (x_size x) 0 then m0 else xwrite m0 0 (xslice (x_mem x) 0 (x_size x))).
  assert (Hsl : length (xslice (x_mem x) 0 (x_size x)) = x_size x) by (apply xslice_length; lia).
  assert (Hm1l : length m1 = x_asize x).
  { unfold m1. destruct (Nat.eqb (x_size x) 0); [exact Hm0l |]. rewrite xwrite_length; lia. }
  destruct (mk_term_inv m1 (x_size x) (x_asize x) Hm1l Hs) as [H1 H2].
  split; [exact H1 |]. split; [| reflexivity]. rewrite H2. unfold m1, x_data.
  destruct (Nat.eqb (x_size x) 0) eqn:E.
  - apply Nat.eqb_eq in E. rewrite E. reflexivity.
  - unfold xwrite. simpl. rewrite firstn_app_len0 by exact Hsl. reflexivity.
Qed.

Lemma x_insert_spec : forall x pos bs t, x_invt x t ->
  x_invt (fst (x_insert x pos bs)) t /\
  (x_size x < pos ->
     snd (x_insert x pos bs) = X_OOB /\ x_data (fst (x_insert x pos bs)) = x_data x) /\
  (pos <= x_size x ->
     snd (x_insert x pos bs) = X_OK /\
     x_data (fst (x_insert x pos bs)) = firstn pos (x_data x) ++ bs ++ skipn pos (x_data x)).
Proof.
  intros x pos bs t Hinv. unfold x_insert.
  destruct (x_size x <? pos) eqn:E0; [apply Nat.ltb_lt in E0 | apply Nat.ltb_ge in E0].
  { simpl. split; [exact Hinv |]. split; [intros _; split; reflexivity | intros H; lia]. }
  assert (Hdl : length (x_data x) = x_size x) by (apply (x_data_length x t); exact Hinv).
  destruct (Nat.eqb (length bs) 0) eqn:E1.
  { apply Nat.eqb_eq in E1. apply length_zero_iff_nil in E1. subst bs. simpl.
    split; [exact Hinv |]. split; [intros H; lia |]. intros _. split; [reflexivity |].
    symmetry. apply firstn_skipn. }
  apply Nat.eqb_neq in E1. simpl.
  destruct (x_ensure_spec x (x_size x + length bs + 1) t Hinv) as [Hinv1 [Hsz [Hd Hcap]]].
  set (x1 := x_ensure x (x_size x + length bs + 1)) in *.
  destruct Hinv1 as [Hl [Hs Ht]].
  rewrite <- Hd. rewrite <- Hsz in E0, Hcap. clear Hd Hdl Hinv.
  set (M := x_mem x1) in *. set (n := x_size x1) in *. set (lb := length bs) in *.
  set (sl := xslice M pos (n - pos + 1)).
  assert (Hsll : length sl = n - pos + 1) by (apply xslice_length; lia).
  set (m := xwrite M (pos + lb) sl).
  assert (Hml : length m = length M) by (unfold m; apply xwrite_length; lia).
  (* the final buffer, in pieces *)
  assert (Hfin : xwrite m pos bs =
                 (firstn pos M ++ bs ++ sl) ++ skipn (pos + lb + length sl) M).
  { unfold xwrite at 1. fold lb.
    assert (Hf : firstn pos m = firstn pos M) by (unfold m; apply xwrite_firstn_before; lia).
    assert (Hk : skipn (pos + lb) m = sl ++ skipn (pos + lb + length sl) M)
      by (unfold m; apply xwrite_skipn_off; lia).
    rewrite Hf, Hk. rewrite <- !app_assoc. reflexivity. }
  assert (Hhead : length (firstn pos M ++ bs) = pos + lb)
    by (rewrite app_length, firstn_length_le by lia; reflexivity).
  assert (Hsl1 : firstn (n - pos) sl = skipn pos (firstn n M)).
  { unfold sl, xslice. rewrite firstn_firstn. rewrite skipn_firstn_comm. f_equal. lia. }
  assert (Hsl2 : nth (n - pos) sl (-1)%Z = t).
  { unfold sl, xslice. rewrite nth_firstn_lt by lia. rewrite nth_skipn_add.
    replace (pos + (n - pos)) with n by lia. exact Ht. }
  split; [| split; [intros H; lia |]].
  - unfold x_invt. simpl. split; [| split].
    + rewrite xwrite_length by lia. lia.
    + lia.
    + rewrite Hfin. rewrite app_assoc.
      rewrite app_nth1 by (rewrite app_length, Hhead; lia).
      replace (n + lb) with ((pos + lb) + (n - pos)) by lia.
      rewrite (nth_app_len Z _ sl (pos + lb) (n - pos) (-1)%Z Hhead). exact Hsl2.
  - intros _. split; [reflexivity |]. unfold x_data. simpl. fold M n lb.
    rewrite Hfin. rewrite app_assoc.
    rewrite firstn_app_le by (rewrite app_length, Hhead; lia).
    replace (n + lb) with ((pos + lb) + (n - pos)) by lia.
    rewrite (firstn_app_len Z _ sl (pos + lb) (n - pos) Hhead).
    rewrite Hsl1. rewrite firstn_firstn. rewrite <- app_assoc.
    replace (Nat.min pos n) with pos by lia. reflexivity.
Qed.

(* ---------------------------------------------------------------- iwxstr_set_size *)
(* shrinking (or keeping) the size: no reallocation, the data is cut, and the byte where the terminator belongs is the old data
   byte n - or the old terminator byte when n = size: set_size writes none *)
Lemma x_set_size_shrink : forall x n t, x_invt x t -> n <= x_size x ->
  x_invt (x_set_size x n) (nth n (x_data x ++ [t]) 0%Z) /\ x_data (x_set_size x n) = firstn n (x_data x) /\
  x_asize (x_set_size x n) = x_asize x.
Proof.
  intros x n t Hinv Hn. assert (Hdl := x_data_length x t Hinv). destruct Hinv as [Hl [Hs Ht]].
  unfold x_set_size, x_ensure.
  assert (E : (x_asize x <? n + 1) = false) by (apply Nat.ltb_ge; lia). rewrite E.
  unfold x_invt, x_data. cbn [x_mem x_size x_asize]. split; [split; [exact Hl | split; [lia |]] | split; [| reflexivity]].
  - destruct (Nat.eq_dec n (x_size x)) as [En | Nn].
    + subst n. rewrite app_nth2 by (rewrite firstn_length_le by lia; lia).
      rewrite firstn_length_le by lia. rewrite Nat.sub_diag. cbn [nth]. exact Ht.
    + rewrite app_nth1 by (rewrite firstn_length_le by lia; lia).
      rewrite nth_firstn_lt by lia. apply nth_indep. lia.
  - rewrite firstn_firstn. f_equal. lia.
Qed.

(* growing: the buffer is enlarged when needed (asize > n afterwards), the old data and the byte after it stay where they
   were; the bytes between are whatever the memory held (the caller is expected to have written them through iwxstr_ptr) *)
Theorem x_set_size_grow : forall x n t, x_invt x t -> x_size x < n ->
  let x' := x_set_size x n in
  x_size x' = n /\ n < x_asize x' /\ length (x_mem x') = x_asize x' /\
  firstn (x_size x) (x_mem x') = x_data x /\ nth (x_size x) (x_mem x') (-1)%Z = t /\
  x_asize x <= x_asize x'.
Proof.
  intros x n t Hinv Hn x'. unfold x', x_set_size.
  destruct (x_ensure_spec x (n + 1) t Hinv) as [[Hl [Hs Ht]] [Hsz [Hd Hcap]]].
  cbn [x_mem x_size x_asize]. split; [reflexivity |]. split; [lia |]. split; [exact Hl |].
  split; [rewrite <- Hsz; exact Hd |]. split; [rewrite <- Hsz; exact Ht |].
  unfold x_ensure. destruct (x_asize x <? n + 1); [| lia]. cbn [x_asize]. apply x_newasize_ge.
Qed.

(* iwxstr_printf_alloc: from the zeroed struct the first cat allocates exactly len + 1 bytes *)
Theorem x_printf_alloc_spec : forall bs,
  x_inv (x_printf_alloc bs) /\ x_data (x_printf_alloc bs) = bs /\ x_asize (x_printf_alloc bs) = length bs + 1.
Proof.
  intros bs. unfold x_printf_alloc, x_cat, x_zero, x_ensure. cbn [x_size x_asize x_mem Nat.add].
  assert (E : (0 <? length bs + 1) = true) by (apply Nat.ltb_lt; lia). rewrite E.
  unfold x_newasize. rewrite E. cbn [Nat.mul Nat.add]. rewrite E.
  cbn [x_mem x_size x_asize Nat.add].
  set (m := xwrite (xresize [] (length bs + 1)) 0 bs).
  assert (Hr : length (xresize [] (length bs + 1)) = length bs + 1) by apply xresize_length.
  assert (Hml : length m = length bs + 1) by (unfold m; rewrite xwrite_length; lia).
  destruct (mk_term_inv m (length bs) (length bs + 1) Hml) as [H1 H2]; [lia |].
  split; [exact H1 |]. split; [| reflexivity].
  rewrite H2. unfold m.
  assert (H := xwrite_firstn_end (xresize [] (length bs + 1)) 0 bs ltac:(lia)). cbn [Nat.add firstn app] in H. exact H.
Qed.

Theorem x_new_printf_spec : forall bs, x_inv (x_new_printf bs) /\ x_data (x_new_printf bs) = bs.
Proof.
  intros bs. unfold x_new_printf. destruct (x_create_inv AUNIT) as [H1 H2].
  destruct (x_cat_spec (x_create AUNIT) bs 0%Z H1) as [H3 H4]. split; [exact H3 |]. rewrite H4, H2. reflexivity.
Qed.

(* ---------------------------------------------------------------- simulation *)
Lemma obs_eq : forall x' s' t (rc : xrc), x_invt x' t -> x_data x' = s' ->
  (rc, x_size x', x_data x', x_term x') = (rc, length s', s', t).
Proof.
  intros x' s' t rc Hinv Hd.
  assert (Hl : length (x_data x') = x_size x') by (apply (x_data_length x' t); exact Hinv).
  destruct Hinv as [_ [_ Ht]]. unfold x_term. rewrite Ht. rewrite <- Hd, Hl. reflexivity.
Qed.

Definition xrel (x : xstr) (st : tstate) : Prop := x_invt x (snd st) /\ x_data x = fst st.
Definition op_ok (st : tstate) (op : xop) : Prop := match op with XSetSize n => n <= length (fst st) | _ => True end.

Theorem x_step_refines : forall x st op, xrel x st -> op_ok st op ->
  xrel (fst (x_step x op)) (fst (s_step st op)) /\ snd (x_step x op) = snd (s_step st op).
Proof.
  intros x [s t] op [Hinv Hd] Hok. cbn [fst snd] in Hinv, Hd, Hok. subst s.
  assert (Hdl : length (x_data x) = x_size x) by (apply (x_data_length x t); exact Hinv).
  destruct op as [b | b | n | n | p b | | | n]; unfold x_step, s_step, xrel; cbv beta zeta.
  - destruct (x_cat_spec x b t Hinv) as [H1 H2]. cbn [fst snd].
    split; [split; [exact H1 | exact H2] |]. apply obs_eq; assumption.
  - destruct (x_unshift_spec x b t Hinv) as [H1 H2]. cbn [fst snd].
    split; [split; [exact H1 | exact H2] |]. apply obs_eq; assumption.
  - destruct (x_shift_spec x n t Hinv) as [H1 H2].
    destruct (Nat.eqb n 0) eqn:E; cbn [fst snd].
    + apply Nat.eqb_eq in E. subst n. cbn [skipn] in H2.
      split; [split; [exact H1 | exact H2] |]. apply obs_eq; assumption.
    + split; [split; [exact H1 | exact H2] |]. apply obs_eq; assumption.
  - destruct (x_pop_spec x n t Hinv) as [H1 H2].
    destruct (Nat.eqb n 0) eqn:E; cbn [fst snd].
    + apply Nat.eqb_eq in E. subst n. rewrite Nat.sub_0_r, firstn_all in H2.
      split; [split; [exact H1 | exact H2] |]. apply obs_eq; assumption.
    + split; [split; [exact H1 | exact H2] |]. apply obs_eq; assumption.
  - destruct (x_insert_spec x p b t Hinv) as [H1 [H2 H3]].
    destruct (x_insert x p b) as [x' rc] eqn:Ei. cbn [fst snd] in *.
    destruct (length (x_data x) <? p) eqn:E; [apply Nat.ltb_lt in E | apply Nat.ltb_ge in E];
      rewrite Hdl in E; cbn [fst snd].
    + destruct (H2 E) as [Hrc Hd]. subst rc.
      split; [split; [exact H1 | exact Hd] |]. apply obs_eq; assumption.
    + destruct (H3 E) as [Hrc Hd]. subst rc.
      split; [split; [exact H1 | exact Hd] |]. apply obs_eq; assumption.
  - destruct (x_clear_spec x t Hinv) as [H1 H2]. cbn [fst snd].
    split; [split; [exact H1 | exact H2] |]. apply obs_eq; assumption.
  - destruct (x_clone_spec x t Hinv) as [H1 [H2 H3]]. cbn [fst snd].
    split; [split; [exact Hinv | reflexivity] |]. apply (obs_eq (x_clone x) (x_data x) 0%Z); assumption.
  - cbn [op_ok fst] in Hok. rewrite Hdl in Hok.
    destruct (x_set_size_shrink x n t Hinv Hok) as [H1 [H2 H3]]. cbn [fst snd].
    split; [split; [exact H1 | exact H2] |]. apply obs_eq; assumption.
Qed.

Lemma x_run_refines : forall ops x st, xrel x st -> sz_ok st ops -> x_run x ops = s_run st ops.
Proof.
  induction ops as [| op t IH]; intros x st Hrel Hok; [reflexivity |].
  cbn [x_run s_run sz_ok] in *. destruct Hok as [Hop Hrest].
  assert (Hop' : op_ok st op) by (destruct op; exact I || exact Hop).
  destruct (x_step_refines x st op Hrel Hop') as [H1 H2].
  destruct (x_step x op) as [x' o]. destruct (s_step st op) as [s' o'].
  cbn [fst snd] in *. subst o'. f_equal. apply IH; assumption.
Qed.

Lemma x_exec_rel : forall ops x st, xrel x st -> sz_ok st ops -> xrel (x_exec x ops) (xs_exec st ops).
Proof.
  induction ops as [| op t IH]; intros x st Hrel Hok; [exact Hrel |].
  unfold x_exec, xs_exec. cbn [fold_left]. cbn [sz_ok] in Hok. destruct Hok as [Hop Hrest].
  assert (Hop' : op_ok st op) by (destruct op; exact I || exact Hop).
  destruct (x_step_refines x st op Hrel Hop') as [H1 _]. apply IH; assumption.
Qed.

Lemma xrel_create : forall siz, xrel (x_create siz) ([], 0%Z).
Proof. intros siz. destruct (x_create_inv siz) as [H1 H2]. split; assumption. Qed.

(* ONE statement over operation lists (cat, unshift, shift, pop, insert, clear, clone, set_size): every call answers as the
   byte string reference does - return code, size, data AND the byte where the terminator belongs - provided no set_size grows
   the string (sz_ok); and the state keeps its invariant: buffer length = asize, size < asize, data = reference *)
Theorem xstr_refines_bytes : forall siz ops, sz_ok ([], 0%Z) ops ->
  x_run (x_create siz) ops = s_run ([], 0%Z) ops /\
  let x := x_exec (x_create siz) ops in
  let st := xs_exec ([], 0%Z) ops in
  length (x_mem x) = x_asize x /\ x_size x < x_asize x /\ x_data x = fst st /\ x_term x = snd st /\ x_size x = length (fst st).
Proof.
  intros siz ops Hok. split; [apply x_run_refines; [apply xrel_create | exact Hok] |].
  cbv zeta. destruct (x_exec_rel ops _ _ (xrel_create siz) Hok) as [[Hl [Hs Ht]] Hd].
  split; [exact Hl |]. split; [exact Hs |]. split; [exact Hd |]. split; [exact Ht |].
  rewrite <- Hd. unfold x_data. rewrite firstn_length_le by lia. reflexivity.
Qed.

(* without set_size nothing is assumed and the string is terminated after every call *)
Lemma sz_ok_no_set_size : forall ops st, Forall no_set_size ops -> sz_ok st ops.
Proof.
  induction ops as [| op t IH]; intros st H; [exact I |]. cbn [sz_ok].
  inversion H as [| ? ? Hop Ht]; subst. split; [destruct op; try exact I; destruct Hop | apply IH; exact Ht].
Qed.

Lemma no_set_size_term : forall ops st, Forall no_set_size ops -> snd st = 0%Z -> snd (xs_exec st ops) = 0%Z.
Proof.
  induction ops as [| op t IH]; intros [s z] H Hz; [exact Hz |]. cbn [snd] in Hz. subst z.
  inversion H as [| ? ? Hop Ht]; subst. unfold xs_exec. cbn [fold_left]. apply IH; [exact Ht |].
  destruct op as [b | b | n | n | p b | | | n]; cbn [s_step fst snd]; try reflexivity.
  - destruct (Nat.eqb n 0); reflexivity.
  - destruct (Nat.eqb n 0); reflexivity.
  - destruct (length s <? p); reflexivity.
  - destruct Hop.
Qed.

Theorem xstr_refines_bytes_terminated : forall siz ops, Forall no_set_size ops ->
  x_run (x_create siz) ops = s_run ([], 0%Z) ops /\
  x_inv (x_exec (x_create siz) ops) /\ x_data (x_exec (x_create siz) ops) = fst (xs_exec ([], 0%Z) ops).
Proof.
  intros siz ops H. assert (Hok := sz_ok_no_set_size ops ([], 0%Z) H).
  split; [apply x_run_refines; [apply xrel_create | exact Hok] |].
  destruct (x_exec_rel ops _ _ (xrel_create siz) Hok) as [Hi Hd].
  rewrite (no_set_size_term ops ([], 0%Z) H eq_refl) in Hi. split; assumption.
Qed.

(* ---------------------------------------------------------------- user data: the destructor runs exactly once per datum *)
(* data installed with a destructor, in order *)
Fixpoint xu_installed (ops : list xuop) : list (option nat) :=
  match ops with
  | [] => []
  | XUSet d true :: t => d :: xu_installed t
  | _ :: t => xu_installed t
  end.

(* the destructor calls a life of the string makes, given the datum currently guarded by a destructor (p = [] : none) *)
Fixpoint xu_freed (p : list (option nat)) (ops : list xuop) : list (option nat) :=
  match ops with
  | [] => p
  | XUSet d fn :: t => p ++ xu_freed (if fn then [d] else []) t
  | XUGet :: t => xu_freed p t
  | XUDetach :: t => xu_freed [] t
  end.

Definition xu_pending (u : xud) : list (option nat) := if xu_fn u then [xu_data u] else [].

Lemma xu_destroy_exec : forall ops u, xu_destroy (xu_exec u ops) = xu_log u ++ xu_freed (xu_pending u) ops.
Proof.
  induction ops as [| op t IH]; intros u.
  - unfold xu_exec, xu_destroy, xu_pending. cbn [fold_left xu_freed]. destruct (xu_fn u); [reflexivity | rewrite app_nil_r; reflexivity].
  - unfold xu_exec in *. cbn [fold_left]. rewrite IH.
    destruct op as [d fn | |]; cbn [xu_step xu_freed].
    + unfold xu_set, xu_pending. cbn [xu_log xu_fn xu_data].
      destruct (xu_fn u); [rewrite <- app_assoc; reflexivity | reflexivity].
    + reflexivity.
    + unfold xu_detach, xu_pending. cbn [fst xu_log xu_fn xu_data]. reflexivity.
Qed.

Lemma xu_freed_in : forall ops p d, In d (xu_freed p ops) -> In d p \/ In d (xu_installed ops).
Proof.
  induction ops as [| op t IH]; intros p d H; [left; exact H |].
  destruct op as [d' fn | |]; cbn [xu_freed xu_installed] in *.
  - apply in_app_or in H. destruct H as [H | H]; [left; exact H |].
    destruct fn.
    + destruct (IH _ _ H) as [[H1 | []] | H1]; [right; left; exact H1 | right; right; exact H1].
    + destruct (IH _ _ H) as [[] | H1]. right. exact H1.
  - apply IH. exact H.
  - destruct (IH _ _ H) as [[] | H1]. right. exact H1.
Qed.

Lemma nd_app_r : forall (A : Type) (a b : list A), NoDup (a ++ b) -> NoDup b.
Proof. induction a as [| x a IH]; intros b H; [exact H |]. inversion H; subst. apply IH. assumption. Qed.
Lemma nd_app_l : forall (A : Type) (a b : list A), NoDup (a ++ b) -> NoDup a.
Proof.
  induction a as [| x a IH]; intros b H; [constructor |]. inversion H as [| ? ? Hn Hr]; subst.
  constructor; [intro Hin; apply Hn; apply in_or_app; left; exact Hin | apply (IH b); exact Hr].
Qed.

Lemma xu_freed_nodup : forall ops p, NoDup (p ++ xu_installed ops) -> NoDup (xu_freed p ops).
Proof.
  induction ops as [| op t IH]; intros p H; [cbn [xu_freed xu_installed] in *; rewrite app_nil_r in H; exact H |].
  destruct op as [d fn | |]; cbn [xu_freed xu_installed] in *.
  - destruct fn.
    + assert (H2 : NoDup ([d] ++ xu_installed t)) by (apply nd_app_r in H; exact H).
      assert (H1 : NoDup p) by (apply nd_app_l in H; exact H).
      specialize (IH [d] H2).
      (* p and the rest are disjoint *)
      clear H2. revert H. induction p as [| a p IHp]; intros H; [exact IH |].
      cbn [app] in *. inversion H as [| ? ? Hn Hr]; subst. inversion H1; subst. constructor; [| apply IHp; assumption].
      intro Hin. apply Hn. apply in_app_or in Hin. apply in_or_app. destruct Hin as [Hin | Hin]; [left; exact Hin | right].
      destruct (xu_freed_in t [d] a Hin) as [[E | []] | E]; [left; exact E | right; exact E].
    + assert (H2 : NoDup ([] ++ xu_installed t)) by (apply nd_app_r in H; exact H).
      assert (H1 : NoDup p) by (apply nd_app_l in H; exact H).
      specialize (IH [] H2). clear H2. revert H. induction p as [| a p IHp]; intros H; [exact IH |].
      cbn [app] in *. inversion H as [| ? ? Hn Hr]; subst. inversion H1; subst. constructor; [| apply IHp; assumption].
      intro Hin. apply Hn. apply in_app_or in Hin. apply in_or_app. destruct Hin as [Hin | Hin]; [left; exact Hin | right].
      destruct (xu_freed_in t [] a Hin) as [[] | E]. exact E.
  - apply IH. exact H.
  - apply IH. apply nd_app_r in H. exact H.
Qed.

Lemma xu_freed_no_detach : forall ops p, Forall (fun op => op <> XUDetach) ops -> xu_freed p ops = p ++ xu_installed ops.
Proof.
  induction ops as [| op t IH]; intros p H; [cbn; rewrite app_nil_r; reflexivity |].
  inversion H as [| ? ? Hop Ht]; subst.
  destruct op as [d fn | |]; cbn [xu_freed xu_installed].
  - rewrite IH by exact Ht. destruct fn; reflexivity.
  - apply IH. exact Ht.
  - congruence.
Qed.

(* OWNERSHIP of the user datum over every sequence of user_data_set / get / detach calls followed by iwxstr_destroy (or
   iwxstr_destroy_keep_ptr): the destructor calls are [xu_freed]; every datum destroyed was installed with a destructor; with
   pairwise distinct data no datum is destroyed twice; without a detach every datum installed with a destructor is destroyed
   exactly once, in the order of installation *)
Theorem xud_destroyed_once : forall ops,
  xu_destroy (xu_exec xu_new ops) = xu_freed [] ops /\
  (forall d, In d (xu_freed [] ops) -> In d (xu_installed ops)) /\
  (NoDup (xu_installed ops) -> NoDup (xu_freed [] ops)) /\
  (Forall (fun op => op <> XUDetach) ops -> xu_freed [] ops = xu_installed ops).
Proof.
  intros ops. split; [apply (xu_destroy_exec ops xu_new) |]. split; [| split].
  - intros d H. destruct (xu_freed_in ops [] d H) as [[] | H1]. exact H1.
  - intros H. apply xu_freed_nodup. exact H.
  - intros H. apply (xu_freed_no_detach ops [] H).
Qed.

(* ---------------------------------------------------------------- iwxstr_wrap *)
(* a heap buffer of max(asize, 1) bytes holding size <= asize data bytes: the result is terminated, holds the data, and owns a
   buffer with room for the terminator (reallocated to size + 1 when the caller's buffer is full) *)
Theorem x_wrap_spec : forall buf size asize, length buf = Nat.max asize 1 -> size <= asize ->
  x_inv (x_wrap buf size asize) /\ x_data (x_wrap buf size asize) = firstn size buf /\
  x_asize (x_wrap buf size asize) = (if asize <=? size then size + 1 else asize).
Proof.
  intros buf size asize Hl Hs. unfold x_wrap.
  destruct (asize <=? size) eqn:E; [apply Nat.leb_le in E | apply Nat.leb_gt in E].
  - assert (Hr : length (xresize buf (size + 1)) = size + 1) by apply xresize_length.
    destruct (mk_term_inv (xresize buf (size + 1)) size (size + 1) Hr) as [H1 H2]; [lia |].
    split; [exact H1 |]. split; [| reflexivity]. rewrite H2.
    unfold xresize. rewrite firstn_app. rewrite firstn_firstn.
    replace (Nat.min size (size + 1)) with size by lia.
    rewrite firstn_length. replace (size - Nat.min (size + 1) (length buf)) with 0 by lia.
    cbn [firstn]. apply app_nil_r.
  - assert (Hb : length buf = asize) by lia.
    destruct (mk_term_inv buf size asize Hb E) as [H1 H2].
    split; [exact H1 |]. split; [exact H2 | reflexivity].
Qed.
