(* C18 - hash map: iwhmap_iter_init / iwhmap_iter_next step by step.
   For every map whose bucket array has buckets_mask + 1 elements (in particular every reachable one) the loop
   `while (iwhmap_iter_next(&it))` started from iwhmap_iter_init yields exactly `hiter` (every entry once, bucket
   order), makes `count` successful steps and ends with iter->bucket = n_buckets without any out-of-range access.
   One MORE call in that state reads `buckets[n_buckets].used` (it_fault) in the code; the guarded variant returns
   false and leaves the iterator unchanged. *)
Require Import ZArith List Bool Lia Permutation.
Require Import IW.Gen.Facts IW.UT.Hmap IW.UT.Hmap_inv_proofs IW.UT.Hmap_proofs.
Import ListNotations.
Local Open Scope Z_scope.

Section Iter.
Variable K : Type.

Notation bucket := (bucket K).
Notation entry := (entry K).
Notation b_ents := (b_ents K).
Notation bkt := (bkt K).
Notation hmap := (hmap K).
Notation iter := (iter K).

Definition kv (e : entry) : K * Z := (e_key K e, e_val K e).

(* what is still to come after `k` entries of bucket `bi` were delivered *)
Definition rest (bs : list bucket) (bi k : nat) : list entry :=
  skipn k (b_ents (bkt bs bi)) ++ flat_map b_ents (skipn (S bi) bs).

Lemma skipn_nth_cons : forall (A : Type) (d : A) i (l : list A), (i < length l)%nat ->
  skipn i l = nth i l d :: skipn (S i) l.
Proof.
  intros A d i. induction i as [|i IH]; intros l Hl; destruct l as [|a t]; simpl in *; try lia; [reflexivity|].
  apply IH. lia.
Qed.

Lemma iter_scan_S : forall f (bs : list bucket) n i, iter_scan K (S f) bs n i =
  if (i <? n)%nat then (if 0 <? b_used K (bkt bs i) then i else iter_scan K f bs n (S i)) else i.
Proof. reflexivity. Qed.

Lemma used_zero_nil : forall b : bucket, (0 <? b_used K b) = false -> b_ents b = [].
Proof.
  intros b H. apply Z.ltb_ge in H. unfold b_used in H. destruct (b_ents b); [reflexivity | simpl in H; lia].
Qed.

Lemma iter_scan_spec : forall fuel (bs : list bucket) i, (i <= length bs)%nat -> (length bs - i <= fuel)%nat ->
  let j := iter_scan K fuel bs (length bs) i in
  (i <= j)%nat /\ (j <= length bs)%nat /\
  flat_map b_ents (skipn i bs) = flat_map b_ents (skipn j bs) /\
  ((j < length bs)%nat -> 0 < b_used K (bkt bs j)).
Proof.
  induction fuel as [|f IH]; intros bs i Hi Hf j; subst j.
  - simpl. split; [lia|]. split; [lia|]. split; [reflexivity|]. intro H. lia.
  - rewrite iter_scan_S. destruct (i <? length bs)%nat eqn:Hlt.
    + apply Nat.ltb_lt in Hlt. destruct (0 <? b_used K (bkt bs i)) eqn:Hu.
      * split; [lia|]. split; [lia|]. split; [reflexivity|]. intros _. apply Z.ltb_lt. exact Hu.
      * destruct (IH bs (S i) ltac:(lia) ltac:(lia)) as [H1 [H2 [H3 H4]]].
        split; [lia|]. split; [lia|]. split; [|exact H4].
        rewrite (skipn_nth_cons _ (bempty K) i bs Hlt). simpl.
        change (nth i bs (bempty K)) with (bkt bs i). rewrite (used_zero_nil _ Hu). simpl. exact H3.
    + apply Nat.ltb_ge in Hlt. split; [lia|]. split; [lia|]. split; [reflexivity|]. intro H. lia.
Qed.

(* a position of the iterator from which the C loop continues: bucket bi, k entries of it already delivered *)
Definition at_pos (it : iter) (bs : list bucket) (bi k : nat) : Prop :=
  it_hm K it = true /\ it_bucket K it = bi /\ it_entry K it = Z.of_nat k - 1 /\ it_fault K it = false /\
  (bi < length bs)%nat /\ (k <= length (b_ents (bkt bs bi)))%nat.

Definition at_end (it : iter) (bs : list bucket) : Prop :=
  it_hm K it = true /\ it_bucket K it = length bs /\ it_entry K it = 0 /\ it_fault K it = false.

Lemma iter_next_pos : forall g (m : hmap) it bi k, length (h_bkts K m) = Z.to_nat (h_mask K m + 1) ->
  at_pos it (h_bkts K m) bi k ->
  match rest (h_bkts K m) bi k with
  | [] => exists it', iter_next K g m it = (it', false) /\ at_end it' (h_bkts K m)
  | x :: r => exists it' bi' k', iter_next K g m it = (it', true) /\ it_cur K it' = Some (kv x) /\
                at_pos it' (h_bkts K m) bi' k' /\ rest (h_bkts K m) bi' k' = r
  end.
Proof.
  intros g m it bi k Hlen [Hhm [Hb [He [Hf [Hbi Hk]]]]].
  set (bs := h_bkts K m) in *.
  unfold iter_next. rewrite Hhm. simpl negb. cbv iota. rewrite <- Hlen. fold bs. rewrite Hb.
  assert (Hpast : (length bs <=? bi)%nat = false) by (apply Nat.leb_gt; exact Hbi).
  rewrite Hpast, Bool.andb_false_r. cbv iota. rewrite Hf. simpl orb.
  rewrite He. replace (Z.of_nat k - 1 + 1) with (Z.of_nat k) by lia.
  unfold b_used. destruct (Z.of_nat k >=? Z.of_nat (length (b_ents (bkt bs bi)))) eqn:Hge.
  - (* bucket exhausted: scan forward *)
    assert (Hkeq : k = length (b_ents (bkt bs bi))).
    { rewrite Z.geb_leb in Hge. apply Z.leb_le in Hge. lia. }
    unfold rest. subst k. rewrite skipn_all, app_nil_l.
    destruct (iter_scan_spec (length bs) bs (S bi) ltac:(lia) ltac:(lia)) as [H1 [H2 [H3 H4]]].
    set (bk := iter_scan K (length bs) bs (length bs) (S bi)) in *.
    rewrite H3.
    destruct (length bs <=? bk)%nat eqn:Hend.
    + apply Nat.leb_le in Hend. assert (bk = length bs) by lia.
      rewrite H, skipn_all. simpl.
      eexists. split; [reflexivity|]. unfold at_end. simpl. rewrite <- H. repeat split; reflexivity.
    + apply Nat.leb_gt in Hend. specialize (H4 Hend). unfold b_used in H4.
      rewrite (skipn_nth_cons _ (bempty K) bk bs Hend). simpl flat_map.
      change (nth bk bs (bempty K)) with (bkt bs bk).
      destruct (b_ents (bkt bs bk)) as [|x t] eqn:Hents; [simpl in H4; lia|].
      simpl. eexists. exists bk, 1%nat. split; [reflexivity|]. split; [reflexivity|]. split.
      * unfold at_pos. simpl. rewrite Hents. simpl. repeat split; try reflexivity; try lia.
      * unfold rest. rewrite Hents. reflexivity.
  - (* next entry of the same bucket *)
    rewrite Z.geb_leb in Hge. apply Z.leb_gt in Hge.
    assert (Hklt : (k < length (b_ents (bkt bs bi)))%nat) by lia.
    rewrite Nat2Z.id. unfold rest.
    destruct (nth_error (b_ents (bkt bs bi)) k) as [x|] eqn:Hnth.
    2:{ apply nth_error_None in Hnth. lia. }
    rewrite (skipn_nth_cons _ x k _ Hklt). rewrite (nth_error_nth _ _ x Hnth). simpl.
    eexists. exists bi, (S k). split; [reflexivity|]. split; [reflexivity|]. split.
    + unfold at_pos. cbn [Hmap.it_hm Hmap.it_bucket Hmap.it_entry Hmap.it_fault]. repeat split; try reflexivity; try lia.
    + reflexivity.
Qed.

Lemma iter_run_S : forall g f (m : hmap) it, iter_run K g (S f) m it =
  let '(it', ok) := iter_next K g m it in
  if ok then
    let '(l, itf, c) := iter_run K g f m it' in
    ((match it_cur K it' with Some p => [p] | None => [] end) ++ l, itf, S c)
  else ([], it', O).
Proof. reflexivity. Qed.

Lemma iter_run_pos : forall g (m : hmap), length (h_bkts K m) = Z.to_nat (h_mask K m + 1) ->
  forall l it bi k fuel, at_pos it (h_bkts K m) bi k -> rest (h_bkts K m) bi k = l -> (length l < fuel)%nat ->
  exists itf, iter_run K g fuel m it = (map kv l, itf, length l) /\ at_end itf (h_bkts K m).
Proof.
  intros g m Hlen. induction l as [|x r IH]; intros it bi k fuel Hpos Hrest Hfuel.
  - destruct fuel as [|f]; [simpl in Hfuel; lia|]. rewrite iter_run_S.
    pose proof (iter_next_pos g m it bi k Hlen Hpos) as Hn. rewrite Hrest in Hn.
    destruct Hn as [it' [Hnx Hend]]. rewrite Hnx. exists it'. split; [reflexivity | exact Hend].
  - destruct fuel as [|f]; [simpl in Hfuel; lia|]. rewrite iter_run_S.
    pose proof (iter_next_pos g m it bi k Hlen Hpos) as Hn. rewrite Hrest in Hn.
    destruct Hn as [it' [bi' [k' [Hnx [Hcur [Hpos' Hrest']]]]]]. rewrite Hnx.
    destruct (IH it' bi' k' f Hpos' Hrest' ltac:(simpl in Hfuel; lia)) as [itf [Hrun Hend]].
    rewrite Hrun, Hcur. exists itf. split; [reflexivity | exact Hend].
Qed.

Lemma skipn_1_cons : forall (bs : list bucket), (0 < length bs)%nat ->
  flat_map b_ents bs = b_ents (bkt bs 0) ++ flat_map b_ents (skipn 1 bs).
Proof. intros bs H. destruct bs; simpl in *; [lia | reflexivity]. Qed.

(* the whole loop on a map with a well-sized bucket array *)
Lemma hiter_steps_gen : forall (m : hmap), length (h_bkts K m) = Z.to_nat (h_mask K m + 1) ->
  (0 < length (h_bkts K m))%nat -> h_count K m = Z.of_nat (length (ents K (h_bkts K m))) ->
  exists itf, hiter_steps K m = (hiter K m, itf, Z.to_nat (h_count K m)) /\ at_end itf (h_bkts K m).
Proof.
  intros m Hlen Hpos Hcnt. unfold hiter_steps.
  assert (Hp0 : at_pos (iter_init K true) (h_bkts K m) 0 0).
  { unfold at_pos, iter_init. simpl. repeat split; try reflexivity; try lia. }
  assert (Hr0 : rest (h_bkts K m) 0 0 = ents K (h_bkts K m)).
  { unfold rest, ents. simpl skipn at 1. symmetry. apply skipn_1_cons. exact Hpos. }
  destruct (iter_run_pos true m Hlen _ _ 0%nat 0%nat (S (Z.to_nat (h_count K m))) Hp0 Hr0) as [itf [Hrun Hend]].
  { rewrite Hcnt, Nat2Z.id. lia. }
  exists itf. split; [|exact Hend]. rewrite Hrun. unfold hiter. rewrite Hcnt, Nat2Z.id. reflexivity.
Qed.

(* one more call after the end *)
Lemma iter_next_end_guarded : forall (m : hmap) it, length (h_bkts K m) = Z.to_nat (h_mask K m + 1) ->
  at_end it (h_bkts K m) -> iter_next K true m it = (it, false).
Proof.
  intros m it Hlen [Hhm [Hb _]]. unfold iter_next. rewrite Hhm. simpl negb. cbv iota.
  rewrite <- Hlen, Hb, Nat.leb_refl. reflexivity.
Qed.

Lemma iter_next_end_code : forall (m : hmap) it, length (h_bkts K m) = Z.to_nat (h_mask K m + 1) ->
  at_end it (h_bkts K m) -> it_fault K (fst (iter_next K false m it)) = true.
Proof.
  intros m it Hlen [Hhm [Hb _]]. unfold iter_next. rewrite Hhm. simpl negb. cbv iota.
  rewrite <- Hlen, Hb, Nat.leb_refl. simpl andb. cbv iota. rewrite orb_true_r.
  destruct (_ >=? _).
  - destruct (_ <=? _)%nat; [reflexivity|]. destruct (nth_error _ _); reflexivity.
  - destruct (nth_error _ _); reflexivity.
Qed.

Lemma iter_next_nohm : forall g (m : hmap), iter_next K g m (iter_init K false) = (iter_init K false, false).
Proof. reflexivity. Qed.

End Iter.

(* ------------------------------------------------------------------ every reachable map *)
Section IterReach.
Variable K : Type.
Variable keq : K -> K -> bool.
Variable hashf : K -> Z.
Hypothesis keq_spec : forall a b, keq a b = true <-> a = b.

Lemma reach_shape : forall max ikp ops, let m := h_exec K keq hashf (hnew K max ikp) ops in
  length (h_bkts K m) = Z.to_nat (h_mask K m + 1) /\ (0 < length (h_bkts K m))%nat /\
  h_count K m = Z.of_nat (length (ents K (h_bkts K m))).
Proof.
  intros max ikp ops m.
  pose proof (exec_sim K keq hashf keq_spec ops _ _ (R_new K hashf max ikp)) as [L [Hinv _]]. fold m in Hinv.
  destruct (inv_bwf K hashf m L Hinv) as [[k [Hk0 Hmk]] [Hlen _]].
  split; [exact Hlen|]. split; [|exact (inv_count K hashf m L Hinv)].
  rewrite Hlen, Hmk, Z.ones_equiv. assert (0 < 2 ^ k) by (apply Z.pow_pos_nonneg; lia). lia.
Qed.

(* After ANY call sequence: init + next until false delivers exactly hiter (every entry once, in bucket order) in
   h_count successful steps, no access outside the bucket array on the way; the call after that
   - in the guarded variant returns false and leaves the iterator as it is (so every later call does the same),
   - in the code reads buckets[n_buckets].used (it_fault). *)
Theorem iter_steps_ok : forall max ikp ops, let m := h_exec K keq hashf (hnew K max ikp) ops in
  exists itf, hiter_steps K m = (hiter K m, itf, Z.to_nat (h_count K m)) /\
    it_fault K itf = false /\ it_bucket K itf = Z.to_nat (h_mask K m + 1) /\
    iter_next K true m itf = (itf, false) /\
    it_fault K (fst (iter_next K false m itf)) = true.
Proof.
  intros max ikp ops m. destruct (reach_shape max ikp ops) as [Hlen [Hpos Hcnt]]. fold m in Hlen, Hpos, Hcnt.
  destruct (hiter_steps_gen K m Hlen Hpos Hcnt) as [itf [Hrun Hend]].
  exists itf. split; [exact Hrun|].
  pose proof Hend as [_ [Hb [_ Hf]]].
  split; [exact Hf|]. split; [rewrite Hb; exact Hlen|].
  split; [apply iter_next_end_guarded; assumption | apply iter_next_end_code; assumption].
Qed.

End IterReach.
