(* C18 - executable model of the growable string src/utils/iwxstr.c at BYTE level: a buffer of asize bytes,
   size data bytes followed by the terminator.  Fresh/uninitialised bytes are 0xAA so that a missing terminator
   is visible.  Follows the code after fix b1c39c1 (iwxstr_clone terminates the clone).  No proofs here. *)
Require Import ZArith List Bool Lia Arith.
Require Import IW.Gen.Facts.
Import ListNotations.

Definition AUNIT : nat := Z.to_nat CONT_IWXSTR_AUNIT.
Definition JUNK : Z := 170%Z.

Record xstr := mkX { x_mem : list Z; x_size : nat; x_asize : nat }.
Inductive xrc := X_OK | X_OOB.

Definition xwrite (a : list Z) (off : nat) (bs : list Z) : list Z :=
  firstn off a ++ bs ++ skipn (off + length bs) a.
Definition xslice (a : list Z) (off n : nat) : list Z := firstn n (skipn off a).
Definition xresize (a : list Z) (n : nat) : list Z := firstn n a ++ repeat JUNK (n - length a).

Definition x_create (siz : nat) : xstr :=
  let s := if Nat.eqb siz 0 then AUNIT else siz in
  mkX (xwrite (repeat JUNK s) 0 [0%Z]) 0 s.

(* while (asize < nsize) { asize <<= 1; if (asize < nsize) asize = nsize; }  -- at most one round *)
Definition x_newasize (asize nsize : nat) : nat :=
  if (asize <? nsize) then (if (2 * asize <? nsize) then nsize else 2 * asize) else asize.

Definition x_ensure (x : xstr) (nsize : nat) : xstr :=
  if (x_asize x <? nsize) then
    let a := x_newasize (x_asize x) nsize in mkX (xresize (x_mem x) a) (x_size x) a
  else x.

Definition x_data (x : xstr) : list Z := firstn (x_size x) (x_mem x).
Definition x_term (x : xstr) : Z := nth (x_size x) (x_mem x) (-1)%Z.

Definition x_cat (x : xstr) (bs : list Z) : xstr :=
  let x1 := x_ensure x (x_size x + length bs + 1) in
  let m := xwrite (x_mem x1) (x_size x1) bs in
  let sz := x_size x1 + length bs in
  mkX (xwrite m sz [0%Z]) sz (x_asize x1).

Definition x_unshift (x : xstr) (bs : list Z) : xstr :=
  let x1 := x_ensure x (x_size x + length bs + 1) in
  let m0 := if Nat.eqb (x_size x1) 0 then x_mem x1
            else xwrite (x_mem x1) (length bs) (xslice (x_mem x1) 0 (x_size x1)) in
  let m := xwrite m0 0 bs in
  let sz := x_size x1 + length bs in
  mkX (xwrite m sz [0%Z]) sz (x_asize x1).

Definition x_shift (x : xstr) (n0 : nat) : xstr :=
  if Nat.eqb n0 0 then x
  else
    let n := if (x_size x <? n0) then x_size x else n0 in
    let m := if (n <? x_size x) then xwrite (x_mem x) 0 (xslice (x_mem x) n (x_size x - n)) else x_mem x in
    let sz := x_size x - n in
    mkX (xwrite m sz [0%Z]) sz (x_asize x).

Definition x_pop (x : xstr) (n0 : nat) : xstr :=
  if Nat.eqb n0 0 then x
  else
    let n := if (x_size x <? n0) then x_size x else n0 in
    let sz := x_size x - n in
    mkX (xwrite (x_mem x) sz [0%Z]) sz (x_asize x).

Definition x_insert (x : xstr) (pos : nat) (bs : list Z) : xstr * xrc :=
  if (x_size x <? pos) then (x, X_OOB)
  else if Nat.eqb (length bs) 0 then (x, X_OK)
  else
    let x1 := x_ensure x (x_size x + length bs + 1) in
    let m := xwrite (x_mem x1) (pos + length bs) (xslice (x_mem x1) pos (x_size x1 - pos + 1)) in
    (mkX (xwrite m pos bs) (x_size x1 + length bs) (x_asize x1), X_OK).

Definition x_clear (x : xstr) : xstr := mkX (xwrite (x_mem x) 0 [0%Z]) 0 (x_asize x).

Definition x_clone (x : xstr) : xstr :=
  let m0 := repeat JUNK (x_asize x) in
  let m1 := if Nat.eqb (x_size x) 0 then m0 else xwrite m0 0 (xslice (x_mem x) 0 (x_size x)) in
  mkX (xwrite m1 (x_size x) [0%Z]) (x_size x) (x_asize x).

(* iwxstr_wrap(buf, size, asize) with buf a heap block of asize bytes holding size data bytes *)
Definition x_wrap (buf : list Z) (size asize : nat) : xstr :=
  if (asize <=? size) then
    mkX (xwrite (xresize buf (size + 1)) size [0%Z]) size (size + 1)
  else mkX (xwrite buf size [0%Z]) size asize.

(* ---------------------------------------------------------------- call sequences *)
Inductive xop :=
  | XCat (b : list Z) | XUnshift (b : list Z) | XShift (n : nat) | XPop (n : nat)
  | XInsert (pos : nat) (b : list Z) | XClear | XClone.

(* observation after every call: return code, size, data, terminator byte; for clone: the clone's data/terminator *)
Definition xobs := (xrc * nat * list Z * Z)%type.

Definition x_step (x : xstr) (op : xop) : xstr * xobs :=
  let ob (x' : xstr) (rc : xrc) := (x', (rc, x_size x', x_data x', x_term x')) in
  match op with
  | XCat b => ob (x_cat x b) X_OK
  | XUnshift b => ob (x_unshift x b) X_OK
  | XShift n => ob (x_shift x n) X_OK
  | XPop n => ob (x_pop x n) X_OK
  | XInsert p b => let '(x', rc) := x_insert x p b in ob x' rc
  | XClear => ob (x_clear x) X_OK
  | XClone => let c := x_clone x in (x, (X_OK, x_size c, x_data c, x_term c))
  end.

(* reference: a plain byte string *)
Definition s_step (s : list Z) (op : xop) : list Z * xobs :=
  let ob (s' : list Z) (rc : xrc) := (s', (rc, length s', s', 0%Z)) in
  match op with
  | XCat b => ob (s ++ b) X_OK
  | XUnshift b => ob (b ++ s) X_OK
  | XShift n => ob (skipn n s) X_OK
  | XPop n => ob (firstn (length s - n) s) X_OK
  | XInsert p b => if (length s <? p) then ob s X_OOB else ob (firstn p s ++ b ++ skipn p s) X_OK
  | XClear => ob [] X_OK
  | XClone => ob s X_OK
  end.

Fixpoint x_run (x : xstr) (ops : list xop) : list xobs :=
  match ops with [] => [] | op :: t => let '(x', o) := x_step x op in o :: x_run x' t end.
Fixpoint s_run (s : list Z) (ops : list xop) : list xobs :=
  match ops with [] => [] | op :: t => let '(s', o) := s_step s op in o :: s_run s' t end.
