(* C18 - executable model of the growable string src/utils/iwxstr.c at BYTE level: a buffer of asize bytes,
   size data bytes followed by the terminator.  Fresh/uninitialised bytes are 0xAA so that a missing terminator
   is visible.  Follows the code after fix b1c39c1 (iwxstr_clone terminates the clone).  No proofs here. *)
Require Import ZArith List Bool Lia Arith.
Require Import IW.Gen.Facts.
Import ListNotations.

Definition AUNIT : nat := Z.to_nat CONT_IWXSTR_AUNIT.
Definition JUNK : Z := 170%Z.

Record xstr := mkX { x_mem : list Z; x_size : nat; x_asize : nat }.
Inductive xrc := X_OK | X_OOB.

Definition xwrite (a : list Z) (off : nat) (bs : list Z) : list Z :=
  firstn off a ++ bs ++ skipn (off + length bs) a.
Definition xslice (a : list Z) (off n : nat) : list Z := firstn n (skipn off a).
Definition xresize (a : list Z) (n : nat) : list Z := firstn n a ++ repeat JUNK (n - length a).

Definition x_create (siz : nat) : xstr :=
  let s := if Nat.eqb siz 0 then AUNIT else siz in
  mkX (xwrite (repeat JUNK s) 0 [0%Z]) 0 s.

(* while (asize < nsize) { asize <<= 1; if (asize < nsize) asize = nsize; }  -- at most one round *)
Definition x_newasize (asize nsize : nat) : nat :=
  if (asize <? nsize) then (if (2 * asize <? nsize) then nsize else 2 * asize) else asize.

Definition x_ensure (x : xstr) (nsize : nat) : xstr :=
  if (x_asize x <? nsize) then
    let a := x_newasize (x_asize x) nsize in mkX (xresize (x_mem x) a) (x_size x) a
  else x.

Definition x_data (x : xstr) : list Z := firstn (x_size x) (x_mem x).
Definition x_term (x : xstr) : Z := nth (x_size x) (x_mem x) (-1)%Z.

Definition x_cat (x : xstr) (bs : list Z) : xstr :=
  let x1 := x_ensure x (x_size x + length bs + 1) in
  let m := xwrite (x_mem x1) (x_size x1) bs in
  let sz := x_size x1 + length bs in
  mkX (xwrite m sz [0%Z]) sz (x_asize x1).

Definition x_unshift (x : xstr) (bs : list Z) : xstr :=
  let x1 := x_ensure x (x_size x + length bs + 1) in
  let m0 := if Nat.eqb (x_size x1) 0 then x_mem x1
            else xwrite (x_mem x1) (length bs) (xslice (x_mem x1) 0 (x_size x1)) in
  let m := xwrite m0 0 bs in
  let sz := x_size x1 + length bs in
  mkX (xwrite m sz [0%Z]) sz (x_asize x1).

Definition x_shift (x : xstr) (n0 : nat) : xstr :=
  if Nat.eqb n0 0 then x
  else
    let n := if (x_size x <? n0) then x_size x else n0 in
    let m := if (n <? x_size x) then xwrite (x_mem x) 0 (xslice (x_mem x) n (x_size x - n)) else x_mem x in
    let sz := x_size x - n in
    mkX (xwrite m sz [0%Z]) sz (x_asize x).

Definition x_pop (x : xstr) (n0 : nat) : xstr :=
  if Nat.eqb n0 0 then x
  else
    let n := if (x_size x <? n0) then x_size x else n0 in
    let sz := x_size x - n in
    mkX (xwrite (x_mem x) sz [0%Z]) sz (x_asize x).

Definition x_insert (x : xstr) (pos : nat) (bs : list Z) : xstr * xrc :=
  if (x_size x <? pos) then (x, X_OOB)
  else if Nat.eqb (length bs) 0 then (x, X_OK)
  else
    let x1 := x_ensure x (x_size x + length bs + 1) in
    let m := xwrite (x_mem x1) (pos + length bs) (xslice (x_mem x1) pos (x_size x1 - pos + 1)) in
    (mkX (xwrite m pos bs) (x_size x1 + length bs) (x_asize x1), X_OK).

Definition x_clear (x : xstr) : xstr := mkX (xwrite (x_mem x) 0 [0%Z]) 0 (x_asize x).

Definition x_clone (x : xstr) : xstr :=
  let m0 := repeat JUNK (x_asize x) in
  let m1 := if Nat.eqb (x_size x) 0 then m0 else xwrite m0 0 (xslice (x_mem x) 0 (x_size x)) in
  mkX (xwrite m1 (x_size x) [0%Z]) (x_size x) (x_asize x).

(* iwxstr_wrap(buf, size, asize) with buf a heap block of asize bytes holding size data bytes *)
Definition x_wrap (buf : list Z) (size asize : nat) : xstr :=
  if (asize <=? size) then
    mkX (xwrite (xresize buf (size + 1)) size [0%Z]) size (size + 1)
  else mkX (xwrite buf size [0%Z]) size asize.

(* iwxstr_set_size: grows the buffer when needed, sets size, writes NO terminator *)
Definition x_set_size (x : xstr) (n : nat) : xstr :=
  let x1 := x_ensure x (n + 1) in mkX (x_mem x1) n (x_asize x1).

(* the caller writes bs at offset off through iwxstr_ptr (what iwxstr_set_size is for: fill the buffer, then set the size) *)
Definition x_poke (x : xstr) (off : nat) (bs : list Z) : xstr := mkX (xwrite (x_mem x) off bs) (x_size x) (x_asize x).

(* the zero-initialised struct `struct iwxstr xstr = { 0 }` iwxstr_printf_alloc starts from: ptr NULL, size 0, asize 0; the
   first iwxstr_cat grows it to exactly the need (asize <<= 1 stays 0, then asize = nsize) *)
Definition x_zero : xstr := mkX [] 0 0.
(* iwxstr_printf_alloc(fmt, ...) with the formatted text bs: the buffer handed to the caller *)
Definition x_printf_alloc (bs : list Z) : xstr := x_cat x_zero bs.
(* iwxstr_new_printf: iwxstr_create_empty() then iwxstr_printf_va *)
Definition x_new_printf (bs : list Z) : xstr := x_cat (x_create AUNIT) bs.
(* ---------------------------------------------------------------- user data: iwxstr_user_data_set / get / detach, and the
   destructor call of iwxstr_destroy / iwxstr_destroy_keep_ptr.  Data are tokens; the log holds the destructor calls. *)
Record xud := mkXU { xu_data : option nat; xu_fn : bool; xu_log : list (option nat) }.
Definition xu_new : xud := mkXU None false [].
Definition xu_set (u : xud) (d : option nat) (fn : bool) : xud :=
  mkXU d fn (if xu_fn u then xu_log u ++ [xu_data u] else xu_log u).
Definition xu_get (u : xud) : option nat := xu_data u.
Definition xu_detach (u : xud) : xud * option nat := (mkXU (xu_data u) false (xu_log u), xu_data u).
Definition xu_destroy (u : xud) : list (option nat) := if xu_fn u then xu_log u ++ [xu_data u] else xu_log u.
Inductive xuop := XUSet (d : option nat) (fn : bool) | XUGet | XUDetach.
Definition xu_step (u : xud) (op : xuop) : xud :=
  match op with XUSet d fn => xu_set u d fn | XUGet => u | XUDetach => fst (xu_detach u) end.
Definition xu_exec (u : xud) (ops : list xuop) : xud := fold_left xu_step ops u.

(* ---------------------------------------------------------------- call sequences *)
Inductive xop :=
  | XCat (b : list Z) | XUnshift (b : list Z) | XShift (n : nat) | XPop (n : nat)
  | XInsert (pos : nat) (b : list Z) | XClear | XClone | XSetSize (n : nat).

(* observation after every call: return code, size, data, terminator byte; for clone: the clone's data/terminator *)
Definition xobs := (xrc * nat * list Z * Z)%type.

Definition x_step (x : xstr) (op : xop) : xstr * xobs :=
  let ob (x' : xstr) (rc : xrc) := (x', (rc, x_size x', x_data x', x_term x')) in
  match op with
  | XCat b => ob (x_cat x b) X_OK
  | XUnshift b => ob (x_unshift x b) X_OK
  | XShift n => ob (x_shift x n) X_OK
  | XPop n => ob (x_pop x n) X_OK
  | XInsert p b => let '(x', rc) := x_insert x p b in ob x' rc
  | XClear => ob (x_clear x) X_OK
  | XClone => let c := x_clone x in (x, (X_OK, x_size c, x_data c, x_term c))
  | XSetSize n => ob (x_set_size x n) X_OK
  end.

(* reference: a plain byte string s plus the byte t that sits where the terminator belongs (0 after every call except
   iwxstr_set_size, which writes none: after shrinking to n the byte there is the old data byte n, or the old terminator
   when n = size; iwxstr_insert moves that byte along; the calls that do nothing - shift 0, pop 0, insert of nothing or out of
   bounds - leave it).  Growing by set_size exposes bytes nobody wrote: the reference does not say what they are (sz_ok). *)
Definition tstate := (list Z * Z)%type.
Definition s_step (st : tstate) (op : xop) : tstate * xobs :=
  let '(s, t) := st in
  let ob (s' : list Z) (t' : Z) (rc : xrc) := ((s', t'), (rc, length s', s', t')) in
  match op with
  | XCat b => ob (s ++ b) 0%Z X_OK
  | XUnshift b => ob (b ++ s) 0%Z X_OK
  | XShift n => if Nat.eqb n 0 then ob s t X_OK else ob (skipn n s) 0%Z X_OK
  | XPop n => if Nat.eqb n 0 then ob s t X_OK else ob (firstn (length s - n) s) 0%Z X_OK
  | XInsert p b => if (length s <? p) then ob s t X_OOB else ob (firstn p s ++ b ++ skipn p s) t X_OK
  | XClear => ob [] 0%Z X_OK
  | XClone => (st, (X_OK, length s, s, 0%Z))
  | XSetSize n => ob (firstn n s) (nth n (s ++ [t]) 0%Z) X_OK
  end.

(* no iwxstr_set_size beyond the current size *)
Fixpoint sz_ok (st : tstate) (ops : list xop) : Prop :=
  match ops with
  | [] => True
  | op :: t => (match op with XSetSize n => n <= length (fst st) | _ => True end) /\ sz_ok (fst (s_step st op)) t
  end.
Definition no_set_size (op : xop) : Prop := match op with XSetSize _ => False | _ => True end.

Fixpoint x_run (x : xstr) (ops : list xop) : list xobs :=
  match ops with [] => [] | op :: t => let '(x', o) := x_step x op in o :: x_run x' t end.
Fixpoint s_run (s : tstate) (ops : list xop) : list xobs :=
  match ops with [] => [] | op :: t => let '(s', o) := s_step s op in o :: s_run s' t end.
Definition x_exec (x : xstr) (ops : list xop) : xstr := fold_left (fun x op => fst (x_step x op)) ops x.
Definition xs_exec (s : tstate) (ops : list xop) : tstate := fold_left (fun s op => fst (s_step s op)) ops s.
