(* C18 - iwpool_alloc / iwpool_calloc / iwpool_strndup of src/utils/iwpool.c with the request as a size_t VALUE (a Z below
   2^64), for requests near SIZE_MAX.  UT/Pool.v works with natural numbers and leaves the size_t arithmetic out; here it is
   in: IW_ROUNDUP(siz, 8) = (siz + 7) & ~7 computed modulo 2^64 wraps to 0 for siz in (SIZE_MAX - 7, SIZE_MAX].
   Flag `guard`: true = the code (since fix 435f237, fixes/cont-pool-alloc-size-wrap.diff: `if (siz > SIZE_T_MAX - 7) return 0;`
   and `len < SIZE_T_MAX` in iwpool_strndup), false = the code before that fix, kept for the refutation theorems.
   Requests above MALLOC_MAX = PTRDIFF_MAX that do not wrap always fail: either one of the two SIZE_T_MAX checks of
   iwpool_alloc fires or iwpool_extend asks malloc for more than PTRDIFF_MAX bytes, which glibc refuses (pool unchanged).
   Requests up to MALLOC_MAX are the arithmetic of UT/Pool.v (the harness uses only small ones: whether malloc grants a huge
   request is the OS's business).  No proofs here. *)
Require Import ZArith List Bool.
Require Import IW.Gen.Facts IW.UT.Pool.
Import ListNotations.
Local Open Scope Z_scope.

Definition SIZE_MAX : Z := 2 ^ (8 * CONT_sizeof_size_t) - 1.
Definition MALLOC_MAX : Z := 2 ^ (8 * CONT_sizeof_size_t - 1) - 1.

(* IW_ROUNDUP(x, 8) on size_t *)
Definition roundup8_sz (x : Z) : Z := Z.land ((x + 7) mod (SIZE_MAX + 1)) (SIZE_MAX - 7).

Inductive zres :=
  | ZNull                          (* the call returned 0 *)
  | ZZero (u off : nat)            (* a pointer to (unit u, offset off) with NO byte reserved *)
  | ZOk (w : nat * nat).           (* a region of the rounded size at (unit, offset) *)

Definition p_alloc_z (guard : bool) (p : pool) (siz : Z) : pool * zres :=
  if guard && (SIZE_MAX - 7 <? siz) then (p, ZNull)
  else if roundup8_sz siz =? 0 then
    (* rounded size 0: both SIZE_T_MAX tests pass, usiz + 0 <= asiz, the current heap pointer is returned, usiz unchanged
       (for siz = 0 this is the legitimate empty region) *)
    (p, ZZero (length (p_units p) - 1) (p_usiz p))
  else if MALLOC_MAX <? siz then (p, ZNull)
  else let '(p', w) := p_alloc p (Z.to_nat siz) in (p', ZOk w).

(* iwpool_calloc: memset(res, 0, siz) on what iwpool_alloc returned; the bool = the memset runs past what was reserved *)
Definition p_calloc_z (guard : bool) (p : pool) (siz : Z) : pool * zres * bool :=
  let '(p', r) := p_alloc_z guard p siz in
  (p', r, match r with ZZero _ _ => 0 <? siz | _ => false end).

(* iwpool_strndup(pool, str, len): iwpool_alloc(len + 1) with len + 1 computed on size_t, then memcpy of len bytes and ret[len] = 0;
   the bool = the copy runs past what was reserved *)
Definition p_strndup_z (guard : bool) (p : pool) (len : Z) : pool * zres * bool :=
  if guard && (SIZE_MAX <=? len) then (p, ZNull, false)
  else
    let '(p', r) := p_alloc_z guard p ((len + 1) mod (SIZE_MAX + 1)) in
    (p', r, match r with ZZero _ _ => true | _ => false end).
