(* C18 - lemma library about the doubly linked LRU list kept in the node heap of UT/Hmap.v
   (statements are the *_stmt definitions of Hmap_inv_proofs.v). *)
Require Import ZArith List Bool Lia Arith.
Require Import IW.Gen.Facts IW.UT.Hmap IW.UT.Hmap_inv_proofs.
Import ListNotations.

Section DllProofs.
Variable K : Type.

Local Notation node := (node K).
Local Notation heap := (heap K).
Local Notation hmap := (hmap K).
Local Notation hget := (hget K).
Local Notation hset := (hset K).
Local Notation hdel := (hdel K).
Local Notation n_next := (n_next K).
Local Notation n_prev := (n_prev K).
Local Notation n_key := (n_key K).
Local Notation mkN := (mkN K).
Local Notation set_next := (set_next K).
Local Notation set_prev := (set_prev K).
Local Notation set_key := (set_key K).
Local Notation h_heap := (h_heap K).
Local Notation h_first := (h_first K).
Local Notation h_last := (h_last K).
Local Notation with_heap := (with_heap K).
Local Notation with_first := (with_first K).
Local Notation with_last := (with_last K).
Local Notation node_upd := (node_upd K).
Local Notation seg := (seg K).
Local Notation nkey := (nkey K).
Local Notation dll := (dll K).
Local Notation frame := (frame K).

(* ------------------------------------------------------------------ heap algebra *)
Lemma hget_hset : forall (h : heap) n x m,
  hget (hset h n x) m = if Nat.eqb n m then Some x else hget h m.
Proof.
  induction h as [|[k y] t IH]; intros n x m; cbn [Hmap.hset Hmap.hget].
  - reflexivity.
  - destruct (Nat.eqb k n) eqn:Ekn; cbn [Hmap.hget].
    + apply Nat.eqb_eq in Ekn; subst k. destruct (Nat.eqb n m); reflexivity.
    + rewrite IH. destruct (Nat.eqb k m) eqn:Ekm; [|reflexivity].
      apply Nat.eqb_eq in Ekm; subst k. rewrite Nat.eqb_sym, Ekn. reflexivity.
Qed.

Lemma hget_hdel : forall (h : heap) n m,
  hget (hdel h n) m = if Nat.eqb n m then None else hget h m.
Proof.
  induction h as [|[k y] t IH]; intros n m; cbn [Hmap.hdel Hmap.hget].
  - destruct (Nat.eqb n m); reflexivity.
  - destruct (Nat.eqb k n) eqn:Ekn; cbn [Hmap.hget].
    + apply Nat.eqb_eq in Ekn; subst k. rewrite IH. destruct (Nat.eqb n m); reflexivity.
    + rewrite IH. destruct (Nat.eqb k m) eqn:Ekm; [|reflexivity].
      apply Nat.eqb_eq in Ekm; subst k. rewrite Nat.eqb_sym, Ekn. reflexivity.
Qed.

Lemma hget_hset_eq : forall (h : heap) n x, hget (hset h n x) n = Some x.
Proof. intros h n x. rewrite hget_hset, Nat.eqb_refl. reflexivity. Qed.
Lemma hget_hset_neq : forall (h : heap) n x m, n <> m -> hget (hset h n x) m = hget h m.
Proof. intros h n x m Hne. rewrite hget_hset. apply Nat.eqb_neq in Hne. rewrite Hne. reflexivity. Qed.
Lemma hget_hdel_eq : forall (h : heap) n, hget (hdel h n) n = None.
Proof. intros h n. rewrite hget_hdel, Nat.eqb_refl. reflexivity. Qed.
Lemma hget_hdel_neq : forall (h : heap) n m, n <> m -> hget (hdel h n) m = hget h m.
Proof. intros h n m Hne. rewrite hget_hdel. apply Nat.eqb_neq in Hne. rewrite Hne. reflexivity. Qed.

Lemma hget_in_fst : forall (h : heap) n, hget h n <> None -> In n (map fst h).
Proof.
  induction h as [|[k y] t IH]; intros n Hb; cbn [Hmap.hget] in Hb.
  - congruence.
  - cbn [map fst]. destruct (Nat.eqb k n) eqn:Ekn.
    + apply Nat.eqb_eq in Ekn. left. exact Ekn.
    + right. apply IH. exact Hb.
Qed.

(* update of a bound node (nothing happens on an unbound one) *)
Definition hupd (h : heap) (n : nat) (f : node -> node) : heap :=
  match hget h n with Some x => hset h n (f x) | None => h end.

Lemma hget_hupd : forall h n f m,
  hget (hupd h n f) m = if Nat.eqb n m then option_map f (hget h n) else hget h m.
Proof.
  intros h n f m. unfold hupd. destruct (hget h n) as [x|] eqn:Ex.
  - rewrite hget_hset. reflexivity.
  - destruct (Nat.eqb n m) eqn:Enm; [|reflexivity].
    apply Nat.eqb_eq in Enm; subst m. rewrite Ex. reflexivity.
Qed.

(* the link view and the key view of a heap *)
Definition lk (h : heap) (n : nat) : option (option nat * option nat) :=
  option_map (fun x => (n_prev x, n_next x)) (hget h n).

Lemma lk_some : forall h n p q, lk h n = Some (p, q) ->
  exists x, hget h n = Some x /\ n_prev x = p /\ n_next x = q.
Proof.
  intros h n p q Hl. unfold lk in Hl. destruct (hget h n) as [x|]; cbn [option_map] in Hl; [|discriminate].
  exists x. inversion Hl. auto.
Qed.
Lemma lk_intro : forall h n x, hget h n = Some x -> lk h n = Some (n_prev x, n_next x).
Proof. intros h n x Hx. unfold lk. rewrite Hx. reflexivity. Qed.

Lemma lk_hupd : forall h n f m,
  lk (hupd h n f) m =
  if Nat.eqb n m then option_map (fun x => (n_prev (f x), n_next (f x))) (hget h n) else lk h m.
Proof.
  intros h n f m. unfold lk. rewrite hget_hupd. destruct (Nat.eqb n m); [|reflexivity].
  destruct (hget h n); reflexivity.
Qed.
Lemma lk_hupd_next : forall h n v m,
  lk (hupd h n (set_next v)) m =
  if Nat.eqb n m then option_map (fun pn => (fst pn, v)) (lk h m) else lk h m.
Proof.
  intros h n v m. rewrite lk_hupd. destruct (Nat.eqb n m) eqn:Enm; [|reflexivity].
  apply Nat.eqb_eq in Enm; subst m. unfold lk. destruct (hget h n); reflexivity.
Qed.
Lemma lk_hupd_prev : forall h n v m,
  lk (hupd h n (set_prev v)) m =
  if Nat.eqb n m then option_map (fun pn => (v, snd pn)) (lk h m) else lk h m.
Proof.
  intros h n v m. rewrite lk_hupd. destruct (Nat.eqb n m) eqn:Enm; [|reflexivity].
  apply Nat.eqb_eq in Enm; subst m. unfold lk. destruct (hget h n); reflexivity.
Qed.
Lemma lk_hupd_key : forall h n k m, lk (hupd h n (set_key k)) m = lk h m.
Proof.
  intros h n k m. rewrite lk_hupd. destruct (Nat.eqb n m) eqn:Enm; [|reflexivity].
  apply Nat.eqb_eq in Enm; subst m. unfold lk. destruct (hget h n); reflexivity.
Qed.
Lemma lk_hupd_both : forall h n a b m,
  lk (hupd h n (fun y => mkN a b (n_key y))) m =
  if Nat.eqb n m then option_map (fun _ => (b, a)) (lk h m) else lk h m.
Proof.
  intros h n a b m. rewrite lk_hupd. destruct (Nat.eqb n m) eqn:Enm; [|reflexivity].
  apply Nat.eqb_eq in Enm; subst m. unfold lk. destruct (hget h n); reflexivity.
Qed.
Lemma lk_hset : forall h n x m,
  lk (hset h n x) m = if Nat.eqb n m then Some (n_prev x, n_next x) else lk h m.
Proof. intros h n x m. unfold lk. rewrite hget_hset. destruct (Nat.eqb n m); reflexivity. Qed.
Lemma lk_hdel : forall h n m, lk (hdel h n) m = if Nat.eqb n m then None else lk h m.
Proof. intros h n m. unfold lk. rewrite hget_hdel. destruct (Nat.eqb n m); reflexivity. Qed.

Lemma bound_hupd : forall h n f m, hget (hupd h n f) m <> None <-> hget h m <> None.
Proof.
  intros h n f m. rewrite hget_hupd. destruct (Nat.eqb n m) eqn:Enm; [|tauto].
  apply Nat.eqb_eq in Enm; subst m. destruct (hget h n); cbn [option_map]; split; congruence.
Qed.
Lemma bound_hset : forall h n x m, hget (hset h n x) m <> None <-> (m = n \/ hget h m <> None).
Proof.
  intros h n x m. rewrite hget_hset. destruct (Nat.eqb n m) eqn:Enm.
  - apply Nat.eqb_eq in Enm. split; [auto | congruence].
  - apply Nat.eqb_neq in Enm. split; [auto | intros [He|Hb]; congruence].
Qed.
Lemma bound_hdel : forall h n m, hget (hdel h n) m <> None <-> (m <> n /\ hget h m <> None).
Proof.
  intros h n m. rewrite hget_hdel. destruct (Nat.eqb n m) eqn:Enm.
  - apply Nat.eqb_eq in Enm. split; [congruence | intros [Hne _]; congruence].
  - apply Nat.eqb_neq in Enm. split; [auto | tauto].
Qed.

Lemma nkey_hupd : forall h n f m, (forall y, n_key (f y) = n_key y) ->
  nkey (hupd h n f) m = nkey h m.
Proof.
  intros h n f m Hk. unfold Hmap_inv_proofs.nkey. rewrite hget_hupd.
  destruct (Nat.eqb n m) eqn:Enm; [|reflexivity].
  apply Nat.eqb_eq in Enm; subst m. destruct (hget h n) as [x|]; cbn [option_map]; [|reflexivity].
  rewrite Hk. reflexivity.
Qed.
Lemma nkey_hupd_key : forall h n k m,
  nkey (hupd h n (set_key k)) m = if Nat.eqb n m then option_map (fun _ => k) (nkey h m) else nkey h m.
Proof.
  intros h n k m. unfold Hmap_inv_proofs.nkey. rewrite hget_hupd.
  destruct (Nat.eqb n m) eqn:Enm; [|reflexivity].
  apply Nat.eqb_eq in Enm; subst m. destruct (hget h n) as [x|]; reflexivity.
Qed.
Lemma nkey_hset : forall h n x m,
  nkey (hset h n x) m = if Nat.eqb n m then Some (n_key x) else nkey h m.
Proof. intros h n x m. unfold Hmap_inv_proofs.nkey. rewrite hget_hset. destruct (Nat.eqb n m); reflexivity. Qed.
Lemma nkey_hdel : forall h n m, nkey (hdel h n) m = if Nat.eqb n m then None else nkey h m.
Proof. intros h n m. unfold Hmap_inv_proofs.nkey. rewrite hget_hdel. destruct (Nat.eqb n m); reflexivity. Qed.

(* ------------------------------------------------------------------ list helpers *)
Definition hdo (l : list nat) (d : option nat) : option nat := match l with [] => d | m :: _ => Some m end.
Definition lao (l : list nat) (d : option nat) : option nat := match l with [] => d | _ => Some (last l O) end.

Lemma hdo_none : forall l, hdo l None = hd_error l.
Proof. intros [|a t]; reflexivity. Qed.
Lemma lao_none : forall l, lao l None = lastopt l.
Proof. intros [|a t]; reflexivity. Qed.
Lemma lao_cons : forall a t d, lao (a :: t) d = lao t (Some a).
Proof. intros a [|b t] d; reflexivity. Qed.
Lemma lao_app : forall l1 l2 d, lao (l1 ++ l2) d = lao l2 (lao l1 d).
Proof.
  induction l1 as [|a t IH]; intros l2 d.
  - reflexivity.
  - change ((a :: t) ++ l2) with (a :: (t ++ l2)). rewrite !lao_cons. apply IH.
Qed.
Lemma hdo_app : forall l1 l2 d, hdo (l1 ++ l2) d = hdo l1 (hdo l2 d).
Proof. intros [|a t] l2 d; reflexivity. Qed.
Lemma lao_snoc : forall l a d, lao (l ++ [a]) d = Some a.
Proof. intros l a d. rewrite lao_app. reflexivity. Qed.

Lemma list_snoc_cases : forall (l : list nat), l = [] \/ exists l' a, l = l' ++ [a].
Proof.
  intros l. destruct l as [|a t]; [left; reflexivity|right].
  destruct (@exists_last _ (a :: t)) as [l' [b Hb]]; [discriminate|]. exists l', b. exact Hb.
Qed.

Lemma NoDup_app_inv : forall (l1 l2 : list nat), NoDup (l1 ++ l2) ->
  NoDup l1 /\ NoDup l2 /\ (forall x, In x l1 -> ~ In x l2).
Proof.
  induction l1 as [|a t IH]; intros l2 Hnd.
  - cbn [app] in Hnd. split; [constructor|]. split; [exact Hnd|]. intros x [].
  - change ((a :: t) ++ l2) with (a :: (t ++ l2)) in Hnd. apply NoDup_cons_iff in Hnd.
    destruct Hnd as [Hna Hnd]. destruct (IH _ Hnd) as [H1 [H2 H3]].
    split; [|split].
    + constructor; [|exact H1]. intro Hin. apply Hna. apply in_or_app. left. exact Hin.
    + exact H2.
    + intros x [Hx|Hx].
      * subst x. intro Hin. apply Hna. apply in_or_app. right. exact Hin.
      * apply H3. exact Hx.
Qed.
Lemma NoDup_app_intro : forall (l1 l2 : list nat), NoDup l1 -> NoDup l2 ->
  (forall x, In x l1 -> ~ In x l2) -> NoDup (l1 ++ l2).
Proof.
  induction l1 as [|a t IH]; intros l2 H1 H2 H3.
  - exact H2.
  - change ((a :: t) ++ l2) with (a :: (t ++ l2)). apply NoDup_cons_iff in H1. destruct H1 as [Hna H1].
    constructor.
    + intro Hin. apply in_app_or in Hin. destruct Hin as [Hin|Hin]; [exact (Hna Hin)|].
      exact (H3 a (or_introl eq_refl) Hin).
    + apply IH; [exact H1|exact H2|]. intros x Hx. apply H3. right. exact Hx.
Qed.

(* ------------------------------------------------------------------ segments *)
Lemma seg_cons : forall h prev n t nxt,
  seg h prev (n :: t) nxt <-> (lk h n = Some (prev, hdo t nxt) /\ seg h (Some n) t nxt).
Proof.
  intros h prev n t nxt. cbn [Hmap_inv_proofs.seg]. fold (hdo t nxt). split.
  - intros [x [Hx [Hp [Hn Hs]]]]. split; [|exact Hs]. rewrite (lk_intro _ _ _ Hx), Hp, Hn. reflexivity.
  - intros [Hl Hs]. destruct (lk_some _ _ _ _ Hl) as [x [Hx [Hp Hn]]]. exists x. auto.
Qed.
Lemma seg_nil : forall h prev nxt, seg h prev [] nxt <-> True.
Proof. intros; reflexivity. Qed.
Lemma seg_single : forall h prev n nxt, seg h prev [n] nxt <-> lk h n = Some (prev, nxt).
Proof. intros h prev n nxt. rewrite seg_cons, seg_nil. cbn [hdo]. tauto. Qed.

Lemma seg_app : forall h l1 l2 prev nxt,
  seg h prev (l1 ++ l2) nxt <-> (seg h prev l1 (hdo l2 nxt) /\ seg h (lao l1 prev) l2 nxt).
Proof.
  intros h. induction l1 as [|a t IH]; intros l2 prev nxt.
  - cbn [app lao]. rewrite seg_nil. tauto.
  - change ((a :: t) ++ l2) with (a :: (t ++ l2)). rewrite !seg_cons, IH, hdo_app, lao_cons. tauto.
Qed.

Lemma seg_ext : forall h h' l prev nxt, (forall j, In j l -> lk h' j = lk h j) ->
  seg h prev l nxt -> seg h' prev l nxt.
Proof.
  intros h h'. induction l as [|a t IH]; intros prev nxt Hext Hs.
  - exact I.
  - rewrite seg_cons in *. destruct Hs as [Hl Hs]. split.
    + rewrite Hext; [exact Hl|left; reflexivity].
    + apply IH; [|exact Hs]. intros j Hj. apply Hext. right. exact Hj.
Qed.

(* the prev field of the first node changes *)
Lemma seg_chg_prev : forall h h' a t prev prev' nxt,
  seg h prev (a :: t) nxt -> ~ In a t ->
  lk h' a = option_map (fun pn => (prev', snd pn)) (lk h a) ->
  (forall j, In j t -> lk h' j = lk h j) ->
  seg h' prev' (a :: t) nxt.
Proof.
  intros h h' a t prev prev' nxt Hs Hna Ha Hext. rewrite seg_cons in *. destruct Hs as [Hl Hs]. split.
  - rewrite Ha, Hl. reflexivity.
  - apply (seg_ext h); assumption.
Qed.

(* the next field of the last node changes *)
Lemma seg_chg_next : forall h h' t q prev nxt nxt',
  seg h prev (t ++ [q]) nxt -> ~ In q t ->
  lk h' q = option_map (fun pn => (fst pn, nxt')) (lk h q) ->
  (forall j, In j t -> lk h' j = lk h j) ->
  seg h' prev (t ++ [q]) nxt'.
Proof.
  intros h h' t q prev nxt nxt' Hs Hnq Hq Hext. rewrite seg_app in *. destruct Hs as [Hs1 Hs2]. split.
  - cbn [hdo] in *. apply (seg_ext h); assumption.
  - rewrite seg_single in *. rewrite Hq, Hs2. reflexivity.
Qed.

Lemma seg_bound : forall h l prev nxt j, seg h prev l nxt -> In j l -> hget h j <> None.
Proof.
  intros h. induction l as [|a t IH]; intros prev nxt j Hs Hj.
  - destruct Hj.
  - rewrite seg_cons in Hs. destruct Hs as [Hl Hs]. destruct Hj as [Hj|Hj].
    + subst j. destruct (lk_some _ _ _ _ Hl) as [x [Hx _]]. congruence.
    + exact (IH _ _ _ Hs Hj).
Qed.


Lemma hd_error_app_cons : forall (l1 : list nat) a l2, hd_error (l1 ++ a :: l2) = hdo l1 (Some a).
Proof. intros [|b t] a l2; reflexivity. Qed.

Lemma in_remove_mid : forall (l1 l2 : list nat) n j, NoDup (l1 ++ n :: l2) ->
  (In j (l1 ++ l2) <-> (j <> n /\ In j (l1 ++ n :: l2))).
Proof.
  intros l1 l2 n j Hnd. apply NoDup_remove_2 in Hnd. rewrite !in_app_iff in *. cbn [In]. split.
  - intros Hj. split; [|tauto]. intro He. subst j. exact (Hnd Hj).
  - intros [Hne [Hj|[Hj|Hj]]]; [tauto|congruence|tauto].
Qed.

(* ------------------------------------------------------------------ records *)
Ltac hproj := cbn [Hmap.h_count Hmap.h_mask Hmap.h_bkts Hmap.h_heap Hmap.h_fresh Hmap.h_first Hmap.h_last
                   Hmap.h_max Hmap.h_ikp Hmap.h_fault Hmap.h_log
                   Hmap.with_heap Hmap.with_first Hmap.with_last Hmap.with_fresh Hmap.with_bkts] in *.

Lemma frame_refl : forall m, frame m m.
Proof. intros m. unfold Hmap_inv_proofs.frame. repeat split. Qed.
Lemma frame_trans : forall m1 m2 m3, frame m1 m2 -> frame m2 m3 -> frame m1 m3.
Proof.
  intros m1 m2 m3 H12 H23. unfold Hmap_inv_proofs.frame in *.
  destruct H12 as (A1 & A2 & A3 & A4 & A5 & A6 & A7 & A8).
  destruct H23 as (B1 & B2 & B3 & B4 & B5 & B6 & B7 & B8).
  repeat split; congruence.
Qed.
Lemma frame_with_heap : forall m h, frame m (with_heap m h).
Proof. intros m h. unfold Hmap_inv_proofs.frame. repeat split. Qed.
Lemma frame_with_first : forall m f, frame m (with_first m f).
Proof. intros m f. unfold Hmap_inv_proofs.frame. repeat split. Qed.
Lemma frame_with_last : forall m l, frame m (with_last m l).
Proof. intros m l. unfold Hmap_inv_proofs.frame. repeat split. Qed.

Lemma node_upd_bound : forall m n f, hget (h_heap m) n <> None ->
  node_upd m n f = with_heap m (hupd (h_heap m) n f).
Proof.
  intros m n f Hb. unfold Hmap.node_upd, hupd. destruct (hget (h_heap m) n) as [x|]; [reflexivity|congruence].
Qed.

Lemma eqb_ff : forall a b, a <> b -> Nat.eqb a b = false.
Proof. intros a b Hne. apply Nat.eqb_neq. exact Hne. Qed.

Ltac inl := repeat (rewrite in_app_iff || (progress (cbn [In]))).
(* goals  a <> b  /  ~ In a l  from the non-membership facts in the context *)
Ltac nin :=
  let H := fresh "Hnin" in
  intro H; subst;
  first
  [ match goal with
    | Hn : ~ In _ _ |- _ => solve [apply Hn; inl; tauto]
    | Hn : _ <> _ |- _ => solve [apply Hn; reflexivity]
    end
  | rewrite ?in_app_iff in *; cbn [In] in *; rewrite ?in_app_iff in *; solve [tauto | intuition congruence] ].
Ltac eqbs :=
  repeat match goal with
  | |- context [Nat.eqb ?a ?a] => rewrite (Nat.eqb_refl a)
  | |- context [Nat.eqb ?a ?b] => rewrite (eqb_ff a b) by nin
  end.

(* ------------------------------------------------------------------ unlink_mid *)
Lemma unlink_mid_ok : forall m l1 n nx l2,
  h_first m = hd_error (l1 ++ n :: nx :: l2) ->
  seg (h_heap m) None (l1 ++ n :: nx :: l2) None ->
  NoDup (l1 ++ n :: nx :: l2) ->
  let m' := unlink_mid K m (lao l1 None) nx in
  h_first m' = hd_error (l1 ++ nx :: l2) /\ h_last m' = h_last m /\ frame m m' /\
  seg (h_heap m') None (l1 ++ nx :: l2) None /\
  (forall j, hget (h_heap m') j <> None <-> hget (h_heap m) j <> None) /\
  (forall j, nkey (h_heap m') j = nkey (h_heap m) j).
Proof.
  intros m l1 n nx l2 Hf Hs Hnd m'.
  assert (Hbnx : hget (h_heap m) nx <> None).
  { apply (seg_bound _ _ _ _ nx Hs). rewrite in_app_iff. cbn [In]. tauto. }
  pose proof (NoDup_remove_2 _ _ _ Hnd) as Hnn.
  pose proof (NoDup_remove_1 _ _ _ Hnd) as Hnd1.
  pose proof (NoDup_remove_2 _ _ _ Hnd1) as Hnnx.
  apply seg_app in Hs. destruct Hs as [Hs1 Hs2]. cbn [hdo] in Hs1.
  apply seg_cons in Hs2. destruct Hs2 as [Hln Hs2].
  destruct (list_snoc_cases l1) as [El1 | [l1' [p El1]]]; subst l1.
  - (* n is the first node *)
    subst m'. cbn [lao app] in *. unfold Hmap.unlink_mid.
    rewrite node_upd_bound by (hproj; exact Hbnx). hproj.
    split; [reflexivity|]. split; [reflexivity|]. split.
    { eapply frame_trans; [apply frame_with_first|apply frame_with_heap]. }
    split.
    { apply (seg_chg_prev (h_heap m) _ nx l2 (Some n) None None Hs2).
      - nin.
      - rewrite lk_hupd_prev. eqbs. reflexivity.
      - intros j Hj. rewrite lk_hupd_prev. eqbs. reflexivity. }
    split.
    { intros j. apply bound_hupd. }
    { intros j. apply nkey_hupd. reflexivity. }
  - (* n has the predecessor p *)
    subst m'. rewrite lao_snoc in *. unfold Hmap.unlink_mid.
    assert (Hbp : hget (h_heap m) p <> None).
    { apply (seg_bound _ _ _ _ p Hs1). rewrite in_app_iff. cbn [In]. tauto. }
    rewrite (node_upd_bound m p) by exact Hbp.
    rewrite node_upd_bound by (hproj; apply bound_hupd; exact Hbnx). hproj.
    assert (Hnp' : ~ In p (l1' ++ n :: nx :: l2)).
    { rewrite <- app_assoc in Hnd. apply NoDup_remove_2 in Hnd. exact Hnd. }
    assert (Hnp : ~ In p l1') by nin.
    split.
    { rewrite Hf. rewrite !hd_error_app_cons, !hdo_app. reflexivity. }
    split; [reflexivity|]. split.
    { eapply frame_trans; apply frame_with_heap. }
    split.
    { apply seg_app. rewrite lao_snoc. cbn [hdo]. split.
      - apply (seg_chg_next (h_heap m) _ l1' p None (Some n) (Some nx) Hs1 Hnp).
        + rewrite lk_hupd_prev, lk_hupd_next. eqbs. reflexivity.
        + intros j Hj. rewrite lk_hupd_prev, lk_hupd_next. eqbs. reflexivity.
      - apply (seg_chg_prev (h_heap m) _ nx l2 (Some n) (Some p) None Hs2).
        + nin.
        + rewrite lk_hupd_prev, lk_hupd_next. eqbs. reflexivity.
        + intros j Hj. rewrite lk_hupd_prev, lk_hupd_next. eqbs. reflexivity. }
    split.
    { intros j. rewrite !bound_hupd. tauto. }
    { intros j. rewrite !nkey_hupd by reflexivity. reflexivity. }
Qed.


Lemma lastopt_remove_mid : forall l1 n nx l2, lastopt (l1 ++ n :: nx :: l2) = lastopt (l1 ++ nx :: l2).
Proof. intros l1 n nx l2. rewrite <- !lao_none, !lao_app, !lao_cons. reflexivity. Qed.

(* ------------------------------------------------------------------ lru_remove *)
Lemma lru_remove_ok : lru_remove_stmt K.
Proof.
  unfold lru_remove_stmt. intros m n l1 l2 Hd. cbv zeta.
  destruct Hd as (Hf & Hl & Hs & Hnd & Hdom).
  pose proof Hs as Hs0. apply seg_app in Hs0. destruct Hs0 as [Hs1 Hs2].
  apply seg_cons in Hs2. destruct Hs2 as [Hln Hs2].
  destruct (lk_some _ _ _ _ Hln) as (x & Hx & Hxp & Hxn).
  pose proof (NoDup_remove_2 _ _ _ Hnd) as Hnn.
  pose proof (NoDup_remove_1 _ _ _ Hnd) as Hnd1.
  unfold Hmap.lru_remove. rewrite Hx, Hxn, Hxp.
  destruct l2 as [|nx l2']; cbn [hdo].
  - (* n is the last node *)
    rewrite app_nil_r in *. cbn [hdo] in Hs1.
    destruct (list_snoc_cases l1) as [El1 | [l1' [p El1]]]; subst l1.
    + (* ... and the only one *)
      cbn [lao app] in *. unfold Hmap_inv_proofs.dll. hproj. split.
      { split; [reflexivity|]. split; [reflexivity|]. split; [exact I|]. split; [constructor|].
        intros j. rewrite bound_hdel, <- Hdom. cbn [In]. split; [tauto|]. intros [Hne [He|[]]]. congruence. }
      split.
      { eapply frame_trans; [apply frame_with_first|].
        eapply frame_trans; [apply frame_with_last|apply frame_with_heap]. }
      { intros j Hj. rewrite nkey_hdel. eqbs. reflexivity. }
    + rewrite lao_snoc in *.
      assert (Hbp : hget (h_heap m) p <> None).
      { apply Hdom. rewrite !in_app_iff. cbn [In]. tauto. }
      rewrite (node_upd_bound m p) by exact Hbp. unfold Hmap_inv_proofs.dll. hproj.
      assert (Hnp : ~ In p l1').
      { apply NoDup_remove_2 in Hnd1. rewrite app_nil_r in Hnd1. exact Hnd1. }
      split.
      { split.
        { rewrite Hf, <- !hdo_none, !hdo_app. reflexivity. }
        split.
        { rewrite <- lao_none, lao_snoc. reflexivity. }
        split.
        { apply (seg_chg_next (h_heap m) _ l1' p None (Some n) None Hs1 Hnp).
          - rewrite lk_hdel, lk_hupd_next. eqbs. reflexivity.
          - intros j Hj. rewrite lk_hdel, lk_hupd_next. eqbs. reflexivity. }
        split; [exact Hnd1|].
        intros j. rewrite bound_hdel, bound_hupd, <- Hdom.
        rewrite <- (app_nil_r (l1' ++ [p])) at 1. apply in_remove_mid. exact Hnd. }
      split.
      { eapply frame_trans; [apply frame_with_heap|].
        eapply frame_trans; [apply frame_with_last|apply frame_with_heap]. }
      { intros j Hj. rewrite nkey_hdel, nkey_hupd by reflexivity. eqbs. reflexivity. }
  - (* n has the successor nx *)
    destruct (unlink_mid_ok m l1 n nx l2' Hf Hs Hnd) as (Hf2 & Hl2 & Hfr2 & Hsg2 & Hb2 & Hk2).
    set (m2 := unlink_mid K m (lao l1 None) nx) in *. unfold Hmap_inv_proofs.dll. hproj. split.
    { split; [exact Hf2|]. split.
      { rewrite Hl2, Hl. apply lastopt_remove_mid. }
      split.
      { apply (seg_ext (h_heap m2)); [|exact Hsg2]. intros j Hj. rewrite lk_hdel. eqbs. reflexivity. }
      split; [exact Hnd1|].
      intros j. rewrite bound_hdel, Hb2, <- Hdom. apply in_remove_mid. exact Hnd. }
    split.
    { eapply frame_trans; [exact Hfr2|apply frame_with_heap]. }
    { intros j Hj. rewrite nkey_hdel, Hk2. eqbs. reflexivity. }
Qed.


Lemma lk_bound : forall h n, hget h n <> None -> exists pn, lk h n = Some pn.
Proof.
  intros h n Hb. unfold lk. destruct (hget h n) as [x|]; [|congruence]. eexists. reflexivity.
Qed.

Lemma NoDup_move_last : forall (l1 l2 : list nat) n, NoDup (l1 ++ n :: l2) -> NoDup (l1 ++ l2 ++ [n]).
Proof.
  intros l1 l2 n Hnd. pose proof (NoDup_remove_1 _ _ _ Hnd) as H1. pose proof (NoDup_remove_2 _ _ _ Hnd) as H2.
  rewrite app_assoc. apply NoDup_app_intro; [exact H1|repeat constructor; intros []|].
  intros x Hx [He|[]]. subst x. exact (H2 Hx).
Qed.

(* ------------------------------------------------------------------ lru_update, entry already in the list *)
Lemma lru_touch_ok : lru_touch_stmt K.
Proof.
  unfold lru_touch_stmt. intros m bi ei e n l1 l2 Hnth Hlru Hd. cbv zeta.
  destruct Hd as (Hf & Hl & Hs & Hnd & Hdom).
  pose proof Hs as Hs0. apply seg_app in Hs0. destruct Hs0 as [Hs1 Hs2].
  apply seg_cons in Hs2. destruct Hs2 as [Hln Hs2].
  destruct (lk_some _ _ _ _ Hln) as (x & Hx & Hxp & Hxn).
  pose proof (NoDup_remove_2 _ _ _ Hnd) as Hnn.
  pose proof (NoDup_remove_1 _ _ _ Hnd) as Hnd1.
  assert (Hbn : hget (h_heap m) n <> None) by congruence.
  assert (Hkn : nkey (h_heap m) n = Some (n_key x)).
  { unfold Hmap_inv_proofs.nkey. rewrite Hx. reflexivity. }
  unfold Hmap.lru_update. rewrite Hnth, Hlru, Hx, Hxn, Hxp. cbv zeta.
  rewrite (node_upd_bound m n) by exact Hbn.
  set (h1 := hupd (h_heap m) n (set_key (e_key K e))).
  assert (Hs1' : seg h1 None (l1 ++ n :: l2) None).
  { apply (seg_ext (h_heap m)); [|exact Hs]. intros j Hj. apply lk_hupd_key. }
  destruct l2 as [|nx l2']; cbn [hdo].
  - (* n is already the last node *)
    cbn [app]. unfold Hmap_inv_proofs.dll. hproj. split.
    { split; [exact Hf|]. split; [exact Hl|]. split; [exact Hs1'|]. split; [exact Hnd|].
      intros j. unfold h1. rewrite bound_hupd. apply Hdom. }
    split; [apply frame_with_heap|]. split.
    { unfold h1. rewrite nkey_hupd_key, Hkn. eqbs. reflexivity. }
    { intros j Hj. unfold h1. rewrite nkey_hupd_key. eqbs. reflexivity. }
  - (* n has the successor nx: unlink, then append at the tail *)
    destruct (unlink_mid_ok (with_heap m h1) l1 n nx l2' Hf Hs1' Hnd) as (Hf2 & Hl2 & Hfr2 & Hsg2 & Hb2 & Hk2).
    set (m2 := unlink_mid K (with_heap m h1) (lao l1 None) nx) in *. clearbody m2. hproj.
    destruct (@exists_last _ (nx :: l2')) as (l2'' & q & Hq); [discriminate|].
    assert (Hf2' : h_first m2 = hd_error (l1 ++ (nx :: l2') ++ [n])).
    { rewrite Hf2. cbn [app]. rewrite !hd_error_app_cons. reflexivity. }
    rewrite Hq in *. clear Hq nx l2' Hf2.
    assert (Hlast2 : h_last m2 = Some q).
    { rewrite Hl2, Hl, <- lao_none, lao_app, lao_cons, lao_snoc. reflexivity. }
    assert (Hnq : ~ In q (l1 ++ l2'')).
    { rewrite app_assoc in Hnd1. apply NoDup_remove_2 in Hnd1. rewrite app_nil_r in Hnd1. exact Hnd1. }
    assert (Hbj : forall j, hget (h_heap m2) j <> None <-> In j (l1 ++ n :: l2'' ++ [q])).
    { intros j. rewrite Hb2. unfold h1. rewrite bound_hupd. symmetry. apply Hdom. }
    rewrite Hlast2. unfold Hmap.opt_node_upd.
    rewrite (node_upd_bound m2 q) by (apply (proj2 (Hbj q)); inl; tauto).
    hproj. rewrite Hlast2.
    rewrite node_upd_bound by (hproj; apply bound_hupd; apply (proj2 (Hbj n)); inl; tauto).
    unfold Hmap_inv_proofs.dll. hproj.
    set (h3 := hupd (h_heap m2) q (set_next (Some n))).
    set (h4 := hupd h3 n (fun y => mkN None (Some q) (n_key y))).
    split.
    { split; [exact Hf2'|]. split.
      { rewrite <- lao_none, !app_assoc, lao_snoc. reflexivity. }
      split.
      { rewrite !app_assoc. apply seg_app. rewrite lao_snoc. cbn [hdo]. split.
        - rewrite app_assoc in Hsg2.
          apply (seg_chg_next (h_heap m2) h4 (l1 ++ l2'') q None None (Some n) Hsg2 Hnq).
          + unfold h4, h3. rewrite lk_hupd_both, lk_hupd_next. eqbs. reflexivity.
          + intros j Hj. unfold h4, h3. rewrite lk_hupd_both, lk_hupd_next. eqbs. reflexivity.
        - apply seg_single. unfold h4, h3. rewrite lk_hupd_both, lk_hupd_next. eqbs.
          destruct (lk_bound (h_heap m2) n) as [pn Hpn].
          { apply (proj2 (Hbj n)). inl. tauto. }
          rewrite Hpn. reflexivity. }
      split; [apply NoDup_move_last; exact Hnd|].
      intros j. unfold h4, h3. rewrite !bound_hupd, Hbj. inl. tauto. }
    split.
    { eapply frame_trans; [apply frame_with_heap|]. eapply frame_trans; [exact Hfr2|].
      eapply frame_trans; [apply frame_with_heap|]. eapply frame_trans; [apply frame_with_heap|].
      apply frame_with_last. }
    split.
    { unfold h4, h3. rewrite !nkey_hupd by reflexivity. rewrite Hk2. unfold h1.
      rewrite nkey_hupd_key, Hkn. eqbs. reflexivity. }
    { intros j Hj. unfold h4, h3. rewrite !nkey_hupd by reflexivity. rewrite Hk2. unfold h1.
      rewrite nkey_hupd_key. eqbs. reflexivity. }
Qed.


(* ------------------------------------------------------------------ lru_update, entry not yet in the list *)
Lemma lru_fresh_ok : lru_fresh_stmt K.
Proof.
  unfold lru_fresh_stmt. intros m bi ei e L Hnth Hlru Hd Hlt. cbv zeta.
  destruct Hd as (Hf & Hl & Hs & Hnd & Hdom).
  assert (Hnn : ~ In (h_fresh K m) L).
  { intro Hin. apply Hlt in Hin. lia. }
  unfold Hmap.lru_update. rewrite Hnth, Hlru. cbv zeta. hproj. rewrite Hl.
  set (n := h_fresh K m) in *.
  destruct (list_snoc_cases L) as [EL | [L' [q EL]]]; subst L.
  - (* empty list *)
    cbn [lastopt app]. unfold Hmap_inv_proofs.dll. hproj.
    split.
    { split; [reflexivity|]. split; [reflexivity|]. split.
      { apply seg_single. rewrite lk_hset. eqbs. reflexivity. }
      split.
      { repeat constructor. intros []. }
      intros j. rewrite bound_hset, <- Hdom. cbn [In]. split; intros [Hj|Hj]; auto. }
    repeat (split; [reflexivity|]). split.
    { rewrite nkey_hset. eqbs. reflexivity. }
    { intros j Hj. rewrite nkey_hset. eqbs. reflexivity. }
  - (* the old last node is q *)
    rewrite <- lao_none, lao_snoc.
    assert (Hbq : hget (h_heap m) q <> None).
    { apply Hdom. inl. tauto. }
    rewrite node_upd_bound by (hproj; exact Hbq).
    unfold Hmap_inv_proofs.dll. hproj.
    assert (Hnq : ~ In q L').
    { apply NoDup_remove_2 in Hnd. rewrite app_nil_r in Hnd. exact Hnd. }
    split.
    { split.
      { rewrite Hf, <- !hdo_none, !hdo_app. reflexivity. }
      split.
      { rewrite <- lao_none, lao_snoc. reflexivity. }
      split.
      { apply seg_app. rewrite lao_snoc. cbn [hdo]. split.
        - apply (seg_chg_next (h_heap m) _ L' q None None (Some n) Hs Hnq).
          + rewrite lk_hset, lk_hupd_next. eqbs. reflexivity.
          + intros j Hj. rewrite lk_hset, lk_hupd_next. eqbs. reflexivity.
        - apply seg_single. rewrite lk_hset. eqbs. reflexivity. }
      split.
      { apply NoDup_app_intro; [exact Hnd|repeat constructor; intros []|].
        intros j Hj [He|[]]. subst j. exact (Hnn Hj). }
      intros j. rewrite bound_hset, bound_hupd, <- Hdom. inl. split; intros Hj; intuition auto. }
    repeat (split; [reflexivity|]). split.
    { rewrite nkey_hset. eqbs. reflexivity. }
    { intros j Hj. rewrite nkey_hset, nkey_hupd by reflexivity. eqbs. reflexivity. }
Qed.


(* ------------------------------------------------------------------ free_chain *)
Lemma free_chain_S : forall f m n,
  free_chain K (S f) m (Some n) =
  match hget (h_heap m) n with
  | Some x => free_chain K f (with_heap m (hdel (h_heap m) n)) (n_next x)
  | None => set_fault K m
  end.
Proof. reflexivity. Qed.
Lemma free_chain_none : forall f m, free_chain K f m None = m.
Proof. intros [|f] m; reflexivity. Qed.

Lemma free_chain_gen : forall L fuel m prev,
  seg (h_heap m) prev L None -> NoDup L -> (length L < fuel)%nat ->
  let m' := free_chain K fuel m (hd_error L) in
  frame m m' /\ h_first m' = h_first m /\ h_last m' = h_last m /\
  (forall j, In j L -> hget (h_heap m') j = None) /\
  (forall j, ~ In j L -> hget (h_heap m') j = hget (h_heap m) j).
Proof.
  induction L as [|a t IH]; intros fuel m prev Hs Hnd Hlen; cbv zeta.
  - cbn [hd_error]. rewrite free_chain_none. split; [apply frame_refl|].
    split; [reflexivity|]. split; [reflexivity|]. split; [intros j []|reflexivity].
  - destruct fuel as [|f]; [cbn [length] in Hlen; lia|].
    cbn [hd_error]. rewrite free_chain_S.
    apply seg_cons in Hs. destruct Hs as [Hla Hs].
    destruct (lk_some _ _ _ _ Hla) as (x & Hx & Hxp & Hxn).
    rewrite Hx, Hxn, hdo_none.
    apply NoDup_cons_iff in Hnd. destruct Hnd as [Hna Hnd].
    assert (Hs1 : seg (h_heap (with_heap m (hdel (h_heap m) a))) (Some a) t None).
    { hproj. apply (seg_ext (h_heap m)); [|exact Hs]. intros j Hj. rewrite lk_hdel. eqbs. reflexivity. }
    assert (Hlen1 : (length t < f)%nat) by (cbn [length] in Hlen; lia).
    destruct (IH f _ (Some a) Hs1 Hnd Hlen1) as (Hfr & Hf1 & Hl1 & Hin & Hout).
    hproj. split.
    { eapply frame_trans; [apply frame_with_heap|exact Hfr]. }
    split; [exact Hf1|]. split; [exact Hl1|]. split.
    + intros j [Hj|Hj].
      * subst j. rewrite (Hout a Hna). apply hget_hdel_eq.
      * apply Hin. exact Hj.
    + intros j Hj. cbn [In] in Hj. rewrite Hout by tauto. apply hget_hdel_neq. tauto.
Qed.

Lemma free_chain_ok : free_chain_stmt K.
Proof.
  unfold free_chain_stmt. intros m L fuel Hd Hlen. cbv zeta.
  destruct Hd as (Hf & Hl & Hs & Hnd & Hdom). rewrite Hf.
  destruct (free_chain_gen L fuel m None Hs Hnd Hlen) as (Hfr & Hf1 & Hl1 & Hin & Hout).
  split; [exact Hfr|]. split; [|split; [rewrite Hf1; exact Hf|exact Hl1]].
  intros n. destruct (in_dec Nat.eq_dec n L) as [Hn|Hn].
  - apply Hin. exact Hn.
  - rewrite (Hout n Hn). destruct (hget (h_heap m) n) as [x|] eqn:Ex; [|reflexivity].
    exfalso. apply Hn. apply Hdom. congruence.
Qed.

(* ------------------------------------------------------------------ dll_length *)
Lemma dll_length : dll_length_stmt K.
Proof.
  unfold dll_length_stmt. intros m L Hd. destruct Hd as (Hf & Hl & Hs & Hnd & Hdom).
  rewrite <- (map_length fst (h_heap m)). apply NoDup_incl_length; [exact Hnd|].
  intros j Hj. apply hget_in_fst. apply Hdom. exact Hj.
Qed.

(* ------------------------------------------------------------------ lru_walk *)
Lemma lru_walk_S : forall f h prev n,
  lru_walk K (S f) h prev (Some n) =
  match hget h n with
  | Some x =>
    let '(ks, ok, lastv) := lru_walk K f h (Some n) (n_next x) in
    (n_key x :: ks, ok && (match n_prev x, prev with
                          | Some a, Some b => Nat.eqb a b | None, None => true | _, _ => false end), lastv)
  | None => ([], false, prev)
  end.
Proof. reflexivity. Qed.
Lemma lru_walk_none : forall f h prev, lru_walk K f h prev None = ([], true, prev).
Proof. intros [|f] h prev; reflexivity. Qed.

Lemma lru_walk_gen : forall h L fuel prev, seg h prev L None -> (length L < fuel)%nat ->
  exists ks, lru_walk K fuel h prev (hd_error L) = (ks, true, lao L prev) /\
             Forall2 (fun n k => nkey h n = Some k) L ks.
Proof.
  intros h. induction L as [|a t IH]; intros fuel prev Hs Hlen.
  - exists []. cbn [hd_error lao]. rewrite lru_walk_none. split; [reflexivity|constructor].
  - destruct fuel as [|f]; [cbn [length] in Hlen; lia|].
    cbn [hd_error]. rewrite lru_walk_S.
    apply seg_cons in Hs. destruct Hs as [Hla Hs].
    destruct (lk_some _ _ _ _ Hla) as (x & Hx & Hxp & Hxn).
    assert (Hlen1 : (length t < f)%nat) by (cbn [length] in Hlen; lia).
    destruct (IH f (Some a) Hs Hlen1) as (ks & Hw & Hks).
    exists (n_key x :: ks). rewrite Hx, Hxn, hdo_none, Hw, Hxp, lao_cons. split.
    + destruct prev as [b|]; [rewrite Nat.eqb_refl|]; reflexivity.
    + constructor; [|exact Hks]. unfold Hmap_inv_proofs.nkey. rewrite Hx. reflexivity.
Qed.

Lemma lru_walk_ok : lru_walk_stmt K.
Proof.
  unfold lru_walk_stmt. intros m L fuel Hd Hlen. destruct Hd as (Hf & Hl & Hs & Hnd & Hdom).
  rewrite Hf, <- lao_none. apply lru_walk_gen; assumption.
Qed.

End DllProofs.
