(* C18 - hash map: the simulation between the executable model (Hmap.v) and the association-list + recency-list
   specification, and the theorems hmap_refines_map, dll_wf, lru_victims_oldest, freed_exactly_once.
   Uses the bucket library (Hmap_bkt_proofs.v) and the LRU list library (Hmap_dll_proofs.v). *)
Require Import ZArith List Bool Lia Permutation.
Require Import IW.Gen.Facts IW.UT.Hmap IW.UT.Hmap_inv_proofs IW.UT.Hmap_bkt_proofs IW.UT.Hmap_dll_proofs.
Import ListNotations.
Local Open Scope Z_scope.

(* ------------------------------------------------------------------ association / recency lists *)
Section AL.
Variable K : Type.
Variable keq : K -> K -> bool.
Hypothesis keq_spec : forall a b, keq a b = true <-> a = b.

Lemma keq_refl : forall a, keq a a = true.
Proof. intro a. apply keq_spec. reflexivity. Qed.
Lemma keq_false : forall a b, keq a b = false <-> a <> b.
Proof.
  intros a b. split.
  - intros Hf Heq. apply keq_spec in Heq. congruence.
  - intro Hne. destruct (keq a b) eqn:E; [apply keq_spec in E; contradiction | reflexivity].
Qed.

Notation al_find := (al_find K keq).
Notation al_remove := (al_remove K keq).
Notation rec_remove := (rec_remove K keq).

Lemma al_remove_filter : forall k al, al_remove k al = filter (fun p => negb (keq k (fst p))) al.
Proof.
  intros k al. induction al as [|[k' v] t IH]; simpl; [reflexivity|].
  destruct (keq k k'); simpl; rewrite IH; reflexivity.
Qed.

Lemma filter_perm : forall (A : Type) (f : A -> bool) l l', Permutation l l' -> Permutation (filter f l) (filter f l').
Proof.
  intros A f l l' HP. induction HP; simpl.
  - constructor.
  - destruct (f x); [constructor|]; assumption.
  - destruct (f x), (f y); first [apply perm_swap | apply Permutation_refl].
  - eapply Permutation_trans; eassumption.
Qed.

Lemma al_remove_perm : forall k al al', Permutation al al' -> Permutation (al_remove k al) (al_remove k al').
Proof. intros. rewrite !al_remove_filter. apply filter_perm. assumption. Qed.

Lemma al_find_none : forall k al, ~ In k (map fst al) -> al_find k al = None.
Proof.
  intros k al. induction al as [|[k' v] t IH]; simpl; intro Hn; [reflexivity|].
  destruct (keq k k') eqn:E.
  - apply keq_spec in E. subst. exfalso. apply Hn. left. reflexivity.
  - apply IH. intro Hi. apply Hn. right. assumption.
Qed.

Lemma al_find_in : forall k v al, NoDup (map fst al) -> In (k, v) al -> al_find k al = Some v.
Proof.
  intros k v al. induction al as [|[k' v'] t IH]; simpl; intros Hnd Hin; [contradiction|].
  inversion Hnd as [|x l Hni Hnd']; subst.
  destruct Hin as [Heq|Hin].
  - inversion Heq; subst. rewrite keq_refl. reflexivity.
  - destruct (keq k k') eqn:E.
    + apply keq_spec in E. subst. exfalso. apply Hni. change k' with (fst (k', v)). apply in_map. assumption.
    + apply IH; assumption.
Qed.

Lemma al_find_some_in : forall k v al, al_find k al = Some v -> In (k, v) al.
Proof.
  intros k v al. induction al as [|[k' v'] t IH]; simpl; intro H; [discriminate|].
  destruct (keq k k') eqn:E.
  - apply keq_spec in E. subst. inversion H; subst. left. reflexivity.
  - right. apply IH. assumption.
Qed.

Lemma al_find_perm : forall k al al', Permutation al al' -> NoDup (map fst al) -> al_find k al = al_find k al'.
Proof.
  intros k al al' HP Hnd.
  assert (Hnd' : NoDup (map fst al')) by (eapply Permutation_NoDup; [apply Permutation_map; eassumption | assumption]).
  destruct (al_find k al) eqn:E1.
  - symmetry. apply al_find_in; [assumption|]. eapply Permutation_in; [eassumption|]. apply al_find_some_in. assumption.
  - destruct (al_find k al') eqn:E2; [|reflexivity].
    apply al_find_some_in in E2. apply Permutation_sym in HP. eapply Permutation_in in E2; [|eassumption].
    apply al_find_in in E2; [|assumption]. congruence.
Qed.

Lemma al_remove_notin : forall k al, ~ In k (map fst al) -> al_remove k al = al.
Proof.
  intros k al. induction al as [|[k' v] t IH]; simpl; intro Hn; [reflexivity|].
  destruct (keq k k') eqn:E.
  - apply keq_spec in E. subst. exfalso. apply Hn. left. reflexivity.
  - f_equal. apply IH. intro Hi. apply Hn. right. assumption.
Qed.

Lemma al_remove_keys : forall k al x, In x (map fst (al_remove k al)) <-> (In x (map fst al) /\ x <> k).
Proof.
  intros k al x. induction al as [|[k' v] t IH]; simpl.
  - tauto.
  - destruct (keq k k') eqn:E.
    + apply keq_spec in E. subst. rewrite IH. split; [tauto|]. intros [[H|H] Hne]; [congruence|tauto].
    + apply keq_false in E. simpl. rewrite IH. split.
      * intros [H|H]; [subst; split; [left; reflexivity | congruence] | tauto].
      * tauto.
Qed.

Lemma al_remove_nodup : forall k al, NoDup (map fst al) -> NoDup (map fst (al_remove k al)).
Proof.
  intros k al. induction al as [|[k' v] t IH]; simpl; intro Hnd; [constructor|].
  inversion Hnd as [|x l Hni Hnd']; subst.
  destruct (keq k k'); [apply IH; assumption|].
  simpl. constructor; [|apply IH; assumption].
  intro Hi. apply al_remove_keys in Hi. tauto.
Qed.

Lemma al_remove_length_in : forall k v al, NoDup (map fst al) -> In (k, v) al ->
  length al = S (length (al_remove k al)).
Proof.
  intros k v al. induction al as [|[k' v'] t IH]; simpl; intros Hnd Hin; [contradiction|].
  inversion Hnd as [|x l Hni Hnd']; subst.
  destruct Hin as [Heq|Hin].
  - inversion Heq; subst. rewrite keq_refl. f_equal. rewrite al_remove_notin; [reflexivity|assumption].
  - destruct (keq k k') eqn:E.
    + apply keq_spec in E. subst. exfalso. apply Hni. change k' with (fst (k', v)). apply in_map. assumption.
    + simpl. f_equal. apply IH; assumption.
Qed.

(* recency lists *)
Lemma rec_remove_notin : forall k r, ~ In k r -> rec_remove k r = r.
Proof.
  intros k r. unfold Hmap.rec_remove. induction r as [|x t IH]; simpl; intro Hn; [reflexivity|].
  destruct (keq k x) eqn:E.
  - apply keq_spec in E. subst. exfalso. apply Hn. left. reflexivity.
  - simpl. f_equal. apply IH. intro Hi. apply Hn. right. assumption.
Qed.

Lemma rec_remove_app : forall k r1 r2, rec_remove k (r1 ++ r2) = rec_remove k r1 ++ rec_remove k r2.
Proof. intros. unfold Hmap.rec_remove. apply filter_app. Qed.

Lemma rec_remove_mid : forall k r1 r2, ~ In k r1 -> ~ In k r2 -> rec_remove k (r1 ++ k :: r2) = r1 ++ r2.
Proof.
  intros k r1 r2 H1 H2. rewrite rec_remove_app. rewrite (rec_remove_notin k r1 H1).
  unfold Hmap.rec_remove at 1. simpl. rewrite keq_refl. simpl.
  fold (rec_remove k r2). rewrite (rec_remove_notin k r2 H2). reflexivity.
Qed.

Lemma rec_remove_in : forall k r x, In x (rec_remove k r) <-> In x r /\ x <> k.
Proof.
  intros k r x. unfold Hmap.rec_remove. rewrite filter_In. split.
  - intros [Hi Hb]. split; [assumption|]. intro Heq. subst. rewrite keq_refl in Hb. discriminate.
  - intros [Hi Hne]. split; [assumption|]. destruct (keq k x) eqn:E; [apply keq_spec in E; congruence | reflexivity].
Qed.

Lemma rec_remove_nodup : forall k r, NoDup r -> NoDup (rec_remove k r).
Proof. intros. unfold Hmap.rec_remove. apply NoDup_filter. assumption. Qed.

Lemma NoDup_snoc : forall (A : Type) (l : list A) x, NoDup l -> ~ In x l -> NoDup (l ++ [x]).
Proof.
  intros A l x Hnd Hni. induction l as [|a t IH]; simpl.
  - constructor; [intros []|constructor].
  - inversion Hnd as [|y l' Hna Hnd']; subst. constructor.
    + intro Hi. apply in_app_or in Hi. destruct Hi as [Hi|[Hi|[]]]; [contradiction|].
      subst. apply Hni. left. reflexivity.
    + apply IH; [assumption|]. intro Hi. apply Hni. right. assumption.
Qed.

Lemma rec_touch_nodup : forall k r, NoDup r -> NoDup (rec_remove k r ++ [k]).
Proof.
  intros k r Hnd. apply NoDup_snoc; [apply rec_remove_nodup; assumption|].
  intro Hi. apply rec_remove_in in Hi. destruct Hi as [_ Hne]. congruence.
Qed.
End AL.

(* ------------------------------------------------------------------ the hash map *)
Section HP.
Variable K : Type.
Variable keq : K -> K -> bool.
Variable hashf : K -> Z.
Hypothesis keq_spec : forall a b, keq a b = true <-> a = b.

Let bwf_empty := Hmap_bkt_proofs.bwf_empty K hashf.
Let find_spec := Hmap_bkt_proofs.find_spec K keq hashf keq_spec.
Let ents_in := Hmap_bkt_proofs.ents_in K.
Let ents_key_unique := Hmap_bkt_proofs.ents_key_unique K hashf.
Let entry_add_ok := Hmap_bkt_proofs.entry_add_ok K keq hashf keq_spec.
Let upd_entry_ok := Hmap_bkt_proofs.upd_entry_ok K hashf.
Let bdel_ok := Hmap_bkt_proofs.bdel_ok K hashf.
Let set_total_ok := Hmap_bkt_proofs.set_total_ok K hashf.
Let rehash_ok := Hmap_bkt_proofs.rehash_ok K keq hashf keq_spec.
Let lru_remove_ok := Hmap_dll_proofs.lru_remove_ok K.
Let lru_touch_ok := Hmap_dll_proofs.lru_touch_ok K.
Let lru_fresh_ok := Hmap_dll_proofs.lru_fresh_ok K.
Let free_chain_ok := Hmap_dll_proofs.free_chain_ok K.
Let dll_length := Hmap_dll_proofs.dll_length K.
Let lru_walk_ok := Hmap_dll_proofs.lru_walk_ok K.

Notation entry := (entry K).
Notation bucket := (bucket K).
Notation hmap := (hmap K).
Notation ents := (ents K).
Notation bkt := (bkt K).
Notation e_key := (e_key K).
Notation e_val := (e_val K).
Notation e_lru := (e_lru K).
Notation e_hash := (e_hash K).
Notation b_ents := (b_ents K).
Notation b_total := (b_total K).
Notation h_count := (h_count K).
Notation h_mask := (h_mask K).
Notation h_bkts := (h_bkts K).
Notation h_heap := (h_heap K).
Notation h_fresh := (h_fresh K).
Notation h_first := (h_first K).
Notation h_last := (h_last K).
Notation h_max := (h_max K).
Notation h_ikp := (h_ikp K).
Notation h_fault := (h_fault K).
Notation h_log := (h_log K).
Notation bwf := (bwf K hashf).
Notation keys := (keys K).
Notation dll := (dll K).
Notation frame := (frame K).
Notation nkey := (nkey K).
Notation fkey := (fkey K).

Ltac splits := repeat match goal with |- _ /\ _ => split end.
Ltac projs := cbn [Hmap.h_count Hmap.h_mask Hmap.h_bkts Hmap.h_heap Hmap.h_fresh Hmap.h_first Hmap.h_last Hmap.h_max Hmap.h_ikp Hmap.h_fault Hmap.h_log].

Definition al_of (bs : list bucket) : list (K * Z) := map (fun e => (e_key e, e_val e)) (ents bs).
Definition lru_ids (es : list entry) : list nat :=
  flat_map (fun e => match e_lru e with Some n => [n] | None => [] end) es.

Record inv (m : hmap) (L : list nat) : Prop := mkInv {
  inv_bwf : bwf (h_mask m) (h_bkts m);
  inv_count : h_count m = Z.of_nat (length (ents (h_bkts m)));
  inv_fault : h_fault m = false;
  inv_dll : dll m L;
  inv_ids : Permutation (lru_ids (ents (h_bkts m))) L;
  inv_nkey : forall e n, In e (ents (h_bkts m)) -> e_lru e = Some n -> nkey (h_heap m) n = Some (e_key e);
  inv_on : h_max m = None -> forall e, In e (ents (h_bkts m)) -> e_lru e = None;
  inv_fresh : forall j, In j L -> (j < h_fresh m)%nat }.

(* keys of the recency list, oldest first *)
Definition recrel (m : hmap) (L : list nat) (ks : list K) : Prop :=
  Forall2 (fun n k => nkey (h_heap m) n = Some k) L ks.

Lemma al_of_keys : forall bs, map fst (al_of bs) = keys bs.
Proof. intro bs. unfold al_of, Hmap_inv_proofs.keys. rewrite map_map. reflexivity. Qed.

Lemma al_of_perm : forall es es' : list entry, Permutation es es' ->
  Permutation (map (fun e => (e_key e, e_val e)) es) (map (fun e => (e_key e, e_val e)) es').
Proof. intros. apply Permutation_map. assumption. Qed.

Lemma lru_ids_perm : forall es es', Permutation es es' -> Permutation (lru_ids es) (lru_ids es').
Proof.
  intros es es' HP. unfold lru_ids. induction HP; simpl.
  - constructor.
  - apply Permutation_app_head. assumption.
  - rewrite !app_assoc. apply Permutation_app_tail. apply Permutation_app_comm.
  - eapply Permutation_trans; eassumption.
Qed.

Lemma lru_ids_in : forall es n, In n (lru_ids es) <-> exists e, In e es /\ e_lru e = Some n.
Proof.
  intros es n. unfold lru_ids. rewrite in_flat_map. split.
  - intros [e [Hi Hn]]. exists e. split; [assumption|]. destruct (e_lru e); simpl in Hn; [|contradiction].
    destruct Hn as [Hn|[]]. congruence.
  - intros [e [Hi He]]. exists e. split; [assumption|]. rewrite He. left. reflexivity.
Qed.

(* every key of the recency list is the key of an entry *)
Lemma recrel_keys_in : forall m L ks, inv m L -> recrel m L ks -> forall k, In k ks -> In k (keys (h_bkts m)).
Proof.
  intros m L ks Hinv Hrr k Hk.
  unfold recrel in Hrr.
  assert (Hex : exists n, In n L /\ nkey (h_heap m) n = Some k).
  { clear Hinv. induction Hrr as [|n k' L' ks' Hnk Hrr IH]; [contradiction|].
    destruct Hk as [Hk|Hk].
    - subst. exists n. split; [left; reflexivity|assumption].
    - destruct (IH Hk) as [n' [Hin Hn']]. exists n'. split; [right; assumption|assumption]. }
  destruct Hex as [n [HnL Hnk]].
  pose proof (Permutation_sym (inv_ids m L Hinv)) as HP.
  eapply Permutation_in in HnL; [|exact HP].
  apply lru_ids_in in HnL. destruct HnL as [e [He Hel]].
  pose proof (inv_nkey m L Hinv e n He Hel) as Hk2. rewrite Hnk in Hk2. inversion Hk2; subst.
  unfold Hmap_inv_proofs.keys. apply in_map. assumption.
Qed.


Lemma dll_ext : forall m m' L, h_first m' = h_first m -> h_last m' = h_last m -> h_heap m' = h_heap m ->
  dll m L -> dll m' L.
Proof.
  intros m m' L Hf Hl Hh [H1 [H2 [H3 [H4 H5]]]]. unfold Hmap_inv_proofs.dll.
  rewrite Hf, Hl, Hh. repeat split; try assumption; apply H5.
Qed.

Lemma recrel_ext : forall m m' L ks, h_heap m' = h_heap m -> recrel m L ks -> recrel m' L ks.
Proof. intros m m' L ks Hh Hr. unfold recrel in *. rewrite Hh. assumption. Qed.

Lemma pow2_pos : forall k, 0 <= k -> 0 < 2 ^ k.
Proof. intros. apply Z.pow_pos_nonneg; lia. Qed.

Lemma ones_half : forall k, 0 <= k -> Z.ones k > 0 -> 1 <= k /\ (Z.ones k + 1) / 2 = 2 ^ (k - 1).
Proof.
  intros k Hk Hpos. rewrite Z.ones_equiv in *.
  assert (Hk1 : 1 <= k).
  { destruct (Z.eq_dec k 0) as [->|Hne]; [simpl in Hpos; lia | lia]. }
  split; [assumption|].
  replace (Z.pred (2 ^ k) + 1) with (2 ^ k) by lia.
  replace k with (1 + (k - 1)) at 1 by lia. rewrite Z.pow_add_r by lia.
  change (2 ^ 1) with 2. rewrite Z.mul_comm. apply Z.div_mul. lia.
Qed.

Lemma ones_double : forall k, 0 <= k -> (Z.ones k + 1) * 2 = 2 ^ (k + 1).
Proof.
  intros k Hk. rewrite Z.ones_equiv. replace (Z.pred (2 ^ k) + 1) with (2 ^ k) by lia.
  rewrite Z.pow_add_r by lia. change (2 ^ 1) with 2. reflexivity.
Qed.

(* ------------------------------------------------------------------ stages that only touch the bucket array *)
Lemma inv_rehash : forall m L k', inv m L -> 0 <= k' ->
  let m' := rehash K keq m (2 ^ k') in
  inv m' L /\ Permutation (ents (h_bkts m')) (ents (h_bkts m)) /\
  h_heap m' = h_heap m /\ h_log m' = h_log m /\ h_max m' = h_max m /\ h_ikp m' = h_ikp m /\
  h_count m' = h_count m.
Proof.
  intros m L k' Hinv Hk m'.
  destruct (rehash_ok (h_mask m) (h_bkts m) k' (inv_bwf m L Hinv) Hk) as [Hb HP].
  subst m'. unfold rehash. simpl.
  split; [|split; [assumption | repeat split; reflexivity]].
  constructor; simpl.
  - exact Hb.
  - rewrite (inv_count m L Hinv). f_equal. symmetry. apply Permutation_length. assumption.
  - exact (inv_fault m L Hinv).
  - apply (dll_ext m); try reflexivity. exact (inv_dll m L Hinv).
  - eapply Permutation_trans; [apply lru_ids_perm; exact HP | exact (inv_ids m L Hinv)].
  - intros e n He Hn. apply (inv_nkey m L Hinv e n); [|assumption]. eapply Permutation_in; eassumption.
  - intros Hmx e He. apply (inv_on m L Hinv Hmx e). eapply Permutation_in; eassumption.
  - exact (inv_fresh m L Hinv).
Qed.

Lemma inv_set_total : forall m L bi tot, inv m L -> (bi < length (h_bkts m))%nat ->
  let m' := with_bkts K m (set_nth bi (mkB K (b_ents (bkt (h_bkts m) bi)) tot) (h_bkts m)) in
  inv m' L /\ ents (h_bkts m') = ents (h_bkts m).
Proof.
  intros m L bi tot Hinv Hbi m'.
  destruct (set_total_ok (h_mask m) (h_bkts m) bi tot (inv_bwf m L Hinv) Hbi) as [Hb [He Hl]].
  subst m'. simpl. split; [|assumption].
  constructor; simpl; try rewrite He.
  - exact Hb.
  - exact (inv_count m L Hinv).
  - exact (inv_fault m L Hinv).
  - apply (dll_ext m); try reflexivity. exact (inv_dll m L Hinv).
  - exact (inv_ids m L Hinv).
  - exact (inv_nkey m L Hinv).
  - exact (inv_on m L Hinv).
  - exact (inv_fresh m L Hinv).
Qed.


Lemma recrel_in_ex : forall (h : heap K) L ks k,
  Forall2 (fun n k => nkey h n = Some k) L ks -> In k ks -> exists n, In n L /\ nkey h n = Some k.
Proof.
  intros h L ks k Hrr Hk. induction Hrr as [|n k' L' ks' Hnk Hrr IH]; [contradiction|].
  destruct Hk as [Hk|Hk].
  - subst. exists n. split; [left; reflexivity|assumption].
  - destruct (IH Hk) as [n' [Hin Hn']]. exists n'. split; [right; assumption|assumption].
Qed.

Lemma recrel_transfer : forall (h h' : heap K) L ks, (forall j, In j L -> nkey h' j = nkey h j) ->
  Forall2 (fun n k => nkey h n = Some k) L ks -> Forall2 (fun n k => nkey h' n = Some k) L ks.
Proof.
  intros h h' L ks Hsame Hrr. induction Hrr as [|n k L' ks' Hnk Hrr IH]; constructor.
  - rewrite Hsame; [assumption|left; reflexivity].
  - apply IH. intros j Hj. apply Hsame. right. assumption.
Qed.



(* the node of entry e leaves the recency list *)
Lemma remove_lru_part : forall m L e, inv m L -> In e (ents (h_bkts m)) ->
  let m1 := match e_lru e with Some n => lru_remove K m n | None => m end in
  exists L1, dll m1 L1 /\ frame m m1 /\ Permutation L (lru_ids [e] ++ L1) /\
    (forall j, In j L1 -> nkey (h_heap m1) j = nkey (h_heap m) j) /\
    (forall ks, recrel m L ks -> NoDup ks -> recrel m1 L1 (rec_remove K keq (e_key e) ks)).
Proof.
  intros m L e Hinv He. unfold lru_ids. simpl. destruct (e_lru e) as [n|] eqn:Hl; simpl.
  - assert (HnL : In n L).
    { eapply Permutation_in; [exact (inv_ids m L Hinv)|]. apply lru_ids_in. exists e. split; assumption. }
    apply in_split in HnL. destruct HnL as [l1 [l2 HL]]. subst L.
    pose proof (inv_dll m _ Hinv) as Hdll.
    destruct (lru_remove_ok m n l1 l2 Hdll) as [Hd [Hf Hk]].
    assert (Hnd : NoDup (l1 ++ n :: l2)) by (destruct Hdll as [_ [_ [_ [Hnd _]]]]; exact Hnd).
    assert (Hnn : ~ In n (l1 ++ l2)) by (apply NoDup_remove_2; exact Hnd).
    exists (l1 ++ l2). split; [exact Hd|]. split; [exact Hf|]. split; [|split].
    + apply Permutation_sym. apply Permutation_middle.
    + intros j Hj. apply Hk. intro Heq. subst. contradiction.
    + intros ks Hrr Hndk. unfold recrel in Hrr.
      apply Forall2_app_inv_l in Hrr. destruct Hrr as [ks1 [ks' [H1 [H2 Hks]]]].
      inversion H2 as [|n' k l2' ks2 Hnk H2' E1 E2]; subst.
      pose proof (inv_nkey m _ Hinv e n He Hl) as Hke. rewrite Hnk in Hke. inversion Hke; subst k.
      assert (Hnk12 : ~ In (e_key e) (ks1 ++ ks2)) by (apply NoDup_remove_2; exact Hndk).
      rewrite (rec_remove_mid K keq keq_spec).
      * unfold recrel. apply Forall2_app.
        -- apply (recrel_transfer (h_heap m)); [|assumption].
           intros j Hj. apply Hk. intro Heq. subst. apply Hnn. apply in_or_app. left. assumption.
        -- apply (recrel_transfer (h_heap m)); [|assumption].
           intros j Hj. apply Hk. intro Heq. subst. apply Hnn. apply in_or_app. right. assumption.
      * intro Hi. apply Hnk12. apply in_or_app. left. assumption.
      * intro Hi. apply Hnk12. apply in_or_app. right. assumption.
  - exists L. split; [exact (inv_dll m L Hinv)|]. split; [apply (Hmap_dll_proofs.frame_refl K)|]. split; [apply Permutation_refl|].
    split; [reflexivity|].
    intros ks Hrr Hndk. rewrite (rec_remove_notin K keq keq_spec); [assumption|].
    intro Hi. destruct (recrel_in_ex _ _ _ _ Hrr Hi) as [n [HnL Hnk]].
    pose proof (Permutation_sym (inv_ids m L Hinv)) as HP.
    eapply Permutation_in in HnL; [|exact HP].
    apply lru_ids_in in HnL. destruct HnL as [e' [He' Hl']].
    pose proof (inv_nkey m L Hinv e' n He' Hl') as Hk2. rewrite Hnk in Hk2. inversion Hk2 as [Hkk].
    assert (e = e') by (eapply (ents_key_unique (h_mask m) (h_bkts m)); [exact (inv_bwf m L Hinv)| | |]; assumption).
    subst e'. congruence.
Qed.


(* ------------------------------------------------------------------ _entry_remove *)
Lemma entry_remove_ok : forall m L bi ei e, inv m L -> (bi < length (h_bkts m))%nat ->
  nth_error (b_ents (bkt (h_bkts m) bi)) ei = Some e ->
  let m' := entry_remove K keq m bi ei in
  exists L', inv m' L' /\
    Permutation (ents (h_bkts m)) (e :: ents (h_bkts m')) /\
    h_log m' = h_log m ++ [(fkey m (e_key e), e_val e)] /\
    h_max m' = h_max m /\ h_ikp m' = h_ikp m /\
    (forall ks, recrel m L ks -> NoDup ks -> recrel m' L' (rec_remove K keq (e_key e) ks)).
Proof.
  intros m L bi ei e Hinv Hbi Hnth m'.
  assert (He : In e (ents (h_bkts m))) by (eapply ents_in; eassumption).
  destruct (remove_lru_part m L e Hinv He) as [L1 [Hd1 [Hf1 [HP1 [Hk1 Hr1]]]]].
  set (m1 := match e_lru e with Some n => lru_remove K m n | None => m end) in *.
  destruct Hf1 as [Fc [Fm [Fb [Ffr [Fmx [Fik [Ffa Flg]]]]]]].
  pose proof (inv_bwf m L Hinv) as Hbwf.
  destruct (bdel_ok (h_mask m) (h_bkts m) bi ei e (b_total (bkt (h_bkts m) bi)) Hbwf Hbi Hnth) as [Hb3 [Hl3 HP3]].
  set (bs3 := set_nth bi (mkB K (bdel K (b_ents (bkt (h_bkts m) bi)) ei e) (b_total (bkt (h_bkts m) bi))) (h_bkts m)) in *.
  set (m3 := with_count K (with_bkts K (add_log K m1 (fkey m (e_key e), e_val e)) bs3) (h_count m1 - 1)).
  assert (Hinv3 : inv m3 L1).
  { constructor; subst m3; simpl.
    - rewrite Fm. exact Hb3.
    - rewrite Fc, (inv_count m L Hinv). apply Permutation_length in HP3. simpl in HP3. rewrite HP3. lia.
    - rewrite Ffa. exact (inv_fault m L Hinv).
    - apply (dll_ext m1); try reflexivity. exact Hd1.
    - pose proof (inv_ids m L Hinv) as Hids.
      apply lru_ids_perm in HP3.
      assert (HPa : Permutation (lru_ids [e] ++ lru_ids (ents bs3)) (lru_ids [e] ++ L1)).
      { eapply Permutation_trans; [|exact HP1].
        eapply Permutation_trans; [|exact Hids].
        apply Permutation_sym. eapply Permutation_trans; [exact HP3|].
        unfold lru_ids. simpl. rewrite app_nil_r. apply Permutation_refl. }
      eapply Permutation_app_inv_l. exact HPa.
    - intros e' n He' Hn.
      assert (He'm : In e' (ents (h_bkts m))).
      { eapply Permutation_in; [apply Permutation_sym; exact HP3|]. right. exact He'. }
      assert (HnL1 : In n L1).
      { pose proof (inv_ids m L Hinv) as Hids.
        assert (Hn3 : In n (lru_ids (ents bs3))) by (apply lru_ids_in; exists e'; split; assumption).
        apply lru_ids_perm in HP3.
        assert (HPa : Permutation (lru_ids [e] ++ lru_ids (ents bs3)) (lru_ids [e] ++ L1)).
        { eapply Permutation_trans; [|exact HP1].
          eapply Permutation_trans; [|exact Hids].
          apply Permutation_sym. eapply Permutation_trans; [exact HP3|].
          unfold lru_ids. simpl. rewrite app_nil_r. apply Permutation_refl. }
        apply Permutation_app_inv_l in HPa. eapply Permutation_in; eassumption. }
      rewrite (Hk1 n HnL1). apply (inv_nkey m L Hinv e' n); assumption.
    - intros Hmx e' He'. rewrite Fmx in Hmx. apply (inv_on m L Hinv Hmx e').
      eapply Permutation_in; [apply Permutation_sym; exact HP3|]. right. exact He'.
    - intros j Hj. rewrite Ffr. apply (inv_fresh m L Hinv).
      eapply Permutation_in; [apply Permutation_sym; exact HP1|]. apply in_or_app. right. exact Hj. }
  assert (Hbase : Permutation (ents (h_bkts m)) (e :: ents (h_bkts m3)) /\
                  h_log m3 = h_log m ++ [(fkey m (e_key e), e_val e)] /\ h_max m3 = h_max m /\ h_ikp m3 = h_ikp m /\
                  h_heap m3 = h_heap m1 /\ h_mask m3 = h_mask m /\ h_bkts m3 = bs3).
  { subst m3; simpl. rewrite Flg, Fmx, Fik, Fm. repeat split; try reflexivity. exact HP3. }
  destruct Hbase as [HPb [Hlog3 [Hmx3 [Hik3 [Hh3 [Hmk3 Hbk3]]]]]].
  assert (Hfinal : forall mf Lf, inv mf Lf -> Lf = L1 -> Permutation (ents (h_bkts mf)) (ents (h_bkts m3)) ->
            h_log mf = h_log m3 -> h_max mf = h_max m3 -> h_ikp mf = h_ikp m3 -> h_heap mf = h_heap m3 ->
            exists L', inv mf L' /\
              Permutation (ents (h_bkts m)) (e :: ents (h_bkts mf)) /\
              h_log mf = h_log m ++ [(fkey m (e_key e), e_val e)] /\
              h_max mf = h_max m /\ h_ikp mf = h_ikp m /\
              (forall ks, recrel m L ks -> NoDup ks -> recrel mf L' (rec_remove K keq (e_key e) ks))).
  { intros mf Lf Hif HLf HPf Hlf Hmf Hkf Hhf. subst Lf. exists L1. split; [exact Hif|].
    split; [eapply Permutation_trans; [exact HPb|]; constructor; apply Permutation_sym; exact HPf|].
    split; [congruence|]. split; [congruence|]. split; [congruence|].
    intros ks Hrr Hnd. apply (recrel_ext m1); [congruence|]. apply Hr1; assumption. }
  subst m'. unfold entry_remove. rewrite Hnth.
  fold m1. cbv zeta.
  fold (bdel K (b_ents (bkt (h_bkts m) bi)) ei e).
  change (h_bkts (add_log K m1 (fkey m (e_key e), e_val e))) with (h_bkts m1).
  change (h_count (add_log K m1 (fkey m (e_key e), e_val e))) with (h_count m1).
  rewrite Fb. fold bs3. fold m3.
  destruct ((h_mask m3 >? CONT_MIN_BUCKETS - 1) && (h_count m3 <? h_mask m3 / 2)) eqn:Hsh.
  - (* shrinking rehash *)
    apply andb_prop in Hsh. destruct Hsh as [Hgt _].
    destruct (inv_bwf m3 L1 Hinv3) as [[k [Hk0 Hmk]] _].
    assert (Hpos : Z.ones k > 0).
    { rewrite <- Hmk. apply Z.gtb_lt in Hgt. assert (0 <= CONT_MIN_BUCKETS - 1) by (vm_compute; discriminate). lia. }
    destruct (ones_half k Hk0 Hpos) as [Hkge1 Hhalf].
    rewrite Hmk, Hhalf.
    destruct (inv_rehash m3 L1 (k - 1) Hinv3 ltac:(lia)) as [Hir [HPr [Hhr [Hlr [Hmr [Hkr _]]]]]].
    apply (Hfinal _ L1); try assumption; reflexivity.
  - destruct (Z.of_nat (length (bdel K (b_ents (bkt (h_bkts m) bi)) ei e)) / CONT_STEPS + 1 <? b_total (bkt (h_bkts m) bi) / CONT_STEPS) eqn:Hst.
    + (* the bucket gives back steps *)
      assert (Hbi3 : (bi < length (h_bkts m3))%nat) by (rewrite Hbk3, Hl3; exact Hbi).
      assert (Hsame : b_ents (bkt (h_bkts m3) bi) = bdel K (b_ents (bkt (h_bkts m) bi)) ei e).
      { rewrite Hbk3. subst bs3. rewrite (bkt_set_nth_eq K) by exact Hbi. reflexivity. }
      pose proof (inv_set_total m3 L1 bi ((Z.of_nat (length (bdel K (b_ents (bkt (h_bkts m) bi)) ei e)) / CONT_STEPS + 1) * CONT_STEPS) Hinv3 Hbi3) as [Hit Het].
      rewrite Hsame in Hit, Het.
      apply (Hfinal _ L1); try exact Hit; try reflexivity.
      match goal with |- Permutation ?a ?b => replace a with b by (symmetry; exact Het); apply Permutation_refl end.
    + apply (Hfinal _ L1); try assumption; try reflexivity.
Qed.


(* ------------------------------------------------------------------ invariant without the "every entry has a node" part *)
Record inv0 (m : hmap) (L : list nat) : Prop := mkInv0 {
  i0_bwf : bwf (h_mask m) (h_bkts m);
  i0_count : h_count m = Z.of_nat (length (ents (h_bkts m)));
  i0_fault : h_fault m = false;
  i0_dll : dll m L;
  i0_ids : Permutation (lru_ids (ents (h_bkts m))) L;
  i0_nkey : forall e n, In e (ents (h_bkts m)) -> e_lru e = Some n -> nkey (h_heap m) n = Some (e_key e);
  i0_fresh : forall j, In j L -> (j < h_fresh m)%nat }.

Definition on_ok (m : hmap) : Prop :=
  h_max m = None -> forall e, In e (ents (h_bkts m)) -> e_lru e = None.

Lemma inv_split : forall m L, inv m L <-> inv0 m L /\ on_ok m.
Proof.
  intros m L. split.
  - intros [H1 H2 H3 H4 H5 H6 H7 H8]. split; [constructor; assumption | exact H7].
  - intros [[H1 H2 H3 H4 H5 H6 H8] H7]. constructor; assumption.
Qed.

(* all fields but the log agree *)
Definition core_eq (m m' : hmap) : Prop :=
  h_count m' = h_count m /\ h_mask m' = h_mask m /\ h_bkts m' = h_bkts m /\ h_heap m' = h_heap m /\
  h_fresh m' = h_fresh m /\ h_first m' = h_first m /\ h_last m' = h_last m /\ h_max m' = h_max m /\
  h_fault m' = h_fault m.

Lemma inv0_ext : forall m m' L, core_eq m m' -> inv0 m L -> inv0 m' L.
Proof.
  intros m m' L [Ec [Em [Eb [Eh [Efr [Ef [El [Emx Efa]]]]]]]] [H1 H2 H3 H4 H5 H6 H7].
  constructor; rewrite ?Ec, ?Em, ?Eb, ?Eh, ?Efr, ?Efa; try assumption.
  apply (dll_ext m); assumption.
Qed.

Lemma on_ok_ext : forall m m', h_bkts m' = h_bkts m -> h_max m' = h_max m -> on_ok m -> on_ok m'.
Proof. intros m m' Eb Emx H Hx e He. rewrite Eb in He. rewrite Emx in Hx. apply (H Hx). assumption. Qed.

Lemma inv_ext : forall m m' L, core_eq m m' -> inv m L -> inv m' L.
Proof.
  intros m m' L Hc Hi. apply inv_split in Hi. destruct Hi as [H0 Ho]. apply inv_split. split.
  - eapply inv0_ext; eassumption.
  - destruct Hc as [_ [_ [Eb [_ [_ [_ [_ [Emx _]]]]]]]]. eapply on_ok_ext; eassumption.
Qed.

(* replacing an entry by one with the same key, hash and node *)
Lemma inv0_upd : forall m L bi ei e (f : entry -> entry), inv0 m L -> (bi < length (h_bkts m))%nat ->
  nth_error (b_ents (bkt (h_bkts m) bi)) ei = Some e ->
  e_key (f e) = e_key e -> e_hash (f e) = e_hash e -> e_lru (f e) = e_lru e ->
  let m' := with_bkts K m (upd_entry K (h_bkts m) bi ei f) in
  inv0 m' L /\ (on_ok m -> on_ok m') /\
  nth_error (b_ents (bkt (h_bkts m') bi)) ei = Some (f e) /\
  (exists rest, Permutation (ents (h_bkts m)) (e :: rest) /\ Permutation (ents (h_bkts m')) (f e :: rest)) /\
  length (h_bkts m') = length (h_bkts m).
Proof.
  intros m L bi ei e f [H1 H2 H3 H4 H5 H6 H7] Hbi Hnth Hk Hh Hl m'.
  destruct (upd_entry_ok (h_mask m) (h_bkts m) bi ei e f H1 Hbi Hnth Hk Hh) as [Hb [Hlen [Hn' [rest [HP HP']]]]].
  subst m'. simpl.
  assert (Hids : Permutation (lru_ids (f e :: rest)) (lru_ids (e :: rest))).
  { unfold lru_ids. simpl. rewrite Hl. apply Permutation_refl. }
  split; [|split; [|split; [exact Hn' | split; [exists rest; split; assumption | exact Hlen]]]].
  - constructor; simpl.
    + exact Hb.
    + rewrite H2. f_equal. apply Permutation_length in HP. apply Permutation_length in HP'. simpl in *. lia.
    + exact H3.
    + apply (dll_ext m); try reflexivity. exact H4.
    + eapply Permutation_trans; [apply lru_ids_perm; exact HP'|].
      eapply Permutation_trans; [exact Hids|].
      eapply Permutation_trans; [apply lru_ids_perm; apply Permutation_sym; exact HP|]. exact H5.
    + intros e' n He' Hn.
      eapply Permutation_in in He'; [|exact HP']. destruct He' as [He'|He'].
      * subst e'. rewrite Hk. apply H6; [|rewrite <- Hl; exact Hn].
        eapply Permutation_in; [apply Permutation_sym; exact HP|]. left. reflexivity.
      * apply H6; [|exact Hn]. eapply Permutation_in; [apply Permutation_sym; exact HP|]. right. exact He'.
    + exact H7.
  - intros Hon Hmx e' He'. simpl in Hmx, He'.
    eapply Permutation_in in He'; [|exact HP']. destruct He' as [He'|He'].
    + subst e'. rewrite Hl. apply (Hon Hmx). eapply Permutation_in; [apply Permutation_sym; exact HP|]. left. reflexivity.
    + apply (Hon Hmx). eapply Permutation_in; [apply Permutation_sym; exact HP|]. right. exact He'.
Qed.


Lemma frame_core : forall m m', frame m m' -> h_count m' = h_count m /\ h_mask m' = h_mask m /\
  h_bkts m' = h_bkts m /\ h_fresh m' = h_fresh m /\ h_max m' = h_max m /\ h_ikp m' = h_ikp m /\
  h_fault m' = h_fault m /\ h_log m' = h_log m.
Proof. intros m m' H. exact H. Qed.

(* _lru_entry_update on an entry that already owns a node: the node moves to the tail *)
Lemma inv_touch_node : forall m L bi ei e n, inv m L -> e_lru e = Some n ->
  nth_error (b_ents (bkt (h_bkts m) bi)) ei = Some e -> (bi < length (h_bkts m))%nat ->
  let m' := lru_update K m bi ei in
  exists L', inv m' L' /\ frame m m' /\
    (forall ks, recrel m L ks -> NoDup ks -> recrel m' L' (rec_remove K keq (e_key e) ks ++ [e_key e])).
Proof.
  intros m L bi ei e n Hinv Hl Hnth Hbi m'.
  assert (He : In e (ents (h_bkts m))) by (eapply ents_in; eassumption).
  assert (HnL : In n L).
  { eapply Permutation_in; [exact (inv_ids m L Hinv)|]. apply lru_ids_in. exists e. split; assumption. }
  apply in_split in HnL. destruct HnL as [l1 [l2 HL]]. subst L.
  pose proof (inv_dll m _ Hinv) as Hdll.
  destruct (lru_touch_ok m bi ei e n l1 l2 Hnth Hl Hdll) as [Hd [Hf [Hkn Hk]]].
  fold m' in Hd, Hf, Hkn, Hk.
  assert (Hnd : NoDup (l1 ++ n :: l2)) by (destruct Hdll as [_ [_ [_ [Hnd _]]]]; exact Hnd).
  assert (Hnn : ~ In n (l1 ++ l2)) by (apply NoDup_remove_2; exact Hnd).
  destruct (frame_core m m' Hf) as [Fc [Fm [Fb [Ffr [Fmx [Fik [Ffa Flg]]]]]]].
  assert (HPL : Permutation (l1 ++ n :: l2) (l1 ++ l2 ++ [n])).
  { apply Permutation_app_head. apply Permutation_cons_append. }
  exists (l1 ++ l2 ++ [n]). split; [|split; [exact Hf|]].
  - constructor; rewrite ?Fc, ?Fm, ?Fb, ?Ffr, ?Fmx, ?Ffa.
    + exact (inv_bwf m _ Hinv).
    + exact (inv_count m _ Hinv).
    + exact (inv_fault m _ Hinv).
    + exact Hd.
    + eapply Permutation_trans; [exact (inv_ids m _ Hinv) | exact HPL].
    + intros e' n' He' Hn'. destruct (Nat.eq_dec n' n) as [->|Hne].
      * rewrite Hkn. pose proof (inv_nkey m _ Hinv e' n He' Hn') as H1.
        pose proof (inv_nkey m _ Hinv e n He Hl) as H2. rewrite H1 in H2. symmetry. exact H2.
      * rewrite (Hk n' Hne). apply (inv_nkey m _ Hinv e' n'); assumption.
    + exact (inv_on m _ Hinv).
    + intros j Hj. apply (inv_fresh m _ Hinv). eapply Permutation_in; [apply Permutation_sym; exact HPL | exact Hj].
  - intros ks Hrr Hndk. unfold recrel in Hrr.
    apply Forall2_app_inv_l in Hrr. destruct Hrr as [ks1 [ks' [H1 [H2 Hks]]]].
    inversion H2 as [|n' k l2' ks2 Hnk H2' E1 E2]; subst.
    pose proof (inv_nkey m _ Hinv e n He Hl) as Hke. rewrite Hnk in Hke. inversion Hke; subst k.
    assert (Hnk12 : ~ In (e_key e) (ks1 ++ ks2)) by (apply NoDup_remove_2; exact Hndk).
    rewrite (rec_remove_mid K keq keq_spec).
    + unfold recrel. rewrite <- app_assoc. apply Forall2_app; [|apply Forall2_app].
      * apply (recrel_transfer (h_heap m)); [|assumption].
        intros j Hj. apply Hk. intro Heq. subst. apply Hnn. apply in_or_app. left. assumption.
      * apply (recrel_transfer (h_heap m)); [|assumption].
        intros j Hj. apply Hk. intro Heq. subst. apply Hnn. apply in_or_app. right. assumption.
      * constructor; [exact Hkn | constructor].
    + intro Hi. apply Hnk12. apply in_or_app. left. assumption.
    + intro Hi. apply Hnk12. apply in_or_app. right. assumption.
Qed.

(* _lru_entry_update on an entry without node: a fresh node is appended *)
Lemma inv_fresh_node : forall m L bi ei e rest, inv0 m L -> h_max m <> None -> (bi < length (h_bkts m))%nat ->
  nth_error (b_ents (bkt (h_bkts m) bi)) ei = Some e -> e_lru e = None ->
  Permutation (ents (h_bkts m)) (e :: rest) ->
  let m' := lru_update K m bi ei in
  let e1 := mkE K (e_key e) (e_val e) (Some (h_fresh m)) (e_hash e) in
  inv m' (L ++ [h_fresh m]) /\ Permutation (ents (h_bkts m')) (e1 :: rest) /\
  h_log m' = h_log m /\ h_max m' = h_max m /\ h_ikp m' = h_ikp m /\
  (forall ks, recrel m L ks -> recrel m' (L ++ [h_fresh m]) (ks ++ [e_key e])).
Proof.
  intros m L bi ei e rest [H1 H2 H3 H4 H5 H6 H7] Hon Hbi Hnth Hl HPr m' e1.
  destruct (lru_fresh_ok m bi ei e L Hnth Hl H4 H7) as [Hd [Hfr [Hbk [Fc [Fm [Fmx [Fik [Ffa [Flg [Hkn Hk]]]]]]]]]].
  fold m' in Hd, Hfr, Hbk, Fc, Fm, Fmx, Fik, Ffa, Flg, Hkn, Hk.
  set (f := fun x : entry => mkE K (e_key x) (e_val x) (Some (h_fresh m)) (e_hash x)) in *.
  destruct (upd_entry_ok (h_mask m) (h_bkts m) bi ei e f H1 Hbi Hnth eq_refl eq_refl) as [Hb [Hlen [Hn' [rest2 [HP HP']]]]].
  assert (Hr2 : Permutation rest2 rest).
  { eapply Permutation_cons_inv. eapply Permutation_trans; [apply Permutation_sym; exact HP | exact HPr]. }
  assert (HPe : Permutation (ents (h_bkts m')) (e1 :: rest)).
  { rewrite Hbk. eapply Permutation_trans; [exact HP'|]. constructor. exact Hr2. }
  assert (Hfn : ~ In (h_fresh m) L) by (intro Hi; apply H7 in Hi; lia).
  assert (Hidr : Permutation (lru_ids rest) L).
  { eapply Permutation_trans; [|exact H5].
    eapply Permutation_trans; [|apply lru_ids_perm; apply Permutation_sym; exact HPr].
    unfold lru_ids. simpl. rewrite Hl. apply Permutation_refl. }
  split; [|split; [exact HPe | split; [exact Flg | split; [exact Fmx | split; [exact Fik|]]]]].
  - constructor; rewrite ?Fc, ?Fm, ?Fmx, ?Ffa.
    + rewrite Hbk. exact Hb.
    + rewrite H2. f_equal. apply Permutation_length in HPe. apply Permutation_length in HPr. simpl in *. lia.
    + exact H3.
    + exact Hd.
    + eapply Permutation_trans; [apply lru_ids_perm; exact HPe|].
      unfold lru_ids at 1. simpl. fold (lru_ids rest).
      eapply Permutation_trans; [constructor; exact Hidr|]. apply Permutation_cons_append.
    + intros e' n' He' Hln'. eapply Permutation_in in He'; [|exact HPe]. destruct He' as [He'|He'].
      * subst e'. simpl in Hln'. inversion Hln'; subst n'. exact Hkn.
      * assert (Hn'L : In n' L).
        { eapply Permutation_in; [exact Hidr|]. apply lru_ids_in. exists e'. split; assumption. }
        rewrite Hk by (intro Heq; subst; contradiction).
        apply H6; [|exact Hln']. eapply Permutation_in; [apply Permutation_sym; exact HPr|]. right. exact He'.
    + intros Hx. contradiction.
    + intros j Hj. rewrite Hfr. apply in_app_or in Hj. destruct Hj as [Hj|[Hj|[]]]; [apply H7 in Hj; lia | subst; lia].
  - intros ks Hrr. unfold recrel. apply Forall2_app.
    + apply (recrel_transfer (h_heap m)); [|exact Hrr].
      intros j Hj. apply Hk. intro Heq. subst. contradiction.
    + constructor; [exact Hkn | constructor].
Qed.


(* the key of an entry without node is not in the recency list *)
Lemma nonode_not_in_rec : forall m L e ks, inv m L -> In e (ents (h_bkts m)) -> e_lru e = None ->
  recrel m L ks -> ~ In (e_key e) ks.
Proof.
  intros m L e ks Hinv He Hl Hrr Hi.
  destruct (recrel_in_ex _ _ _ _ Hrr Hi) as [n [HnL Hnk]].
  pose proof (Permutation_sym (inv_ids m L Hinv)) as HP.
  eapply Permutation_in in HnL; [|exact HP].
  apply lru_ids_in in HnL. destruct HnL as [e' [He' Hl']].
  pose proof (inv_nkey m L Hinv e' n He' Hl') as Hk2. rewrite Hnk in Hk2. inversion Hk2 as [Hkk].
  assert (e = e') by (eapply (ents_key_unique (h_mask m) (h_bkts m)); [exact (inv_bwf m L Hinv)| | |]; assumption).
  subst e'. congruence.
Qed.

(* _lru_entry_update with LRU on, whether or not the entry owns a node (an entry created before iwhmap_lru_init
   has none): afterwards its key is the newest of the recency list *)
Lemma inv_touch : forall m L bi ei e, inv m L -> h_max m <> None ->
  nth_error (b_ents (bkt (h_bkts m) bi)) ei = Some e -> (bi < length (h_bkts m))%nat ->
  let m' := lru_update K m bi ei in
  exists L', inv m' L' /\ h_log m' = h_log m /\ h_max m' = h_max m /\ h_ikp m' = h_ikp m /\
    h_count m' = h_count m /\ Permutation (al_of (h_bkts m')) (al_of (h_bkts m)) /\
    (forall ks, recrel m L ks -> NoDup ks -> recrel m' L' (rec_remove K keq (e_key e) ks ++ [e_key e])).
Proof.
  intros m L bi ei e Hinv Hon Hnth Hbi m'.
  assert (He : In e (ents (h_bkts m))) by (eapply ents_in; eassumption).
  destruct (e_lru e) as [n|] eqn:Hl.
  - destruct (inv_touch_node m L bi ei e n Hinv Hl Hnth Hbi) as [L' [Hi' [Hf' Hr']]].
    destruct (frame_core _ _ Hf') as [Fc [Fm [Fb [Ffr [Fmx [Fik [Ffa Flg]]]]]]].
    exists L'. splits; try assumption. subst m'. rewrite Fb. apply Permutation_refl.
  - destruct (in_split _ _ He) as [l1 [l2 Hsp]].
    assert (HPr : Permutation (ents (h_bkts m)) (e :: l1 ++ l2)).
    { rewrite Hsp. apply Permutation_sym. apply Permutation_middle. }
    pose proof (proj1 (proj1 (inv_split m L) Hinv)) as Hinv0.
    destruct (inv_fresh_node m L bi ei e (l1 ++ l2) Hinv0 Hon Hbi Hnth Hl HPr) as [Hi1 [HP1 [Hl1 [Hmx1 [Hik1 Hr1]]]]].
    subst m'. exists (L ++ [h_fresh m]). splits; try assumption.
    + rewrite (inv_count _ _ Hi1), (inv_count _ _ Hinv). f_equal.
      apply Permutation_length in HP1. apply Permutation_length in HPr. simpl in *. lia.
    + unfold al_of. eapply Permutation_trans; [apply al_of_perm; exact HP1|].
      eapply Permutation_trans; [|apply al_of_perm; apply Permutation_sym; exact HPr]. simpl. apply Permutation_refl.
    + intros ks Hrr Hnd. rewrite (rec_remove_notin K keq keq_spec).
      * apply Hr1. exact Hrr.
      * exact (nonode_not_in_rec m L e ks Hinv He Hl Hrr).
Qed.

Lemma lru_on_max : forall m : hmap, lru_on K m = true <-> h_max m <> None.
Proof. intro m. unfold lru_on. destruct (h_max m); split; intro H; congruence. Qed.

Lemma al_of_cons_perm : forall (bs : list bucket) (e : entry) rest,
  Permutation (ents bs) (e :: rest) ->
  Permutation (al_of bs) ((e_key e, e_val e) :: map (fun x => (e_key x, e_val x)) rest).
Proof. intros bs e rest HP. unfold al_of. apply (al_of_perm _ _ HP). Qed.

(* the slot returned by _entry_add is new *)
Lemma fill_new_ok : forall m L k v bs bi ei, inv m L ->
  bwf (h_mask m) bs -> (bi < length bs)%nat ->
  nth_error (b_ents (bkt bs bi)) ei = Some (mkE K k 0 None (hashf k)) ->
  Permutation (ents bs) (mkE K k 0 None (hashf k) :: ents (h_bkts m)) ->
  ~ In k (keys (h_bkts m)) ->
  let m1 := fill_slot K m bs bi ei true k v in
  exists L1, inv m1 L1 /\ h_max m1 = h_max m /\ h_ikp m1 = h_ikp m /\
    h_log m1 = h_log m ++ [(None, 0)] /\
    Permutation (al_of (h_bkts m1)) ((k, v) :: al_of (h_bkts m)) /\
    (forall ks, recrel m L ks -> NoDup ks ->
       recrel m1 L1 (if lru_on K m then rec_remove K keq k ks ++ [k] else ks)).
Proof.
  intros m L k v bs bi ei Hinv Hb Hbi Hnth HPb Hnk m1.
  set (p := mkE K k 0 None (hashf k)) in *.
  set (ma := add_log K (with_count K (with_bkts K m bs) (h_count m + 1)) (None, 0)).
  assert (Hinv0a : inv0 ma L).
  { constructor; subst ma; simpl.
    - exact Hb.
    - rewrite (inv_count m L Hinv). apply Permutation_length in HPb. simpl in HPb. rewrite HPb. lia.
    - exact (inv_fault m L Hinv).
    - apply (dll_ext m); try reflexivity. exact (inv_dll m L Hinv).
    - eapply Permutation_trans; [apply lru_ids_perm; exact HPb|]. unfold lru_ids at 1. simpl.
      exact (inv_ids m L Hinv).
    - intros e' n He' Hn. eapply Permutation_in in He'; [|exact HPb]. destruct He' as [He'|He'].
      + subst e'. simpl in Hn. discriminate.
      + apply (inv_nkey m L Hinv); assumption.
    - exact (inv_fresh m L Hinv). }
  set (f := fun x : entry => mkE K k v (e_lru x) (e_hash x)).
  assert (Hbia : (bi < length (h_bkts ma))%nat) by (subst ma; simpl; exact Hbi).
  assert (Hntha : nth_error (b_ents (bkt (h_bkts ma) bi)) ei = Some p) by (subst ma; simpl; exact Hnth).
  destruct (inv0_upd ma L bi ei p f Hinv0a Hbia Hntha eq_refl eq_refl eq_refl) as [Hinv0b [_ [Hnthb [[rest [HPa HPb']] Hlenb]]]].
  set (mb := with_bkts K ma (upd_entry K (h_bkts ma) bi ei f)) in *.
  assert (Hbib : (bi < length (h_bkts mb))%nat) by (rewrite Hlenb; exact Hbia).
  assert (Hrest : Permutation rest (ents (h_bkts m))).
  { eapply Permutation_cons_inv. eapply Permutation_trans; [apply Permutation_sym; exact HPa|].
    subst ma; simpl. exact HPb. }
  assert (Hm1 : m1 = if lru_on K mb then lru_update K mb bi ei else mb).
  { subst m1. unfold fill_slot. rewrite Hnth. reflexivity. }
  assert (Hlogb : h_log mb = h_log m ++ [(None, 0)]) by reflexivity.
  assert (Hmaxb : h_max mb = h_max m) by reflexivity.
  assert (Hikpb : h_ikp mb = h_ikp m) by reflexivity.
  assert (Hheapb : h_heap mb = h_heap m) by reflexivity.
  assert (Halb : Permutation (map (fun x => (e_key x, e_val x)) rest) (al_of (h_bkts m))).
  { unfold al_of. apply al_of_perm. exact Hrest. }
  destruct (lru_on K mb) eqn:Hon.
  - (* LRU on: fresh node *)
    assert (Hmaxne : h_max mb <> None) by (apply lru_on_max; exact Hon).
    destruct (inv_fresh_node mb L bi ei (f p) rest Hinv0b Hmaxne Hbib Hnthb eq_refl HPb')
      as [Hi1 [HP1 [Hl1 [Hmx1 [Hik1 Hr1]]]]].
    rewrite Hm1. exists (L ++ [h_fresh mb]).
    split; [exact Hi1|]. split; [congruence|]. split; [congruence|]. split; [congruence|]. split.
    + eapply Permutation_trans; [apply al_of_cons_perm; exact HP1|]. simpl. constructor. exact Halb.
    + intros ks Hrr Hnd.
      assert (Hlo : lru_on K m = true) by (apply lru_on_max; rewrite <- Hmaxb; exact Hmaxne).
      rewrite Hlo. rewrite (rec_remove_notin K keq keq_spec).
      * apply Hr1. apply (recrel_ext m); [exact Hheapb | exact Hrr].
      * intro Hi. apply Hnk. eapply recrel_keys_in; eassumption.
  - (* LRU off *)
    assert (Hmaxn : h_max m = None).
    { destruct (h_max m) eqn:E; [|reflexivity]. exfalso.
      assert (lru_on K mb = true) by (unfold lru_on; change (h_max mb) with (h_max m); rewrite E; reflexivity). congruence. }
    rewrite Hm1. exists L. split; [|split; [exact Hmaxb | split; [exact Hikpb | split; [exact Hlogb | split]]]].
    + apply inv_split. split; [exact Hinv0b|].
      intros _ e' He'. eapply Permutation_in in He'; [|exact HPb']. destruct He' as [He'|He'].
      * subst e'. reflexivity.
      * apply (inv_on m L Hinv Hmaxn). eapply Permutation_in; [exact Hrest | exact He'].
    + eapply Permutation_trans; [apply al_of_cons_perm; exact HPb'|]. simpl. constructor. exact Halb.
    + intros ks Hrr Hnd.
      assert (Hlo : lru_on K m = false).
      { destruct (lru_on K m) eqn:E; [|reflexivity]. apply lru_on_max in E. contradiction. }
      rewrite Hlo. apply (recrel_ext m); [exact Hheapb | exact Hrr].
Qed.


(* the slot returned by _entry_add holds the key already *)
Lemma fill_old_ok : forall m L k v bs bi ei e, inv m L ->
  bwf (h_mask m) bs -> (bi < length bs)%nat ->
  nth_error (b_ents (bkt bs bi)) ei = Some e -> e_key e = k ->
  ents bs = ents (h_bkts m) ->
  let m1 := fill_slot K m bs bi ei false k v in
  exists L1, inv m1 L1 /\ h_max m1 = h_max m /\ h_ikp m1 = h_ikp m /\
    h_log m1 = h_log m ++ [(fkey m k, e_val e)] /\
    (exists rest, Permutation (al_of (h_bkts m)) ((k, e_val e) :: rest) /\
                  Permutation (al_of (h_bkts m1)) ((k, v) :: rest)) /\
    (forall ks, recrel m L ks -> NoDup ks ->
       recrel m1 L1 (if lru_on K m then rec_remove K keq k ks ++ [k] else ks)).
Proof.
  intros m L k v bs bi ei e Hinv Hb Hbi Hnth Hke Hents m1.
  set (ma := add_log K (with_count K (with_bkts K m bs) (h_count m)) (fkey m (e_key e), e_val e)).
  assert (Hinva : inv ma L).
  { constructor; subst ma; simpl; rewrite ?Hents.
    - exact Hb.
    - exact (inv_count m L Hinv).
    - exact (inv_fault m L Hinv).
    - apply (dll_ext m); try reflexivity. exact (inv_dll m L Hinv).
    - exact (inv_ids m L Hinv).
    - exact (inv_nkey m L Hinv).
    - exact (inv_on m L Hinv).
    - exact (inv_fresh m L Hinv). }
  apply inv_split in Hinva. destruct Hinva as [Hinv0a Hona].
  set (f := fun x : entry => mkE K k v (e_lru x) (e_hash x)).
  assert (Hbia : (bi < length (h_bkts ma))%nat) by (subst ma; simpl; exact Hbi).
  assert (Hntha : nth_error (b_ents (bkt (h_bkts ma) bi)) ei = Some e) by (subst ma; simpl; exact Hnth).
  destruct (inv0_upd ma L bi ei e f Hinv0a Hbia Hntha (eq_sym Hke) eq_refl eq_refl)
    as [Hinv0b [Honb [Hnthb [[rest [HPa HPb']] Hlenb]]]].
  set (mb := with_bkts K ma (upd_entry K (h_bkts ma) bi ei f)) in *.
  assert (Hbib : (bi < length (h_bkts mb))%nat) by (rewrite Hlenb; exact Hbia).
  assert (Hinvb : inv mb L) by (apply inv_split; split; [exact Hinv0b | exact (Honb Hona)]).
  assert (Hm1 : m1 = if lru_on K mb then lru_update K mb bi ei else mb).
  { subst m1. unfold fill_slot. rewrite Hnth. reflexivity. }
  assert (Hlogb : h_log mb = h_log m ++ [(fkey m k, e_val e)]) by (subst mb ma; simpl; rewrite Hke; reflexivity).
  assert (Hmaxb : h_max mb = h_max m) by reflexivity.
  assert (Hikpb : h_ikp mb = h_ikp m) by reflexivity.
  assert (Hheapb : h_heap mb = h_heap m) by reflexivity.
  assert (Hal : exists rest', Permutation (al_of (h_bkts m)) ((k, e_val e) :: rest') /\
                              Permutation (al_of (h_bkts mb)) ((k, v) :: rest')).
  { exists (map (fun x => (e_key x, e_val x)) rest). split.
    - unfold al_of. rewrite <- Hents. rewrite <- Hke.
      change (ents bs) with (ents (h_bkts ma)). apply (al_of_perm _ _ HPa).
    - apply (al_of_cons_perm (h_bkts mb) (f e) rest HPb'). }
  destruct (lru_on K mb) eqn:Hon.
  - assert (Hmaxne : h_max mb <> None) by (apply lru_on_max; exact Hon).
    destruct (inv_touch mb L bi ei (f e) Hinvb Hmaxne Hnthb Hbib) as [L' [Hi1 [Flg [Fmx [Fik [Fc [FP Hr1]]]]]]].
    rewrite Hm1. exists L'. split; [exact Hi1|]. split; [congruence|]. split; [congruence|]. split; [congruence|]. split.
    + destruct Hal as [rest' [Ha1 Ha2]]. exists rest'. split; [exact Ha1|].
      eapply Permutation_trans; [exact FP | exact Ha2].
    + intros ks Hrr Hnd.
      assert (Hlo : lru_on K m = true) by (apply lru_on_max; change (h_max m) with (h_max mb); exact Hmaxne).
      rewrite Hlo. apply (Hr1 ks); [|exact Hnd]. apply (recrel_ext m); [exact Hheapb | exact Hrr].
  - rewrite Hm1. exists L. split; [exact Hinvb|]. split; [exact Hmaxb|]. split; [exact Hikpb|]. split; [exact Hlogb|]. split.
    + exact Hal.
    + intros ks Hrr Hnd.
      assert (Hlo : lru_on K m = false) by (rewrite <- Hon; reflexivity).
      rewrite Hlo. apply (recrel_ext m); [exact Hheapb | exact Hrr].
Qed.


(* ------------------------------------------------------------------ association lists up to permutation *)
Lemma al_perm_head : forall (al : list (K * Z)) k v rest, NoDup (map fst ((k, v) :: rest)) ->
  Permutation al ((k, v) :: rest) ->
  al_find K keq k al = Some v /\ Permutation (al_remove K keq k al) rest /\ length al = S (length rest).
Proof.
  intros al k v rest Hnd HP.
  assert (Hnda : NoDup (map fst al)).
  { eapply Permutation_NoDup; [apply Permutation_map; apply Permutation_sym; exact HP | exact Hnd]. }
  split; [|split].
  - rewrite (al_find_perm K keq keq_spec k al _ HP Hnda). simpl. rewrite (keq_refl K keq keq_spec). reflexivity.
  - eapply Permutation_trans; [apply (al_remove_perm K keq); exact HP|].
    simpl. rewrite (keq_refl K keq keq_spec).
    rewrite (al_remove_notin K keq keq_spec); [apply Permutation_refl|].
    simpl in Hnd. inversion Hnd; assumption.
  - apply Permutation_length in HP. exact HP.
Qed.

Lemma keys_nodup_al : forall m L, inv m L -> NoDup (map fst (al_of (h_bkts m))).
Proof. intros m L Hinv. rewrite al_of_keys. destruct (inv_bwf m L Hinv) as [_ [_ [_ Hnd]]]. exact Hnd. Qed.

Lemma nkey_some : forall (h : heap K) n k, nkey h n = Some k -> exists x, hget K h n = Some x /\ n_key K x = k.
Proof.
  intros h n k H. unfold Hmap_inv_proofs.nkey in H. destruct (hget K h n) as [x|]; simpl in H; [|discriminate].
  inversion H. exists x. split; reflexivity.
Qed.

Lemma evict_S : forall f (m : hmap), evict K keq hashf (S f) m =
  match h_first m, h_max m with
  | Some n, Some mx =>
    if h_count m >? mx then
      match hget K (h_heap m) n with
      | None => set_fault K m
      | Some x =>
        match find_in K keq (n_key K x) (hashf (n_key K x))
                (b_ents (bkt (h_bkts m) (bidx (h_mask m) (hashf (n_key K x))))) with
        | None => set_fault K m
        | Some ei => evict K keq hashf f (entry_remove K keq m (bidx (h_mask m) (hashf (n_key K x))) ei)
        end
      end
    else m
  | _, _ => m
  end.
Proof. reflexivity. Qed.

Lemma s_evict_S : forall ikp f (al : list (K * Z)) r mx, s_evict K keq ikp (S f) al r mx =
  match r with
  | k :: r' =>
    if Z.of_nat (length al) >? mx then
      let '(al', r'', lg) := s_evict K keq ikp f (al_remove K keq k al) r' mx in
      (al', r'', ((if ikp then None else Some k), al_val K keq k al) :: lg)
    else (al, r, [])
  | [] => (al, r, [])
  end.
Proof. intros. destruct r; reflexivity. Qed.

(* the eviction loop of iwhmap_put against the specification's loop *)
Lemma evict_ok : forall fuel m L al ks mx, inv m L -> h_max m = Some mx ->
  Permutation (al_of (h_bkts m)) al -> recrel m L ks -> NoDup ks ->
  exists L' al' ks' lg,
    s_evict K keq (h_ikp m) fuel al ks mx = (al', ks', lg) /\
    inv (evict K keq hashf fuel m) L' /\
    Permutation (al_of (h_bkts (evict K keq hashf fuel m))) al' /\
    recrel (evict K keq hashf fuel m) L' ks' /\ NoDup ks' /\
    h_log (evict K keq hashf fuel m) = h_log m ++ lg /\
    h_max (evict K keq hashf fuel m) = h_max m /\ h_ikp (evict K keq hashf fuel m) = h_ikp m.
Proof.
  induction fuel as [|f IH]; intros m L al ks mx Hinv Hmx HPal Hrr Hnd.
  - exists L, al, ks, []. simpl. rewrite app_nil_r. splits; try assumption; try reflexivity.
  - rewrite evict_S, s_evict_S.
    pose proof (inv_dll m L Hinv) as Hdll. destruct Hdll as [Hfirst _].
    rewrite Hfirst, Hmx.
    destruct Hrr as [|n k L0 ks0 Hnk Hrr0].
    + simpl. exists [], al, [], []. rewrite app_nil_r.
      splits; try assumption; try reflexivity; constructor.
    + simpl hd_error. cbv iota beta.
      assert (Hcnt : h_count m = Z.of_nat (length al)).
      { rewrite (inv_count m _ Hinv). f_equal. apply Permutation_length in HPal. unfold al_of in HPal.
        rewrite map_length in HPal. exact HPal. }
      rewrite Hcnt.
      destruct (Z.of_nat (length al) >? mx) eqn:Hgt.
      2:{ exists (n :: L0), al, (k :: ks0), []. rewrite app_nil_r.
          splits; try assumption; try reflexivity. constructor; assumption. }
      destruct (nkey_some _ _ _ Hnk) as [x [Hx Hxk]]. rewrite Hx. rewrite Hxk.
      assert (Hkin : In k (keys (h_bkts m))).
      { eapply (recrel_keys_in m (n :: L0) (k :: ks0)); [exact Hinv | constructor; assumption | left; reflexivity]. }
      destruct (find_spec (h_mask m) (h_bkts m) k (inv_bwf m _ Hinv)) as [Hbi Hfind].
      destruct (find_in K keq k (hashf k) (b_ents (bkt (h_bkts m) (bidx (h_mask m) (hashf k))))) as [ei|] eqn:Hfi.
      2:{ exfalso. apply Hfind. exact Hkin. }
      destruct Hfind as [e [Hnth Hke]].
      destruct (entry_remove_ok m (n :: L0) _ ei e Hinv Hbi Hnth) as [L1 [Hinv1 [HP1 [Hlog1 [Hmx1 [Hik1 Hr1]]]]]].
      set (m1 := entry_remove K keq m (bidx (h_mask m) (hashf k)) ei) in *.
      assert (Hnda : NoDup (map fst ((k, e_val e) :: al_of (h_bkts m1)))).
      { eapply Permutation_NoDup; [|exact (keys_nodup_al m _ Hinv)].
        apply Permutation_map. unfold al_of. rewrite <- Hke. apply (al_of_perm _ _ HP1). }
      assert (HPal' : Permutation al ((k, e_val e) :: al_of (h_bkts m1))).
      { eapply Permutation_trans; [apply Permutation_sym; exact HPal|].
        unfold al_of. rewrite <- Hke. apply (al_of_perm _ _ HP1). }
      destruct (al_perm_head al k (e_val e) _ Hnda HPal') as [Hfk [HPrem Hlen]].
      destruct (proj1 (NoDup_cons_iff k ks0) Hnd) as [Hknin Hnd0].
      assert (Hrr1 : recrel m1 L1 ks0).
      { pose proof (Hr1 (k :: ks0) ltac:(constructor; assumption) Hnd) as H.
        rewrite Hke in H. unfold Hmap.rec_remove in H. simpl in H. rewrite (keq_refl K keq keq_spec) in H. simpl in H.
        fold (Hmap.rec_remove K keq k ks0) in H. rewrite (rec_remove_notin K keq keq_spec) in H; assumption. }
      destruct (IH m1 L1 (al_remove K keq k al) ks0 mx Hinv1 ltac:(congruence)
                  ltac:(apply Permutation_sym; exact HPrem) Hrr1 Hnd0)
        as [L' [al' [ks' [lg [Hse [Hi' [HP' [Hrr' [Hnd' [Hlog' [Hmx' Hik']]]]]]]]]]].
      rewrite Hik1 in Hse. rewrite Hse.
      exists L', al', ks', ((if h_ikp m then None else Some k, al_val K keq k al) :: lg).
      split; [reflexivity|]. split; [exact Hi'|]. split; [exact HP'|]. split; [exact Hrr'|]. split; [exact Hnd'|].
      split; [|split; congruence].
      rewrite Hlog', Hlog1, <- app_assoc. simpl. unfold Hmap.fkey, al_val. rewrite Hfk, Hke. reflexivity.
Qed.


(* ------------------------------------------------------------------ the simulation relation *)
Definition R (m : hmap) (s : smap K) : Prop :=
  exists L, inv m L /\ Permutation (al_of (h_bkts m)) (s_al K s) /\ recrel m L (s_rec K s) /\
            NoDup (s_rec K s) /\ s_max K s = h_max m /\ s_ikp K s = h_ikp m.

Lemma clear_log_core : forall m : hmap, core_eq m (clear_log K m).
Proof. intro m. unfold core_eq. simpl. splits; reflexivity. Qed.

Lemma R_clear_log : forall m s, R m s -> R (clear_log K m) s /\ h_log (clear_log K m) = [].
Proof.
  intros m s [L [Hi [HP [Hr [Hn [Hm Hk]]]]]]. split; [|reflexivity].
  exists L. splits; try assumption.
  - eapply inv_ext; [apply clear_log_core | exact Hi].
Qed.

Lemma R_count : forall m s, R m s -> h_count m = Z.of_nat (length (s_al K s)).
Proof.
  intros m s [L [Hi [HP _]]]. rewrite (inv_count m L Hi). f_equal.
  apply Permutation_length in HP. unfold al_of in HP. rewrite map_length in HP. exact HP.
Qed.

Lemma R_nodup_al : forall m s, R m s -> NoDup (map fst (s_al K s)).
Proof.
  intros m s [L [Hi [HP _]]]. eapply Permutation_NoDup; [apply Permutation_map; exact HP|].
  exact (keys_nodup_al m L Hi).
Qed.

Lemma lru_on_is_on : forall m s, s_max K s = h_max m -> lru_on K m = lru_is_on K s.
Proof. intros m s H. unfold lru_on, lru_is_on. rewrite H. reflexivity. Qed.

(* first half of iwhmap_put / second half of iwhmap_rename: _entry_add, kv_free_fn of the old content,
   store, recency update *)
Lemma add_fill_ok : forall m L (al : list (K * Z)) ks k v, inv m L ->
  Permutation (al_of (h_bkts m)) al -> recrel m L ks -> NoDup ks ->
  let '(bs, bi, ei, isnew) := entry_add K keq (h_bkts m) (h_mask m) k (hashf k) in
  let m1 := fill_slot K m bs bi ei isnew k v in
  exists L1, inv m1 L1 /\ h_max m1 = h_max m /\ h_ikp m1 = h_ikp m /\
    h_log m1 = h_log m ++ [match al_find K keq k al with Some ov => (fkey m k, ov) | None => (None, 0) end] /\
    Permutation (al_of (h_bkts m1)) ((k, v) :: al_remove K keq k al) /\
    recrel m1 L1 (if lru_on K m then rec_remove K keq k ks ++ [k] else ks).
Proof.
  intros m L al ks k v Hinv HPal Hrr Hnd.
  pose proof (entry_add_ok (h_mask m) (h_bkts m) k (inv_bwf m L Hinv)) as Hea.
  destruct (entry_add K keq (h_bkts m) (h_mask m) k (hashf k)) as [[[bs bi] ei] isnew].
  destruct Hea as [Hbie [Hbi [Hb' [Hlen Hcase]]]].
  assert (Hbi' : (bi < length bs)%nat) by (rewrite Hlen; exact Hbi).
  assert (Hnda : NoDup (map fst al)).
  { eapply Permutation_NoDup; [apply Permutation_map; exact HPal | exact (keys_nodup_al m L Hinv)]. }
  destruct isnew.
  - destruct Hcase as [Hnk [Hnth HPb]].
    destruct (fill_new_ok m L k v bs bi ei Hinv Hb' Hbi' Hnth HPb Hnk) as [L1 [Hi1 [Hmx1 [Hik1 [Hlog1 [HP1 Hr1]]]]]].
    assert (Hnka : ~ In k (map fst al)).
    { intro Hi. apply Hnk. rewrite <- al_of_keys. eapply Permutation_in; [|exact Hi].
      apply Permutation_map. apply Permutation_sym. exact HPal. }
    exists L1. splits; try assumption.
    + rewrite (al_find_none K keq keq_spec k al Hnka). exact Hlog1.
    + rewrite (al_remove_notin K keq keq_spec k al Hnka).
      eapply Permutation_trans; [exact HP1|]. constructor. exact HPal.
    + apply Hr1; assumption.
  - destruct Hcase as [e [Hnth [Hke Hents]]].
    destruct (fill_old_ok m L k v bs bi ei e Hinv Hb' Hbi' Hnth Hke Hents)
      as [L1 [Hi1 [Hmx1 [Hik1 [Hlog1 [[rest [HPr HPr1]] Hr1]]]]]].
    assert (HPa : Permutation al ((k, e_val e) :: rest)).
    { eapply Permutation_trans; [apply Permutation_sym; exact HPal | exact HPr]. }
    assert (Hndr : NoDup (map fst ((k, e_val e) :: rest))).
    { eapply Permutation_NoDup; [apply Permutation_map; exact HPa | exact Hnda]. }
    destruct (al_perm_head al k (e_val e) rest Hndr HPa) as [Hfk [HPrem _]].
    exists L1. splits; try assumption.
    + rewrite Hfk. exact Hlog1.
    + eapply Permutation_trans; [exact HPr1|]. constructor. apply Permutation_sym. exact HPrem.
    + apply Hr1; assumption.
Qed.


Lemma evict_nomax : forall fuel (m : hmap), h_max m = None -> evict K keq hashf fuel m = m.
Proof.
  intros fuel m H. destruct fuel as [|f]; [reflexivity|]. rewrite evict_S. rewrite H.
  destruct (h_first m); reflexivity.
Qed.

Lemma R_off_rec : forall m s, R m s -> h_max m = None -> s_rec K s = [].
Proof.
  intros m s [L [Hi [_ [Hr _]]]] Hoff.
  assert (HL : L = []).
  { assert (Hids : lru_ids (ents (h_bkts m)) = []).
    { unfold lru_ids. pose proof (inv_on m L Hi) as Hon.
      induction (ents (h_bkts m)) as [|e t IH]; [reflexivity|]. simpl.
      assert (He : e_lru e = None) by (apply (Hon Hoff); left; reflexivity).
      rewrite He. simpl. apply IH. intros _ e' He'. apply (Hon Hoff). right. exact He'. }
    pose proof (inv_ids m L Hi) as HP. rewrite Hids in HP. apply Permutation_nil in HP. exact HP. }
  subst L. inversion Hr. reflexivity.
Qed.

Lemma put_sim : forall m s k v, R m s -> h_log m = [] ->
  let m' := hput K keq hashf m k v in
  let '(s', lg) := s_put K keq s k v in
  R m' s' /\ h_log m' = lg /\ h_count m' = Z.of_nat (length (s_al K s')).
Proof.
  intros m s k v HR Hlog0.
  pose proof HR as [L [Hinv [HPal [Hrr [Hnd [Hmx Hik]]]]]].
  unfold hput, s_put.
  pose proof (add_fill_ok m L (s_al K s) (s_rec K s) k v Hinv HPal Hrr Hnd) as Haf.
  destruct (entry_add K keq (h_bkts m) (h_mask m) k (hashf k)) as [[[bs bi] ei] isnew].
  destruct Haf as [L1 [Hi1 [Hmx1 [Hik1 [Hlog1 [HP1 Hr1]]]]]].
  set (m1 := fill_slot K m bs bi ei isnew k v) in *.
  set (old := match al_find K keq k (s_al K s) with Some ov => (s_fkey K s k, ov) | None => (None, 0) end).
  assert (Hold : h_log m1 = [old]).
  { rewrite Hlog1, Hlog0. simpl. subst old. unfold s_fkey, Hmap.fkey. rewrite Hik. reflexivity. }
  set (al1 := (k, v) :: al_remove K keq k (s_al K s)) in *.
  assert (Hr1' : recrel m1 L1 (rec_touch K keq s k)).
  { unfold rec_touch. rewrite <- (lru_on_is_on m s Hmx). exact Hr1. }
  assert (Hnd1 : NoDup (rec_touch K keq s k)).
  { unfold rec_touch. destruct (lru_is_on K s); [apply (rec_touch_nodup K keq keq_spec); exact Hnd | exact Hnd]. }
  (* growth *)
  set (m2 := if h_count m1 >? h_mask m1 then rehash K keq m1 ((h_mask m1 + 1) * 2) else m1).
  assert (H2 : inv m2 L1 /\ Permutation (al_of (h_bkts m2)) al1 /\ h_heap m2 = h_heap m1 /\ h_log m2 = h_log m1 /\
               h_max m2 = h_max m1 /\ h_ikp m2 = h_ikp m1).
  { subst m2. destruct (h_count m1 >? h_mask m1).
    - destruct (inv_bwf m1 L1 Hi1) as [[kk [Hk0 Hmk]] _].
      rewrite Hmk, (ones_double kk Hk0).
      destruct (inv_rehash m1 L1 (kk + 1) Hi1 ltac:(lia)) as [Hir [HPr [Hhr [Hlr [Hmr [Hkr _]]]]]].
      splits; try assumption.
      eapply Permutation_trans; [|exact HP1]. unfold al_of. apply al_of_perm. exact HPr.
    - splits; try reflexivity; assumption. }
  destruct H2 as [Hi2 [HP2 [Hh2 [Hl2 [Hmx2 Hik2]]]]].
  assert (Hr2 : recrel m2 L1 (rec_touch K keq s k)) by (apply (recrel_ext m1); assumption).
  assert (Hcnt2 : Z.to_nat (h_count m2) = length al1).
  { rewrite (inv_count m2 L1 Hi2), Nat2Z.id. apply Permutation_length in HP2. unfold al_of in HP2.
    rewrite map_length in HP2. exact HP2. }
  fold m2. rewrite Hcnt2.
  destruct (s_max K s) as [mx|] eqn:Hsm.
  - assert (Hmx2' : h_max m2 = Some mx) by congruence.
    destruct (evict_ok (S (length al1)) m2 L1 al1 (rec_touch K keq s k) mx Hi2 Hmx2' HP2 Hr2 Hnd1)
      as [L' [al' [ks' [lg [Hse [Hi' [HP' [Hrr' [Hnd' [Hlog' [Hmx' Hik']]]]]]]]]]].
    assert (Hiks : h_ikp m2 = s_ikp K s) by congruence.
    rewrite Hiks in Hse. rewrite Hse.
    split; [|split].
    + exists L'. cbn [s_al s_rec s_max s_ikp]. splits; try assumption; congruence.
    + rewrite Hlog', Hl2, Hold. reflexivity.
    + cbn [s_al s_rec s_max s_ikp]. rewrite (inv_count _ L' Hi'). f_equal. apply Permutation_length in HP'. unfold al_of in HP'.
      rewrite map_length in HP'. exact HP'.
  - assert (Hmx2' : h_max m2 = None) by congruence.
    rewrite (evict_nomax _ m2 Hmx2').
    split; [|split].
    + exists L1. cbn [s_al s_rec s_max s_ikp]. splits; try assumption; congruence.
    + rewrite Hl2, Hold. reflexivity.
    + cbn [s_al s_rec s_max s_ikp]. rewrite (inv_count _ L1 Hi2). f_equal. apply Permutation_length in HP2. unfold al_of in HP2.
      rewrite map_length in HP2. exact HP2.
Qed.


(* lookup of a key through the bucket array against the specification's association list *)
Lemma find_sim : forall m s k, R m s ->
  let bi := bidx (h_mask m) (hashf k) in
  (bi < length (h_bkts m))%nat /\
  match find_in K keq k (hashf k) (b_ents (bkt (h_bkts m) bi)) with
  | Some ei => exists e, nth_error (b_ents (bkt (h_bkts m) bi)) ei = Some e /\ e_key e = k /\
                         al_find K keq k (s_al K s) = Some (e_val e)
  | None => al_find K keq k (s_al K s) = None
  end.
Proof.
  intros m s k HR bi.
  pose proof (R_nodup_al m s HR) as Hnds.
  destruct HR as [L [Hinv [HPal _]]].
  destruct (find_spec (h_mask m) (h_bkts m) k (inv_bwf m L Hinv)) as [Hbi Hf].
  split; [exact Hbi|]. fold bi in Hf.
  destruct (find_in K keq k (hashf k) (b_ents (bkt (h_bkts m) bi))) as [ei|].
  - destruct Hf as [e [Hnth Hke]]. exists e. splits; try assumption.
    apply (al_find_in K keq keq_spec); [exact Hnds|].
    eapply Permutation_in; [exact HPal|]. unfold al_of. rewrite <- Hke.
    apply (in_map (fun x => (e_key x, e_val x))). eapply ents_in; eassumption.
  - apply (al_find_none K keq keq_spec). intro Hi. apply Hf. rewrite <- al_of_keys.
    eapply Permutation_in; [apply Permutation_map; apply Permutation_sym; exact HPal | exact Hi].
Qed.

Lemma get_sim : forall m s k, R m s -> h_log m = [] ->
  let '(m', v) := hget_val K keq hashf m k in
  let '(s', v') := s_get K keq s k in
  R m' s' /\ v = v' /\ h_log m' = [] /\ h_count m' = Z.of_nat (length (s_al K s')).
Proof.
  intros m s k HR Hlog0. unfold hget_val, s_get.
  destruct (find_sim m s k HR) as [Hbi Hf].
  pose proof (R_count m s HR) as Hcnt.
  destruct (find_in K keq k (hashf k) (b_ents (bkt (h_bkts m) (bidx (h_mask m) (hashf k))))) as [ei|].
  - destruct Hf as [e [Hnth [Hke Hfa]]]. rewrite Hnth, Hfa.
    destruct HR as [L [Hinv [HPal [Hrr [Hnd [Hmx Hik]]]]]].
    destruct (lru_on K m) eqn:Hon.
    + assert (Hmaxne : h_max m <> None) by (apply lru_on_max; exact Hon).
      destruct (inv_touch m L _ ei e Hinv Hmaxne Hnth Hbi) as [L' [Hi' [Flg [Fmx [Fik [Fc [FP Hr']]]]]]].
      split; [|split; [reflexivity | split; [congruence | cbn [s_al]; congruence]]].
      exists L'. cbn [s_al s_rec s_max s_ikp]. splits; try assumption; try congruence.
      * eapply Permutation_trans; [exact FP | exact HPal].
      * unfold rec_touch. rewrite <- (lru_on_is_on m s Hmx), Hon.
        pose proof (Hr' _ Hrr Hnd) as Hx. rewrite Hke in Hx. exact Hx.
      * unfold rec_touch. rewrite <- (lru_on_is_on m s Hmx), Hon. apply (rec_touch_nodup K keq keq_spec). exact Hnd.
    + split; [|split; [reflexivity | split; [assumption | cbn [s_al]; assumption]]].
      exists L. cbn [s_al s_rec s_max s_ikp]. splits; try assumption.
      * unfold rec_touch. rewrite <- (lru_on_is_on m s Hmx), Hon. exact Hrr.
      * unfold rec_touch. rewrite <- (lru_on_is_on m s Hmx), Hon. exact Hnd.
  - rewrite Hf. splits; try reflexivity; assumption.
Qed.

Lemma remove_sim : forall m s k, R m s -> h_log m = [] ->
  let '(m', b) := hremove K keq hashf m k in
  let '(s', b', lg) := s_remove K keq s k in
  R m' s' /\ b = b' /\ h_log m' = lg /\ h_count m' = Z.of_nat (length (s_al K s')).
Proof.
  intros m s k HR Hlog0. unfold hremove, s_remove.
  destruct (find_sim m s k HR) as [Hbi Hf].
  pose proof (R_count m s HR) as Hcnt.
  destruct (find_in K keq k (hashf k) (b_ents (bkt (h_bkts m) (bidx (h_mask m) (hashf k))))) as [ei|].
  - destruct Hf as [e [Hnth [Hke Hfa]]]. rewrite Hfa.
    pose proof (R_nodup_al m s HR) as Hnds.
    destruct HR as [L [Hinv [HPal [Hrr [Hnd [Hmx Hik]]]]]].
    destruct (entry_remove_ok m L _ ei e Hinv Hbi Hnth) as [L1 [Hi1 [HP1 [Hlog1 [Hmx1 [Hik1 Hr1]]]]]].
    assert (HPa : Permutation (s_al K s) ((k, e_val e) :: al_of (h_bkts (entry_remove K keq m (bidx (h_mask m) (hashf k)) ei)))).
    { eapply Permutation_trans; [apply Permutation_sym; exact HPal|]. unfold al_of.
      pose proof (al_of_perm _ _ HP1) as Hx. cbn [map] in Hx. rewrite Hke in Hx. exact Hx. }
    assert (Hndr : NoDup (map fst ((k, e_val e) :: al_of (h_bkts (entry_remove K keq m (bidx (h_mask m) (hashf k)) ei))))).
    { eapply Permutation_NoDup; [apply Permutation_map; exact HPa | exact Hnds]. }
    destruct (al_perm_head (s_al K s) k (e_val e) _ Hndr HPa) as [_ [HPrem Hlen]].
    assert (HR' : R (entry_remove K keq m (bidx (h_mask m) (hashf k)) ei)
                   (mkS K (al_remove K keq k (s_al K s)) (rec_remove K keq k (s_rec K s)) (s_max K s) (s_ikp K s))).
    { exists L1. cbn [s_al s_rec s_max s_ikp]. splits; try assumption; try congruence.
      - apply Permutation_sym. exact HPrem.
      - pose proof (Hr1 _ Hrr Hnd) as Hx. rewrite Hke in Hx. exact Hx.
      - apply (rec_remove_nodup K keq). exact Hnd. }
    splits; try reflexivity.
    + exact HR'.
    + rewrite Hlog1, Hlog0. simpl. unfold s_fkey, Hmap.fkey. rewrite Hik, Hke. reflexivity.
    + apply (R_count _ _ HR').
  - rewrite Hf. splits; try reflexivity; assumption.
Qed.


Lemma rename_sim : forall m s a b, R m s -> h_log m = [] ->
  let m' := hrename K keq hashf m a b in
  let '(s', lg) := s_rename K keq s a b in
  R m' s' /\ h_log m' = lg /\ h_count m' = Z.of_nat (length (s_al K s')).
Proof.
  intros m s a b HR Hlog0. unfold hrename, s_rename.
  destruct (find_sim m s a HR) as [Hbi Hf].
  pose proof (R_count m s HR) as Hcnt.
  pose proof (R_nodup_al m s HR) as Hnds.
  set (bi := bidx (h_mask m) (hashf a)) in *.
  destruct (find_in K keq a (hashf a) (b_ents (bkt (h_bkts m) bi))) as [ei|].
  2:{ rewrite Hf. splits; try assumption. }
  destruct Hf as [e [Hnth [Hke Hfa]]]. rewrite Hnth, Hfa.
  pose proof (R_off_rec m s HR) as Hoff.
  destruct HR as [L [Hinv [HPal [Hrr [Hnd [Hmx Hik]]]]]].
  apply inv_split in Hinv. destruct Hinv as [Hinv0 Hon].
  set (f0 := fun x : entry => mkE K (e_key x) 0 (e_lru x) (e_hash x)).
  destruct (inv0_upd m L bi ei e f0 Hinv0 Hbi Hnth eq_refl eq_refl eq_refl)
    as [Hinv01 [Hon1 [Hnth1 [[rest [HPm HPm1]] Hlen1]]]].
  set (m1 := with_bkts K m (upd_entry K (h_bkts m) bi ei f0)) in *.
  assert (Hinv1 : inv m1 L) by (apply inv_split; split; [exact Hinv01 | exact (Hon1 Hon)]).
  assert (Hbi1 : (bi < length (h_bkts m1))%nat) by (rewrite Hlen1; exact Hbi).
  destruct (entry_remove_ok m1 L bi ei (f0 e) Hinv1 Hbi1 Hnth1) as [L2 [Hinv2 [HP2 [Hlog2 [Hmx2 [Hik2 Hr2]]]]]].
  set (m2 := entry_remove K keq m1 bi ei) in *.
  assert (Hrest2 : Permutation (ents (h_bkts m2)) rest).
  { apply Permutation_sym. eapply Permutation_cons_inv.
    eapply Permutation_trans; [apply Permutation_sym; exact HPm1 | exact HP2]. }
  assert (HPa : Permutation (s_al K s) ((a, e_val e) :: map (fun x => (e_key x, e_val x)) rest)).
  { eapply Permutation_trans; [apply Permutation_sym; exact HPal|].
    pose proof (al_of_cons_perm (h_bkts m) e rest HPm) as Hx. rewrite Hke in Hx. exact Hx. }
  assert (Hndr : NoDup (map fst ((a, e_val e) :: map (fun x => (e_key x, e_val x)) rest))).
  { eapply Permutation_NoDup; [apply Permutation_map; exact HPa | exact Hnds]. }
  destruct (al_perm_head (s_al K s) a (e_val e) _ Hndr HPa) as [_ [HPrem _]].
  assert (HPal2 : Permutation (al_of (h_bkts m2)) (al_remove K keq a (s_al K s))).
  { eapply Permutation_trans; [|apply Permutation_sym; exact HPrem]. unfold al_of. apply al_of_perm. exact Hrest2. }
  assert (Hrr2 : recrel m2 L2 (rec_remove K keq a (s_rec K s))).
  { pose proof (Hr2 (s_rec K s) ltac:(apply (recrel_ext m); [reflexivity | exact Hrr]) Hnd) as Hx.
    simpl in Hx. rewrite Hke in Hx. exact Hx. }
  assert (Hnd2 : NoDup (rec_remove K keq a (s_rec K s))) by (apply (rec_remove_nodup K keq); exact Hnd).
  pose proof (add_fill_ok m2 L2 (al_remove K keq a (s_al K s)) (rec_remove K keq a (s_rec K s)) b (e_val e)
                Hinv2 HPal2 Hrr2 Hnd2) as Haf.
  destruct (entry_add K keq (h_bkts m2) (h_mask m2) b (hashf b)) as [[[bs bi2] ei2] isnew].
  destruct Haf as [L3 [Hinv3 [Hmx3 [Hik3 [Hlog3 [HP3 Hr3]]]]]].
  set (m3 := fill_slot K m2 bs bi2 ei2 isnew b (e_val e)) in *.
  assert (Hlo2 : lru_on K m2 = lru_is_on K s).
  { unfold lru_on, lru_is_on. rewrite Hmx2. change (h_max m1) with (h_max m). rewrite Hmx. reflexivity. }
  assert (HR3 : R m3 (mkS K ((b, e_val e) :: al_remove K keq b (al_remove K keq a (s_al K s)))
                       (if lru_is_on K s then rec_remove K keq b (rec_remove K keq a (s_rec K s)) ++ [b] else s_rec K s)
                       (s_max K s) (s_ikp K s))).
  { exists L3. cbn [s_al s_rec s_max s_ikp]. splits; try assumption.
    - rewrite Hlo2 in Hr3. destruct (lru_is_on K s) eqn:Hlo; [exact Hr3|].
      assert (Hmn : h_max m = None).
      { unfold lru_is_on in Hlo. rewrite Hmx in Hlo. destruct (h_max m); [discriminate | reflexivity]. }
      rewrite (Hoff Hmn) in Hr3. rewrite (Hoff Hmn). exact Hr3.
    - destruct (lru_is_on K s); [apply (rec_touch_nodup K keq keq_spec); exact Hnd2 | exact Hnd].
    - rewrite Hmx3, Hmx2. change (h_max m1) with (h_max m). exact Hmx.
    - rewrite Hik3, Hik2. change (h_ikp m1) with (h_ikp m). exact Hik. }
  splits.
  - exact HR3.
  - rewrite Hlog3, Hlog2. change (h_log m1) with (h_log m). rewrite Hlog0. simpl.
    unfold s_fkey, Hmap.fkey. rewrite Hik2. change (h_ikp m1) with (h_ikp m). rewrite Hik, Hke. reflexivity.
  - apply (R_count _ _ HR3).
Qed.


Lemma log_fold : forall (g : entry -> option K * Z) (es : list entry) (a : hmap),
  let r := fold_left (fun a e => add_log K a (g e)) es a in
  core_eq a r /\ h_ikp r = h_ikp a /\ h_log r = h_log a ++ map g es.
Proof.
  intros g es. induction es as [|e t IH]; intros a; simpl.
  - unfold core_eq. rewrite app_nil_r. splits; reflexivity.
  - destruct (IH (add_log K a (g e))) as [Hc [Hi Hl]]. simpl in Hc, Hi, Hl.
    unfold core_eq in *. simpl in Hc. splits; try apply Hc; try assumption.
    rewrite Hl. simpl. rewrite <- app_assoc. reflexivity.
Qed.

Lemma min_buckets_pow : CONT_MIN_BUCKETS = 2 ^ 6.
Proof. reflexivity. Qed.

Lemma clear_sim : forall m s, R m s -> h_log m = [] ->
  let m' := hclear K m in
  let '(s', lg) := s_clear K s in
  R m' s' /\ Permutation (h_log m') lg /\ h_count m' = 0.
Proof.
  intros m s HR Hlog0. unfold hclear, s_clear.
  destruct HR as [L [Hinv [HPal [Hrr [Hnd [Hmx Hik]]]]]].
  unfold log_all.
  destruct (log_fold (fun e => (fkey m (e_key e), e_val e)) (ents (h_bkts m)) m) as [Hc1 [Hik1 Hlog1]].
  set (m1 := fold_left (fun a e => add_log K a (fkey m (e_key e), e_val e)) (ents (h_bkts m)) m) in *.
  destruct Hc1 as [Ec [Em [Eb [Eh [Efr [Ef [El [Emx Efa]]]]]]]].
  set (shrink := h_mask m1 + 1 >? CONT_MIN_BUCKETS).
  set (nb := if shrink then Z.to_nat CONT_MIN_BUCKETS else length (h_bkts m1)).
  set (mk := if shrink then CONT_MIN_BUCKETS - 1 else h_mask m1).
  set (m2 := with_mask K (with_bkts K m1 (repeat (bempty K) nb)) mk).
  assert (Hb2 : bwf mk (repeat (bempty K) nb) /\ ents (repeat (bempty K) nb) = []).
  { subst mk nb. destruct shrink.
    - rewrite min_buckets_pow. apply (bwf_empty 6). lia.
    - rewrite Em, Eb. destruct (inv_bwf m L Hinv) as [[k [Hk0 Hmk]] [Hlen _]].
      rewrite Hlen, Hmk, Z.ones_equiv. replace (Z.pred (2 ^ k) + 1) with (2 ^ k) by lia.
      replace (Z.pred (2 ^ k)) with (2 ^ k - 1) by lia. apply (bwf_empty k). exact Hk0. }
  destruct Hb2 as [Hb2 He2].
  assert (Hd2 : dll m2 L).
  { apply (dll_ext m); try assumption. exact (inv_dll m L Hinv). }
  assert (Hfuel : (length L < S (length (h_heap m2)))%nat).
  { pose proof (dll_length m2 L Hd2). lia. }
  destruct (free_chain_ok m2 L _ Hd2 Hfuel) as [Hf3 [Hh3 [Hfi3 Hla3]]].
  set (m3 := free_chain K (S (length (h_heap m2))) m2 (h_first m2)) in *.
  destruct (frame_core _ _ Hf3) as [Fc [Fm [Fb [Ffr [Fmx [Fik [Ffa Flg]]]]]]].
  set (m4 := with_count K (with_last K (with_first K m3 None) None) 0).
  assert (Hinv4 : inv m4 []).
  { constructor; subst m4; simpl; rewrite ?Fm, ?Fb, ?Ffa, ?Fmx; subst m2; simpl; rewrite ?He2.
    - exact Hb2.
    - reflexivity.
    - rewrite Efa. exact (inv_fault m L Hinv).
    - unfold Hmap_inv_proofs.dll. simpl. splits; try reflexivity; try constructor.
      + intros [].
      + intro Hx. exfalso. apply Hx. apply Hh3.
    - apply Permutation_refl.
    - intros e n [].
    - intros _ e [].
    - intros j []. }
  splits.
  - exists []. cbn [s_al s_rec s_max s_ikp].
    split; [exact Hinv4|]. split; [|split; [constructor | split; [constructor | split]]].
    + subst m4. simpl. rewrite Fb. subst m2. simpl. unfold al_of. rewrite He2. apply Permutation_refl.
    + subst m4. simpl. rewrite Fmx. subst m2. simpl. rewrite Emx. exact Hmx.
    + subst m4. simpl. rewrite Fik. subst m2. simpl. rewrite Hik1. exact Hik.
  - subst m4. simpl. rewrite Flg. subst m2. simpl. rewrite Hlog1, Hlog0. simpl.
    assert (Hg : map (fun e : entry => (fkey m (e_key e), e_val e)) (ents (h_bkts m)) =
                 map (fun p : K * Z => (s_fkey K s (fst p), snd p)) (al_of (h_bkts m))).
    { unfold al_of. rewrite map_map. apply map_ext. intro e. simpl. unfold s_fkey, Hmap.fkey. rewrite Hik. reflexivity. }
    rewrite Hg. apply Permutation_map. exact HPal.
  - reflexivity.
Qed.


Lemma keq_dec_local : forall a b : K, {a = b} + {a <> b}.
Proof.
  intros a b. destruct (keq a b) eqn:E; [left; apply keq_spec; exact E | right].
  intro Heq. apply keq_spec in Heq. congruence.
Qed.

Lemma forall2_fun : forall (h : heap K) L ks ks',
  Forall2 (fun n k => nkey h n = Some k) L ks -> Forall2 (fun n k => nkey h n = Some k) L ks' -> ks = ks'.
Proof.
  intros h L ks ks' H. revert ks'. induction H as [|n k L0 ks0 Hnk H IH]; intros ks' H'.
  - inversion H'. reflexivity.
  - inversion H' as [|n' k' L1 ks1 Hnk' H1]; subst. f_equal; [congruence | apply IH; assumption].
Qed.

Lemma lru_ids_length : forall es : list entry, (length (lru_ids es) <= length es)%nat.
Proof.
  intro es. unfold lru_ids. induction es as [|e t IH]; simpl; [lia|].
  rewrite app_length. destruct (e_lru e); simpl; lia.
Qed.

Lemma lru_sim : forall m s, R m s -> hlru K m = (if lru_is_on K s then s_rec K s else [], true).
Proof.
  intros m s HR. pose proof (R_off_rec m s HR) as Hoff.
  destruct HR as [L [Hinv [HPal [Hrr [Hnd [Hmx Hik]]]]]].
  unfold hlru.
  assert (Hlen : (length L < S (Z.to_nat (h_count m) + 4))%nat).
  { rewrite (inv_count m L Hinv), Nat2Z.id.
    pose proof (Permutation_length (inv_ids m L Hinv)) as HlL. pose proof (lru_ids_length (ents (h_bkts m))). lia. }
  destruct (lru_walk_ok m L _ (inv_dll m L Hinv) Hlen) as [ks [Hw Hf2]].
  rewrite Hw.
  assert (Hks : ks = s_rec K s) by (eapply forall2_fun; eassumption).
  destruct (inv_dll m L Hinv) as [_ [Hlast _]]. rewrite Hlast.
  assert (Hflag : (true && match lastopt L, lastopt L with
                           | Some a, Some b => Nat.eqb a b | None, None => true | _, _ => false end) = true).
  { destruct (lastopt L); simpl; [apply Nat.eqb_refl | reflexivity]. }
  rewrite Hflag. f_equal. rewrite Hks.
  destruct (lru_is_on K s) eqn:Hlo; [reflexivity|].
  apply Hoff. unfold lru_is_on in Hlo. rewrite Hmx in Hlo. destruct (h_max m); [discriminate | reflexivity].
Qed.

(* iwhmap_lru_init at any time: the entries that exist keep "no node", the recency list starts with the keys it has *)
Lemma lruinit_sim : forall m s mx, R m s -> R (hlruinit K m mx) (s_lruinit K s mx).
Proof.
  intros m s mx [L [Hinv [HPal [Hrr [Hnd [Hmx Hik]]]]]].
  exists L. unfold hlruinit, s_lruinit. cbn [s_al s_rec s_max s_ikp]. splits; try assumption; try reflexivity.
  - destruct Hinv as [H1 H2 H3 H4 H5 H6 H7 H8]. constructor; simpl; try assumption;
      try (intro Hx; discriminate); try (apply (dll_ext m); try reflexivity; exact H4).
Qed.

(* ------------------------------------------------------------------ observable equivalence and the step simulation *)
Definition out_equiv (o o' : hout K) : Prop :=
  match o, o' with
  | OPut _ n l, OPut _ n' l' => n = n' /\ l = l'
  | OGet _ v n l, OGet _ v' n' l' => v = v' /\ n = n' /\ l = l'
  | ORemove _ b n l, ORemove _ b' n' l' => b = b' /\ n = n' /\ l = l'
  | ORename _ n l, ORename _ n' l' => n = n' /\ l = l'
  | OClear _ n l, OClear _ n' l' => n = n' /\ Permutation l l'
  | OCount _ n, OCount _ n' => n = n'
  | OIter _ l, OIter _ l' => Permutation l l'
  | OLru _ l w, OLru _ l' w' => l = l' /\ w = w'
  | OLruInit _, OLruInit _ => True
  | _, _ => False
  end.

Lemma step_sim : forall m s op, R m s ->
  let '(m', o) := h_step K keq hashf m op in
  let '(s', o') := s_step K keq s op in
  R m' s' /\ out_equiv o o'.
Proof.
  intros m s op HR. destruct (R_clear_log m s HR) as [HR0 Hl0].
  unfold h_step, s_step. set (m0 := clear_log K m) in *.
  destruct op as [k v|k|k|a b| | | | |mx].
  - pose proof (put_sim m0 s k v HR0 Hl0) as H. destruct (s_put K keq s k v) as [s' lg].
    destruct H as [HR' [Hlg Hc]]. split; [exact HR'|]. simpl. split; assumption.
  - pose proof (get_sim m0 s k HR0 Hl0) as H. destruct (hget_val K keq hashf m0 k) as [m' v].
    destruct (s_get K keq s k) as [s' v']. destruct H as [HR' [Hv [Hlg Hc]]].
    split; [exact HR'|]. simpl. splits; assumption.
  - pose proof (remove_sim m0 s k HR0 Hl0) as H. destruct (hremove K keq hashf m0 k) as [m' b].
    destruct (s_remove K keq s k) as [[s' b'] lg]. destruct H as [HR' [Hb [Hlg Hc]]].
    split; [exact HR'|]. simpl. splits; assumption.
  - pose proof (rename_sim m0 s a b HR0 Hl0) as H. destruct (s_rename K keq s a b) as [s' lg].
    destruct H as [HR' [Hlg Hc]]. split; [exact HR'|]. simpl. split; assumption.
  - pose proof (clear_sim m0 s HR0 Hl0) as H. destruct (s_clear K s) as [s' lg].
    destruct H as [HR' [Hlg Hc]]. split; [exact HR'|]. simpl. split; assumption.
  - split; [exact HR0|]. simpl. apply (R_count m0 s HR0).
  - split; [exact HR0|]. simpl. destruct HR0 as [L [_ [HP _]]]. exact HP.
  - split; [exact HR0|]. rewrite (lru_sim m0 s HR0). simpl. split; reflexivity.
  - split; [apply lruinit_sim; exact HR0 | exact I].
Qed.

Lemma R_new : forall max ikp, R (hnew K max ikp) (s_new K max ikp).
Proof.
  intros max ikp. exists []. unfold hnew, s_new. cbn [s_al s_rec s_max s_ikp].
  assert (Hb : bwf (CONT_MIN_BUCKETS - 1) (repeat (bempty K) (Z.to_nat CONT_MIN_BUCKETS)) /\
               ents (repeat (bempty K) (Z.to_nat CONT_MIN_BUCKETS)) = []).
  { rewrite min_buckets_pow. apply (bwf_empty 6). lia. }
  destruct Hb as [Hb He].
  split; [|split; [|split; [constructor | split; [constructor | split; reflexivity]]]].
  - constructor; projs; rewrite ?He.
    + exact Hb.
    + reflexivity.
    + reflexivity.
    + unfold Hmap_inv_proofs.dll. projs. splits; try reflexivity; try constructor.
      * intros [].
      * intro Hx. exfalso. apply Hx. reflexivity.
    + apply Permutation_refl.
    + intros e n [].
    + intros _ e [].
    + intros j [].
  - projs. unfold al_of. rewrite He. apply Permutation_refl.
Qed.

Lemma run_sim : forall ops m s, R m s ->
  Forall2 out_equiv (h_run K keq hashf m ops) (s_run K keq s ops).
Proof.
  induction ops as [|op t IH]; intros m s HR; simpl; [constructor|].
  pose proof (step_sim m s op HR) as H.
  destruct (h_step K keq hashf m op) as [m' o]. destruct (s_step K keq s op) as [s' o'].
  destruct H as [HR' Ho]. constructor; [exact Ho | apply IH; exact HR'].
Qed.

(* every call sequence returns what the association-list specification returns *)
Theorem hmap_refines_map : forall max ikp ops,
  Forall2 out_equiv (h_run K keq hashf (hnew K max ikp) ops) (s_run K keq (s_new K max ikp) ops).
Proof. intros. apply run_sim. apply R_new. Qed.

(* the state after a call sequence *)
Fixpoint h_exec (m : hmap) (ops : list (hop K)) : hmap :=
  match ops with [] => m | op :: t => h_exec (fst (h_step K keq hashf m op)) t end.
Fixpoint s_exec (s : smap K) (ops : list (hop K)) : smap K :=
  match ops with [] => s | op :: t => s_exec (fst (s_step K keq s op)) t end.

Lemma exec_sim : forall ops m s, R m s -> R (h_exec m ops) (s_exec s ops).
Proof.
  induction ops as [|op t IH]; intros m s HR; simpl; [exact HR|].
  pose proof (step_sim m s op HR) as H.
  destruct (h_step K keq hashf m op) as [m' o]. destruct (s_step K keq s op) as [s' o'].
  destruct H as [HR' _]. apply IH. exact HR'.
Qed.

(* first/last/links of the recency list stay consistent, the heap holds exactly the listed nodes, every entry's
   node carries the entry's key, and no freed node was ever dereferenced *)
Theorem dll_wf : forall max ikp ops,
  let m := h_exec (hnew K max ikp) ops in
  exists L, dll m L /\ Permutation (lru_ids (ents (h_bkts m))) L /\
            (forall e n, In e (ents (h_bkts m)) -> e_lru e = Some n -> nkey (h_heap m) n = Some (e_key e)) /\
            h_fault m = false /\ hlru K m = (if lru_on K m then s_rec K (s_exec (s_new K max ikp) ops) else [], true).
Proof.
  intros max ikp ops m.
  pose proof (exec_sim ops _ _ (R_new max ikp)) as HR. fold m in HR.
  pose proof (lru_sim _ _ HR) as Hl.
  destruct HR as [L [Hinv [_ [_ [_ [Hmx _]]]]]].
  exists L. splits.
  - exact (inv_dll m L Hinv).
  - exact (inv_ids m L Hinv).
  - exact (inv_nkey m L Hinv).
  - exact (inv_fault m L Hinv).
  - rewrite Hl. rewrite (lru_on_is_on m _ Hmx). reflexivity.
Qed.


(* ------------------------------------------------------------------ eviction victims *)
Lemma al_find_remove_neq : forall (al : list (K * Z)) x y, x <> y ->
  al_find K keq x (al_remove K keq y al) = al_find K keq x al.
Proof.
  intros al x y Hne. induction al as [|[k' v'] t IH]; simpl; [reflexivity|].
  destruct (keq y k') eqn:Ey.
  - apply keq_spec in Ey. subst k'. rewrite IH.
    destruct (keq x y) eqn:Ex; [apply keq_spec in Ex; contradiction | reflexivity].
  - simpl. rewrite IH. reflexivity.
Qed.

Lemma in_firstn_l : forall (A : Type) n (l : list A) x, In x (firstn n l) -> In x l.
Proof.
  intros A n. induction n as [|n IH]; intros l x H; simpl in H; [contradiction|].
  destruct l; simpl in H; [contradiction|]. destruct H as [H|H]; [left; exact H | right; apply IH; exact H].
Qed.

Lemma skipn_nil_len : forall (A : Type) n (l : list A), skipn n l = [] -> (length l <= n)%nat.
Proof.
  intros A n. induction n as [|n IH]; intros l H; simpl in H.
  - subst. simpl. lia.
  - destruct l; simpl; [lia|]. apply IH in H. lia.
Qed.

Lemma s_evict_spec : forall ikp fuel (al : list (K * Z)) r mx al' r' lg,
  NoDup r -> (length r < fuel)%nat ->
  s_evict K keq ikp fuel al r mx = (al', r', lg) ->
  exists n, (n <= length r)%nat /\ r' = skipn n r /\
    lg = map (fun x => ((if ikp then None else Some x), al_val K keq x al)) (firstn n r) /\
    (Z.of_nat (length al') <= mx \/ n = length r).
Proof.
  intros ikp fuel. induction fuel as [|f IH]; intros al r mx al' r' lg Hnd Hlen Hev; [lia|].
  rewrite s_evict_S in Hev. destruct r as [|k r0].
  - inversion Hev; subst. exists 0%nat. simpl. splits; try reflexivity; try lia.
  - destruct (Z.of_nat (length al) >? mx) eqn:Hgt.
    + destruct (s_evict K keq ikp f (al_remove K keq k al) r0 mx) as [[al1 r1] lg1] eqn:Hrec.
      inversion Hev; subst. inversion Hnd as [|k' r0' Hkn Hnd0]; subst.
      destruct (IH _ _ _ _ _ _ Hnd0 ltac:(simpl in Hlen; lia) Hrec) as [n [Hn [Hr [Hl Hor]]]].
      exists (S n). simpl. splits; try lia; try assumption.
      * f_equal. rewrite Hl. apply map_ext_in. intros x Hx. f_equal. unfold al_val.
        rewrite al_find_remove_neq; [reflexivity|]. intro Heq. subst x. apply Hkn.
        eapply in_firstn_l. exact Hx.
    + inversion Hev; subst. exists 0%nat.
      assert (Hle : Z.of_nat (length al') <= mx).
      { rewrite Z.gtb_ltb in Hgt. apply Z.ltb_ge in Hgt. exact Hgt. }
      simpl. splits; try reflexivity; try lia.
Qed.

(* the keys evicted by a put are the least recently used ones, oldest first, and eviction only stops when the
   bound holds or nothing is left *)
Theorem lru_victims_oldest : forall m s k v mx, R m s -> h_log m = [] -> h_max m = Some mx ->
  let m' := hput K keq hashf m k v in
  let r := rec_touch K keq s k in
  let al := (k, v) :: al_remove K keq k (s_al K s) in
  exists n, (n <= length r)%nat /\
    tl (h_log m') = map (fun x => (fkey m x, al_val K keq x al)) (firstn n r) /\
    (h_count m' <= mx \/ n = length r).
Proof.
  intros m s k v mx HR Hl0 Hmx m' r al.
  pose proof (put_sim m s k v HR Hl0) as Hps. fold m' in Hps.
  pose proof (R_nodup_al m s HR) as Hnds.
  destruct HR as [L [Hinv [HPal [Hrr [Hnd [Hsm Hik]]]]]].
  unfold s_put in Hps. fold r al in Hps. rewrite Hsm, Hmx in Hps.
  destruct (s_evict K keq (s_ikp K s) (S (length al)) al r mx) as [[al' r'] lg] eqn:Hev.
  destruct Hps as [_ [Hlog Hcnt]]. cbn [s_al] in Hcnt.
  assert (Hndr : NoDup r).
  { subst r. unfold rec_touch. destruct (lru_is_on K s); [apply (rec_touch_nodup K keq keq_spec); exact Hnd | exact Hnd]. }
  assert (Hincl : incl r (map fst al)).
  { intros x Hx. subst r al. unfold rec_touch in Hx. simpl.
    assert (Hxs : In x (s_rec K s) -> x <> k -> In x (map fst (al_remove K keq k (s_al K s)))).
    { intros Hi Hne. apply (al_remove_keys K keq keq_spec). split; [|exact Hne].
      eapply Permutation_in; [apply Permutation_map; exact HPal|]. rewrite al_of_keys.
      eapply recrel_keys_in; eassumption. }
    destruct (lru_is_on K s).
    - apply in_app_or in Hx. destruct Hx as [Hx|[Hx|[]]]; [|left; exact Hx].
      apply (rec_remove_in K keq keq_spec) in Hx. destruct Hx as [Hx Hne]. right. apply Hxs; assumption.
    - destruct (keq_dec_local x k) as [->|Hne]; [left; reflexivity | right; apply Hxs; assumption]. }
  assert (Hfuel : (length r < S (length al))%nat).
  { pose proof (NoDup_incl_length Hndr Hincl) as Hle. rewrite map_length in Hle. lia. }
  destruct (s_evict_spec _ _ _ _ _ _ _ _ Hndr Hfuel Hev) as [n [Hn [Hr' [Hlg Hor]]]].
  exists n. splits; [exact Hn | | ].
  - rewrite Hlog. simpl. rewrite Hlg. apply map_ext. intro x. unfold Hmap.fkey. rewrite Hik. reflexivity.
  - destruct Hor as [Hor|Hor]; [left; rewrite Hcnt; exact Hor | right; exact Hor].
Qed.


(* the same for any state reached by a call sequence *)
Theorem lru_victims_oldest_run : forall max ikp ops k v mx,
  let m := clear_log K (h_exec (hnew K max ikp) ops) in
  let s := s_exec (s_new K max ikp) ops in
  h_max m = Some mx ->
  let m' := hput K keq hashf m k v in
  let r := rec_touch K keq s k in
  let al := (k, v) :: al_remove K keq k (s_al K s) in
  exists n, (n <= length r)%nat /\
    tl (h_log m') = map (fun x => (fkey m x, al_val K keq x al)) (firstn n r) /\
    (h_count m' <= mx \/ n = length r).
Proof.
  intros max ikp ops k v mx m s Hmx.
  pose proof (exec_sim ops _ _ (R_new max ikp)) as HR.
  destruct (R_clear_log _ _ HR) as [HR0 Hl0].
  exact (lru_victims_oldest m s k v mx HR0 Hl0 Hmx).
Qed.


(* ------------------------------------------------------------------ every value is freed exactly once *)
Definition nz (l : list Z) : list Z := filter (fun v => negb (v =? 0)) l.
Definition out_log (o : hout K) : flog K :=
  match o with
  | OPut _ _ l | OGet _ _ _ l | ORemove _ _ _ l | ORename _ _ l | OClear _ _ l => l
  | _ => []
  end.
Definition op_ins (op : hop K) : list Z := match op with HPut _ _ v => [v] | _ => [] end.
Definition vals (al : list (K * Z)) : list Z := map snd al.
Definition lvals (l : flog K) : list Z := map snd l.

Lemma nz_app : forall a b, nz (a ++ b) = nz a ++ nz b.
Proof. intros. unfold nz. apply filter_app. Qed.
Lemma nz_perm : forall a b, Permutation a b -> Permutation (nz a) (nz b).
Proof. intros. unfold nz. apply filter_perm. assumption. Qed.

Lemma al_find_none_inv : forall k (al : list (K * Z)), al_find K keq k al = None -> ~ In k (map fst al).
Proof.
  intros k al. induction al as [|[k' v'] t IH]; simpl; intros H Hi; [contradiction|].
  destruct (keq k k') eqn:E; [discriminate|]. destruct Hi as [Hi|Hi].
  - subst k'. rewrite (keq_refl K keq keq_spec) in E. discriminate.
  - exact (IH H Hi).
Qed.

Lemma vals_remove : forall k (al : list (K * Z)), NoDup (map fst al) ->
  Permutation (nz (vals al)) (nz (al_val K keq k al :: vals (al_remove K keq k al))).
Proof.
  intros k al Hnd. unfold al_val. destruct (al_find K keq k al) as [v|] eqn:Hf.
  - apply nz_perm. apply (al_find_some_in K keq keq_spec) in Hf.
    assert (HP : Permutation al ((k, v) :: al_remove K keq k al)).
    { revert Hf Hnd. induction al as [|[k' v'] t IH]; simpl; intros Hf Hnd; [contradiction|].
      inversion Hnd as [|x l Hni Hnd']; subst. destruct Hf as [Hf|Hf].
      - inversion Hf; subst. rewrite (keq_refl K keq keq_spec).
        rewrite (al_remove_notin K keq keq_spec); [apply Permutation_refl | exact Hni].
      - destruct (keq k k') eqn:E.
        + apply keq_spec in E. subst k'. exfalso. apply Hni. change k with (fst (k, v)). apply in_map. exact Hf.
        + eapply Permutation_trans; [constructor; apply IH; assumption | apply perm_swap]. }
    unfold vals. apply (Permutation_map snd) in HP. exact HP.
  - apply al_find_none_inv in Hf. rewrite (al_remove_notin K keq keq_spec _ _ Hf). simpl. apply Permutation_refl.
Qed.

Lemma s_evict_vals : forall ikp fuel (al : list (K * Z)) r mx al' r' lg, NoDup (map fst al) ->
  s_evict K keq ikp fuel al r mx = (al', r', lg) ->
  Permutation (nz (vals al)) (nz (lvals lg ++ vals al')) /\ NoDup (map fst al').
Proof.
  intros ikp fuel. induction fuel as [|f IH]; intros al r mx al' r' lg Hnd Hev.
  - simpl in Hev. inversion Hev; subst. simpl. split; [apply Permutation_refl | exact Hnd].
  - rewrite s_evict_S in Hev. destruct r as [|k r0].
    + inversion Hev; subst. simpl. split; [apply Permutation_refl | exact Hnd].
    + destruct (Z.of_nat (length al) >? mx).
      * destruct (s_evict K keq ikp f (al_remove K keq k al) r0 mx) as [[al1 r1] lg1] eqn:Hrec.
        inversion Hev; subst.
        destruct (IH _ _ _ _ _ _ (al_remove_nodup K keq keq_spec k al Hnd) Hrec) as [HP1 Hnd1].
        split; [|exact Hnd1].
        eapply Permutation_trans; [apply (vals_remove k al Hnd)|].
        simpl lvals. simpl app.
        change (al_val K keq k al :: vals (al_remove K keq k al)) with ([al_val K keq k al] ++ vals (al_remove K keq k al)).
        change (al_val K keq k al :: lvals lg1 ++ vals al') with ([al_val K keq k al] ++ (lvals lg1 ++ vals al')).
        rewrite !nz_app. rewrite nz_app in HP1. apply Permutation_app_head. exact HP1.
      * inversion Hev; subst. simpl. split; [apply Permutation_refl | exact Hnd].
Qed.

Lemma nz_cons : forall x l, nz (x :: l) = nz [x] ++ nz l.
Proof. intros. change (x :: l) with ([x] ++ l). apply nz_app. Qed.

Lemma perm_put_helper : forall v o A B C, Permutation (nz A) (nz (o :: B)) -> Permutation (nz (v :: B)) (nz C) ->
  Permutation (nz (v :: A)) (nz (o :: C)).
Proof.
  intros v o A B C H1 H2. rewrite (nz_cons v A), (nz_cons o C).
  eapply Permutation_trans; [apply Permutation_app_head; exact H1|].
  rewrite (nz_cons o B).
  eapply Permutation_trans; [apply Permutation_app_swap_app|].
  apply Permutation_app_head. rewrite <- nz_cons. exact H2.
Qed.

Lemma s_step_vals : forall s op, NoDup (map fst (s_al K s)) ->
  let '(s', o') := s_step K keq s op in
  Permutation (nz (op_ins op ++ vals (s_al K s))) (nz (lvals (out_log o') ++ vals (s_al K s'))) /\
  NoDup (map fst (s_al K s')).
Proof.
  intros s op Hnd. destruct op as [k v|k|k|a b| | | | |mx]; unfold s_step.
  - (* put *)
    unfold s_put.
    assert (Hnd1 : NoDup (map fst ((k, v) :: al_remove K keq k (s_al K s)))).
    { simpl. constructor; [|apply (al_remove_nodup K keq keq_spec); exact Hnd].
      intro Hi. apply (al_remove_keys K keq keq_spec) in Hi. destruct Hi as [_ Hne]. congruence. }
    set (old := match al_find K keq k (s_al K s) with Some ov => (s_fkey K s k, ov) | None => (None, 0) end).
    assert (Hold : Permutation (nz (vals (s_al K s))) (nz (snd old :: vals (al_remove K keq k (s_al K s))))).
    { pose proof (vals_remove k (s_al K s) Hnd) as H. unfold al_val in H. subst old.
      destruct (al_find K keq k (s_al K s)); exact H. }
    destruct (s_max K s) as [mx|].
    + destruct (s_evict K keq (s_ikp K s) (S (length ((k, v) :: al_remove K keq k (s_al K s))))
                  ((k, v) :: al_remove K keq k (s_al K s)) (rec_touch K keq s k) mx) as [[al' r'] lg] eqn:Hev.
      destruct (s_evict_vals _ _ _ _ _ _ _ _ Hnd1 Hev) as [HPe Hnde].
      cbn [s_al out_log op_ins]. split; [|exact Hnde].
      change (nz ([v] ++ vals (s_al K s))) with (nz (v :: vals (s_al K s))).
      change (lvals (old :: lg) ++ vals al') with (snd old :: (lvals lg ++ vals al')).
      eapply perm_put_helper; [exact Hold | exact HPe].
    + cbn [s_al out_log op_ins]. split; [|exact Hnd1].
      change (nz ([v] ++ vals (s_al K s))) with (nz (v :: vals (s_al K s))).
      change (lvals [old] ++ vals ((k, v) :: al_remove K keq k (s_al K s)))
        with (snd old :: (v :: vals (al_remove K keq k (s_al K s)))).
      eapply perm_put_helper; [exact Hold | apply Permutation_refl].
  - (* get *)
    unfold s_get. destruct (al_find K keq k (s_al K s)); cbn [s_al out_log op_ins]; simpl; split; try apply Permutation_refl; exact Hnd.
  - (* remove *)
    unfold s_remove. destruct (al_find K keq k (s_al K s)) as [v|] eqn:Hf; cbn [s_al out_log op_ins]; simpl app.
    + split; [|apply (al_remove_nodup K keq keq_spec); exact Hnd].
      pose proof (vals_remove k (s_al K s) Hnd) as H. unfold al_val in H. rewrite Hf in H. exact H.
    + split; [apply Permutation_refl | exact Hnd].
  - (* rename *)
    unfold s_rename. destruct (al_find K keq a (s_al K s)) as [v|] eqn:Hf; cbn [s_al out_log op_ins]; simpl app.
    2:{ split; [apply Permutation_refl | exact Hnd]. }
    set (al1 := al_remove K keq a (s_al K s)).
    assert (Hnd1 : NoDup (map fst al1)) by (apply (al_remove_nodup K keq keq_spec); exact Hnd).
    split.
    2:{ simpl. constructor; [|apply (al_remove_nodup K keq keq_spec); exact Hnd1].
        intro Hi. apply (al_remove_keys K keq keq_spec) in Hi. destruct Hi as [_ Hne]. congruence. }
    pose proof (vals_remove a (s_al K s) Hnd) as H1. unfold al_val in H1. rewrite Hf in H1. fold al1 in H1.
    pose proof (vals_remove b al1 Hnd1) as H2. unfold al_val in H2.
    set (old := match al_find K keq b al1 with Some ov => (s_fkey K s b, ov) | None => (None, 0) end).
    assert (H2' : Permutation (nz (vals al1)) (nz (snd old :: vals (al_remove K keq b al1)))).
    { subst old. destruct (al_find K keq b al1); exact H2. }
    eapply Permutation_trans; [exact H1|].
    change (lvals [(s_fkey K s a, 0); old] ++ vals ((b, v) :: al_remove K keq b al1))
      with (0 :: (snd old :: (v :: vals (al_remove K keq b al1)))).
    assert (Hz : forall l, nz (0 :: l) = nz l) by reflexivity. rewrite Hz.
    eapply perm_put_helper; [exact H2' | apply Permutation_refl].
  - (* clear *)
    unfold s_clear. cbn [s_al out_log op_ins]. simpl app. split; [|constructor].
    unfold lvals, vals. rewrite map_map. simpl. rewrite app_nil_r. apply Permutation_refl.
  - simpl. split; [apply Permutation_refl | exact Hnd].
  - simpl. split; [apply Permutation_refl | exact Hnd].
  - simpl. split; [apply Permutation_refl | exact Hnd].
  - simpl. split; [apply Permutation_refl | exact Hnd].
Qed.


Fixpoint puts (ops : list (hop K)) : list Z :=
  match ops with [] => [] | op :: t => op_ins op ++ puts t end.
Definition freed (outs : list (hout K)) : list Z := flat_map (fun o => lvals (out_log o)) outs.

Lemma s_run_vals : forall ops s, NoDup (map fst (s_al K s)) ->
  Permutation (nz (puts ops ++ vals (s_al K s)))
              (nz (freed (s_run K keq s ops) ++ vals (s_al K (s_exec s ops)))).
Proof.
  induction ops as [|op t IH]; intros s Hnd; simpl; [apply Permutation_refl|].
  pose proof (s_step_vals s op Hnd) as Hst.
  destruct (s_step K keq s op) as [s' o'] eqn:Hs. destruct Hst as [HP Hnd']. simpl.
  specialize (IH s' Hnd').
  rewrite <- !app_assoc. rewrite !nz_app in *.
  eapply Permutation_trans; [apply Permutation_app_swap_app|].
  eapply Permutation_trans; [apply Permutation_app_head; exact HP|].
  eapply Permutation_trans; [apply Permutation_app_swap_app|].
  apply Permutation_app_head. exact IH.
Qed.

Lemma out_equiv_log : forall o o', out_equiv o o' -> Permutation (lvals (out_log o)) (lvals (out_log o')).
Proof.
  intros o o' H. destruct o, o'; simpl in H; try contradiction; simpl;
    try apply Permutation_refl; try (destruct H as [? ?]); try (destruct H0 as [? ?]); subst; try apply Permutation_refl.
  apply Permutation_map. assumption.
Qed.

Lemma freed_equiv : forall outs outs', Forall2 out_equiv outs outs' -> Permutation (freed outs) (freed outs').
Proof.
  intros outs outs' H. induction H as [|o o' t t' Ho H IH]; simpl; [constructor|].
  apply Permutation_app; [apply out_equiv_log; exact Ho | exact IH].
Qed.

(* Every non-null value handed to put is, as a multiset, either still in the map or was passed to the free callback:
   nothing is freed twice, nothing that left the map is forgotten.  After a final clear the map holds nothing, so
   the values put and the values freed coincide. *)
Theorem freed_exactly_once : forall max ikp ops,
  Permutation (nz (puts ops))
    (nz (freed (h_run K keq hashf (hnew K max ikp) ops) ++
         map snd (hiter K (h_exec (hnew K max ikp) ops)))).
Proof.
  intros max ikp ops.
  pose proof (s_run_vals ops (s_new K max ikp) ltac:(constructor)) as Hs.
  simpl (vals (s_al K (s_new K max ikp))) in Hs. rewrite app_nil_r in Hs.
  eapply Permutation_trans; [exact Hs|]. apply nz_perm. apply Permutation_app.
  - apply Permutation_sym. apply freed_equiv. apply hmap_refines_map.
  - pose proof (exec_sim ops _ _ (R_new max ikp)) as [L [_ [HP _]]].
    unfold vals, hiter. apply Permutation_map. apply Permutation_sym. exact HP.
Qed.

Lemma nodup_app_l : forall (A : Type) (a b : list A), NoDup (a ++ b) -> NoDup a.
Proof.
  intros A a b. induction a as [|x t IH]; simpl; intro H; [constructor|].
  inversion H as [|y l Hni Hnd]; subst. constructor; [|apply IH; exact Hnd].
  intro Hi. apply Hni. apply in_or_app. left. exact Hi.
Qed.

Corollary freed_exactly_once_nodup : forall max ikp ops, NoDup (nz (puts ops)) ->
  NoDup (nz (freed (h_run K keq hashf (hnew K max ikp) ops))).
Proof.
  intros max ikp ops Hnd.
  pose proof (Permutation_NoDup (freed_exactly_once max ikp ops) Hnd) as H.
  rewrite nz_app in H. apply nodup_app_l in H. exact H.
Qed.

End HP.
