(* C18 - the ring buffer at full strength: for EVERY capacity and EVERY sequence of put / back / clear the ring of
   UT/Rb.v behaves exactly like the reference g_step (wrapped flag + newest-first list; back on a wrapped ring is a
   rotation because the ring has no count field).  Corollaries: puts heal the ring, the bounded-deque statement is
   refuted after a back on a wrapped ring, the iterator stays at NULL, the fuel of rb_iter is never the limit. *)
Require Import ZArith List Bool Lia.
Require Import IW.UT.Rb IW.UT.Rb_proofs.
Import ListNotations.
Local Open Scope Z_scope.
Local Arguments r_pos {U} r.
Local Arguments r_len {U} r.
Local Arguments r_buf {U} r.
Local Arguments mkRB {U} r_pos r_len r_buf.

Lemma mod_shift : forall a b k len, a = b + k * len -> a mod len = b mod len.
Proof. intros a b k len E. rewrite E. apply Z_mod_plus_full. Qed.

Section Ring.
Variable U : Type.
Variable dflt : U.
Variable len : Z.
Hypothesis Hlen : 0 < len.

Notation rel := (rb_rel U dflt len).

Lemma slot_back : forall (r : rb U) i, slot U dflt (rb_back U r) i = slot U dflt r i.
Proof.
  intros r i. unfold slot, rb_back.
  destruct (r_pos r >? 1); [reflexivity |]. destruct (r_pos r =? 1); [reflexivity |].
  destruct (r_pos r <? 0); reflexivity.
Qed.

Lemma rel_wrapped_full : forall r d, rel r d -> 0 < r_pos r -> Z.of_nat (length d) = len /\ 1 <= r_pos r <= len.
Proof.
  intros r d [_ [_ [[Hp _] | [Hp [Hn _]]]]] Hw; [lia | split; [exact Hn | exact Hp]].
Qed.

Lemma rel_unwrapped : forall r d, rel r d -> r_pos r <= 0 -> r_pos r = - Z.of_nat (length d) /\ Z.of_nat (length d) <= len.
Proof.
  intros r d [_ [_ [[Hp [Hn _]] | [Hp _]]]] Hw; [split; assumption | lia].
Qed.

(* back on a wrapped ring = rotation: the newest unit becomes the oldest *)
Lemma rb_back_rel_wrapped : forall r d, rel r d -> 0 < r_pos r ->
  rel (rb_back U r) (tl d ++ firstn 1 d) /\ 0 < r_pos (rb_back U r).
Proof.
  intros r d Hrel Hw.
  destruct Hrel as [Hrl [Hbuf [[Hp _] | [Hp [Hn Hnth]]]]]; [lia |].
  destruct d as [| a t]; [cbn [length] in Hn; lia |].
  cbn [tl firstn]. cbn [length] in Hn.
  set (p' := if r_pos r >? 1 then r_pos r - 1 else len).
  assert (Hback : r_pos (rb_back U r) = p' /\ r_len (rb_back U r) = r_len r /\ r_buf (rb_back U r) = r_buf r).
  { unfold rb_back, p'. destruct (r_pos r >? 1) eqn:E1; [cbn; repeat split |].
    assert (E2 : (r_pos r =? 1) = true) by (apply Z.eqb_eq; destruct (Z.gtb_spec (r_pos r) 1); [discriminate | lia]).
    rewrite E2. cbn. rewrite Hrl. repeat split. }
  destruct Hback as [Hbp [Hbl Hbb]].
  assert (Hp' : 1 <= p' <= len /\ exists k, p' = r_pos r - 1 + k * len).
  { unfold p'. destruct (Z.gtb_spec (r_pos r) 1).
    - split; [lia |]. exists 0. lia.
    - split; [lia |]. exists 1. lia. }
  destruct Hp' as [Hp'r [k Hk]].
  split; [| rewrite Hbp; lia].
  unfold rb_rel. rewrite Hbl, Hbb, Hbp. split; [exact Hrl |]. split; [exact Hbuf |].
  right. split; [exact Hp'r |].
  assert (Hlt : length (t ++ [a]) = S (length t)) by (rewrite app_length; cbn [length]; lia).
  split; [rewrite Hlt; lia |].
  intros i Hi. rewrite Hlt in Hi.
  assert (Hs : forall j, slot U dflt (rb_back U r) j = slot U dflt r j) by (intro j; apply slot_back).
  rewrite Hs.
  destruct (Nat.eq_dec i (length t)) as [Ei | Ni].
  - (* the last position holds the former newest unit *)
    subst i. rewrite nth_error_app2 by lia. rewrite Nat.sub_diag. cbn [nth_error].
    specialize (Hnth 0%nat). cbn [nth_error] in Hnth. rewrite Hnth by (cbn [length]; lia).
    f_equal. f_equal. apply (mod_shift _ _ (1 - k)). clearbody p'. nia.
  - rewrite nth_error_app1 by lia.
    specialize (Hnth (S i)). cbn [nth_error] in Hnth. rewrite Hnth by (cbn [length]; lia).
    f_equal. f_equal. symmetry. apply (mod_shift _ _ k). clearbody p'. nia.
Qed.

Lemma d_put_full : forall (d : list U) x, Z.of_nat (length d) = len -> d_put U len d x = x :: removelast d.
Proof.
  intros d x Hn. unfold d_put.
  destruct d as [| a t]; [cbn [length] in Hn; lia |].
  assert (H := app_removelast_last a (l := a :: t) ltac:(discriminate)).
  set (rl := removelast (a :: t)) in *. set (la := last (a :: t) a) in *.
  clearbody rl la.
  assert (Hl : Z.to_nat len = S (length rl)).
  { apply (f_equal (@length U)) in H. rewrite app_length in H. cbn [length] in H, Hn. lia. }
  rewrite Hl. cbn [firstn]. f_equal. rewrite H.
  rewrite firstn_app, Nat.sub_diag, firstn_all. cbn [firstn]. apply app_nil_r.
Qed.

(* ---------------------------------------------------------------- one step / whole runs *)
Definition grel (r : rb U) (s : bool * list U) : Prop := rel r (snd s) /\ fst s = (0 <? r_pos r).

Lemma g_step_rel : forall r s op, grel r s -> grel (rb_step U r op) (g_step U len s op).
Proof.
  intros r [w d] op [Hrel Hw]. cbn [fst snd] in Hrel, Hw.
  destruct op as [x | |]; cbn [rb_step g_step].
  - destruct (rb_put_rel U dflt len Hlen r d x Hrel) as [Hrel' [Hlt Hge]].
    split; [exact Hrel' |]. cbn [fst].
    destruct (Z.of_nat (length d) <? len) eqn:E.
    + destruct (Hlt eq_refl) as [_ Hf]. rewrite Hf, <- Hw.
      assert (E' : (len <=? Z.of_nat (length d)) = false) by (apply Z.leb_gt; apply Z.ltb_lt; exact E).
      rewrite E'. apply orb_false_r.
    + destruct (Hge eq_refl) as [_ Hf]. rewrite Hf.
      assert (E' : (len <=? Z.of_nat (length d)) = true) by (apply Z.leb_le; apply Z.ltb_ge; exact E).
      rewrite E'. apply orb_true_r.
  - destruct w.
    + symmetry in Hw. apply Z.ltb_lt in Hw.
      destruct (rb_back_rel_wrapped r d Hrel Hw) as [Hrel' Hp'].
      split; [exact Hrel' |]. cbn [fst]. symmetry. apply Z.ltb_lt. exact Hp'.
    + symmetry in Hw. apply Z.ltb_ge in Hw.
      assert (Hrel' := rb_back_rel U dflt len Hlen r d Hrel Hw).
      split; [exact Hrel' |]. cbn [fst]. symmetry. apply Z.ltb_ge.
      destruct (rel_unwrapped r d Hrel Hw) as [Hp _].
      unfold rb_back.
      destruct (r_pos r >? 1) eqn:E1; [apply Z.gtb_lt in E1; lia |].
      destruct (r_pos r =? 1) eqn:E2; [apply Z.eqb_eq in E2; lia |].
      destruct (r_pos r <? 0) eqn:E3; cbn [r_pos]; [apply Z.ltb_lt in E3; lia | lia].
  - split; [apply (rb_clear_rel U dflt len Hlen r d Hrel) |]. reflexivity.
Qed.

Lemma g_create_rel : grel (rb_create U dflt len) (false, []).
Proof. split; [apply rb_create_rel; exact Hlen | reflexivity]. Qed.

Lemma g_run_refines : forall ops r s, grel r s -> rb_run U dflt r ops = g_run U len s ops.
Proof.
  induction ops as [| op t IH]; intros r s Hg; [reflexivity |].
  cbn [rb_run g_run]. cbv zeta.
  assert (Hg' := g_step_rel r s op Hg).
  destruct Hg' as [Hrel' Hw'].
  rewrite (rb_obs_rel U dflt len Hlen _ _ Hrel'). f_equal.
  apply IH. split; assumption.
Qed.

Lemma g_exec_rel : forall ops r s, grel r s -> grel (rb_exec U r ops) (g_exec U len s ops).
Proof.
  induction ops as [| op t IH]; intros r s Hg; [exact Hg |].
  unfold rb_exec, g_exec. cbn [fold_left]. apply IH. apply g_step_rel. exact Hg.
Qed.

(* ---------------------------------------------------------------- puts heal the ring *)
Lemma firstn_app_firstn_le : forall (l m : list U) n k, (n <= k)%nat ->
  firstn n (l ++ firstn k m) = firstn n (l ++ m).
Proof.
  induction l as [| a l IH]; intros m n k Hnk.
  - cbn [app]. rewrite firstn_firstn. f_equal. lia.
  - destruct n as [| n]; [reflexivity |].
    change (a :: firstn n (l ++ firstn k m) = a :: firstn n (l ++ m)). f_equal. apply IH. lia.
Qed.

Lemma g_exec_puts : forall (xs : list U) w d,
  snd (g_exec U len (w, d) (map (RPut U) xs)) = firstn (Z.to_nat len) (rev xs ++ d) \/ xs = [].
Proof.
  induction xs as [| x t IH]; intros w d; [right; reflexivity |]. left.
  unfold g_exec. cbn [map fold_left g_step].
  destruct (IH (w || (len <=? Z.of_nat (length d))) (d_put U len d x)) as [H | H].
  - unfold g_exec in H. rewrite H. unfold d_put.
    cbn [rev]. rewrite <- app_assoc. cbn [app].
    apply firstn_app_firstn_le. lia.
  - subst t. cbn [map fold_left rev app snd]. reflexivity.
Qed.

Theorem rb_put_heals : forall ops xs, (Z.to_nat len <= length xs)%nat ->
  let r := rb_exec U (rb_create U dflt len) (ops ++ map (RPut U) xs) in
  rb_iter U dflt r = firstn (Z.to_nat len) (rev xs) /\
  rb_num_cached U r = len /\
  rb_peek U dflt r = hd_error (rev xs).
Proof.
  intros ops xs Hk r.
  assert (Hg : grel r (g_exec U len (false, []) (ops ++ map (RPut U) xs))).
  { unfold r. apply g_exec_rel. apply g_create_rel. }
  unfold g_exec in Hg. rewrite fold_left_app in Hg.
  destruct (fold_left (g_step U len) ops (false, [])) as [w d] eqn:Es.
  destruct (g_exec_puts xs w d) as [Hd | Hnil].
  2:{ subst xs. cbn [length] in Hk. lia. }
  unfold g_exec in Hd.
  destruct Hg as [Hrel _]. rewrite Hd in Hrel.
  assert (Hcut : firstn (Z.to_nat len) (rev xs ++ d) = firstn (Z.to_nat len) (rev xs)).
  { rewrite firstn_app.
    replace (Z.to_nat len - length (rev xs))%nat with 0%nat by (rewrite rev_length; lia).
    cbn [firstn]. apply app_nil_r. }
  rewrite Hcut in Hrel.
  split; [apply (rb_iter_rel U dflt len Hlen); exact Hrel |].
  split.
  - rewrite (rb_num_rel U dflt len Hlen _ _ Hrel). rewrite firstn_length, rev_length. lia.
  - rewrite (rb_peek_rel U dflt len Hlen _ _ Hrel).
    destruct (rev xs) as [| y l] eqn:Er.
    + apply (f_equal (@length U)) in Er. rewrite rev_length in Er. cbn [length] in Er. lia.
    + destruct (Z.to_nat len) as [| n] eqn:En; [lia |]. reflexivity.
Qed.

(* ---------------------------------------------------------------- the iterator *)
(* once iwrb_iter_prev has returned NULL it keeps returning NULL (the state it left is a fixed point) *)
Theorem it_prev_null_stays : forall (r : rb U) st st', it_prev U dflt r st = (None, st') ->
  it_prev U dflt r st' = (None, st').
Proof.
  intros r [pos ipos] st' H. unfold it_prev in H.
  destruct (ipos =? 0) eqn:E0.
  - inversion H; subst. unfold it_prev. rewrite E0. reflexivity.
  - destruct (r_pos r <? 0) eqn:E1.
    + destruct (pos =? 0) eqn:E2; [| discriminate].
      inversion H; subst. unfold it_prev. rewrite E0, E1, E2. reflexivity.
    + destruct (ipos <? 0); [discriminate |].
      destruct (ipos =? (if pos =? 0 then r_len r else pos)); [| discriminate].
      inversion H; subst. unfold it_prev. reflexivity.
Qed.

(* the fuel of rb_iter is never what ends the iteration: any larger bound gives the same units *)
Theorem rb_iter_fuel_irrelevant : forall r d extra, rel r d ->
  it_all U dflt (S (S (S (Z.to_nat (r_len r)))) + extra) r (it_init U r) = d /\ (Z.of_nat (length d) <= len).
Proof.
  intros r d extra Hrel.
  assert (Hrel0 := Hrel).
  destruct Hrel as [Hrl [Hbuf [[Hpos [Hn Hnth]] | [Hpos [Hn Hnth]]]]]; unfold it_init.
  - split; [| exact Hn].
    destruct d as [| a t].
    + cbn [length Z.of_nat] in Hpos. rewrite Hpos. cbn [Nat.add]. rewrite it_all_S. reflexivity.
    + assert (Ha : Z.abs (r_pos r) = Z.of_nat (length (a :: t))) by lia. rewrite Ha.
      apply it_unwrapped; [cbn [length] in Hpos; lia | cbn [length]; lia | rewrite Hrl; lia | exact Hnth].
  - split; [| lia].
    assert (Ha : Z.abs (r_pos r) = r_pos r) by lia. rewrite Ha.
    destruct d as [| a t]; [cbn [length] in Hn; lia |].
    cbn [Nat.add]. rewrite it_all_S. rewrite it_prev_wr_first by lia.
    assert (Hidx0 : (r_pos r - 1 - Z.of_nat 0) mod len = r_pos r - 1)
      by (replace (r_pos r - 1 - Z.of_nat 0) with (r_pos r - 1) by lia; apply Z.mod_small; lia).
    assert (Hhd : Some a = Some (slot U dflt r (r_pos r - 1))).
    { rewrite <- Hidx0. apply (Hnth 0%nat). cbn [length]. lia. }
    inversion Hhd as [Hhd']. rewrite <- Hhd'. f_equal.
    cbn [length] in Hn.
    apply (it_wrapped U dflt len Hlen); [exact Hrl | lia | lia | | rewrite Hrl; lia |].
    + destruct (mod_cases len (r_pos r - 1 - r_pos r) Hlen) as [[Hneg Hmm] | [Hpos' Hmm]];
        [lia | |]; rewrite Hmm; lia.
    + intros i Hlt. specialize (Hnth (S i)). cbn [nth_error] in Hnth.
      rewrite Hnth by (cbn [length]; lia). f_equal. f_equal. f_equal. lia.
Qed.

End Ring.

(* ---------------------------------------------------------------- statements for Properties_C18.v *)
Theorem rb_refines_ring : forall (U : Type) (dflt : U) (len : Z) (ops : list (rop U)), 0 < len ->
  rb_run U dflt (rb_create U dflt len) ops = g_run U len (false, []) ops.
Proof. intros U dflt len ops Hlen. apply (g_run_refines U dflt len Hlen). apply g_create_rel. exact Hlen. Qed.

(* every reachable ring: wrapped iff the reference says so, and then it holds exactly len units *)
Theorem rb_reachable_inv : forall (U : Type) (dflt : U) (len : Z) (ops : list (rop U)), 0 < len ->
  let r := rb_exec U (rb_create U dflt len) ops in
  let s := g_exec U len (false, []) ops in
  rb_rel U dflt len r (snd s) /\ fst s = (0 <? r_pos r) /\
  Z.of_nat (length (snd s)) <= len /\ (fst s = true -> Z.of_nat (length (snd s)) = len) /\
  - len <= r_pos r <= len /\ r_len r = len /\ length (r_buf r) = Z.to_nat len.
Proof.
  intros U dflt len ops Hlen r s.
  destruct (g_exec_rel U dflt len Hlen ops _ _ (g_create_rel U dflt len Hlen)) as [Hrel Hw].
  fold r in Hrel, Hw. fold s in Hrel, Hw.
  split; [exact Hrel |]. split; [exact Hw |].
  destruct Hrel as [Hrl [Hbuf [[Hp [Hn _]] | [Hp [Hn _]]]]].
  - split; [exact Hn |]. split.
    + intro Ht. rewrite Ht in Hw. symmetry in Hw. apply Z.ltb_lt in Hw. lia.
    + split; [lia |]. split; assumption.
  - split; [lia |]. split; [intros _; exact Hn |]. split; [lia |]. split; assumption.
Qed.

(* the bounded-deque statement (back drops the newest unit) is FALSE of the code once the ring has wrapped *)
Theorem rb_deque_refuted : exists ops : list (rop Z),
  rb_run Z 0 (rb_create Z 0 3) ops <> d_run Z 3 [] ops /\
  rb_run Z 0 (rb_create Z 0 3) ops = g_run Z 3 (false, []) ops /\
  last (rb_run Z 0 (rb_create Z 0 3) ops) (0, None, []) = (3, Some 3, [3; 2; 4]) /\
  last (d_run Z 3 [] ops) (0, None, []) = (2, Some 3, [3; 2]).
Proof.
  exists [RPut Z 1; RPut Z 2; RPut Z 3; RPut Z 4; RBack Z].
  split; [vm_compute; discriminate |]. repeat split; vm_compute; reflexivity.
Qed.
