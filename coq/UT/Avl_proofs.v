(* Proofs about the model UT/Avl.v of src/utils/iwavl.c:
   - the in-order key list after av_insert / av_remove is the sorted-list
     insertion / deletion of the in-order list before (hence search-tree order
     is kept and the tree refines a strictly ascending list of keys);
   - the stored balance factors stay equal to height(right) - height(left) and
     within -1..1 (retracing of avl_handle_subtree_growth / _shrink);
   - iwavl_lookup / iwavl_lookup_bounds compute membership, the greatest key <= k
     and the least key >= k.
   Main theorems: avl_insert_ok, avl_remove_ok, avl_lookup_ok, avl_bounds_ok,
   avl_refines_set. *)
Require Import ZArith List Bool Lia Sorted.
Import ListNotations.
Local Open Scope Z_scope.
Require Import IW.UT.Avl.

Ltac bdestr :=
  repeat match goal with
  | |- context [?a =? ?b] => let H := fresh "Hb" in destruct (Z.eqb_spec a b) as [H|H]
  | |- context [?a <? ?b] => let H := fresh "Hb" in destruct (Z.ltb_spec a b) as [H|H]
  | |- context [?a <=? ?b] => let H := fresh "Hb" in destruct (Z.leb_spec a b) as [H|H]
  | |- context [?a >? ?b] => let H := fresh "Hb" in destruct (Z.gtb_spec a b) as [H|H]
  | |- context [?a >=? ?b] => let H := fresh "Hb" in destruct (Z.geb_spec a b) as [H|H]
  end.

(* ------------------------------------------------------------------ *)
(* strictly sorted lists                                               *)

Notation sorted := (StronglySorted Z.lt).

Lemma sorted_cons_iff : forall a s,
  sorted (a :: s) <-> sorted s /\ (forall y, In y s -> a < y).
Proof.
  intros a s. split.
  - intros Hs. inversion Hs as [|? ? Hs' Hall]; subst. split; [exact Hs'|].
    rewrite Forall_forall in Hall. exact Hall.
  - intros [Hs Hall]. constructor; [exact Hs|]. rewrite Forall_forall. exact Hall.
Qed.

Lemma sorted_app_iff : forall xs a ys,
  sorted (xs ++ a :: ys) <->
  sorted xs /\ sorted ys /\ (forall x, In x xs -> x < a) /\ (forall y, In y ys -> a < y).
Proof.
  induction xs as [|h xs IH]; intros a ys; cbn [app].
  - rewrite sorted_cons_iff. split.
    + intros [Hy Ha]. repeat split; auto. constructor. intros x [].
    + intros (_ & Hy & _ & Ha). auto.
  - rewrite !sorted_cons_iff, IH. split.
    + intros ((Hx & Hy & Hxa & Hay) & Hh).
      split; [split; [exact Hx|]|split; [exact Hy|split; [|exact Hay]]].
      * intros y Hin. apply Hh. apply in_or_app. left; exact Hin.
      * intros x [Hx'|Hx']; [subst; apply Hh; apply in_or_app; right; left; reflexivity|auto].
    + intros ((Hx & Hh) & Hy & Hxa & Hay).
      split; [split; [exact Hx|split; [exact Hy|split; [|exact Hay]]]|].
      * intros x Hx'. apply Hxa. right; exact Hx'.
      * intros y Hin. apply in_app_or in Hin. destruct Hin as [Hin|[Hin|Hin]].
        -- auto.
        -- subst. apply Hxa. left; reflexivity.
        -- assert (h < a) by (apply Hxa; left; reflexivity). specialize (Hay y Hin). lia.
Qed.

Lemma set_ins_app : forall xs a ys k,
  (forall x, In x xs -> x < a) ->
  set_ins (xs ++ a :: ys) k =
  if k <? a then (fst (set_ins xs k) ++ a :: ys, snd (set_ins xs k))
  else if k >? a then (xs ++ a :: fst (set_ins ys k), snd (set_ins ys k))
  else (xs ++ a :: ys, true).
Proof.
  induction xs as [|h xs IH]; intros a ys k Hlt; cbn [app set_ins fst snd].
  - bdestr; try lia; try reflexivity. destruct (set_ins ys k); reflexivity.
  - assert (Hh : h < a) by (apply Hlt; left; reflexivity).
    rewrite IH by (intros x Hx; apply Hlt; right; exact Hx).
    bdestr; try lia; try reflexivity; cbn [fst snd app].
    + destruct (set_ins xs k); reflexivity.
Qed.

Lemma set_del_app : forall xs a ys k,
  (forall x, In x xs -> x < a) ->
  set_del (xs ++ a :: ys) k =
  if k <? a then (fst (set_del xs k) ++ a :: ys, snd (set_del xs k))
  else if k >? a then (xs ++ a :: fst (set_del ys k), snd (set_del ys k))
  else (xs ++ ys, true).
Proof.
  induction xs as [|h xs IH]; intros a ys k Hlt; cbn [app set_del fst snd].
  - bdestr; try lia; try reflexivity. destruct (set_del ys k); reflexivity.
  - assert (Hh : h < a) by (apply Hlt; left; reflexivity).
    rewrite IH by (intros x Hx; apply Hlt; right; exact Hx).
    bdestr; try lia; try reflexivity; cbn [fst snd app].
    + destruct (set_del xs k); reflexivity.
Qed.

Lemma set_ins_spec : forall s k, sorted s ->
  let '(s', ex) := set_ins s k in
  sorted s' /\ (ex = true <-> In k s) /\ (forall x, In x s' <-> x = k \/ In x s) /\
  (ex = true -> s' = s).
Proof.
  induction s as [|h s IH]; intros k Hs; cbn [set_ins].
  - split; [|split; [|split]].
    + constructor; constructor.
    + split; [discriminate|intros []].
    + intros x. cbn. intuition.
    + discriminate.
  - apply sorted_cons_iff in Hs. destruct Hs as [Hs Hh].
    bdestr; try lia.
    + split; [|split; [|split]].
      * apply sorted_cons_iff. split; [apply sorted_cons_iff; auto|].
        intros y [Hy|Hy]; [lia|]. specialize (Hh y Hy). lia.
      * split; [discriminate|]. intros [Hk|Hk]; [lia|]. specialize (Hh k Hk). lia.
      * intros x. cbn. intuition.
      * discriminate.
    + specialize (IH k Hs). destruct (set_ins s k) as [s' ex].
      destruct IH as (IH1 & IH2 & IH3 & IH4). split; [|split; [|split]].
      * apply sorted_cons_iff. split; [exact IH1|]. intros y Hy. apply IH3 in Hy.
        destruct Hy as [Hy|Hy]; [lia|auto].
      * split.
        -- intros Hex. right. apply IH2; exact Hex.
        -- intros [Hk|Hk]; [lia|]. apply IH2; exact Hk.
      * intros x. cbn. rewrite IH3. intuition.
      * intros Hex. rewrite IH4 by exact Hex. reflexivity.
    + assert (k = h) by lia. subst h. split; [|split; [|split]].
      * apply sorted_cons_iff; auto.
      * split; [|reflexivity]. intros _. left; reflexivity.
      * intros x. cbn. intuition.
      * reflexivity.
Qed.

Lemma set_del_spec : forall s k, sorted s ->
  let '(s', was) := set_del s k in
  sorted s' /\ (was = true <-> In k s) /\ (forall x, In x s' <-> x <> k /\ In x s).
Proof.
  induction s as [|h s IH]; intros k Hs; cbn [set_del].
  - split; [|split].
    + constructor.
    + split; [discriminate|intros []].
    + intros x. cbn. intuition.
  - apply sorted_cons_iff in Hs. destruct Hs as [Hs Hh].
    bdestr; try lia.
    + split; [|split].
      * apply sorted_cons_iff; auto.
      * split; [discriminate|]. intros [Hk|Hk]; [lia|]. specialize (Hh k Hk). lia.
      * intros x. split; [|tauto]. intros Hx. split; [|exact Hx].
        destruct Hx as [Hx|Hx]; [lia|]. specialize (Hh x Hx). lia.
    + specialize (IH k Hs). destruct (set_del s k) as [s' was].
      destruct IH as (IH1 & IH2 & IH3). split; [|split].
      * apply sorted_cons_iff. split; [exact IH1|]. intros y Hy. apply IH3 in Hy. apply Hh. tauto.
      * split.
        -- intros Hw. right. apply IH2; exact Hw.
        -- intros [Hk|Hk]; [lia|]. apply IH2; exact Hk.
      * intros x. cbn. rewrite IH3. split.
        -- intros [Hx|Hx]; [split; [lia|left; exact Hx]|tauto].
        -- tauto.
    + assert (k = h) by lia. subst h. split; [|split].
      * exact Hs.
      * split; [|reflexivity]. intros _. left; reflexivity.
      * intros x. cbn. split.
        -- intros Hx. specialize (Hh x Hx). split; [lia|right; exact Hx].
        -- intros [Hx [Hx'|Hx']]; [congruence|exact Hx'].
Qed.

(* ------------------------------------------------------------------ *)
(* in-order list of the results                                        *)

Definition bst (t : tree) : Prop := sorted (av_inorder t).

Lemma bst_node : forall l k bf r,
  bst (Node l k bf r) <->
  bst l /\ bst r /\ (forall x, In x (av_inorder l) -> x < k) /\ (forall y, In y (av_inorder r) -> k < y).
Proof. intros. unfold bst. cbn [av_inorder]. apply sorted_app_iff. Qed.

Lemma inorder_rot_right : forall a da db, av_inorder (av_rot_right a da db) = av_inorder a.
Proof.
  intros a da db. destruct a as [|[|d bk bb e] ak ab c]; try reflexivity.
  cbn [av_rot_right av_inorder]. rewrite <- app_assoc. reflexivity.
Qed.

Lemma inorder_rot_left : forall a da db, av_inorder (av_rot_left a da db) = av_inorder a.
Proof.
  intros a da db. destruct a as [|c ak ab [|e bk bb d]]; try reflexivity.
  cbn [av_rot_left av_inorder]. rewrite <- app_assoc. reflexivity.
Qed.

Lemma inorder_drot_right : forall a, av_inorder (av_drot_right a) = av_inorder a.
Proof.
  intros a. destruct a as [|[|d bk bb [|f ek e g]] ak ab c]; try reflexivity.
  cbn [av_drot_right av_inorder]. repeat (rewrite <- app_assoc; cbn [app]). reflexivity.
Qed.

Lemma inorder_drot_left : forall a, av_inorder (av_drot_left a) = av_inorder a.
Proof.
  intros a. destruct a as [|c ak ab [|[|g ek e f] bk bb d]]; try reflexivity.
  cbn [av_drot_left av_inorder]. repeat (rewrite <- app_assoc; cbn [app]). reflexivity.
Qed.

Lemma inorder_grow_l : forall l k bf r,
  av_inorder (fst (av_grow_l l k bf r)) = av_inorder l ++ k :: av_inorder r.
Proof.
  intros. unfold av_grow_l. bdestr; cbn [fst];
    rewrite ?inorder_rot_right, ?inorder_drot_right; reflexivity.
Qed.

Lemma inorder_grow_r : forall l k bf r,
  av_inorder (fst (av_grow_r l k bf r)) = av_inorder l ++ k :: av_inorder r.
Proof.
  intros. unfold av_grow_r. bdestr; cbn [fst];
    rewrite ?inorder_rot_left, ?inorder_drot_left; reflexivity.
Qed.

Lemma inorder_shrink_l : forall l k bf r,
  av_inorder (fst (av_shrink_l l k bf r)) = av_inorder l ++ k :: av_inorder r.
Proof.
  intros. unfold av_shrink_l. bdestr; cbn [fst];
    rewrite ?inorder_rot_left, ?inorder_drot_left; reflexivity.
Qed.

Lemma inorder_shrink_r : forall l k bf r,
  av_inorder (fst (av_shrink_r l k bf r)) = av_inorder l ++ k :: av_inorder r.
Proof.
  intros. unfold av_shrink_r. bdestr; cbn [fst];
    rewrite ?inorder_rot_right, ?inorder_drot_right; reflexivity.
Qed.

Ltac use_io L :=
  match goal with
  | |- context [av_grow_l ?l ?k ?bf ?r] => let Hi := fresh "Hi" in pose proof (L l k bf r) as Hi; destruct (av_grow_l l k bf r); cbn [fst] in Hi; rewrite Hi
  | |- context [av_grow_r ?l ?k ?bf ?r] => let Hi := fresh "Hi" in pose proof (L l k bf r) as Hi; destruct (av_grow_r l k bf r); cbn [fst] in Hi; rewrite Hi
  | |- context [av_shrink_l ?l ?k ?bf ?r] => let Hi := fresh "Hi" in pose proof (L l k bf r) as Hi; destruct (av_shrink_l l k bf r); cbn [fst] in Hi; rewrite Hi
  | |- context [av_shrink_r ?l ?k ?bf ?r] => let Hi := fresh "Hi" in pose proof (L l k bf r) as Hi; destruct (av_shrink_r l k bf r); cbn [fst] in Hi; rewrite Hi
  end.

(* insertion = sorted-list insertion on the in-order list *)
Lemma av_ins_inorder : forall t k, bst t ->
  match av_ins t k with
  | None => set_ins (av_inorder t) k = (av_inorder t, true)
  | Some (t', _) => set_ins (av_inorder t) k = (av_inorder t', false)
  end.
Proof.
  induction t as [|l IHl x bf r IHr]; intros k Hb.
  - reflexivity.
  - apply bst_node in Hb. destruct Hb as (Hl & Hr & Hlx & Hxr).
    cbn [av_ins av_inorder]. rewrite set_ins_app by exact Hlx.
    bdestr; try lia.
    + specialize (IHl k Hl). destruct (av_ins l k) as [[l' g]|].
      * rewrite IHl. cbn [fst snd]. destruct g.
        -- use_io inorder_grow_l. reflexivity.
        -- reflexivity.
      * rewrite IHl. reflexivity.
    + specialize (IHr k Hr). destruct (av_ins r k) as [[r' g]|].
      * rewrite IHr. cbn [fst snd]. destruct g.
        -- use_io inorder_grow_r. reflexivity.
        -- reflexivity.
      * rewrite IHr. reflexivity.
    + reflexivity.
Qed.

Lemma av_rm_min_inorder : forall t d m t' sh,
  t <> Leaf -> av_rm_min t d = (m, t', sh) -> av_inorder t = m :: av_inorder t'.
Proof.
  induction t as [|l IHl x bf r IHr]; intros d m t' sh Hne Heq.
  - congruence.
  - cbn [av_rm_min] in Heq. destruct l as [|ll lk lbf lr].
    + inversion Heq; subst. reflexivity.
    + destruct (av_rm_min (Node ll lk lbf lr) d) as [[m0 l'] sh0] eqn:Hmin.
      apply IHl in Hmin; [|discriminate].
      cbn [av_inorder] in *. rewrite Hmin. destruct sh0.
      * pose proof (inorder_shrink_l l' x bf r) as Hi.
        destruct (av_shrink_l l' x bf r) as [t1 sh1]. inversion Heq; subst.
        cbn [fst] in Hi. rewrite Hi. reflexivity.
      * inversion Heq; subst. reflexivity.
Qed.

Lemma set_del_head : forall x s, set_del (x :: s) x = (s, true).
Proof. intros. cbn [set_del]. bdestr; try lia. reflexivity. Qed.

(* removal = sorted-list deletion on the in-order list *)
Lemma av_rm_inorder : forall t k, bst t ->
  match av_rm t k with
  | None => set_del (av_inorder t) k = (av_inorder t, false)
  | Some (t', _) => set_del (av_inorder t) k = (av_inorder t', true)
  end.
Proof.
  induction t as [|l IHl x bf r IHr]; intros k Hb.
  - reflexivity.
  - apply bst_node in Hb. destruct Hb as (Hl & Hr & Hlx & Hxr).
    cbn [av_rm av_inorder]. rewrite set_del_app by exact Hlx.
    bdestr; try lia.
    + specialize (IHl k Hl). destruct (av_rm l k) as [[l' g]|].
      * rewrite IHl. cbn [fst snd]. destruct g.
        -- use_io inorder_shrink_l. reflexivity.
        -- reflexivity.
      * rewrite IHl. reflexivity.
    + specialize (IHr k Hr). destruct (av_rm r k) as [[r' g]|].
      * rewrite IHr. cbn [fst snd]. destruct g.
        -- use_io inorder_shrink_r. reflexivity.
        -- reflexivity.
      * rewrite IHr. reflexivity.
    + destruct l as [|ll lk lbf lr].
      * reflexivity.
      * destruct r as [|rl rk rbf rr].
        -- cbn [av_inorder]. rewrite app_nil_r. reflexivity.
        -- destruct (av_rm_min (Node rl rk rbf rr) x) as [[m r'] sh] eqn:Hmin.
           apply av_rm_min_inorder in Hmin; [|discriminate]. rewrite Hmin.
           destruct sh.
           ++ use_io inorder_shrink_r. reflexivity.
           ++ reflexivity.
Qed.

(* ------------------------------------------------------------------ *)
(* heights and balance factors                                         *)

Fixpoint height (t : tree) : Z :=
  match t with
  | Leaf => 0
  | Node l _ _ r => 1 + Z.max (height l) (height r)
  end.

Fixpoint balanced (t : tree) : Prop :=
  match t with
  | Leaf => True
  | Node l _ bf r =>
      bf = height r - height l /\ -1 <= bf <= 1 /\ balanced l /\ balanced r
  end.

Lemma height_nonneg : forall t, 0 <= height t.
Proof. induction t; cbn [height]; lia. Qed.

Lemma height_pos_node : forall t, 0 < height t -> exists l k bf r, t = Node l k bf r.
Proof. intros [|l k bf r] H; [cbn in H; lia|eauto]. Qed.

Ltac hpos :=
  repeat match goal with
  | |- context [height ?t] =>
      lazymatch goal with
      | _ : 0 <= height t |- _ => fail
      | _ => pose proof (height_nonneg t)
      end
  | _ : context [height ?t] |- _ =>
      lazymatch goal with
      | _ : 0 <= height t |- _ => fail
      | _ => pose proof (height_nonneg t)
      end
  end.

Ltac bal_solve :=
  cbn [balanced height av_bf] in *; hpos; bdestr; repeat split; try tauto; try lia.

(* growth in the left subtree: hl = height of the left subtree before *)
Lemma grow_l_bal : forall l k bf r hl,
  balanced l -> balanced r -> bf = height r - hl -> -1 <= bf <= 1 ->
  height l = hl + 1 -> 0 <= hl -> (1 <= hl -> av_bf l <> 0) ->
  let '(t', g) := av_grow_l l k bf r in
  balanced t' /\ height t' = 1 + Z.max hl (height r) + (if g then 1 else 0) /\
  (g = true -> av_bf t' <> 0).
Proof.
  intros l k bf r hl Hl Hr Hbf Hrng Hh Hhl Hnz. unfold av_grow_l.
  destruct (Z.eqb_spec bf 0) as [Hb0|Hb0]; [bal_solve|].
  destruct (Z.eqb_spec (bf + -1) 0) as [Hb1|Hb1]; [bal_solve; discriminate|].
  assert (Hbm : bf = -1) by lia. subst bf.
  pose proof (height_nonneg r) as Hr0.
  destruct l as [|ll lk lbf lr]; [cbn [height] in Hh; lia|].
  cbn [av_bf] in *.
  destruct (Z.gtb_spec (-1 * lbf) 0) as [Hg|Hg].
  - cbn [av_rot_right]. bal_solve; discriminate.
  - assert (lbf = 1) by (cbn [balanced] in Hl; lia). subst lbf.
    destruct lr as [|f ek e g]; [cbn [balanced height] in *; hpos; lia|].
    cbn [av_drot_right]. bal_solve; discriminate.
Qed.

Lemma grow_r_bal : forall l k bf r hr,
  balanced l -> balanced r -> bf = hr - height l -> -1 <= bf <= 1 ->
  height r = hr + 1 -> 0 <= hr -> (1 <= hr -> av_bf r <> 0) ->
  let '(t', g) := av_grow_r l k bf r in
  balanced t' /\ height t' = 1 + Z.max (height l) hr + (if g then 1 else 0) /\
  (g = true -> av_bf t' <> 0).
Proof.
  intros l k bf r hr Hl Hr Hbf Hrng Hh Hhr Hnz. unfold av_grow_r.
  destruct (Z.eqb_spec bf 0) as [Hb0|Hb0]; [bal_solve|].
  destruct (Z.eqb_spec (bf + 1) 0) as [Hb1|Hb1]; [bal_solve; discriminate|].
  assert (Hbm : bf = 1) by lia. subst bf.
  pose proof (height_nonneg l) as Hl0.
  destruct r as [|rl rk rbf rr]; [cbn [height] in Hh; lia|].
  cbn [av_bf] in *.
  destruct (Z.gtb_spec (1 * rbf) 0) as [Hg|Hg].
  - cbn [av_rot_left]. bal_solve; discriminate.
  - assert (rbf = -1) by (cbn [balanced] in Hr; lia). subst rbf.
    destruct rl as [|g ek e f]; [cbn [balanced height] in *; hpos; lia|].
    cbn [av_drot_left]. bal_solve; discriminate.
Qed.

Lemma av_ins_bal : forall t k, balanced t ->
  match av_ins t k with
  | None => True
  | Some (t', g) =>
      balanced t' /\ height t' = height t + (if g then 1 else 0) /\
      (g = true -> 1 <= height t -> av_bf t' <> 0)
  end.
Proof.
  induction t as [|l IHl x bf r IHr]; intros k Hb.
  - cbn [av_ins balanced height av_bf]. repeat split; try lia.
  - cbn [balanced] in Hb. destruct Hb as (Hbf & Hrng & Hl & Hr).
    cbn [av_ins].
    destruct (Z.ltb_spec k x) as [Hlt|Hge].
    + specialize (IHl k Hl). destruct (av_ins l k) as [[l' g]|]; [|exact I].
      destruct IHl as (Hl' & Hh' & Hnz). destruct g.
      * pose proof (grow_l_bal l' x bf r (height l) Hl' Hr Hbf Hrng) as HG.
        destruct (av_grow_l l' x bf r) as [t' g'].
        destruct HG as (HG1 & HG2 & HG3); [lia|apply height_nonneg|auto|].
        cbn [height]. repeat split; auto.
      * cbn [balanced height]. repeat split; try tauto; try lia; try discriminate.
    + destruct (Z.gtb_spec k x) as [Hgt|Hle]; [|exact I].
      specialize (IHr k Hr). destruct (av_ins r k) as [[r' g]|]; [|exact I].
      destruct IHr as (Hr' & Hh' & Hnz). destruct g.
      * pose proof (grow_r_bal l x bf r' (height r) Hl Hr' Hbf Hrng) as HG.
        destruct (av_grow_r l x bf r') as [t' g'].
        destruct HG as (HG1 & HG2 & HG3); [lia|apply height_nonneg|auto|].
        cbn [height]. repeat split; auto.
      * cbn [balanced height]. repeat split; try tauto; try lia; try discriminate.
Qed.

(* shrink of the left subtree: hl = height of the left subtree before *)
Lemma shrink_l_bal : forall l k bf r hl,
  balanced l -> balanced r -> bf = height r - hl -> -1 <= bf <= 1 ->
  height l = hl - 1 ->
  let '(t', sh) := av_shrink_l l k bf r in
  balanced t' /\ height t' = 1 + Z.max hl (height r) - (if sh then 1 else 0).
Proof.
  intros l k bf r hl Hl Hr Hbf Hrng Hh. unfold av_shrink_l.
  pose proof (height_nonneg l) as Hl0.
  destruct (Z.eqb_spec bf 0) as [Hb0|Hb0]; [bal_solve|].
  destruct (Z.eqb_spec (bf + 1) 0) as [Hb1|Hb1]; [bal_solve|].
  assert (Hbm : bf = 1) by lia. assert (Hbf' : 1 = height r - hl) by lia.
  clear Hbf Hrng Hb0 Hb1. subst bf.
  destruct r as [|rl rk rbf rr]; [cbn [height] in Hbf'; lia|].
  cbn [av_bf] in *.
  destruct (Z.geb_spec (1 * rbf) 0) as [Hg|Hg].
  - destruct (Z.eqb_spec rbf 0) as [Hz|Hz]; cbn [av_rot_left]; bal_solve.
  - assert (rbf = -1) by (cbn [balanced] in Hr; lia). subst rbf.
    destruct rl as [|g ek e f]; [cbn [balanced height] in *; hpos; lia|].
    cbn [av_drot_left]. bal_solve.
Qed.

Lemma shrink_r_bal : forall l k bf r hr,
  balanced l -> balanced r -> bf = hr - height l -> -1 <= bf <= 1 ->
  height r = hr - 1 ->
  let '(t', sh) := av_shrink_r l k bf r in
  balanced t' /\ height t' = 1 + Z.max (height l) hr - (if sh then 1 else 0).
Proof.
  intros l k bf r hr Hl Hr Hbf Hrng Hh. unfold av_shrink_r.
  pose proof (height_nonneg r) as Hr0.
  destruct (Z.eqb_spec bf 0) as [Hb0|Hb0]; [bal_solve|].
  destruct (Z.eqb_spec (bf + -1) 0) as [Hb1|Hb1]; [bal_solve|].
  assert (Hbm : bf = -1) by lia. assert (Hbf' : -1 = hr - height l) by lia.
  clear Hbf Hrng Hb0 Hb1. subst bf.
  destruct l as [|ll lk lbf lr]; [cbn [height] in Hbf'; lia|].
  cbn [av_bf] in *.
  destruct (Z.geb_spec (-1 * lbf) 0) as [Hg|Hg].
  - destruct (Z.eqb_spec lbf 0) as [Hz|Hz]; cbn [av_rot_right]; bal_solve.
  - assert (lbf = 1) by (cbn [balanced] in Hl; lia). subst lbf.
    destruct lr as [|f ek e g]; [cbn [balanced height] in *; hpos; lia|].
    cbn [av_drot_right]. bal_solve.
Qed.

Lemma av_rm_min_bal : forall t d m t' sh,
  t <> Leaf -> balanced t -> av_rm_min t d = (m, t', sh) ->
  balanced t' /\ height t' = height t - (if sh then 1 else 0).
Proof.
  induction t as [|l IHl x bf r IHr]; intros d m t' sh Hne Hb Heq.
  - congruence.
  - cbn [balanced] in Hb. destruct Hb as (Hbf & Hrng & Hl & Hr).
    cbn [av_rm_min] in Heq. destruct l as [|ll lk lbf lr].
    + inversion Heq; subst. cbn [height] in *. pose proof (height_nonneg t'). split; [exact Hr|lia].
    + destruct (av_rm_min (Node ll lk lbf lr) d) as [[m0 l'] sh0] eqn:Hmin.
      apply IHl in Hmin; [|discriminate|exact Hl]. destruct Hmin as (Hl' & Hh').
      destruct sh0.
      * pose proof (shrink_l_bal l' x bf r (height (Node ll lk lbf lr)) Hl' Hr Hbf Hrng) as HS.
        destruct (av_shrink_l l' x bf r) as [t1 sh1]. inversion Heq; subst.
        destruct HS as (HS1 & HS2); [lia|].
        split; [exact HS1|]. rewrite HS2. cbn [height]. lia.
      * inversion Heq; subst. split.
        -- cbn [balanced]. repeat split; try tauto; lia.
        -- cbn [height] in *. lia.
Qed.

Lemma av_rm_bal : forall t k, balanced t ->
  match av_rm t k with
  | None => True
  | Some (t', sh) => balanced t' /\ height t' = height t - (if sh then 1 else 0)
  end.
Proof.
  induction t as [|l IHl x bf r IHr]; intros k Hb.
  - exact I.
  - pose proof Hb as Hb'. cbn [balanced] in Hb. destruct Hb as (Hbf & Hrng & Hl & Hr).
    cbn [av_rm].
    destruct (Z.ltb_spec k x) as [Hlt|Hge].
    + specialize (IHl k Hl). destruct (av_rm l k) as [[l' sh]|]; [|exact I].
      destruct IHl as (Hl' & Hh'). destruct sh.
      * pose proof (shrink_l_bal l' x bf r (height l) Hl' Hr Hbf Hrng) as HS.
        destruct (av_shrink_l l' x bf r) as [t' sh'].
        destruct HS as (HS1 & HS2); [lia|]. split; [exact HS1|]. rewrite HS2. cbn [height]. lia.
      * cbn [balanced height]. repeat split; try tauto; lia.
    + destruct (Z.gtb_spec k x) as [Hgt|Hle].
      * specialize (IHr k Hr). destruct (av_rm r k) as [[r' sh]|]; [|exact I].
        destruct IHr as (Hr' & Hh'). destruct sh.
        -- pose proof (shrink_r_bal l x bf r' (height r) Hl Hr' Hbf Hrng) as HS.
           destruct (av_shrink_r l x bf r') as [t' sh'].
           destruct HS as (HS1 & HS2); [lia|]. split; [exact HS1|]. rewrite HS2. cbn [height]. lia.
        -- cbn [balanced height]. repeat split; try tauto; lia.
      * destruct l as [|ll lk lbf lr].
        -- split; [exact Hr|]. cbn [height] in *. pose proof (height_nonneg r). lia.
        -- destruct r as [|rl rk rbf rr].
           ++ split; [exact Hl|]. cbn [height] in *.
              pose proof (height_nonneg ll). pose proof (height_nonneg lr). lia.
           ++ destruct (av_rm_min (Node rl rk rbf rr) x) as [[m r'] sh] eqn:Hmin.
              apply av_rm_min_bal in Hmin; [|discriminate|exact Hr].
              destruct Hmin as (Hr' & Hh'). destruct sh.
              ** pose proof (shrink_r_bal (Node ll lk lbf lr) m bf r' (height (Node rl rk rbf rr)) Hl Hr' Hbf Hrng) as HS.
                 destruct (av_shrink_r (Node ll lk lbf lr) m bf r') as [t' sh'].
                 destruct HS as (HS1 & HS2); [lia|]. split; [exact HS1|]. rewrite HS2.
                 cbn [height]. lia.
              ** split.
                 --- cbn [balanced] in *. repeat split; try tauto; lia.
                 --- cbn [height] in *. lia.
Qed.

(* ------------------------------------------------------------------ *)
(* main theorems                                                       *)

Lemma av_insert_inorder : forall t k, bst t ->
  set_ins (av_inorder t) k = (av_inorder (fst (av_insert t k)), snd (av_insert t k)).
Proof.
  intros t k Hb. unfold av_insert. pose proof (av_ins_inorder t k Hb) as H.
  destruct (av_ins t k) as [[t' g]|]; exact H.
Qed.

Lemma av_remove_inorder : forall t k, bst t ->
  set_del (av_inorder t) k = (av_inorder (fst (av_remove t k)), snd (av_remove t k)).
Proof.
  intros t k Hb. unfold av_remove. pose proof (av_rm_inorder t k Hb) as H.
  destruct (av_rm t k) as [[t' g]|]; exact H.
Qed.

Lemma av_insert_balanced : forall t k, balanced t -> balanced (fst (av_insert t k)).
Proof.
  intros t k Hb. unfold av_insert. pose proof (av_ins_bal t k Hb) as H.
  destruct (av_ins t k) as [[t' g]|]; cbn [fst]; tauto.
Qed.

Lemma av_remove_balanced : forall t k, balanced t -> balanced (fst (av_remove t k)).
Proof.
  intros t k Hb. unfold av_remove. pose proof (av_rm_bal t k Hb) as H.
  destruct (av_rm t k) as [[t' g]|]; cbn [fst]; tauto.
Qed.

Theorem avl_insert_ok : forall t k, bst t -> balanced t ->
  let '(t', ex) := av_insert t k in
  bst t' /\ balanced t' /\ (ex = true <-> In k (av_inorder t)) /\
  (forall x, In x (av_inorder t') <-> x = k \/ In x (av_inorder t)) /\
  (ex = true -> t' = t).
Proof.
  intros t k Hb Hbal.
  pose proof (av_insert_inorder t k Hb) as Hio.
  pose proof (av_insert_balanced t k Hbal) as Hbal'.
  pose proof (set_ins_spec (av_inorder t) k Hb) as Hspec.
  assert (Hsame : snd (av_insert t k) = true -> fst (av_insert t k) = t).
  { unfold av_insert. destruct (av_ins t k) as [[t' g]|]; cbn [fst snd]; [discriminate|reflexivity]. }
  destruct (av_insert t k) as [t' ex]. cbn [fst snd] in *.
  rewrite Hio in Hspec. destruct Hspec as (H1 & H2 & H3 & H4).
  unfold bst. repeat split; try tauto; try apply H3; try apply H2; auto.
Qed.

Theorem avl_remove_ok : forall t k, bst t -> balanced t ->
  let '(t', was) := av_remove t k in
  bst t' /\ balanced t' /\ (was = true <-> In k (av_inorder t)) /\
  (forall x, In x (av_inorder t') <-> x <> k /\ In x (av_inorder t)).
Proof.
  intros t k Hb Hbal.
  pose proof (av_remove_inorder t k Hb) as Hio.
  pose proof (av_remove_balanced t k Hbal) as Hbal'.
  pose proof (set_del_spec (av_inorder t) k Hb) as Hspec.
  destruct (av_remove t k) as [t' was]. cbn [fst snd] in *.
  rewrite Hio in Hspec. destruct Hspec as (H1 & H2 & H3).
  unfold bst. repeat split; try tauto; try apply H3; try apply H2; auto.
Qed.

Theorem avl_lookup_ok : forall t k, bst t ->
  (av_lookup t k = true <-> In k (av_inorder t)).
Proof.
  induction t as [|l IHl x bf r IHr]; intros k Hb.
  - cbn. split; [discriminate|tauto].
  - apply bst_node in Hb. destruct Hb as (Hl & Hr & Hlx & Hxr).
    cbn [av_lookup av_inorder]. rewrite in_app_iff. cbn [In].
    destruct (Z.ltb_spec k x) as [Hlt|Hge].
    + rewrite (IHl k Hl). split; [tauto|].
      intros [H|[H|H]]; [exact H|lia|specialize (Hxr k H); lia].
    + destruct (Z.gtb_spec k x) as [Hgt|Hle].
      * rewrite (IHr k Hr). split; [tauto|].
        intros [H|[H|H]]; [specialize (Hlx k H); lia|lia|exact H].
      * split; [|reflexivity]. intros _. right; left; lia.
Qed.

(* bounds: the model computes exactly the reference functions on the in-order list *)

Lemma set_lb_app_stop : forall xs x ys k acc, k < x ->
  set_lb (xs ++ x :: ys) k acc = set_lb xs k acc.
Proof.
  induction xs as [|h xs IH]; intros x ys k acc Hk; cbn [app set_lb].
  - destruct (Z.leb_spec x k); [lia|reflexivity].
  - destruct (Z.leb_spec h k); [apply IH; exact Hk|reflexivity].
Qed.

Lemma set_lb_app_pass : forall xs ys k acc, (forall h, In h xs -> h <= k) -> xs <> [] ->
  set_lb (xs ++ ys) k acc = set_lb ys k (Some (last xs 0)).
Proof.
  induction xs as [|h xs IH]; intros ys k acc Hall Hne; [congruence|].
  cbn [app set_lb]. destruct (Z.leb_spec h k) as [Hle|Hgt].
  - destruct xs as [|h' xs'].
    + reflexivity.
    + rewrite IH; [|intros z Hz; apply Hall; right; exact Hz|discriminate]. reflexivity.
  - specialize (Hall h (or_introl eq_refl)). lia.
Qed.

Lemma set_lb_all_gt : forall s k acc, (forall y, In y s -> k < y) -> set_lb s k acc = acc.
Proof.
  intros [|h s] k acc Hall; [reflexivity|]. cbn [set_lb].
  specialize (Hall h (or_introl eq_refl)). destruct (Z.leb_spec h k); [lia|reflexivity].
Qed.

Lemma av_bounds_lb : forall t k lb0 ub0, bst t ->
  fst (av_bounds_from t k lb0 ub0) = set_lb (av_inorder t) k lb0.
Proof.
  induction t as [|l IHl x bf r IHr]; intros k lb0 ub0 Hb.
  - reflexivity.
  - apply bst_node in Hb. destruct Hb as (Hl & Hr & Hlx & Hxr).
    cbn [av_bounds_from av_inorder].
    destruct (Z.ltb_spec k x) as [Hlt|Hge].
    + rewrite IHl by exact Hl. rewrite set_lb_app_stop by exact Hlt. reflexivity.
    + assert (Hpass : set_lb (av_inorder l ++ x :: av_inorder r) k lb0
                      = set_lb (av_inorder r) k (Some x)).
      { change (av_inorder l ++ x :: av_inorder r) with (av_inorder l ++ [x] ++ av_inorder r).
        rewrite app_assoc. rewrite set_lb_app_pass.
        - rewrite last_last. reflexivity.
        - intros h Hh. apply in_app_or in Hh. destruct Hh as [Hh|[Hh|[]]];
            [specialize (Hlx h Hh); lia|lia].
        - destruct (av_inorder l); discriminate. }
      destruct (Z.gtb_spec k x) as [Hgt|Hle].
      * rewrite IHr by exact Hr. rewrite Hpass. reflexivity.
      * cbn [fst]. rewrite Hpass. rewrite set_lb_all_gt; [reflexivity|].
        intros y Hy. specialize (Hxr y Hy). lia.
Qed.

Lemma set_ub_app_lt : forall xs x ys k, k < x ->
  set_ub (xs ++ x :: ys) k = match set_ub xs k with None => Some x | Some v => Some v end.
Proof.
  induction xs as [|h xs IH]; intros x ys k Hk; cbn [app set_ub].
  - destruct (Z.geb_spec x k); [reflexivity|lia].
  - destruct (Z.geb_spec h k); [reflexivity|apply IH; exact Hk].
Qed.

Lemma set_ub_app_skip : forall xs ys k, (forall h, In h xs -> h < k) ->
  set_ub (xs ++ ys) k = set_ub ys k.
Proof.
  induction xs as [|h xs IH]; intros ys k Hall; [reflexivity|].
  cbn [app set_ub]. destruct (Z.geb_spec h k) as [Hge|Hlt].
  - specialize (Hall h (or_introl eq_refl)). lia.
  - apply IH. intros z Hz. apply Hall. right; exact Hz.
Qed.

Lemma av_bounds_ub : forall t k lb0 ub0, bst t ->
  snd (av_bounds_from t k lb0 ub0) =
  match set_ub (av_inorder t) k with None => ub0 | Some v => Some v end.
Proof.
  induction t as [|l IHl x bf r IHr]; intros k lb0 ub0 Hb.
  - reflexivity.
  - apply bst_node in Hb. destruct Hb as (Hl & Hr & Hlx & Hxr).
    cbn [av_bounds_from av_inorder].
    destruct (Z.ltb_spec k x) as [Hlt|Hge].
    + rewrite IHl by exact Hl. rewrite set_ub_app_lt by exact Hlt.
      destruct (set_ub (av_inorder l) k); reflexivity.
    + destruct (Z.gtb_spec k x) as [Hgt|Hle].
      * rewrite IHr by exact Hr.
        change (av_inorder l ++ x :: av_inorder r) with (av_inorder l ++ [x] ++ av_inorder r).
        rewrite app_assoc. rewrite set_ub_app_skip; [reflexivity|].
        intros h Hh. apply in_app_or in Hh. destruct Hh as [Hh|[Hh|[]]];
          [specialize (Hlx h Hh); lia|lia].
      * cbn [snd]. rewrite set_ub_app_skip by (intros h Hh; specialize (Hlx h Hh); lia).
        cbn [set_ub]. destruct (Z.geb_spec x k); [reflexivity|lia].
Qed.

Lemma av_bounds_set : forall t k, bst t ->
  av_bounds t k = (set_lb (av_inorder t) k None, set_ub (av_inorder t) k).
Proof.
  intros t k Hb. unfold av_bounds.
  pose proof (av_bounds_lb t k None None Hb) as H1.
  pose proof (av_bounds_ub t k None None Hb) as H2.
  destruct (av_bounds_from t k None None) as [lb ub]. cbn [fst snd] in *. subst.
  destruct (set_ub (av_inorder t) k); reflexivity.
Qed.

(* greatest element <= k / least element >= k of a list *)
Definition is_lb (s : list Z) (k : Z) (o : option Z) : Prop :=
  match o with
  | Some v => In v s /\ v <= k /\ (forall x, In x s -> x <= k -> x <= v)
  | None => forall x, In x s -> k < x
  end.

Definition is_ub (s : list Z) (k : Z) (o : option Z) : Prop :=
  match o with
  | Some v => In v s /\ k <= v /\ (forall x, In x s -> k <= x -> v <= x)
  | None => forall x, In x s -> x < k
  end.

Lemma set_lb_spec_acc : forall s a k, sorted (a :: s) -> a <= k ->
  is_lb (a :: s) k (set_lb s k (Some a)).
Proof.
  induction s as [|b s IH]; intros a k Hs Ha.
  - cbn [set_lb is_lb]. split; [left; reflexivity|]. split; [exact Ha|].
    intros x [Hx|[]] _. lia.
  - apply sorted_cons_iff in Hs. destruct Hs as [Hs Hab].
    pose proof Hs as Hs'. apply sorted_cons_iff in Hs'. destruct Hs' as [Hs' Hbs].
    cbn [set_lb]. destruct (Z.leb_spec b k) as [Hle|Hgt].
    + specialize (IH b k Hs Hle). destruct (set_lb s k (Some b)) as [v|]; cbn [is_lb] in *.
      * destruct IH as (Hin & Hvk & Hmax). split; [right; exact Hin|]. split; [exact Hvk|].
        intros x [Hx|Hx] Hxk; [|apply Hmax; assumption].
        subst x. assert (b <= v) by (apply Hmax; [left; reflexivity|exact Hle]).
        specialize (Hab b (or_introl eq_refl)). lia.
      * specialize (IH b (or_introl eq_refl)). lia.
    + cbn [is_lb]. split; [left; reflexivity|]. split; [exact Ha|].
      intros x [Hx|[Hx|Hx]] Hxk; [lia|lia|]. specialize (Hbs x Hx). lia.
Qed.

Lemma set_lb_spec : forall s k, sorted s -> is_lb s k (set_lb s k None).
Proof.
  intros [|a s] k Hs.
  - cbn. intros x [].
  - cbn [set_lb]. destruct (Z.leb_spec a k) as [Hle|Hgt].
    + apply set_lb_spec_acc; assumption.
    + cbn [is_lb]. apply sorted_cons_iff in Hs. destruct Hs as [_ Has].
      intros x [Hx|Hx]; [lia|]. specialize (Has x Hx). lia.
Qed.

Lemma set_ub_spec : forall s k, sorted s -> is_ub s k (set_ub s k).
Proof.
  induction s as [|a s IH]; intros k Hs.
  - cbn. intros x [].
  - apply sorted_cons_iff in Hs. destruct Hs as [Hs Has].
    cbn [set_ub]. destruct (Z.geb_spec a k) as [Hge|Hlt].
    + cbn [is_ub]. split; [left; reflexivity|]. split; [lia|].
      intros x [Hx|Hx] Hkx; [lia|]. specialize (Has x Hx). lia.
    + specialize (IH k Hs). destruct (set_ub s k) as [v|]; cbn [is_ub] in *.
      * destruct IH as (Hin & Hkv & Hmin). split; [right; exact Hin|]. split; [exact Hkv|].
        intros x [Hx|Hx] Hkx; [lia|apply Hmin; assumption].
      * intros x [Hx|Hx]; [lia|apply IH; exact Hx].
Qed.

Theorem avl_bounds_ok : forall t k lb ub, bst t -> av_bounds t k = (lb, ub) ->
  is_lb (av_inorder t) k lb /\ is_ub (av_inorder t) k ub.
Proof.
  intros t k lb ub Hb Heq. rewrite (av_bounds_set t k Hb) in Heq.
  inversion Heq; subst. split; [apply set_lb_spec|apply set_ub_spec]; exact Hb.
Qed.

Lemma set_mem_In : forall s k, set_mem s k = true <-> In k s.
Proof.
  induction s as [|h s IH]; intros k; cbn [set_mem In].
  - split; [discriminate|tauto].
  - destruct (Z.eqb_spec k h) as [He|Hn].
    + split; [intros _; left; congruence|reflexivity].
    + rewrite IH. split; [tauto|]. intros [H|H]; [congruence|exact H].
Qed.

Lemma av_lookup_set : forall t k, bst t -> av_lookup t k = set_mem (av_inorder t) k.
Proof.
  intros t k Hb. pose proof (avl_lookup_ok t k Hb) as H1.
  pose proof (set_mem_In (av_inorder t) k) as H2.
  destruct (av_lookup t k), (set_mem (av_inorder t) k); try reflexivity.
  - symmetry. apply H2. apply H1. reflexivity.
  - apply H1. apply H2. reflexivity.
Qed.

(* one step of the tree = one step of the reference set on the in-order list *)
Lemma av_step_refines : forall t o, bst t ->
  let '(t', out) := av_step t o in
  bst t' /\ set_step (av_inorder t) o = (av_inorder t', out).
Proof.
  intros t o Hb. destruct o as [k|k|k]; cbn [av_step set_step].
  - pose proof (av_insert_inorder t k Hb) as Hio.
    pose proof (set_ins_spec (av_inorder t) k Hb) as Hspec.
    destruct (av_insert t k) as [t' ex]. cbn [fst snd] in *. rewrite Hio in *.
    split; [apply Hspec|reflexivity].
  - pose proof (av_remove_inorder t k Hb) as Hio.
    pose proof (set_del_spec (av_inorder t) k Hb) as Hspec.
    destruct (av_remove t k) as [t' was]. cbn [fst snd] in *. rewrite Hio in *.
    split; [apply Hspec|reflexivity].
  - rewrite (av_bounds_set t k Hb). split; [exact Hb|].
    rewrite (av_lookup_set t k Hb). reflexivity.
Qed.

Lemma av_run_refines : forall ops t, bst t -> av_run t ops = set_run (av_inorder t) ops.
Proof.
  induction ops as [|o ops IH]; intros t Hb; [reflexivity|].
  cbn [av_run set_run]. pose proof (av_step_refines t o Hb) as Hs.
  destruct (av_step t o) as [t' out]. destruct Hs as (Hb' & Hs). rewrite Hs.
  rewrite (IH t' Hb'). reflexivity.
Qed.

Theorem avl_refines_set : forall ops, av_run Leaf ops = set_run [] ops.
Proof. intros ops. apply (av_run_refines ops Leaf). constructor. Qed.

(* the invariant is maintained along any call sequence *)
Lemma av_step_inv : forall t o, bst t -> balanced t ->
  bst (fst (av_step t o)) /\ balanced (fst (av_step t o)).
Proof.
  intros t o Hb Hbal. pose proof (av_step_refines t o Hb) as Hs.
  destruct o as [k|k|k]; cbn [av_step] in *.
  - pose proof (av_insert_balanced t k Hbal). destruct (av_insert t k); cbn [fst] in *. tauto.
  - pose proof (av_remove_balanced t k Hbal). destruct (av_remove t k); cbn [fst] in *. tauto.
  - destruct (av_bounds t k). cbn [fst]. tauto.
Qed.

Print Assumptions avl_insert_ok.
Print Assumptions avl_remove_ok.
Print Assumptions avl_lookup_ok.
Print Assumptions avl_bounds_ok.
Print Assumptions avl_refines_set.
