(* C18 - proofs about the byte-level model of iwulist (UT/Ulist.v): for every call sequence the model
   behaves like a plain list of units.

   Method: under [u_wf] the byte array is the concatenation of [u_anum] chunks of [u_usize] bytes
   (pre ++ xs ++ post, |pre| = start, |xs| = num).  All byte offsets used by the code are chunk aligned, so
   every slice / write / move / resize is a list operation on the chunk list; the nonlinear arithmetic is
   confined to [concat_uni_length], [resize_chunks] and [concat_repeat_zeros]. *)
Require Import ZArith List Bool Lia Arith.
Require Import IW.Gen.Facts IW.UT.Ulist.
Import ListNotations.

Lemma ALLOC_UNIT_pos : 0 < ALLOC_UNIT.
Proof. vm_compute. lia. Qed.

(* ---------------------------------------------------------------- byte lists *)
Lemma firstn_app_exact : forall (A : Type) (a b : list A) n, length a = n -> firstn n (a ++ b) = a.
Proof.
  intros A a b n Hn. subst n. rewrite firstn_app, Nat.sub_diag, firstn_all. simpl. apply app_nil_r.
Qed.

Lemma skipn_app_exact : forall (A : Type) (a b : list A) n, length a = n -> skipn n (a ++ b) = b.
Proof.
  intros A a b n Hn. subst n. rewrite skipn_app, Nat.sub_diag, skipn_all. reflexivity.
Qed.

Lemma slice_length : forall a off n, off + n <= length a -> length (slice a off n) = n.
Proof.
  intros a off n Hle. unfold slice. rewrite firstn_length, skipn_length. lia.
Qed.

Lemma write_length : forall a off bs, off + length bs <= length a -> length (write a off bs) = length a.
Proof.
  intros a off bs Hle. unfold write. rewrite !app_length, firstn_length, skipn_length. lia.
Qed.

Lemma move_length : forall a dst src n,
  src + n <= length a -> dst + n <= length a -> length (move a dst src n) = length a.
Proof.
  intros a dst src n Hs Hd. unfold move. apply write_length. rewrite slice_length; assumption.
Qed.

Lemma resize_length : forall a n, length (resize a n) = n.
Proof.
  intros a n. unfold resize. rewrite app_length, firstn_length, repeat_length. lia.
Qed.

Lemma slice_app3 : forall a b c off n, length a = off -> length b = n -> slice (a ++ b ++ c) off n = b.
Proof.
  intros a b c off n Ha Hb. unfold slice. rewrite (skipn_app_exact _ a _ off Ha). apply firstn_app_exact, Hb.
Qed.

Lemma write_app3 : forall a b c off bs,
  length a = off -> length b = length bs -> write (a ++ b ++ c) off bs = a ++ bs ++ c.
Proof.
  intros a b c off bs Ha Hb. unfold write.
  rewrite (firstn_app_exact _ a _ off Ha).
  rewrite (app_assoc a b c). rewrite (skipn_app_exact _ (a ++ b) c). reflexivity.
  rewrite app_length. lia.
Qed.

(* reading back exactly what was written *)
Lemma slice_write_same : forall a off bs, off + length bs <= length a -> slice (write a off bs) off (length bs) = bs.
Proof.
  intros a off bs Hle. unfold write. apply slice_app3; [|reflexivity].
  rewrite firstn_length. lia.
Qed.

(* ---------------------------------------------------------------- uniform chunk lists *)
Definition uni (us : nat) (cs : list (list Z)) : Prop := Forall (fun c => length c = us) cs.

Lemma uni_nil : forall us, uni us [].
Proof. intros us. constructor. Qed.

Lemma uni_cons : forall us c cs, length c = us -> uni us cs -> uni us (c :: cs).
Proof. intros us c cs Hc Hcs. constructor; assumption. Qed.

Lemma uni_one : forall us c, length c = us -> uni us [c].
Proof. intros us c Hc. apply uni_cons; [assumption | apply uni_nil]. Qed.

Lemma uni_app : forall us a b, uni us a -> uni us b -> uni us (a ++ b).
Proof. intros us a b Ha Hb. apply Forall_app. split; assumption. Qed.

Lemma uni_app_l : forall us a b, uni us (a ++ b) -> uni us a.
Proof. intros us a b H. apply Forall_app in H. tauto. Qed.

Lemma uni_app_r : forall us a b, uni us (a ++ b) -> uni us b.
Proof. intros us a b H. apply Forall_app in H. tauto. Qed.

Lemma uni_cons_hd : forall us c cs, uni us (c :: cs) -> length c = us.
Proof. intros us c cs H. inversion H; assumption. Qed.

Lemma uni_cons_tl : forall us c cs, uni us (c :: cs) -> uni us cs.
Proof. intros us c cs H. inversion H; assumption. Qed.

Lemma uni_firstn : forall us n cs, uni us cs -> uni us (firstn n cs).
Proof.
  intros us n cs H. rewrite <- (firstn_skipn n cs) in H. apply uni_app_l in H. exact H.
Qed.

Lemma uni_skipn : forall us n cs, uni us cs -> uni us (skipn n cs).
Proof.
  intros us n cs H. rewrite <- (firstn_skipn n cs) in H. apply uni_app_r in H. exact H.
Qed.

Lemma uni_repeat : forall us c n, length c = us -> uni us (repeat c n).
Proof.
  intros us c n Hc. induction n as [|n IH]; simpl; [apply uni_nil | apply uni_cons; assumption].
Qed.

Lemma concat_uni_length : forall us cs, uni us cs -> length (concat cs) = length cs * us.
Proof.
  intros us cs H. induction H as [|c cs Hc Hcs IH]; simpl; [reflexivity|].
  rewrite app_length, IH, Hc. reflexivity.
Qed.

Lemma concat_one : forall (c : list Z), concat [c] = c.
Proof. intros c. simpl. apply app_nil_r. Qed.

Definition zchunk (us : nat) : list Z := repeat 0%Z us.

Lemma zchunk_length : forall us, length (zchunk us) = us.
Proof. intros us. apply repeat_length. Qed.

Lemma concat_repeat_zeros : forall us n, repeat 0%Z (n * us) = concat (repeat (zchunk us) n).
Proof.
  intros us n. induction n as [|n IH]; [reflexivity|].
  change (S n * us) with (us + n * us). rewrite repeat_app, IH. reflexivity.
Qed.

Lemma slice_chunks : forall us A B C off n,
  uni us A -> uni us B -> off = length A * us -> n = length B * us ->
  slice (concat (A ++ B ++ C)) off n = concat B.
Proof.
  intros us A B C off n HA HB Hoff Hn. rewrite !concat_app.
  apply slice_app3; rewrite (concat_uni_length us); auto.
Qed.

Lemma write_chunks : forall us A B B' C off,
  uni us A -> uni us B -> uni us B' -> length B = length B' -> off = length A * us ->
  write (concat (A ++ B ++ C)) off (concat B') = concat (A ++ B' ++ C).
Proof.
  intros us A B B' C off HA HB HB' Hlen Hoff. rewrite !concat_app.
  apply write_app3; rewrite !(concat_uni_length us); auto.
Qed.

Lemma resize_chunks : forall us cs n,
  uni us cs -> resize (concat cs) (n * us) = concat (firstn n cs ++ repeat (zchunk us) (n - length cs)).
Proof.
  intros us cs n H. unfold resize. rewrite concat_app, <- concat_repeat_zeros.
  rewrite (concat_uni_length us cs H).
  rewrite <- (firstn_skipn n cs) at 1. rewrite concat_app.
  assert (Hf : uni us (firstn n cs)) by (apply uni_firstn; exact H).
  destruct (Nat.le_gt_cases n (length cs)) as [Hle | Hgt].
  - rewrite firstn_app_exact.
    + replace (n - length cs) with 0 by lia.
      replace (n * us - length cs * us) with 0; [reflexivity|].
      symmetry. apply Nat.sub_0_le. apply Nat.mul_le_mono_r. exact Hle.
    + rewrite (concat_uni_length us _ Hf). rewrite firstn_length_le; auto.
  - rewrite skipn_all2 by lia. simpl. rewrite app_nil_r.
    rewrite firstn_all2.
    + rewrite Nat.mul_sub_distr_r. reflexivity.
    + rewrite (concat_uni_length us _ Hf). apply Nat.mul_le_mono_r. rewrite firstn_length. lia.
Qed.

(* any byte array of n*us bytes is a concatenation of n chunks *)
Lemma exists_chunks : forall us n a, length a = n * us ->
  exists cs, a = concat cs /\ uni us cs /\ length cs = n.
Proof.
  intros us n. induction n as [|n IH]; intros a Ha.
  - exists []. destruct a; [|discriminate]. repeat split. apply uni_nil.
  - change (S n * us) with (us + n * us) in Ha.
    destruct (IH (skipn us a)) as [cs [Hc [Hu Hl]]].
    + rewrite skipn_length. lia.
    + exists (firstn us a :: cs). repeat split.
      * simpl. rewrite <- Hc. symmetry. apply firstn_skipn.
      * apply uni_cons; [|exact Hu]. rewrite firstn_length. lia.
      * simpl. rewrite Hl. reflexivity.
Qed.

(* ---------------------------------------------------------------- list splitting helpers *)
Lemma skipn_cons_nth : forall (A : Type) (l : list A) i, i < length l ->
  exists x, skipn i l = x :: skipn (S i) l /\ nth_error l i = Some x.
Proof.
  intros A l. induction l as [|y l IH]; intros i Hi; simpl in Hi; [lia|].
  destruct i as [|i].
  - exists y. split; reflexivity.
  - destruct (IH i) as [x [H1 H2]]; [lia|]. exists x. split; [exact H1 | exact H2].
Qed.

Lemma split_at : forall (A : Type) (l : list A) i, i < length l ->
  exists x, l = firstn i l ++ x :: skipn (S i) l /\ nth_error l i = Some x.
Proof.
  intros A l i Hi. destruct (skipn_cons_nth A l i Hi) as [x [H1 H2]].
  exists x. split; [|exact H2]. rewrite <- H1. symmetry. apply firstn_skipn.
Qed.

Lemma snoc_uncons : forall (A : Type) (b : list A) p, exists q r, b ++ [p] = q :: r /\ length r = length b.
Proof.
  intros A b p. destruct b as [|y b].
  - exists p, []. split; reflexivity.
  - exists y, (b ++ [p]). split; [reflexivity|]. rewrite app_length. simpl. lia.
Qed.

Lemma cons_unsnoc : forall (A : Type) (b : list A) x, exists r q, x :: b = r ++ [q] /\ length r = length b.
Proof.
  intros A b x. destruct (exists_last (l := x :: b)) as [r [q Hq]]; [discriminate|].
  exists r, q. split; [exact Hq|].
  apply (f_equal (@length A)) in Hq. rewrite app_length in Hq. simpl in Hq. lia.
Qed.

(* ---------------------------------------------------------------- sorting keeps the chunk structure *)
Lemma ins_sorted_length : forall x l, length (ins_sorted x l) = S (length l).
Proof.
  intros x l. induction l as [|y t IH]; simpl; [reflexivity|].
  destruct (bytes_leb x y); simpl; [reflexivity | rewrite IH; reflexivity].
Qed.

Lemma ins_sorted_uni : forall us x l, length x = us -> uni us l -> uni us (ins_sorted x l).
Proof.
  intros us x l Hx Hl. induction Hl as [|y t Hy Ht IH]; simpl.
  - apply uni_one, Hx.
  - destruct (bytes_leb x y).
    + apply uni_cons; [exact Hx | apply uni_cons; assumption].
    + apply uni_cons; assumption.
Qed.

Lemma sort_units_length : forall l, length (sort_units l) = length l.
Proof.
  intros l. induction l as [|x t IH]; [reflexivity|].
  change (sort_units (x :: t)) with (ins_sorted x (sort_units t)).
  rewrite ins_sorted_length, IH. reflexivity.
Qed.

Lemma sort_units_uni : forall us l, uni us l -> uni us (sort_units l).
Proof.
  intros us l H. induction H as [|x t Hx Ht IH]; [apply uni_nil|].
  change (sort_units (x :: t)) with (ins_sorted x (sort_units t)).
  apply ins_sorted_uni; assumption.
Qed.

Lemma l_find_lt : forall l d i, l_find l d = Some i -> i < length l.
Proof.
  intros l d. induction l as [|x t IH]; intros i H; simpl in H; [discriminate|].
  destruct (bytes_eqb d x).
  - inversion H. simpl. lia.
  - destruct (l_find t d) as [j|] eqn:Hj; [|discriminate].
    inversion H. simpl. specialize (IH j eq_refl). lia.
Qed.

(* ---------------------------------------------------------------- tactics *)
Ltac fields := cbn [u_arr u_usize u_start u_num u_anum] in *.
Ltac lst := repeat rewrite <- app_assoc; cbn [app]; reflexivity.
Ltac len := repeat first [rewrite app_length | rewrite firstn_length | rewrite skipn_length | rewrite repeat_length];
            cbn [length]; lia.

Lemma slice_chunk1 : forall us A b C off,
  uni us A -> length b = us -> off = length A * us -> slice (concat (A ++ b :: C)) off us = b.
Proof.
  intros us A b C off HA Hb Hoff.
  change (A ++ b :: C) with (A ++ [b] ++ C).
  rewrite (slice_chunks us A [b] C off us); auto.
  - apply concat_one.
  - apply uni_one, Hb.
  - simpl. lia.
Qed.

Lemma write_chunk1 : forall us A b d C off,
  uni us A -> length b = us -> length d = us -> off = length A * us ->
  write (concat (A ++ b :: C)) off d = concat (A ++ d :: C).
Proof.
  intros us A b d C off HA Hb Hd Hoff.
  change (A ++ b :: C) with (A ++ [b] ++ C). change (A ++ d :: C) with (A ++ [d] ++ C).
  rewrite <- (concat_one d) at 1.
  apply (write_chunks us); auto; apply uni_one; assumption.
Qed.

(* memmove of whole chunks: the same chunk list read as A1 ++ B ++ C1 and overwritten at A2 ++ B2 ++ C2 *)
Lemma move_chunks : forall us cs A1 B C1 A2 B2 C2 dst src n,
  cs = A1 ++ B ++ C1 -> cs = A2 ++ B2 ++ C2 ->
  uni us A1 -> uni us B -> uni us A2 -> uni us B2 -> length B2 = length B ->
  src = length A1 * us -> n = length B * us -> dst = length A2 * us ->
  move (concat cs) dst src n = concat (A2 ++ B ++ C2).
Proof.
  intros us cs A1 B C1 A2 B2 C2 dst src n H1 H2 HA1 HB HA2 HB2 Hlen Hsrc Hn Hdst.
  unfold move. rewrite H1 at 2. rewrite (slice_chunks us A1 B C1 src n HA1 HB Hsrc Hn).
  rewrite H2. apply (write_chunks us); auto.
Qed.

Lemma split3 : forall (A : Type) (l : list A) i, i < length l ->
  exists xa x xb, l = xa ++ x :: xb /\ length xa = i.
Proof.
  intros A l i Hi. destruct (split_at A l i Hi) as [x [H _]].
  exists (firstn i l), x, (skipn (S i) l). split; [exact H|]. rewrite firstn_length. lia.
Qed.

Lemma split2 : forall (A : Type) (l : list A) i, i <= length l ->
  exists xa xb, l = xa ++ xb /\ length xa = i.
Proof.
  intros A l i Hi. exists (firstn i l), (skipn i l). split; [symmetry; apply firstn_skipn|].
  rewrite firstn_length. lia.
Qed.

Lemma l_insert_app : forall (A : Type) (xa xb : list A) d, l_insert (xa ++ xb) (length xa) d = xa ++ d :: xb.
Proof.
  intros A xa xb d. unfold l_insert.
  rewrite firstn_app_exact, skipn_app_exact; reflexivity.
Qed.

Lemma l_set_app : forall (A : Type) (xa xb : list A) x d, l_set (xa ++ x :: xb) (length xa) d = xa ++ d :: xb.
Proof.
  intros A xa xb x d. unfold l_set. rewrite firstn_app_exact by reflexivity.
  change (xa ++ x :: xb) with (xa ++ [x] ++ xb). rewrite app_assoc.
  rewrite skipn_app_exact; [reflexivity|]. rewrite app_length. simpl. lia.
Qed.

Lemma l_remove_app : forall (A : Type) (xa xb : list A) x, l_remove (xa ++ x :: xb) (length xa) = xa ++ xb.
Proof.
  intros A xa xb x. unfold l_remove. rewrite firstn_app_exact by reflexivity.
  change (xa ++ x :: xb) with (xa ++ [x] ++ xb). rewrite app_assoc.
  rewrite skipn_app_exact; [reflexivity|]. rewrite app_length. simpl. lia.
Qed.

Lemma nth_error_mid : forall (A : Type) (xa xb : list A) x, nth_error (xa ++ x :: xb) (length xa) = Some x.
Proof.
  intros A xa xb x. rewrite nth_error_app2 by lia. rewrite Nat.sub_diag. reflexivity.
Qed.

(* ---------------------------------------------------------------- the representation invariant *)
Definition u_wf (l : ulist) : Prop :=
  0 < u_usize l /\ 0 < u_anum l /\ length (u_arr l) = u_anum l * u_usize l /\ u_start l + u_num l <= u_anum l.

(* the array is  pre ++ xs ++ post  in chunks of usize bytes; st / n are the first live unit and live count *)
Record repx (l : ulist) (st n : nat) (pre xs post : list (list Z)) : Prop := mkRepx {
  r_us : 0 < u_usize l;
  r_an : 0 < u_anum l;
  r_arr : u_arr l = concat (pre ++ xs ++ post);
  r_pre : uni (u_usize l) pre;
  r_xs : uni (u_usize l) xs;
  r_post : uni (u_usize l) post;
  r_lpre : length pre = st;
  r_lxs : length xs = n;
  r_tot : length pre + length xs + length post = u_anum l }.

Definition rep (l : ulist) := repx l (u_start l) (u_num l).

Definition good (l : ulist) (us : nat) (s : list (list Z)) : Prop :=
  u_wf l /\ u_usize l = us /\ u_units l = s.

Lemma u_units_length : forall l, length (u_units l) = u_num l.
Proof. intros l. unfold u_units. rewrite map_length, seq_length. reflexivity. Qed.

Lemma units_aux : forall us xs pre post, uni us pre -> uni us xs ->
  map (fun i => slice (concat (pre ++ xs ++ post)) ((length pre + i) * us) us) (seq 0 (length xs)) = xs.
Proof.
  intros us xs. induction xs as [|x xs IH]; intros pre post Hpre Hxs; [reflexivity|].
  cbn [length]. rewrite <- cons_seq, <- seq_shift, map_cons, map_map. f_equal.
  - change (pre ++ (x :: xs) ++ post) with (pre ++ x :: (xs ++ post)).
    apply slice_chunk1; [exact Hpre | eapply uni_cons_hd; exact Hxs | f_equal; lia].
  - transitivity (map (fun i => slice (concat ((pre ++ [x]) ++ xs ++ post)) ((length (pre ++ [x]) + i) * us) us)
                      (seq 0 (length xs))).
    + apply map_ext. intros i. rewrite <- app_assoc, app_length. cbn [app length].
      f_equal. f_equal. lia.
    + apply IH.
      * apply uni_app; [exact Hpre | apply uni_one; eapply uni_cons_hd; exact Hxs].
      * eapply uni_cons_tl; exact Hxs.
Qed.

Lemma rep_units : forall l pre xs post, rep l pre xs post -> u_units l = xs.
Proof.
  intros l pre xs post [Hus Han Harr Hpre Hxs Hpost Hlpre Hlxs Htot].
  unfold u_units. rewrite Harr, <- Hlpre, <- Hlxs. apply units_aux; assumption.
Qed.

Lemma rep_wf : forall l pre xs post, rep l pre xs post -> u_wf l.
Proof.
  intros l pre xs post [Hus Han Harr Hpre Hxs Hpost Hlpre Hlxs Htot].
  unfold u_wf. repeat split; try assumption; [|lia].
  rewrite Harr, (concat_uni_length (u_usize l)).
  - f_equal. rewrite <- Htot. len.
  - repeat apply uni_app; assumption.
Qed.

Lemma rep_good : forall l us pre xs post, rep l pre xs post -> u_usize l = us -> good l us xs.
Proof.
  intros l us pre xs post Hrep Hus. split; [|split].
  - eapply rep_wf; exact Hrep.
  - exact Hus.
  - eapply rep_units; exact Hrep.
Qed.

Lemma wf_rep : forall l, u_wf l -> exists pre xs post, rep l pre xs post.
Proof.
  intros l [Hus [Han [Hlen Hle]]].
  destruct (exists_chunks (u_usize l) (u_anum l) (u_arr l) Hlen) as [cs [Hc [Hu Hl]]].
  exists (firstn (u_start l) cs), (firstn (u_num l) (skipn (u_start l) cs)),
         (skipn (u_num l) (skipn (u_start l) cs)).
  constructor.
  - exact Hus.
  - exact Han.
  - rewrite firstn_skipn, firstn_skipn. exact Hc.
  - apply uni_firstn, Hu.
  - apply uni_firstn, uni_skipn, Hu.
  - apply uni_skipn, uni_skipn, Hu.
  - len.
  - len.
  - len.
Qed.

Lemma u_init_wf : forall il us, 0 < us -> u_wf (u_init il us).
Proof.
  intros il us Hus. unfold u_init.
  set (an := if il =? 0 then ALLOC_UNIT else il).
  assert (Han : 0 < an).
  { unfold an. pose proof ALLOC_UNIT_pos as HA. destruct (il =? 0) eqn:E; [exact HA|].
    apply Nat.eqb_neq in E. lia. }
  unfold u_wf. fields. repeat split; try assumption; [|lia].
  rewrite repeat_length. apply Nat.mul_comm.
Qed.

Lemma u_init_units : forall il us, u_units (u_init il us) = [].
Proof. intros il us. reflexivity. Qed.

Lemma u_init_usize : forall il us, u_usize (u_init il us) = us.
Proof. intros il us. reflexivity. Qed.

(* ---------------------------------------------------------------- growth *)
Lemma rep_grow : forall l pre xs post, rep l pre xs post ->
  rep (u_grow l) pre xs (post ++ repeat (zchunk (u_usize l)) (u_num l + 1)).
Proof.
  intros l pre xs post [Hus Han Harr Hpre Hxs Hpost Hlpre Hlxs Htot].
  assert (Hall : uni (u_usize l) (pre ++ xs ++ post)) by (repeat apply uni_app; assumption).
  assert (Hlall : length (pre ++ xs ++ post) = u_anum l) by len.
  unfold u_grow. constructor; fields.
  - exact Hus.
  - lia.
  - rewrite Harr, (resize_chunks _ _ _ Hall), Hlall.
    rewrite firstn_all2 by lia.
    replace (u_anum l + u_num l + 1 - u_anum l) with (u_num l + 1) by lia.
    f_equal. lst.
  - exact Hpre.
  - exact Hxs.
  - apply uni_app; [exact Hpost | apply uni_repeat, zchunk_length].
  - exact Hlpre.
  - exact Hlxs.
  - len.
Qed.

Lemma rep_ensure : forall l pre xs post, rep l pre xs post ->
  exists arr1 an1 post1,
    (if u_anum l <=? u_start l + u_num l then u_grow l else l) = mkU arr1 (u_usize l) (u_start l) (u_num l) an1 /\
    rep (mkU arr1 (u_usize l) (u_start l) (u_num l) an1) pre xs post1 /\ 1 <= length post1.
Proof.
  intros l pre xs post Hrep.
  destruct (u_anum l <=? u_start l + u_num l) eqn:E.
  - exists (u_arr (u_grow l)), (u_anum (u_grow l)), (post ++ repeat (zchunk (u_usize l)) (u_num l + 1)).
    split; [reflexivity|]. split; [exact (rep_grow _ _ _ _ Hrep) | len].
  - apply Nat.leb_gt in E. exists (u_arr l), (u_anum l), post.
    destruct l as [arr us st n an]. fields. split; [reflexivity|]. split; [exact Hrep|].
    destruct Hrep as [Hus Han Harr Hpre Hxs Hpost Hlpre Hlxs Htot]. fields. lia.
Qed.

(* ---------------------------------------------------------------- push *)
Lemma push_ok : forall l pre xs post d, rep l pre xs post -> length d = u_usize l ->
  good (u_push l d) (u_usize l) (xs ++ [d]).
Proof.
  intros l pre xs post d Hrep Hd.
  destruct (rep_ensure l pre xs post Hrep) as [arr1 [an1 [post1 [Heq [Hrep1 Hp1]]]]].
  unfold u_push. cbv zeta. rewrite Heq. fields.
  destruct Hrep1 as [Hus Han Harr Hpre Hxs Hpost Hlpre Hlxs Htot]. fields.
  destruct post1 as [|p post1]; [simpl in Hp1; lia|].
  apply rep_good with (pre := pre) (post := post1); [|reflexivity].
  constructor; fields.
  - exact Hus.
  - exact Han.
  - rewrite Harr. replace (pre ++ xs ++ p :: post1) with ((pre ++ xs) ++ p :: post1) by lst.
    rewrite (write_chunk1 (u_usize l)).
    + f_equal. lst.
    + apply uni_app; assumption.
    + eapply uni_cons_hd; exact Hpost.
    + exact Hd.
    + f_equal. len.
  - exact Hpre.
  - apply uni_app; [exact Hxs | apply uni_one, Hd].
  - eapply uni_cons_tl; exact Hpost.
  - exact Hlpre.
  - len.
  - revert Htot. len.
Qed.

(* ---------------------------------------------------------------- shrink, pop, shift *)
Lemma shrink_rep : forall l st n pre xs post, repx l st n pre xs post ->
  exists pre' post', rep (u_shrink l st n) pre' xs post' /\ u_usize (u_shrink l st n) = u_usize l.
Proof.
  intros l st n pre xs post [Hus Han Harr Hpre Hxs Hpost Hlpre Hlxs Htot].
  unfold u_shrink.
  destruct ((ALLOC_UNIT <? u_anum l) && (n * 2 <=? u_anum l)) eqn:Hc.
  - apply andb_prop in Hc. destruct Hc as [Hc1 Hc2]. apply Nat.ltb_lt in Hc1. apply Nat.leb_le in Hc2.
    cbv zeta.
    set (an := if ALLOC_UNIT <? n then n else ALLOC_UNIT).
    assert (Han1 : n <= an /\ an <= u_anum l /\ 0 < an).
    { unfold an. pose proof ALLOC_UNIT_pos as HA.
      destruct (ALLOC_UNIT <? n) eqn:E; [apply Nat.ltb_lt in E | apply Nat.ltb_ge in E]; lia. }
    destruct Han1 as [Han1 [Han2 Han3]].
    assert (Ha1 : exists C,
      (if st =? 0 then u_arr l else move (u_arr l) 0 (st * u_usize l) (n * u_usize l)) = concat (xs ++ C) /\
      uni (u_usize l) C /\ length xs + length C = u_anum l).
    { destruct (st =? 0) eqn:E.
      - apply Nat.eqb_eq in E. exists post. destruct pre as [|p0 pre]; [|simpl in Hlpre; lia].
        simpl in Harr, Htot. auto.
      - assert (Hcs : uni (u_usize l) (pre ++ xs ++ post)) by (repeat apply uni_app; assumption).
        exists (skipn n (pre ++ xs ++ post)). split; [|split].
        + rewrite Harr.
          rewrite (move_chunks (u_usize l) (pre ++ xs ++ post) pre xs post
                     [] (firstn n (pre ++ xs ++ post)) (skipn n (pre ++ xs ++ post))).
          * reflexivity.
          * reflexivity.
          * cbn [app]. symmetry. apply firstn_skipn.
          * exact Hpre.
          * exact Hxs.
          * apply uni_nil.
          * apply uni_firstn, Hcs.
          * len.
          * f_equal. lia.
          * f_equal. lia.
          * reflexivity.
        + apply uni_skipn, Hcs.
        + len. }
    destruct Ha1 as [C [Ha1 [HC HlC]]].
    exists [], (firstn (an - n) C). split; [|reflexivity].
    constructor; fields.
    + exact Hus.
    + exact Han3.
    + rewrite Ha1. rewrite (resize_chunks (u_usize l)) by (apply uni_app; assumption).
      f_equal. cbn [app]. rewrite firstn_app, Hlxs.
      rewrite firstn_all2 by lia.
      replace (an - length (xs ++ C)) with 0 by len.
      cbn [repeat]. rewrite app_nil_r. reflexivity.
    + apply uni_nil.
    + exact Hxs.
    + apply uni_firstn, HC.
    + reflexivity.
    + exact Hlxs.
    + len.
  - exists pre, post. split; [|reflexivity]. constructor; fields; assumption.
Qed.

Lemma shrink_good : forall l st n pre xs post, repx l st n pre xs post ->
  good (u_shrink l st n) (u_usize l) xs.
Proof.
  intros l st n pre xs post H. destruct (shrink_rep _ _ _ _ _ _ H) as [pre' [post' [Hrep Hus]]].
  eapply rep_good; eassumption.
Qed.

Lemma pop_ok : forall l pre r q post, rep l pre (r ++ [q]) post ->
  good (u_shrink l (u_start l) (u_num l - 1)) (u_usize l) r.
Proof.
  intros l pre r q post [Hus Han Harr Hpre Hxs Hpost Hlpre Hlxs Htot].
  apply shrink_good with (pre := pre) (post := q :: post).
  constructor.
  - exact Hus.
  - exact Han.
  - rewrite Harr. f_equal. lst.
  - exact Hpre.
  - eapply uni_app_l; exact Hxs.
  - apply uni_cons; [|exact Hpost]. apply uni_app_r in Hxs. eapply uni_cons_hd; exact Hxs.
  - exact Hlpre.
  - revert Hlxs. len.
  - revert Htot. len.
Qed.

Lemma shift_ok : forall l pre x t post, rep l pre (x :: t) post ->
  good (u_shrink l (u_start l + 1) (u_num l - 1)) (u_usize l) t.
Proof.
  intros l pre x t post [Hus Han Harr Hpre Hxs Hpost Hlpre Hlxs Htot].
  apply shrink_good with (pre := pre ++ [x]) (post := post).
  constructor.
  - exact Hus.
  - exact Han.
  - rewrite Harr. f_equal. lst.
  - apply uni_app; [exact Hpre | apply uni_one; eapply uni_cons_hd; exact Hxs].
  - eapply uni_cons_tl; exact Hxs.
  - exact Hpost.
  - len.
  - revert Hlxs. len.
  - revert Htot. len.
Qed.

(* ---------------------------------------------------------------- insert, set, remove *)
Lemma insert_ok : forall l pre xs post i d, rep l pre xs post -> length d = u_usize l -> i <= u_num l ->
  exists l', u_insert l i d = (l', U_OK) /\ good l' (u_usize l) (l_insert xs i d).
Proof.
  intros l pre xs post i d Hrep Hd Hi.
  destruct (rep_ensure l pre xs post Hrep) as [arr1 [an1 [post1 [Heq [Hrep1 Hp1]]]]].
  unfold u_insert. destruct (u_num l <? i) eqn:E; [apply Nat.ltb_lt in E; lia|]. clear E.
  cbv zeta. rewrite Heq. fields. eexists. split; [reflexivity|].
  destruct Hrep1 as [Hus Han Harr Hpre Hxs Hpost Hlpre Hlxs Htot]. fields.
  destruct post1 as [|p post1]; [simpl in Hp1; lia|].
  destruct (split2 _ xs i) as [xa [xb [Hsplit Hlxa]]]; [lia|]. subst xs.
  rewrite <- Hlxa, l_insert_app.
  destruct (snoc_uncons _ xb p) as [q [r [Hqr Hlr]]].
  assert (Hxa : uni (u_usize l) xa) by (eapply uni_app_l; exact Hxs).
  assert (Hxb : uni (u_usize l) xb) by (eapply uni_app_r; exact Hxs).
  assert (Hp : length p = u_usize l) by (eapply uni_cons_hd; exact Hpost).
  assert (Hqr' : uni (u_usize l) (q :: r)).
  { rewrite <- Hqr. apply uni_app; [exact Hxb | apply uni_one, Hp]. }
  assert (Hlen : length (xa ++ xb) = length xa + length xb) by apply app_length.
  apply rep_good with (pre := pre) (post := post1); [|reflexivity].
  constructor; fields.
  - exact Hus.
  - exact Han.
  - rewrite Harr.
    rewrite (move_chunks (u_usize l) (pre ++ (xa ++ xb) ++ p :: post1) (pre ++ xa) xb (p :: post1)
               (pre ++ xa ++ [q]) r post1).
    + replace ((pre ++ xa ++ [q]) ++ xb ++ post1) with ((pre ++ xa) ++ q :: (xb ++ post1)) by lst.
      rewrite (write_chunk1 (u_usize l)).
      * f_equal. lst.
      * apply uni_app; assumption.
      * eapply uni_cons_hd; exact Hqr'.
      * exact Hd.
      * f_equal. len.
    + lst.
    + transitivity (pre ++ xa ++ (xb ++ [p]) ++ post1); [lst|]. rewrite Hqr. lst.
    + apply uni_app; assumption.
    + exact Hxb.
    + repeat apply uni_app; try assumption. apply uni_one. eapply uni_cons_hd; exact Hqr'.
    + eapply uni_cons_tl; exact Hqr'.
    + exact Hlr.
    + f_equal. len.
    + f_equal. lia.
    + f_equal. len.
  - exact Hpre.
  - apply uni_app; [exact Hxa | apply uni_cons; assumption].
  - eapply uni_cons_tl; exact Hpost.
  - exact Hlpre.
  - revert Hlxs. len.
  - revert Htot. len.
Qed.

Lemma set_ok : forall l pre xs post i d, rep l pre xs post -> length d = u_usize l -> i < u_num l ->
  exists l', u_set l i d = (l', U_OK) /\ good l' (u_usize l) (l_set xs i d).
Proof.
  intros l pre xs post i d Hrep Hd Hi.
  unfold u_set. destruct (u_num l <=? i) eqn:E; [apply Nat.leb_le in E; lia|]. clear E.
  cbv zeta. eexists. split; [reflexivity|].
  destruct Hrep as [Hus Han Harr Hpre Hxs Hpost Hlpre Hlxs Htot].
  destruct (split3 _ xs i) as [xa [x [xb [Hsplit Hlxa]]]]; [lia|]. subst xs.
  rewrite <- Hlxa, l_set_app.
  assert (Hxa : uni (u_usize l) xa) by (eapply uni_app_l; exact Hxs).
  assert (Hxb : uni (u_usize l) (x :: xb)) by (eapply uni_app_r; exact Hxs).
  apply rep_good with (pre := pre) (post := post); [|reflexivity].
  constructor; fields.
  - exact Hus.
  - exact Han.
  - rewrite Harr.
    replace (pre ++ (xa ++ x :: xb) ++ post) with ((pre ++ xa) ++ x :: (xb ++ post)) by lst.
    rewrite (write_chunk1 (u_usize l)).
    + f_equal. lst.
    + apply uni_app; assumption.
    + eapply uni_cons_hd; exact Hxb.
    + exact Hd.
    + f_equal. len.
  - exact Hpre.
  - apply uni_app; [exact Hxa|]. apply uni_cons; [exact Hd | eapply uni_cons_tl; exact Hxb].
  - exact Hpost.
  - exact Hlpre.
  - revert Hlxs. len.
  - revert Htot. len.
Qed.

Lemma remove_ok : forall l pre xs post i, rep l pre xs post -> i < u_num l ->
  exists l', u_remove l i = (l', U_OK) /\ good l' (u_usize l) (l_remove xs i).
Proof.
  intros l pre xs post i Hrep Hi.
  unfold u_remove. destruct (u_num l <=? i) eqn:E; [apply Nat.leb_le in E; lia|]. clear E.
  cbv zeta. eexists. split; [reflexivity|].
  destruct Hrep as [Hus Han Harr Hpre Hxs Hpost Hlpre Hlxs Htot].
  destruct (split3 _ xs i) as [xa [x [xb [Hsplit Hlxa]]]]; [lia|]. subst xs.
  rewrite <- Hlxa, l_remove_app.
  assert (Hxa : uni (u_usize l) xa) by (eapply uni_app_l; exact Hxs).
  assert (Hxb : uni (u_usize l) (x :: xb)) by (eapply uni_app_r; exact Hxs).
  destruct (cons_unsnoc _ xb x) as [r [q [Hrq Hlr]]].
  assert (Hrq' : uni (u_usize l) (r ++ [q])) by (rewrite <- Hrq; exact Hxb).
  assert (Hlen : length (xa ++ x :: xb) = length xa + S (length xb)) by len.
  match goal with |- good (u_shrink ?L _ _) _ _ => change (u_usize l) with (u_usize L) end.
  apply shrink_good with (pre := pre) (post := q :: post).
  constructor; fields.
  - exact Hus.
  - exact Han.
  - rewrite Harr.
    rewrite (move_chunks (u_usize l) (pre ++ (xa ++ x :: xb) ++ post) (pre ++ xa ++ [x]) xb post
               (pre ++ xa) r (q :: post)).
    + f_equal. lst.
    + lst.
    + transitivity (pre ++ xa ++ (x :: xb) ++ post); [lst|]. rewrite Hrq. lst.
    + repeat apply uni_app; try assumption. apply uni_one. eapply uni_cons_hd; exact Hxb.
    + eapply uni_cons_tl; exact Hxb.
    + apply uni_app; assumption.
    + eapply uni_app_l; exact Hrq'.
    + exact Hlr.
    + f_equal. len.
    + f_equal. lia.
    + f_equal. len.
  - exact Hpre.
  - apply uni_app; [exact Hxa | eapply uni_cons_tl; exact Hxb].
  - apply uni_cons; [|exact Hpost]. apply uni_app_r in Hrq'. eapply uni_cons_hd; exact Hrq'.
  - exact Hlpre.
  - revert Hlxs. len.
  - revert Htot. len.
Qed.

(* ---------------------------------------------------------------- unshift *)
Definition unshift_l2 (l : ulist) : ulist :=
  if Nat.eqb (u_start l) 0 then
    let l1 := if (u_anum l <=? u_num l) then u_grow l else l in
    let st := u_anum l1 - u_num l1 in
    mkU (move (u_arr l1) (st * u_usize l1) 0 (u_num l1 * u_usize l1)) (u_usize l1) st (u_num l1) (u_anum l1)
  else l.

Lemma u_unshift_eq : forall l d, u_unshift l d =
  mkU (write (u_arr (unshift_l2 l)) ((u_start (unshift_l2 l) - 1) * u_usize (unshift_l2 l)) d)
      (u_usize (unshift_l2 l)) (u_start (unshift_l2 l) - 1) (S (u_num (unshift_l2 l))) (u_anum (unshift_l2 l)).
Proof. reflexivity. Qed.

Lemma unshift_room : forall l pre xs post, rep l pre xs post ->
  exists arr2 st2 an2 pre2 post2,
    unshift_l2 l = mkU arr2 (u_usize l) st2 (u_num l) an2 /\
    rep (mkU arr2 (u_usize l) st2 (u_num l) an2) pre2 xs post2 /\ 1 <= st2.
Proof.
  intros l pre xs post Hrep. unfold unshift_l2.
  destruct (u_start l =? 0) eqn:E.
  - apply Nat.eqb_eq in E.
    destruct (rep_ensure l pre xs post Hrep) as [arr1 [an1 [post1 [Heq [Hrep1 Hp1]]]]].
    rewrite E in Heq, Hrep1. cbn [Nat.add] in Heq. cbv zeta. rewrite Heq. fields.
    destruct Hrep1 as [Hus Han Harr Hpre Hxs Hpost Hlpre Hlxs Htot]. fields.
    destruct pre as [|p0 pre]; [|simpl in Hlpre; lia]. cbn [app length] in *.
    assert (Hcs : uni (u_usize l) (xs ++ post1)) by (apply uni_app; assumption).
    exists (move arr1 ((an1 - u_num l) * u_usize l) 0 (u_num l * u_usize l)), (an1 - u_num l), an1,
           (firstn (an1 - u_num l) (xs ++ post1)), [].
    split; [reflexivity|]. split; [|lia].
    constructor; fields.
    + exact Hus.
    + exact Han.
    + rewrite Harr.
      rewrite (move_chunks (u_usize l) (xs ++ post1) [] xs post1
                 (firstn (an1 - u_num l) (xs ++ post1)) (skipn (an1 - u_num l) (xs ++ post1)) []).
      * reflexivity.
      * reflexivity.
      * rewrite app_nil_r. symmetry. apply firstn_skipn.
      * apply uni_nil.
      * exact Hxs.
      * apply uni_firstn, Hcs.
      * apply uni_skipn, Hcs.
      * len.
      * reflexivity.
      * f_equal. lia.
      * f_equal. len.
    + apply uni_firstn, Hcs.
    + exact Hxs.
    + apply uni_nil.
    + len.
    + exact Hlxs.
    + len.
  - apply Nat.eqb_neq in E. destruct l as [arr us st n an]. fields.
    exists arr, st, an, pre, post. split; [reflexivity|]. split; [exact Hrep | lia].
Qed.

Lemma unshift_ok : forall l pre xs post d, rep l pre xs post -> length d = u_usize l ->
  good (u_unshift l d) (u_usize l) (d :: xs).
Proof.
  intros l pre xs post d Hrep Hd.
  destruct (unshift_room l pre xs post Hrep) as [arr2 [st2 [an2 [pre2 [post2 [Heq [Hrep2 Hst2]]]]]]].
  rewrite u_unshift_eq, Heq. fields.
  destruct Hrep2 as [Hus Han Harr Hpre Hxs Hpost Hlpre Hlxs Htot]. fields.
  destruct (exists_last (l := pre2)) as [pre3 [q Hq]].
  { intros Hnil. subst pre2. simpl in Hlpre. lia. }
  subst pre2.
  assert (Hpre3 : uni (u_usize l) pre3) by (eapply uni_app_l; exact Hpre).
  assert (Hq : length q = u_usize l).
  { apply uni_app_r in Hpre. eapply uni_cons_hd; exact Hpre. }
  apply rep_good with (pre := pre3) (post := post2); [|reflexivity].
  constructor; fields.
  - exact Hus.
  - exact Han.
  - rewrite Harr.
    replace ((pre3 ++ [q]) ++ xs ++ post2) with (pre3 ++ q :: (xs ++ post2)) by lst.
    rewrite (write_chunk1 (u_usize l)).
    + reflexivity.
    + exact Hpre3.
    + exact Hq.
    + exact Hd.
    + f_equal. revert Hlpre. len.
  - exact Hpre3.
  - apply uni_cons; assumption.
  - exact Hpost.
  - revert Hlpre. len.
  - revert Hlxs. len.
  - revert Htot. len.
Qed.

(* ---------------------------------------------------------------- find, get *)
Lemma u_scan_unfold : forall l d f i,
  u_scan l d (S f) i =
  if bytes_eqb d (slice (u_arr l) (i * u_usize l) (u_usize l)) then Some (i - u_start l)
  else u_scan l d f (S i).
Proof. reflexivity. Qed.

Lemma scan_spec : forall l d pre post xs2 xs1,
  u_arr l = concat (pre ++ (xs1 ++ xs2) ++ post) -> uni (u_usize l) pre -> uni (u_usize l) (xs1 ++ xs2) ->
  length pre = u_start l ->
  u_scan l d (length xs2) (u_start l + length xs1) = option_map (fun j => length xs1 + j) (l_find xs2 d).
Proof.
  intros l d pre post xs2. induction xs2 as [|x xs2 IH]; intros xs1 Harr Hpre Hxs Hlpre; [reflexivity|].
  cbn [length l_find]. rewrite u_scan_unfold.
  assert (Hs : slice (u_arr l) ((u_start l + length xs1) * u_usize l) (u_usize l) = x).
  { rewrite Harr. replace (pre ++ (xs1 ++ x :: xs2) ++ post) with ((pre ++ xs1) ++ x :: (xs2 ++ post)) by lst.
    apply slice_chunk1.
    - apply uni_app; [exact Hpre | eapply uni_app_l; exact Hxs].
    - apply uni_app_r in Hxs. eapply uni_cons_hd; exact Hxs.
    - f_equal. len. }
  rewrite Hs. destruct (bytes_eqb d x).
  - cbn [option_map]. f_equal. lia.
  - replace (S (u_start l + length xs1)) with (u_start l + length (xs1 ++ [x])) by len.
    rewrite (IH (xs1 ++ [x])).
    + destruct (l_find xs2 d) as [j|]; cbn [option_map]; [f_equal; len | reflexivity].
    + rewrite Harr. f_equal. lst.
    + exact Hpre.
    + replace ((xs1 ++ [x]) ++ xs2) with (xs1 ++ x :: xs2) by lst. exact Hxs.
    + exact Hlpre.
Qed.

Lemma find_ok : forall l pre xs post d, rep l pre xs post -> u_find_first l d = l_find xs d.
Proof.
  intros l pre xs post d [Hus Han Harr Hpre Hxs Hpost Hlpre Hlxs Htot].
  pose proof (scan_spec l d pre post xs [] Harr Hpre Hxs Hlpre) as H.
  cbn [length] in H. rewrite Nat.add_0_r, Hlxs in H.
  unfold u_find_first. rewrite H. destruct (l_find xs d); reflexivity.
Qed.

Lemma get_ok : forall l pre xs post i, rep l pre xs post -> u_get l i = nth_error xs i.
Proof.
  intros l pre xs post i [Hus Han Harr Hpre Hxs Hpost Hlpre Hlxs Htot].
  unfold u_get. destruct (u_num l <=? i) eqn:E.
  - apply Nat.leb_le in E. symmetry. apply nth_error_None. lia.
  - apply Nat.leb_gt in E.
    destruct (split3 _ xs i) as [xa [x [xb [Hsplit Hlxa]]]]; [lia|]. subst xs.
    rewrite <- Hlxa at 2. rewrite nth_error_mid. f_equal.
    rewrite Harr. replace (pre ++ (xa ++ x :: xb) ++ post) with ((pre ++ xa) ++ x :: (xb ++ post)) by lst.
    apply slice_chunk1.
    + apply uni_app; [exact Hpre | eapply uni_app_l; exact Hxs].
    + apply uni_app_r in Hxs. eapply uni_cons_hd; exact Hxs.
    + f_equal. len.
Qed.

(* ---------------------------------------------------------------- clone, copy, sort, clear, reset *)
Lemma clone_ok : forall l pre xs post, rep l pre xs post -> u_units (u_clone l) = xs.
Proof.
  intros l pre xs post [Hus Han Harr Hpre Hxs Hpost Hlpre Hlxs Htot].
  unfold u_clone. destruct (u_num l =? 0) eqn:E.
  - apply Nat.eqb_eq in E. rewrite u_init_units. destruct xs; [reflexivity | simpl in Hlxs; lia].
  - apply Nat.eqb_neq in E. cbv zeta.
    set (an := if ALLOC_UNIT <? u_num l then u_num l else ALLOC_UNIT).
    assert (Han1 : u_num l <= an).
    { unfold an. destruct (ALLOC_UNIT <? u_num l) eqn:E1; [lia | apply Nat.ltb_ge in E1; lia]. }
    apply rep_units with (pre := []) (post := repeat (zchunk (u_usize l)) (an - u_num l)).
    constructor; fields.
    + exact Hus.
    + lia.
    + rewrite Harr, (slice_chunks (u_usize l) pre xs post) by (auto; f_equal; lia).
      rewrite concat_repeat_zeros.
      replace an with (u_num l + (an - u_num l)) at 1 by lia. rewrite repeat_app.
      change (repeat (zchunk (u_usize l)) (u_num l) ++ repeat (zchunk (u_usize l)) (an - u_num l))
        with ([] ++ repeat (zchunk (u_usize l)) (u_num l) ++ repeat (zchunk (u_usize l)) (an - u_num l)).
      apply (write_chunks (u_usize l)).
      * apply uni_nil.
      * apply uni_repeat, zchunk_length.
      * exact Hxs.
      * len.
      * reflexivity.
    + apply uni_nil.
    + exact Hxs.
    + apply uni_repeat, zchunk_length.
    + reflexivity.
    + exact Hlxs.
    + len.
Qed.

Lemma push_units : forall t d, u_wf t -> length d = u_usize t -> good (u_push t d) (u_usize t) (u_units t ++ [d]).
Proof.
  intros t d Hwf Hd. destruct (wf_rep t Hwf) as [pre [xs [post Hrep]]].
  rewrite (rep_units _ _ _ _ Hrep). eapply push_ok; eassumption.
Qed.

Lemma fold_push_ok : forall ds t, u_wf t -> uni (u_usize t) ds ->
  good (fold_left u_push ds t) (u_usize t) (u_units t ++ ds).
Proof.
  intros ds. induction ds as [|d ds IH]; intros t Hwf Hds.
  - cbn [fold_left]. rewrite app_nil_r. split; [exact Hwf | split; reflexivity].
  - cbn [fold_left].
    destruct (push_units t d Hwf (uni_cons_hd _ _ _ Hds)) as [Hwf1 [Hus1 Hun1]].
    destruct (IH (u_push t d)) as [Hwf2 [Hus2 Hun2]].
    + exact Hwf1.
    + rewrite Hus1. eapply uni_cons_tl; exact Hds.
    + split; [exact Hwf2 | split].
      * rewrite Hus2. exact Hus1.
      * rewrite Hun2, Hun1. lst.
Qed.

Lemma copy_ok : forall l pre xs post il, rep l pre xs post ->
  u_units (u_copy l (u_init il (u_usize l))) = xs.
Proof.
  intros l pre xs post il Hrep. unfold u_copy. rewrite (rep_units _ _ _ _ Hrep).
  destruct Hrep as [Hus Han Harr Hpre Hxs Hpost Hlpre Hlxs Htot].
  destruct (fold_push_ok xs (u_init il (u_usize l))) as [_ [_ H]].
  - apply u_init_wf, Hus.
  - exact Hxs.
  - rewrite H. reflexivity.
Qed.

Lemma sort_ok : forall l pre xs post, rep l pre xs post -> good (u_sort l) (u_usize l) (sort_units xs).
Proof.
  intros l pre xs post Hrep. unfold u_sort. rewrite (rep_units _ _ _ _ Hrep).
  destruct Hrep as [Hus Han Harr Hpre Hxs Hpost Hlpre Hlxs Htot].
  apply rep_good with (pre := pre) (post := post); [|reflexivity].
  constructor; fields.
  - exact Hus.
  - exact Han.
  - rewrite Harr. apply (write_chunks (u_usize l)).
    + exact Hpre.
    + exact Hxs.
    + apply sort_units_uni, Hxs.
    + symmetry. apply sort_units_length.
    + f_equal. lia.
  - exact Hpre.
  - apply sort_units_uni, Hxs.
  - exact Hpost.
  - exact Hlpre.
  - rewrite sort_units_length. exact Hlxs.
  - rewrite sort_units_length. exact Htot.
Qed.

Lemma reset_ok : forall l, u_wf l -> good (u_reset l) (u_usize l) [].
Proof.
  intros l [Hus [Han [Hlen Hle]]]. unfold u_reset. split; [|split; reflexivity].
  unfold u_wf. fields. repeat split; try assumption. lia.
Qed.

Lemma clear_ok : forall l, u_wf l -> good (u_clear l) (u_usize l) [].
Proof.
  intros l [Hus _]. unfold u_clear. split; [|split; reflexivity]. apply u_init_wf, Hus.
Qed.

(* ---------------------------------------------------------------- one step, all call sequences *)
Lemma good_fin : forall l' us s (o o' : uout), good l' us s -> o = o' ->
  u_wf l' /\ u_usize l' = us /\ u_units l' = s /\ o = o'.
Proof. intros l' us s o o' [H1 [H2 H3]] Ho. split; [exact H1 | split; [exact H2 | split; [exact H3 | exact Ho]]]. Qed.

Lemma u_step_refines : forall l, u_wf l -> forall op, uop_ok (u_usize l) op ->
  let (l', o) := u_step l op in
  let (s', o') := l_step (u_units l) op in
  u_wf l' /\ u_usize l' = u_usize l /\ u_units l' = s' /\ o = o'.
Proof.
  intros l Hwf op Hop.
  destruct (wf_rep l Hwf) as [pre [xs [post Hrep]]].
  pose proof (rep_units _ _ _ _ Hrep) as Hun.
  assert (Hlxs : length xs = u_num l) by (destruct Hrep; assumption).
  assert (Hsame : good l (u_usize l) xs) by (split; [exact Hwf | split; [reflexivity | exact Hun]]).
  rewrite Hun.
  destruct op as [d|d| | |i d|i d|i|d|d|i| | |il| | |]; cbn [u_step l_step uop_ok] in *.
  - (* push *) apply good_fin; [eapply push_ok; eassumption | reflexivity].
  - (* unshift *) apply good_fin; [eapply unshift_ok; eassumption | reflexivity].
  - (* pop *) unfold u_pop. destruct (u_num l =? 0) eqn:E.
    + apply Nat.eqb_eq in E. destruct xs as [|x0 xs0]; [|simpl in Hlxs; lia].
      cbv beta iota. apply good_fin; [exact Hsame | reflexivity].
    + apply Nat.eqb_neq in E. destruct xs as [|x0 xs0]; [simpl in Hlxs; lia|].
      cbv beta iota.
      destruct (exists_last (l := x0 :: xs0)) as [r [q Hrq]]; [discriminate|].
      rewrite Hrq in Hrep |- *. rewrite removelast_last.
      apply good_fin; [eapply pop_ok; exact Hrep | reflexivity].
  - (* shift *) unfold u_shift. destruct (u_num l =? 0) eqn:E.
    + apply Nat.eqb_eq in E. destruct xs as [|x0 xs0]; [|simpl in Hlxs; lia].
      cbv beta iota. apply good_fin; [exact Hsame | reflexivity].
    + apply Nat.eqb_neq in E. destruct xs as [|x0 xs0]; [simpl in Hlxs; lia|].
      cbv beta iota. apply good_fin; [eapply shift_ok; exact Hrep | reflexivity].
  - (* insert *) rewrite Hlxs. destruct (u_num l <? i) eqn:E.
    + unfold u_insert. rewrite E. cbv beta iota. apply good_fin; [exact Hsame | reflexivity].
    + apply Nat.ltb_ge in E.
      destruct (insert_ok l pre xs post i d Hrep Hop E) as [l' [Heq Hgood]].
      rewrite Heq. cbv beta iota. apply good_fin; [exact Hgood | reflexivity].
  - (* set *) rewrite Hlxs. destruct (u_num l <=? i) eqn:E.
    + unfold u_set. rewrite E. cbv beta iota. apply good_fin; [exact Hsame | reflexivity].
    + apply Nat.leb_gt in E.
      destruct (set_ok l pre xs post i d Hrep Hop E) as [l' [Heq Hgood]].
      rewrite Heq. cbv beta iota. apply good_fin; [exact Hgood | reflexivity].
  - (* remove *) rewrite Hlxs. destruct (u_num l <=? i) eqn:E.
    + unfold u_remove. rewrite E. cbv beta iota. apply good_fin; [exact Hsame | reflexivity].
    + apply Nat.leb_gt in E.
      destruct (remove_ok l pre xs post i Hrep E) as [l' [Heq Hgood]].
      rewrite Heq. cbv beta iota. apply good_fin; [exact Hgood | reflexivity].
  - (* remove_first_by *) unfold u_remove_first_by. rewrite (find_ok _ _ _ _ d Hrep).
    destruct (l_find xs d) as [i|] eqn:Ef.
    + pose proof (l_find_lt _ _ _ Ef) as Hi. rewrite Hlxs in Hi.
      destruct (remove_ok l pre xs post i Hrep Hi) as [l' [Heq Hgood]].
      rewrite Heq. cbv beta iota. apply good_fin; [exact Hgood | reflexivity].
    + cbv beta iota. apply good_fin; [exact Hsame | reflexivity].
  - (* find_first *) apply good_fin; [exact Hsame|]. rewrite (find_ok _ _ _ _ d Hrep). reflexivity.
  - (* get *) apply good_fin; [exact Hsame|]. rewrite (get_ok _ _ _ _ i Hrep). reflexivity.
  - (* length *) apply good_fin; [exact Hsame|]. unfold u_length. rewrite Hlxs. reflexivity.
  - (* clone *) apply good_fin; [exact Hsame|]. rewrite (clone_ok _ _ _ _ Hrep). reflexivity.
  - (* copy *) apply good_fin; [exact Hsame|]. rewrite (copy_ok _ _ _ _ il Hrep). reflexivity.
  - (* clear *) apply good_fin; [apply clear_ok, Hwf | reflexivity].
  - (* reset *) apply good_fin; [apply reset_ok, Hwf | reflexivity].
  - (* sort *) apply good_fin; [eapply sort_ok; exact Hrep | reflexivity].
Qed.

Lemma u_run_refines : forall ops l, u_wf l -> Forall (uop_ok (u_usize l)) ops ->
  u_run l ops = l_run (u_units l) ops.
Proof.
  intros ops. induction ops as [|op ops IH]; intros l Hwf Hops; [reflexivity|].
  cbn [u_run l_run].
  pose proof (Forall_inv Hops) as Hop. pose proof (Forall_inv_tail Hops) as Hops'.
  pose proof (u_step_refines l Hwf op Hop) as H.
  destruct (u_step l op) as [l' o]. destruct (l_step (u_units l) op) as [s' o'].
  destruct H as [Hwf' [Hus' [Hun' Ho]]]. subst o' s'. f_equal.
  apply IH; [exact Hwf'|]. rewrite Hus'. exact Hops'.
Qed.

Theorem ulist_refines_list : forall il us ops, 0 < us -> Forall (uop_ok us) ops ->
  u_run (u_init il us) ops = l_run [] ops.
Proof.
  intros il us ops Hus Hops.
  rewrite (u_run_refines ops (u_init il us)).
  - rewrite u_init_units. reflexivity.
  - apply u_init_wf, Hus.
  - exact Hops.
Qed.
