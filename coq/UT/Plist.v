(* C18 - executable model of the pointer list iwlist (src/utils/iwarr.c, "Array list implementation") at SLOT
   level: the array of IWLISTITEM {val, size} is a list of slots, a slot is [Some bytes] (the item owns a copy of
   the byte string; its terminating zero is not modelled) or [None] (fresh memory from malloc/realloc, never
   observable: only the slots start .. start+num-1 are; slots left behind by pop/shift/remove keep their stale
   content exactly as the C array does).  Pointer arithmetic is on slots (memmove of n * sizeof(IWLISTITEM)).
   Follows the code after fixes 0130f41 (iwlist_unshift moves num items) and af097ff (iwlist_clone copies the
   item exactly and sets its size).  No proofs here. *)
Require Import ZArith List Bool Lia Arith.
Import ListNotations.

Definition slot := option (list Z).

Record plist := mkPL { pl_arr : list slot; pl_start : nat; pl_num : nat; pl_anum : nat }.

Inductive plrc := PL_OK | PL_OOB.

(* ---------------------------------------------------------------- memory primitives on a slot array *)
Definition s_slice (a : list slot) (off n : nat) : list slot := firstn n (skipn off a).
(* memcpy(a + off, bs, |bs| slots) *)
Definition s_write (a : list slot) (off : nat) (bs : list slot) : list slot :=
  firstn off a ++ bs ++ skipn (off + length bs) a.
(* memmove(a + dst, a + src, n slots) *)
Definition s_move (a : list slot) (dst src n : nat) : list slot := s_write a dst (s_slice a src n).
(* realloc(a, n slots) *)
Definition s_resize (a : list slot) (n : nat) : list slot := firstn n a ++ repeat None (n - length a).
(* a[i] *)
Definition s_at (a : list slot) (i : nat) : slot := nth i a None.

(* ---------------------------------------------------------------- the calls *)
(* iwlist_init / iwlist_create *)
Definition pl_init (anum : nat) : plist :=
  let an := if Nat.eqb anum 0 then 32 else anum in
  mkPL (repeat None an) 0 0 an.

Definition pl_length (l : plist) : nat := pl_num l.

(* iwlist_at / at2 / get: the item (val, size) or out of bounds *)
Definition pl_at (l : plist) (index : nat) : plrc * slot :=
  if (pl_num l <=? index) then (PL_OOB, None)
  else (PL_OK, s_at (pl_arr l) (index + pl_start l)).

(* the live items in order; a live slot is never None (Plist_proofs.pl_wf) *)
Definition slot_bytes (s : slot) : list Z := match s with Some d => d | None => [] end.
Definition pl_items (l : plist) : list (list Z) :=
  map (fun i => slot_bytes (s_at (pl_arr l) (pl_start l + i))) (seq 0 (pl_num l)).

(* iwlist_clone: an empty list gives iwlist_create(0), otherwise exactly num slots *)
Definition pl_clone (l : plist) : plist :=
  if Nat.eqb (pl_num l) 0 then pl_init 0
  else mkPL (s_slice (pl_arr l) (pl_start l) (pl_num l)) 0 (pl_num l) (pl_num l).

(* growth used by push / unshift / insert: anum + num + 1 *)
Definition pl_grow (l : plist) : plist :=
  let an := pl_anum l + pl_num l + 1 in
  mkPL (s_resize (pl_arr l) an) (pl_start l) (pl_num l) an.

Definition pl_push (l : plist) (d : list Z) : plist :=
  let index := pl_start l + pl_num l in
  let l1 := if (pl_anum l <=? index) then pl_grow l else l in
  mkPL (s_write (pl_arr l1) index [Some d]) (pl_start l1) (S (pl_num l1)) (pl_anum l1).

Definition pl_pop (l : plist) : plist * (plrc * slot) :=
  if Nat.eqb (pl_num l) 0 then (l, (PL_OOB, None))
  else
    let index := pl_start l + pl_num l - 1 in
    (mkPL (pl_arr l) (pl_start l) (pl_num l - 1) (pl_anum l), (PL_OK, s_at (pl_arr l) index)).

Definition pl_unshift (l : plist) (d : list Z) : plist :=
  let l2 :=
    if Nat.eqb (pl_start l) 0 then
      let l1 := if (pl_anum l <=? pl_num l) then pl_grow l else l in
      let st := pl_anum l1 - pl_num l1 in
      mkPL (s_move (pl_arr l1) st 0 (pl_num l1)) st (pl_num l1) (pl_anum l1)
    else l in
  let index := pl_start l2 - 1 in
  mkPL (s_write (pl_arr l2) index [Some d]) (pl_start l2 - 1) (S (pl_num l2)) (pl_anum l2).

(* compaction: !(start & 0xff) && start > num / 2 *)
Definition pl_shift (l : plist) : plist * (plrc * slot) :=
  if Nat.eqb (pl_num l) 0 then (l, (PL_OOB, None))
  else
    let index := pl_start l in
    let start := pl_start l + 1 in
    let num := pl_num l - 1 in
    let rv := s_at (pl_arr l) index in
    if Nat.eqb (Nat.land start 255) 0 && (num / 2 <? start) then
      (mkPL (s_move (pl_arr l) 0 start num) 0 num (pl_anum l), (PL_OK, rv))
    else (mkPL (pl_arr l) start num (pl_anum l), (PL_OK, rv)).

Definition pl_insert (l : plist) (index0 : nat) (d : list Z) : plist * plrc :=
  if (pl_num l <? index0) then (l, PL_OOB)
  else
    let index := index0 + pl_start l in
    let l1 := if (pl_anum l <=? pl_start l + pl_num l) then pl_grow l else l in
    let a1 := s_move (pl_arr l1) (index + 1) index (pl_start l1 + pl_num l1 - index) in
    (mkPL (s_write a1 index [Some d]) (pl_start l1) (S (pl_num l1)) (pl_anum l1), PL_OK).

Definition pl_set (l : plist) (index0 : nat) (d : list Z) : plist * plrc :=
  if (pl_num l <=? index0) then (l, PL_OOB)
  else
    let index := index0 + pl_start l in
    (mkPL (s_write (pl_arr l) index [Some d]) (pl_start l) (pl_num l) (pl_anum l), PL_OK).

Definition pl_remove (l : plist) (index0 : nat) : plist * (plrc * slot) :=
  if (pl_num l <=? index0) then (l, (PL_OOB, None))
  else
    let index := index0 + pl_start l in
    let rv := s_at (pl_arr l) index in
    let num := pl_num l - 1 in
    (mkPL (s_move (pl_arr l) index (index + 1) (pl_start l + num - index)) (pl_start l) num (pl_anum l),
     (PL_OK, rv)).

(* iwlist_sort with the harness comparator (memcmp over the common length, then the shorter one first): the
   order is total and equal items are identical, so the result does not depend on the sorting algorithm *)
Fixpoint pl_leb (a b : list Z) : bool :=
  match a, b with
  | [], _ => true
  | _ :: _, [] => false
  | x :: a', y :: b' => if (x <? y)%Z then true else if (y <? x)%Z then false else pl_leb a' b'
  end.
Fixpoint pl_ins (x : list Z) (l : list (list Z)) : list (list Z) :=
  match l with
  | [] => [x]
  | y :: t => if pl_leb x y then x :: l else y :: pl_ins x t
  end.
Definition pl_sort_items (l : list (list Z)) : list (list Z) := fold_right pl_ins [] l.

Definition pl_sort (l : plist) : plist :=
  mkPL (s_write (pl_arr l) (pl_start l) (map (@Some (list Z)) (pl_sort_items (pl_items l))))
       (pl_start l) (pl_num l) (pl_anum l).

(* ---------------------------------------------------------------- specification: a plain list of byte strings *)
Definition pll_insert (l : list (list Z)) (i : nat) (x : list Z) : list (list Z) := firstn i l ++ x :: skipn i l.
Definition pll_set (l : list (list Z)) (i : nat) (x : list Z) : list (list Z) := firstn i l ++ x :: skipn (S i) l.
Definition pll_remove (l : list (list Z)) (i : nat) : list (list Z) := firstn i l ++ skipn (S i) l.

(* ---------------------------------------------------------------- call sequences: model and specification *)
Inductive plop :=
  | PLPush (d : list Z) | PLUnshift (d : list Z) | PLPop | PLShift
  | PLInsert (i : nat) (d : list Z) | PLSet (i : nat) (d : list Z) | PLRemove (i : nat)
  | PLAt (i : nat) | PLClone | PLSort.

(* rc only; rc and the returned item (None = NULL); the items of the clone *)
Inductive plout :=
  | PLORc (rc : plrc) | PLOVal (rc : plrc) (v : slot) | PLOList (l : list (list Z)).

Definition pl_step (l : plist) (op : plop) : plist * plout :=
  match op with
  | PLPush d => (pl_push l d, PLORc PL_OK)
  | PLUnshift d => (pl_unshift l d, PLORc PL_OK)
  | PLPop => let '(l', (rc, v)) := pl_pop l in (l', PLOVal rc v)
  | PLShift => let '(l', (rc, v)) := pl_shift l in (l', PLOVal rc v)
  | PLInsert i d => let '(l', rc) := pl_insert l i d in (l', PLORc rc)
  | PLSet i d => let '(l', rc) := pl_set l i d in (l', PLORc rc)
  | PLRemove i => let '(l', (rc, v)) := pl_remove l i in (l', PLOVal rc v)
  | PLAt i => let '(rc, v) := pl_at l i in (l, PLOVal rc v)
  | PLClone => (l, PLOList (pl_items (pl_clone l)))
  | PLSort => (pl_sort l, PLORc PL_OK)
  end.

Definition list_step (l : list (list Z)) (op : plop) : list (list Z) * plout :=
  match op with
  | PLPush d => (l ++ [d], PLORc PL_OK)
  | PLUnshift d => (d :: l, PLORc PL_OK)
  | PLPop => match l with [] => (l, PLOVal PL_OOB None) | _ :: _ => (removelast l, PLOVal PL_OK (Some (last l []))) end
  | PLShift => match l with [] => (l, PLOVal PL_OOB None) | x :: t => (t, PLOVal PL_OK (Some x)) end
  | PLInsert i d => if (length l <? i) then (l, PLORc PL_OOB) else (pll_insert l i d, PLORc PL_OK)
  | PLSet i d => if (length l <=? i) then (l, PLORc PL_OOB) else (pll_set l i d, PLORc PL_OK)
  | PLRemove i => if (length l <=? i) then (l, PLOVal PL_OOB None)
                  else (pll_remove l i, PLOVal PL_OK (Some (nth i l [])))
  | PLAt i => if (length l <=? i) then (l, PLOVal PL_OOB None) else (l, PLOVal PL_OK (Some (nth i l [])))
  | PLClone => (l, PLOList l)
  | PLSort => (pl_sort_items l, PLORc PL_OK)
  end.

Fixpoint pl_run (l : plist) (ops : list plop) : list plout :=
  match ops with
  | [] => []
  | op :: t => let '(l', o) := pl_step l op in o :: pl_run l' t
  end.
Fixpoint list_run (l : list (list Z)) (ops : list plop) : list plout :=
  match ops with
  | [] => []
  | op :: t => let '(l', o) := list_step l op in o :: list_run l' t
  end.

(* ---------------------------------------------------------------- ownership vocabulary (iwlist owns a malloc'ed copy per item) *)
(* iwlist_destroy_keep: the blocks passed to free() - the val pointers of the slots start .. start+num-1, in order *)
Definition pl_destroy (l : plist) : list slot := s_slice (pl_arr l) (pl_start l) (pl_num l).

(* what a call, judged by its arguments and its answer, hands to the caller (who owns and frees the block from then on) *)
Definition pl_handed (op : plop) (o : plout) : list (list Z) :=
  match op, o with
  | PLPop, PLOVal PL_OK (Some v) => [v]
  | PLShift, PLOVal PL_OK (Some v) => [v]
  | PLRemove _, PLOVal PL_OK (Some v) => [v]
  | _, _ => []
  end.
Definition pl_handed_run (ops : list plop) (outs : list plout) : list (list Z) :=
  flat_map (fun p => pl_handed (fst p) (snd p)) (combine ops outs).

(* on the reference list l: the byte string a call stores into a block of the list (a new block for push / unshift / insert, the
   block already there for set), and the old content that set overwrites in place *)
Definition pl_stored_step (l : list (list Z)) (op : plop) : list (list Z) :=
  match op with
  | PLPush d => [d]
  | PLUnshift d => [d]
  | PLInsert i d => if (length l <? i) then [] else [d]
  | PLSet i d => if (length l <=? i) then [] else [d]
  | _ => []
  end.
Definition pl_overwritten_step (l : list (list Z)) (op : plop) : list (list Z) :=
  match op with
  | PLSet i d => if (length l <=? i) then [] else [nth i l []]
  | _ => []
  end.
Fixpoint pl_stored_run (l : list (list Z)) (ops : list plop) : list (list Z) :=
  match ops with [] => [] | op :: t => pl_stored_step l op ++ pl_stored_run (fst (list_step l op)) t end.
Fixpoint pl_overwritten_run (l : list (list Z)) (ops : list plop) : list (list Z) :=
  match ops with [] => [] | op :: t => pl_overwritten_step l op ++ pl_overwritten_run (fst (list_step l op)) t end.
