(* C18 - iwhmap.c under an allocator that can fail (model: Hmap_af.v).
   Part 1: with the oracle `nofail` every function is the function of Hmap.v.
   Part 2: the repaired failure paths leave the map as it was; the code's `fail:` path of _rehash does not. *)
Require Import ZArith List Bool Lia Permutation.
Require Import IW.Gen.Facts IW.UT.Hmap IW.UT.Hmap_inv_proofs IW.UT.Hmap_proofs IW.UT.Hmap_af.
Import ListNotations.
Local Open Scope Z_scope.

Section AFnofail.
Variable K : Type.
Variable keq : K -> K -> bool.
Variable hashf : K -> Z.
Variable code : bool.

Notation amap := (amap K).
Notation a_m := (a_m K).
Notation a_dang := (a_dang K).
Notation with_m := (with_m K).

(* a' is a with another history *)
Definition hist_only (a a' : amap) : Prop :=
  a_m a' = a_m a /\ a_dang a' = a_dang a /\ a_leak K a' = a_leak K a /\ a_lost K a' = a_lost K a.

Lemma hist_only_refl : forall a, hist_only a a.
Proof. intro a. repeat split. Qed.

Lemma ask_nofail : forall a s, exists a', ask K nofail a s = (false, a') /\ hist_only a a'.
Proof. intros a s. eexists. split; [reflexivity|]. repeat split. Qed.

Lemma touch_nodang : forall a bi, a_dang a = [] -> touch K a bi = a.
Proof. intros a bi H. unfold touch. rewrite H. reflexivity. Qed.

Lemma entry_add_f_nofail : forall a bs mask k h s, exists a',
  entry_add_f K keq nofail a bs mask k h s = (a', Some (entry_add K keq bs mask k h)) /\ hist_only a a'.
Proof.
  intros a bs mask k h s. unfold entry_add_f. destruct (needs_grow K bs mask h).
  - eexists. split; [reflexivity|]. repeat split.
  - exists a. split; [reflexivity | apply hist_only_refl].
Qed.

Lemma readd_one_nofail : forall a bs mask e, exists a',
  readd_one K keq nofail a bs mask e = (a', rehash_step K keq mask bs e, true) /\ hist_only a a'.
Proof.
  intros a bs mask e. unfold readd_one. destruct (needs_grow K bs mask (e_hash K e)).
  - eexists. split; [reflexivity|]. repeat split.
  - exists a. split; [reflexivity | apply hist_only_refl].
Qed.

Lemma hist_only_trans : forall a b c, hist_only a b -> hist_only b c -> hist_only a c.
Proof. intros a b c [H1 [H2 [H3 H4]]] [G1 [G2 [G3 G4]]]. repeat split; congruence. Qed.

Lemma readd_ents_nofail : forall mask es a bs, exists a',
  readd_ents K keq nofail mask es a bs = (a', fold_left (rehash_step K keq mask) es bs, true) /\ hist_only a a'.
Proof.
  intros mask es. induction es as [|e t IH]; intros a bs; simpl.
  - exists a. split; [reflexivity | apply hist_only_refl].
  - destruct (readd_one_nofail a bs mask e) as [a1 [H1 Ho1]]. rewrite H1.
    destruct (IH a1 (rehash_step K keq mask bs e)) as [a2 [H2 Ho2]]. rewrite H2.
    exists a2. split; [reflexivity | eapply hist_only_trans; eassumption].
Qed.

Lemma readd_bkts_nofail : forall mask old i a bs, exists a' j,
  readd_bkts K keq nofail mask i old a bs = (a', fold_left (rehash_step K keq mask) (ents K old) bs, true, j) /\
  hist_only a a'.
Proof.
  intros mask old. induction old as [|b t IH]; intros i a bs; simpl.
  - exists a, i. split; [reflexivity | apply hist_only_refl].
  - destruct (readd_ents_nofail mask (b_ents K b) a bs) as [a1 [H1 Ho1]]. rewrite H1.
    destruct (IH (S i) a1 (fold_left (rehash_step K keq mask) (b_ents K b) bs)) as [a2 [j [H2 Ho2]]]. rewrite H2.
    exists a2, j. split; [|eapply hist_only_trans; eassumption].
    unfold ents. simpl. rewrite fold_left_app. reflexivity.
Qed.

Lemma rehash_f_nofail : forall a num,
  a_m (rehash_f K keq nofail code a num) = rehash K keq (a_m a) num /\
  a_dang (rehash_f K keq nofail code a num) = a_dang a.
Proof.
  intros a num. unfold rehash_f. destruct (ask_nofail a SRehash) as [a1 [H1 [Hm1 [Hd1 _]]]]. rewrite H1.
  destruct (readd_bkts_nofail (num - 1) (h_bkts K (a_m a)) 0%nat a1 (repeat (bempty K) (Z.to_nat num)))
    as [a2 [j [H2 [Hm2 [Hd2 _]]]]].
  rewrite H2. simpl. split; [reflexivity | congruence].
Qed.

Lemma lru_update_f_nofail : forall a bi ei,
  a_m (lru_update_f K nofail a bi ei) = lru_update K (a_m a) bi ei /\
  a_dang (lru_update_f K nofail a bi ei) = a_dang a.
Proof.
  intros a bi ei. unfold lru_update_f.
  destruct (nth_error _ ei) as [e|] eqn:E.
  - destruct (e_lru K e); simpl; split; reflexivity.
  - simpl. split; reflexivity.
Qed.

Lemma entry_remove_f_nofail : forall a bi ei,
  a_m (entry_remove_f K keq nofail code a bi ei) = entry_remove K keq (a_m a) bi ei /\
  a_dang (entry_remove_f K keq nofail code a bi ei) = a_dang a.
Proof.
  intros a bi ei. unfold entry_remove_f, entry_remove.
  destruct (nth_error _ ei) as [e|]; [|simpl; split; reflexivity].
  cbv zeta.
  match goal with |- context [if ?c then rehash_f _ _ _ _ ?x ?n else _] => destruct c end.
  - match goal with |- context [rehash_f _ _ _ _ ?x ?n] => destruct (rehash_f_nofail x n) as [H1 H2] end.
    split; [exact H1 | exact H2].
  - match goal with |- context [if ?c then _ else _] => destruct c end; simpl; split; reflexivity.
Qed.

Lemma evict_f_nofail : forall fuel a, a_dang a = [] ->
  a_m (evict_f K keq hashf nofail code fuel a) = evict K keq hashf fuel (a_m a) /\
  a_dang (evict_f K keq hashf nofail code fuel a) = [].
Proof.
  induction fuel as [|f IH]; intros a Hd; simpl; [split; [reflexivity | exact Hd]|].
  destruct (h_first K (a_m a)) as [n|]; [|split; [reflexivity | exact Hd]].
  destruct (h_max K (a_m a)) as [mx|]; [|split; [reflexivity | exact Hd]].
  destruct (hevmax K (a_m a) mx); [|split; [reflexivity | exact Hd]].
  destruct (hget K (h_heap K (a_m a)) n) as [x|]; [|simpl; split; [reflexivity | exact Hd]].
  rewrite (touch_nodang a _ Hd).
  destruct (find_in K keq _ _ _) as [ei|]; [|simpl; split; [reflexivity | exact Hd]].
  match goal with |- context [entry_remove_f _ _ _ _ ?x ?b ?e] => destruct (entry_remove_f_nofail x b e) as [H1 H2] end.
  match goal with |- context [evict_f _ _ _ _ _ f ?y] => destruct (IH y ltac:(congruence)) as [G1 G2] end.
  rewrite G1, H1. split; [reflexivity | exact G2].
Qed.

Lemma fill_slot_f_nofail : forall a bs bi ei isnew k v,
  a_m (fill_slot_f K nofail a bs bi ei isnew k v) = fill_slot K (a_m a) bs bi ei isnew k v /\
  a_dang (fill_slot_f K nofail a bs bi ei isnew k v) = a_dang a.
Proof.
  intros. unfold fill_slot_f, fill_slot. cbv zeta.
  match goal with |- context [if ?c then lru_update_f _ _ ?x _ _ else _] => destruct c end.
  - match goal with |- context [lru_update_f _ _ ?x ?b ?e] => destruct (lru_update_f_nofail x b e) as [H1 H2] end.
    split; [exact H1 | exact H2].
  - split; reflexivity.
Qed.

Lemma hput_f_nofail : forall a k v, a_dang a = [] ->
  a_m (fst (hput_f K keq hashf nofail code a k v)) = hput K keq hashf (a_m a) k v /\
  snd (hput_f K keq hashf nofail code a k v) = true /\
  a_dang (fst (hput_f K keq hashf nofail code a k v)) = [].
Proof.
  intros a k v Hd. unfold hput_f, hput. rewrite (touch_nodang a _ Hd).
  destruct (entry_add_f_nofail a (h_bkts K (a_m a)) (h_mask K (a_m a)) k (hashf k) SAdd) as [a1 [H1 [Hm1 [Hd1 _]]]].
  rewrite H1. destruct (entry_add K keq _ _ k (hashf k)) as [[[bs bi] ei] isnew].
  destruct (fill_slot_f_nofail a1 bs bi ei isnew k v) as [F1 F2]. rewrite Hm1 in F1.
  set (a2 := fill_slot_f K nofail a1 bs bi ei isnew k v) in *.
  cbv zeta. rewrite F1.
  set (m1 := fill_slot K (a_m a) bs bi ei isnew k v).
  destruct (h_count K m1 >? h_mask K m1).
  - destruct (rehash_f_nofail a2 ((h_mask K m1 + 1) * 2)) as [R1 R2].
    set (a3 := rehash_f K keq nofail code a2 ((h_mask K m1 + 1) * 2)) in *.
    destruct (evict_f_nofail (S (Z.to_nat (h_count K (a_m a3)))) a3 ltac:(congruence)) as [E1 E2].
    cbn [fst snd]. split; [rewrite E1, R1, F1; reflexivity | split; [reflexivity | exact E2]].
  - destruct (evict_f_nofail (S (Z.to_nat (h_count K (a_m a2)))) a2 ltac:(congruence)) as [E1 E2].
    cbn [fst snd]. split; [rewrite E1, F1; reflexivity | split; [reflexivity | exact E2]].
Qed.

Lemma hget_f_nofail : forall a k, a_dang a = [] ->
  a_m (fst (hget_f K keq hashf nofail a k)) = fst (hget_val K keq hashf (a_m a) k) /\
  snd (hget_f K keq hashf nofail a k) = snd (hget_val K keq hashf (a_m a) k) /\
  a_dang (fst (hget_f K keq hashf nofail a k)) = [].
Proof.
  intros a k Hd. unfold hget_f, hget_val. rewrite (touch_nodang a _ Hd).
  destruct (find_in K keq _ _ _) as [ei|]; [|simpl; repeat split; exact Hd].
  cbn [fst snd]. destruct (lru_on K (a_m a)).
  - destruct (lru_update_f_nofail a (bidx (h_mask K (a_m a)) (hashf k)) ei) as [H1 H2].
    repeat split; [exact H1 | congruence].
  - repeat split; exact Hd.
Qed.

Lemma hremove_f_nofail : forall a k, a_dang a = [] ->
  a_m (fst (hremove_f K keq hashf nofail code a k)) = fst (hremove K keq hashf (a_m a) k) /\
  snd (hremove_f K keq hashf nofail code a k) = snd (hremove K keq hashf (a_m a) k) /\
  a_dang (fst (hremove_f K keq hashf nofail code a k)) = [].
Proof.
  intros a k Hd. unfold hremove_f, hremove. rewrite (touch_nodang a _ Hd).
  destruct (find_in K keq _ _ _) as [ei|]; [|simpl; repeat split; exact Hd].
  cbn [fst snd].
  destruct (entry_remove_f_nofail a (bidx (h_mask K (a_m a)) (hashf k)) ei) as [H1 H2].
  repeat split; [exact H1 | congruence].
Qed.

Lemma hrename_f_nofail : forall a x y, a_dang a = [] ->
  a_m (fst (hrename_f K keq hashf nofail code a x y)) = hrename K keq hashf (a_m a) x y /\
  snd (hrename_f K keq hashf nofail code a x y) = true /\
  a_dang (fst (hrename_f K keq hashf nofail code a x y)) = [].
Proof.
  intros a x y Hd. unfold hrename_f, hrename. rewrite (touch_nodang a _ Hd).
  destruct (find_in K keq _ _ _) as [ei|]; [|simpl; repeat split; exact Hd].
  cbv zeta.
  match goal with |- context [entry_remove_f _ _ _ _ ?z ?b ?e] =>
    destruct (entry_remove_f_nofail z b e) as [H1 H2]; set (a2 := entry_remove_f K keq nofail code z b e) in * end.
  simpl a_m in H1. simpl a_dang in H2.
  rewrite (touch_nodang a2 _ ltac:(congruence)).
  match type of H1 with _ = ?t => set (m2 := t) in * end.
  rewrite H1.
  destruct (entry_add_f_nofail a2 (h_bkts K m2) (h_mask K m2) y (hashf y) SAdd) as [a3 [H3 [Hm3 [Hd3 _]]]].
  rewrite H3.
  destruct (entry_add K keq (h_bkts K m2) (h_mask K m2) y (hashf y)) as [[[bs bi2] ei2] isnew].
  match goal with |- context [fill_slot_f _ _ a3 ?b ?i ?j ?n ?kk ?vv] =>
    destruct (fill_slot_f_nofail a3 b i j n kk vv) as [F1 F2] end.
  cbn [fst snd]. split; [rewrite F1, Hm3, H1; reflexivity | split; [reflexivity | congruence]].
Qed.

Lemma hclear_f_nofail : forall a, a_dang a = [] ->
  a_m (hclear_f K nofail a) = hclear K (a_m a) /\ a_dang (hclear_f K nofail a) = [].
Proof.
  intros a Hd. unfold hclear_f, hclear. rewrite Hd. cbv zeta.
  destruct (h_mask K (log_all K (a_m a)) + 1 >? CONT_MIN_BUCKETS); simpl; split; reflexivity.
Qed.

Lemma hdestroy_f_nofail : forall a, a_dang a = [] -> a_m (hdestroy_f K a) = hdestroy K (a_m a).
Proof. intros a Hd. unfold hdestroy_f. rewrite Hd. reflexivity. Qed.

Lemma hcreate_f_nofail : forall hist b max ikp,
  option_map a_m (snd (hcreate_f K nofail hist b max ikp)) = hcreate K b max ikp.
Proof. intros. unfold hcreate_f, hcreate. destruct b; reflexivity. Qed.

(* one call *)
Lemma a_step_nofail : forall a op, a_dang a = [] ->
  let '(a', (o, ok)) := a_step K keq hashf nofail code a op in
  (a_m a', o) = h_step K keq hashf (a_m a) op /\ ok = true /\ a_dang a' = [].
Proof.
  intros a op Hd. unfold a_step, h_step.
  set (a0 := with_m a (clear_log K (a_m a))).
  assert (Hd0 : a_dang a0 = []) by exact Hd.
  assert (Hm0 : a_m a0 = clear_log K (a_m a)) by reflexivity.
  destruct op as [k v|k|k|x y| | | | |mx].
  - destruct (hput_f_nofail a0 k v Hd0) as [H1 [H2 H3]].
    destruct (hput_f K keq hashf nofail code a0 k v) as [a' ok]. cbn [fst snd] in *.
    rewrite H1. change (a_m a0) with (clear_log K (a_m a)). repeat split; assumption.
  - destruct (hget_f_nofail a0 k Hd0) as [H1 [H2 H3]].
    destruct (hget_f K keq hashf nofail a0 k) as [a' v]. change (a_m a0) with (clear_log K (a_m a)) in *.
    destruct (hget_val K keq hashf (clear_log K (a_m a)) k) as [m' v']. cbn [fst snd] in *. subst. repeat split; assumption.
  - destruct (hremove_f_nofail a0 k Hd0) as [H1 [H2 H3]].
    destruct (hremove_f K keq hashf nofail code a0 k) as [a' b]. change (a_m a0) with (clear_log K (a_m a)) in *.
    destruct (hremove K keq hashf (clear_log K (a_m a)) k) as [m' b']. cbn [fst snd] in *. subst. repeat split; assumption.
  - destruct (hrename_f_nofail a0 x y Hd0) as [H1 [H2 H3]].
    destruct (hrename_f K keq hashf nofail code a0 x y) as [a' ok]. cbn [fst snd] in *.
    rewrite H1. change (a_m a0) with (clear_log K (a_m a)). repeat split; assumption.
  - destruct (hclear_f_nofail a0 Hd0) as [H1 H2]. rewrite H1. change (a_m a0) with (clear_log K (a_m a)).
    repeat split; assumption.
  - repeat split; assumption.
  - repeat split; assumption.
  - repeat split; assumption.
  - repeat split; assumption.
Qed.

(* With an allocator that never fails the map under the oracle IS the map of Hmap.v: same answers, rc = 0 everywhere,
   same state - for every call sequence and both variants of the failure paths. *)
Theorem af_nofail : forall ops a, a_dang a = [] ->
  map fst (a_run K keq hashf nofail code a ops) = h_run K keq hashf (a_m a) ops /\
  Forall (fun o => snd o = true) (a_run K keq hashf nofail code a ops) /\
  a_m (a_exec K keq hashf nofail code a ops) = h_exec K keq hashf (a_m a) ops.
Proof.
  induction ops as [|op t IH]; intros a Hd; simpl; [repeat split; constructor|].
  pose proof (a_step_nofail a op Hd) as Hs.
  destruct (a_step K keq hashf nofail code a op) as [a' [o ok]].
  destruct Hs as [H1 [H2 H3]]. destruct (h_step K keq hashf (a_m a) op) as [m' o'].
  inversion H1; subst. destruct (IH a' H3) as [I1 [I2 I3]]. simpl.
  repeat split; [rewrite I1; reflexivity | constructor; [reflexivity | exact I2] | exact I3].
Qed.

End AFnofail.

(* ------------------------------------------------------------------ any oracle: what the copy loop of _rehash returns *)
Section AFany.
Variable K : Type.
Variable keq : K -> K -> bool.
Variable hashf : K -> Z.
Variable orc : oracle.

Notation amap := (amap K).
Notation a_m := (a_m K).

Lemma ask_any : forall a s, hist_only K a (snd (ask K orc a s)).
Proof. intros a s. repeat split. Qed.

Lemma entry_add_f_any : forall a bs mask k h s,
  hist_only K a (fst (entry_add_f K keq orc a bs mask k h s)) /\
  (snd (entry_add_f K keq orc a bs mask k h s) = None \/
   snd (entry_add_f K keq orc a bs mask k h s) = Some (entry_add K keq bs mask k h)).
Proof.
  intros a bs mask k h s. unfold entry_add_f. destruct (needs_grow K bs mask h).
  - simpl. destruct (orc (s :: a_hist K a)); simpl.
    + split; [repeat split | left; reflexivity].
    + split; [repeat split | right; reflexivity].
  - simpl. split; [apply hist_only_refl | right; reflexivity].
Qed.

Lemma readd_one_any : forall a bs mask e a' bs' ok, readd_one K keq orc a bs mask e = (a', bs', ok) ->
  hist_only K a a' /\ (ok = true -> bs' = rehash_step K keq mask bs e).
Proof.
  intros a bs mask e a' bs' ok. unfold readd_one. destruct (needs_grow K bs mask (e_hash K e)).
  - simpl. destruct (orc (SReadd :: a_hist K a)); intro H; inversion H; subst.
    + split; [repeat split | discriminate].
    + split; [repeat split | reflexivity].
  - intro H; inversion H; subst. split; [apply hist_only_refl | reflexivity].
Qed.

Lemma readd_ents_any : forall mask es a bs a' bs' ok, readd_ents K keq orc mask es a bs = (a', bs', ok) ->
  hist_only K a a' /\ (ok = true -> bs' = fold_left (rehash_step K keq mask) es bs).
Proof.
  intros mask es. induction es as [|e t IH]; intros a bs a' bs' ok H; simpl in H.
  - inversion H; subst. split; [apply hist_only_refl | reflexivity].
  - destruct (readd_one K keq orc a bs mask e) as [[a1 bs1] ok1] eqn:E1.
    destruct (readd_one_any _ _ _ _ _ _ _ E1) as [Ho1 Hb1]. destruct ok1.
    + destruct (IH _ _ _ _ _ H) as [Ho2 Hb2]. split; [eapply hist_only_trans; eassumption|].
      intro Hok. simpl. rewrite <- (Hb1 eq_refl). apply Hb2. exact Hok.
    + inversion H; subst. split; [exact Ho1 | discriminate].
Qed.

Lemma readd_bkts_any : forall mask old i a bs a' bs' ok j,
  readd_bkts K keq orc mask i old a bs = (a', bs', ok, j) ->
  hist_only K a a' /\ (ok = true -> bs' = fold_left (rehash_step K keq mask) (ents K old) bs).
Proof.
  intros mask old. induction old as [|b t IH]; intros i a bs a' bs' ok j H; simpl in H.
  - inversion H; subst. split; [apply hist_only_refl | reflexivity].
  - destruct (readd_ents K keq orc mask (b_ents K b) a bs) as [[a1 bs1] ok1] eqn:E1.
    destruct (readd_ents_any _ _ _ _ _ _ _ E1) as [Ho1 Hb1]. destruct ok1.
    + destruct (IH _ _ _ _ _ _ _ H) as [Ho2 Hb2]. split; [eapply hist_only_trans; eassumption|].
      intro Hok. unfold ents. simpl. rewrite fold_left_app. rewrite <- (Hb1 eq_refl). apply Hb2. exact Hok.
    + inversion H; subst. split; [exact Ho1 | discriminate].
Qed.

(* THE REPAIRED _rehash: whatever the allocator does, it either rehashes exactly as Hmap.rehash or returns the map
   UNCHANGED (only denser than wanted); nothing dangles, nothing leaks. *)
Theorem rehash_f_repaired : forall a num,
  let a' := rehash_f K keq orc false a num in
  (a_m a' = a_m a \/ a_m a' = rehash K keq (a_m a) num) /\
  a_dang K a' = a_dang K a /\ a_leak K a' = a_leak K a /\ a_lost K a' = a_lost K a.
Proof.
  intros a num a'. subst a'. unfold rehash_f. simpl.
  destruct (orc (SRehash :: a_hist K a)); [simpl; repeat split; left; reflexivity|].
  match goal with |- context [readd_bkts _ _ _ ?mk ?i ?old ?x ?bs] =>
    destruct (readd_bkts K keq orc mk i old x bs) as [[[a2 bs2] ok] j] eqn:E end.
  destruct (readd_bkts_any _ _ _ _ _ _ _ _ _ E) as [[Hm [Hd [Hl Ho]]] Hb].
  destruct ok.
  - simpl. rewrite (Hb eq_refl). repeat split; try assumption. right. reflexivity.
  - repeat split; try assumption. left. exact Hm.
Qed.

End AFany.

(* ------------------------------------------------------------------ the code's failure paths, concrete witnesses *)
Definition is_site (x s : site) : bool :=
  match x, s with
  | SAdd, SAdd | SReadd, SReadd | SRehash, SRehash | SNode, SNode | SShrink, SShrink | SClear, SClear
  | SStrdup, SStrdup | SCreateHm, SCreateHm | SCreateBk, SCreateBk => true
  | _, _ => false
  end.
(* the n-th allocation call at site x fails (the harness' `hm failat n x`) *)
Definition fail_nth (x : site) (n : nat) : oracle :=
  fun h => match h with
           | s :: _ => is_site x s && Nat.eqb (length (filter (is_site x) h)) n
           | [] => false
           end.

Definition puts63 : list (hop Z) := map (fun i => HPut Z (Z.of_nat i) (100 + Z.of_nat i)) (seq 1 63).
Definition rf_ops : list (hop Z) := puts63 ++ [HPut Z 64 164].

(* u32 map, keys 1..63, then put 64 (count 64 > mask 63 -> _rehash(128)) with the 20th realloc of the copy loop failing.
   THE CODE: every call reports success, the map keeps 64 buckets whose entry arrays 0,1,2,3,4,5,7,11,... (15 of them)
   are released, 19 arrays of the abandoned table leak; a lookup of key 37 (bucket 0) reads released memory, destroy
   releases the arrays a second time.  THE REPAIRED CODE on the same calls: nothing dangles, nothing leaks, no fault. *)
Theorem hmap_rehash_fail_refuted :
  let run (code : bool) := a_exec Z Z.eqb hash_u32 (fail_nth SReadd 20) code (a_init Z (hnew Z None true) []) rf_ops in
  Forall (fun o => snd o = true) (a_run Z Z.eqb hash_u32 (fail_nth SReadd 20) true (a_init Z (hnew Z None true) []) rf_ops) /\
  length (a_dang Z (run true)) = 15%nat /\ a_leak Z (run true) = 19 /\ h_fault Z (a_m Z (run true)) = false /\
  h_fault Z (a_m Z (fst (hget_f Z Z.eqb hash_u32 (fail_nth SReadd 20) (run true) 37))) = true /\
  h_fault Z (a_m Z (hdestroy_f Z (run true))) = true /\
  a_dang Z (run false) = [] /\ a_leak Z (run false) = 0 /\
  h_fault Z (a_m Z (fst (hget_f Z Z.eqb hash_u32 (fail_nth SReadd 20) (run false) 37))) = false /\
  snd (hget_f Z Z.eqb hash_u32 (fail_nth SReadd 20) (run false) 37) = 137 /\
  h_fault Z (a_m Z (hdestroy_f Z (run false))) = false /\
  h_mask Z (a_m Z (run false)) = 63 /\ h_count Z (a_m Z (run false)) = 64.
Proof. vm_compute. repeat split; repeat constructor. Qed.

(* iwhmap_rename whose _entry_add(key_new) fails after the old entry was removed: the code drops the value (neither stored
   nor reported to kv_free_fn), the repaired code reports it; both answer rc != 0 and the entry is gone. *)
Theorem hmap_rename_fail_refuted :
  let ops := [HPut Z 1 11; HRename Z 1 2]%Z in
  let a0 := a_init Z (hnew Z None true) [] in
  map snd (a_run Z Z.eqb hash_u32 (fail_nth SAdd 2) true a0 ops) = [true; false] /\
  a_lost Z (a_exec Z Z.eqb hash_u32 (fail_nth SAdd 2) true a0 ops) = [11] /\
  map fst (a_run Z Z.eqb hash_u32 (fail_nth SAdd 2) true a0 ops) = [OPut Z 1 [(None, 0)]; ORename Z 0 [(None, 0)]] /\
  a_lost Z (a_exec Z Z.eqb hash_u32 (fail_nth SAdd 2) false a0 ops) = [] /\
  map fst (a_run Z Z.eqb hash_u32 (fail_nth SAdd 2) false a0 ops) = [OPut Z 1 [(None, 0)]; ORename Z 0 [(None, 0); (None, 11)]].
Proof. vm_compute. repeat split. Qed.
