(* C18 - iwhmap.c under an allocator that can fail, REPAIRED failure paths (Hmap_af.v with code = false):
   for every allocation oracle and every call sequence the map refines the association list + recency list
   specification extended by the two failures a caller can observe (the call's own _entry_add failed: rc != 0;
   the LRU node could not be allocated: the key stays out of the recency list).  Consequences: the invariant of
   C18_dll_wf in every reachable state (h_fault = false), nothing dangles, leaks or gets lost. *)
Require Import ZArith List Bool Lia Permutation.
Require Import IW.Gen.Facts IW.UT.Hmap IW.UT.Hmap_inv_proofs IW.UT.Hmap_bkt_proofs IW.UT.Hmap_dll_proofs IW.UT.Hmap_proofs.
Require Import IW.UT.Hmap_af IW.UT.Hmap_af_proofs.
Import ListNotations.
Local Open Scope Z_scope.

Section AFsim.
Variable K : Type.
Variable keq : K -> K -> bool.
Variable hashf : K -> Z.
Hypothesis keq_spec : forall a b, keq a b = true <-> a = b.
Variable orc : oracle.

Let find_spec := Hmap_bkt_proofs.find_spec K keq hashf keq_spec.
Let ents_in := Hmap_bkt_proofs.ents_in K.
Let entry_add_ok := Hmap_bkt_proofs.entry_add_ok K keq hashf keq_spec.
Let bdel_ok := Hmap_bkt_proofs.bdel_ok K hashf.
Let bwf_empty := Hmap_bkt_proofs.bwf_empty K hashf.
Let free_chain_ok := Hmap_dll_proofs.free_chain_ok K.
Let dll_length := Hmap_dll_proofs.dll_length K.

Notation entry := (entry K).
Notation bucket := (bucket K).
Notation hmap := (hmap K).
Notation amap := (amap K).
Notation ents := (ents K).
Notation bkt := (bkt K).
Notation e_key := (e_key K).
Notation e_val := (e_val K).
Notation e_lru := (e_lru K).
Notation e_hash := (e_hash K).
Notation b_ents := (b_ents K).
Notation b_total := (b_total K).
Notation h_count := (h_count K).
Notation h_mask := (h_mask K).
Notation h_bkts := (h_bkts K).
Notation h_heap := (h_heap K).
Notation h_max := (h_max K).
Notation h_ikp := (h_ikp K).
Notation h_fault := (h_fault K).
Notation h_log := (h_log K).
Notation a_m := (a_m K).
Notation a_dang := (a_dang K).
Notation with_m := (with_m K).
Notation inv := (inv K hashf).
Notation inv0 := (inv0 K hashf).
Notation bwf := (bwf K hashf).
Notation keys := (keys K).
Notation dll := (dll K).
Notation recrel := (recrel K).
Notation fkey := (fkey K).
Notation al_of := (al_of K).
Notation lru_ids := (lru_ids K).
Notation R := (R K hashf).

Ltac splits := repeat match goal with |- _ /\ _ => split end.

(* the fields of the oracle state that the repaired code never touches *)
Definition quiet (a a' : amap) : Prop :=
  a_dang a' = a_dang a /\ a_leak K a' = a_leak K a /\ a_lost K a' = a_lost K a.
Lemma quiet_refl : forall a, quiet a a. Proof. intro; repeat split. Qed.
Lemma quiet_trans : forall a b c, quiet a b -> quiet b c -> quiet a c.
Proof. intros a b c [H1 [H2 H3]] [G1 [G2 G3]]. repeat split; congruence. Qed.
Lemma hist_quiet : forall a a', hist_only K a a' -> quiet a a'.
Proof. intros a a' [_ H]. exact H. Qed.

(* ------------------------------------------------------------------ _entry_remove *)
(* what every outcome of _entry_remove satisfies (the conclusion of Hmap_proofs.entry_remove_ok) *)
Definition er_post (m : hmap) (L : list nat) (e : entry) (mf : hmap) : Prop :=
  exists L', inv mf L' /\
    Permutation (ents (h_bkts m)) (e :: ents (h_bkts mf)) /\
    h_log mf = h_log m ++ [(fkey m (e_key e), e_val e)] /\
    h_max mf = h_max m /\ h_ikp mf = h_ikp m /\
    (forall ks, recrel m L ks -> NoDup ks -> recrel mf L' (rec_remove K keq (e_key e) ks)).

(* the state before the shrinking rehash / the step realloc *)
Definition er_m3 (m : hmap) (bi ei : nat) (e : entry) : hmap :=
  let b := bkt (h_bkts m) bi in
  let m1 := match e_lru e with Some n => lru_remove K m n | None => m end in
  let m2 := add_log K m1 (fkey m (e_key e), e_val e) in
  with_count K (with_bkts K m2 (set_nth bi (mkB K (bdel K (b_ents b) ei e) (b_total b)) (h_bkts m2))) (h_count m2 - 1).

Lemma er_m3_ok : forall m L bi ei e, inv m L -> (bi < length (h_bkts m))%nat ->
  nth_error (b_ents (bkt (h_bkts m) bi)) ei = Some e ->
  er_post m L e (er_m3 m bi ei e) /\ h_mask (er_m3 m bi ei e) = h_mask m /\
  length (h_bkts (er_m3 m bi ei e)) = length (h_bkts m) /\
  b_ents (bkt (h_bkts (er_m3 m bi ei e)) bi) = bdel K (b_ents (bkt (h_bkts m) bi)) ei e.
Proof.
  intros m L bi ei e Hinv Hbi Hnth.
  assert (He : In e (ents (h_bkts m))) by (eapply ents_in; eassumption).
  destruct (remove_lru_part K keq hashf keq_spec m L e Hinv He) as [L1 [Hd1 [Hf1 [HP1 [Hk1 Hr1]]]]].
  unfold er_m3.
  set (m1 := match e_lru e with Some n => lru_remove K m n | None => m end) in *.
  destruct Hf1 as [Fc [Fm [Fb [Ffr [Fmx [Fik [Ffa Flg]]]]]]].
  pose proof (inv_bwf K hashf m L Hinv) as Hbwf.
  destruct (bdel_ok (h_mask m) (h_bkts m) bi ei e (b_total (bkt (h_bkts m) bi)) Hbwf Hbi Hnth) as [Hb3 [Hl3 HP3]].
  change (Hmap.h_bkts K (add_log K m1 (fkey m (e_key e), e_val e))) with (h_bkts m1).
  change (Hmap.h_count K (add_log K m1 (fkey m (e_key e), e_val e))) with (h_count m1).
  rewrite Fb.
  set (bs3 := set_nth bi (mkB K (bdel K (b_ents (bkt (h_bkts m) bi)) ei e) (b_total (bkt (h_bkts m) bi))) (h_bkts m)) in *.
  set (m3 := with_count K (with_bkts K (add_log K m1 (fkey m (e_key e), e_val e)) bs3) (h_count m1 - 1)).
  assert (HPa : Permutation (lru_ids [e] ++ lru_ids (ents bs3)) (lru_ids [e] ++ L1)).
  { eapply Permutation_trans; [|exact HP1].
    eapply Permutation_trans; [|exact (inv_ids K hashf m L Hinv)].
    apply Permutation_sym. eapply Permutation_trans; [apply (lru_ids_perm K); exact HP3|].
    unfold Hmap_proofs.lru_ids. simpl. rewrite app_nil_r. apply Permutation_refl. }
  apply Permutation_app_inv_l in HPa.
  assert (Hinv3 : inv m3 L1).
  { constructor; subst m3; simpl.
    - rewrite Fm. exact Hb3.
    - rewrite Fc, (inv_count K hashf m L Hinv). apply Permutation_length in HP3. simpl in HP3. rewrite HP3. lia.
    - rewrite Ffa. exact (inv_fault K hashf m L Hinv).
    - apply (dll_ext K m1); try reflexivity. exact Hd1.
    - exact HPa.
    - intros e' n He' Hn.
      assert (He'm : In e' (ents (h_bkts m))).
      { eapply Permutation_in; [apply Permutation_sym; exact HP3|]. right. exact He'. }
      assert (HnL1 : In n L1).
      { eapply Permutation_in; [exact HPa|]. apply (lru_ids_in K). exists e'. split; assumption. }
      rewrite (Hk1 n HnL1). apply (inv_nkey K hashf m L Hinv e' n); assumption.
    - intros Hmx e' He'. rewrite Fmx in Hmx. apply (inv_on K hashf m L Hinv Hmx e').
      eapply Permutation_in; [apply Permutation_sym; exact HP3|]. right. exact He'.
    - intros j Hj. rewrite Ffr. apply (inv_fresh K hashf m L Hinv).
      eapply Permutation_in; [apply Permutation_sym; exact HP1|]. apply in_or_app. right. exact Hj. }
  splits.
  - exists L1. split; [exact Hinv3|]. subst m3; simpl. rewrite Flg, Fmx, Fik. splits; try reflexivity.
    + exact HP3.
    + intros ks Hrr Hnd. apply (recrel_ext K m1); [reflexivity|]. apply Hr1; assumption.
  - subst m3; simpl. exact Fm.
  - subst m3; simpl. exact Hl3.
  - subst m3; simpl. subst bs3. rewrite (bkt_set_nth_eq K) by exact Hbi. reflexivity.
Qed.

Lemma er_post_step : forall m L e mx mf, er_post m L e mx ->
  (forall Lx, inv mx Lx -> inv mf Lx) -> Permutation (ents (h_bkts mf)) (ents (h_bkts mx)) ->
  h_log mf = h_log mx -> h_max mf = h_max mx -> h_ikp mf = h_ikp mx -> h_heap mf = h_heap mx ->
  er_post m L e mf.
Proof.
  intros m L e mx mf [L' [Hi [HP [Hl [Hmx [Hik Hr]]]]]] Hinvf HPf Hlf Hmf Hkf Hhf.
  exists L'. splits; try congruence.
  - apply Hinvf. exact Hi.
  - eapply Permutation_trans; [exact HP|]. constructor. apply Permutation_sym. exact HPf.
  - intros ks Hrr Hnd. apply (recrel_ext K mx); [exact Hhf|]. apply Hr; assumption.
Qed.

Lemma er_post_rehash : forall m L e mx k', er_post m L e mx -> 0 <= k' -> er_post m L e (rehash K keq mx (2 ^ k')).
Proof.
  intros m L e mx k' Hp Hk.
  assert (H : forall Lx, inv mx Lx -> inv (rehash K keq mx (2 ^ k')) Lx /\
            Permutation (ents (h_bkts (rehash K keq mx (2 ^ k')))) (ents (h_bkts mx))).
  { intros Lx Hi. destruct (inv_rehash K keq hashf keq_spec mx Lx k' Hi Hk) as [H1 [H2 _]]. split; assumption. }
  destruct Hp as [L' Hp']. pose proof Hp' as [Hi _].
  eapply er_post_step; [exists L'; exact Hp' | intros Lx Hx; apply (H Lx Hx) | apply (H L' Hi) | reflexivity..].
Qed.

Lemma er_post_total : forall m L e mx bi tot, er_post m L e mx -> (bi < length (h_bkts mx))%nat ->
  er_post m L e (with_bkts K mx (set_nth bi (mkB K (b_ents (bkt (h_bkts mx) bi)) tot) (h_bkts mx))).
Proof.
  intros m L e mx bi tot Hp Hbi.
  assert (H : forall Lx, inv mx Lx ->
     inv (with_bkts K mx (set_nth bi (mkB K (b_ents (bkt (h_bkts mx) bi)) tot) (h_bkts mx))) Lx /\
     ents (h_bkts (with_bkts K mx (set_nth bi (mkB K (b_ents (bkt (h_bkts mx) bi)) tot) (h_bkts mx)))) = ents (h_bkts mx)).
  { intros Lx Hi. exact (inv_set_total K hashf mx Lx bi tot Hi Hbi). }
  destruct Hp as [L' Hp']. pose proof Hp' as [Hi _].
  eapply er_post_step; [exists L'; exact Hp' | intros Lx Hx; apply (H Lx Hx) | | reflexivity..].
  rewrite (proj2 (H L' Hi)). apply Permutation_refl.
Qed.

Lemma inv_core_ext : forall m m' L, core_eq K m m' -> inv m L -> inv m' L.
Proof. intros. eapply (inv_ext K hashf); eassumption. Qed.

(* _entry_remove under the oracle, repaired failure paths *)
Lemma entry_remove_f_ok : forall a L bi ei e, inv (a_m a) L -> (bi < length (h_bkts (a_m a)))%nat ->
  nth_error (b_ents (bkt (h_bkts (a_m a)) bi)) ei = Some e ->
  er_post (a_m a) L e (a_m (entry_remove_f K keq orc false a bi ei)) /\ quiet a (entry_remove_f K keq orc false a bi ei).
Proof.
  intros a L bi ei e Hinv Hbi Hnth.
  destruct (er_m3_ok (a_m a) L bi ei e Hinv Hbi Hnth) as [Hp3 [Hmk3 [Hlen3 Hents3]]].
  unfold entry_remove_f. rewrite Hnth. cbv zeta.
  fold (bdel K (b_ents (bkt (h_bkts (a_m a)) bi)) ei e).
  change (with_count K _ _) with (er_m3 (a_m a) bi ei e).
  set (m3 := er_m3 (a_m a) bi ei e) in *.
  destruct ((h_mask m3 >? CONT_MIN_BUCKETS - 1) && (h_count m3 <? h_mask m3 / 2)) eqn:Hsh.
  - apply andb_prop in Hsh. destruct Hsh as [Hgt _].
    destruct Hp3 as [L1 Hp3']. pose proof Hp3' as [Hinv3 _].
    destruct (inv_bwf K hashf m3 L1 Hinv3) as [[k [Hk0 Hmk]] _].
    assert (Hpos : Z.ones k > 0).
    { rewrite <- Hmk. apply Z.gtb_lt in Hgt. assert (0 <= CONT_MIN_BUCKETS - 1) by (vm_compute; discriminate). lia. }
    destruct (ones_half k Hk0 Hpos) as [Hkge1 Hhalf].
    rewrite Hmk, Hhalf.
    destruct (rehash_f_repaired K keq orc (with_m a m3) (2 ^ (k - 1))) as [Hcase [Hq1 [Hq2 Hq3]]].
    split; [|repeat split; assumption].
    destruct Hcase as [Hc|Hc]; rewrite Hc; simpl.
    + exists L1. exact Hp3'.
    + apply er_post_rehash; [exists L1; exact Hp3' | lia].
  - destruct (Z.of_nat (length (bdel K (b_ents (bkt (h_bkts (a_m a)) bi)) ei e)) / CONT_STEPS + 1 <?
              b_total (bkt (h_bkts (a_m a)) bi) / CONT_STEPS) eqn:Hst.
    + destruct (ask K orc (with_m a m3) SShrink) as [f a1] eqn:Ea.
      pose proof (ask_any K orc (with_m a m3) SShrink) as Ha. rewrite Ea in Ha. simpl snd in Ha.
      destruct Ha as [Hm1 Hq1]. change (a_m (with_m a m3)) with m3 in Hm1.
      destruct f.
      * rewrite Hm1. split; [exact Hp3 | exact Hq1].
      * split; [|exact Hq1]. change (a_m (with_m a1 ?y)) with y.
        rewrite <- Hents3. apply er_post_total; [exact Hp3 | rewrite Hlen3; exact Hbi].
    + split; [exact Hp3 | repeat split].
Qed.

(* ------------------------------------------------------------------ the eviction loop *)
Lemma evict_f_S : forall f (a : amap), evict_f K keq hashf orc false (S f) a =
  match Hmap.h_first K (a_m a), h_max (a_m a) with
  | Some n, Some mx =>
    if hevmax K (a_m a) mx then
      match hget K (h_heap (a_m a)) n with
      | None => afault K a
      | Some x =>
        let bi := bidx (h_mask (a_m a)) (hashf (n_key K x)) in
        match find_in K keq (n_key K x) (hashf (n_key K x)) (b_ents (bkt (h_bkts (a_m a)) bi)) with
        | None => afault K (touch K a bi)
        | Some ei => evict_f K keq hashf orc false f (entry_remove_f K keq orc false (touch K a bi) bi ei)
        end
      end
    else a
  | _, _ => a
  end.
Proof. reflexivity. Qed.

Lemma evict_f_ok : forall fuel a L al ks mx, a_dang a = [] -> inv (a_m a) L -> h_max (a_m a) = Some mx ->
  Permutation (al_of (h_bkts (a_m a))) al -> recrel (a_m a) L ks -> NoDup ks ->
  exists L' al' ks' lg,
    s_evict K keq (h_ikp (a_m a)) fuel al ks mx = (al', ks', lg) /\
    inv (a_m (evict_f K keq hashf orc false fuel a)) L' /\
    Permutation (al_of (h_bkts (a_m (evict_f K keq hashf orc false fuel a)))) al' /\
    recrel (a_m (evict_f K keq hashf orc false fuel a)) L' ks' /\ NoDup ks' /\
    h_log (a_m (evict_f K keq hashf orc false fuel a)) = h_log (a_m a) ++ lg /\
    h_max (a_m (evict_f K keq hashf orc false fuel a)) = h_max (a_m a) /\
    h_ikp (a_m (evict_f K keq hashf orc false fuel a)) = h_ikp (a_m a) /\
    quiet a (evict_f K keq hashf orc false fuel a).
Proof.
  induction fuel as [|f IH]; intros a L al ks mx Hdg Hinv Hmx HPal Hrr Hnd.
  - exists L, al, ks, []. simpl. rewrite app_nil_r. splits; try assumption; try reflexivity; apply quiet_refl.
  - rewrite evict_f_S, (s_evict_S K keq).
    pose proof (inv_dll K hashf (a_m a) L Hinv) as Hdll. destruct Hdll as [Hfirst _].
    rewrite Hfirst, Hmx.
    destruct Hrr as [|n k L0 ks0 Hnk Hrr0].
    + simpl. exists [], al, [], []. rewrite app_nil_r.
      splits; try assumption; try reflexivity; try apply quiet_refl; constructor.
    + simpl hd_error. cbv iota beta.
      assert (Hcnt : h_count (a_m a) = Z.of_nat (length al)).
      { rewrite (inv_count K hashf (a_m a) _ Hinv). f_equal. apply Permutation_length in HPal. unfold Hmap_proofs.al_of in HPal.
        rewrite map_length in HPal. exact HPal. }
      unfold hevmax. rewrite Hcnt.
      destruct (Z.of_nat (length al) >? mx) eqn:Hgt.
      2:{ exists (n :: L0), al, (k :: ks0), []. rewrite app_nil_r.
          splits; try assumption; try reflexivity; try apply quiet_refl. constructor; assumption. }
      destruct (nkey_some K _ _ _ Hnk) as [x [Hx Hxk]]. rewrite Hx. cbv zeta. rewrite Hxk.
      rewrite (touch_nodang K a _ Hdg).
      assert (Hkin : In k (keys (h_bkts (a_m a)))).
      { eapply (recrel_keys_in K hashf (a_m a) (n :: L0) (k :: ks0)); [exact Hinv | constructor; assumption | left; reflexivity]. }
      destruct (find_spec (h_mask (a_m a)) (h_bkts (a_m a)) k (inv_bwf K hashf (a_m a) _ Hinv)) as [Hbi Hfind].
      destruct (find_in K keq k (hashf k) (b_ents (bkt (h_bkts (a_m a)) (bidx (h_mask (a_m a)) (hashf k))))) as [ei|] eqn:Hfi.
      2:{ exfalso. apply Hfind. exact Hkin. }
      destruct Hfind as [e [Hnth Hke]].
      destruct (entry_remove_f_ok a (n :: L0) _ ei e Hinv Hbi Hnth) as [[L1 [Hinv1 [HP1 [Hlog1 [Hmx1 [Hik1 Hr1]]]]]] Hq1].
      set (a1 := entry_remove_f K keq orc false a (bidx (h_mask (a_m a)) (hashf k)) ei) in *.
      assert (Hnda : NoDup (map fst ((k, e_val e) :: al_of (h_bkts (a_m a1))))).
      { eapply Permutation_NoDup; [|exact (keys_nodup_al K hashf (a_m a) _ Hinv)].
        apply Permutation_map. unfold Hmap_proofs.al_of. rewrite <- Hke. apply (al_of_perm K _ _ HP1). }
      assert (HPal' : Permutation al ((k, e_val e) :: al_of (h_bkts (a_m a1)))).
      { eapply Permutation_trans; [apply Permutation_sym; exact HPal|].
        unfold Hmap_proofs.al_of. rewrite <- Hke. apply (al_of_perm K _ _ HP1). }
      destruct (al_perm_head K keq keq_spec al k (e_val e) _ Hnda HPal') as [Hfk [HPrem Hlen]].
      destruct (proj1 (NoDup_cons_iff k ks0) Hnd) as [Hknin Hnd0].
      assert (Hrr1 : recrel (a_m a1) L1 ks0).
      { pose proof (Hr1 (k :: ks0) ltac:(constructor; assumption) Hnd) as H.
        rewrite Hke in H. unfold Hmap.rec_remove in H. simpl in H. rewrite (keq_refl K keq keq_spec) in H. simpl in H.
        fold (Hmap.rec_remove K keq k ks0) in H. rewrite (rec_remove_notin K keq keq_spec) in H; assumption. }
      assert (Hdg1 : a_dang a1 = []) by (destruct Hq1 as [Hq _]; congruence).
      destruct (IH a1 L1 (al_remove K keq k al) ks0 mx Hdg1 Hinv1 ltac:(congruence)
                  ltac:(apply Permutation_sym; exact HPrem) Hrr1 Hnd0)
        as [L' [al' [ks' [lg [Hse [Hi' [HP' [Hrr' [Hnd' [Hlog' [Hmx' [Hik' Hq']]]]]]]]]]]].
      rewrite Hik1 in Hse. rewrite Hse.
      exists L', al', ks', ((if h_ikp (a_m a) then None else Some k, al_val K keq k al) :: lg).
      split; [reflexivity|]. split; [exact Hi'|]. split; [exact HP'|]. split; [exact Hrr'|]. split; [exact Hnd'|].
      split; [|split; [congruence | split; [congruence | eapply quiet_trans; eassumption]]].
      rewrite Hlog', Hlog1, <- app_assoc. simpl. unfold Hmap.fkey, al_val. rewrite Hfk, Hke. reflexivity.
Qed.

(* ------------------------------------------------------------------ the slot returned by _entry_add, node allocation failing *)
(* the map after key / value were stored and before _lru_entry_update *)
Definition fill_pre (m : hmap) (bs : list bucket) (bi ei : nat) (isnew : bool) (k : K) (v : Z) : hmap :=
  let old := match nth_error (b_ents (bkt bs bi)) ei with
             | Some e => if isnew then (None, 0) else (fkey m (e_key e), e_val e)
             | None => (None, 0)
             end in
  let m1 := add_log K (with_count K (with_bkts K m bs) (if isnew then h_count m + 1 else h_count m)) old in
  with_bkts K m1 (upd_entry K (h_bkts m1) bi ei (fun x => mkE K k v (e_lru x) (e_hash x))).

Lemma fill_pre_ok : forall m L (al : list (K * Z)) ks k v bs bi ei isnew e2, inv m L ->
  Permutation (al_of (h_bkts m)) al -> recrel m L ks -> NoDup ks -> h_max m <> None ->
  entry_add K keq (h_bkts m) (h_mask m) k (hashf k) = (bs, bi, ei, isnew) ->
  nth_error (b_ents (bkt (h_bkts (fill_pre m bs bi ei isnew k v)) bi)) ei = Some e2 -> e_lru e2 = None ->
  let m2 := fill_pre m bs bi ei isnew k v in
  inv m2 L /\ h_max m2 = h_max m /\ h_ikp m2 = h_ikp m /\
  h_log m2 = h_log m ++ [match al_find K keq k al with Some ov => (fkey m k, ov) | None => (None, 0) end] /\
  Permutation (al_of (h_bkts m2)) ((k, v) :: al_remove K keq k al) /\
  recrel m2 L ks /\ ~ In k ks.
Proof.
  intros m L al ks k v bs bi ei isnew e2 Hinv HPal Hrr Hnd Hon Hea Hnth2 Hl2 m2.
  pose proof (entry_add_ok (h_mask m) (h_bkts m) k (inv_bwf K hashf m L Hinv)) as Hok. rewrite Hea in Hok.
  destruct Hok as [Hbie [Hbi [Hb' [Hlen Hcase]]]].
  assert (Hbi' : (bi < length bs)%nat) by (rewrite Hlen; exact Hbi).
  assert (Hnda : NoDup (map fst al)).
  { eapply Permutation_NoDup; [apply Permutation_map; exact HPal | exact (keys_nodup_al K hashf m L Hinv)]. }
  set (f := fun x : entry => mkE K k v (e_lru x) (e_hash x)).
  destruct isnew.
  - destruct Hcase as [Hnk [Hnth HPb]].
    set (p := mkE K k 0 None (hashf k)) in *.
    set (ma := add_log K (with_count K (with_bkts K m bs) (h_count m + 1)) (None, 0)).
    assert (Hm2 : m2 = with_bkts K ma (upd_entry K (Hmap.h_bkts K ma) bi ei f)).
    { subst m2. unfold fill_pre. rewrite Hnth. reflexivity. }
    assert (Hinv0a : inv0 ma L).
    { constructor; subst ma; simpl.
      - exact Hb'.
      - rewrite (inv_count K hashf m L Hinv). apply Permutation_length in HPb. simpl in HPb. rewrite HPb. lia.
      - exact (inv_fault K hashf m L Hinv).
      - apply (dll_ext K m); try reflexivity. exact (inv_dll K hashf m L Hinv).
      - eapply Permutation_trans; [apply (lru_ids_perm K); exact HPb|]. unfold Hmap_proofs.lru_ids at 1. simpl.
        exact (inv_ids K hashf m L Hinv).
      - intros e' n He' Hn. eapply Permutation_in in He'; [|exact HPb]. destruct He' as [He'|He'].
        + subst e'. simpl in Hn. discriminate.
        + apply (inv_nkey K hashf m L Hinv); assumption.
      - exact (inv_fresh K hashf m L Hinv). }
    assert (Hbia : (bi < length (Hmap.h_bkts K ma))%nat) by (subst ma; simpl; exact Hbi').
    assert (Hntha : nth_error (b_ents (bkt (Hmap.h_bkts K ma) bi)) ei = Some p) by (subst ma; simpl; exact Hnth).
    destruct (inv0_upd K hashf ma L bi ei p f Hinv0a Hbia Hntha eq_refl eq_refl eq_refl) as [Hinv0b [_ [Hnthb [[rest [HPa HPb']] Hlenb]]]].
    rewrite <- Hm2 in Hinv0b, Hnthb, HPb'.
    assert (Hrest : Permutation rest (ents (h_bkts m))).
    { eapply Permutation_cons_inv. eapply Permutation_trans; [apply Permutation_sym; exact HPa|].
      subst ma; simpl. exact HPb. }
    assert (Hnka : ~ In k (map fst al)).
    { intro Hi. apply Hnk. rewrite <- (al_of_keys K). eapply Permutation_in; [|exact Hi].
      apply Permutation_map. apply Permutation_sym. exact HPal. }
    splits.
    + apply (inv_split K hashf). split; [exact Hinv0b|]. intro Hx. rewrite Hm2 in Hx. simpl in Hx. contradiction.
    + rewrite Hm2. reflexivity.
    + rewrite Hm2. reflexivity.
    + rewrite (al_find_none K keq keq_spec k al Hnka). rewrite Hm2. reflexivity.
    + rewrite (al_remove_notin K keq keq_spec k al Hnka).
      eapply Permutation_trans; [apply (al_of_cons_perm K); exact HPb'|]. simpl. constructor.
      eapply Permutation_trans; [|exact HPal]. unfold Hmap_proofs.al_of. apply (al_of_perm K). exact Hrest.
    + apply (recrel_ext K m); [rewrite Hm2; reflexivity | exact Hrr].
    + intro Hi. apply Hnk. eapply (recrel_keys_in K hashf); eassumption.
  - destruct Hcase as [e [Hnth [Hke Hents]]].
    set (ma := add_log K (with_count K (with_bkts K m bs) (h_count m)) (fkey m (e_key e), e_val e)).
    assert (Hm2 : m2 = with_bkts K ma (upd_entry K (Hmap.h_bkts K ma) bi ei f)).
    { subst m2. unfold fill_pre. rewrite Hnth. reflexivity. }
    assert (Hinva : inv ma L).
    { constructor; subst ma; simpl; rewrite ?Hents.
      - exact Hb'.
      - exact (inv_count K hashf m L Hinv).
      - exact (inv_fault K hashf m L Hinv).
      - apply (dll_ext K m); try reflexivity. exact (inv_dll K hashf m L Hinv).
      - exact (inv_ids K hashf m L Hinv).
      - exact (inv_nkey K hashf m L Hinv).
      - exact (inv_on K hashf m L Hinv).
      - exact (inv_fresh K hashf m L Hinv). }
    apply (inv_split K hashf) in Hinva. destruct Hinva as [Hinv0a Hona].
    assert (Hbia : (bi < length (Hmap.h_bkts K ma))%nat) by (subst ma; simpl; exact Hbi').
    assert (Hntha : nth_error (b_ents (bkt (Hmap.h_bkts K ma) bi)) ei = Some e) by (subst ma; simpl; exact Hnth).
    destruct (inv0_upd K hashf ma L bi ei e f Hinv0a Hbia Hntha (eq_sym Hke) eq_refl eq_refl)
      as [Hinv0b [_ [Hnthb [[rest [HPa HPb']] Hlenb]]]].
    rewrite <- Hm2 in Hinv0b, Hnthb, HPb'.
    assert (Hel : e_lru e = None).
    { change (fill_pre m bs bi ei false k v) with m2 in Hnth2. rewrite Hnthb in Hnth2. inversion Hnth2; subst e2. exact Hl2. }
    assert (Hein : In e (ents (h_bkts m))).
    { rewrite <- Hents. eapply ents_in; eassumption. }
    assert (HPa' : Permutation al ((k, e_val e) :: map (fun x => (e_key x, e_val x)) rest)).
    { eapply Permutation_trans; [apply Permutation_sym; exact HPal|].
      unfold Hmap_proofs.al_of. rewrite <- Hents. rewrite <- Hke.
      change (ents bs) with (ents (Hmap.h_bkts K ma)). apply (al_of_perm K _ _ HPa). }
    assert (Hndr : NoDup (map fst ((k, e_val e) :: map (fun x => (e_key x, e_val x)) rest))).
    { eapply Permutation_NoDup; [apply Permutation_map; exact HPa' | exact Hnda]. }
    destruct (al_perm_head K keq keq_spec al k (e_val e) _ Hndr HPa') as [Hfk [HPrem _]].
    splits.
    + apply (inv_split K hashf). split; [exact Hinv0b|]. intro Hx. rewrite Hm2 in Hx. simpl in Hx. contradiction.
    + rewrite Hm2. reflexivity.
    + rewrite Hm2. reflexivity.
    + rewrite Hfk. rewrite Hm2. subst ma. simpl. rewrite Hke. reflexivity.
    + eapply Permutation_trans; [apply (al_of_cons_perm K (h_bkts m2) (f e) rest HPb')|]. simpl. constructor.
      apply Permutation_sym. exact HPrem.
    + apply (recrel_ext K m); [rewrite Hm2; reflexivity | exact Hrr].
    + rewrite <- Hke. exact (nonode_not_in_rec K hashf m L e ks Hinv Hein Hel Hrr).
Qed.

Lemma fill_slot_unfold : forall m bs bi ei isnew k v,
  fill_slot K m bs bi ei isnew k v =
  if lru_on K (fill_pre m bs bi ei isnew k v) then lru_update K (fill_pre m bs bi ei isnew k v) bi ei
  else fill_pre m bs bi ei isnew k v.
Proof. reflexivity. Qed.

Lemma fill_slot_f_unfold : forall a bs bi ei isnew k v,
  fill_slot_f K orc a bs bi ei isnew k v =
  if lru_on K (fill_pre (a_m a) bs bi ei isnew k v) then lru_update_f K orc (with_m a (fill_pre (a_m a) bs bi ei isnew k v)) bi ei
  else with_m a (fill_pre (a_m a) bs bi ei isnew k v).
Proof. reflexivity. Qed.

(* _entry_add succeeded: store, kv_free_fn of the old content, recency update - the node allocation may fail (fn) *)
Lemma fill_slot_f_ok : forall a L (al : list (K * Z)) ks k v bs bi ei isnew, inv (a_m a) L ->
  Permutation (al_of (h_bkts (a_m a))) al -> recrel (a_m a) L ks -> NoDup ks ->
  entry_add K keq (h_bkts (a_m a)) (h_mask (a_m a)) k (hashf k) = (bs, bi, ei, isnew) ->
  let m := a_m a in
  let a1 := fill_slot_f K orc a bs bi ei isnew k v in
  exists L1 (fn : bool), inv (a_m a1) L1 /\ h_max (a_m a1) = h_max m /\ h_ikp (a_m a1) = h_ikp m /\
    h_log (a_m a1) = h_log m ++ [match al_find K keq k al with Some ov => (fkey m k, ov) | None => (None, 0) end] /\
    Permutation (al_of (h_bkts (a_m a1))) ((k, v) :: al_remove K keq k al) /\
    recrel (a_m a1) L1 (if lru_on K m then (if fn then rec_remove K keq k ks else rec_remove K keq k ks ++ [k]) else ks) /\
    (lru_on K m = false -> fn = false) /\ quiet a a1.
Proof.
  intros a L al ks k v bs bi ei isnew Hinv HPal Hrr Hnd Hea m a1.
  pose proof (add_fill_ok K keq hashf keq_spec m L al ks k v Hinv HPal Hrr Hnd) as Haf.
  fold m in Hea. rewrite Hea in Haf. rewrite fill_slot_unfold in Haf.
  subst a1. rewrite fill_slot_f_unfold. fold m.
  set (m2 := fill_pre m bs bi ei isnew k v) in *.
  assert (Hlo : lru_on K m2 = lru_on K m) by reflexivity.
  (* the outcome that coincides with Hmap.fill_slot *)
  assert (Hsame : forall ax, a_m ax = (if lru_on K m2 then lru_update K m2 bi ei else m2) -> quiet a ax ->
            exists L1 (fn : bool), inv (a_m ax) L1 /\ h_max (a_m ax) = h_max m /\ h_ikp (a_m ax) = h_ikp m /\
              h_log (a_m ax) = h_log m ++ [match al_find K keq k al with Some ov => (fkey m k, ov) | None => (None, 0) end] /\
              Permutation (al_of (h_bkts (a_m ax))) ((k, v) :: al_remove K keq k al) /\
              recrel (a_m ax) L1 (if lru_on K m then (if fn then rec_remove K keq k ks else rec_remove K keq k ks ++ [k]) else ks) /\
              (lru_on K m = false -> fn = false) /\ quiet a ax).
  { intros ax Hax Hq. destruct Haf as [L1 [Hi1 [Hmx1 [Hik1 [Hlog1 [HP1 Hr1]]]]]].
    exists L1, false. rewrite Hax. splits; try assumption. intros _. reflexivity. }
  destruct (lru_on K m2) eqn:Hon.
  - unfold lru_update_f. change (a_m (with_m a m2)) with m2.
    destruct (nth_error (b_ents (bkt (h_bkts m2) bi)) ei) as [e2|] eqn:Hnth2.
    + destruct (e_lru e2) eqn:Hl2.
      * apply Hsame; [reflexivity | repeat split].
      * destruct (ask K orc (with_m a m2) SNode) as [f a2] eqn:Ea.
        pose proof (ask_any K orc (with_m a m2) SNode) as Ha. rewrite Ea in Ha. simpl snd in Ha.
        destruct Ha as [Hm2a Hq2]. change (a_m (with_m a m2)) with m2 in Hm2a.
        destruct f.
        -- (* malloc of the node failed *)
           assert (Hmaxne : h_max m <> None) by (apply (lru_on_max K); rewrite <- Hlo; reflexivity).
           destruct (fill_pre_ok m L al ks k v bs bi ei isnew e2 Hinv HPal Hrr Hnd Hmaxne Hea Hnth2 Hl2)
             as [Hi [Hmx [Hik [Hlog [HP [Hr Hnk]]]]]]. fold m2 in Hi, Hmx, Hik, Hlog, HP, Hr.
           exists L, true. rewrite Hm2a. splits; try assumption.
           ++ rewrite <- Hlo. rewrite (rec_remove_notin K keq keq_spec); assumption.
           ++ intro Hx. rewrite <- Hlo in Hx. discriminate.
        -- apply Hsame; [reflexivity | exact Hq2].
    + apply Hsame; [reflexivity | repeat split].
  - apply Hsame; [reflexivity | repeat split].
Qed.

(* ------------------------------------------------------------------ the calls against the specification with failure flags *)
Lemma R_hist : forall a a' s, a_m a' = a_m a -> R (a_m a) s -> R (a_m a') s.
Proof. intros a a' s H HR. rewrite H. exact HR. Qed.

Lemma evict_f_nomax : forall fuel (a : amap), h_max (a_m a) = None -> evict_f K keq hashf orc false fuel a = a.
Proof.
  intros fuel a H. destruct fuel as [|f]; [reflexivity|]. rewrite evict_f_S. rewrite H.
  destruct (Hmap.h_first K (a_m a)); reflexivity.
Qed.

Lemma put_f_sim : forall a s k v, R (a_m a) s -> a_dang a = [] -> h_log (a_m a) = [] ->
  exists fl,
    let '(a', ok) := hput_f K keq hashf orc false a k v in
    let '(s', lg, ok') := s_put_a K keq fl s k v in
    R (a_m a') s' /\ h_log (a_m a') = lg /\ ok = ok' /\ h_count (a_m a') = Z.of_nat (length (s_al K s')) /\ quiet a a'.
Proof.
  intros a s k v HR Hdg Hlog0.
  unfold hput_f. rewrite (touch_nodang K a _ Hdg).
  destruct (entry_add_f_any K keq orc a (h_bkts (a_m a)) (h_mask (a_m a)) k (hashf k) SAdd) as [Ho1 Hr1].
  destruct (entry_add_f K keq orc a (h_bkts (a_m a)) (h_mask (a_m a)) k (hashf k) SAdd) as [a1 r] eqn:Eadd.
  simpl fst in Ho1. simpl snd in Hr1. destruct Ho1 as [Hm1 Hq1].
  destruct Hr1 as [Hr1|Hr1]; subst r.
  - (* _entry_add failed: nothing happened *)
    exists (mkF true false). unfold s_put_a. simpl f_add. cbv iota.
    splits; try reflexivity.
    + rewrite Hm1. exact HR.
    + rewrite Hm1. exact Hlog0.
    + rewrite Hm1. apply (R_count K hashf _ _ HR).
    + exact Hq1.
  - destruct (entry_add K keq (h_bkts (a_m a)) (h_mask (a_m a)) k (hashf k)) as [[[bs bi] ei] isnew] eqn:Hea.
    pose proof HR as [L [Hinv [HPal [Hrr [Hnd [Hmx Hik]]]]]].
    rewrite <- Hm1 in Hinv, HPal, Hrr, Hea.
    destruct (fill_slot_f_ok a1 L (s_al K s) (s_rec K s) k v bs bi ei isnew Hinv HPal Hrr Hnd Hea)
      as [L1 [fn [Hi1 [Hmx1 [Hik1 [Hlog1 [HP1 [Hr1 [Hfn Hq2]]]]]]]]].
    set (a2 := fill_slot_f K orc a1 bs bi ei isnew k v) in *.
    rewrite Hm1 in Hmx1, Hik1, Hlog1, Hr1, Hfn.
    exists (mkF false fn). unfold s_put_a. simpl f_add. cbv iota.
    set (old := match al_find K keq k (s_al K s) with Some ov => (s_fkey K s k, ov) | None => (None, 0) end).
    assert (Hold : h_log (a_m a2) = [old]).
    { rewrite Hlog1, Hlog0. simpl. subst old. unfold s_fkey, Hmap.fkey. rewrite Hik. reflexivity. }
    set (al1 := (k, v) :: al_remove K keq k (s_al K s)) in *.
    assert (Hlo : lru_on K (a_m a) = lru_is_on K s) by (apply (lru_on_is_on K); exact Hmx).
    assert (Hr1' : recrel (a_m a2) L1 (s_touch_a K keq (mkF false fn) s k)).
    { unfold s_touch_a, rec_touch. simpl f_node. rewrite <- Hlo. destruct fn.
      - destruct (lru_on K (a_m a)); [exact Hr1 | specialize (Hfn eq_refl); discriminate].
      - exact Hr1. }
    assert (Hnd1 : NoDup (s_touch_a K keq (mkF false fn) s k)).
    { unfold s_touch_a, rec_touch. simpl f_node. destruct fn; [apply (rec_remove_nodup K keq); exact Hnd|].
      destruct (lru_is_on K s); [apply (rec_touch_nodup K keq keq_spec); exact Hnd | exact Hnd]. }
    cbv zeta.
    set (a3 := if h_count (a_m a2) >? h_mask (a_m a2) then rehash_f K keq orc false a2 ((h_mask (a_m a2) + 1) * 2) else a2).
    assert (H2 : inv (a_m a3) L1 /\ Permutation (al_of (h_bkts (a_m a3))) al1 /\ h_heap (a_m a3) = h_heap (a_m a2) /\
                 h_log (a_m a3) = h_log (a_m a2) /\ h_max (a_m a3) = h_max (a_m a2) /\ h_ikp (a_m a3) = h_ikp (a_m a2) /\
                 quiet a2 a3).
    { subst a3. destruct (h_count (a_m a2) >? h_mask (a_m a2)).
      - destruct (inv_bwf K hashf (a_m a2) L1 Hi1) as [[kk [Hk0 Hmk]] _].
        rewrite Hmk, (ones_double kk Hk0).
        destruct (rehash_f_repaired K keq orc a2 (2 ^ (kk + 1))) as [Hcase Hq].
        destruct Hcase as [Hc|Hc]; rewrite Hc.
        + splits; try reflexivity; assumption.
        + destruct (inv_rehash K keq hashf keq_spec (a_m a2) L1 (kk + 1) Hi1 ltac:(lia)) as [Hir [HPr [Hhr [Hlr [Hmr [Hkr _]]]]]].
          splits; try assumption.
          eapply Permutation_trans; [|exact HP1]. unfold Hmap_proofs.al_of. apply (al_of_perm K). exact HPr.
      - splits; try reflexivity; try assumption. apply quiet_refl. }
    destruct H2 as [Hi2 [HP2 [Hh2 [Hl2 [Hmx2 [Hik2 Hq3]]]]]].
    assert (Hr2 : recrel (a_m a3) L1 (s_touch_a K keq (mkF false fn) s k)) by (apply (recrel_ext K (a_m a2)); assumption).
    assert (Hcnt2 : Z.to_nat (h_count (a_m a3)) = length al1).
    { rewrite (inv_count K hashf (a_m a3) L1 Hi2), Nat2Z.id. apply Permutation_length in HP2. unfold Hmap_proofs.al_of in HP2.
      rewrite map_length in HP2. exact HP2. }
    rewrite Hcnt2.
    assert (Hdg3 : a_dang a3 = []).
    { destruct Hq3 as [Hq3 _]. destruct Hq2 as [Hq2 _]. destruct Hq1 as [Hq1 _]. congruence. }
    assert (Hq13 : quiet a a3) by (eapply quiet_trans; [exact Hq1 | eapply quiet_trans; eassumption]).
    destruct (s_max K s) as [mx|] eqn:Hsm.
    + assert (Hmx2' : h_max (a_m a3) = Some mx) by congruence.
      destruct (evict_f_ok (S (length al1)) a3 L1 al1 (s_touch_a K keq (mkF false fn) s k) mx Hdg3 Hi2 Hmx2' HP2 Hr2 Hnd1)
        as [L' [al' [ks' [lg [Hse [Hi' [HP' [Hrr' [Hnd' [Hlog' [Hmx' [Hik' Hq']]]]]]]]]]]].
      assert (Hiks : h_ikp (a_m a3) = s_ikp K s) by congruence.
      rewrite Hiks in Hse. rewrite Hse.
      splits.
      * exists L'. cbn [s_al s_rec s_max s_ikp]. splits; try assumption; congruence.
      * rewrite Hlog', Hl2, Hold. reflexivity.
      * reflexivity.
      * cbn [s_al s_rec s_max s_ikp]. rewrite (inv_count K hashf _ L' Hi'). f_equal. apply Permutation_length in HP'.
        unfold Hmap_proofs.al_of in HP'. rewrite map_length in HP'. exact HP'.
      * eapply quiet_trans; eassumption.
    + assert (Hmx2' : h_max (a_m a3) = None) by congruence.
      rewrite (evict_f_nomax _ a3 Hmx2').
      splits.
      * exists L1. cbn [s_al s_rec s_max s_ikp]. splits; try assumption; congruence.
      * rewrite Hl2, Hold. reflexivity.
      * reflexivity.
      * cbn [s_al s_rec s_max s_ikp]. rewrite (inv_count K hashf _ L1 Hi2). f_equal. apply Permutation_length in HP2.
        unfold Hmap_proofs.al_of in HP2. rewrite map_length in HP2. exact HP2.
      * exact Hq13.
Qed.

Lemma get_f_sim : forall a s k, R (a_m a) s -> a_dang a = [] -> h_log (a_m a) = [] ->
  exists fl,
    let '(a', v) := hget_f K keq hashf orc a k in
    let '(s', v') := s_get_a K keq fl s k in
    R (a_m a') s' /\ v = v' /\ h_log (a_m a') = [] /\ h_count (a_m a') = Z.of_nat (length (s_al K s')) /\ quiet a a'.
Proof.
  intros a s k HR Hdg Hlog0.
  pose proof (get_sim K keq hashf keq_spec (a_m a) s k HR Hlog0) as Hgs.
  unfold hget_f. rewrite (touch_nodang K a _ Hdg). unfold hget_val in Hgs. unfold s_get_a. unfold s_get in Hgs.
  destruct (find_sim K keq hashf keq_spec (a_m a) s k HR) as [Hbi Hf].
  set (bi := bidx (h_mask (a_m a)) (hashf k)) in *.
  destruct (find_in K keq k (hashf k) (b_ents (bkt (h_bkts (a_m a)) bi))) as [ei|].
  2:{ exists (mkF false false). rewrite Hf in *. destruct Hgs as [H1 [H2 [H3 H4]]].
      splits; try assumption. apply quiet_refl. }
  destruct Hf as [e [Hnth [Hke Hfa]]]. rewrite Hnth in *. rewrite Hfa in *.
  (* the outcome that coincides with Hmap.hget_val *)
  assert (Hsame : forall ax, a_m ax = (if lru_on K (a_m a) then lru_update K (a_m a) bi ei else a_m a) -> quiet a ax ->
     R (a_m ax) (mkS K (s_al K s) (s_touch_a K keq (mkF false false) s k) (s_max K s) (s_ikp K s)) /\ e_val e = e_val e /\
     h_log (a_m ax) = [] /\ h_count (a_m ax) = Z.of_nat (length (s_al K s)) /\ quiet a ax).
  { intros ax Hax Hq. rewrite Hax. destruct Hgs as [H1 [H2 [H3 H4]]]. splits; assumption. }
  destruct (lru_on K (a_m a)) eqn:Hon.
  2:{ exists (mkF false false). apply Hsame; [reflexivity | apply quiet_refl]. }
  unfold lru_update_f. rewrite Hnth.
  destruct (e_lru e) eqn:Hl.
  { exists (mkF false false). apply Hsame; [reflexivity | repeat split]. }
  destruct (ask K orc a SNode) as [f a2] eqn:Ea.
  pose proof (ask_any K orc a SNode) as Ha. rewrite Ea in Ha. simpl snd in Ha. destruct Ha as [Hm2 Hq2].
  destruct f.
  2:{ exists (mkF false false). apply Hsame; [reflexivity | exact Hq2]. }
  (* the node could not be allocated: nothing changes, the key was not in the recency list *)
  exists (mkF false true). unfold s_touch_a. simpl f_node.
  pose proof HR as [L [Hinv [HPal [Hrr [Hnd [Hmx Hik]]]]]].
  assert (Hein : In e (ents (h_bkts (a_m a)))) by (eapply ents_in; eassumption).
  pose proof (nonode_not_in_rec K hashf (a_m a) L e _ Hinv Hein Hl Hrr) as Hnin. rewrite Hke in Hnin.
  rewrite (rec_remove_notin K keq keq_spec k _ Hnin). rewrite Hm2.
  splits; try assumption; try reflexivity.
  cbn [s_al]. apply (R_count K hashf _ _ HR).
Qed.

Lemma remove_f_sim : forall a s k, R (a_m a) s -> a_dang a = [] -> h_log (a_m a) = [] ->
  let '(a', b) := hremove_f K keq hashf orc false a k in
  let '(s', b', lg) := s_remove K keq s k in
  R (a_m a') s' /\ b = b' /\ h_log (a_m a') = lg /\ h_count (a_m a') = Z.of_nat (length (s_al K s')) /\ quiet a a'.
Proof.
  intros a s k HR Hdg Hlog0. unfold hremove_f, s_remove. rewrite (touch_nodang K a _ Hdg).
  destruct (find_sim K keq hashf keq_spec (a_m a) s k HR) as [Hbi Hf].
  pose proof (R_count K hashf _ _ HR) as Hcnt.
  destruct (find_in K keq k (hashf k) (b_ents (bkt (h_bkts (a_m a)) (bidx (h_mask (a_m a)) (hashf k))))) as [ei|].
  - destruct Hf as [e [Hnth [Hke Hfa]]]. rewrite Hfa.
    pose proof (R_nodup_al K hashf _ _ HR) as Hnds.
    destruct HR as [L [Hinv [HPal [Hrr [Hnd [Hmx Hik]]]]]].
    destruct (entry_remove_f_ok a L _ ei e Hinv Hbi Hnth) as [[L1 [Hi1 [HP1 [Hlog1 [Hmx1 [Hik1 Hr1]]]]]] Hq1].
    set (a1 := entry_remove_f K keq orc false a (bidx (h_mask (a_m a)) (hashf k)) ei) in *.
    assert (HPa : Permutation (s_al K s) ((k, e_val e) :: al_of (h_bkts (a_m a1)))).
    { eapply Permutation_trans; [apply Permutation_sym; exact HPal|]. unfold Hmap_proofs.al_of.
      pose proof (al_of_perm K _ _ HP1) as Hx. cbn [map] in Hx. rewrite Hke in Hx. exact Hx. }
    assert (Hndr : NoDup (map fst ((k, e_val e) :: al_of (h_bkts (a_m a1))))).
    { eapply Permutation_NoDup; [apply Permutation_map; exact HPa | exact Hnds]. }
    destruct (al_perm_head K keq keq_spec (s_al K s) k (e_val e) _ Hndr HPa) as [_ [HPrem Hlen]].
    assert (HR' : R (a_m a1) (mkS K (al_remove K keq k (s_al K s)) (rec_remove K keq k (s_rec K s)) (s_max K s) (s_ikp K s))).
    { exists L1. cbn [s_al s_rec s_max s_ikp]. splits; try assumption; try congruence.
      - apply Permutation_sym. exact HPrem.
      - pose proof (Hr1 _ Hrr Hnd) as Hx. rewrite Hke in Hx. exact Hx.
      - apply (rec_remove_nodup K keq). exact Hnd. }
    splits; try reflexivity.
    + exact HR'.
    + rewrite Hlog1, Hlog0. simpl. unfold s_fkey, Hmap.fkey. rewrite Hik, Hke. reflexivity.
    + apply (R_count K hashf _ _ HR').
    + exact Hq1.
  - rewrite Hf. splits; try reflexivity; try assumption. apply quiet_refl.
Qed.

Lemma add_log_core : forall (m : hmap) x, core_eq K m (add_log K m x).
Proof. intros m x. unfold core_eq. simpl. splits; reflexivity. Qed.

Lemma rename_f_sim : forall a s x y, R (a_m a) s -> a_dang a = [] -> h_log (a_m a) = [] ->
  exists fl,
    let '(a', ok) := hrename_f K keq hashf orc false a x y in
    let '(s', lg, ok') := s_rename_a K keq fl s x y in
    R (a_m a') s' /\ h_log (a_m a') = lg /\ ok = ok' /\ h_count (a_m a') = Z.of_nat (length (s_al K s')) /\ quiet a a'.
Proof.
  intros a s x y HR Hdg Hlog0. unfold hrename_f, s_rename_a. rewrite (touch_nodang K a _ Hdg).
  destruct (find_sim K keq hashf keq_spec (a_m a) s x HR) as [Hbi Hf].
  pose proof (R_count K hashf _ _ HR) as Hcnt.
  pose proof (R_nodup_al K hashf _ _ HR) as Hnds.
  set (m := a_m a) in *.
  set (bi := bidx (h_mask m) (hashf x)) in *.
  destruct (find_in K keq x (hashf x) (b_ents (bkt (h_bkts m) bi))) as [ei|].
  2:{ exists (mkF false false). rewrite Hf. splits; try assumption; try reflexivity. apply quiet_refl. }
  destruct Hf as [e [Hnth [Hke Hfa]]]. rewrite Hnth, Hfa. cbv zeta.
  pose proof (R_off_rec K hashf m s HR) as Hoff.
  destruct HR as [L [Hinv [HPal [Hrr [Hnd [Hmx Hik]]]]]].
  apply (inv_split K hashf) in Hinv. destruct Hinv as [Hinv0 Hon].
  set (f0 := fun z : entry => mkE K (e_key z) 0 (e_lru z) (e_hash z)).
  destruct (inv0_upd K hashf m L bi ei e f0 Hinv0 Hbi Hnth eq_refl eq_refl eq_refl)
    as [Hinv01 [Hon1 [Hnth1 [[rest [HPm HPm1]] Hlen1]]]].
  set (m1 := with_bkts K m (upd_entry K (h_bkts m) bi ei f0)) in *.
  assert (Hinv1 : inv m1 L) by (apply (inv_split K hashf); split; [exact Hinv01 | exact (Hon1 Hon)]).
  assert (Hbi1 : (bi < length (h_bkts m1))%nat) by (rewrite Hlen1; exact Hbi).
  destruct (entry_remove_f_ok (with_m a m1) L bi ei (f0 e) Hinv1 Hbi1 Hnth1)
    as [[L2 [Hinv2 [HP2 [Hlog2 [Hmx2 [Hik2 Hr2]]]]]] Hq2].
  set (a2 := entry_remove_f K keq orc false (with_m a m1) bi ei) in *.
  change (a_m (with_m a m1)) with m1 in *.
  set (m2 := a_m a2) in *.
  assert (Hdg2 : a_dang a2 = []) by (destruct Hq2 as [Hq _]; rewrite Hq; exact Hdg).
  rewrite (touch_nodang K a2 _ Hdg2).
  assert (Hrest2 : Permutation (ents (h_bkts m2)) rest).
  { apply Permutation_sym. eapply Permutation_cons_inv.
    eapply Permutation_trans; [apply Permutation_sym; exact HPm1 | exact HP2]. }
  assert (HPa : Permutation (s_al K s) ((x, e_val e) :: map (fun z => (e_key z, e_val z)) rest)).
  { eapply Permutation_trans; [apply Permutation_sym; exact HPal|].
    pose proof (al_of_cons_perm K (h_bkts m) e rest HPm) as Hx. rewrite Hke in Hx. exact Hx. }
  assert (Hndr : NoDup (map fst ((x, e_val e) :: map (fun z => (e_key z, e_val z)) rest))).
  { eapply Permutation_NoDup; [apply Permutation_map; exact HPa | exact Hnds]. }
  destruct (al_perm_head K keq keq_spec (s_al K s) x (e_val e) _ Hndr HPa) as [_ [HPrem _]].
  assert (HPal2 : Permutation (al_of (h_bkts m2)) (al_remove K keq x (s_al K s))).
  { eapply Permutation_trans; [|apply Permutation_sym; exact HPrem]. unfold Hmap_proofs.al_of. apply (al_of_perm K). exact Hrest2. }
  assert (Hrr2 : recrel m2 L2 (rec_remove K keq x (s_rec K s))).
  { pose proof (Hr2 (s_rec K s) ltac:(apply (recrel_ext K m); [reflexivity | exact Hrr]) Hnd) as Hx.
    simpl in Hx. rewrite Hke in Hx. exact Hx. }
  assert (Hnd2 : NoDup (rec_remove K keq x (s_rec K s))) by (apply (rec_remove_nodup K keq); exact Hnd).
  assert (Hlogm2 : h_log m2 = [(s_fkey K s x, 0)]).
  { rewrite Hlog2. change (h_log m1) with (h_log m). rewrite Hlog0. simpl.
    unfold s_fkey, Hmap.fkey. change (Hmap.h_ikp K m1) with (h_ikp m). rewrite Hik, Hke. reflexivity. }
  assert (Hmxm2 : s_max K s = h_max m2) by (rewrite Hmx2; exact Hmx).
  assert (Hikm2 : s_ikp K s = h_ikp m2) by (rewrite Hik2; exact Hik).
  destruct (entry_add_f_any K keq orc a2 (h_bkts m2) (h_mask m2) y (hashf y) SAdd) as [Ho3 Hr3].
  destruct (entry_add_f K keq orc a2 (h_bkts m2) (h_mask m2) y (hashf y) SAdd) as [a3 r] eqn:Eadd.
  simpl fst in Ho3. simpl snd in Hr3. destruct Ho3 as [Hm3 Hq3]. fold m2 in Hm3.
  assert (Hq03 : quiet a a3).
  { eapply quiet_trans; [|exact Hq3]. destruct Hq2 as [G1 [G2 G3]]. repeat split; assumption. }
  destruct Hr3 as [Hr3|Hr3]; subst r.
  - (* _entry_add(key_new) failed: the entry is gone, the value goes to kv_free_fn(0, val) *)
    exists (mkF true false). simpl f_add. cbv iota.
    assert (HR' : R (add_log K (a_m a3) (None, e_val e))
                    (mkS K (al_remove K keq x (s_al K s)) (rec_remove K keq x (s_rec K s)) (s_max K s) (s_ikp K s))).
    { exists L2. cbn [s_al s_rec s_max s_ikp]. rewrite Hm3. splits; try assumption.
      eapply inv_core_ext; [apply add_log_core | exact Hinv2]. }
    splits.
    + exact HR'.
    + simpl. rewrite Hm3, Hlogm2. reflexivity.
    + reflexivity.
    + apply (R_count K hashf _ _ HR').
    + exact Hq03.
  - destruct (entry_add K keq (h_bkts m2) (h_mask m2) y (hashf y)) as [[[bs bi2] ei2] isnew] eqn:Hea.
    rewrite <- Hm3 in Hinv2, HPal2, Hrr2, Hea.
    destruct (fill_slot_f_ok a3 L2 (al_remove K keq x (s_al K s)) (rec_remove K keq x (s_rec K s)) y (e_val e)
                bs bi2 ei2 isnew Hinv2 HPal2 Hrr2 Hnd2 Hea)
      as [L3 [fn [Hinv3 [Hmx3 [Hik3 [Hlog3 [HP3 [Hr3 [Hfn Hq4]]]]]]]]].
    set (a4 := fill_slot_f K orc a3 bs bi2 ei2 isnew y (e_val e)) in *.
    rewrite Hm3 in Hmx3, Hik3, Hlog3, Hr3, Hfn.
    exists (mkF false fn). simpl f_add. simpl f_node. cbv iota.
    assert (Hlo2 : lru_on K m2 = lru_is_on K s).
    { unfold lru_on, lru_is_on. rewrite Hmxm2. reflexivity. }
    set (r0 := rec_remove K keq y (rec_remove K keq x (s_rec K s))) in *.
    assert (HR4 : R (a_m a4) (mkS K ((y, e_val e) :: al_remove K keq y (al_remove K keq x (s_al K s)))
                         (if lru_is_on K s then (if fn then r0 else r0 ++ [y]) else s_rec K s)
                         (s_max K s) (s_ikp K s))).
    { exists L3. cbn [s_al s_rec s_max s_ikp]. splits; try assumption.
      - rewrite Hlo2 in Hr3. destruct (lru_is_on K s) eqn:Hlo; [exact Hr3|].
        assert (Hmn : h_max m = None).
        { unfold lru_is_on in Hlo. rewrite Hmx in Hlo. destruct (h_max m); [discriminate | reflexivity]. }
        rewrite (Hoff Hmn) in Hr3. rewrite (Hoff Hmn). exact Hr3.
      - destruct (lru_is_on K s); [|exact Hnd]. destruct fn.
        + apply (rec_remove_nodup K keq). exact Hnd2.
        + apply (rec_touch_nodup K keq keq_spec). exact Hnd2.
      - rewrite Hmx3. exact Hmxm2.
      - rewrite Hik3. exact Hikm2. }
    splits.
    + exact HR4.
    + rewrite Hlog3, Hlogm2. simpl. unfold s_fkey, Hmap.fkey. rewrite Hikm2. reflexivity.
    + reflexivity.
    + apply (R_count K hashf _ _ HR4).
    + eapply quiet_trans; eassumption.
Qed.

(* iwhmap_clear with or without the realloc down to MIN_BUCKETS *)
Definition clear_core (m : hmap) (sh : bool) : hmap :=
  let m1 := log_all K m in
  let nb := if sh then Z.to_nat CONT_MIN_BUCKETS else length (h_bkts m1) in
  let m2 := with_mask K (with_bkts K m1 (repeat (bempty K) nb)) (if sh then CONT_MIN_BUCKETS - 1 else h_mask m1) in
  let m3 := free_chain K (S (length (h_heap m2))) m2 (Hmap.h_first K m2) in
  with_count K (with_last K (with_first K m3 None) None) 0.

Lemma clear_core_sim : forall m s sh, R m s -> h_log m = [] ->
  let '(s', lg) := s_clear K s in
  R (clear_core m sh) s' /\ Permutation (h_log (clear_core m sh)) lg /\ h_count (clear_core m sh) = 0.
Proof.
  intros m s sh HR Hlog0. unfold clear_core, s_clear.
  destruct HR as [L [Hinv [HPal [Hrr [Hnd [Hmx Hik]]]]]].
  unfold log_all.
  destruct (log_fold K (fun e => (fkey m (e_key e), e_val e)) (ents (h_bkts m)) m) as [Hc1 [Hik1 Hlog1]].
  set (m1 := fold_left (fun a e => add_log K a (fkey m (e_key e), e_val e)) (ents (h_bkts m)) m) in *.
  destruct Hc1 as [Ec [Em [Eb [Eh [Efr [Ef [El [Emx Efa]]]]]]]].
  set (nb := if sh then Z.to_nat CONT_MIN_BUCKETS else length (h_bkts m1)).
  set (mk := if sh then CONT_MIN_BUCKETS - 1 else h_mask m1).
  set (m2 := with_mask K (with_bkts K m1 (repeat (bempty K) nb)) mk).
  assert (Hb2 : bwf mk (repeat (bempty K) nb) /\ ents (repeat (bempty K) nb) = []).
  { subst mk nb. destruct sh.
    - rewrite min_buckets_pow. apply (bwf_empty 6). lia.
    - rewrite Em, Eb. destruct (inv_bwf K hashf m L Hinv) as [[k [Hk0 Hmk]] [Hlen _]].
      rewrite Hlen, Hmk, Z.ones_equiv. replace (Z.pred (2 ^ k) + 1) with (2 ^ k) by lia.
      replace (Z.pred (2 ^ k)) with (2 ^ k - 1) by lia. apply (bwf_empty k). exact Hk0. }
  destruct Hb2 as [Hb2 He2].
  assert (Hd2 : dll m2 L).
  { apply (dll_ext K m); try assumption. exact (inv_dll K hashf m L Hinv). }
  assert (Hfuel : (length L < S (length (h_heap m2)))%nat).
  { pose proof (dll_length m2 L Hd2). lia. }
  destruct (free_chain_ok m2 L _ Hd2 Hfuel) as [Hf3 [Hh3 [Hfi3 Hla3]]].
  set (m3 := free_chain K (S (length (h_heap m2))) m2 (Hmap.h_first K m2)) in *.
  destruct Hf3 as [Fc [Fm [Fb [Ffr [Fmx [Fik [Ffa Flg]]]]]]].
  set (m4 := with_count K (with_last K (with_first K m3 None) None) 0).
  assert (Hinv4 : inv m4 []).
  { constructor; subst m4; simpl; rewrite ?Fm, ?Fb, ?Ffa, ?Fmx; subst m2; simpl; rewrite ?He2.
    - exact Hb2.
    - reflexivity.
    - rewrite Efa. exact (inv_fault K hashf m L Hinv).
    - unfold Hmap_inv_proofs.dll. simpl. splits; try reflexivity; try constructor.
      + intros [].
      + intro Hx. exfalso. apply Hx. apply Hh3.
    - apply Permutation_refl.
    - intros e n [].
    - intros _ e [].
    - intros j []. }
  splits.
  - exists []. cbn [s_al s_rec s_max s_ikp].
    split; [exact Hinv4|]. split; [|split; [constructor | split; [constructor | split]]].
    + subst m4. simpl. rewrite Fb. subst m2. simpl. unfold Hmap_proofs.al_of. rewrite He2. apply Permutation_refl.
    + subst m4. simpl. rewrite Fmx. subst m2. simpl. rewrite Emx. exact Hmx.
    + subst m4. simpl. rewrite Fik. subst m2. simpl. rewrite Hik1. exact Hik.
  - subst m4. simpl. rewrite Flg. subst m2. simpl. rewrite Hlog1, Hlog0. simpl.
    assert (Hg : map (fun e : entry => (fkey m (e_key e), e_val e)) (ents (h_bkts m)) =
                 map (fun p : K * Z => (s_fkey K s (fst p), snd p)) (al_of (h_bkts m))).
    { unfold Hmap_proofs.al_of. rewrite map_map. apply map_ext. intro e. simpl. unfold s_fkey, Hmap.fkey. rewrite Hik. reflexivity. }
    rewrite Hg. apply Permutation_map. exact HPal.
  - reflexivity.
Qed.

Lemma clear_f_sim : forall a s, R (a_m a) s -> a_dang a = [] -> h_log (a_m a) = [] ->
  let '(s', lg) := s_clear K s in
  R (a_m (hclear_f K orc a)) s' /\ Permutation (h_log (a_m (hclear_f K orc a))) lg /\
  h_count (a_m (hclear_f K orc a)) = 0 /\ quiet a (hclear_f K orc a).
Proof.
  intros a s HR Hdg Hlog0.
  assert (Hex : exists sh, a_m (hclear_f K orc a) = clear_core (a_m a) sh /\ quiet a (hclear_f K orc a)).
  { unfold hclear_f. rewrite Hdg. cbv zeta.
    destruct (h_mask (log_all K (a_m a)) + 1 >? CONT_MIN_BUCKETS).
    - simpl. destruct (orc (SClear :: a_hist K a)); simpl.
      + exists false. split; [reflexivity | repeat split; symmetry; exact Hdg].
      + exists true. split; [reflexivity | repeat split; symmetry; exact Hdg].
    - simpl. exists false. split; [reflexivity | repeat split; symmetry; exact Hdg]. }
  destruct Hex as [sh [Hm Hq]]. rewrite Hm.
  pose proof (clear_core_sim (a_m a) s sh HR Hlog0) as H. destruct (s_clear K s) as [s' lg].
  destruct H as [H1 [H2 H3]]. splits; assumption.
Qed.

(* ------------------------------------------------------------------ one call, call sequences *)
Definition aout_equiv (o o' : hout K * bool) : Prop := out_equiv K (fst o) (fst o') /\ snd o = snd o'.

Lemma a_step_sim : forall a s op, R (a_m a) s -> a_dang a = [] ->
  exists fl,
    let '(a', o) := a_step K keq hashf orc false a op in
    let '(s', o') := s_step_a K keq fl s op in
    R (a_m a') s' /\ aout_equiv o o' /\ quiet a a'.
Proof.
  intros a0 s op HR0 Hdg0.
  destruct (R_clear_log K hashf _ _ HR0) as [HR Hl0].
  unfold a_step. set (a := with_m a0 (clear_log K (a_m a0))).
  change (a_m a) with (clear_log K (a_m a0)).
  assert (Hdg : a_dang a = []) by exact Hdg0.
  assert (Hqa : forall ax, quiet a ax -> quiet a0 ax) by (intros ax H; exact H).
  destruct op as [k v|k|k|x y| | | | |mx].
  - destruct (put_f_sim a s k v HR Hdg Hl0) as [fl H]. exists fl. unfold s_step_a.
    destruct (hput_f K keq hashf orc false a k v) as [a' ok]. destruct (s_put_a K keq fl s k v) as [[s' lg] ok'].
    destruct H as [H1 [H2 [H3 [H4 H5]]]]. splits; try assumption. split; [simpl; split; assumption | exact H3].
  - destruct (get_f_sim a s k HR Hdg Hl0) as [fl H]. exists fl. unfold s_step_a.
    destruct (hget_f K keq hashf orc a k) as [a' v]. destruct (s_get_a K keq fl s k) as [s' v'].
    destruct H as [H1 [H2 [H3 [H4 H5]]]]. splits; try assumption. split; [simpl; splits; assumption | reflexivity].
  - exists (mkF false false). pose proof (remove_f_sim a s k HR Hdg Hl0) as H. unfold s_step_a, s_step.
    destruct (hremove_f K keq hashf orc false a k) as [a' b]. destruct (s_remove K keq s k) as [[s' b'] lg].
    destruct H as [H1 [H2 [H3 [H4 H5]]]]. splits; try assumption. split; [simpl; splits; assumption | reflexivity].
  - destruct (rename_f_sim a s x y HR Hdg Hl0) as [fl H]. exists fl. unfold s_step_a.
    destruct (hrename_f K keq hashf orc false a x y) as [a' ok]. destruct (s_rename_a K keq fl s x y) as [[s' lg] ok'].
    destruct H as [H1 [H2 [H3 [H4 H5]]]]. splits; try assumption. split; [simpl; split; assumption | exact H3].
  - exists (mkF false false). pose proof (clear_f_sim a s HR Hdg Hl0) as H. unfold s_step_a, s_step.
    destruct (s_clear K s) as [s' lg]. destruct H as [H1 [H2 [H3 H4]]].
    splits; try assumption. split; [simpl; split; assumption | reflexivity].
  - exists (mkF false false). unfold s_step_a, s_step. splits; [exact HR | | repeat split].
    split; [simpl; apply (R_count K hashf _ _ HR) | reflexivity].
  - exists (mkF false false). unfold s_step_a, s_step. splits; [exact HR | | repeat split].
    split; [simpl; destruct HR as [L [_ [HP _]]]; exact HP | reflexivity].
  - exists (mkF false false). unfold s_step_a, s_step. splits; [exact HR | | repeat split].
    split; [|reflexivity]. cbn [fst]. rewrite (lru_sim K hashf _ _ HR). simpl. split; reflexivity.
  - exists (mkF false false). unfold s_step_a, s_step. splits; [| | repeat split].
    + apply (lruinit_sim K hashf). exact HR.
    + split; [exact I | reflexivity].
Qed.

(* EVERY allocation oracle, EVERY call sequence, repaired failure paths: the map answers like the specification with the
   failure flags of the calls (same values, flags, counts, rc, callback log), the simulation relation (hence the invariant
   of C18_dll_wf) holds in the final state, and nothing dangles, leaks or is lost. *)
Theorem af_refines : forall ops a s, R (a_m a) s -> a_dang a = [] ->
  exists fls, length fls = length ops /\
    Forall2 aout_equiv (a_run K keq hashf orc false a ops) (s_run_a K keq fls s ops) /\
    R (a_m (a_exec K keq hashf orc false a ops)) (s_exec_a K keq fls s ops) /\
    quiet a (a_exec K keq hashf orc false a ops).
Proof.
  induction ops as [|op t IH]; intros a s HR Hdg.
  - exists []. simpl. splits; [reflexivity | constructor | exact HR | apply quiet_refl].
  - destruct (a_step_sim a s op HR Hdg) as [fl Hs]. simpl.
    destruct (a_step K keq hashf orc false a op) as [a' o] eqn:Ea.
    destruct (s_step_a K keq fl s op) as [s' o'] eqn:Es.
    destruct Hs as [HR' [Ho Hq]].
    assert (Hdg' : a_dang a' = []) by (destruct Hq as [Hq _]; congruence).
    destruct (IH a' s' HR' Hdg') as [fls [Hlen [Hf [HRf Hqf]]]].
    exists (fl :: fls). simpl. rewrite Es. simpl. splits.
    + rewrite Hlen. reflexivity.
    + constructor; assumption.
    + exact HRf.
    + eapply quiet_trans; eassumption.
Qed.

(* the reachable states of the repaired code under any oracle *)
Theorem af_invariant : forall max ikp hist ops,
  let a := a_exec K keq hashf orc false (a_init K (hnew K max ikp) hist) ops in
  exists L, dll (a_m a) L /\ Permutation (lru_ids (ents (h_bkts (a_m a)))) L /\
    (forall e n, In e (ents (h_bkts (a_m a))) -> e_lru e = Some n -> nkey K (h_heap (a_m a)) n = Some (e_key e)) /\
    h_fault (a_m a) = false /\ h_count (a_m a) = Z.of_nat (length (ents (h_bkts (a_m a)))) /\
    a_dang a = [] /\ a_leak K a = 0 /\ a_lost K a = [].
Proof.
  intros max ikp hist ops a.
  destruct (af_refines ops (a_init K (hnew K max ikp) hist) (s_new K max ikp) (R_new K hashf max ikp) eq_refl)
    as [fls [_ [_ [HR [Hq1 [Hq2 Hq3]]]]]]. fold a in HR, Hq1, Hq2, Hq3.
  destruct HR as [L [Hinv _]]. exists L. splits.
  - exact (inv_dll K hashf _ L Hinv).
  - exact (inv_ids K hashf _ L Hinv).
  - exact (inv_nkey K hashf _ L Hinv).
  - exact (inv_fault K hashf _ L Hinv).
  - exact (inv_count K hashf _ L Hinv).
  - exact Hq1.
  - exact Hq2.
  - exact Hq3.
Qed.

(* a put that reports an error has changed nothing *)
Theorem put_fail_unchanged : forall a k v, a_dang a = [] ->
  snd (hput_f K keq hashf orc false a k v) = false ->
  a_m (fst (hput_f K keq hashf orc false a k v)) = a_m a /\ quiet a (fst (hput_f K keq hashf orc false a k v)).
Proof.
  intros a k v Hdg. unfold hput_f. rewrite (touch_nodang K a _ Hdg).
  destruct (entry_add_f_any K keq orc a (h_bkts (a_m a)) (h_mask (a_m a)) k (hashf k) SAdd) as [[Hm1 Hq1] Hr1].
  destruct (entry_add_f K keq orc a (h_bkts (a_m a)) (h_mask (a_m a)) k (hashf k) SAdd) as [a1 r].
  simpl in Hm1, Hq1, Hr1. destruct Hr1 as [Hr1|Hr1]; subst r.
  - intros _. simpl. split; assumption.
  - destruct (entry_add K keq _ _ k (hashf k)) as [[[bs bi] ei] isnew]. simpl. discriminate.
Qed.

End AFsim.

(* ------------------------------------------------------------------ every value is freed exactly once, failures included *)
Section AFown.
Variable K : Type.
Variable keq : K -> K -> bool.
Variable hashf : K -> Z.
Hypothesis keq_spec : forall a b, keq a b = true <-> a = b.

Notation al_find := (al_find K keq).
Notation al_remove := (al_remove K keq).
Ltac splits := repeat match goal with |- _ /\ _ => split end.

Definition ins_ok (op : hop K) (o : hout K * bool) : list Z :=
  match op with HPut _ _ v => if snd o then [v] else [] | _ => [] end.

Lemma nodup_put_keys : forall k v (al : list (K * Z)), NoDup (map fst al) -> NoDup (map fst ((k, v) :: al_remove k al)).
Proof.
  intros k v al Hnd. simpl. constructor; [|apply (al_remove_nodup K keq keq_spec); exact Hnd].
  intro Hi. apply (al_remove_keys K keq keq_spec) in Hi. destruct Hi as [_ Hne]. congruence.
Qed.

Lemma s_step_a_vals : forall fl s op, NoDup (map fst (s_al K s)) ->
  let '(s', o') := s_step_a K keq fl s op in
  Permutation (nz (ins_ok op o' ++ vals K (s_al K s))) (nz (lvals K (out_log K (fst o')) ++ vals K (s_al K s'))) /\
  NoDup (map fst (s_al K s')).
Proof.
  intros fl s op Hnd.
  destruct op as [k v|k|k|a b| | | | |mx];
    try (match goal with |- context [s_step_a K keq fl s ?o] =>
           pose proof (s_step_vals K keq keq_spec s o Hnd) as H; unfold s_step_a; revert H;
           destruct (s_step K keq s o) as [s' o']; intro H; exact H end).
  - (* put *)
    unfold s_step_a, s_put_a. destruct (f_add fl).
    { simpl. split; [apply Permutation_refl | exact Hnd]. }
    pose proof (nodup_put_keys k v (s_al K s) Hnd) as Hnd1.
    set (old := match al_find k (s_al K s) with Some ov => (s_fkey K s k, ov) | None => (None, 0) end).
    assert (Hold : Permutation (nz (vals K (s_al K s))) (nz (snd old :: vals K (al_remove k (s_al K s))))).
    { pose proof (vals_remove K keq keq_spec k (s_al K s) Hnd) as H. unfold al_val in H. subst old.
      destruct (al_find k (s_al K s)); exact H. }
    destruct (s_max K s) as [mx|].
    + destruct (s_evict K keq (s_ikp K s) (S (length ((k, v) :: al_remove k (s_al K s))))
                  ((k, v) :: al_remove k (s_al K s)) (s_touch_a K keq fl s k) mx) as [[al' r'] lg] eqn:Hev.
      destruct (s_evict_vals K keq keq_spec _ _ _ _ _ _ _ _ Hnd1 Hev) as [HPe Hnde].
      cbn [s_al out_log fst snd ins_ok]. split; [|exact Hnde].
      change (nz ([v] ++ vals K (s_al K s))) with (nz (v :: vals K (s_al K s))).
      change (lvals K (old :: lg) ++ vals K al') with (snd old :: (lvals K lg ++ vals K al')).
      eapply perm_put_helper; [exact Hold | exact HPe].
    + cbn [s_al out_log fst snd ins_ok]. split; [|exact Hnd1].
      change (nz ([v] ++ vals K (s_al K s))) with (nz (v :: vals K (s_al K s))).
      change (lvals K [old] ++ vals K ((k, v) :: al_remove k (s_al K s)))
        with (snd old :: (v :: vals K (al_remove k (s_al K s)))).
      eapply perm_put_helper; [exact Hold | apply Permutation_refl].
  - (* get *)
    unfold s_step_a, s_get_a. destruct (al_find k (s_al K s)); cbn [s_al out_log fst snd ins_ok]; simpl;
      split; try apply Permutation_refl; exact Hnd.
  - (* rename *)
    unfold s_step_a, s_rename_a. destruct (al_find a (s_al K s)) as [v|] eqn:Hf.
    2:{ cbn [s_al out_log fst snd ins_ok]. simpl. split; [apply Permutation_refl | exact Hnd]. }
    set (al1 := al_remove a (s_al K s)).
    assert (Hnd1 : NoDup (map fst al1)) by (apply (al_remove_nodup K keq keq_spec); exact Hnd).
    pose proof (vals_remove K keq keq_spec a (s_al K s) Hnd) as H1. unfold al_val in H1. rewrite Hf in H1. fold al1 in H1.
    assert (Hz : forall l, nz (0 :: l) = nz l) by reflexivity.
    destruct (f_add fl).
    { cbn [s_al out_log fst snd ins_ok]. simpl app. split; [|exact Hnd1].
      change (lvals K [(s_fkey K s a, 0); (None, v)] ++ vals K al1) with (0 :: (v :: vals K al1)). rewrite Hz. exact H1. }
    cbn [s_al out_log fst snd ins_ok]. simpl app. split; [|apply nodup_put_keys; exact Hnd1].
    pose proof (vals_remove K keq keq_spec b al1 Hnd1) as H2. unfold al_val in H2.
    set (old := match al_find b al1 with Some ov => (s_fkey K s b, ov) | None => (None, 0) end).
    assert (H2' : Permutation (nz (vals K al1)) (nz (snd old :: vals K (al_remove b al1)))).
    { subst old. destruct (al_find b al1); exact H2. }
    eapply Permutation_trans; [exact H1|].
    change (lvals K [(s_fkey K s a, 0); old] ++ vals K ((b, v) :: al_remove b al1))
      with (0 :: (snd old :: (v :: vals K (al_remove b al1)))).
    rewrite Hz. eapply perm_put_helper; [exact H2' | apply Permutation_refl].
Qed.

Lemma s_run_a_vals : forall ops fls s, length fls = length ops -> NoDup (map fst (s_al K s)) ->
  Permutation (nz (puts_ok K ops (s_run_a K keq fls s ops) ++ vals K (s_al K s)))
              (nz (freed K (map fst (s_run_a K keq fls s ops)) ++ vals K (s_al K (s_exec_a K keq fls s ops)))).
Proof.
  induction ops as [|op t IH]; intros fls s Hlen Hnd; destruct fls as [|fl ft]; try discriminate; simpl; [apply Permutation_refl|].
  pose proof (s_step_a_vals fl s op Hnd) as Hst.
  destruct (s_step_a K keq fl s op) as [s' o'] eqn:Hs. destruct Hst as [HP Hnd']. simpl.
  specialize (IH ft s' ltac:(simpl in Hlen; lia) Hnd').
  fold (ins_ok op o'). rewrite <- !app_assoc. rewrite !nz_app in *.
  eapply Permutation_trans; [apply Permutation_app_swap_app|].
  eapply Permutation_trans; [apply Permutation_app_head; exact HP|].
  eapply Permutation_trans; [apply Permutation_app_swap_app|].
  apply Permutation_app_head. exact IH.
Qed.

Lemma puts_ok_equiv : forall ops outs outs', Forall2 (aout_equiv K) outs outs' -> puts_ok K ops outs = puts_ok K ops outs'.
Proof.
  induction ops as [|op t IH]; intros outs outs' H; [reflexivity|].
  destruct H as [|o o' ot ot' [_ Ho] H]; [reflexivity|]. simpl. rewrite Ho, (IH _ _ H). reflexivity.
Qed.

Lemma fst_equiv : forall outs outs', Forall2 (aout_equiv K) outs outs' -> Forall2 (out_equiv K) (map fst outs) (map fst outs').
Proof. intros outs outs' H. induction H as [|o o' t t' [Ho _] H IH]; simpl; constructor; assumption. Qed.

(* EVERY oracle, every call sequence, repaired code: the non-null values of the puts that answered rc = 0 are, as a
   multiset, the values reported to kv_free_fn plus the values still held (a failed put leaves its value with the caller,
   a rename that fails reports the value it took out). *)
Theorem af_freed_exactly_once : forall orc max ikp hist ops,
  let a0 := a_init K (hnew K max ikp) hist in
  let outs := a_run K keq hashf orc false a0 ops in
  Permutation (nz (puts_ok K ops outs))
    (nz (freed K (map fst outs) ++ map snd (hiter K (a_m K (a_exec K keq hashf orc false a0 ops))))).
Proof.
  intros orc max ikp hist ops a0 outs.
  destruct (af_refines K keq hashf keq_spec orc ops a0 (s_new K max ikp) (R_new K hashf max ikp) eq_refl)
    as [fls [Hlen [Hf [HR _]]]]. fold outs in Hf.
  pose proof (s_run_a_vals ops fls (s_new K max ikp) Hlen ltac:(constructor)) as Hs.
  simpl (vals K (s_al K (s_new K max ikp))) in Hs. rewrite app_nil_r in Hs.
  rewrite (puts_ok_equiv ops _ _ Hf).
  eapply Permutation_trans; [exact Hs|]. apply nz_perm. apply Permutation_app.
  - apply Permutation_sym. apply (freed_equiv K). apply fst_equiv. exact Hf.
  - destruct HR as [L [_ [HP _]]]. unfold vals, hiter. apply Permutation_map. apply Permutation_sym. exact HP.
Qed.

End AFown.

Lemma af_refines_new : forall (K : Type) (keq : K -> K -> bool) (hashf : K -> Z),
  (forall a b : K, keq a b = true <-> a = b) ->
  forall (orc : oracle) (max : option Z) (ikp : bool) (hist : list site) (ops : list (hop K)),
  exists fls : list aflag, length fls = length ops /\
    Forall2 (aout_equiv K) (a_run K keq hashf orc false (a_init K (hnew K max ikp) hist) ops)
                           (s_run_a K keq fls (s_new K max ikp) ops).
Proof.
  intros K keq hashf keq_spec orc max ikp hist ops.
  destruct (af_refines K keq hashf keq_spec orc ops (a_init K (hnew K max ikp) hist) (s_new K max ikp)
              (R_new K hashf max ikp) eq_refl) as [fls [H1 [H2 _]]].
  exists fls. split; assumption.
Qed.
