(* C18 - executable model of the sorted-array helpers of src/utils/iwarr.c
   (iwarr_sorted_insert / remove / find / find2): the binary-search loop with the same lb/ub/idx updates.
   Follows the code after fix c454a47 (find2 writes *found for an empty array).  No proofs here. *)
Require Import ZArith List Bool Lia.
Import ListNotations.
Local Open Scope Z_scope.

Section Sarr.
Variable A : Type.
Variable cmp : A -> A -> Z.      (* cmp(EL(idx), eptr) *)
Variable dflt : A.

Definition el (els : list A) (i : Z) : A := nth (Z.to_nat i) els dflt.

(* One loop shared by the four functions.  Result (idx, found): found -> cmp(EL idx, e) = 0;
   not found -> idx is where the loops of insert / find2 leave idx (idx = lb after going right). *)
Fixpoint bs_loop (fuel : nat) (els : list A) (e : A) (lb ub : Z) : Z * bool :=
  match fuel with
  | O => (lb, false)
  | S f =>
    let idx := Z.quot (ub + lb) 2 in
    let cr := cmp (el els idx) e in
    if cr =? 0 then (idx, true)
    else if cr <? 0 then
      let lb' := idx + 1 in
      if lb' >? ub then (lb', false) else bs_loop f els e lb' ub
    else
      let ub' := idx - 1 in
      if lb >? ub' then (idx, false) else bs_loop f els e lb ub'
  end.

Definition bsearch (els : list A) (e : A) : Z * bool :=
  bs_loop (S (length els)) els e 0 (Z.of_nat (length els) - 1).

Definition ins_at (els : list A) (i : Z) (e : A) : list A :=
  firstn (Z.to_nat i) els ++ e :: skipn (Z.to_nat i) els.
Definition del_at (els : list A) (i : Z) : list A :=
  firstn (Z.to_nat i) els ++ skipn (S (Z.to_nat i)) els.

(* iwarr_sorted_insert: new contents and returned index (-1: equal element present and skipeq) *)
Definition sorted_insert (els : list A) (e : A) (skipeq : bool) : list A * Z :=
  match els with
  | [] => ([e], 0)
  | _ =>
    let '(idx, found) := bsearch els e in
    if found && skipeq then (els, -1) else (ins_at els idx e, idx)
  end.

Definition sorted_remove (els : list A) (e : A) : list A * Z :=
  match els with
  | [] => (els, -1)
  | _ =>
    let '(idx, found) := bsearch els e in
    if found then (del_at els idx, idx) else (els, -1)
  end.

Definition sorted_find (els : list A) (e : A) : Z :=
  match els with
  | [] => -1
  | _ => let '(idx, found) := bsearch els e in if found then idx else -1
  end.

Definition sorted_find2 (els : list A) (e : A) : Z * bool :=
  match els with
  | [] => (0, false)
  | _ => bsearch els e
  end.
(* ---------------------------------------------------------------- call sequences on one array *)
Inductive sop := SIns (e : A) (skipeq : bool) | SRm (e : A) | SFind (e : A) | SFind2 (e : A).
Inductive sout := SOIdx (i : Z) | SOFind2 (i : Z) (f : bool).

Definition sa_step (els : list A) (op : sop) : list A * sout :=
  match op with
  | SIns e sk => let '(els', i) := sorted_insert els e sk in (els', SOIdx i)
  | SRm e => let '(els', i) := sorted_remove els e in (els', SOIdx i)
  | SFind e => (els, SOIdx (sorted_find els e))
  | SFind2 e => let '(i, f) := sorted_find2 els e in (els, SOFind2 i f)
  end.
Fixpoint sa_run (els : list A) (ops : list sop) : list sout :=
  match ops with [] => [] | op :: t => let '(els', o) := sa_step els op in o :: sa_run els' t end.
Definition sa_exec (els : list A) (ops : list sop) : list A := fold_left (fun s op => fst (sa_step s op)) ops els.

(* reference: the ascending list of the keys, with multiplicity *)
Variable key : A -> Z.
Fixpoint k_ins (k : Z) (s : list Z) : list Z :=
  match s with [] => [k] | x :: t => if k <=? x then k :: s else x :: k_ins k t end.
Fixpoint k_del (k : Z) (s : list Z) : list Z :=
  match s with [] => [] | x :: t => if k =? x then t else x :: k_del k t end.
Definition k_mem (k : Z) (s : list Z) : bool := existsb (Z.eqb k) s.
Definition k_step (s : list Z) (op : sop) : list Z :=
  match op with
  | SIns e sk => if sk && k_mem (key e) s then s else k_ins (key e) s
  | SRm e => k_del (key e) s
  | _ => s
  end.
Definition k_exec (s : list Z) (ops : list sop) : list Z := fold_left k_step ops s.
End Sarr.
