(* C18 - iwhmap.c under an allocator that can fail.
   The allocation oracle is a PARAMETER (compare os_limit of FS/Exf.v): `orc h` says whether the allocation call whose
   history of sites (newest first, the current call at the head) is h returns NULL.  Every allocation site of iwhmap.c
   asks the oracle in code order; with the oracle `nofail` every function below reduces to the function of Hmap.v
   (Hmap_af_proofs.v: *_nofail), so all theorems about Hmap.v stay as they are.
   The flag `code` selects the failure path of _rehash() and of iwhmap_rename().  The CURRENT code is code = false (fixes a8b271d and
   a22623c are committed; driver and default theorems use it); code = true is kept for the refutation theorems:
     code = true   the code BEFORE a8b271d / a22623c: `fail:` releases the entry arrays of the LIVE old buckets before the one being copied
                   (a_dang: their indices; any later access is h_fault, the release in clear/destroy a double free), the
                   arrays of the half-built table leak (a_leak); iwhmap_rename that cannot add key_new drops the value (a_lost);
     code = false  the code since a8b271d / a22623c (fixes/cont-hmap-rehash-fail.diff, fixes/cont-hmap-rename-fail.diff): the new table is
                   released, the map stays as it was; rename hands the value to kv_free_fn(0, val).
   No proofs here. *)
Require Import ZArith List Bool Lia.
Require Import IW.Gen.Facts IW.UT.Hmap.
Import ListNotations.
Local Open Scope Z_scope.

(* allocation sites of iwhmap.c *)
Inductive site :=
  | SCreateHm   (* iwhmap_create: malloc of the map struct *)
  | SCreateBk   (* iwhmap_create: calloc(MIN_BUCKETS, ..) *)
  | SAdd        (* _entry_add called by iwhmap_put / iwhmap_rename: realloc of the bucket's entries *)
  | SReadd      (* _entry_add called by _rehash on the new table *)
  | SRehash     (* _rehash: calloc(num_buckets, ..) *)
  | SNode       (* _lru_entry_update: malloc of the node *)
  | SShrink     (* _entry_remove: realloc that gives back steps *)
  | SClear      (* iwhmap_clear: realloc to MIN_BUCKETS *)
  | SStrdup.    (* iwhmap_put_str: strdup(key) *)

Definition oracle := list site -> bool.
Definition nofail : oracle := fun _ => false.

Section HmapAF.
Variable K : Type.
Variable keq : K -> K -> bool.
Variable hashf : K -> Z.
Variable orc : oracle.
Variable code : bool.

Notation hmap := (hmap K).
Notation bucket := (bucket K).
Notation entry := (entry K).

Record amap := mkA {
  a_m : hmap;
  a_hist : list site;      (* allocation calls so far, newest first *)
  a_dang : list nat;       (* buckets of the live table whose entry array was released by the fail path of _rehash *)
  a_leak : Z;              (* entry arrays that nobody can release any more *)
  a_lost : list Z }.       (* values dropped without kv_free_fn *)

Definition a_init (m : hmap) (h : list site) : amap := mkA m h [] 0 [].
Definition with_m (a : amap) (m : hmap) : amap := mkA m (a_hist a) (a_dang a) (a_leak a) (a_lost a).

Definition ask (a : amap) (s : site) : bool * amap :=
  let h := s :: a_hist a in (orc h, mkA (a_m a) h (a_dang a) (a_leak a) (a_lost a)).

Definition afault (a : amap) : amap := with_m a (set_fault K (a_m a)).
(* an access to the entry array of bucket bi *)
Definition touch (a : amap) (bi : nat) : amap := if existsb (Nat.eqb bi) (a_dang a) then afault a else a.

(* _entry_add: `if (bucket->used + 1 >= bucket->total)` -> realloc *)
Definition needs_grow (bs : list bucket) (mask h : Z) : bool :=
  let b := bkt K bs (bidx mask h) in b_used K b + 1 >=? b_total K b.

Definition entry_add_f (a : amap) (bs : list bucket) (mask : Z) (k : K) (h : Z) (s : site)
  : amap * option (list bucket * nat * nat * bool) :=
  if needs_grow bs mask h then
    let '(f, a1) := ask a s in
    if f then (a1, None) else (a1, Some (entry_add K keq bs mask k h))
  else (a, Some (entry_add K keq bs mask k h)).

(* _rehash, the copy loop: entries of one old bucket, then bucket after bucket; the nat is the index of the old bucket
   that was being copied when _entry_add failed *)
Definition readd_one (a : amap) (bs : list bucket) (mask : Z) (e : entry) : amap * list bucket * bool :=
  if needs_grow bs mask (e_hash K e) then
    let '(f, a1) := ask a SReadd in
    if f then (a1, bs, false) else (a1, rehash_step K keq mask bs e, true)
  else (a, rehash_step K keq mask bs e, true).

Fixpoint readd_ents (mask : Z) (es : list entry) (a : amap) (bs : list bucket) : amap * list bucket * bool :=
  match es with
  | [] => (a, bs, true)
  | e :: t =>
    let '(a1, bs1, ok) := readd_one a bs mask e in
    if ok then readd_ents mask t a1 bs1 else (a1, bs1, false)
  end.

Fixpoint readd_bkts (mask : Z) (i : nat) (old : list bucket) (a : amap) (bs : list bucket)
  : amap * list bucket * bool * nat :=
  match old with
  | [] => (a, bs, true, i)
  | b :: t =>
    let '(a1, bs1, ok) := readd_ents mask (b_ents K b) a bs in
    if ok then readd_bkts mask (S i) t a1 bs1 else (a1, bs1, false, i)
  end.

(* `for (bucket_end = bucket, bucket = hm->buckets; bucket < bucket_end; ++bucket) free(bucket->entries);`
   free(0) is harmless: only buckets that own an array (total > 0) are left dangling *)
Definition dangling (j : nat) (bs : list bucket) : list nat :=
  filter (fun i => 0 <? b_total K (bkt K bs i)) (seq 0 j).
Definition arrays (bs : list bucket) : Z :=
  Z.of_nat (length (filter (fun b => 0 <? b_total K b) bs)).

Definition rehash_f (a : amap) (num : Z) : amap :=
  let m := a_m a in
  let '(f, a1) := ask a SRehash in
  if f then a1                                           (* calloc failed: `return;` *)
  else
    let '(a2, bs, ok, j) := readd_bkts (num - 1) 0 (h_bkts K m) a1 (repeat (bempty K) (Z.to_nat num)) in
    if ok then with_m a2 (with_mask K (with_bkts K m bs) (num - 1))
    else if code
      then mkA m (a_hist a2) (a_dang a2 ++ dangling j (h_bkts K m)) (a_leak a2 + arrays bs) (a_lost a2)
      else a2.                                           (* the new table is released, hm untouched *)

(* _lru_entry_update: malloc only for an entry without node; on failure nothing happens *)
Definition lru_update_f (a : amap) (bi ei : nat) : amap :=
  let m := a_m a in
  match nth_error (b_ents K (bkt K (h_bkts K m) bi)) ei with
  | Some e =>
    match e_lru K e with
    | Some _ => with_m a (lru_update K m bi ei)
    | None => let '(f, a1) := ask a SNode in if f then a1 else with_m a1 (lru_update K m bi ei)
    end
  | None => with_m a (lru_update K m bi ei)
  end.

(* _entry_remove: as Hmap.entry_remove, the shrinking rehash and the step realloc can fail *)
Definition entry_remove_f (a : amap) (bi ei : nat) : amap :=
  let m := a_m a in
  let b := bkt K (h_bkts K m) bi in
  match nth_error (b_ents K b) ei with
  | None => afault a
  | Some e =>
    let m1 := match e_lru K e with Some n => lru_remove K m n | None => m end in
    let m2 := add_log K m1 (fkey K m (e_key K e), e_val K e) in
    let es := b_ents K b in
    let used := length es in
    let es1 := if (1 <? used)%nat
               then (if Nat.eqb ei (used - 1) then es else set_nth ei (last es e) es)
               else es in
    let es2 := removelast es1 in
    let m3 := with_count K (with_bkts K m2 (set_nth bi (mkB K es2 (b_total K b)) (h_bkts K m2))) (h_count K m2 - 1) in
    if (h_mask K m3 >? CONT_MIN_BUCKETS - 1) && (h_count K m3 <? h_mask K m3 / 2)
    then rehash_f (with_m a m3) ((h_mask K m3 + 1) / 2)
    else
      let steps_used := Z.of_nat (length es2) / CONT_STEPS in
      let steps_total := b_total K b / CONT_STEPS in
      if steps_used + 1 <? steps_total
      then let '(f, a1) := ask (with_m a m3) SShrink in
           if f then a1
           else with_m a1 (with_bkts K m3 (set_nth bi (mkB K es2 ((steps_used + 1) * CONT_STEPS)) (h_bkts K m3)))
      else with_m a m3
  end.

Fixpoint evict_f (fuel : nat) (a : amap) : amap :=
  match fuel with
  | O => a
  | S f =>
    let m := a_m a in
    match h_first K m, h_max K m with
    | Some n, Some mx =>
      if hevmax K m mx then
        match hget K (h_heap K m) n with
        | None => afault a
        | Some x =>
          let k := n_key K x in
          let h := hashf k in
          let bi := bidx (h_mask K m) h in
          let a0 := touch a bi in
          match find_in K keq k h (b_ents K (bkt K (h_bkts K m) bi)) with
          | None => afault a0
          | Some ei => evict_f f (entry_remove_f a0 bi ei)
          end
        end
      else a
    | _, _ => a
    end
  end.

Definition fill_slot_f (a : amap) (bs : list bucket) (bi ei : nat) (isnew : bool) (k : K) (v : Z) : amap :=
  let m := a_m a in
  let old := match nth_error (b_ents K (bkt K bs bi)) ei with
             | Some e => if isnew then (None, 0) else (fkey K m (e_key K e), e_val K e)
             | None => (None, 0)
             end in
  let m1 := add_log K (with_count K (with_bkts K m bs) (if isnew then h_count K m + 1 else h_count K m)) old in
  let m2 := with_bkts K m1 (upd_entry K (h_bkts K m1) bi ei (fun x => mkE K k v (e_lru K x) (e_hash K x))) in
  if lru_on K m2 then lru_update_f (with_m a m2) bi ei else with_m a m2.

(* iwhmap_put; the bool is rc == 0.  A failed _entry_add returns before anything is changed. *)
Definition hput_f (a : amap) (k : K) (v : Z) : amap * bool :=
  let m := a_m a in
  let h := hashf k in
  let a0 := touch a (bidx (h_mask K m) h) in
  let '(a1, r) := entry_add_f a0 (h_bkts K m) (h_mask K m) k h SAdd in
  match r with
  | None => (a1, false)
  | Some (bs, bi, ei, isnew) =>
    let a2 := fill_slot_f a1 bs bi ei isnew k v in
    let m2 := a_m a2 in
    let a3 := if h_count K m2 >? h_mask K m2 then rehash_f a2 ((h_mask K m2 + 1) * 2) else a2 in
    (evict_f (S (Z.to_nat (h_count K (a_m a3)))) a3, true)
  end.

(* iwhmap_put_str: strdup first; when iwhmap_put fails the copy is released again by put_str itself *)
Definition hput_str_f (a : amap) (k : K) (v : Z) : amap * bool :=
  let '(f, a1) := ask a SStrdup in
  if f then (a1, false) else hput_f a1 k v.

Definition hget_f (a : amap) (k : K) : amap * Z :=
  let m := a_m a in
  let h := hashf k in
  let bi := bidx (h_mask K m) h in
  let a0 := touch a bi in
  match find_in K keq k h (b_ents K (bkt K (h_bkts K m) bi)) with
  | Some ei =>
    let v := match nth_error (b_ents K (bkt K (h_bkts K m) bi)) ei with Some e => e_val K e | None => 0 end in
    ((if lru_on K m then lru_update_f a0 bi ei else a0), v)
  | None => (a0, 0)
  end.

Definition hremove_f (a : amap) (k : K) : amap * bool :=
  let m := a_m a in
  let h := hashf k in
  let bi := bidx (h_mask K m) h in
  let a0 := touch a bi in
  match find_in K keq k h (b_ents K (bkt K (h_bkts K m) bi)) with
  | Some ei => (entry_remove_f a0 bi ei, true)
  | None => (a0, false)
  end.

(* iwhmap_rename; the bool is rc == 0.  When _entry_add(key_new) fails the old entry is already gone:
   the old code (flag code = true) forgot `val`, the code since a22623c reports it to kv_free_fn(0, val). *)
Definition hrename_f (a : amap) (kold knew : K) : amap * bool :=
  let m := a_m a in
  let h := hashf kold in
  let bi := bidx (h_mask K m) h in
  let a0 := touch a bi in
  match find_in K keq kold h (b_ents K (bkt K (h_bkts K m) bi)) with
  | Some ei =>
    let v := match nth_error (b_ents K (bkt K (h_bkts K m) bi)) ei with Some e => e_val K e | None => 0 end in
    let m1 := with_bkts K m (upd_entry K (h_bkts K m) bi ei (fun x => mkE K (e_key K x) 0 (e_lru K x) (e_hash K x))) in
    let a2 := entry_remove_f (with_m a0 m1) bi ei in
    let m2 := a_m a2 in
    let h2 := hashf knew in
    let a2' := touch a2 (bidx (h_mask K m2) h2) in
    let '(a3, r) := entry_add_f a2' (h_bkts K m2) (h_mask K m2) knew h2 SAdd in
    match r with
    | None =>
      if code then (mkA (a_m a3) (a_hist a3) (a_dang a3) (a_leak a3) (a_lost a3 ++ [v]), false)
      else (with_m a3 (add_log K (a_m a3) (None, v)), false)
    | Some (bs, bi2, ei2, isnew) => (fill_slot_f a3 bs bi2 ei2 isnew knew v, true)
    end
  | None => (a0, true)
  end.

(* iwhmap_clear: every entry array is released (a dangling one for the second time), the realloc down to MIN_BUCKETS may
   fail: the large zeroed array stays *)
Definition hclear_f (a : amap) : amap :=
  let a0 := match a_dang a with [] => a | _ => afault a end in
  let m := a_m a0 in
  let m1 := log_all K m in
  let big := h_mask K m1 + 1 >? CONT_MIN_BUCKETS in
  let '(f, a1) := if big then ask a0 SClear else (true, a0) in
  let shrink := big && negb f in
  let nb := if shrink then Z.to_nat CONT_MIN_BUCKETS else length (h_bkts K m1) in
  let m2 := with_mask K (with_bkts K m1 (repeat (bempty K) nb)) (if shrink then CONT_MIN_BUCKETS - 1 else h_mask K m1) in
  let m3 := free_chain K (S (length (h_heap K m2))) m2 (h_first K m2) in
  mkA (with_count K (with_last K (with_first K m3 None) None) 0) (a_hist a1) [] (a_leak a1) (a_lost a1).

Definition hdestroy_f (a : amap) : amap :=
  let a0 := match a_dang a with [] => a | _ => afault a end in
  mkA (hdestroy K (a_m a0)) (a_hist a0) [] (a_leak a0) (a_lost a0).

(* iwhmap_create under the oracle: history in, history out *)
Definition hcreate_f (hist : list site) (has_hash_fn : bool) (max : option Z) (ikp : bool) : list site * option amap :=
  if has_hash_fn then
    let h1 := SCreateHm :: hist in
    if orc h1 then (h1, None)
    else let h2 := SCreateBk :: h1 in
         if orc h2 then (h2, None) else (h2, Some (a_init (hnew K max ikp) h2))
  else (hist, None).

(* ---------------------------------------------------------------- call sequences *)
(* the answer of a call: what Hmap.h_step answers, and rc == 0 *)
Definition a_step (a0 : amap) (op : hop K) : amap * (hout K * bool) :=
  let a := with_m a0 (clear_log K (a_m a0)) in
  let cnt (x : amap) := h_count K (a_m x) in
  let lg (x : amap) := h_log K (a_m x) in
  match op with
  | HPut _ k v => let '(a', ok) := hput_f a k v in (a', (OPut K (cnt a') (lg a'), ok))
  | HGet _ k => let '(a', v) := hget_f a k in (a', (OGet K v (cnt a') (lg a'), true))
  | HRemove _ k => let '(a', b) := hremove_f a k in (a', (ORemove K b (cnt a') (lg a'), true))
  | HRename _ x y => let '(a', ok) := hrename_f a x y in (a', (ORename K (cnt a') (lg a'), ok))
  | HClear _ => let a' := hclear_f a in (a', (OClear K (cnt a') (lg a'), true))
  | HCount _ => (a, (OCount K (cnt a), true))
  | HIter _ => (a, (OIter K (hiter K (a_m a)), true))
  | HLru _ => (a, (let '(ks, ok) := hlru K (a_m a) in OLru K ks ok, true))
  | HLruInit _ mx => (with_m a (hlruinit K (a_m a) mx), (OLruInit K, true))
  end.

Fixpoint a_run (a : amap) (ops : list (hop K)) : list (hout K * bool) :=
  match ops with [] => [] | op :: t => let '(a', o) := a_step a op in o :: a_run a' t end.
Fixpoint a_exec (a : amap) (ops : list (hop K)) : amap :=
  match ops with [] => a | op :: t => a_exec (fst (a_step a op)) t end.

End HmapAF.

(* ---------------------------------------------------------------- specification: what a caller can observe of a failure *)
(* f_add: the call's own _entry_add failed (iwhmap_put / iwhmap_rename answer rc != 0);
   f_node: the LRU node of the touched entry could not be allocated (the key stays out of the recency list).
   Failures of _rehash, of the step realloc and of the realloc of iwhmap_clear are invisible at this level. *)
Record aflag := mkF { f_add : bool; f_node : bool }.

Section SpecAF.
Variable K : Type.
Variable keq : K -> K -> bool.

Definition s_touch_a (fl : aflag) (s : smap K) (k : K) : list K :=
  if f_node fl then rec_remove K keq k (s_rec K s) else rec_touch K keq s k.

Definition s_put_a (fl : aflag) (s : smap K) (k : K) (v : Z) : smap K * flog K * bool :=
  if f_add fl then (s, [], false)       (* nothing changes, key and value stay with the caller *)
  else
    let old := match al_find K keq k (s_al K s) with Some ov => (s_fkey K s k, ov) | None => (None, 0) end in
    let al := (k, v) :: al_remove K keq k (s_al K s) in
    let r := s_touch_a fl s k in
    match s_max K s with
    | Some mx =>
      let '(al', r', lg) := s_evict K keq (s_ikp K s) (S (length al)) al r mx in
      (mkS K al' r' (s_max K s) (s_ikp K s), old :: lg, true)
    | None => (mkS K al r (s_max K s) (s_ikp K s), [old], true)
    end.

Definition s_get_a (fl : aflag) (s : smap K) (k : K) : smap K * Z :=
  match al_find K keq k (s_al K s) with
  | Some v => (mkS K (s_al K s) (s_touch_a fl s k) (s_max K s) (s_ikp K s), v)
  | None => (s, 0)
  end.

(* a rename whose _entry_add fails has removed key_old already: the value goes to kv_free_fn(0, val) *)
Definition s_rename_a (fl : aflag) (s : smap K) (kold knew : K) : smap K * flog K * bool :=
  match al_find K keq kold (s_al K s) with
  | Some v =>
    let al1 := al_remove K keq kold (s_al K s) in
    if f_add fl then
      (mkS K al1 (rec_remove K keq kold (s_rec K s)) (s_max K s) (s_ikp K s), [(s_fkey K s kold, 0); (None, v)], false)
    else
      let old := match al_find K keq knew al1 with Some ov => (s_fkey K s knew, ov) | None => (None, 0) end in
      let al := (knew, v) :: al_remove K keq knew al1 in
      let r0 := rec_remove K keq knew (rec_remove K keq kold (s_rec K s)) in
      let r := if lru_is_on K s then (if f_node fl then r0 else r0 ++ [knew]) else s_rec K s in
      (mkS K al r (s_max K s) (s_ikp K s), [(s_fkey K s kold, 0); old], true)
  | None => (s, [], true)
  end.

Definition s_step_a (fl : aflag) (s : smap K) (op : hop K) : smap K * (hout K * bool) :=
  let n (s' : smap K) := Z.of_nat (length (s_al K s')) in
  match op with
  | HPut _ k v => let '(s', lg, ok) := s_put_a fl s k v in (s', (OPut K (n s') lg, ok))
  | HGet _ k => let '(s', v) := s_get_a fl s k in (s', (OGet K v (n s') [], true))
  | HRename _ a b => let '(s', lg, ok) := s_rename_a fl s a b in (s', (ORename K (n s') lg, ok))
  | _ => let '(s', o) := s_step K keq s op in (s', (o, true))
  end.

(* the values that really entered the map: a put that answered rc != 0 left its value with the caller *)
Fixpoint puts_ok (ops : list (hop K)) (outs : list (hout K * bool)) : list Z :=
  match ops, outs with
  | op :: t, o :: ot => (match op with HPut _ _ v => if snd o then [v] else [] | _ => [] end) ++ puts_ok t ot
  | _, _ => []
  end.

Fixpoint s_run_a (fls : list aflag) (s : smap K) (ops : list (hop K)) : list (hout K * bool) :=
  match ops, fls with
  | op :: t, fl :: ft => let '(s', o) := s_step_a fl s op in o :: s_run_a ft s' t
  | _, _ => []
  end.
Fixpoint s_exec_a (fls : list aflag) (s : smap K) (ops : list (hop K)) : smap K :=
  match ops, fls with
  | op :: t, fl :: ft => s_exec_a ft (fst (s_step_a fl s op)) t
  | _, _ => s
  end.
End SpecAF.
