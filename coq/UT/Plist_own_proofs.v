(* C18 - ownership of the pointer list iwlist: the list mallocs a copy of every item stored; pop / shift / remove hand the
   block to the caller; set rewrites the block in place; destroy frees the live slots.  Over EVERY call sequence: what was
   stored = what was handed out + what was overwritten in place + what destroy frees, and destroy frees exactly the live
   slots (never a stale slot left behind by pop / shift / remove / compaction). *)
Require Import ZArith List Bool Lia Arith Permutation.
Require Import IW.UT.Plist IW.UT.Plist_proofs IW.UT.ListSort_proofs.
Import ListNotations.

Definition ref_handed_step (l : list (list Z)) (op : plop) : list (list Z) :=
  match op with
  | PLPop => match l with [] => [] | _ :: _ => [last l []] end
  | PLShift => match l with [] => [] | x :: _ => [x] end
  | PLRemove i => if (length l <=? i) then [] else [nth i l []]
  | _ => []
  end.

Lemma handed_of_list_step : forall l op, pl_handed op (snd (list_step l op)) = ref_handed_step l op.
Proof.
  intros l op. destruct op as [d | d | | | i d | i d | i | i | |]; cbn [list_step pl_handed ref_handed_step snd]; try reflexivity.
  - destruct l; reflexivity.
  - destruct l; reflexivity.
  - destruct (length l <=? i); reflexivity.
Qed.

Lemma split_nth : forall (l : list (list Z)) i, i < length l -> l = firstn i l ++ nth i l [] :: skipn (S i) l.
Proof.
  induction l as [| a t IH]; intros i Hi; [cbn in Hi; lia |].
  destruct i as [| i]; [reflexivity |]. cbn [firstn nth skipn app]. f_equal. apply IH. cbn in Hi. lia.
Qed.

(* a small solver for permutations of concatenations of opaque lists *)
Section PermTac.
Variable A : Type.
Implicit Types a r x : list A.
Lemma perm_nil_ends : forall l r : list A, Permutation (l ++ []) (r ++ []) -> Permutation l r.
Proof. intros l r H. rewrite !app_nil_r in H. exact H. Qed.
Lemma pull1 : forall a r x1 r', Permutation r (x1 ++ r') -> Permutation (a ++ r) (x1 ++ a ++ r').
Proof. intros. eapply Permutation_trans; [apply Permutation_app_head; eassumption |]. apply Permutation_app_swap_app. Qed.
Lemma pull2 : forall a r x1 x2 r', Permutation r (x1 ++ x2 ++ r') -> Permutation (a ++ r) (x1 ++ x2 ++ a ++ r').
Proof.
  intros a r x1 x2 r' H. rewrite (app_assoc x1 x2 (a ++ r')). apply pull1. rewrite <- app_assoc. exact H.
Qed.
Lemma pull3 : forall a r x1 x2 x3 r', Permutation r (x1 ++ x2 ++ x3 ++ r') -> Permutation (a ++ r) (x1 ++ x2 ++ x3 ++ a ++ r').
Proof.
  intros a r x1 x2 x3 r' H. rewrite (app_assoc x1 x2 (x3 ++ a ++ r')). apply pull2. rewrite <- app_assoc. exact H.
Qed.
Lemma pull4 : forall a r x1 x2 x3 x4 r', Permutation r (x1 ++ x2 ++ x3 ++ x4 ++ r') ->
  Permutation (a ++ r) (x1 ++ x2 ++ x3 ++ x4 ++ a ++ r').
Proof.
  intros a r x1 x2 x3 x4 r' H. rewrite (app_assoc x1 x2 (x3 ++ x4 ++ a ++ r')). apply pull3. rewrite <- app_assoc. exact H.
Qed.
Lemma pull5 : forall a r x1 x2 x3 x4 x5 r', Permutation r (x1 ++ x2 ++ x3 ++ x4 ++ x5 ++ r') ->
  Permutation (a ++ r) (x1 ++ x2 ++ x3 ++ x4 ++ x5 ++ a ++ r').
Proof.
  intros a r x1 x2 x3 x4 x5 r' H. rewrite (app_assoc x1 x2 (x3 ++ x4 ++ x5 ++ a ++ r')). apply pull4. rewrite <- app_assoc. exact H.
Qed.
End PermTac.
Ltac perm_apps :=
  apply perm_nil_ends; rewrite <- ?app_assoc;
  repeat first [ apply Permutation_refl | apply Permutation_app_head | apply pull1 | apply pull2 | apply pull3
               | apply pull4 | apply pull5 ].

Lemma swap_ends : forall (x d : list Z) r, Permutation (x :: r ++ [d]) (d :: r ++ [x]).
Proof.
  intros x d r.
  apply Permutation_trans with (x :: d :: r); [apply perm_skip; apply Permutation_sym; apply Permutation_cons_append |].
  apply Permutation_trans with (d :: x :: r); [apply perm_swap |].
  apply perm_skip. apply Permutation_cons_append.
Qed.

(* one call on the reference list: items before + stored = items after + handed out + overwritten *)
Lemma step_conserve : forall l op,
  Permutation (l ++ pl_stored_step l op)
              (fst (list_step l op) ++ ref_handed_step l op ++ pl_overwritten_step l op).
Proof.
  intros l op. destruct op as [d | d | | | i d | i d | i | i | |];
    cbn [list_step pl_stored_step ref_handed_step pl_overwritten_step fst app].
  - rewrite !app_nil_r. apply Permutation_refl.
  - rewrite !app_nil_r. apply Permutation_sym. apply Permutation_cons_append.
  - destruct l as [| a t]; [apply Permutation_refl |].
    cbn [fst]. rewrite !app_nil_r.
    rewrite <- (app_removelast_last []) by discriminate. apply Permutation_refl.
  - destruct l as [| a t]; [apply Permutation_refl |]. cbn [fst]. rewrite !app_nil_r.
    apply Permutation_cons_append.
  - destruct (length l <? i) eqn:E; cbn [fst]; rewrite ?app_nil_r; [apply Permutation_refl |].
    unfold pll_insert. rewrite <- (firstn_skipn i l) at 1. rewrite <- app_assoc.
    apply Permutation_app_head. apply Permutation_sym. apply Permutation_cons_append.
  - destruct (length l <=? i) eqn:E; cbn [fst]; rewrite ?app_nil_r; [apply Permutation_refl |].
    apply Nat.leb_gt in E. unfold pll_set.
    rewrite (split_nth l i E) at 1. rewrite <- !app_assoc. cbn [app].
    apply Permutation_app_head.
    apply swap_ends.
  - destruct (length l <=? i) eqn:E; cbn [fst]; rewrite ?app_nil_r; [apply Permutation_refl |].
    apply Nat.leb_gt in E. unfold pll_remove.
    rewrite (split_nth l i E) at 1. rewrite <- app_assoc.
    apply Permutation_app_head. cbn [app]. apply Permutation_cons_append.
  - destruct (length l <=? i); cbn [fst]; rewrite !app_nil_r; apply Permutation_refl.
  - rewrite !app_nil_r. apply Permutation_refl.
  - rewrite !app_nil_r. apply Permutation_sym. apply (proj1 (proj2 (pl_sort_items_correct l))).
Qed.

Fixpoint ref_handed_run (l : list (list Z)) (ops : list plop) : list (list Z) :=
  match ops with [] => [] | op :: t => ref_handed_step l op ++ ref_handed_run (fst (list_step l op)) t end.

Lemma run_conserve : forall ops l,
  Permutation (l ++ pl_stored_run l ops)
              (list_exec l ops ++ ref_handed_run l ops ++ pl_overwritten_run l ops).
Proof.
  induction ops as [| op t IH]; intros l.
  - cbn. rewrite !app_nil_r. apply Permutation_refl.
  - cbn [pl_stored_run list_exec ref_handed_run pl_overwritten_run].
    set (l' := fst (list_step l op)).
    rewrite app_assoc.
    eapply Permutation_trans; [apply Permutation_app_tail; apply step_conserve |]. fold l'.
    (* (l' ++ h ++ o) ++ stored' ~ exec ++ (h ++ handed') ++ (o ++ over') *)
    assert (H := IH l').
    set (h := ref_handed_step l op) in *. set (o := pl_overwritten_step l op) in *.
    set (S' := pl_stored_run l' t) in *. set (H' := ref_handed_run l' t) in *. set (O' := pl_overwritten_run l' t) in *.
    set (E := list_exec l' t) in *.
    apply Permutation_trans with ((h ++ o) ++ (l' ++ S')); [clear H; perm_apps |].
    apply Permutation_trans with ((h ++ o) ++ (E ++ H' ++ O')); [apply Permutation_app_head; exact H |].
    clear H. perm_apps.
Qed.

(* what the MODEL hands out along a run is what the reference hands out *)
Lemma handed_run_ref : forall ops l, pl_handed_run ops (list_run l ops) = ref_handed_run l ops.
Proof.
  induction ops as [| op t IH]; intros l; [reflexivity |].
  cbn [list_run]. destruct (list_step l op) as [l' o] eqn:E.
  unfold pl_handed_run. cbn [combine flat_map fst snd ref_handed_run].
  assert (Ho : o = snd (list_step l op)) by (rewrite E; reflexivity).
  assert (Hl : l' = fst (list_step l op)) by (rewrite E; reflexivity).
  rewrite Ho, handed_of_list_step. f_equal. rewrite <- Hl. apply IH.
Qed.

Lemma pl_destroy_rep : forall l items, rep l items -> pl_destroy l = map (@Some (list Z)) items.
Proof.
  intros l items [Hlen [Hbnd [Hpos [Hil Hat]]]].
  apply nth_ext with (d := None) (d' := None).
  - unfold pl_destroy. rewrite map_length, s_slice_length by lia. lia.
  - intros i Hi. unfold pl_destroy in *. rewrite s_slice_length in Hi by lia.
    change (nth i (s_slice (pl_arr l) (pl_start l) (pl_num l)) None) with (s_at (s_slice (pl_arr l) (pl_start l) (pl_num l)) i).
    rewrite s_at_slice by exact Hi.
    change (nth i (map (@Some (list Z)) items) None) with (s_at (map (@Some (list Z)) items) i).
    rewrite s_at_map_some by lia.
    rewrite Hat by lia. f_equal. f_equal. lia.
Qed.

(* ---------------------------------------------------------------- the statements *)
(* iwlist_destroy after ANY call sequence frees exactly the items the reference list holds, in order: every live block once,
   no slot outside start .. start+num-1 (the stale pointers pop / shift / remove / the compaction leave behind are never freed) *)
Theorem plist_destroy_frees_live : forall an ops,
  pl_destroy (pl_exec (pl_init an) ops) = map (@Some (list Z)) (list_exec [] ops).
Proof.
  intros an ops. apply pl_destroy_rep. apply exec_rep. apply init_rep.
Qed.

(* conservation: every byte string stored by a successful push / unshift / insert / set is, at the end, exactly one of:
   handed to the caller by pop / shift / remove (as the model answered), overwritten in place by a later set, or freed by destroy *)
Theorem plist_ownership : forall an ops,
  Permutation (pl_stored_run [] ops)
    (pl_handed_run ops (pl_run (pl_init an) ops) ++ pl_overwritten_run [] ops ++
     map slot_bytes (pl_destroy (pl_exec (pl_init an) ops))).
Proof.
  intros an ops.
  rewrite plist_destroy_frees_live, plist_refines_list, handed_run_ref.
  rewrite map_map. cbn [slot_bytes]. rewrite map_id.
  assert (H := run_conserve ops []). cbn [app] in H.
  eapply Permutation_trans; [exact H |].
  eapply Permutation_trans; [apply Permutation_app_comm |]. rewrite <- app_assoc. apply Permutation_refl.
Qed.

(* with pairwise distinct byte strings (the directed scripts use unique items) the multiset statement is about blocks:
   no block leaves the list twice, and nothing handed to the caller is still in the list when it is destroyed *)
Theorem plist_released_once : forall an ops, NoDup (pl_stored_run [] ops) ->
  NoDup (pl_handed_run ops (pl_run (pl_init an) ops) ++ pl_overwritten_run [] ops ++
         map slot_bytes (pl_destroy (pl_exec (pl_init an) ops))).
Proof.
  intros an ops Hnd. eapply Permutation_NoDup; [apply plist_ownership | exact Hnd].
Qed.
