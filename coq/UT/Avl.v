(* Executable model of the intrusive AVL tree of src/utils/iwavl.c + iwavl.h
   (Eric Biggers' avl_tree).  Model only - all proofs are in Avl_proofs.v.

   A node stores its balance factor bf = height(right) - height(left) in
   {-1,0,+1} (low two bits of parent_balance).  Parent pointers are not
   modelled: the bottom-up retracing loops of iwavl_rebalance_after_insert and
   iwavl_remove become the unwinding of a structural recursion that returns a
   "height changed" flag (true = continue up the tree, false = done).

   `sign` of the C templates is specialised: functions with suffix _l handle
   the event in the LEFT subtree, _r in the RIGHT subtree. *)
Require Import ZArith List Bool Lia.
Import ListNotations.
Local Open Scope Z_scope.

Inductive tree :=
| Leaf
| Node (l : tree) (k : Z) (bf : Z) (r : tree).

(* ---- avl_rotate: pointers only; the callers then adjust the balance
        factors of A and B (avl_adjust_balance_factor) by da and db ---- *)

(* avl_rotate(A, sign > 0): clockwise; B = A.left, E = B.right *)
Definition av_rot_right (a : tree) (da db : Z) : tree :=
  match a with
  | Node (Node d bk bb e) ak ab c => Node d bk (bb + db) (Node e ak (ab + da) c)
  | _ => a
  end.

(* avl_rotate(A, sign < 0): counterclockwise; B = A.right, E = B.left *)
Definition av_rot_left (a : tree) (da db : Z) : tree :=
  match a with
  | Node c ak ab (Node e bk bb d) => Node (Node c ak (ab + da) e) bk (bb + db) d
  | _ => a
  end.

(* avl_do_double_rotate(B, A, sign > 0): B = A.left, E = B.right, F = E.left, G = E.right
     A.left = G,  bf(A) = (e >= 0) ? 0 : -e
     B.right = F, bf(B) = (e <= 0) ? 0 : -e
     E.right = A, E.left = B, bf(E) = 0 *)
Definition av_drot_right (a : tree) : tree :=
  match a with
  | Node (Node d bk bb (Node f ek e g)) ak ab c =>
      Node (Node d bk (if e <=? 0 then 0 else - e) f) ek 0
           (Node g ak (if e >=? 0 then 0 else - e) c)
  | _ => a
  end.

(* avl_do_double_rotate(B, A, sign < 0): B = A.right, E = B.left, F = E.right, G = E.left
     A.right = G, bf(A) = (-e >= 0) ? 0 : -e
     B.left = F,  bf(B) = (-e <= 0) ? 0 : -e
     E.left = A, E.right = B, bf(E) = 0 *)
Definition av_drot_left (a : tree) : tree :=
  match a with
  | Node c ak ab (Node (Node g ek e f) bk bb d) =>
      Node (Node c ak (if - e >=? 0 then 0 else - e) g) ek 0
           (Node f bk (if - e <=? 0 then 0 else - e) d)
  | _ => a
  end.

Definition av_bf (t : tree) : Z :=
  match t with Leaf => 0 | Node _ _ bf _ => bf end.

(* ---- avl_handle_subtree_growth(node, parent, sign) ----
   the parent is Node l k bf r where the child on side `sign` has already been
   replaced by the grown subtree.  Result: (new subtree, still growing?)
   (C returns `done` = negation of the flag). *)

(* sign = -1: node = left child *)
Definition av_grow_l (l : tree) (k bf : Z) (r : tree) : tree * bool :=
  if bf =? 0 then (Node l k (bf + -1) r, true)
  else if bf + -1 =? 0 then (Node l k (bf + -1) r, false)
  else if -1 * av_bf l >? 0
       then (av_rot_right (Node l k bf r) 1 1, false)
       else (av_drot_right (Node l k bf r), false).

(* sign = +1: node = right child *)
Definition av_grow_r (l : tree) (k bf : Z) (r : tree) : tree * bool :=
  if bf =? 0 then (Node l k (bf + 1) r, true)
  else if bf + 1 =? 0 then (Node l k (bf + 1) r, false)
  else if 1 * av_bf r >? 0
       then (av_rot_left (Node l k bf r) (-1) (-1), false)
       else (av_drot_left (Node l k bf r), false).

(* iwavl_insert + iwavl_rebalance_after_insert.
   None = an equal key exists (C returns the existing node, tree untouched);
   Some (t', grew). The new node gets balance factor 0 and counts as a subtree
   that grew by one; the first retracing step (adjust parent, stop when it
   became 0) coincides with av_grow_* because a parent with bf <> 0 always
   ends at 0 there. *)
Fixpoint av_ins (t : tree) (k : Z) : option (tree * bool) :=
  match t with
  | Leaf => Some (Node Leaf k 0 Leaf, true)
  | Node l x bf r =>
      if k <? x then
        match av_ins l k with
        | None => None
        | Some (l', g) => Some (if g then av_grow_l l' x bf r else (Node l' x bf r, false))
        end
      else if k >? x then
        match av_ins r k with
        | None => None
        | Some (r', g) => Some (if g then av_grow_r l x bf r' else (Node l x bf r', false))
        end
      else None
  end.

Definition av_insert (t : tree) (k : Z) : tree * bool :=
  match av_ins t k with
  | None => (t, true)
  | Some (t', _) => (t', false)
  end.

(* ---- avl_handle_subtree_shrink(parent, sign) ----
   Result: (new subtree, has its height decreased?)  (C: returns the parent to
   continue with, or 0 when done). *)

(* sign = +1: the LEFT subtree of parent decreased in height *)
Definition av_shrink_l (l : tree) (k bf : Z) (r : tree) : tree * bool :=
  if bf =? 0 then (Node l k (bf + 1) r, false)
  else if bf + 1 =? 0 then (Node l k (bf + 1) r, true)
  else (* node = right child *)
    if 1 * av_bf r >=? 0 then
      if av_bf r =? 0
      then (av_rot_left (Node l k bf r) 0 (-1), false)
      else (av_rot_left (Node l k bf r) (-1) (-1), true)
    else (av_drot_left (Node l k bf r), true).

(* sign = -1: the RIGHT subtree of parent decreased in height *)
Definition av_shrink_r (l : tree) (k bf : Z) (r : tree) : tree * bool :=
  if bf =? 0 then (Node l k (bf + -1) r, false)
  else if bf + -1 =? 0 then (Node l k (bf + -1) r, true)
  else (* node = left child *)
    if -1 * av_bf l >=? 0 then
      if av_bf l =? 0
      then (av_rot_right (Node l k bf r) 0 1, false)
      else (av_rot_right (Node l k bf r) 1 1, true)
    else (av_drot_right (Node l k bf r), true).

(* avl_tree_swap_with_successor, successor part: unlink the leftmost node Y of
   the subtree (its right child B takes its place) and retrace up to the root
   of this subtree.  Result (key of Y, new subtree, shrank?). The argument d is
   only returned for the (unreachable) empty tree. *)
Fixpoint av_rm_min (t : tree) (d : Z) : Z * tree * bool :=
  match t with
  | Leaf => (d, Leaf, false)
  | Node Leaf k bf r => (k, r, true)
  | Node l k bf r =>
      let '(m, l', sh) := av_rm_min l d in
      if sh then let '(t', sh') := av_shrink_l l' k bf r in (m, t', sh')
      else (m, Node l' k bf r, false)
  end.

(* iwavl_lookup followed by iwavl_remove.  None = key absent. *)
Fixpoint av_rm (t : tree) (k : Z) : option (tree * bool) :=
  match t with
  | Leaf => None
  | Node l x bf r =>
      if k <? x then
        match av_rm l k with
        | None => None
        | Some (l', sh) => Some (if sh then av_shrink_l l' x bf r else (Node l' x bf r, false))
        end
      else if k >? x then
        match av_rm r k with
        | None => None
        | Some (r', sh) => Some (if sh then av_shrink_r l x bf r' else (Node l x bf r', false))
        end
      else
        match l, r with
        | Node _ _ _ _, Node _ _ _ _ =>
            (* two children: the successor Y takes the place and the balance
               factor of X; then the right subtree (from which Y was unlinked)
               is retraced *)
            let '(m, r', sh) := av_rm_min r x in
            Some (if sh then av_shrink_r l m bf r' else (Node l m bf r', false))
        | Node _ _ _ _, Leaf => Some (l, true)     (* child = node->left *)
        | Leaf, _ => Some (r, true)                (* child = node->right (may be 0) *)
        end
  end.

Definition av_remove (t : tree) (k : Z) : tree * bool :=
  match av_rm t k with
  | None => (t, false)
  | Some (t', _) => (t', true)
  end.

(* iwavl_lookup *)
Fixpoint av_lookup (t : tree) (k : Z) : bool :=
  match t with
  | Leaf => false
  | Node l x _ r =>
      if k <? x then av_lookup l k
      else if k >? x then av_lookup r k
      else true
  end.

(* iwavl_lookup_bounds: lb/ub are the running *lb / *ub *)
Fixpoint av_bounds_from (t : tree) (k : Z) (lb ub : option Z) : option Z * option Z :=
  match t with
  | Leaf => (lb, ub)
  | Node l x _ r =>
      if k <? x then av_bounds_from l k lb (Some x)
      else if k >? x then av_bounds_from r k (Some x) ub
      else (Some x, Some x)
  end.

Definition av_bounds (t : tree) (k : Z) : option Z * option Z :=
  av_bounds_from t k None None.

Fixpoint av_inorder (t : tree) : list Z :=
  match t with
  | Leaf => []
  | Node l k _ r => av_inorder l ++ k :: av_inorder r
  end.

(* ---- call sequences ---- *)

Inductive aop := AIns (k : Z) | ARm (k : Z) | AFind (k : Z).

Inductive aout :=
| OMod (r : bool) (io : list Z)                   (* AIns / ARm: flag, in-order keys afterwards *)
| OFind (r : bool) (lb ub : option Z).            (* AFind: lookup result, bounds *)

Definition av_step (t : tree) (o : aop) : tree * aout :=
  match o with
  | AIns k => let '(t', ex) := av_insert t k in (t', OMod ex (av_inorder t'))
  | ARm k => let '(t', was) := av_remove t k in (t', OMod was (av_inorder t'))
  | AFind k => let '(lb, ub) := av_bounds t k in (t, OFind (av_lookup t k) lb ub)
  end.

Fixpoint av_run (t : tree) (ops : list aop) : list aout :=
  match ops with
  | [] => []
  | o :: ops' => let '(t', out) := av_step t o in out :: av_run t' ops'
  end.

(* ---- reference: a strictly ascending list of keys ---- *)

Fixpoint set_ins (s : list Z) (k : Z) : list Z * bool :=
  match s with
  | [] => ([k], false)
  | x :: s' =>
      if k <? x then (k :: s, false)
      else if k >? x then let '(s'', ex) := set_ins s' k in (x :: s'', ex)
      else (s, true)
  end.

Fixpoint set_del (s : list Z) (k : Z) : list Z * bool :=
  match s with
  | [] => ([], false)
  | x :: s' =>
      if k <? x then (s, false)
      else if k >? x then let '(s'', was) := set_del s' k in (x :: s'', was)
      else (s', true)
  end.

Fixpoint set_mem (s : list Z) (k : Z) : bool :=
  match s with
  | [] => false
  | x :: s' => if k =? x then true else set_mem s' k
  end.

(* greatest element <= k *)
Fixpoint set_lb (s : list Z) (k : Z) (acc : option Z) : option Z :=
  match s with
  | [] => acc
  | x :: s' => if x <=? k then set_lb s' k (Some x) else acc
  end.

(* least element >= k *)
Fixpoint set_ub (s : list Z) (k : Z) : option Z :=
  match s with
  | [] => None
  | x :: s' => if x >=? k then Some x else set_ub s' k
  end.

Definition set_step (s : list Z) (o : aop) : list Z * aout :=
  match o with
  | AIns k => let '(s', ex) := set_ins s k in (s', OMod ex s')
  | ARm k => let '(s', was) := set_del s k in (s', OMod was s')
  | AFind k => (s, OFind (set_mem s k) (set_lb s k None) (set_ub s k))
  end.

Fixpoint set_run (s : list Z) (ops : list aop) : list aout :=
  match ops with
  | [] => []
  | o :: ops' => let '(s', out) := set_step s o in out :: set_run s' ops'
  end.
