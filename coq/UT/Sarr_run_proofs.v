(* C18 - the sorted-array helpers over operation sequences: starting from the empty array, after EVERY list of
   iwarr_sorted_insert (skipeq yes/no) / remove / find / find2 calls the array is sorted and its key sequence is exactly the
   ascending reference list of keys with multiplicity (insert adds one key unless skipeq and the key is present, remove deletes
   one occurrence), and find answers membership. *)
Require Import ZArith List Bool Lia Sorted Permutation.
Require Import IW.UT.Sarr IW.UT.Sarr_proofs IW.UT.ListSort_proofs.
Import ListNotations.
Local Open Scope Z_scope.

Definition zle (a b : Z) : Prop := (a <=? b) = true.

Lemma zleb_total : forall a b, (a <=? b) = true \/ (b <=? a) = true.
Proof. intros a b. destruct (Z.leb_spec a b); [left; reflexivity | right; apply Z.leb_le; lia]. Qed.
Lemma zleb_trans : forall a b c, (a <=? b) = true -> (b <=? c) = true -> (a <=? c) = true.
Proof. intros a b c H1 H2. apply Z.leb_le in H1, H2. apply Z.leb_le. lia. Qed.
Lemma zleb_antisym : forall a b, (a <=? b) = true -> (b <=? a) = true -> a = b.
Proof. intros a b H1 H2. apply Z.leb_le in H1, H2. lia. Qed.

Lemma zsorted_unique : forall l l', StronglySorted zle l -> StronglySorted zle l' -> Permutation l l' -> l = l'.
Proof. exact (sorted_perm_unique Z Z.leb zleb_antisym). Qed.

(* ---------------------------------------------------------------- the reference operations *)
Lemma k_ins_perm : forall k s, Permutation (k_ins k s) (k :: s).
Proof.
  intros k. induction s as [| x t IH]; cbn [k_ins]; [apply Permutation_refl |].
  destruct (k <=? x); [apply Permutation_refl |].
  eapply Permutation_trans; [apply perm_skip; exact IH | apply perm_swap].
Qed.

Lemma k_ins_sorted : forall k s, StronglySorted zle s -> StronglySorted zle (k_ins k s).
Proof.
  intros k. induction s as [| x t IH]; intros Hs; cbn [k_ins].
  - constructor; constructor.
  - destruct (k <=? x) eqn:E.
    + constructor; [exact Hs |]. constructor; [exact E |].
      inversion Hs as [| ? ? Hst Hall]; subst. eapply Forall_impl; [| exact Hall].
      intros z Hz. exact (zleb_trans k x z E Hz).
    + inversion Hs as [| ? ? Hst Hall]; subst. constructor; [apply IH; exact Hst |].
      eapply Permutation_Forall; [apply Permutation_sym; apply k_ins_perm |].
      constructor; [| exact Hall]. unfold zle. apply Z.leb_le. apply Z.leb_gt in E. lia.
Qed.

Lemma k_mem_in : forall k s, k_mem k s = true <-> In k s.
Proof.
  intros k s. unfold k_mem. rewrite existsb_exists. split.
  - intros [x [Hx E]]. apply Z.eqb_eq in E. subst. exact Hx.
  - intros H. exists k. split; [exact H | apply Z.eqb_refl].
Qed.

Lemma k_del_notin : forall k s, ~ In k s -> k_del k s = s.
Proof.
  intros k. induction s as [| x t IH]; intros Hn; [reflexivity |]. cbn [k_del].
  destruct (k =? x) eqn:E; [apply Z.eqb_eq in E; subst; exfalso; apply Hn; left; reflexivity |].
  f_equal. apply IH. intro H. apply Hn. right. exact H.
Qed.

Lemma k_del_perm : forall k s, In k s -> Permutation s (k :: k_del k s).
Proof.
  intros k. induction s as [| x t IH]; intros Hin; [destruct Hin |]. cbn [k_del].
  destruct (k =? x) eqn:E.
  - apply Z.eqb_eq in E. subst. apply Permutation_refl.
  - destruct Hin as [Hx | Ht]; [subst; rewrite Z.eqb_refl in E; discriminate |].
    eapply Permutation_trans; [apply perm_skip; apply IH; exact Ht | apply perm_swap].
Qed.

Lemma k_del_sorted : forall k s, StronglySorted zle s -> StronglySorted zle (k_del k s).
Proof.
  intros k. induction s as [| x t IH]; intros Hs; cbn [k_del]; [constructor |].
  inversion Hs as [| ? ? Hst Hall]; subst.
  destruct (k =? x); [exact Hst |]. constructor; [apply IH; exact Hst |].
  rewrite Forall_forall in *. intros z Hz. apply Hall.
  clear - Hz. induction t as [| y t IH]; [destruct Hz |]. cbn [k_del] in Hz.
  destruct (k =? y); [right; exact Hz |]. destruct Hz as [H | H]; [left; exact H | right; apply IH; exact H].
Qed.

(* ---------------------------------------------------------------- the array *)
Section Run.
Variable A : Type.
Variable cmp : A -> A -> Z.
Variable dflt : A.
Variable key : A -> Z.
Hypothesis cmp_spec : forall a b, (cmp a b =? 0) = (key a =? key b) /\ (cmp a b <? 0) = (key a <? key b).

Notation sorted := (Sarr_proofs.sorted A dflt key).

Lemma sorted_tail : forall a t, sorted (a :: t) -> sorted t /\ Forall (fun b => key a <= key b) t.
Proof.
  intros a t Hs. split.
  - intros i j Hij. specialize (Hs (S i) (S j)). cbn [nth length] in Hs. apply Hs. lia.
  - rewrite Forall_forall. intros b Hb. destruct (In_nth t b dflt Hb) as [j [Hj Hn]].
    specialize (Hs 0%nat (S j)). cbn [nth length] in Hs. rewrite Hn in Hs. apply Hs. lia.
Qed.

Lemma sorted_keys : forall els, sorted els -> StronglySorted zle (map key els).
Proof.
  induction els as [| a t IH]; intros Hs; [constructor |].
  destruct (sorted_tail a t Hs) as [Ht Hall]. cbn [map]. constructor; [apply IH; exact Ht |].
  rewrite Forall_forall in *. intros z Hz. apply in_map_iff in Hz. destruct Hz as [b [Eb Hb]]. subst z.
  unfold zle. apply Z.leb_le. apply Hall. exact Hb.
Qed.

Lemma sorted_nil : sorted [].
Proof. intros i j Hij. cbn [length] in Hij. lia. Qed.

Lemma sa_step_inv : forall els op, sorted els ->
  sorted (fst (sa_step A cmp dflt els op)) /\
  map key (fst (sa_step A cmp dflt els op)) = k_step A key (map key els) op.
Proof.
  intros els op Hs. destruct op as [e sk | e | e | e]; cbn [sa_step k_step].
  - destruct (sorted_insert A cmp dflt els e sk) as [els' i] eqn:E. cbn [fst].
    destruct (sorted_insert_correct A cmp dflt key cmp_spec els e sk els' i Hs E)
      as [[Hi [He [Hsk [a [Ha Hk]]]]] | [Hi [Hs' [Hp [Hn Hno]]]]].
    + subst els' sk. split; [exact Hs |]. cbn [andb].
      assert (M : k_mem (key e) (map key els) = true).
      { apply k_mem_in. apply in_map_iff. exists a. split; assumption. }
      rewrite M. reflexivity.
    + split; [exact Hs' |].
      assert (M : (sk && k_mem (key e) (map key els)) = false).
      { destruct sk; [| reflexivity]. cbn [andb]. destruct (k_mem (key e) (map key els)) eqn:M; [| reflexivity].
        apply k_mem_in in M. apply in_map_iff in M. destruct M as [a [Ek Ha]]. exfalso. exact (Hno eq_refl a Ha Ek). }
      rewrite M. apply zsorted_unique; [apply sorted_keys; exact Hs' | apply k_ins_sorted, sorted_keys; exact Hs |].
      eapply Permutation_trans; [apply Permutation_map; exact Hp |]. cbn [map].
      apply Permutation_sym. apply k_ins_perm.
  - destruct (sorted_remove A cmp dflt els e) as [els' i] eqn:E. cbn [fst].
    destruct (sorted_remove_correct A cmp dflt key cmp_spec els e els' i Hs E)
      as [[Hi [He Hno]] | [Hi [Hk [He [Hs' Hp]]]]].
    + subst els'. split; [exact Hs |]. symmetry. apply k_del_notin.
      intro Hin. apply in_map_iff in Hin. destruct Hin as [a [Ek Ha]]. exact (Hno a Ha Ek).
    + split; [exact Hs' |].
      apply zsorted_unique; [apply sorted_keys; exact Hs' | apply k_del_sorted, sorted_keys; exact Hs |].
      assert (Hin : In (key e) (map key els)).
      { rewrite <- Hk. apply in_map. apply (el_In A cmp dflt key cmp_spec). exact Hi. }
      assert (P1 := k_del_perm (key e) (map key els) Hin).
      assert (P2 : Permutation (map key els) (key e :: map key els')).
      { rewrite <- Hk. change (key (el A dflt els i) :: map key els') with (map key (el A dflt els i :: els')).
        apply Permutation_map. exact Hp. }
      eapply Permutation_cons_inv. eapply Permutation_trans; [apply Permutation_sym; exact P2 | exact P1].
  - split; [exact Hs | reflexivity].
  - destruct (sorted_find2 A cmp dflt els e) as [i f]. split; [exact Hs | reflexivity].
Qed.

Theorem sa_exec_inv : forall ops els, sorted els ->
  sorted (sa_exec A cmp dflt els ops) /\ map key (sa_exec A cmp dflt els ops) = k_exec A key (map key els) ops.
Proof.
  induction ops as [| op t IH]; intros els Hs; [split; [exact Hs | reflexivity] |].
  unfold sa_exec, k_exec. cbn [fold_left].
  destruct (sa_step_inv els op Hs) as [Hs' Hk]. rewrite <- Hk. apply IH. exact Hs'.
Qed.

(* ONE statement over operation lists, from the empty array *)
Theorem sarr_refines_sorted_keys : forall ops,
  let els := sa_exec A cmp dflt [] ops in
  sorted els /\ map key els = k_exec A key [] ops /\ StronglySorted zle (map key els) /\
  (forall e, let i := sorted_find A cmp dflt els e in
     (i = -1 /\ k_mem (key e) (k_exec A key [] ops) = false) \/
     (0 <= i < Z.of_nat (length els) /\ key (el A dflt els i) = key e /\ k_mem (key e) (k_exec A key [] ops) = true)).
Proof.
  intros ops els. destruct (sa_exec_inv ops [] sorted_nil) as [Hs Hk]. fold els in Hs, Hk. cbn [map] in Hk.
  split; [exact Hs |]. split; [exact Hk |]. split; [apply sorted_keys; exact Hs |].
  intros e i. destruct (sorted_find_correct A cmp dflt key cmp_spec els e Hs) as [[Hi Hno] | [Hi Hk2]]; fold i in Hi.
  - left. split; [exact Hi |]. rewrite <- Hk. destruct (k_mem (key e) (map key els)) eqn:M; [| reflexivity].
    apply k_mem_in in M. apply in_map_iff in M. destruct M as [a [Ek Ha]]. exfalso. exact (Hno a Ha Ek).
  - right. fold i in Hk2. split; [exact Hi |]. split; [exact Hk2 |]. rewrite <- Hk. apply k_mem_in.
    rewrite <- Hk2. apply in_map. apply (el_In A cmp dflt key cmp_spec). exact Hi.
Qed.
End Run.
