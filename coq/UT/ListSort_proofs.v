(* C18 - what iwulist_sort / iwlist_sort deliver.  The library sorts with sort_r (a quicksort); the models UT/Ulist.v and
   UT/Plist.v use an insertion sort, and the reference side of the refinement theorems uses the same function.  This file
   shows that nothing depends on the algorithm: for the comparators of the harness (memcmp over the unit; memcmp over the
   common prefix, then the shorter item first - both are the lexicographic order on byte strings, prefix first) the result
   of the models is sorted, is a permutation of the input, and is the ONLY sorted permutation of the input. *)
Require Import ZArith List Bool Lia Sorted Permutation.
Require Import IW.UT.Ulist IW.UT.Plist IW.UT.Ulist_proofs IW.UT.Plist_proofs.
Import ListNotations.

(* ---------------------------------------------------------------- generic: insertion sort for a total order *)
Section Generic.
Variable A : Type.
Variable leb : A -> A -> bool.
Hypothesis leb_total : forall a b, leb a b = true \/ leb b a = true.
Hypothesis leb_trans : forall a b c, leb a b = true -> leb b c = true -> leb a c = true.
Hypothesis leb_antisym : forall a b, leb a b = true -> leb b a = true -> a = b.

Definition le (a b : A) : Prop := leb a b = true.

Fixpoint gins (x : A) (l : list A) : list A :=
  match l with
  | [] => [x]
  | y :: t => if leb x y then x :: l else y :: gins x t
  end.
Definition gsort (l : list A) : list A := fold_right gins [] l.

Lemma gins_perm : forall x l, Permutation (gins x l) (x :: l).
Proof.
  intros x. induction l as [| y t IH]; cbn [gins]; [apply Permutation_refl |].
  destruct (leb x y); [apply Permutation_refl |].
  eapply Permutation_trans; [apply perm_skip; exact IH | apply perm_swap].
Qed.

Lemma gsort_perm : forall l, Permutation (gsort l) l.
Proof.
  induction l as [| x t IH]; cbn [gsort fold_right]; [constructor |].
  eapply Permutation_trans; [apply gins_perm | apply perm_skip; exact IH].
Qed.

Lemma gins_sorted : forall x l, StronglySorted le l -> StronglySorted le (gins x l).
Proof.
  intros x. induction l as [| y t IH]; intros Hs; cbn [gins].
  - constructor; constructor.
  - destruct (leb x y) eqn:E.
    + constructor; [exact Hs |]. constructor; [exact E |].
      inversion Hs as [| ? ? Hst Hall]; subst.
      eapply Forall_impl; [| exact Hall]. intros z Hz. exact (leb_trans x y z E Hz).
    + inversion Hs as [| ? ? Hst Hall]; subst.
      constructor; [apply IH; exact Hst |].
      assert (Hyx : leb y x = true) by (destruct (leb_total x y) as [H | H]; [congruence | exact H]).
      eapply Permutation_Forall; [apply Permutation_sym; apply gins_perm |].
      constructor; [exact Hyx | exact Hall].
Qed.

Lemma gsort_sorted : forall l, StronglySorted le (gsort l).
Proof.
  induction l as [| x t IH]; cbn [gsort fold_right]; [constructor |]. apply gins_sorted. exact IH.
Qed.

(* two sorted lists with the same elements are equal *)
Lemma sorted_perm_unique : forall l l', StronglySorted le l -> StronglySorted le l' -> Permutation l l' -> l = l'.
Proof.
  induction l as [| a t IH]; intros l' Hs Hs' Hp.
  - apply Permutation_nil in Hp. subst. reflexivity.
  - destruct l' as [| b t']; [apply Permutation_sym, Permutation_nil in Hp; discriminate |].
    inversion Hs as [| ? ? Hst Hall]; subst. inversion Hs' as [| ? ? Hst' Hall']; subst.
    assert (Hab : a = b).
    { assert (Hb : In b (a :: t)) by (eapply Permutation_in; [apply Permutation_sym; exact Hp | left; reflexivity]).
      assert (Ha : In a (b :: t')) by (eapply Permutation_in; [exact Hp | left; reflexivity]).
      destruct Hb as [Hb | Hb]; [exact Hb |]. destruct Ha as [Ha | Ha]; [symmetry; exact Ha |].
      rewrite Forall_forall in Hall, Hall'.
      apply leb_antisym; [apply Hall; exact Hb | apply Hall'; exact Ha]. }
    subst b. f_equal. apply IH; [exact Hst | exact Hst' |]. eapply Permutation_cons_inv. exact Hp.
Qed.

Theorem gsort_unique : forall l s, StronglySorted le s -> Permutation s l -> s = gsort l.
Proof.
  intros l s Hs Hp. apply sorted_perm_unique; [exact Hs | apply gsort_sorted |].
  eapply Permutation_trans; [exact Hp | apply Permutation_sym; apply gsort_perm].
Qed.
End Generic.

(* ---------------------------------------------------------------- the byte-string order of the two comparators *)
Local Open Scope Z_scope.

Lemma bytes_leb_total : forall a b, bytes_leb a b = true \/ bytes_leb b a = true.
Proof.
  induction a as [| x a IH]; intros b; [left; reflexivity |].
  destruct b as [| y b]; [right; reflexivity |]. cbn [bytes_leb].
  destruct (x <? y) eqn:E1; [left; reflexivity |].
  destruct (y <? x) eqn:E2; [right; reflexivity |]. apply IH.
Qed.

Lemma bytes_leb_trans : forall a b c, bytes_leb a b = true -> bytes_leb b c = true -> bytes_leb a c = true.
Proof.
  induction a as [| x a IH]; intros b c Hab Hbc; [reflexivity |].
  destruct b as [| y b]; [discriminate |]. destruct c as [| z c]; [cbn in Hbc; discriminate |].
  cbn [bytes_leb] in *.
  destruct (x <? y) eqn:Exy.
  - apply Z.ltb_lt in Exy. destruct (y <? z) eqn:Eyz.
    + apply Z.ltb_lt in Eyz. assert (E : (x <? z) = true) by (apply Z.ltb_lt; lia). rewrite E. reflexivity.
    + destruct (z <? y) eqn:Ezy; [discriminate |]. apply Z.ltb_ge in Eyz. apply Z.ltb_ge in Ezy.
      assert (E : (x <? z) = true) by (apply Z.ltb_lt; lia). rewrite E. reflexivity.
  - destruct (y <? x) eqn:Eyx; [discriminate |]. apply Z.ltb_ge in Exy. apply Z.ltb_ge in Eyx.
    assert (Hxy : x = y) by lia. subst y.
    destruct (x <? z) eqn:Exz; [reflexivity |]. destruct (z <? x) eqn:Ezx; [discriminate |].
    eapply IH; eassumption.
Qed.

Lemma bytes_leb_antisym : forall a b, bytes_leb a b = true -> bytes_leb b a = true -> a = b.
Proof.
  induction a as [| x a IH]; intros b Hab Hba.
  - destruct b; [reflexivity | discriminate].
  - destruct b as [| y b]; [discriminate |]. cbn [bytes_leb] in *.
    destruct (x <? y) eqn:Exy.
    + apply Z.ltb_lt in Exy. assert (E : (y <? x) = false) by (apply Z.ltb_ge; lia). rewrite E in Hba. discriminate.
    + destruct (y <? x) eqn:Eyx; [discriminate |]. apply Z.ltb_ge in Exy. apply Z.ltb_ge in Eyx.
      assert (x = y) by lia. subst y. f_equal. apply IH; assumption.
Qed.

Lemma pl_leb_is_bytes_leb : forall a b, pl_leb a b = bytes_leb a b.
Proof. induction a as [| x a IH]; intros b; [reflexivity |]. destruct b as [| y b]; [reflexivity |]. cbn. rewrite IH. reflexivity. Qed.

Lemma ins_sorted_gins : forall x l, ins_sorted x l = gins (list Z) bytes_leb x l.
Proof. intros x. induction l as [| y t IH]; [reflexivity |]. cbn [ins_sorted gins]. rewrite IH. reflexivity. Qed.
Lemma sort_units_gsort : forall l, sort_units l = gsort (list Z) bytes_leb l.
Proof.
  induction l as [| x t IH]; [reflexivity |]. unfold sort_units, gsort in *. cbn [fold_right]. rewrite IH. apply ins_sorted_gins.
Qed.
Lemma pl_ins_gins : forall x l, pl_ins x l = gins (list Z) bytes_leb x l.
Proof.
  intros x. induction l as [| y t IH]; [reflexivity |]. cbn [pl_ins gins]. rewrite IH, pl_leb_is_bytes_leb. reflexivity.
Qed.
Lemma pl_sort_items_gsort : forall l, pl_sort_items l = gsort (list Z) bytes_leb l.
Proof.
  induction l as [| x t IH]; [reflexivity |]. unfold pl_sort_items, gsort in *. cbn [fold_right]. rewrite IH. apply pl_ins_gins.
Qed.

Definition bytes_le (a b : list Z) : Prop := bytes_leb a b = true.

(* sort_units / pl_sort_items: sorted, a permutation, and the only sorted permutation *)
Theorem sort_units_correct : forall l,
  StronglySorted bytes_le (sort_units l) /\ Permutation (sort_units l) l /\
  (forall s, StronglySorted bytes_le s -> Permutation s l -> s = sort_units l).
Proof.
  intros l. rewrite sort_units_gsort. split; [| split].
  - apply (gsort_sorted (list Z) bytes_leb bytes_leb_total bytes_leb_trans).
  - apply gsort_perm.
  - intros s Hs Hp. apply (gsort_unique (list Z) bytes_leb bytes_leb_total bytes_leb_trans bytes_leb_antisym); assumption.
Qed.

Theorem pl_sort_items_correct : forall l,
  StronglySorted bytes_le (pl_sort_items l) /\ Permutation (pl_sort_items l) l /\
  (forall s, StronglySorted bytes_le s -> Permutation s l -> s = pl_sort_items l).
Proof.
  intros l. rewrite pl_sort_items_gsort. split; [| split].
  - apply (gsort_sorted (list Z) bytes_leb bytes_leb_total bytes_leb_trans).
  - apply gsort_perm.
  - intros s Hs Hp. apply (gsort_unique (list Z) bytes_leb bytes_leb_total bytes_leb_trans bytes_leb_antisym); assumption.
Qed.

(* bytes_leb is memcmp's order on equal-length units and "memcmp over the common prefix, then the shorter first" in general *)
Fixpoint memcmp_lt (a b : list Z) : option bool :=      (* Some true: a < b, Some false: a > b, None: equal over the common prefix *)
  match a, b with
  | x :: a', y :: b' => if x <? y then Some true else if y <? x then Some false else memcmp_lt a' b'
  | _, _ => None
  end.
Theorem bytes_leb_is_memcmp : forall a b,
  bytes_leb a b = match memcmp_lt a b with Some lt => lt | None => (length a <=? length b)%nat end.
Proof.
  induction a as [| x a IH]; intros b; [reflexivity |]. destruct b as [| y b]; [reflexivity |].
  cbn [bytes_leb memcmp_lt length]. destruct (x <? y); [reflexivity |]. destruct (y <? x); [reflexivity |]. apply IH.
Qed.

(* ---------------------------------------------------------------- over reachable states *)
Local Close Scope Z_scope.

Definition l_exec (l : list (list Z)) (ops : list uop) : list (list Z) := fold_left (fun s op => fst (l_step s op)) ops l.

Lemma l_run_app : forall a b l, l_run l (a ++ b) = l_run l a ++ l_run (l_exec l a) b.
Proof.
  induction a as [| op a IH]; intros b l; [reflexivity |].
  cbn [app l_run]. unfold l_exec. cbn [fold_left].
  destruct (l_step l op) as [l' o] eqn:E. cbn [fst app]. f_equal. apply IH.
Qed.

(* after ANY call sequence, iwulist_sort leaves the list = the unique sorted permutation of what the reference list holds *)
Theorem ulist_sort_reachable : forall il us ops, 0 < us -> Forall (uop_ok us) ops ->
  let s := sort_units (l_exec [] ops) in
  u_run (u_init il us) (ops ++ [USort; UClone]) = l_run [] ops ++ [ORc U_OK; OList s] /\
  StronglySorted bytes_le s /\ Permutation s (l_exec [] ops) /\
  (forall s', StronglySorted bytes_le s' -> Permutation s' (l_exec [] ops) -> s' = s).
Proof.
  intros il us ops Hus Hok s.
  split.
  - rewrite ulist_refines_list; [| exact Hus |].
    + rewrite l_run_app. reflexivity.
    + apply Forall_app. split; [exact Hok |]. repeat constructor.
  - exact (sort_units_correct (l_exec [] ops)).
Qed.

Lemma list_run_app : forall a b l, list_run l (a ++ b) = list_run l a ++ list_run (list_exec l a) b.
Proof.
  induction a as [| op a IH]; intros b l; [reflexivity |].
  cbn [app list_run list_exec].
  destruct (list_step l op) as [l' o] eqn:E. cbn [fst app]. f_equal. apply IH.
Qed.

Theorem plist_sort_reachable : forall an ops,
  let s := pl_sort_items (list_exec [] ops) in
  pl_run (pl_init an) (ops ++ [PLSort; PLClone]) = list_run [] ops ++ [PLORc PL_OK; PLOList s] /\
  StronglySorted bytes_le s /\ Permutation s (list_exec [] ops) /\
  (forall s', StronglySorted bytes_le s' -> Permutation s' (list_exec [] ops) -> s' = s).
Proof.
  intros an ops s. split.
  - rewrite plist_refines_list, list_run_app. reflexivity.
  - exact (pl_sort_items_correct (list_exec [] ops)).
Qed.

(* ---------------------------------------------------------------- the state of the unit list after any call sequence *)
Definition u_exec (l : ulist) (ops : list uop) : ulist := fold_left (fun s op => fst (u_step s op)) ops l.

Lemma u_exec_good : forall ops l, u_wf l -> Forall (uop_ok (u_usize l)) ops ->
  good (u_exec l ops) (u_usize l) (l_exec (u_units l) ops).
Proof.
  induction ops as [| op ops IH]; intros l Hwf Hops; [repeat split; try apply Hwf |].
  unfold u_exec, l_exec. cbn [fold_left].
  pose proof (Forall_inv Hops) as Hop. pose proof (Forall_inv_tail Hops) as Hops'.
  pose proof (u_step_refines l Hwf op Hop) as H.
  destruct (u_step l op) as [l' o]. destruct (l_step (u_units l) op) as [s' o'].
  destruct H as [Hwf' [Hus' [Hun' Ho]]]. cbn [fst]. subst s'.
  rewrite <- Hus'. apply IH; [exact Hwf' | rewrite Hus'; exact Hops'].
Qed.

(* ONE statement per list over operation lists: outputs AND state.  After every call sequence the byte-level list is well
   formed (array length = anum * usize, start + num <= anum), its live units are the reference list, and every call answered
   as the plain list does *)
Theorem ulist_refines_list_inv : forall il us ops, 0 < us -> Forall (uop_ok us) ops ->
  let l := u_exec (u_init il us) ops in
  u_run (u_init il us) ops = l_run [] ops /\
  u_wf l /\ u_usize l = us /\ u_units l = l_exec [] ops /\ u_num l = length (l_exec [] ops).
Proof.
  intros il us ops Hus Hops l.
  split; [apply ulist_refines_list; assumption |].
  assert (Hwf := u_init_wf il us Hus).
  assert (G := u_exec_good ops (u_init il us) Hwf).
  rewrite u_init_usize, u_init_units in G. destruct (G Hops) as [H1 [H2 H3]]. fold l in H1, H2, H3.
  split; [exact H1 |]. split; [exact H2 |]. split; [exact H3 |].
  rewrite <- H3. symmetry. apply u_units_length.
Qed.

Theorem plist_refines_list_inv : forall an ops,
  let l := pl_exec (pl_init an) ops in
  pl_run (pl_init an) ops = list_run [] ops /\
  pl_wf l /\ pl_items l = list_exec [] ops /\ pl_num l = length (list_exec [] ops).
Proof.
  intros an ops l. split; [apply plist_refines_list |].
  destruct (plist_state_refines_list an ops) as [Hwf Hit]. fold l in Hwf, Hit.
  split; [exact Hwf |]. split; [exact Hit |].
  rewrite <- Hit. unfold pl_items. rewrite map_length, seq_length. reflexivity.
Qed.
