(* C18 - proofs about the model of the memory pool (UT/Pool.v).

   pool_alloc_ok          one iwpool_alloc keeps the pool well formed, answers an 8-aligned region of the newest
                          unit that fits into it, and never touches older units;
   pool_regions_disjoint  for every call sequence (alloc / strndup / copy_cstring_array) on a pool made by
                          iwpool_create(siz) or iwpool_create_empty(): every region handed out is 8-aligned and
                          lies inside its unit, and two different regions never overlap.

   Method: the run invariant [run_inv] says that all regions of the newest unit end below usiz (the bump
   pointer) and that regions handed out earlier in a unit end before regions handed out later start. *)
Require Import ZArith List Bool Lia Arith ZifyNat.
Require Import IW.Gen.Facts IW.UT.Pool.
Import ListNotations.

Ltac Zify.zify_post_hook ::= Z.div_mod_to_equations.

(* ---------------------------------------------------------------- rounding *)
Lemma P_ALIGN_8 : P_ALIGN = 8.
Proof. reflexivity. Qed.

Lemma roundup8_eq : forall n, roundup8 n = (n + 7) / 8 * 8.
Proof.
  intros n. unfold roundup8. rewrite P_ALIGN_8. replace (n + 8 - 1) with (n + 7) by lia. reflexivity.
Qed.

Lemma roundup8_spec : forall n, roundup8 n mod 8 = 0 /\ n <= roundup8 n /\ roundup8 n < n + 8.
Proof.
  intros n. rewrite roundup8_eq. lia.
Qed.

Lemma roundup8_mult : forall n, n mod 8 = 0 -> roundup8 n = n.
Proof.
  intros n Hn. rewrite roundup8_eq. lia.
Qed.

Lemma roundup8_mono : forall a b, a <= b -> roundup8 a <= roundup8 b.
Proof.
  intros a b Hab. rewrite !roundup8_eq. lia.
Qed.

Local Opaque roundup8.

(* ---------------------------------------------------------------- unit sizes *)
Lemma unit_size_newest : forall u a l, unit_size (mkPool u a l) (length l - 1) = hd 0 l.
Proof.
  intros u a l. unfold unit_size. simpl. destruct l as [|s t]; [reflexivity|].
  simpl. rewrite Nat.sub_0_r, app_nth2; rewrite rev_length; [|lia].
  rewrite Nat.sub_diag. reflexivity.
Qed.

Lemma unit_size_push_old : forall u a u' a' s l i,
  i < length l -> unit_size (mkPool u' a' (s :: l)) i = unit_size (mkPool u a l) i.
Proof.
  intros u a u' a' s l i Hi. unfold unit_size. simpl. apply app_nth1. rewrite rev_length. exact Hi.
Qed.

Lemma unit_size_push_le : forall u a u' a' s l i,
  unit_size (mkPool u a l) i <= unit_size (mkPool u' a' (s :: l)) i.
Proof.
  intros u a u' a' s l i. destruct (Nat.lt_ge_cases i (length l)) as [Hi|Hi].
  - rewrite (unit_size_push_old u a); [lia|exact Hi].
  - unfold unit_size at 1. simpl. rewrite nth_overflow; [lia|]. rewrite rev_length. exact Hi.
Qed.

Lemma unit_size_push_new : forall u a s l, unit_size (mkPool u a (s :: l)) (length l) = s.
Proof.
  intros u a s l. unfold unit_size. simpl. rewrite app_nth2; rewrite rev_length; [|lia].
  rewrite Nat.sub_diag. reflexivity.
Qed.

Lemma unit_size_units : forall p q i, p_units p = p_units q -> unit_size p i = unit_size q i.
Proof.
  intros p q i Heq. unfold unit_size. rewrite Heq. reflexivity.
Qed.

Ltac psimpl := cbn [p_usiz p_asiz p_units hd length r_unit r_off r_size r_req fst snd].
Tactic Notation "psimpl" "in" hyp(H) := cbn [p_usiz p_asiz p_units hd length r_unit r_off r_size r_req fst snd] in H.

(* ---------------------------------------------------------------- creation *)
Lemma p_create_wf : forall siz, p_wf (p_create siz).
Proof.
  intros siz. unfold p_create, p_wf. psimpl.
  destruct (roundup8_spec (if siz <? 1 then P_POOL_SIZ else siz)) as [Hm [Hle Hlt]].
  repeat split; try lia.
  - constructor; [exact Hm|constructor].
Qed.

Lemma p_create_empty_wf : p_wf p_create_empty.
Proof.
  unfold p_create_empty, p_wf. psimpl. repeat split; try lia. constructor.
Qed.

(* ---------------------------------------------------------------- one allocation *)
Lemma p_alloc_eq : forall p n,
  p_alloc p n =
  if (p_asiz p <? p_usiz p + roundup8 n) then
    let s := roundup8 (p_usiz p + roundup8 n + p_asiz p) in
    (mkPool (roundup8 n) s (s :: p_units p), (length (p_units p), 0))
  else (mkPool (p_usiz p + roundup8 n) (p_asiz p) (p_units p), (length (p_units p) - 1, p_usiz p)).
Proof.
  intros p n. unfold p_alloc. destruct (p_asiz p <? p_usiz p + roundup8 n) eqn:Hlt.
  - unfold p_extend. simpl. rewrite Nat.sub_0_r. reflexivity.
  - reflexivity.
Qed.

Theorem pool_alloc_ok : forall p n, p_wf p ->
  let '(p', (u, off)) := p_alloc p n in
  p_wf p' /\ u = length (p_units p') - 1 /\ off mod 8 = 0 /\
  off + roundup8 n <= unit_size p' u /\ is_suffix (p_units p) (p_units p').
Proof.
  intros p n Hwf. destruct Hwf as [Hua [Hhd [Hall Hum]]].
  rewrite p_alloc_eq.
  destruct (roundup8_spec n) as [Hnm [Hnle Hnlt]].
  destruct (p_asiz p <? p_usiz p + roundup8 n) eqn:Hlt.
  - apply Nat.ltb_lt in Hlt. cbv zeta.
    destruct (roundup8_spec (p_usiz p + roundup8 n + p_asiz p)) as [Hsm [Hsle Hslt]].
    split; [|split; [|split; [|split]]].
    + unfold p_wf. psimpl. repeat split; try lia. constructor; assumption.
    + psimpl. lia.
    + reflexivity.
    + rewrite unit_size_push_new. lia.
    + exists [roundup8 (p_usiz p + roundup8 n + p_asiz p)]. reflexivity.
  - apply Nat.ltb_ge in Hlt.
    split; [|split; [|split; [|split]]].
    + unfold p_wf. psimpl. repeat split; try lia. exact Hall.
    + reflexivity.
    + exact Hum.
    + simpl p_units. rewrite unit_size_newest. lia.
    + exists []. reflexivity.
Qed.

(* ---------------------------------------------------------------- ordered pairs *)
Lemma FOP_snoc : forall (A : Type) (R : A -> A -> Prop) l x,
  ForallOrdPairs R l -> (forall a, In a l -> R a x) -> ForallOrdPairs R (l ++ [x]).
Proof.
  intros A R l x Hfop. induction Hfop as [|a l Hal Hfop IH]; intros Hx.
  - simpl. constructor; constructor.
  - simpl. constructor.
    + apply Forall_app. split; [exact Hal|]. constructor; [|constructor]. apply Hx. left. reflexivity.
    + apply IH. intros b Hb. apply Hx. right. exact Hb.
Qed.

Lemma FOP_nth : forall (A : Type) (R : A -> A -> Prop) l,
  ForallOrdPairs R l ->
  forall i j a b, i < j -> nth_error l i = Some a -> nth_error l j = Some b -> R a b.
Proof.
  intros A R l Hfop. induction Hfop as [|x l Hxl Hfop IH]; intros i j a b Hij Hi Hj.
  - destruct i; discriminate.
  - destruct j as [|j]; [lia|]. simpl in Hj. destruct i as [|i].
    + simpl in Hi. injection Hi as Hi. subst x.
      rewrite Forall_forall in Hxl. apply Hxl. eapply nth_error_In. exact Hj.
    + simpl in Hi. apply (IH i j); [lia|exact Hi|exact Hj].
Qed.

(* ---------------------------------------------------------------- the run invariant *)
(* r1 was handed out before r2 *)
Definition r_before (r1 r2 : region) : Prop := r_unit r1 = r_unit r2 -> r_off r1 + r_size r1 <= r_off r2.

Definition r_inv (p : pool) (r : region) : Prop :=
  region_inside p r /\
  r_unit r <= length (p_units p) - 1 /\
  (r_unit r = length (p_units p) - 1 -> r_off r + r_size r <= p_usiz p).

Definition run_inv (p : pool) (regs : list region) : Prop :=
  p_wf p /\ (forall r, In r regs -> r_inv p r) /\ ForallOrdPairs r_before regs.

Lemma alloc_r_inv : forall p n acc p' r,
  run_inv p acc -> p_alloc_r p n = (p', r) -> run_inv p' (acc ++ [r]).
Proof.
  intros p n acc p' r [Hwf [Hregs Hord]] Hal.
  unfold p_alloc_r in Hal. rewrite p_alloc_eq in Hal.
  destruct Hwf as [Hua [Hhd [Hall Hum]]].
  destruct (roundup8_spec n) as [Hnm [Hnle Hnlt]].
  destruct (p_asiz p <? p_usiz p + roundup8 n) eqn:Hlt.
  - (* a new unit *)
    apply Nat.ltb_lt in Hlt. cbv zeta in Hal. injection Hal as Hp Hr.
    destruct (roundup8_spec (p_usiz p + roundup8 n + p_asiz p)) as [Hsm [Hsle Hslt]].
    remember (roundup8 (p_usiz p + roundup8 n + p_asiz p)) as s eqn:Hs.
    (* a region of p in the unit numbered |units| exists only when p has no unit; then it is empty *)
    assert (Hold : forall a, In a acc -> r_unit a = length (p_units p) -> r_off a + r_size a <= 0).
    { intros a Ha Hu. destruct (Hregs a Ha) as [_ [Hb Hcur]].
      destruct (p_units p) as [|s0 t] eqn:Hunits.
      - psimpl in Hhd; psimpl in Hcur; psimpl in Hu. specialize (Hcur Hu). lia.
      - psimpl in Hb; psimpl in Hu. lia. }
    split; [|split].
    + subst p'. unfold p_wf. psimpl. repeat split; try lia. constructor; assumption.
    + intros a Ha. apply in_app_or in Ha. destruct Ha as [Ha|Ha].
      * destruct (Hregs a Ha) as [[Hi1 [Hi2 [Hi3 Hi4]]] [Hb Hcur]].
        subst p'. unfold r_inv, region_inside. psimpl.
        split; [|split].
        -- repeat split; try assumption.
           pose proof (unit_size_push_le (p_usiz p) (p_asiz p) (roundup8 n) s s (p_units p) (r_unit a)) as Hle.
           replace (mkPool (p_usiz p) (p_asiz p) (p_units p)) with p in Hle by (destruct p; reflexivity).
           lia.
        -- lia.
        -- intros Hu. assert (Hu' : r_unit a = length (p_units p)) by lia. specialize (Hold a Ha Hu'). lia.
      * destruct Ha as [Ha|[]]. subst a r p'.
        unfold r_inv, region_inside. psimpl.
        split; [|split].
        -- repeat split; try lia.
           pose proof (unit_size_push_new (roundup8 n) s s (p_units p)) as Hnew. lia.
        -- lia.
        -- lia.
    + apply FOP_snoc; [exact Hord|]. intros a Ha. subst r. unfold r_before. psimpl. intros Hu.
      specialize (Hold a Ha Hu). lia.
  - (* the newest unit has room *)
    apply Nat.ltb_ge in Hlt. injection Hal as Hp Hr.
    split; [|split].
    + subst p'. unfold p_wf. psimpl. repeat split; try lia. exact Hall.
    + intros a Ha. apply in_app_or in Ha. destruct Ha as [Ha|Ha].
      * destruct (Hregs a Ha) as [[Hi1 [Hi2 [Hi3 Hi4]]] [Hb Hcur]].
        subst p'. unfold r_inv, region_inside. psimpl.
        split; [|split].
        -- repeat split; assumption.
        -- exact Hb.
        -- intros Hu. specialize (Hcur Hu). lia.
      * destruct Ha as [Ha|[]]. subst a r p'.
        unfold r_inv, region_inside. psimpl.
        split; [|split].
        -- repeat split; try lia.
           pose proof (unit_size_newest (p_usiz p + roundup8 n) (p_asiz p) (p_units p)) as Hnew. lia.
        -- lia.
        -- lia.
    + apply FOP_snoc; [exact Hord|]. intros a Ha. subst r. unfold r_before. psimpl. intros Hu.
      destruct (Hregs a Ha) as [_ [_ Hcur]]. specialize (Hcur Hu). lia.
Qed.

Lemma p_allocs_cons : forall p n t,
  p_allocs p (n :: t) =
  let '(p1, r) := p_alloc_r p n in let '(p2, rs) := p_allocs p1 t in (p2, r :: rs).
Proof. reflexivity. Qed.

Lemma allocs_inv : forall ns p acc p' rs,
  run_inv p acc -> p_allocs p ns = (p', rs) -> run_inv p' (acc ++ rs).
Proof.
  induction ns as [|n t IH]; intros p acc p' rs Hinv Hal.
  - simpl in Hal. injection Hal as Hp Hr. subst p' rs. rewrite app_nil_r. exact Hinv.
  - rewrite p_allocs_cons in Hal.
    destruct (p_alloc_r p n) as [p1 r] eqn:H1.
    destruct (p_allocs p1 t) as [p2 rs2] eqn:H2.
    injection Hal as Hp Hr. subst p' rs.
    replace (acc ++ r :: rs2) with ((acc ++ [r]) ++ rs2) by (rewrite <- app_assoc; reflexivity).
    apply (IH p1); [|exact H2]. apply (alloc_r_inv p n); assumption.
Qed.

Lemma step_inv : forall op p acc p' rs,
  run_inv p acc -> p_step p op = (p', rs) -> run_inv p' (acc ++ rs).
Proof.
  intros op p acc p' rs Hinv Hst. destruct op as [n|len|lens|ns]; cbn [p_step] in Hst.
  - destruct (p_alloc_r p n) as [p1 r] eqn:H1. injection Hst as Hp Hr. subst p' rs.
    apply (alloc_r_inv p n); assumption.
  - destruct (p_alloc_r p (len + 1)) as [p1 r] eqn:H1. injection Hst as Hp Hr. subst p' rs.
    apply (alloc_r_inv p (len + 1)); assumption.
  - unfold p_cstrarr in Hst. destruct lens as [|l0 lt].
    + injection Hst as Hp Hr. subst p' rs. rewrite app_nil_r. exact Hinv.
    + eapply allocs_inv; [exact Hinv|exact Hst].
  - eapply allocs_inv; [exact Hinv|exact Hst].
Qed.

Lemma p_run_cons : forall p op t,
  p_run p (op :: t) =
  let '(p1, rs) := p_step p op in let '(p2, rs') := p_run p1 t in (p2, rs ++ rs').
Proof. reflexivity. Qed.

Lemma run_inv_run : forall ops p acc p' rs,
  run_inv p acc -> p_run p ops = (p', rs) -> run_inv p' (acc ++ rs).
Proof.
  induction ops as [|op t IH]; intros p acc p' rs Hinv Hrun.
  - simpl in Hrun. injection Hrun as Hp Hr. subst p' rs. rewrite app_nil_r. exact Hinv.
  - rewrite p_run_cons in Hrun.
    destruct (p_step p op) as [p1 rs1] eqn:H1.
    destruct (p_run p1 t) as [p2 rs2] eqn:H2.
    injection Hrun as Hp Hr. subst p' rs. rewrite app_assoc.
    apply (IH p1); [|exact H2]. apply (step_inv op p); assumption.
Qed.

Lemma run_inv_regions_ok : forall p regs, run_inv p regs -> regions_ok p regs.
Proof.
  intros p regs [Hwf [Hregs Hord]]. split.
  - intros r Hr. destruct (Hregs r Hr) as [Hin _]. exact Hin.
  - intros i j r1 r2 Hij Hi Hj Hu. destruct (Nat.lt_ge_cases i j) as [Hlt|Hge].
    + left. exact (FOP_nth _ _ _ Hord i j r1 r2 Hlt Hi Hj Hu).
    + right. assert (Hlt : j < i) by lia.
      exact (FOP_nth _ _ _ Hord j i r2 r1 Hlt Hj Hi (eq_sym Hu)).
Qed.

(* any well formed start *)
Theorem pool_regions_disjoint_wf : forall p0 ops,
  p_wf p0 -> p_wf (fst (p_run p0 ops)) /\ regions_ok (fst (p_run p0 ops)) (snd (p_run p0 ops)).
Proof.
  intros p0 ops Hwf. destruct (p_run p0 ops) as [p regs] eqn:Hrun. simpl.
  assert (Hinv : run_inv p ([] ++ regs)).
  { apply (run_inv_run ops p0); [|exact Hrun]. split; [exact Hwf|]. split; [intros r []|constructor]. }
  simpl in Hinv. split; [exact (proj1 Hinv)|]. apply run_inv_regions_ok. exact Hinv.
Qed.

(* regions handed out earlier in a unit lie below regions handed out later *)
Theorem pool_regions_ordered : forall p0 ops i j r1 r2,
  p_wf p0 -> i < j ->
  nth_error (snd (p_run p0 ops)) i = Some r1 -> nth_error (snd (p_run p0 ops)) j = Some r2 ->
  r_unit r1 = r_unit r2 -> r_off r1 + r_size r1 <= r_off r2.
Proof.
  intros p0 ops i j r1 r2 Hwf Hij Hi Hj Hu. destruct (p_run p0 ops) as [p regs] eqn:Hrun. simpl in Hi, Hj.
  assert (Hinv : run_inv p ([] ++ regs)).
  { apply (run_inv_run ops p0); [|exact Hrun]. split; [exact Hwf|]. split; [intros r []|constructor]. }
  simpl in Hinv. destruct Hinv as [_ [_ Hord]].
  exact (FOP_nth _ _ _ Hord i j r1 r2 Hij Hi Hj Hu).
Qed.

Theorem pool_regions_disjoint : forall ops,
  (forall siz, regions_ok (fst (p_run (p_create siz) ops)) (snd (p_run (p_create siz) ops))) /\
  regions_ok (fst (p_run p_create_empty ops)) (snd (p_run p_create_empty ops)).
Proof.
  intros ops. split.
  - intros siz. apply pool_regions_disjoint_wf. apply p_create_wf.
  - apply pool_regions_disjoint_wf. apply p_create_empty_wf.
Qed.
