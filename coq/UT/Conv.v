(* src/utils/iwconv.c: iwitoa, iwatoi, iwhex2bin, iwbin2hex at index level.
   A buffer is `mem`: a length plus the list of writes (newest first) over unknown initial contents
   `init`.  Every access outside [0, len) makes the function return None ("out of bounds"). *)
Require Import ZArith List Bool. Require Import IW.Lib.CInt IW.Gen.Facts. Import ListNotations.
Local Open Scope Z_scope. Local Open Scope bool_scope.

Record mem := { m_len : Z; m_init : Z -> Z; m_wr : list (Z * Z) }.
Fixpoint rd_wr (w : list (Z * Z)) (init : Z -> Z) (i : Z) : Z :=
  match w with [] => init i | (j, x) :: r => if j =? i then x else rd_wr r init i end.
Definition inb (m : mem) (i : Z) : bool := (0 <=? i) && (i <? m_len m).
Definition rd (m : mem) (i : Z) : option Z := if inb m i then Some (rd_wr (m_wr m) (m_init m) i) else None.
Definition wr (m : mem) (i x : Z) : option mem :=
  if inb m i then Some {| m_len := m_len m; m_init := m_init m; m_wr := (i, x) :: m_wr m |} else None.
Definition peek (m : mem) (i : Z) : Z := rd_wr (m_wr m) (m_init m) i.

(* memmove(dst, dst+1, n) : shift left by one, ascending copy is exact for this overlap *)
Fixpoint shl1 (n : nat) (m : mem) (dst : Z) : option mem :=
  match n with
  | O => Some m
  | S k => match rd m (dst + 1) with
           | None => None
           | Some x => match wr m dst x with None => None | Some m' => shl1 k m' (dst + 1) end
           end
  end.

(* digit loop of iwitoa; state (ret, p, v, buf); `ptr` fixed *)
Fixpoint itoa_loop (fuel : nat) (ptr max ret p v : Z) (m : mem) : option (Z * Z * mem) :=
  match fuel with
  | O => Some (ret, p, m)   (* unreachable for |v| < 10^fuel *)
  | S f =>
    if v =? 0 then Some (ret, p, m)
    else
      let ret := ret + 1 in
      if ret >=? max then
        if p =? ptr then Some (ret, p, m)               (* `break` (fix: no room for a digit) *)
        else match shl1 (Z.to_nat (p - ptr)) m ptr with
             | None => None
             | Some m1 => match wr m1 (p - 1) (48 + v mod 10) with
                          | None => None
                          | Some m2 => itoa_loop f ptr max ret p (v / 10) m2
                          end
             end
      else match wr m p (48 + v mod 10) with
           | None => None
           | Some m2 => itoa_loop f ptr max ret (p + 1) (v / 10) m2
           end
  end.

(* in-place reversal `while (p > ptr) { c = *--p; *p = *ptr; *ptr++ = c; }` *)
Fixpoint rev_loop (fuel : nat) (ptr p : Z) (m : mem) : option mem :=
  match fuel with
  | O => Some m
  | S f =>
    if p >? ptr then
      let p := p - 1 in
      match rd m p, rd m ptr with
      | Some c, Some d =>
        match wr m p d with
        | Some m1 => match wr m1 ptr c with Some m2 => rev_loop f (ptr + 1) p m2 | None => None end
        | None => None
        end
      | _, _ => None
      end
    else Some m
  end.

Definition int64_min_text : list Z := [45;57;50;50;51;51;55;50;48;51;54;56;53;52;55;55;53;56;48;56].

Fixpoint wr_list (m : mem) (i : Z) (l : list Z) : option mem :=
  match l with [] => Some m | x :: r => match wr m i x with None => None | Some m' => wr_list m' (i + 1) r end end.

Definition itoa_digits (v : Z) (m0 : mem) (max ptr ret : Z) : option (Z * mem) :=
  match itoa_loop 20 ptr max ret ptr v m0 with
  | None => None
  | Some (ret', p, m1) =>
    match rev_loop 20 ptr p m1 with
    | None => None
    | Some m2 => match wr m2 p 0 with Some m3 => Some (ret', m3) | None => None end
    end
  end.

(* returns (ret, buffer) or None on an out-of-bounds access *)
Definition itoa (v : Z) (m : mem) (max : Z) : option (Z * mem) :=
  if max <? 1 then Some (0, m)                                    (* fix: zero-sized buffer *)
  else if v =? 0 then
    if 1 >=? max then match wr m 0 0 with Some m' => Some (1, m') | None => None end
    else match wr m 0 48 with
         | Some m1 => match wr m1 1 0 with Some m2 => Some (1, m2) | None => None end
         | None => None end
  else if v =? - 2 ^ 63 then                                       (* snprintf(buf, max, "-9223372036854775808") *)
    let n := Z.min (max - 1) 20 in
    match wr_list m 0 (firstn (Z.to_nat n) int64_min_text) with
    | Some m1 => match wr m1 n 0 with Some m2 => Some (20, m2) | None => None end
    | None => None end
  else if v <? 0 then
    if 1 >=? max then match wr m 0 0 with Some m' => Some (1, m') | None => None end
    else match wr m 0 45 with
         | None => None
         | Some m0 => itoa_digits (- v) m0 max 1 1
         end
  else itoa_digits v m max 0 0.

(* the C string held by a buffer: bytes up to the first NUL (or the end of the buffer) *)
Fixpoint cstr (fuel : nat) (m : mem) (i : Z) : list Z :=
  match fuel with O => [] | S f =>
    if inb m i then let c := peek m i in if c =? 0 then [] else c :: cstr f m (i + 1) else [] end.

(* iwatoi on the bytes of a C string (the list excludes the terminator, contains no 0).
   `char` is signed: c > '\0' && c <= ' '  is 1 <= c <= 32 for bytes < 128.
   num = num*10 + c - '0' wraps (the code relies on that for INT64_MIN): made explicit with sw 64. *)
Fixpoint skip_ws (s : list Z) : list Z :=
  match s with c :: r => if (1 <=? c) && (c <=? 32) then skip_ws r else s | [] => [] end.
Fixpoint atoi_digits (s : list Z) (num : Z) : Z :=
  match s with
  | c :: r => if (c <? 48) || (c >? 57) then num else atoi_digits r (sw 64 (num * 10 + c - 48))
  | [] => num end.
Definition is_inf (s : list Z) : bool :=
  match s with [105; 110; 102] => true | _ => false end.
Definition atoi (s : list Z) : Z :=
  let s := skip_ws s in
  let '(sign, s) := match s with 45 :: r => (-1, r) | 43 :: r => (1, r) | _ => (1, s) end in
  if is_inf s then sw 64 ((2 ^ 63 - 1) * sign)
  else sw 64 (atoi_digits s 0 * sign).

(* iwbin2hex / iwhex2bin (even length, max large enough) *)
Definition hexdigit (c : Z) : Z :=   (* (unsigned char)(87 + c + (((c - 10U) >> 8) & ~38U)) for 0 <= c < 16 *)
  uw 8 (87 + c + Z.land (Z.shiftr (uw 32 (c - 10)) 8) (uw 32 (Z.lnot 38))).
Fixpoint bin2hex (bin : list Z) : list Z :=
  match bin with [] => [] | b :: r => hexdigit (Z.shiftr b 4) :: hexdigit (Z.land b 15) :: bin2hex r end.
Definition a2h (c : Z) : Z := nth (Z.to_nat c) ascii2hex_tbl 0.
Fixpoint hex2bin_even (hex : list Z) : list Z :=
  match hex with
  | a :: b :: r => uw 8 (Z.lor (uw 8 (Z.shiftl (a2h a) 4)) (a2h b)) :: hex2bin_even r
  | _ => [] end.
Definition hex2bin (hex : list Z) : list Z :=
  if Z.odd (Z.of_nat (length hex)) then hex2bin_even (48 :: hex) else hex2bin_even hex.
