(* C18 - executable model of src/utils/iwhmap.c (hash map with optional LRU eviction).
   Buckets are lists of entries (used = length, total kept separately), the LRU list is an explicit
   doubly linked structure in a heap of nodes addressed by node ids; a dereference of a node id that is
   not allocated sets h_fault (the model's "touched freed memory").  The free callback is the log h_log.
   The model follows the code after fix 1c2938e (iwhmap_clear also resets lru_last).  No proofs here. *)
Require Import ZArith List Bool Lia.
Require Import IW.Gen.Facts.
Import ListNotations.
Local Open Scope Z_scope.

(* ---------------------------------------------------------------- hash functions of iwhmap.c / wyhash32.h *)
Definition u32 (x : Z) : Z := x mod 2 ^ 32.

Definition hash_u32 (x0 : Z) : Z :=
  let x := u32 x0 in
  let x := Z.lxor x (Z.shiftr x 17) in
  let x := u32 (x * 0xed5ad4bb) in
  let x := Z.lxor x (Z.shiftr x 11) in
  let x := u32 (x * 0xac4c1b51) in
  let x := Z.lxor x (Z.shiftr x 15) in
  let x := u32 (x * 0x31848bab) in
  Z.lxor x (Z.shiftr x 14).

Definition hash_u64 (x : Z) : Z :=
  let x := x mod 2 ^ 64 in
  Z.lxor (hash_u32 x) (hash_u32 (Z.shiftr x 31)).

Definition wymix32 (a b : Z) : Z * Z :=
  let c := Z.lxor a 0x53c5ca59 * Z.lxor b 0x74743c1b in
  (u32 c, u32 (Z.shiftr c 32)).

Definition byte_at (p : list Z) (i : nat) : Z := nth i p 0.
Definition wyr32 (p : list Z) : Z :=
  byte_at p 0 + byte_at p 1 * 2 ^ 8 + byte_at p 2 * 2 ^ 16 + byte_at p 3 * 2 ^ 24.
Definition wyr24 (p : list Z) (k : nat) : Z :=
  Z.lor (Z.lor (Z.shiftl (byte_at p 0) 16) (Z.shiftl (byte_at p (Nat.div k 2)) 8)) (byte_at p (k - 1)).

Fixpoint wy_loop (fuel : nat) (p : list Z) (seed see1 : Z) : list Z * Z * Z :=
  match fuel with
  | O => (p, seed, see1)
  | S f =>
    if (8 <? length p)%nat then
      let seed := Z.lxor seed (wyr32 p) in
      let see1 := Z.lxor see1 (wyr32 (skipn 4 p)) in
      let '(seed, see1) := wymix32 seed see1 in
      wy_loop f (skipn 8 p) seed see1
    else (p, seed, see1)
  end.

Definition wyhash32 (key : list Z) (seed0 : Z) : Z :=
  let len := Z.of_nat (length key) in
  let see1 := u32 len in
  let seed := Z.lxor seed0 (u32 (Z.shiftr len 32)) in
  let '(seed, see1) := wymix32 seed see1 in
  let '(p, seed, see1) := wy_loop (length key) key seed see1 in
  let i := length p in
  let '(seed, see1) :=
    if (4 <=? i)%nat then (Z.lxor seed (wyr32 p), Z.lxor see1 (wyr32 (skipn (i - 4) p)))
    else if (0 <? i)%nat then (Z.lxor seed (wyr24 p i), see1)
    else (seed, see1) in
  let '(seed, see1) := wymix32 seed see1 in
  let '(seed, see1) := wymix32 seed see1 in
  Z.lxor seed see1.

Definition hash_str (key : list Z) : Z := wyhash32 key 0x3017f643.
(* the user supplied hash of the pointer keyed map of the harness *)
Definition hash_ptr (x : Z) : Z := x mod 97.

(* ---------------------------------------------------------------- generic list helpers *)
Fixpoint set_nth {A} (i : nat) (x : A) (l : list A) : list A :=
  match l, i with
  | [], _ => []
  | _ :: t, O => x :: t
  | a :: t, S j => a :: set_nth j x t
  end.

(* ---------------------------------------------------------------- the map *)
Section Hmap.
Variable K : Type.
Variable keq : K -> K -> bool.   (* cmp_fn(a, b) == 0 *)
Variable hashf : K -> Z.         (* hash_key_fn *)

Record entry := mkE { e_key : K; e_val : Z; e_lru : option nat; e_hash : Z }.
Record bucket := mkB { b_ents : list entry; b_total : Z }.
Record node := mkN { n_next : option nat; n_prev : option nat; n_key : K }.

Definition heap := list (nat * node).

Fixpoint hget (h : heap) (n : nat) : option node :=
  match h with
  | [] => None
  | (m, x) :: t => if Nat.eqb m n then Some x else hget t n
  end.
Fixpoint hset (h : heap) (n : nat) (x : node) : heap :=
  match h with
  | [] => [(n, x)]
  | (m, y) :: t => if Nat.eqb m n then (m, x) :: t else (m, y) :: hset t n x
  end.
Fixpoint hdel (h : heap) (n : nat) : heap :=
  match h with
  | [] => []
  | (m, y) :: t => if Nat.eqb m n then hdel t n else (m, y) :: hdel t n
  end.

Record hmap := mkH {
  h_count : Z; h_mask : Z; h_bkts : list bucket;
  h_heap : heap; h_fresh : nat; h_first : option nat; h_last : option nat;
  h_max : option Z;                  (* lru_ev = iwhmap_lru_eviction_max_count with this bound, or no LRU *)
  h_ikp : bool;                      (* int_key_as_pointer_value *)
  h_fault : bool;                    (* an unallocated node / missing entry was dereferenced *)
  h_log : list (option K * Z) }.     (* calls of kv_free_fn, oldest first *)

Definition bempty : bucket := mkB [] 0.
Definition b_used (b : bucket) : Z := Z.of_nat (length (b_ents b)).

Definition hnew (max : option Z) (ikp : bool) : hmap :=
  mkH 0 (CONT_MIN_BUCKETS - 1) (repeat bempty (Z.to_nat CONT_MIN_BUCKETS)) [] 0 None None max ikp false [].

(* iwhmap_create: `if (!hash_key_fn) return 0;` (allocation failures are not modelled) *)
Definition hcreate (has_hash_fn : bool) (max : option Z) (ikp : bool) : option hmap :=
  if has_hash_fn then Some (hnew max ikp) else None.

Definition with_bkts (m : hmap) (bs : list bucket) : hmap :=
  mkH (h_count m) (h_mask m) bs (h_heap m) (h_fresh m) (h_first m) (h_last m) (h_max m) (h_ikp m) (h_fault m) (h_log m).
Definition with_count (m : hmap) (c : Z) : hmap :=
  mkH c (h_mask m) (h_bkts m) (h_heap m) (h_fresh m) (h_first m) (h_last m) (h_max m) (h_ikp m) (h_fault m) (h_log m).
Definition with_mask (m : hmap) (k : Z) : hmap :=
  mkH (h_count m) k (h_bkts m) (h_heap m) (h_fresh m) (h_first m) (h_last m) (h_max m) (h_ikp m) (h_fault m) (h_log m).
Definition with_heap (m : hmap) (h : heap) : hmap :=
  mkH (h_count m) (h_mask m) (h_bkts m) h (h_fresh m) (h_first m) (h_last m) (h_max m) (h_ikp m) (h_fault m) (h_log m).
Definition with_fresh (m : hmap) (n : nat) : hmap :=
  mkH (h_count m) (h_mask m) (h_bkts m) (h_heap m) n (h_first m) (h_last m) (h_max m) (h_ikp m) (h_fault m) (h_log m).
Definition with_first (m : hmap) (f : option nat) : hmap :=
  mkH (h_count m) (h_mask m) (h_bkts m) (h_heap m) (h_fresh m) f (h_last m) (h_max m) (h_ikp m) (h_fault m) (h_log m).
Definition with_last (m : hmap) (l : option nat) : hmap :=
  mkH (h_count m) (h_mask m) (h_bkts m) (h_heap m) (h_fresh m) (h_first m) l (h_max m) (h_ikp m) (h_fault m) (h_log m).
Definition with_max (m : hmap) (mx : option Z) : hmap :=
  mkH (h_count m) (h_mask m) (h_bkts m) (h_heap m) (h_fresh m) (h_first m) (h_last m) mx (h_ikp m) (h_fault m) (h_log m).
Definition set_fault (m : hmap) : hmap :=
  mkH (h_count m) (h_mask m) (h_bkts m) (h_heap m) (h_fresh m) (h_first m) (h_last m) (h_max m) (h_ikp m) true (h_log m).
Definition add_log (m : hmap) (x : option K * Z) : hmap :=
  mkH (h_count m) (h_mask m) (h_bkts m) (h_heap m) (h_fresh m) (h_first m) (h_last m) (h_max m) (h_ikp m) (h_fault m) (h_log m ++ [x]).
Definition clear_log (m : hmap) : hmap :=
  mkH (h_count m) (h_mask m) (h_bkts m) (h_heap m) (h_fresh m) (h_first m) (h_last m) (h_max m) (h_ikp m) (h_fault m) [].

(* what kv_free_fn receives as key *)
Definition fkey (m : hmap) (k : K) : option K := if h_ikp m then None else Some k.

(* hash & buckets_mask *)
Definition bidx (mask h : Z) : nat := Z.to_nat (Z.land h mask).
Definition bkt (bs : list bucket) (i : nat) : bucket := nth i bs bempty.

(* _entry_find: position inside the bucket *)
Fixpoint find_in (k : K) (h : Z) (es : list entry) : option nat :=
  match es with
  | [] => None
  | e :: t => if (h =? e_hash e) && keq k (e_key e) then Some O
              else match find_in k h t with Some i => Some (S i) | None => None end
  end.

Definition upd_entry (bs : list bucket) (bi ei : nat) (f : entry -> entry) : list bucket :=
  let b := bkt bs bi in
  match nth_error (b_ents b) ei with
  | Some e => set_nth bi (mkB (set_nth ei (f e) (b_ents b)) (b_total b)) bs
  | None => bs
  end.

(* _entry_add on a bucket array: grows total by STEPS when used + 1 >= total, then finds or appends.
   Result: array, bucket index, entry index, "was appended" *)
Definition entry_add (bs : list bucket) (mask : Z) (k : K) (h : Z) : list bucket * nat * nat * bool :=
  let bi := bidx mask h in
  let b := bkt bs bi in
  let tot := if b_used b + 1 >=? b_total b then b_total b + CONT_STEPS else b_total b in
  match find_in k h (b_ents b) with
  | Some ei => (set_nth bi (mkB (b_ents b) tot) bs, bi, ei, false)
  | None => (set_nth bi (mkB (b_ents b ++ [mkE k 0 None h]) tot) bs, bi, length (b_ents b), true)
  end.

(* all entries in iteration order *)
Definition ents (bs : list bucket) : list entry := flat_map b_ents bs.

(* _rehash: every entry of the old array, in order, is added to a zeroed array of num buckets *)
Definition rehash_step (mask : Z) (bs : list bucket) (e : entry) : list bucket :=
  let '(bs1, bi, ei, _) := entry_add bs mask (e_key e) (e_hash e) in
  upd_entry bs1 bi ei (fun x => mkE (e_key e) (e_val e) (e_lru e) (e_hash x)).

Definition rehash (m : hmap) (num : Z) : hmap :=
  let bs := fold_left (rehash_step (num - 1)) (ents (h_bkts m)) (repeat bempty (Z.to_nat num)) in
  with_mask (with_bkts m bs) (num - 1).

(* heap access with fault *)
Definition node_upd (m : hmap) (n : nat) (f : node -> node) : hmap :=
  match hget (h_heap m) n with
  | Some x => with_heap m (hset (h_heap m) n (f x))
  | None => set_fault m
  end.
Definition opt_node_upd (m : hmap) (on : option nat) (f : node -> node) : hmap :=
  match on with Some n => node_upd m n f | None => set_fault m end.

Definition set_next (v : option nat) (x : node) : node := mkN v (n_prev x) (n_key x).
Definition set_prev (v : option nat) (x : node) : node := mkN (n_next x) v (n_key x).
Definition set_key (k : K) (x : node) : node := mkN (n_next x) (n_prev x) k.

(* unlink the inner/first node n whose next is nx:  prev ? prev->next = nx : lru_first = nx;  nx->prev = prev *)
Definition unlink_mid (m : hmap) (prev : option nat) (nx : nat) : hmap :=
  let m1 := match prev with
            | Some p => node_upd m p (set_next (Some nx))
            | None => with_first m (Some nx)
            end in
  node_upd m1 nx (set_prev prev).

(* _lru_entry_update for the entry at (bi, ei) *)
Definition lru_update (m : hmap) (bi ei : nat) : hmap :=
  match nth_error (b_ents (bkt (h_bkts m) bi)) ei with
  | None => set_fault m
  | Some e =>
    match e_lru e with
    | Some n =>
      match hget (h_heap m) n with
      | None => set_fault m
      | Some x =>
        let m1 := node_upd m n (set_key (e_key e)) in
        match n_next x with
        | Some nx =>
          let m2 := unlink_mid m1 (n_prev x) nx in
          let m3 := opt_node_upd m2 (h_last m2) (set_next (Some n)) in
          let m4 := node_upd m3 n (fun y => mkN None (h_last m3) (n_key y)) in
          with_last m4 (Some n)
        | None => m1
        end
      end
    | None =>
      let n := h_fresh m in
      let m1 := with_fresh (with_bkts m (upd_entry (h_bkts m) bi ei
                  (fun x => mkE (e_key x) (e_val x) (Some n) (e_hash x)))) (S n) in
      match h_last m1 with
      | Some l =>
        let m2 := node_upd m1 l (set_next (Some n)) in
        with_last (with_heap m2 (hset (h_heap m2) n (mkN None (Some l) (e_key e)))) (Some n)
      | None =>
        with_last (with_first (with_heap m1 (hset (h_heap m1) n (mkN None None (e_key e)))) (Some n)) (Some n)
      end
    end
  end.

(* _lru_entry_remove for node n (the entry itself is about to disappear) *)
Definition lru_remove (m : hmap) (n : nat) : hmap :=
  match hget (h_heap m) n with
  | None => set_fault m
  | Some x =>
    let m1 :=
      match n_next x with
      | Some nx => unlink_mid m (n_prev x) nx
      | None =>
        match n_prev x with
        | Some p => with_last (node_upd m p (set_next None)) (Some p)
        | None => with_last (with_first m None) None
        end
      end in
    with_heap m1 (hdel (h_heap m1) n)
  end.

(* _entry_remove *)
Definition entry_remove (m : hmap) (bi ei : nat) : hmap :=
  let b := bkt (h_bkts m) bi in
  match nth_error (b_ents b) ei with
  | None => set_fault m
  | Some e =>
    let m1 := match e_lru e with Some n => lru_remove m n | None => m end in
    let m2 := add_log m1 (fkey m (e_key e), e_val e) in
    let es := b_ents b in
    let used := length es in
    let es1 := if (1 <? used)%nat
               then (if Nat.eqb ei (used - 1) then es else set_nth ei (last es e) es)
               else es in
    let es2 := removelast es1 in
    let m3 := with_count (with_bkts m2 (set_nth bi (mkB es2 (b_total b)) (h_bkts m2))) (h_count m2 - 1) in
    if (h_mask m3 >? CONT_MIN_BUCKETS - 1) && (h_count m3 <? h_mask m3 / 2)
    then rehash m3 ((h_mask m3 + 1) / 2)
    else
      let steps_used := Z.of_nat (length es2) / CONT_STEPS in
      let steps_total := b_total b / CONT_STEPS in
      if steps_used + 1 <? steps_total
      then with_bkts m3 (set_nth bi (mkB es2 ((steps_used + 1) * CONT_STEPS)) (h_bkts m3))
      else m3
  end.

(* iwhmap_lru_eviction_max_count(hm, max_count_val): iwhmap_count(hm) > max_count *)
Definition hevmax (m : hmap) (mx : Z) : bool := h_count m >? mx.

(* iwhmap_lru_init(hm, iwhmap_lru_eviction_max_count, mx) - at ANY time: only the two fields change.  Entries created
   before keep lru_node == 0 (e_lru = None), the recency list holds only the keys touched since.
   (iwhmap_lru_init(hm, 0, ..) on a map whose list is not empty is out of scope: the nodes stay behind.) *)
Definition hlruinit (m : hmap) (mx : Z) : hmap := with_max m (Some mx).

(* the eviction loop of iwhmap_put *)
Fixpoint evict (fuel : nat) (m : hmap) : hmap :=
  match fuel with
  | O => m
  | S f =>
    match h_first m, h_max m with
    | Some n, Some mx =>
      if hevmax m mx then
        match hget (h_heap m) n with
        | None => set_fault m
        | Some x =>
          let k := n_key x in
          let h := hashf k in
          let bi := bidx (h_mask m) h in
          match find_in k h (b_ents (bkt (h_bkts m) bi)) with
          | None => set_fault m     (* assert(entry) *)
          | Some ei => evict f (entry_remove m bi ei)
          end
        end
      else m
    | _, _ => m
    end
  end.

Definition lru_on (m : hmap) : bool := match h_max m with Some _ => true | None => false end.

(* store key/val into the slot returned by _entry_add after reporting the old content to kv_free_fn *)
Definition fill_slot (m : hmap) (bs : list bucket) (bi ei : nat) (isnew : bool) (k : K) (v : Z) : hmap :=
  let old := match nth_error (b_ents (bkt bs bi)) ei with
             | Some e => if isnew then (None, 0) else (fkey m (e_key e), e_val e)
             | None => (None, 0)
             end in
  let m1 := add_log (with_count (with_bkts m bs) (if isnew then h_count m + 1 else h_count m)) old in
  let m2 := with_bkts m1 (upd_entry (h_bkts m1) bi ei (fun x => mkE k v (e_lru x) (e_hash x))) in
  if lru_on m2 then lru_update m2 bi ei else m2.

Definition hput (m : hmap) (k : K) (v : Z) : hmap :=
  let h := hashf k in
  let '(bs, bi, ei, isnew) := entry_add (h_bkts m) (h_mask m) k h in
  let m1 := fill_slot m bs bi ei isnew k v in
  let m2 := if h_count m1 >? h_mask m1 then rehash m1 ((h_mask m1 + 1) * 2) else m1 in
  evict (S (Z.to_nat (h_count m2))) m2.

Definition hget_val (m : hmap) (k : K) : hmap * Z :=
  let h := hashf k in
  let bi := bidx (h_mask m) h in
  match find_in k h (b_ents (bkt (h_bkts m) bi)) with
  | Some ei =>
    let v := match nth_error (b_ents (bkt (h_bkts m) bi)) ei with Some e => e_val e | None => 0 end in
    ((if lru_on m then lru_update m bi ei else m), v)
  | None => (m, 0)
  end.

Definition hremove (m : hmap) (k : K) : hmap * bool :=
  let h := hashf k in
  let bi := bidx (h_mask m) h in
  match find_in k h (b_ents (bkt (h_bkts m) bi)) with
  | Some ei => (entry_remove m bi ei, true)
  | None => (m, false)
  end.

Definition hrename (m : hmap) (kold knew : K) : hmap :=
  let h := hashf kold in
  let bi := bidx (h_mask m) h in
  match find_in kold h (b_ents (bkt (h_bkts m) bi)) with
  | Some ei =>
    let v := match nth_error (b_ents (bkt (h_bkts m) bi)) ei with Some e => e_val e | None => 0 end in
    let m1 := with_bkts m (upd_entry (h_bkts m) bi ei (fun x => mkE (e_key x) 0 (e_lru x) (e_hash x))) in
    let m2 := entry_remove m1 bi ei in
    let h2 := hashf knew in
    let '(bs, bi2, ei2, isnew) := entry_add (h_bkts m2) (h_mask m2) knew h2 in
    fill_slot m2 bs bi2 ei2 isnew knew v
  | None => m
  end.

(* free the chain that starts at lru_first *)
Fixpoint free_chain (fuel : nat) (m : hmap) (cur : option nat) : hmap :=
  match fuel, cur with
  | S f, Some n =>
    match hget (h_heap m) n with
    | Some x => free_chain f (with_heap m (hdel (h_heap m) n)) (n_next x)
    | None => set_fault m
    end
  | _, _ => m
  end.

Definition log_all (m : hmap) : hmap :=
  fold_left (fun a e => add_log a (fkey m (e_key e), e_val e)) (ents (h_bkts m)) m.

Definition hclear (m : hmap) : hmap :=
  let m1 := log_all m in
  let shrink := h_mask m1 + 1 >? CONT_MIN_BUCKETS in
  let nb := if shrink then Z.to_nat CONT_MIN_BUCKETS else length (h_bkts m1) in
  let m2 := with_mask (with_bkts m1 (repeat bempty nb)) (if shrink then CONT_MIN_BUCKETS - 1 else h_mask m1) in
  let m3 := free_chain (S (length (h_heap m2))) m2 (h_first m2) in
  with_count (with_last (with_first m3 None) None) 0.

(* iwhmap_destroy: the callbacks and the release of the chain; nothing is left *)
Definition hdestroy (m : hmap) : hmap :=
  let m1 := log_all m in
  free_chain (S (length (h_heap m1))) m1 (h_first m1).

Definition hiter (m : hmap) : list (K * Z) := map (fun e => (e_key e, e_val e)) (ents (h_bkts m)).

(* iwhmap_iter_init / iwhmap_iter_next, step by step.  it_hm = (iter->hm != 0); it_cur = (iter->key, iter->val).
   `guard` = true is the code (since fix e161ae8: `if (!iter->hm || iter->bucket >= n_buckets) return false`); false is the code
   BEFORE that fix: a call with iter->bucket >= n_buckets (the state left behind by the call that returned false) read
   `bucket->used` one element past the bucket array: it_fault.  The old variant is kept for the refutation theorem. *)
Record iter := mkIt { it_hm : bool; it_bucket : nat; it_entry : Z; it_cur : option (K * Z); it_fault : bool }.

Definition iter_init (hm : bool) : iter := mkIt hm 0 (-1) None false.

(* for (++iter->bucket; iter->bucket < n; ++iter->bucket) if (bucket->used > 0) break; *)
Fixpoint iter_scan (fuel : nat) (bs : list bucket) (n i : nat) : nat :=
  match fuel with
  | O => i
  | S f => if (i <? n)%nat then (if 0 <? b_used (bkt bs i) then i else iter_scan f bs n (S i)) else i
  end.

Definition iter_next (guard : bool) (m : hmap) (it : iter) : iter * bool :=
  if negb (it_hm it) then (it, false) else
  let n := Z.to_nat (h_mask m + 1) in
  let past := (n <=? it_bucket it)%nat in
  if guard && past then (it, false) else
  let flt := it_fault it || past in
  let b := bkt (h_bkts m) (it_bucket it) in
  let e := it_entry it + 1 in
  if e >=? b_used b then
    let bk := iter_scan n (h_bkts m) n (S (it_bucket it)) in
    if (n <=? bk)%nat then (mkIt true bk 0 (it_cur it) flt, false)
    else match nth_error (b_ents (bkt (h_bkts m) bk)) 0 with
         | Some x => (mkIt true bk 0 (Some (e_key x, e_val x)) flt, true)
         | None => (mkIt true bk 0 (it_cur it) true, true)
         end
  else match nth_error (b_ents b) (Z.to_nat e) with
       | Some x => (mkIt true (it_bucket it) e (Some (e_key x, e_val x)) flt, true)
       | None => (mkIt true (it_bucket it) e (it_cur it) true, true)
       end.

(* while (iwhmap_iter_next(&it)) emit(it.key, it.val);  - result: the pairs, the iterator after the call that
   returned false, the number of calls that returned true *)
Fixpoint iter_run (guard : bool) (fuel : nat) (m : hmap) (it : iter) : list (K * Z) * iter * nat :=
  match fuel with
  | O => ([], it, O)
  | S f =>
    let '(it', ok) := iter_next guard m it in
    if ok then
      let '(l, itf, c) := iter_run guard f m it' in
      ((match it_cur it' with Some p => [p] | None => [] end) ++ l, itf, S c)
    else ([], it', O)
  end.

(* `hm iter` of the harness: init, then next until false (at most count + 1 calls are needed) *)
Definition hiter_steps (m : hmap) : list (K * Z) * iter * nat :=
  iter_run true (S (Z.to_nat (h_count m))) m (iter_init true).

(* forward walk of the LRU chain as the harness does it: keys, and whether prev links / last agree *)
Fixpoint lru_walk (fuel : nat) (h : heap) (prev cur : option nat) : list K * bool * option nat :=
  match fuel, cur with
  | S f, Some n =>
    match hget h n with
    | Some x =>
      let '(ks, ok, lastv) := lru_walk f h (Some n) (n_next x) in
      (n_key x :: ks, ok && (match n_prev x, prev with
                            | Some a, Some b => Nat.eqb a b | None, None => true | _, _ => false end), lastv)
    | None => ([], false, prev)
    end
  | O, Some _ => ([], false, prev)
  | _, None => ([], true, prev)
  end.

Definition hlru (m : hmap) : list K * bool :=
  let '(ks, ok, lastv) := lru_walk (S (Z.to_nat (h_count m) + 4)) (h_heap m) None (h_first m) in
  (ks, ok && (match lastv, h_last m with
              | Some a, Some b => Nat.eqb a b | None, None => true | _, _ => false end)).

(* mask and (index, used, total) of every bucket that is or was in use *)
Fixpoint shape_from (i : nat) (bs : list bucket) : list (nat * Z * Z) :=
  match bs with
  | [] => []
  | b :: t => if (0 <? b_used b) || (0 <? b_total b) then (i, b_used b, b_total b) :: shape_from (S i) t
              else shape_from (S i) t
  end.
Definition hshape (m : hmap) : Z * list (nat * Z * Z) := (h_mask m, shape_from 0 (h_bkts m)).

End Hmap.

(* ---------------------------------------------------------------- specification: association list + recency list *)
Section Spec.
Variable K : Type.
Variable keq : K -> K -> bool.

Record smap := mkS { s_al : list (K * Z); s_rec : list K; s_max : option Z; s_ikp : bool }.

Definition s_new (max : option Z) (ikp : bool) : smap := mkS [] [] max ikp.
Definition s_fkey (s : smap) (k : K) : option K := if s_ikp s then None else Some k.

Fixpoint al_find (k : K) (al : list (K * Z)) : option Z :=
  match al with
  | [] => None
  | (k', v) :: t => if keq k k' then Some v else al_find k t
  end.
Fixpoint al_remove (k : K) (al : list (K * Z)) : list (K * Z) :=
  match al with
  | [] => []
  | (k', v) :: t => if keq k k' then al_remove k t else (k', v) :: al_remove k t
  end.
Definition al_val (k : K) (al : list (K * Z)) : Z := match al_find k al with Some v => v | None => 0 end.
Definition rec_remove (k : K) (r : list K) : list K := filter (fun x => negb (keq k x)) r.
Definition lru_is_on (s : smap) : bool := match s_max s with Some _ => true | None => false end.
Definition rec_touch (s : smap) (k : K) : list K :=
  if lru_is_on s then rec_remove k (s_rec s) ++ [k] else s_rec s.

(* victims: the least recently used keys, oldest first, while the map holds more than max entries;
   the third component is what the free callback is told *)
Fixpoint s_evict (ikp : bool) (fuel : nat) (al : list (K * Z)) (r : list K) (mx : Z)
  : list (K * Z) * list K * list (option K * Z) :=
  match fuel, r with
  | S f, k :: r' =>
    if Z.of_nat (length al) >? mx then
      let '(al', r'', lg) := s_evict ikp f (al_remove k al) r' mx in
      (al', r'', ((if ikp then None else Some k), al_val k al) :: lg)
    else (al, r, [])
  | _, _ => (al, r, [])
  end.

Definition s_put (s : smap) (k : K) (v : Z) : smap * list (option K * Z) :=
  let old := match al_find k (s_al s) with Some ov => (s_fkey s k, ov) | None => (None, 0) end in
  let al := (k, v) :: al_remove k (s_al s) in
  let r := rec_touch s k in
  match s_max s with
  | Some mx =>
    let '(al', r', lg) := s_evict (s_ikp s) (S (length al)) al r mx in
    (mkS al' r' (s_max s) (s_ikp s), old :: lg)
  | None => (mkS al r (s_max s) (s_ikp s), [old])
  end.
Definition s_get (s : smap) (k : K) : smap * Z :=
  match al_find k (s_al s) with
  | Some v => (mkS (s_al s) (rec_touch s k) (s_max s) (s_ikp s), v)
  | None => (s, 0)
  end.
Definition s_remove (s : smap) (k : K) : smap * bool * list (option K * Z) :=
  match al_find k (s_al s) with
  | Some v => (mkS (al_remove k (s_al s)) (rec_remove k (s_rec s)) (s_max s) (s_ikp s), true, [(s_fkey s k, v)])
  | None => (s, false, [])
  end.
Definition s_rename (s : smap) (kold knew : K) : smap * list (option K * Z) :=
  match al_find kold (s_al s) with
  | Some v =>
    let al1 := al_remove kold (s_al s) in
    let old := match al_find knew al1 with Some ov => (s_fkey s knew, ov) | None => (None, 0) end in
    let al := (knew, v) :: al_remove knew al1 in
    let r := if lru_is_on s then rec_remove knew (rec_remove kold (s_rec s)) ++ [knew] else s_rec s in
    (mkS al r (s_max s) (s_ikp s), [(s_fkey s kold, 0); old])
  | None => (s, [])
  end.
Definition s_lruinit (s : smap) (mx : Z) : smap := mkS (s_al s) (s_rec s) (Some mx) (s_ikp s).
Definition s_clear (s : smap) : smap * list (option K * Z) :=
  (mkS [] [] (s_max s) (s_ikp s), map (fun p => (s_fkey s (fst p), snd p)) (s_al s)).
End Spec.

(* ---------------------------------------------------------------- call sequences, model and specification side by side *)
Section Run.
Variable K : Type.
Variable keq : K -> K -> bool.
Variable hashf : K -> Z.

Inductive hop := HPut (k : K) (v : Z) | HGet (k : K) | HRemove (k : K) | HRename (a b : K)
               | HClear | HCount | HIter | HLru | HLruInit (mx : Z).
Definition flog := list (option K * Z).
Inductive hout :=
  | OPut (n : Z) (lg : flog) | OGet (v : Z) (n : Z) (lg : flog) | ORemove (b : bool) (n : Z) (lg : flog)
  | ORename (n : Z) (lg : flog) | OClear (n : Z) (lg : flog) | OCount (n : Z)
  | OIter (l : list (K * Z)) | OLru (l : list K) (wf : bool) | OLruInit.

Definition h_step (m0 : hmap K) (op : hop) : hmap K * hout :=
  let m := clear_log K m0 in
  match op with
  | HPut k v => let m' := hput K keq hashf m k v in (m', OPut (h_count K m') (h_log K m'))
  | HGet k => let '(m', v) := hget_val K keq hashf m k in (m', OGet v (h_count K m') (h_log K m'))
  | HRemove k => let '(m', b) := hremove K keq hashf m k in (m', ORemove b (h_count K m') (h_log K m'))
  | HRename a b => let m' := hrename K keq hashf m a b in (m', ORename (h_count K m') (h_log K m'))
  | HClear => let m' := hclear K m in (m', OClear (h_count K m') (h_log K m'))
  | HCount => (m, OCount (h_count K m))
  | HIter => (m, OIter (hiter K m))
  | HLru => (m, let '(ks, ok) := hlru K m in OLru ks ok)
  | HLruInit mx => (hlruinit K m mx, OLruInit)
  end.

Definition s_step (s : smap K) (op : hop) : smap K * hout :=
  let n (s' : smap K) := Z.of_nat (length (s_al K s')) in
  match op with
  | HPut k v => let '(s', lg) := s_put K keq s k v in (s', OPut (n s') lg)
  | HGet k => let '(s', v) := s_get K keq s k in (s', OGet v (n s') [])
  | HRemove k => let '(s', b, lg) := s_remove K keq s k in (s', ORemove b (n s') lg)
  | HRename a b => let '(s', lg) := s_rename K keq s a b in (s', ORename (n s') lg)
  | HClear => let '(s', lg) := s_clear K s in (s', OClear 0 lg)
  | HCount => (s, OCount (n s))
  | HIter => (s, OIter (s_al K s))
  | HLru => (s, OLru (if lru_is_on K s then s_rec K s else []) true)
  | HLruInit mx => (s_lruinit K s mx, OLruInit)
  end.

Fixpoint h_run (m : hmap K) (ops : list hop) : list hout :=
  match ops with [] => [] | op :: t => let '(m', o) := h_step m op in o :: h_run m' t end.
Fixpoint s_run (s : smap K) (ops : list hop) : list hout :=
  match ops with [] => [] | op :: t => let '(s', o) := s_step s op in o :: s_run s' t end.
End Run.
