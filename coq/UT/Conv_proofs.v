(* iwatoi reads back the decimal text iwitoa writes; iwbin2hex / iwhex2bin round trip. *)
Require Import ZArith List Bool Lia. Import ListNotations.
Require Import IW.Lib.CInt IW.UT.Conv IW.JSON.TextSpec IW.JSON.Text IW.JSON.Text_proofs IW.Gen.Facts.
Local Open Scope Z_scope.
Ltac Zify.zify_post_hook ::= Z.div_mod_to_equations.

Lemma sw64_congr a b : (a - b) mod 2 ^ 64 = 0 -> sw 64 a = sw 64 b.
Proof.
  intros H. unfold sw. change (2 ^ (64 - 1)) with (2 ^ 63).
  assert (E : (a + 2 ^ 63) mod 2 ^ 64 = (b + 2 ^ 63) mod 2 ^ 64).
  { replace (a + 2 ^ 63) with ((b + 2 ^ 63) + (a - b)) by lia.
    rewrite Z.add_mod by lia. rewrite H, Z.add_0_r, Z.mod_mod by lia. reflexivity. }
  rewrite E. reflexivity.
Qed.
Lemma sw64_mod a : (sw 64 a - a) mod 2 ^ 64 = 0.
Proof. unfold sw. change (2 ^ (64 - 1)) with (2 ^ 63). lia. Qed.
Lemma sw64_small a : - 2 ^ 63 <= a < 2 ^ 63 -> sw 64 a = a.
Proof. intros H. unfold sw. change (2 ^ (64 - 1)) with (2 ^ 63). rewrite Z.mod_small; lia. Qed.

Lemma atoi_digits_fold : forall s num, Forall isdig s ->
  atoi_digits s (sw 64 num) = sw 64 (fold_left dstep s num).
Proof.
  induction s as [|c r IH]; intros num Hd; [reflexivity|].
  inversion Hd as [|? ? Hc Hr]; subst. unfold isdig in Hc. cbn [atoi_digits fold_left].
  assert (E1 : (c <? 48) = false) by lia. assert (E2 : (c >? 57) = false) by lia. rewrite E1, E2. cbn [orb].
  unfold dstep at 2.
  rewrite <- IH by exact Hr. f_equal. apply sw64_congr.
  pose proof (sw64_mod num) as Hm.
  replace (sw 64 num * 10 + c - 48 - (num * 10 + (c - 48))) with ((sw 64 num - num) * 10) by lia.
  rewrite Z.mul_mod by lia. rewrite Hm. reflexivity.
Qed.

Lemma skip_ws_digit c r : 33 <= c -> skip_ws (c :: r) = c :: r.
Proof. intros H. cbn [skip_ws]. assert (E : ((1 <=? c) && (c <=? 32)) = false) by lia. rewrite E. reflexivity. Qed.

Lemma dec_pos_nonempty_digits f v : 0 < v < 10 ^ Z.of_nat f ->
  exists d t, dec_pos f v [] = d :: t /\ 49 <= d <= 57 /\ Forall isdig (d :: t).
Proof.
  intros Hv. destruct (dec_pos_head f v [] Hv) as [d [t [E Hd]]]. exists d, t. split; [exact E|]. split; [exact Hd|].
  rewrite <- E. apply dec_pos_digits; [lia|constructor].
Qed.

Lemma is_inf_digits d t : 48 <= d <= 57 -> is_inf (d :: t) = false.
Proof.
  intros H.
  assert (E : d = 48 \/ d = 49 \/ d = 50 \/ d = 51 \/ d = 52 \/ d = 53 \/ d = 54 \/ d = 55 \/ d = 56 \/ d = 57) by lia.
  destruct E as [->|[->|[->|[->|[->|[->|[->|[->|[->| ->]]]]]]]]]; reflexivity.
Qed.

(* iwatoi (decimal text of n) = n for every 64-bit value, INT64_MIN included *)
Theorem atoi_dec : forall n, - 2 ^ 63 <= n < 2 ^ 63 -> atoi (dec n) = n.
Proof.
  intros n Hn. unfold dec.
  destruct (n =? 0) eqn:E0.
  - assert (n = 0) by lia. subst. reflexivity.
  - destruct (n <? 0) eqn:En.
    + assert (Hv : 0 < - n < 10 ^ Z.of_nat 20) by (change (10 ^ Z.of_nat 20) with 100000000000000000000; lia).
      destruct (dec_pos_nonempty_digits 20 (- n) Hv) as [d [t [E [Hd Hall]]]].
      unfold atoi. rewrite skip_ws_digit by lia. rewrite E.
      rewrite is_inf_digits by lia.
      change 0 with (sw 64 0) at 1. rewrite atoi_digits_fold by exact Hall.
      rewrite <- E. rewrite dec_pos_value by lia.
      destruct (Z.eq_dec n (- 2 ^ 63)) as [->|Hne]; [reflexivity|].
      rewrite (sw64_small (- n)) by lia. replace (- n * -1) with n by lia. apply sw64_small. lia.
    + assert (Hv : 0 < n < 10 ^ Z.of_nat 20) by (change (10 ^ Z.of_nat 20) with 100000000000000000000; lia).
      destruct (dec_pos_nonempty_digits 20 n Hv) as [d [t [E [Hd Hall]]]].
      unfold atoi. rewrite E. rewrite skip_ws_digit by lia.
      assert (Hm : match d :: t with 45 :: r => (-1, r) | 43 :: r => (1, r) | _ => (1, d :: t) end = (1, d :: t)).
      { assert (E9 : d = 49 \/ d = 50 \/ d = 51 \/ d = 52 \/ d = 53 \/ d = 54 \/ d = 55 \/ d = 56 \/ d = 57) by lia.
        destruct E9 as [->|[->|[->|[->|[->|[->|[->|[->| ->]]]]]]]]; reflexivity. }
      rewrite Hm. rewrite is_inf_digits by lia.
      change 0 with (sw 64 0) at 1. rewrite atoi_digits_fold by exact Hall.
      rewrite <- E. rewrite dec_pos_value by lia. rewrite Z.mul_1_r. rewrite (sw64_small n) by lia. apply sw64_small. lia.
Qed.

(* with the library's 32-byte number buffer iwitoa writes exactly that text (JSON/Text_proofs.v), hence: *)
Theorem itoa_atoi : forall n, - 2 ^ 63 <= n < 2 ^ 63 ->
  exists t, write_int n = Ok t /\ atoi t = n.
Proof. intros n Hn. exists (dec n). split; [apply write_int_dec; exact Hn|apply atoi_dec; exact Hn]. Qed.

(* ---- hex ---- *)
Definition byte_ok (b : Z) : bool := (0 <=? b) && (b <? 256).
Lemma hex_byte_sweep :
  forallb (fun b => match hex2bin_even [hexdigit (Z.shiftr b 4); hexdigit (Z.land b 15)] with [x] => x =? b | _ => false end)
          (map Z.of_nat (seq 0 256)) = true.
Proof. vm_compute. reflexivity. Qed.

Lemma hex_byte b : 0 <= b < 256 ->
  hex2bin_even (hexdigit (Z.shiftr b 4) :: hexdigit (Z.land b 15) :: []) = [b].
Proof.
  intros Hb. pose proof hex_byte_sweep as H. rewrite forallb_forall in H.
  specialize (H b). assert (Hin : In b (map Z.of_nat (seq 0 256))).
  { apply in_map_iff. exists (Z.to_nat b). split; [lia|]. apply in_seq. lia. }
  specialize (H Hin). destruct (hex2bin_even [hexdigit (Z.shiftr b 4); hexdigit (Z.land b 15)]) as [|x [|y l]]; try discriminate.
  f_equal. lia.
Qed.

Lemma hex2bin_even_cons a b r : hex2bin_even (a :: b :: r) = hex2bin_even [a; b] ++ hex2bin_even r.
Proof. reflexivity. Qed.

Lemma bin2hex_length l : length (bin2hex l) = (2 * length l)%nat.
Proof. induction l as [|b l IH]; simpl; [reflexivity|]. rewrite IH. lia. Qed.

Theorem hex_roundtrip : forall l, Forall (fun b => 0 <= b < 256) l -> hex2bin (bin2hex l) = l.
Proof.
  intros l Hl. unfold hex2bin.
  assert (Ho : Z.odd (Z.of_nat (length (bin2hex l))) = false).
  { rewrite bin2hex_length. rewrite Nat2Z.inj_mul. rewrite Z.odd_mul. reflexivity. }
  rewrite Ho. clear Ho. induction l as [|b l IH]; [reflexivity|].
  inversion Hl as [|? ? Hb Hl']; subst. cbn [bin2hex]. rewrite hex2bin_even_cons. rewrite hex_byte by exact Hb.
  rewrite IH by exact Hl'. reflexivity.
Qed.
