(* C18 - hash map: OWNERSHIP over whole lives of a map (every path of kv_free_fn: replace in put, remove, rename,
   clear, LRU eviction and iwhmap_destroy).
     - destroy after any call sequence reports exactly the entries still held, releases every LRU node, no fault;
       every value put is freed exactly once by the end of the map's life;
     - key instances (maps that own their keys): handed to the map = passed to kv_free_fn + still held;
       int_key_as_pointer_value maps never show a key to the callback;
     - nothing is reported to the callback while still reachable, nothing is reported twice.
   Built on the simulation of Hmap_proofs.v. *)
Require Import ZArith List Bool Lia Permutation.
Require Import IW.Gen.Facts IW.UT.Hmap IW.UT.Hmap_inv_proofs IW.UT.Hmap_bkt_proofs IW.UT.Hmap_dll_proofs IW.UT.Hmap_proofs.
Import ListNotations.
Local Open Scope Z_scope.

(* ------------------------------------------------------------------ definitions used by the statements *)
Section OwnDefs.
Variable K : Type.
Variable keq : K -> K -> bool.

(* the keys shown to kv_free_fn *)
Definition okeys (l : flog K) : list K :=
  flat_map (fun p => match fst p with Some k => [k] | None => [] end) l.
Definition freed_keys (outs : list (hout K)) : list K := flat_map (fun o => okeys (out_log K o)) outs.

(* the key instance a call hands over to the map: iwhmap_put always stores `key`; iwhmap_rename stores key_new only
   when key_old is present (otherwise the caller keeps it) *)
Definition key_in (s : smap K) (op : hop K) : list K :=
  match op with
  | HPut _ k _ => [k]
  | HRename _ a b => match al_find K keq a (s_al K s) with Some _ => [b] | None => [] end
  | _ => []
  end.
Fixpoint handed (s : smap K) (ops : list (hop K)) : list K :=
  match ops with
  | [] => []
  | op :: t => key_in s op ++ handed (fst (s_step K keq s op)) t
  end.
End OwnDefs.

Section Own.
Variable K : Type.
Variable keq : K -> K -> bool.
Variable hashf : K -> Z.
Hypothesis keq_spec : forall a b, keq a b = true <-> a = b.

Notation R := (R K hashf).
Notation h_exec := (h_exec K keq hashf).
Notation s_exec := (s_exec K keq).
Notation h_run := (h_run K keq hashf).
Notation s_run := (s_run K keq).
Notation h_step := (h_step K keq hashf).
Notation s_step := (s_step K keq).
Notation okeys := (okeys K).
Notation freed_keys := (freed_keys K).
Notation handed := (handed K keq).
Notation key_in := (key_in K keq).
Notation al_find := (al_find K keq).
Notation al_remove := (al_remove K keq).

Ltac splits := repeat match goal with |- _ /\ _ => split end.

(* ------------------------------------------------------------------ list helpers *)
Lemma okeys_app : forall a b, okeys (a ++ b) = okeys a ++ okeys b.
Proof. intros. unfold Hmap_own_proofs.okeys. apply flat_map_app. Qed.

Lemma okeys_perm : forall a b, Permutation a b -> Permutation (okeys a) (okeys b).
Proof.
  intros a b HP. unfold Hmap_own_proofs.okeys. induction HP; simpl.
  - constructor.
  - apply Permutation_app_head. assumption.
  - rewrite !app_assoc. apply Permutation_app_tail. apply Permutation_app_comm.
  - eapply Permutation_trans; eassumption.
Qed.

Lemma nodup_app_disj : forall (A : Type) (a b : list A) x, NoDup (a ++ b) -> In x a -> ~ In x b.
Proof.
  intros A a b x. induction a as [|y t IH]; simpl; intros Hnd Hi Hb; [contradiction|].
  inversion Hnd as [|z l Hni Hnd']; subst. destruct Hi as [Hi|Hi].
  - subst y. apply Hni. apply in_or_app. right. exact Hb.
  - exact (IH Hnd' Hi Hb).
Qed.

Lemma nodup_app_r : forall (A : Type) (a b : list A), NoDup (a ++ b) -> NoDup b.
Proof.
  intros A a b. induction a as [|y t IH]; simpl; intro H; [exact H|].
  inversion H; subst. apply IH. assumption.
Qed.

Lemma in_nz : forall v l, In v l -> v <> 0 -> In v (nz l).
Proof.
  intros v l Hi Hne. unfold nz. apply filter_In. split; [exact Hi|].
  destruct (v =? 0) eqn:E; [apply Z.eqb_eq in E; contradiction | reflexivity].
Qed.

(* ------------------------------------------------------------------ runs over concatenated call sequences *)
Lemma h_exec_app : forall ops1 ops2 m, h_exec m (ops1 ++ ops2) = h_exec (h_exec m ops1) ops2.
Proof. induction ops1 as [|op t IH]; intros ops2 m; simpl; [reflexivity | apply IH]. Qed.

Lemma h_run_app : forall ops1 ops2 m, h_run m (ops1 ++ ops2) = h_run m ops1 ++ h_run (h_exec m ops1) ops2.
Proof.
  induction ops1 as [|op t IH]; intros ops2 m; simpl; [reflexivity|].
  destruct (h_step m op) as [m' o] eqn:E. simpl. rewrite IH. reflexivity.
Qed.

Lemma puts_app : forall a b, puts K (a ++ b) = puts K a ++ puts K b.
Proof. induction a as [|op t IH]; intro b; simpl; [reflexivity|]. rewrite IH, app_assoc. reflexivity. Qed.

Lemma freed_app : forall a b, freed K (a ++ b) = freed K a ++ freed K b.
Proof. intros. unfold freed. apply flat_map_app. Qed.

Lemma freed_keys_app : forall a b, freed_keys (a ++ b) = freed_keys a ++ freed_keys b.
Proof. intros. unfold Hmap_own_proofs.freed_keys. apply flat_map_app. Qed.

(* ------------------------------------------------------------------ iwhmap_destroy *)
Lemma hdestroy_ok : forall m s, R m s -> h_log K m = [] ->
  let d := hdestroy K m in
  h_log K d = map (fun p => (fkey K m (fst p), snd p)) (hiter K m) /\
  (forall n, hget K (h_heap K d) n = None) /\ h_fault K d = false.
Proof.
  intros m s [L [Hinv _]] Hlog0 d. subst d. unfold hdestroy, log_all.
  destruct (log_fold K (fun e => (fkey K m (e_key K e), e_val K e)) (ents K (h_bkts K m)) m) as [Hc1 [Hik1 Hlog1]].
  set (m1 := fold_left (fun a e => add_log K a (fkey K m (e_key K e), e_val K e)) (ents K (h_bkts K m)) m) in *.
  destruct Hc1 as [Ec [Em [Eb [Eh [Efr [Ef [El [Emx Efa]]]]]]]].
  assert (Hd1 : dll K m1 L) by (apply (dll_ext K m); try assumption; exact (inv_dll K hashf m L Hinv)).
  assert (Hfuel : (length L < S (length (h_heap K m1)))%nat).
  { pose proof (dll_length K m1 L Hd1). lia. }
  destruct (free_chain_ok K m1 L _ Hd1 Hfuel) as [Hf3 [Hh3 _]].
  destruct Hf3 as [Fc [Fm [Fb [Ffr [Fmx [Fik [Ffa Flg]]]]]]].
  splits.
  - rewrite Flg, Hlog1, Hlog0. simpl. unfold hiter. rewrite map_map. reflexivity.
  - exact Hh3.
  - rewrite Ffa, Efa. exact (inv_fault K hashf m L Hinv).
Qed.

(* destroy after ANY call sequence: the callback sees exactly the entries still held (in iteration order), every
   LRU node is released, no freed node is touched; together with the log of the run every value put is freed exactly once *)
Theorem destroy_frees_rest : forall max ikp ops,
  let m := clear_log K (h_exec (hnew K max ikp) ops) in
  let d := hdestroy K m in
  h_log K d = map (fun p => (fkey K m (fst p), snd p)) (hiter K m) /\
  (forall n, hget K (h_heap K d) n = None) /\
  h_fault K d = false /\
  Permutation (nz (puts K ops)) (nz (freed K (h_run (hnew K max ikp) ops) ++ lvals K (h_log K d))).
Proof.
  intros max ikp ops m d.
  pose proof (exec_sim K keq hashf keq_spec ops _ _ (R_new K hashf max ikp)) as HR.
  destruct (R_clear_log K hashf _ _ HR) as [HR0 Hl0]. fold m in HR0, Hl0.
  destruct (hdestroy_ok m _ HR0 Hl0) as [Hlog [Hheap Hfault]]. fold d in Hlog, Hheap, Hfault.
  splits; try assumption.
  eapply Permutation_trans; [apply (freed_exactly_once K keq hashf keq_spec max ikp ops)|].
  rewrite Hlog. unfold lvals. rewrite map_map. simpl. subst m. apply Permutation_refl.
Qed.

(* ------------------------------------------------------------------ nothing is freed while reachable, nothing twice *)
Theorem freed_not_held : forall max ikp ops op, NoDup (nz (puts K (ops ++ [op]))) ->
  let m := h_exec (hnew K max ikp) ops in
  let m' := fst (h_step m op) in
  let o := snd (h_step m op) in
  forall v, v <> 0 -> In v (lvals K (out_log K o)) ->
    ~ In v (map snd (hiter K m')) /\ ~ In v (freed K (h_run (hnew K max ikp) ops)).
Proof.
  intros max ikp ops op Hnd m m' o v Hv Hin.
  pose proof (Permutation_NoDup (freed_exactly_once K keq hashf keq_spec max ikp (ops ++ [op])) Hnd) as H.
  rewrite h_run_app, h_exec_app in H. fold m in H. simpl in H.
  destruct (h_step m op) as [m1 o1] eqn:E. simpl in m', o. subst m' o.
  simpl in H. rewrite freed_app in H. simpl in H. rewrite app_nil_r in H.
  rewrite <- app_assoc in H. rewrite !nz_app in H.
  assert (Hvn : In v (nz (lvals K (out_log K o1)))) by (apply in_nz; assumption).
  split.
  - intro Hh. apply nodup_app_r in H. eapply nodup_app_disj; [exact H | exact Hvn | apply in_nz; assumption].
  - intro Hf. eapply nodup_app_disj; [exact H | apply in_nz; [exact Hf | exact Hv] | apply in_or_app; left; exact Hvn].
Qed.

(* ------------------------------------------------------------------ keys *)
Lemma keys_remove_found : forall k v (al : list (K * Z)), NoDup (map fst al) -> al_find k al = Some v ->
  Permutation (map fst al) (k :: map fst (al_remove k al)).
Proof.
  intros k v al. induction al as [|[k' v'] t IH]; simpl; intros Hnd Hf; [discriminate|].
  inversion Hnd as [|x l Hni Hnd']; subst.
  destruct (keq k k') eqn:E.
  - apply keq_spec in E. subst k'. rewrite (al_remove_notin K keq keq_spec); [apply Permutation_refl | exact Hni].
  - simpl. eapply Permutation_trans; [constructor; apply IH; assumption | apply perm_swap].
Qed.

Lemma al_find_some_key : forall k v (al : list (K * Z)), al_find k al = Some v -> In k (map fst al).
Proof.
  intros k v al Hf. apply (al_find_some_in K keq keq_spec) in Hf.
  change k with (fst (k, v)). apply in_map. exact Hf.
Qed.

Lemma in_keys_find : forall k (al : list (K * Z)), In k (map fst al) -> exists v, al_find k al = Some v.
Proof.
  intros k al Hi. destruct (al_find k al) as [v|] eqn:E; [exists v; reflexivity|].
  exfalso. exact (al_find_none_inv K keq keq_spec k al E Hi).
Qed.

(* what the old content of the slot contributes to the callback's keys (maps that own their keys) *)
Lemma old_keys : forall (k : K) (al : list (K * Z)), NoDup (map fst al) ->
  Permutation (map fst al)
    (okeys [match al_find k al with Some ov => (Some k, ov) | None => (None, 0) end] ++ map fst (al_remove k al)).
Proof.
  intros k al Hnd. destruct (al_find k al) as [ov|] eqn:E; simpl.
  - eapply keys_remove_found; eassumption.
  - rewrite (al_remove_notin K keq keq_spec); [apply Permutation_refl|].
    exact (al_find_none_inv K keq keq_spec k al E).
Qed.

Lemma s_evict_keys : forall fuel (al : list (K * Z)) r mx al' r' lg,
  NoDup (map fst al) -> NoDup r -> incl r (map fst al) ->
  s_evict K keq false fuel al r mx = (al', r', lg) ->
  Permutation (map fst al) (okeys lg ++ map fst al') /\ NoDup (map fst al').
Proof.
  induction fuel as [|f IH]; intros al r mx al' r' lg Hnd Hndr Hincl Hev.
  - simpl in Hev. inversion Hev; subst. simpl. split; [apply Permutation_refl | exact Hnd].
  - rewrite s_evict_S in Hev. destruct r as [|k r0].
    + inversion Hev; subst. simpl. split; [apply Permutation_refl | exact Hnd].
    + destruct (Z.of_nat (length al) >? mx).
      * destruct (s_evict K keq false f (al_remove k al) r0 mx) as [[al1 r1] lg1] eqn:Hrec.
        inversion Hev; subst. inversion Hndr as [|k' r0' Hkn Hnd0]; subst.
        assert (Hk : In k (map fst al)) by (apply Hincl; left; reflexivity).
        destruct (in_keys_find k al Hk) as [v Hf].
        assert (Hincl0 : incl r0 (map fst (al_remove k al))).
        { intros x Hx. apply (al_remove_keys K keq keq_spec). split; [apply Hincl; right; exact Hx|].
          intro Heq. subst x. contradiction. }
        destruct (IH _ _ _ _ _ _ (al_remove_nodup K keq keq_spec k al Hnd) Hnd0 Hincl0 Hrec) as [HP1 Hnd1].
        split; [|exact Hnd1].
        eapply Permutation_trans; [eapply keys_remove_found; eassumption|].
        simpl. constructor. exact HP1.
      * inversion Hev; subst. simpl. split; [apply Permutation_refl | exact Hnd].
Qed.

Lemma nodup_put : forall k v (al : list (K * Z)), NoDup (map fst al) -> NoDup (map fst ((k, v) :: al_remove k al)).
Proof.
  intros k v al Hnd. simpl. constructor; [|apply (al_remove_nodup K keq keq_spec); exact Hnd].
  intro Hi. apply (al_remove_keys K keq keq_spec) in Hi. destruct Hi as [_ Hne]. congruence.
Qed.

Lemma rec_touch_incl : forall (s : smap K) k v, incl (s_rec K s) (map fst (s_al K s)) ->
  incl (rec_touch K keq s k) (map fst ((k, v) :: al_remove k (s_al K s))).
Proof.
  intros s k v Hincl x Hx. unfold rec_touch in Hx. simpl.
  destruct (keq x k) eqn:E; [apply keq_spec in E; left; congruence|].
  right. apply (al_remove_keys K keq keq_spec).
  assert (Hne : x <> k) by (intro Heq; subst; rewrite (keq_refl K keq keq_spec) in E; discriminate).
  split; [|exact Hne]. apply Hincl.
  destruct (lru_is_on K s); [|exact Hx].
  apply in_app_or in Hx. destruct Hx as [Hx|[Hx|[]]]; [|congruence].
  apply (rec_remove_in K keq keq_spec) in Hx. tauto.
Qed.

Lemma rec_touch_nd : forall (s : smap K) k, NoDup (s_rec K s) -> NoDup (rec_touch K keq s k).
Proof.
  intros s k Hnd. unfold rec_touch. destruct (lru_is_on K s); [apply (rec_touch_nodup K keq keq_spec); exact Hnd | exact Hnd].
Qed.

Lemma okeys_all : forall al : list (K * Z), okeys (map (fun p => (Some (fst p), snd p)) al) = map fst al.
Proof. induction al as [|[k v] t IH]; simpl; [reflexivity|]. f_equal. exact IH. Qed.

(* one call, maps that own their keys: keys held before + the key handed over = keys shown to the callback + keys held after *)
Lemma s_step_keys : forall s op, NoDup (map fst (s_al K s)) -> NoDup (s_rec K s) ->
  incl (s_rec K s) (map fst (s_al K s)) -> s_ikp K s = false ->
  let '(s', o') := s_step s op in
  Permutation (key_in s op ++ map fst (s_al K s)) (okeys (out_log K o') ++ map fst (s_al K s')).
Proof.
  intros s op Hnd Hndr Hincl Hik. destruct op as [k v|k|k|a b| | | | |mx]; unfold Hmap.s_step.
  - (* put *)
    unfold s_put, s_fkey. rewrite Hik.
    set (old := match al_find k (s_al K s) with Some ov => (Some k, ov) | None => (None, 0) end).
    pose proof (old_keys k (s_al K s) Hnd) as Hold. fold old in Hold.
    destruct (s_max K s) as [mx|].
    + destruct (s_evict K keq false (S (length ((k, v) :: al_remove k (s_al K s))))
                  ((k, v) :: al_remove k (s_al K s)) (rec_touch K keq s k) mx) as [[al' r'] lg] eqn:Hev.
      destruct (s_evict_keys _ _ _ _ _ _ _ (nodup_put k v _ Hnd) (rec_touch_nd s k Hndr)
                  (rec_touch_incl s k v Hincl) Hev) as [HPe _].
      cbn [s_al out_log key_in]. change (old :: lg) with ([old] ++ lg). rewrite okeys_app, <- app_assoc.
      simpl app at 1.
      eapply Permutation_trans; [constructor; exact Hold|].
      eapply Permutation_trans; [apply Permutation_middle|].
      apply Permutation_app_head. exact HPe.
    + cbn [s_al out_log key_in]. simpl app at 1. simpl map at 2.
      eapply Permutation_trans; [constructor; exact Hold|]. apply Permutation_middle.
  - (* get *)
    unfold s_get. destruct (al_find k (s_al K s)); cbn [s_al out_log key_in]; simpl; apply Permutation_refl.
  - (* remove *)
    unfold s_remove, s_fkey. rewrite Hik. destruct (al_find k (s_al K s)) as [v|] eqn:Hf; cbn [s_al out_log key_in]; simpl.
    + eapply keys_remove_found; eassumption.
    + apply Permutation_refl.
  - (* rename *)
    unfold s_rename, s_fkey. rewrite Hik. cbn [key_in].
    destruct (al_find a (s_al K s)) as [v|] eqn:Hf; cbn [s_al out_log]; [|simpl; apply Permutation_refl].
    set (al1 := al_remove a (s_al K s)).
    assert (Hnd1 : NoDup (map fst al1)) by (apply (al_remove_nodup K keq keq_spec); exact Hnd).
    set (old := match al_find b al1 with Some ov => (Some b, ov) | None => (None, 0) end).
    pose proof (old_keys b al1 Hnd1) as Hold. fold old in Hold.
    pose proof (keys_remove_found a v (s_al K s) Hnd Hf) as Ha. fold al1 in Ha.
    change [(Some a, 0); old] with ([(Some a, 0)] ++ [old]). rewrite okeys_app, <- app_assoc.
    change ([b] ++ map fst (s_al K s)) with (b :: map fst (s_al K s)).
    change (okeys [(Some a, 0)] ++ okeys [old] ++ map fst ((b, v) :: al_remove b al1))
      with (a :: okeys [old] ++ b :: map fst (al_remove b al1)).
    eapply Permutation_trans; [constructor; exact Ha|].
    eapply Permutation_trans; [apply perm_swap|]. constructor.
    eapply Permutation_trans; [constructor; exact Hold|]. apply Permutation_middle.
  - (* clear *)
    unfold s_clear, s_fkey. rewrite Hik. cbn [s_al out_log key_in]. simpl. rewrite app_nil_r.
    rewrite okeys_all. apply Permutation_refl.
  - simpl. apply Permutation_refl.
  - simpl. apply Permutation_refl.
  - simpl. apply Permutation_refl.
  - simpl. apply Permutation_refl.
Qed.

Lemma s_step_ikp : forall s op, s_ikp K (fst (s_step s op)) = s_ikp K s.
Proof.
  intros s op. destruct op as [k v|k|k|a b| | | | |mx]; unfold Hmap.s_step.
  - unfold s_put. destruct (s_max K s).
    + destruct (s_evict K keq (s_ikp K s) _ _ _ _) as [[al' r'] lg]. reflexivity.
    + reflexivity.
  - unfold s_get. destruct (al_find k (s_al K s)); reflexivity.
  - unfold s_remove. destruct (al_find k (s_al K s)); reflexivity.
  - unfold s_rename. destruct (al_find a (s_al K s)); reflexivity.
  - reflexivity.
  - reflexivity.
  - reflexivity.
  - reflexivity.
  - reflexivity.
Qed.

Lemma s_exec_ikp : forall ops s, s_ikp K (s_exec s ops) = s_ikp K s.
Proof. induction ops as [|op t IH]; intro s; simpl; [reflexivity|]. rewrite IH. apply s_step_ikp. Qed.

(* what the simulation relation says about the specification state alone *)
Lemma R_spec_inv : forall m s, R m s ->
  NoDup (map fst (s_al K s)) /\ NoDup (s_rec K s) /\ incl (s_rec K s) (map fst (s_al K s)).
Proof.
  intros m s HR. pose proof (R_nodup_al K hashf m s HR) as Hnd.
  destruct HR as [L [Hinv [HPal [Hrr [Hndr _]]]]]. splits; try assumption.
  intros k Hk. pose proof (recrel_keys_in K hashf m L _ Hinv Hrr k Hk) as Hin.
  rewrite <- (al_of_keys K) in Hin. eapply Permutation_in; [apply Permutation_map; exact HPal | exact Hin].
Qed.

Lemma run_keys : forall ops m s, R m s -> s_ikp K s = false ->
  Permutation (handed s ops ++ map fst (s_al K s))
              (freed_keys (s_run s ops) ++ map fst (s_al K (s_exec s ops))).
Proof.
  induction ops as [|op t IH]; intros m s HR Hik; simpl; [apply Permutation_refl|].
  destruct (R_spec_inv m s HR) as [Hnd [Hndr Hincl]].
  pose proof (s_step_keys s op Hnd Hndr Hincl Hik) as Hst.
  pose proof (step_sim K keq hashf keq_spec m s op HR) as Hsim.
  pose proof (s_step_ikp s op) as Hik'.
  destruct (h_step m op) as [m' o]. destruct (s_step s op) as [s' o'] eqn:Hs. simpl in Hik'.
  destruct Hsim as [HR' _].
  specialize (IH m' s' HR' ltac:(congruence)).
  simpl. rewrite <- !app_assoc.
  eapply Permutation_trans; [apply Permutation_app_swap_app|].
  eapply Permutation_trans; [apply Permutation_app_head; exact Hst|].
  eapply Permutation_trans; [apply Permutation_app_swap_app|].
  apply Permutation_app_head. exact IH.
Qed.

Lemma out_equiv_flog : forall o o', out_equiv K o o' -> Permutation (out_log K o) (out_log K o').
Proof.
  intros o o' H. destruct o, o'; simpl in H; try contradiction; simpl;
    try apply Permutation_refl; try (destruct H as [? ?]); try (destruct H0 as [? ?]); subst; try apply Permutation_refl.
  assumption.
Qed.

Lemma freed_keys_equiv : forall outs outs', Forall2 (out_equiv K) outs outs' ->
  Permutation (freed_keys outs) (freed_keys outs').
Proof.
  intros outs outs' H. induction H as [|o o' t t' Ho H IH]; simpl; [constructor|].
  apply Permutation_app; [apply okeys_perm; apply out_equiv_flog; exact Ho | exact IH].
Qed.

(* KEYS, maps that own their keys (int_key_as_pointer_value = false; iwhmap_create_str / iwhmap_create): over every
   call sequence the key instances handed to the map are, as a multiset, the keys passed to kv_free_fn plus the
   keys still held *)
Theorem keys_conserved : forall max ops,
  Permutation (handed (s_new K max false) ops)
    (freed_keys (h_run (hnew K max false) ops) ++ map fst (hiter K (h_exec (hnew K max false) ops))).
Proof.
  intros max ops.
  pose proof (run_keys ops _ _ (R_new K hashf max false) eq_refl) as H.
  simpl (map fst (s_al K (s_new K max false))) in H. rewrite app_nil_r in H.
  eapply Permutation_trans; [exact H|]. apply Permutation_app.
  - apply Permutation_sym. apply freed_keys_equiv. apply (hmap_refines_map K keq hashf keq_spec).
  - pose proof (exec_sim K keq hashf keq_spec ops _ _ (R_new K hashf max false)) as [L [_ [HP _]]].
    apply Permutation_map. apply Permutation_sym. exact HP.
Qed.

Lemma exec_ikp : forall max ikp ops, h_ikp K (h_exec (hnew K max ikp) ops) = ikp.
Proof.
  intros max ikp ops.
  pose proof (exec_sim K keq hashf keq_spec ops _ _ (R_new K hashf max ikp)) as [L [_ [_ [_ [_ [_ Hik]]]]]].
  rewrite <- Hik. rewrite s_exec_ikp. reflexivity.
Qed.

(* ... and by the end of the map's life (iwhmap_destroy) every key instance handed over was passed to kv_free_fn once *)
Theorem keys_freed_by_destroy : forall max ops,
  let d := hdestroy K (clear_log K (h_exec (hnew K max false) ops)) in
  Permutation (handed (s_new K max false) ops)
    (freed_keys (h_run (hnew K max false) ops) ++ okeys (h_log K d)).
Proof.
  intros max ops d.
  destruct (destroy_frees_rest max false ops) as [Hlog _]. fold d in Hlog.
  eapply Permutation_trans; [apply keys_conserved|]. apply Permutation_app_head.
  rewrite Hlog. unfold fkey. change (h_ikp K (clear_log K (h_exec (hnew K max false) ops)))
    with (h_ikp K (h_exec (hnew K max false) ops)). rewrite exec_ikp.
  change (hiter K (clear_log K (h_exec (hnew K max false) ops))) with (hiter K (h_exec (hnew K max false) ops)).
  rewrite okeys_all. apply Permutation_refl.
Qed.

(* maps with int_key_as_pointer_value (u32 / u64): the callback never sees a key *)
Lemma s_evict_nokeys : forall fuel (al : list (K * Z)) r mx al' r' lg,
  s_evict K keq true fuel al r mx = (al', r', lg) -> okeys lg = [].
Proof.
  induction fuel as [|f IH]; intros al r mx al' r' lg Hev.
  - simpl in Hev. inversion Hev. reflexivity.
  - rewrite s_evict_S in Hev. destruct r as [|k r0]; [inversion Hev; reflexivity|].
    destruct (Z.of_nat (length al) >? mx); [|inversion Hev; reflexivity].
    destruct (s_evict K keq true f (al_remove k al) r0 mx) as [[al1 r1] lg1] eqn:Hrec.
    inversion Hev; subst. simpl. eapply IH. exact Hrec.
Qed.

Lemma s_step_nokeys : forall s op, s_ikp K s = true -> okeys (out_log K (snd (s_step s op))) = [].
Proof.
  intros s op Hik. destruct op as [k v|k|k|a b| | | | |mx]; unfold Hmap.s_step.
  - unfold s_put, s_fkey. rewrite Hik. destruct (s_max K s).
    + destruct (s_evict K keq true _ _ _ _) as [[al' r'] lg] eqn:Hev. cbn [snd out_log].
      change (?x :: lg) with ([x] ++ lg). rewrite okeys_app. rewrite (s_evict_nokeys _ _ _ _ _ _ _ Hev).
      destruct (al_find k (s_al K s)); reflexivity.
    + cbn [snd out_log]. destruct (al_find k (s_al K s)); reflexivity.
  - unfold s_get. destruct (al_find k (s_al K s)); reflexivity.
  - unfold s_remove, s_fkey. rewrite Hik. destruct (al_find k (s_al K s)); reflexivity.
  - unfold s_rename, s_fkey. rewrite Hik. destruct (al_find a (s_al K s)); [|reflexivity].
    cbn [snd out_log]. destruct (al_find b (al_remove a (s_al K s))); reflexivity.
  - unfold s_clear, s_fkey. rewrite Hik. cbn [snd out_log].
    induction (s_al K s) as [|p t IH]; simpl; [reflexivity | exact IH].
  - reflexivity.
  - reflexivity.
  - reflexivity.
  - reflexivity.
Qed.

Lemma s_run_nokeys : forall ops s, s_ikp K s = true -> freed_keys (s_run s ops) = [].
Proof.
  induction ops as [|op t IH]; intros s Hik; simpl; [reflexivity|].
  pose proof (s_step_nokeys s op Hik) as H1. pose proof (s_step_ikp s op) as H2.
  destruct (s_step s op) as [s' o']. simpl in *. rewrite H1. simpl. apply IH. congruence.
Qed.

Theorem ikp_no_keys : forall max ops,
  freed_keys (h_run (hnew K max true) ops) = [] /\
  okeys (h_log K (hdestroy K (clear_log K (h_exec (hnew K max true) ops)))) = [].
Proof.
  intros max ops. split.
  - pose proof (freed_keys_equiv _ _ (hmap_refines_map K keq hashf keq_spec max true ops)) as H.
    rewrite (s_run_nokeys ops (s_new K max true) eq_refl) in H. apply Permutation_nil. apply Permutation_sym. exact H.
  - destruct (destroy_frees_rest max true ops) as [Hlog _]. rewrite Hlog. unfold fkey.
    change (h_ikp K (clear_log K (h_exec (hnew K max true) ops))) with (h_ikp K (h_exec (hnew K max true) ops)).
    rewrite exec_ikp. clear Hlog. induction (hiter K _) as [|p t IH]; simpl; [reflexivity | exact IH].
Qed.

(* the generalised "LRU on" invariant: in every reachable state the keys whose entry owns an LRU node are exactly the
   keys of the recency list (no duplicates there), and a map whose LRU was never switched on has no node at all *)
Theorem nodes_are_recency : forall max ikp ops,
  let m := h_exec (hnew K max ikp) ops in
  let s := s_exec (s_new K max ikp) ops in
  NoDup (s_rec K s) /\
  (forall k, In k (s_rec K s) <->
             exists e, In e (ents K (h_bkts K m)) /\ e_key K e = k /\ e_lru K e <> None) /\
  (h_max K m = None -> forall e, In e (ents K (h_bkts K m)) -> e_lru K e = None).
Proof.
  intros max ikp ops m s.
  pose proof (exec_sim K keq hashf keq_spec ops _ _ (R_new K hashf max ikp)) as HR. fold m s in HR.
  destruct HR as [L [Hinv [_ [Hrr [Hnd _]]]]].
  split; [exact Hnd|]. split; [|exact (inv_on K hashf m L Hinv)].
  intro k. split.
  - intro Hk. destruct (recrel_in_ex K _ _ _ _ Hrr Hk) as [n [HnL Hnk]].
    eapply Permutation_in in HnL; [|apply Permutation_sym; exact (inv_ids K hashf m L Hinv)].
    apply (lru_ids_in K) in HnL. destruct HnL as [e [He Hl]].
    pose proof (inv_nkey K hashf m L Hinv e n He Hl) as Hk2. rewrite Hnk in Hk2. inversion Hk2 as [Hkk].
    exists e. split; [exact He|]. split; [reflexivity|]. rewrite Hl. discriminate.
  - intros [e [He [Hke Hl]]]. destruct (e_lru K e) as [n|] eqn:Hln; [|contradiction].
    assert (HnL : In n L).
    { eapply Permutation_in; [exact (inv_ids K hashf m L Hinv)|]. apply (lru_ids_in K). exists e. split; assumption. }
    pose proof (inv_nkey K hashf m L Hinv e n He Hln) as Hnk.
    unfold recrel in Hrr. clear - Hrr HnL Hnk Hke.
    induction Hrr as [|n' k' L' ks' Hn' Hrr IH]; [contradiction|].
    destruct HnL as [Heq|HnL].
    + subst n'. left. rewrite Hnk in Hn'. inversion Hn'. congruence.
    + right. apply IH. exact HnL.
Qed.

End Own.

(* iwhmap_lru_eviction_max_count at the boundary *)
Lemma hevmax_boundary : forall (K : Type) (m : hmap K) (mx : Z),
  (h_count K m = mx -> hevmax K m mx = false) /\ (h_count K m = mx + 1 -> hevmax K m mx = true).
Proof.
  intros K m mx. unfold hevmax. split; intro H; rewrite H.
  - rewrite Z.gtb_ltb. apply Z.ltb_irrefl.
  - rewrite Z.gtb_ltb. apply Z.ltb_lt. lia.
Qed.
