(* C18 - proofs for UT/PoolStr.v: iwpool_split_string, for EVERY haystack (a C string: no zero byte inside), separator set
   and flag, returns exactly the reference tokens (split at every separator, final empty piece dropped, pieces trimmed when
   ignore_whitespace), never reads outside haystack[0 .. strlen], stores at most strlen tokens (so ret[j] = 0 stays inside the
   (strlen + 1) pointer array), and its allocations keep the pool invariant. *)
Require Import ZArith List Bool Lia Arith.
Require Import IW.Gen.Facts IW.UT.Pool IW.UT.Pool_proofs IW.UT.PoolStr.
Import ListNotations.

(* ---------------------------------------------------------------- slices *)
Lemma skipn_skipn' : forall (A : Type) (x y : nat) (l : list A), skipn x (skipn y l) = skipn (x + y) l.
Proof.
  intros A x y. revert x. induction y as [| y IH]; intros x l.
  - rewrite Nat.add_0_r. reflexivity.
  - destruct l as [| a t]; [rewrite !skipn_nil; reflexivity |].
    cbn [skipn]. rewrite IH. replace (x + S y) with (S (x + y)) by lia. reflexivity.
Qed.
Lemma tslice_nil : forall h off, tslice h off 0 = [].
Proof. reflexivity. Qed.

Lemma skipn_cons_rd : forall h k, k < length h -> skipn k h = rd h k :: skipn (S k) h.
Proof.
  induction h as [| a t IH]; intros k Hk; [cbn in Hk; lia |].
  destruct k as [| k]; [reflexivity |]. cbn [skipn]. rewrite IH by (cbn in Hk; lia). reflexivity.
Qed.

Lemma tslice_cons : forall h sp e, sp < e -> e <= length h ->
  tslice h sp (e - sp) = rd h sp :: tslice h (S sp) (e - S sp).
Proof.
  intros h sp e H1 H2. unfold tslice. rewrite (skipn_cons_rd h sp) by lia.
  replace (e - sp) with (S (e - S sp)) by lia. reflexivity.
Qed.

Lemma tslice_length : forall h sp e, sp <= e -> e <= length h -> length (tslice h sp (e - sp)) = e - sp.
Proof. intros h sp e H1 H2. unfold tslice. rewrite firstn_length, skipn_length. lia. Qed.

Lemma tslice_snoc : forall h sp e, sp <= e -> e < length h ->
  tslice h sp (S e - sp) = tslice h sp (e - sp) ++ [rd h e].
Proof.
  intros h sp e H1 H2. unfold tslice.
  replace (S e - sp) with ((e - sp) + 1) by lia.
  rewrite <- (firstn_skipn (e - sp) (skipn sp h)) at 1.
  rewrite firstn_app. rewrite firstn_firstn. replace (Nat.min (e - sp + 1) (e - sp)) with (e - sp) by lia.
  f_equal. rewrite firstn_length, skipn_length. replace (e - sp + 1 - Nat.min (e - sp) (length h - sp)) with 1 by lia.
  rewrite skipn_skipn'. replace (e - sp + sp) with e by lia. rewrite (skipn_cons_rd h e) by lia. reflexivity.
Qed.

Lemma tslice_sub : forall h sp e a b, sp <= e -> e <= length h -> a <= b -> b <= e - sp ->
  firstn (b - a) (skipn a (tslice h sp (e - sp))) = tslice h (sp + a) (b - a).
Proof.
  intros h sp e a b H1 H2 H3 H4. unfold tslice.
  rewrite skipn_firstn_comm. rewrite firstn_firstn. rewrite skipn_skipn'.
  replace (Nat.min (b - a) (e - sp - a)) with (b - a) by lia. replace (a + sp) with (sp + a) by lia. reflexivity.
Qed.

(* ---------------------------------------------------------------- leading / trailing blanks *)
Fixpoint lead (l : list Z) : nat :=
  match l with [] => 0 | c :: t => if is_space c then S (lead t) else 0 end.

Lemma drop_spaces_skipn : forall l, drop_spaces l = skipn (lead l) l.
Proof. induction l as [| c t IH]; [reflexivity |]. cbn [drop_spaces lead]. destruct (is_space c); [exact IH | reflexivity]. Qed.

Lemma lead_le : forall l, lead l <= length l.
Proof. induction l as [| c t IH]; [cbn; lia |]. cbn [lead length]. destruct (is_space c); lia. Qed.

Lemma lead_rev_snoc : forall x c, lead (rev (x ++ [c])) = if is_space c then S (lead (rev x)) else 0.
Proof. intros x c. rewrite rev_app_distr. reflexivity. Qed.

Lemma trim_as_slice : forall l,
  let a := lead l in
  let l' := skipn a l in
  trim l = firstn (length l' - lead (rev l')) l'.
Proof.
  intros l a l'. unfold trim. rewrite drop_spaces_skipn. fold a. fold l'.
  rewrite drop_spaces_skipn. rewrite <- (rev_involutive l') at 3.
  rewrite <- (firstn_skipn (lead (rev l')) (rev l')) at 2.
  rewrite rev_app_distr. rewrite firstn_app.
  assert (Hl := lead_le (rev l')). rewrite rev_length in Hl.
  rewrite rev_length, skipn_length, rev_length.
  rewrite firstn_all2 by (rewrite rev_length, skipn_length, rev_length; lia).
  replace (length l' - lead (rev l') - (length l' - lead (rev l'))) with 0 by lia.
  cbn [firstn]. rewrite app_nil_r. reflexivity.
Qed.

Section Split.
Variable h : list Z.
Variable seps : list Z.
Variable ws : bool.
Hypothesis Hnz : Forall (fun b => b <> 0%Z) h.

Let n := length h.

Lemma rd_nz : forall k, k < n -> rd h k <> 0%Z.
Proof. intros k Hk. rewrite Forall_forall in Hnz. apply Hnz. unfold rd. apply nth_In. exact Hk. Qed.

Lemma rd_end : forall k, n <= k -> rd h k = 0%Z.
Proof. intros k Hk. unfold rd. apply nth_overflow. exact Hk. Qed.

Lemma rd_zero_iff : forall k, (rd h k =? 0)%Z = (n <=? k).
Proof.
  intros k. destruct (n <=? k) eqn:E.
  - apply Nat.leb_le in E. rewrite rd_end by exact E. reflexivity.
  - apply Nat.leb_gt in E. apply Z.eqb_neq. apply rd_nz. exact E.
Qed.

Lemma oob_false : forall k, k <= n -> oob h k = false.
Proof. intros k Hk. unfold oob. apply Nat.ltb_ge. exact Hk. Qed.

Lemma is_sep_nz : forall c, c <> 0%Z -> is_sep seps c = issep seps c.
Proof. intros c Hc. unfold is_sep, issep. apply Z.eqb_neq in Hc. rewrite Hc. reflexivity. Qed.

(* the two trimming loops *)
Lemma trim_l_spec : forall fuel sp e flt, sp <= e -> e <= n -> e - sp < fuel ->
  trim_l h fuel sp e flt = (sp + lead (tslice h sp (e - sp)), flt).
Proof.
  induction fuel as [| f IH]; intros sp e flt H1 H2 H3; [lia |].
  cbn [trim_l]. destruct (sp <? e) eqn:E.
  - apply Nat.ltb_lt in E. rewrite (tslice_cons h sp e E H2). cbn [lead].
    rewrite (oob_false sp) by (unfold n in *; lia). rewrite orb_false_r.
    destruct (is_space (rd h sp)).
    + rewrite IH by lia. f_equal. lia.
    + f_equal. lia.
  - apply Nat.ltb_ge in E. replace (e - sp) with 0 by lia. cbn. f_equal. lia.
Qed.

Lemma trim_r_spec : forall fuel sp e flt, sp <= e -> e <= n -> e - sp < fuel ->
  trim_r h fuel sp e flt = (e - lead (rev (tslice h sp (e - sp))), flt).
Proof.
  induction fuel as [| f IH]; intros sp e flt H1 H2 H3; [lia |].
  cbn [trim_r]. destruct (sp <? e) eqn:E.
  - apply Nat.ltb_lt in E.
    assert (Hs : tslice h sp (e - sp) = tslice h sp (e - 1 - sp) ++ [rd h (e - 1)]).
    { replace (e - sp) with (S (e - 1) - sp) by lia. apply tslice_snoc; unfold n in *; lia. }
    rewrite Hs, lead_rev_snoc.
    rewrite (oob_false (e - 1)) by (unfold n in *; lia). rewrite orb_false_r.
    destruct (is_space (rd h (e - 1))).
    + rewrite IH by lia. f_equal. assert (Hl := lead_le (rev (tslice h sp (e - 1 - sp)))).
      rewrite rev_length, tslice_length in Hl by (unfold n in *; lia). lia.
    + f_equal. lia.
  - apply Nat.ltb_ge in E. replace (e - sp) with 0 by lia. cbn. f_equal. lia.
Qed.

Definition tok (p : list Z) : list Z := if ws then trim p else p.

(* what the trimming step of the body computes from the piece haystack[sp .. e) *)
Lemma trim_step : forall sp e flt, sp <= e -> e <= n ->
  let '(sp2, f2) := if ws then trim_l h (S (length h)) sp e flt else (sp, flt) in
  let '(ep2, f3) := if ws then trim_r h (S (length h)) sp2 e f2 else (e, f2) in
  f3 = flt /\ sp2 <= ep2 /\ tslice h sp2 (ep2 - sp2) = tok (tslice h sp (e - sp)).
Proof.
  intros sp e flt H1 H2. unfold tok. destruct ws.
  - rewrite trim_l_spec by (fold n; lia).
    set (s := tslice h sp (e - sp)).
    assert (Hls : length s = e - sp) by (apply tslice_length; assumption).
    assert (Hlead := lead_le s).
    set (a := lead s) in *.
    rewrite trim_r_spec by (fold n; lia).
    assert (Hs' : tslice h (sp + a) (e - (sp + a)) = skipn a s).
    { unfold s. replace (e - (sp + a)) with (e - sp - a) by lia. rewrite <- (tslice_sub h sp e a (e - sp)) by lia.
      rewrite firstn_all2; [reflexivity |]. rewrite skipn_length. fold s. lia. }
    rewrite Hs'. set (s' := skipn a s).
    assert (Hls' : length s' = e - sp - a) by (unfold s'; rewrite skipn_length; lia).
    assert (Htr := lead_le (rev s')). rewrite rev_length in Htr.
    split; [reflexivity |]. split; [lia |].
    rewrite (trim_as_slice s). fold a. fold s'.
    replace (e - lead (rev s') - (sp + a)) with (length s' - lead (rev s')) by lia.
    set (m := length s' - lead (rev s')).
    assert (Hm : m <= e - (sp + a)) by (unfold m; lia).
    clearbody m. unfold s'. rewrite <- Hs'.
    (* a prefix of the slice haystack[sp+a .. e) *)
    unfold tslice. rewrite firstn_firstn. f_equal. lia.
  - split; [reflexivity |]. split; [exact H1 | reflexivity].
Qed.

(* the reference in the shape of the loop: [rest] = haystack from the current offset on, [cur] = the piece collected so far *)
Fixpoint ref_go (rest cur : list Z) : list (list Z) :=
  match rest with
  | [] => []
  | c :: t => if issep seps c then tok cur :: ref_go t []
              else match t with [] => [tok (cur ++ [c])] | _ :: _ => ref_go t (cur ++ [c]) end
  end.

Lemma ref_go_length : forall rest cur, length (ref_go rest cur) <= length rest.
Proof.
  induction rest as [| c t IH]; intros cur; [cbn; lia |]. cbn [ref_go length].
  destruct (issep seps c).
  - cbn [length]. specialize (IH []). lia.
  - destruct t as [| c' t']; [cbn; lia |]. specialize (IH (cur ++ [c])). cbn [length] in *. lia.
Qed.

Lemma split_loop_S : forall fuel st,
  split_loop h seps ws (S fuel) st =
    if (rd h (s_ep st) =? 0)%Z then mkSS (s_sp st) (s_ep st) (s_i st) (s_toks st) (s_fault st || oob h (s_ep st))
    else split_loop h seps ws fuel
           (split_body h seps ws (mkSS (s_sp st) (s_ep st) (s_i st) (s_toks st) (s_fault st || oob h (s_ep st)))).
Proof. reflexivity. Qed.

(* the loop from offset k: i = ep = k, sp <= k, the piece collected is haystack[sp .. k) *)
Lemma split_loop_spec : forall fuel k sp toks, sp <= k -> k <= n -> n - k < fuel ->
  let st := split_loop h seps ws fuel (mkSS sp k k toks false) in
  rev (s_toks st) = rev toks ++ ref_go (skipn k h) (tslice h sp (k - sp)) /\ s_fault st = false.
Proof.
  induction fuel as [| f IH]; intros k sp toks H1 H2 H3; [lia |].
  cbv zeta. rewrite split_loop_S. cbn [s_sp s_ep s_i s_toks s_fault].
  rewrite rd_zero_iff. rewrite (oob_false k H2). cbn [orb].
  destruct (n <=? k) eqn:Ek.
  - apply Nat.leb_le in Ek. cbn [s_toks s_fault].
    rewrite skipn_all2 by (fold n; lia). cbn [ref_go]. rewrite app_nil_r. split; reflexivity.
  - apply Nat.leb_gt in Ek.
    assert (Hc := rd_nz k Ek).
    rewrite (skipn_cons_rd h k) by (fold n; lia). cbn [ref_go].
    unfold split_body. cbn [s_sp s_ep s_i s_toks s_fault].
    rewrite (oob_false k H2). cbn [orb].
    rewrite (is_sep_nz _ Hc).
    assert (Ele : (sp <=? k) = true) by (apply Nat.leb_le; exact H1). rewrite Ele.
    rewrite rd_zero_iff.
    destruct (issep seps (rd h k)) eqn:Es.
    + (* a separator: the piece haystack[sp .. k) is a token *)
      cbn [orb negb andb].
      assert (T := trim_step sp k false H1 H2).
      destruct (if ws then trim_l h (S (length h)) sp k false else (sp, false)) as [sp2 f2].
      destruct (if ws then trim_r h (S (length h)) sp2 k f2 else (k, f2)) as [ep2 f3].
      destruct T as [Hf [Hle Ht]]. subst f3.
      assert (Ele2 : (sp2 <=? ep2) = true) by (apply Nat.leb_le; exact Hle). rewrite Ele2.
      cbn [s_sp s_ep s_i s_toks s_fault].
      replace (k + 1) with (S k) by lia.
      specialize (IH (S k) (S k) (tslice h sp2 (ep2 - sp2) :: toks)).
      cbv zeta in IH. destruct IH as [IH1 IH2]; [lia | lia | lia |].
      rewrite IH1, IH2. split; [| reflexivity].
      rewrite Nat.sub_diag, tslice_nil. cbn [rev]. rewrite <- app_assoc. cbn [app]. rewrite Ht. reflexivity.
    + cbn [orb negb andb].
      rewrite (oob_false (k + 1)) by lia. cbn [orb].
      destruct (n <=? k + 1) eqn:El.
      * (* the last character, no separator: the piece haystack[sp .. k+1) is the last token *)
        apply Nat.leb_le in El. assert (Hk1 : k + 1 = n) by lia.
        assert (T := trim_step sp (k + 1) false ltac:(lia) ltac:(lia)).
        destruct (if ws then trim_l h (S (length h)) sp (k + 1) false else (sp, false)) as [sp2 f2].
        destruct (if ws then trim_r h (S (length h)) sp2 (k + 1) f2 else (k + 1, f2)) as [ep2 f3].
        destruct T as [Hf [Hle Ht]]. subst f3.
        assert (Ele2 : (sp2 <=? ep2) = true) by (apply Nat.leb_le; exact Hle). rewrite Ele2.
        cbn [s_sp s_ep s_i s_toks s_fault].
        specialize (IH (k + 1) (k + 1) (tslice h sp2 (ep2 - sp2) :: toks)).
        cbv zeta in IH. destruct IH as [IH1 IH2]; [lia | lia | lia |].
        rewrite IH1, IH2. split; [| reflexivity].
        rewrite (skipn_all2 h) by (fold n; lia). cbn [ref_go]. rewrite app_nil_r.
        replace (S k) with (k + 1) by lia. rewrite (skipn_all2 h) by (fold n; lia).
        cbn [rev]. rewrite Ht. f_equal. f_equal. f_equal.
        replace (k + 1 - sp) with (S k - sp) by lia. apply tslice_snoc; [exact H1 | fold n; lia].
      * (* an inner character: the piece grows *)
        apply Nat.leb_gt in El. cbn [s_sp s_ep s_i s_toks s_fault].
        specialize (IH (k + 1) sp toks). cbv zeta in IH. destruct IH as [IH1 IH2]; [lia | lia | lia |].
        rewrite IH1, IH2. split; [| reflexivity]. f_equal.
        replace (S k) with (k + 1) by lia.
        rewrite (skipn_cons_rd h (k + 1)) by (fold n; lia).
        replace (k + 1 - sp) with (S k - sp) by lia. rewrite (tslice_snoc h sp k H1) by (fold n; lia). reflexivity.
Qed.

Theorem split_string_ref_go : split_string h seps ws = (ref_go h [], false).
Proof.
  unfold split_string.
  destruct (split_loop_spec (S (length h)) 0 0 [] (Nat.le_refl 0) (Nat.le_0_l n)) as [H1 H2]; [fold n; lia |].
  cbv zeta in H1, H2. rewrite H1, H2. cbn [rev app skipn]. rewrite tslice_nil. reflexivity.
Qed.

(* ---------------------------------------------------------------- ref_go = the plain structural split *)
Lemma pieces_nonempty : forall l cur, pieces seps l cur <> [].
Proof.
  induction l as [| c t IH]; intros cur; cbn [pieces]; [discriminate |].
  destruct (issep seps c); [discriminate | apply IH].
Qed.

Lemma dle_cons : forall p ps, ps <> [] -> drop_last_empty (p :: ps) = p :: drop_last_empty ps.
Proof.
  intros p ps Hne. unfold drop_last_empty. destruct ps as [| q qs]; [congruence |].
  change (last (p :: q :: qs) [0%Z]) with (last (q :: qs) [0%Z]).
  destruct (last (q :: qs) [0%Z]); reflexivity.
Qed.

Lemma ref_go_pieces : forall l cur, (l = [] -> cur = []) ->
  ref_go l cur = map tok (drop_last_empty (pieces seps l cur)).
Proof.
  induction l as [| c t IH]; intros cur Hc.
  - rewrite (Hc eq_refl). reflexivity.
  - cbn [ref_go pieces]. destruct (issep seps c).
    + rewrite dle_cons by apply pieces_nonempty. cbn [map]. f_equal. apply IH. reflexivity.
    + destruct t as [| c' t'].
      * cbn [pieces]. unfold drop_last_empty. cbn [last].
        destruct (cur ++ [c]) eqn:E; [destruct cur; discriminate |]. reflexivity.
      * apply IH. intro H. discriminate.
Qed.

Theorem split_string_correct : split_string h seps ws = (split_ref h seps ws, false).
Proof.
  rewrite split_string_ref_go. unfold split_ref. rewrite ref_go_pieces by reflexivity. reflexivity.
Qed.

Theorem split_count : length (fst (split_string h seps ws)) <= length h.
Proof. rewrite split_string_ref_go. cbn [fst]. apply ref_go_length. Qed.

End Split.

(* ---------------------------------------------------------------- the allocations of the call *)
(* iwpool_split_string on a well-formed pool: the pool stays well formed, all regions handed out are inside their unit,
   8-aligned and pairwise disjoint (also from every earlier region), the pointer array has room for every token pointer and
   the terminating NULL, every token has room for its bytes and its terminator *)
Theorem split_allocs_ok : forall h seps ws,
  let sizes := split_sizes h seps ws in
  Forall (fun b => b <> 0%Z) h ->
  hd 0 sizes = P_PTR_SIZE * (length h + 1) /\
  P_PTR_SIZE * (length (fst (split_string h seps ws)) + 1) <= hd 0 sizes /\
  tl sizes = map (fun t => length t + 1) (split_ref h seps ws).
Proof.
  intros h seps ws sizes Hnz. unfold sizes, split_sizes. cbn [hd tl].
  split; [reflexivity |]. split.
  - assert (H := split_count h seps ws Hnz). apply Nat.mul_le_mono_l. lia.
  - rewrite (split_string_correct h seps ws Hnz). reflexivity.
Qed.

(* every well-formed start: pool invariant, region safety and the order of the regions inside a unit, over all operation lists *)
Theorem pool_run_inv : forall (p0 : pool) (ops : list pop), p_wf p0 ->
  p_wf (fst (p_run p0 ops)) /\ regions_ok (fst (p_run p0 ops)) (snd (p_run p0 ops)) /\
  (forall i j r1 r2, i < j ->
     nth_error (snd (p_run p0 ops)) i = Some r1 -> nth_error (snd (p_run p0 ops)) j = Some r2 ->
     r_unit r1 = r_unit r2 -> r_off r1 + r_size r1 <= r_off r2).
Proof.
  intros p0 ops Hwf. destruct (pool_regions_disjoint_wf p0 ops Hwf) as [H1 H2]. split; [exact H1 |]. split; [exact H2 |].
  intros i j r1 r2. exact (pool_regions_ordered p0 ops i j r1 r2 Hwf).
Qed.
