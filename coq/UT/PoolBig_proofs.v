(* C18 - proofs for UT/PoolBig.v: with the overflow guard every request either fails leaving the pool untouched or is the
   allocation of UT/Pool.v (a region with room for every requested byte); without the guard requests in (SIZE_MAX - 7, SIZE_MAX]
   get a pointer with no byte reserved (refuted by a witness). *)
Require Import ZArith List Bool Lia.
Require Import IW.Gen.Facts IW.UT.Pool IW.UT.Pool_proofs IW.UT.PoolBig.
Import ListNotations.
Local Open Scope Z_scope.

Lemma size_max_val : SIZE_MAX = 18446744073709551615 /\ MALLOC_MAX = 9223372036854775807.
Proof. split; vm_compute; reflexivity. Qed.

(* the round-up on size_t: zero exactly when it wraps (or for 0) *)
Lemma roundup8_sz_wrap : forall x, SIZE_MAX - 7 < x <= SIZE_MAX -> roundup8_sz x = 0.
Proof.
  intros x Hx. destruct size_max_val as [E _]. rewrite E in Hx.
  assert (C : x = 18446744073709551609 \/ x = 18446744073709551610 \/ x = 18446744073709551611 \/ x = 18446744073709551612 \/
              x = 18446744073709551613 \/ x = 18446744073709551614 \/ x = 18446744073709551615) by lia.
  destruct C as [-> | [-> | [-> | [-> | [-> | [-> | ->]]]]]]; vm_compute; reflexivity.
Qed.

Lemma roundup8_sz_pos : forall x, 0 < x <= SIZE_MAX - 7 -> roundup8_sz x <> 0.
Proof.
  intros x Hx. unfold roundup8_sz. destruct size_max_val as [E _]. rewrite E in *.
  rewrite Z.mod_small by lia.
  set (y := x + 7). assert (Hy : 8 <= y < 2 ^ 64) by (unfold y; lia).
  intro H0.
  assert (Hb : Z.testbit (Z.land y (18446744073709551615 - 7)) (Z.log2 y) = true).
  { rewrite Z.land_spec. rewrite Z.bit_log2 by lia. cbn [andb].
    assert (L1 : 3 <= Z.log2 y) by (change 3 with (Z.log2 8); apply Z.log2_le_mono; lia).
    assert (L2 : Z.log2 y < 64) by (apply Z.log2_lt_pow2; lia).
    change (18446744073709551615 - 7) with (Z.shiftl (Z.ones 61) 3).
    rewrite Z.shiftl_spec by lia. apply Z.ones_spec_low. lia. }
  rewrite H0 in Hb. rewrite Z.bits_0 in Hb. discriminate.
Qed.

(* WITH the guard: a size_t request either fails and leaves the pool as it was, or (0 <= siz <= PTRDIFF_MAX) it is the allocation
   of UT/Pool.v, whose region holds every requested byte (pool_alloc_ok); a pointer without reserved bytes is returned only for
   the request of 0 bytes *)
Theorem p_alloc_z_guarded : forall (p : pool) (siz : Z), 0 <= siz <= SIZE_MAX ->
  match snd (p_alloc_z true p siz) with
  | ZNull => fst (p_alloc_z true p siz) = p /\ MALLOC_MAX < siz
  | ZZero u off => fst (p_alloc_z true p siz) = p /\ siz = 0
  | ZOk w => 0 < siz <= MALLOC_MAX /\ (fst (p_alloc_z true p siz), w) = p_alloc p (Z.to_nat siz)
  end.
Proof.
  intros p siz Hs. unfold p_alloc_z. cbn [andb].
  destruct size_max_val as [E1 E2].
  destruct (SIZE_MAX - 7 <? siz) eqn:G; [apply Z.ltb_lt in G | apply Z.ltb_ge in G].
  - cbn [fst snd]. split; [reflexivity | lia].
  - destruct (roundup8_sz siz =? 0) eqn:R; [apply Z.eqb_eq in R | apply Z.eqb_neq in R].
    + cbn [fst snd]. split; [reflexivity |].
      destruct (Z.eq_dec siz 0) as [-> | Hne]; [reflexivity |]. exfalso. apply (roundup8_sz_pos siz); [lia | exact R].
    + destruct (MALLOC_MAX <? siz) eqn:M; [apply Z.ltb_lt in M | apply Z.ltb_ge in M].
      * cbn [fst snd]. split; [reflexivity | exact M].
      * destruct (p_alloc p (Z.to_nat siz)) as [p' w] eqn:Ea. cbn [fst snd].
        split; [| reflexivity]. split; [| exact M].
        destruct (Z.eq_dec siz 0) as [-> | Hne]; [exfalso; apply R; vm_compute; reflexivity | lia].
Qed.

(* calloc / strndup with the guard never write past what was reserved *)
Theorem p_calloc_strndup_z_guarded : forall (p : pool) (n : Z), 0 <= n <= SIZE_MAX ->
  snd (p_calloc_z true p n) = false /\ snd (p_strndup_z true p n) = false.
Proof.
  intros p n Hn. split.
  - unfold p_calloc_z. assert (H := p_alloc_z_guarded p n Hn).
    destruct (p_alloc_z true p n) as [p' r]. cbn [fst snd] in *. destruct r as [| u off | w]; try reflexivity.
    destruct H as [_ ->]. reflexivity.
  - unfold p_strndup_z. cbn [andb]. destruct size_max_val as [E1 E2].
    destruct (SIZE_MAX <=? n) eqn:L; [reflexivity |]. apply Z.leb_gt in L.
    rewrite Z.mod_small by lia.
    assert (H := p_alloc_z_guarded p (n + 1) ltac:(lia)).
    destruct (p_alloc_z true p (n + 1)) as [p' r]. cbn [fst snd] in *. destruct r as [| u off | w]; try reflexivity.
    destruct H as [_ H]. lia.
Qed.

(* WITHOUT the guard (the code before fixes/cont-pool-alloc-size-wrap.diff): every request in (SIZE_MAX - 7, SIZE_MAX] returns
   the current heap pointer with no byte reserved and leaves usiz alone - the next allocation gets the same address *)
Theorem p_alloc_z_unguarded_wraps : forall (p : pool) (siz : Z), SIZE_MAX - 7 < siz <= SIZE_MAX ->
  p_alloc_z false p siz = (p, ZZero (length (p_units p) - 1) (p_usiz p)) /\
  snd (p_calloc_z false p siz) = true.
Proof.
  intros p siz Hs. unfold p_calloc_z, p_alloc_z. cbn [andb]. rewrite (roundup8_sz_wrap siz Hs). cbn [Z.eqb].
  split; [reflexivity |]. cbn [snd]. apply Z.ltb_lt. destruct size_max_val as [E _]. lia.
Qed.

Theorem p_alloc_z_unguarded_refuted :
  let p := fst (p_alloc (p_create 64) 8) in
  p_alloc_z false p (SIZE_MAX - 3) = (p, ZZero 0 8) /\
  snd (p_alloc p 16) = (0%nat, 8%nat) /\
  p_alloc_z true p (SIZE_MAX - 3) = (p, ZNull) /\
  snd (p_strndup_z false p SIZE_MAX) = true /\ p_strndup_z true p SIZE_MAX = (p, ZNull, false).
Proof. vm_compute. repeat split; reflexivity. Qed.
