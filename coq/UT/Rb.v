(* C18 - executable model of the ring buffer src/utils/iwrb.c: pos < 0 = -pos slots filled and not yet wrapped,
   pos > 0 = wrapped, pos is the 1-based slot of the newest unit.  Follows the code after fix fe01ba6
   (iwrb_back at pos 1 of a wrapped ring goes to slot len).  No proofs here. *)
Require Import ZArith List Bool Lia.
Require Import IW.Gen.Facts.
Import ListNotations.
Local Open Scope Z_scope.

Section Rb.
Variable U : Type.          (* one unit of usize bytes *)
Variable dflt : U.

Record rb := mkRB { r_pos : Z; r_len : Z; r_buf : list U }.

Fixpoint set_nth {A} (i : nat) (x : A) (l : list A) : list A :=
  match l, i with
  | [], _ => []
  | _ :: t, O => x :: t
  | a :: t, S j => a :: set_nth j x t
  end.

Definition slot (r : rb) (i : Z) : U := nth (Z.to_nat i) (r_buf r) dflt.
Definition rb_create (len : Z) : rb := mkRB 0 len (repeat dflt (Z.to_nat len)).

Definition rb_put (r : rb) (x : U) : rb :=
  if r_pos r =? 0 then mkRB (-1) (r_len r) (set_nth 0 x (r_buf r))
  else
    let upos := Z.abs (r_pos r) in
    if upos =? r_len r then mkRB 1 (r_len r) (set_nth 0 x (r_buf r))
    else mkRB (if r_pos r >? 0 then r_pos r + 1 else r_pos r - 1) (r_len r) (set_nth (Z.to_nat upos) x (r_buf r)).

Definition rb_back (r : rb) : rb :=
  if r_pos r >? 1 then mkRB (r_pos r - 1) (r_len r) (r_buf r)
  else if r_pos r =? 1 then mkRB (r_len r) (r_len r) (r_buf r)
  else if r_pos r <? 0 then mkRB (r_pos r + 1) (r_len r) (r_buf r)
  else r.

Definition rb_peek (r : rb) : option U :=
  if r_pos r =? 0 then None else Some (slot r (Z.abs (r_pos r) - 1)).

Definition rb_clear (r : rb) : rb := mkRB 0 (r_len r) (r_buf r).
Definition rb_num_cached (r : rb) : Z := if r_pos r <=? 0 then - r_pos r else r_len r.

(* iterator state (pos, ipos); iwrb_iter_prev returns the unit and the next state *)
Definition it_init (r : rb) : Z * Z := (Z.abs (r_pos r), - Z.abs (r_pos r)).

Definition it_prev (r : rb) (st : Z * Z) : option U * (Z * Z) :=
  let '(pos, ipos) := st in
  if ipos =? 0 then (None, st)
  else if r_pos r <? 0 then
    if pos =? 0 then (None, st)
    else let ipos' := if ipos <? 0 then - ipos else ipos in
         (Some (slot r (pos - 1)), (pos - 1, ipos'))
  else
    let pos1 := if pos =? 0 then r_len r else pos in
    if ipos <? 0 then (Some (slot r (pos1 - 1)), (pos1 - 1, - ipos))
    else if ipos =? pos1 then (None, (pos1, 0))
    else (Some (slot r (pos1 - 1)), (pos1 - 1, ipos)).

(* all units an iteration yields, newest first *)
Fixpoint it_all (fuel : nat) (r : rb) (st : Z * Z) : list U :=
  match fuel with
  | O => []
  | S f => match it_prev r st with
           | (Some x, st') => x :: it_all f r st'
           | (None, _) => []
           end
  end.
Definition rb_iter (r : rb) : list U := it_all (S (S (S (Z.to_nat (r_len r))))) r (it_init r).

(* specification: the newest-first list of the last len units *)
Definition d_put (len : Z) (d : list U) (x : U) : list U := firstn (Z.to_nat len) (x :: d).

(* iwrb_create(usize, len): NULL for a ring without slots (fix 7d7a602: the first put of such a ring wrote past the allocation) *)
Definition rb_create_opt (len : Z) : option rb := if len =? 0 then None else Some (rb_create len).

(* iwrb_wrap(buf, buflen, usize) on a caller's buffer of buflen bytes: NULL when the unit size is 0 (fix 7d7a602: it divided by
   zero) or the header and one unit do not fit, otherwise a ring of (buflen - sizeof(IWRB)) / usize units in that buffer *)
Definition rb_wrap (buflen usize : Z) : option rb :=
  if (usize =? 0) || (buflen <? CONT_sizeof_IWRB + usize) then None
  else Some (rb_create ((buflen - CONT_sizeof_IWRB) / usize)).
End Rb.

(* ---------------------------------------------------------------- call sequences *)
Section RbRun.
Variable U : Type.
Variable dflt : U.
Inductive rop := RPut (x : U) | RBack | RClear.

Definition rb_step (r : rb U) (op : rop) : rb U :=
  match op with RPut x => rb_put U r x | RBack => rb_back U r | RClear => rb_clear U r end.

(* what a caller can see: cached count, newest unit, the iteration newest first *)
Definition rb_obs (r : rb U) : Z * option U * list U := (rb_num_cached U r, rb_peek U dflt r, rb_iter U dflt r).

(* reference: newest-first list bounded by len; back drops the newest *)
Definition d_step (len : Z) (d : list U) (op : rop) : list U :=
  match op with RPut x => d_put U len d x | RBack => tl d | RClear => [] end.
Definition d_obs (d : list U) : Z * option U * list U := (Z.of_nat (length d), hd_error d, d).

Fixpoint rb_run (r : rb U) (ops : list rop) : list (Z * option U * list U) :=
  match ops with [] => [] | op :: t => let r' := rb_step r op in rb_obs r' :: rb_run r' t end.
Fixpoint d_run (len : Z) (d : list U) (ops : list rop) : list (Z * option U * list U) :=
  match ops with [] => [] | op :: t => let d' := d_step len d op in d_obs d' :: d_run len d' t end.

(* the state after a call sequence *)
Definition rb_exec (r : rb U) (ops : list rop) : rb U := fold_left rb_step ops r.

(* The EXACT reference of the code.  The ring has no count field: once it has wrapped it always holds len units, and
   iwrb_back can only step the position back - the unit it "removes" reappears as the OLDEST unit.  State: (wrapped,
   newest-first list); wrapped implies that the list has exactly len units. *)
Definition g_step (len : Z) (s : bool * list U) (op : rop) : bool * list U :=
  let '(w, d) := s in
  match op with
  | RPut x => (w || (len <=? Z.of_nat (length d)), d_put U len d x)
  | RBack => if w then (true, tl d ++ firstn 1 d) else (false, tl d)
  | RClear => (false, [])
  end.
Fixpoint g_run (len : Z) (s : bool * list U) (ops : list rop) : list (Z * option U * list U) :=
  match ops with [] => [] | op :: t => let s' := g_step len s op in d_obs (snd s') :: g_run len s' t end.
Definition g_exec (len : Z) (s : bool * list U) (ops : list rop) : bool * list U := fold_left (g_step len) ops s.

(* back is only specified while the ring has not wrapped (pos <= 0): ops sequences in which every RBack
   happens before the first overwrite since the last clear *)
Fixpoint back_safe (len : Z) (n : Z) (wrapped : bool) (ops : list rop) : Prop :=
  match ops with
  | [] => True
  | RPut _ :: t => if n <? len then back_safe len (n + 1) wrapped t else back_safe len n true t
  | RBack :: t => wrapped = false /\ back_safe len (Z.max 0 (n - 1)) wrapped t
  | RClear :: t => back_safe len 0 false t
  end.
End RbRun.
