(* C18 - proofs for UT/Sarr.v: the binary search of iwarr_sorted_* finds the element / the insertion point of a
   sorted array; insert keeps the array sorted and is a permutation of e :: els; remove deletes one equal element. *)
Require Import ZArith List Bool Lia Permutation.
Require Import IW.UT.Sarr.
Import ListNotations.
Local Open Scope Z_scope.
Ltac Zify.zify_post_hook ::= Z.div_mod_to_equations.

Section SarrProofs.
Variable A : Type.
Variable cmp : A -> A -> Z.
Variable dflt : A.
Variable key : A -> Z.
Hypothesis cmp_spec : forall a b,
  (cmp a b =? 0) = (key a =? key b) /\ (cmp a b <? 0) = (key a <? key b).

Definition sorted (els : list A) : Prop :=
  forall i j, (i < j < length els)%nat -> key (nth i els dflt) <= key (nth j els dflt).

Lemma sorted_le : forall els i j, sorted els -> (i <= j < length els)%nat ->
  key (nth i els dflt) <= key (nth j els dflt).
Proof.
  intros els i j Hs Hij.
  destruct (Nat.eq_dec i j) as [E | NE].
  - subst j. lia.
  - apply Hs. lia.
Qed.

Lemma sorted_el_le : forall els i j, sorted els -> 0 <= i <= j -> j < Z.of_nat (length els) ->
  key (el A dflt els i) <= key (el A dflt els j).
Proof.
  intros els i j Hs Hij Hj. unfold el. apply sorted_le; [exact Hs | lia].
Qed.

(* ---------------------------------------------------------------- the loop *)
Lemma bs_loop_S : forall f els e lb ub,
  bs_loop A cmp dflt (S f) els e lb ub =
    let idx := Z.quot (ub + lb) 2 in
    let cr := cmp (el A dflt els idx) e in
    if cr =? 0 then (idx, true)
    else if cr <? 0 then
      let lb' := idx + 1 in
      if lb' >? ub then (lb', false) else bs_loop A cmp dflt f els e lb' ub
    else
      let ub' := idx - 1 in
      if lb >? ub' then (idx, false) else bs_loop A cmp dflt f els e lb ub'.
Proof. reflexivity. Qed.

Definition bs_post (els : list A) (e : A) (i : Z) (f : bool) : Prop :=
  0 <= i <= Z.of_nat (length els) /\
  (f = true -> i < Z.of_nat (length els) /\ key (el A dflt els i) = key e) /\
  (f = false ->
     (forall j, 0 <= j < i -> key (el A dflt els j) < key e) /\
     (forall j, i <= j < Z.of_nat (length els) -> key e < key (el A dflt els j))).

Lemma bs_loop_inv : forall fuel els e lb ub i f,
  sorted els ->
  0 <= lb -> lb <= ub -> ub < Z.of_nat (length els) ->
  ub - lb + 1 <= Z.of_nat fuel ->
  (forall j, 0 <= j < lb -> key (el A dflt els j) < key e) ->
  (forall j, ub < j < Z.of_nat (length els) -> key e < key (el A dflt els j)) ->
  bs_loop A cmp dflt fuel els e lb ub = (i, f) ->
  bs_post els e i f.
Proof.
  induction fuel as [| fuel IH]; intros els e lb ub i f Hs Hlb Hle Hub Hfuel Hlo Hhi Hrun.
  - exfalso. simpl in Hfuel. lia.
  - rewrite bs_loop_S in Hrun. cbv zeta in Hrun.
    assert (Hq : Z.quot (ub + lb) 2 = (ub + lb) / 2) by (apply Z.quot_div_nonneg; lia).
    rewrite Hq in Hrun.
    set (idx := (ub + lb) / 2) in *.
    assert (Hidx : lb <= idx <= ub) by (unfold idx; lia).
    destruct (cmp_spec (el A dflt els idx) e) as [Heq Hlt].
    destruct (cmp (el A dflt els idx) e =? 0) eqn:E0.
    + (* found *)
      inversion Hrun; subst i f. symmetry in Heq. apply Z.eqb_eq in Heq.
      unfold bs_post. split; [lia |]. split.
      * intros _. split; [lia | exact Heq].
      * intros Hf; discriminate Hf.
    + symmetry in Heq. apply Z.eqb_neq in Heq.
      destruct (cmp (el A dflt els idx) e <? 0) eqn:E1.
      * (* go right *)
        symmetry in Hlt. apply Z.ltb_lt in Hlt.
        assert (Hlo' : forall j, 0 <= j < idx + 1 -> key (el A dflt els j) < key e).
        { intros j Hj.
          assert (Hjle : key (el A dflt els j) <= key (el A dflt els idx))
            by (apply sorted_el_le; [exact Hs | lia | lia]).
          lia. }
        destruct (idx + 1 >? ub) eqn:E2.
        -- inversion Hrun; subst i f. apply Z.gtb_lt in E2.
           unfold bs_post. split; [lia |]. split.
           ++ intros Hf; discriminate Hf.
           ++ intros _. split; [exact Hlo' |].
              intros j Hj. apply Hhi. lia.
        -- assert (E2' : idx + 1 <= ub) by (destruct (Z.gtb_spec (idx + 1) ub); [discriminate | lia]).
           apply (IH els e (idx + 1) ub i f Hs); [lia | lia | lia | lia | exact Hlo' | exact Hhi | exact Hrun].
      * (* go left *)
        symmetry in Hlt. apply Z.ltb_ge in Hlt.
        assert (Hhi' : forall j, idx - 1 < j < Z.of_nat (length els) -> key e < key (el A dflt els j)).
        { intros j Hj.
          assert (Hjle : key (el A dflt els idx) <= key (el A dflt els j))
            by (apply sorted_el_le; [exact Hs | lia | lia]).
          lia. }
        destruct (lb >? idx - 1) eqn:E2.
        -- inversion Hrun; subst i f. apply Z.gtb_lt in E2.
           unfold bs_post. split; [lia |]. split.
           ++ intros Hf; discriminate Hf.
           ++ intros _. split.
              ** intros j Hj. apply Hlo. lia.
              ** intros j Hj. apply Hhi'. lia.
        -- assert (E2' : lb <= idx - 1) by (destruct (Z.gtb_spec lb (idx - 1)); [discriminate | lia]).
           apply (IH els e lb (idx - 1) i f Hs); [lia | lia | lia | lia | exact Hlo | exact Hhi' | exact Hrun].
Qed.

Lemma bsearch_correct : forall els e i f,
  sorted els -> els <> [] -> bsearch A cmp dflt els e = (i, f) -> bs_post els e i f.
Proof.
  intros els e i f Hs Hne Hrun. unfold bsearch in Hrun.
  assert (Hlen : (0 < length els)%nat) by (destruct els; [congruence | simpl; lia]).
  eapply bs_loop_inv; try exact Hrun; try exact Hs; try lia.
Qed.

(* ---------------------------------------------------------------- find2 / find *)
Theorem sorted_find2_correct : forall els e i f,
  sorted els -> sorted_find2 A cmp dflt els e = (i, f) ->
  0 <= i <= Z.of_nat (length els) /\
  (f = true -> i < Z.of_nat (length els) /\ key (el A dflt els i) = key e) /\
  (f = false ->
     (forall j, 0 <= j < i -> key (el A dflt els j) < key e) /\
     (forall j, i <= j < Z.of_nat (length els) -> key e < key (el A dflt els j))).
Proof.
  intros els e i f Hs Hrun. unfold sorted_find2 in Hrun.
  destruct els as [| a t].
  - inversion Hrun; subst i f. simpl. split; [lia |]. split.
    + intros Hf; discriminate Hf.
    + intros _. split; intros j Hj; lia.
  - apply (bsearch_correct (a :: t) e i f Hs); [discriminate | exact Hrun].
Qed.

Lemma notfound_no_key : forall els e i,
  0 <= i <= Z.of_nat (length els) ->
  (forall j, 0 <= j < i -> key (el A dflt els j) < key e) ->
  (forall j, i <= j < Z.of_nat (length els) -> key e < key (el A dflt els j)) ->
  forall a, In a els -> key a <> key e.
Proof.
  intros els e i Hi Hlo Hhi a Hin.
  destruct (In_nth els a dflt Hin) as [n [Hn Hnth]].
  assert (Hel : el A dflt els (Z.of_nat n) = a) by (unfold el; rewrite Nat2Z.id; exact Hnth).
  destruct (Z_lt_le_dec (Z.of_nat n) i) as [L | G].
  - specialize (Hlo (Z.of_nat n)). rewrite Hel in Hlo. lia.
  - specialize (Hhi (Z.of_nat n)). rewrite Hel in Hhi. lia.
Qed.

Lemma el_In : forall els i, 0 <= i < Z.of_nat (length els) -> In (el A dflt els i) els.
Proof. intros els i Hi. unfold el. apply nth_In. lia. Qed.

Theorem sorted_find_correct : forall els e,
  sorted els ->
  let i := sorted_find A cmp dflt els e in
  (i = -1 /\ forall a, In a els -> key a <> key e) \/
  (0 <= i < Z.of_nat (length els) /\ key (el A dflt els i) = key e).
Proof.
  intros els e Hs. cbv zeta. unfold sorted_find.
  destruct els as [| a t].
  - left. split; [reflexivity | intros x Hin; destruct Hin].
  - destruct (bsearch A cmp dflt (a :: t) e) as [idx found] eqn:Eb.
    assert (Hp : bs_post (a :: t) e idx found)
      by (apply bsearch_correct; [exact Hs | discriminate | exact Eb]).
    destruct Hp as [Hr [Ht Hf]].
    destruct found.
    + right. destruct (Ht eq_refl) as [H1 H2]. split; [lia | exact H2].
    + left. split; [reflexivity |]. destruct (Hf eq_refl) as [Hlo Hhi].
      eapply notfound_no_key; eassumption.
Qed.

(* ---------------------------------------------------------------- list surgery *)
Lemma nth_ins : forall (l : list A) (i k : nat) (e d : A), (i <= length l)%nat ->
  nth k (firstn i l ++ e :: skipn i l) d =
    if (k <? i)%nat then nth k l d else if (k =? i)%nat then e else nth (k - 1) l d.
Proof.
  intros l i k e d Hi.
  assert (Hfl : length (firstn i l) = i) by (apply firstn_length_le; exact Hi).
  destruct (k <? i)%nat eqn:E1.
  - apply Nat.ltb_lt in E1. rewrite app_nth1 by lia.
    rewrite <- (firstn_skipn i l) at 2. rewrite app_nth1 by lia. reflexivity.
  - apply Nat.ltb_ge in E1. rewrite app_nth2 by lia. rewrite Hfl.
    destruct (k =? i)%nat eqn:E2.
    + apply Nat.eqb_eq in E2. subst k. rewrite Nat.sub_diag. reflexivity.
    + apply Nat.eqb_neq in E2.
      replace (k - i)%nat with (S (k - i - 1)) by lia. simpl.
      rewrite <- (firstn_skipn i l) at 2. rewrite app_nth2 by lia. rewrite Hfl.
      f_equal. lia.
Qed.

Lemma nth_del : forall (l : list A) (i k : nat) (d : A), (i < length l)%nat ->
  nth k (firstn i l ++ skipn (S i) l) d = if (k <? i)%nat then nth k l d else nth (S k) l d.
Proof.
  intros l i k d Hi.
  assert (Hfl : length (firstn i l) = i) by (apply firstn_length_le; lia).
  assert (Hfl' : length (firstn (S i) l) = S i) by (apply firstn_length_le; lia).
  destruct (k <? i)%nat eqn:E1.
  - apply Nat.ltb_lt in E1. rewrite app_nth1 by lia.
    rewrite <- (firstn_skipn i l) at 2. rewrite app_nth1 by lia. reflexivity.
  - apply Nat.ltb_ge in E1. rewrite app_nth2 by lia. rewrite Hfl.
    rewrite <- (firstn_skipn (S i) l) at 2. rewrite app_nth2 by lia. rewrite Hfl'.
    f_equal; lia.
Qed.

Lemma ins_length : forall (l : list A) i e, length (firstn i l ++ e :: skipn i l) = S (length l).
Proof.
  intros l i e. rewrite app_length. simpl. rewrite <- plus_n_Sm. rewrite <- app_length.
  rewrite firstn_skipn. reflexivity.
Qed.

Lemma del_length : forall (l : list A) i, (i < length l)%nat ->
  length (firstn i l ++ skipn (S i) l) = (length l - 1)%nat.
Proof.
  intros l i Hi. rewrite app_length, firstn_length_le by lia. rewrite skipn_length. lia.
Qed.

Lemma split_at : forall (l : list A) i, (i < length l)%nat ->
  l = firstn i l ++ nth i l dflt :: skipn (S i) l.
Proof.
  induction l as [| a t IH]; intros i Hi; simpl in Hi.
  - lia.
  - destruct i as [| i].
    + reflexivity.
    + simpl. f_equal. apply IH. lia.
Qed.

Lemma ins_sorted : forall els i e,
  sorted els -> (i <= length els)%nat ->
  (forall j, (j < i)%nat -> key (nth j els dflt) <= key e) ->
  (forall j, (i <= j < length els)%nat -> key e <= key (nth j els dflt)) ->
  sorted (firstn i els ++ e :: skipn i els).
Proof.
  intros els i e Hs Hi Hlo Hhi a b Hab. rewrite ins_length in Hab.
  rewrite !nth_ins by exact Hi.
  destruct (a <? i)%nat eqn:Ea; [apply Nat.ltb_lt in Ea | apply Nat.ltb_ge in Ea].
  - destruct (b <? i)%nat eqn:Eb; [apply Nat.ltb_lt in Eb | apply Nat.ltb_ge in Eb].
    + apply Hs. lia.
    + destruct (b =? i)%nat eqn:Eb2; [apply Nat.eqb_eq in Eb2 | apply Nat.eqb_neq in Eb2].
      * apply Hlo. exact Ea.
      * apply sorted_le; [exact Hs | lia].
  - assert (Eb : (b <? i)%nat = false) by (apply Nat.ltb_ge; lia). rewrite Eb.
    assert (Eb2 : (b =? i)%nat = false) by (apply Nat.eqb_neq; lia). rewrite Eb2.
    destruct (a =? i)%nat eqn:Ea2; [apply Nat.eqb_eq in Ea2 | apply Nat.eqb_neq in Ea2].
    + apply Hhi. lia.
    + apply Hs. lia.
Qed.

Lemma del_sorted : forall els i, sorted els -> (i < length els)%nat ->
  sorted (firstn i els ++ skipn (S i) els).
Proof.
  intros els i Hs Hi a b Hab. rewrite del_length in Hab by exact Hi.
  rewrite !nth_del by exact Hi.
  destruct (a <? i)%nat eqn:Ea; [apply Nat.ltb_lt in Ea | apply Nat.ltb_ge in Ea];
  (destruct (b <? i)%nat eqn:Eb; [apply Nat.ltb_lt in Eb | apply Nat.ltb_ge in Eb]);
  apply Hs; lia.
Qed.

(* ---------------------------------------------------------------- insert / remove *)
Theorem sorted_insert_correct : forall els e skipeq els' i,
  sorted els -> sorted_insert A cmp dflt els e skipeq = (els', i) ->
  (i = -1 /\ els' = els /\ skipeq = true /\ exists a, In a els /\ key a = key e) \/
  (0 <= i /\ sorted els' /\ Permutation els' (e :: els) /\ nth_error els' (Z.to_nat i) = Some e /\
   (skipeq = true -> forall a, In a els -> key a <> key e)).
Proof.
  intros els e skipeq els' i Hs Hrun. unfold sorted_insert in Hrun.
  destruct els as [| a t].
  - inversion Hrun; subst els' i. right. split; [lia |]. split.
    + intros x y Hxy. simpl in Hxy. lia.
    + split; [apply Permutation_refl |]. split; [reflexivity |].
      intros _ x Hin. destruct Hin.
  - remember (a :: t) as els eqn:Eels.
    destruct (bsearch A cmp dflt els e) as [idx found] eqn:Eb.
    assert (Hp : bs_post els e idx found)
      by (apply bsearch_correct; [exact Hs | subst els; discriminate | exact Eb]).
    destruct Hp as [Hr [Ht Hf]].
    destruct (found && skipeq) eqn:Efs.
    + apply andb_true_iff in Efs. destruct Efs as [Efound Eskip]. subst found skipeq.
      assert (Hrun' : (els, -1) = (els', i)) by (subst els; exact Hrun).
      inversion Hrun'; subst els' i. left.
      destruct (Ht eq_refl) as [H1 H2].
      split; [reflexivity |]. split; [reflexivity |]. split; [reflexivity |].
      exists (el A dflt els idx). split; [apply el_In; lia | exact H2].
    + assert (Hrun' : (ins_at A els idx e, idx) = (els', i)) by (subst els; exact Hrun).
      inversion Hrun'; subst els' i. clear Hrun Hrun'. right. unfold ins_at.
      assert (Hidx : (Z.to_nat idx <= length els)%nat) by lia.
      split; [lia |]. split; [| split; [| split]].
      * apply ins_sorted; [exact Hs | exact Hidx | |].
        -- intros j Hj. destruct found.
           ++ destruct (Ht eq_refl) as [H1 H2]. rewrite <- H2. unfold el.
              apply sorted_le; [exact Hs | lia].
           ++ destruct (Hf eq_refl) as [Hlo Hhi]. specialize (Hlo (Z.of_nat j)).
              unfold el in Hlo. rewrite Nat2Z.id in Hlo. lia.
        -- intros j Hj. destruct found.
           ++ destruct (Ht eq_refl) as [H1 H2]. rewrite <- H2. unfold el.
              apply sorted_le; [exact Hs | lia].
           ++ destruct (Hf eq_refl) as [Hlo Hhi]. specialize (Hhi (Z.of_nat j)).
              unfold el in Hhi. rewrite Nat2Z.id in Hhi. lia.
      * apply Permutation_sym. rewrite <- (firstn_skipn (Z.to_nat idx) els) at 1.
        apply Permutation_middle.
      * rewrite nth_error_app2 by (rewrite firstn_length_le by exact Hidx; lia).
        rewrite firstn_length_le by exact Hidx. rewrite Nat.sub_diag. reflexivity.
      * intros Hskip. subst skipeq. rewrite andb_true_r in Efs. subst found.
        destruct (Hf eq_refl) as [Hlo Hhi]. eapply notfound_no_key; eassumption.
Qed.

Theorem sorted_remove_correct : forall els e els' i,
  sorted els -> sorted_remove A cmp dflt els e = (els', i) ->
  (i = -1 /\ els' = els /\ forall a, In a els -> key a <> key e) \/
  (0 <= i < Z.of_nat (length els) /\ key (el A dflt els i) = key e /\ els' = del_at A els i /\
   sorted els' /\ Permutation els (el A dflt els i :: els')).
Proof.
  intros els e els' i Hs Hrun. unfold sorted_remove in Hrun.
  destruct els as [| a t].
  - inversion Hrun; subst els' i. left. split; [reflexivity |]. split; [reflexivity |].
    intros x Hin; destruct Hin.
  - remember (a :: t) as els eqn:Eels.
    destruct (bsearch A cmp dflt els e) as [idx found] eqn:Eb.
    assert (Hp : bs_post els e idx found)
      by (apply bsearch_correct; [exact Hs | subst els; discriminate | exact Eb]).
    destruct Hp as [Hr [Ht Hf]].
    destruct found.
    + assert (Hrun' : (del_at A els idx, idx) = (els', i)) by (subst els; exact Hrun).
      inversion Hrun'; subst els' i. clear Hrun Hrun'. right.
      destruct (Ht eq_refl) as [H1 H2].
      assert (Hidx : (Z.to_nat idx < length els)%nat) by lia.
      split; [lia |]. split; [exact H2 |]. split; [reflexivity |]. unfold del_at. split.
      * apply del_sorted; [exact Hs | exact Hidx].
      * unfold el. rewrite (split_at els (Z.to_nat idx) Hidx) at 1.
        apply Permutation_sym. apply Permutation_middle.
    + assert (Hrun' : (els, -1) = (els', i)) by (subst els; exact Hrun).
      inversion Hrun'; subst els' i. left. split; [reflexivity |]. split; [reflexivity |].
      destruct (Hf eq_refl) as [Hlo Hhi]. eapply notfound_no_key; eassumption.
Qed.

End SarrProofs.
