(* C18 - executable model of iwpool_split_string (src/utils/iwpool.c) at byte level, with the loop as written: the index i,
   the pointers sp / ep (as offsets into the haystack), the tests `ep >= sp` and `sch || *(ep + 1) == '\0'`, the `++ep` for
   a last character that is no separator, the two trimming loops of ignore_whitespace (iwchars_is_space: 32 or 9..13),
   `ep = haystack + i` after a token, `sp = haystack + i + 1`.  Every read of the haystack goes through [rd]; a read beyond
   the terminator (offset > strlen) sets the fault flag.  The allocations (pointer array of (hsz + 1) * sizeof(char* ), then
   len + 1 bytes per token) go through p_alloc of UT/Pool.v.  Follows the code after fix bf5efac.  No proofs here. *)
Require Import ZArith List Bool Lia Arith.
Require Import IW.Gen.Facts IW.UT.Pool.
Import ListNotations.

(* haystack[k]; k = length h is the terminating NUL *)
Definition rd (h : list Z) (k : nat) : Z := nth k h 0%Z.
(* a read at offset k is out of bounds when k > strlen *)
Definition oob (h : list Z) (k : nat) : bool := (length h <? k).

Definition is_space (c : Z) : bool := (c =? 32)%Z || ((9 <=? c)%Z && (c <=? 13)%Z).
(* strchr(split_chars, ch) != 0  (strchr finds the terminator when ch == 0) *)
Definition is_sep (seps : list Z) (ch : Z) : bool := (ch =? 0)%Z || existsb (Z.eqb ch) seps.

Record sst := mkSS { s_sp : nat; s_ep : nat; s_i : nat; s_toks : list (list Z); s_fault : bool }.

(* while (sp < ep && iwchars_is_space( *sp)) ++sp;   result (sp, fault) *)
Fixpoint trim_l (h : list Z) (fuel sp ep : nat) (flt : bool) : nat * bool :=
  match fuel with
  | O => (sp, flt)
  | S f => if (sp <? ep) then
             (if is_space (rd h sp) then trim_l h f (S sp) ep (flt || oob h sp) else (sp, flt || oob h sp))
           else (sp, flt)
  end.
(* while (ep > sp && iwchars_is_space( *(ep - 1))) --ep; *)
Fixpoint trim_r (h : list Z) (fuel sp ep : nat) (flt : bool) : nat * bool :=
  match fuel with
  | O => (ep, flt)
  | S f => if (sp <? ep) then
             (if is_space (rd h (ep - 1)) then trim_r h f sp (ep - 1) (flt || oob h (ep - 1)) else (ep, flt || oob h (ep - 1)))
           else (ep, flt)
  end.

Definition tslice (h : list Z) (off n : nat) : list Z := firstn n (skipn off h).

(* the body of the for loop (the loop test *ep != 0 was true), followed by ++i, ++ep.  Tokens are consed (newest first). *)
Definition split_body (h seps : list Z) (ws : bool) (st : sst) : sst :=
  let i := s_i st in
  let sp := s_sp st in
  let ep := s_ep st in
  let ch := rd h i in
  let f0 := s_fault st || oob h i in
  let sch := is_sep seps ch in
  let st1 :=
    if (sp <=? ep) then
      (* sch || *(ep + 1) == '\0' : the second operand is read only when sch is false *)
      let last := (rd h (ep + 1) =? 0)%Z in
      let f1 := if sch then f0 else f0 || oob h (ep + 1) in
      if sch || last then
        let ep1 := if negb sch && last then ep + 1 else ep in
        let '(sp2, f2) := if ws then trim_l h (S (length h)) sp ep1 f1 else (sp, f1) in
        let '(ep2, f3) := if ws then trim_r h (S (length h)) sp2 ep1 f2 else (ep1, f2) in
        if (sp2 <=? ep2) then mkSS (i + 1) i i (tslice h sp2 (ep2 - sp2) :: s_toks st) f3
        else mkSS (i + 1) ep2 i (s_toks st) f3
      else mkSS sp ep i (s_toks st) f1
    else mkSS sp ep i (s_toks st) f0 in
  mkSS (s_sp st1) (s_ep st1 + 1) (s_i st1 + 1) (s_toks st1) (s_fault st1).

(* for (...; *ep; ...) *)
Fixpoint split_loop (h seps : list Z) (ws : bool) (fuel : nat) (st : sst) : sst :=
  match fuel with
  | O => st
  | S f =>
    if (rd h (s_ep st) =? 0)%Z then mkSS (s_sp st) (s_ep st) (s_i st) (s_toks st) (s_fault st || oob h (s_ep st))
    else split_loop h seps ws f (split_body h seps ws (mkSS (s_sp st) (s_ep st) (s_i st) (s_toks st) (s_fault st || oob h (s_ep st))))
  end.

(* tokens in order, the number j of pointers stored before the terminating NULL, and the fault flag *)
Definition split_string (h seps : list Z) (ws : bool) : list (list Z) * bool :=
  let st := split_loop h seps ws (S (length h)) (mkSS 0 0 0 [] false) in
  (rev (s_toks st), s_fault st).

(* the requests the call makes to iwpool_alloc, in order: the pointer array first, then one block per token *)
Definition split_sizes (h seps : list Z) (ws : bool) : list nat :=
  P_PTR_SIZE * (length h + 1) :: map (fun t => length t + 1) (fst (split_string h seps ws)).

Definition p_split (p : pool) (h seps : list Z) (ws : bool) : pool * list region := p_allocs p (split_sizes h seps ws).

(* ---------------------------------------------------------------- reference: plain structural split *)
Definition issep (seps : list Z) (c : Z) : bool := existsb (Z.eqb c) seps.

(* the pieces between separators; [cur] is the piece being collected *)
Fixpoint pieces (seps : list Z) (h cur : list Z) : list (list Z) :=
  match h with
  | [] => [cur]
  | c :: t => if issep seps c then cur :: pieces seps t [] else pieces seps t (cur ++ [c])
  end.

Fixpoint drop_spaces (l : list Z) : list Z :=
  match l with [] => [] | c :: t => if is_space c then drop_spaces t else l end.
Definition trim (l : list Z) : list Z := rev (drop_spaces (rev (drop_spaces l))).

(* a final EMPTY piece (haystack empty or ending with a separator) is not a token; emptiness is judged before trimming *)
Definition drop_last_empty (ps : list (list Z)) : list (list Z) :=
  match last ps [0%Z] with [] => removelast ps | _ => ps end.

Definition split_ref (h seps : list Z) (ws : bool) : list (list Z) :=
  map (fun p => if ws then trim p else p) (drop_last_empty (pieces seps h [])).
