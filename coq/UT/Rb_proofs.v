(* C18 - proofs for UT/Rb.v: the ring buffer (pos < 0 filling, pos > 0 wrapped) refines the bounded newest-first
   list for put / clear / back-before-wrap, including what the iterator yields. *)
Require Import ZArith List Bool Lia.
Require Import IW.UT.Rb.
Import ListNotations.
Local Open Scope Z_scope.
Local Arguments r_pos {U} r.
Local Arguments r_len {U} r.
Local Arguments r_buf {U} r.
Local Arguments mkRB {U} r_pos r_len r_buf.

(* ---------------------------------------------------------------- generic *)
Section Aux.
Variable T : Type.

Lemma set_nth_length : forall (l : list T) i x, length (set_nth i x l) = length l.
Proof.
  induction l as [| a t IH]; intros i x.
  - destruct i; reflexivity.
  - destruct i as [| i]; simpl; [reflexivity | rewrite IH; reflexivity].
Qed.

Lemma nth_set_nth_eq : forall (l : list T) i x d, (i < length l)%nat -> nth i (set_nth i x l) d = x.
Proof.
  induction l as [| a t IH]; intros i x d Hi; simpl in Hi.
  - lia.
  - destruct i as [| i]; simpl; [reflexivity | apply IH; lia].
Qed.

Lemma nth_set_nth_neq : forall (l : list T) i j x d, i <> j -> nth j (set_nth i x l) d = nth j l d.
Proof.
  induction l as [| a t IH]; intros i j x d Hij.
  - destruct i; reflexivity.
  - destruct i as [| i]; destruct j as [| j]; simpl; try reflexivity; try congruence.
    apply IH. congruence.
Qed.

Lemma nth_error_firstn_lt : forall (l : list T) k i, (i < k)%nat ->
  nth_error (firstn k l) i = nth_error l i.
Proof.
  induction l as [| a t IH]; intros k i Hi.
  - rewrite firstn_nil. reflexivity.
  - destruct k as [| k]; [lia |]. destruct i as [| i]; simpl; [reflexivity | apply IH; lia].
Qed.
End Aux.

Lemma mod_cases : forall len a, 0 < len -> - len <= a < len ->
  (a < 0 /\ a mod len = a + len) \/ (0 <= a /\ a mod len = a).
Proof.
  intros len a Hlen Ha. destruct (Z_lt_le_dec a 0) as [L | G].
  - left. split; [exact L |].
    replace a with ((a + len) + (-1) * len) at 1 by ring.
    rewrite Z_mod_plus_full. apply Z.mod_small. lia.
  - right. split; [exact G |]. apply Z.mod_small. lia.
Qed.

Section RbProofs.
Variable U : Type.
Variable dflt : U.

(* ---------------------------------------------------------------- iterator, one step *)
Lemma it_all_S : forall f (r : rb U) st,
  it_all U dflt (S f) r st =
    match it_prev U dflt r st with
    | (Some x, st') => x :: it_all U dflt f r st'
    | (None, _) => []
    end.
Proof. reflexivity. Qed.

Lemma it_prev_unw_stop : forall (r : rb U) ipos, r_pos r < 0 ->
  it_prev U dflt r (0, ipos) = (None, (0, ipos)).
Proof.
  intros r ipos Hp. unfold it_prev.
  destruct (ipos =? 0); [reflexivity |].
  assert (E : (r_pos r <? 0) = true) by (apply Z.ltb_lt; exact Hp). rewrite E. reflexivity.
Qed.

Lemma it_prev_unw_go : forall (r : rb U) pos ipos, r_pos r < 0 -> ipos <> 0 -> pos <> 0 ->
  exists ipos', ipos' <> 0 /\
    it_prev U dflt r (pos, ipos) = (Some (slot U dflt r (pos - 1)), (pos - 1, ipos')).
Proof.
  intros r pos ipos Hp Hi Hpos. unfold it_prev.
  assert (E0 : (ipos =? 0) = false) by (apply Z.eqb_neq; exact Hi). rewrite E0.
  assert (E1 : (r_pos r <? 0) = true) by (apply Z.ltb_lt; exact Hp). rewrite E1.
  assert (E2 : (pos =? 0) = false) by (apply Z.eqb_neq; exact Hpos). rewrite E2.
  exists (if ipos <? 0 then - ipos else ipos). split; [| reflexivity].
  destruct (ipos <? 0); lia.
Qed.

Lemma it_prev_wr_first : forall (r : rb U) p, 0 < r_pos r -> 0 < p ->
  it_prev U dflt r (p, - p) = (Some (slot U dflt r (p - 1)), (p - 1, p)).
Proof.
  intros r p Hp Hpp. unfold it_prev.
  assert (E0 : (- p =? 0) = false) by (apply Z.eqb_neq; lia). rewrite E0.
  assert (E1 : (r_pos r <? 0) = false) by (apply Z.ltb_ge; lia). rewrite E1.
  assert (E2 : (p =? 0) = false) by (apply Z.eqb_neq; lia). rewrite E2.
  assert (E3 : (- p <? 0) = true) by (apply Z.ltb_lt; lia). rewrite E3.
  rewrite Z.opp_involutive. reflexivity.
Qed.

Lemma it_prev_wr_stop : forall (r : rb U) q ipos, 0 < r_pos r -> 0 < ipos ->
  (if q =? 0 then r_len r else q) = ipos ->
  exists st', it_prev U dflt r (q, ipos) = (None, st').
Proof.
  intros r q ipos Hp Hi Hq. unfold it_prev.
  assert (E0 : (ipos =? 0) = false) by (apply Z.eqb_neq; lia). rewrite E0.
  assert (E1 : (r_pos r <? 0) = false) by (apply Z.ltb_ge; lia). rewrite E1.
  assert (E3 : (ipos <? 0) = false) by (apply Z.ltb_ge; lia). rewrite E3.
  rewrite Hq. rewrite Z.eqb_refl. eexists. reflexivity.
Qed.

Lemma it_prev_wr_go : forall (r : rb U) q ipos, 0 < r_pos r -> 0 < ipos ->
  (if q =? 0 then r_len r else q) <> ipos ->
  it_prev U dflt r (q, ipos) =
    (Some (slot U dflt r ((if q =? 0 then r_len r else q) - 1)), ((if q =? 0 then r_len r else q) - 1, ipos)).
Proof.
  intros r q ipos Hp Hi Hq. unfold it_prev.
  assert (E0 : (ipos =? 0) = false) by (apply Z.eqb_neq; lia). rewrite E0.
  assert (E1 : (r_pos r <? 0) = false) by (apply Z.ltb_ge; lia). rewrite E1.
  assert (E3 : (ipos <? 0) = false) by (apply Z.ltb_ge; lia). rewrite E3.
  assert (E4 : (ipos =? (if q =? 0 then r_len r else q)) = false) by (apply Z.eqb_neq; lia).
  rewrite E4. reflexivity.
Qed.

(* ---------------------------------------------------------------- iterator, whole runs *)
Lemma it_unwrapped : forall (d : list U) fuel ipos (r : rb U),
  r_pos r < 0 -> ipos <> 0 -> (length d < fuel)%nat ->
  (forall i, (i < length d)%nat ->
     nth_error d i = Some (slot U dflt r (Z.of_nat (length d) - 1 - Z.of_nat i))) ->
  it_all U dflt fuel r (Z.of_nat (length d), ipos) = d.
Proof.
  induction d as [| a t IH]; intros fuel ipos r Hp Hi Hfuel Hnth.
  - destruct fuel as [| fuel]; [simpl in Hfuel; lia |].
    rewrite it_all_S. cbn [length Z.of_nat]. rewrite it_prev_unw_stop by exact Hp. reflexivity.
  - destruct fuel as [| fuel]; [simpl in Hfuel; lia |].
    rewrite it_all_S.
    destruct (it_prev_unw_go r (Z.of_nat (length (a :: t))) ipos Hp Hi) as [ipos' [Hi' Hstep]];
      [cbn [length]; lia |].
    rewrite Hstep.
    assert (Hl : Z.of_nat (length (a :: t)) - 1 = Z.of_nat (length t)) by (cbn [length]; lia).
    rewrite Hl.
    assert (Hhd : Some a = Some (slot U dflt r (Z.of_nat (length t)))).
    { rewrite <- Hl. specialize (Hnth 0%nat). cbn [nth_error] in Hnth. rewrite Hnth.
      - f_equal. f_equal. lia.
      - cbn [length]. lia. }
    inversion Hhd as [Hhd']. rewrite <- Hhd'. f_equal.
    apply IH; [exact Hp | exact Hi' | cbn [length] in Hfuel; lia |].
    intros i Hlt. specialize (Hnth (S i)). cbn [nth_error] in Hnth. rewrite Hnth.
    + f_equal. f_equal. cbn [length]. lia.
    + cbn [length]. lia.
Qed.

Section WithLen.
Variable len : Z.
Hypothesis Hlen : 0 < len.

Lemma it_wrapped : forall (d : list U) fuel q (r : rb U),
  r_len r = len -> 1 <= r_pos r <= len -> 0 <= q < len ->
  (q - r_pos r) mod len = Z.of_nat (length d) -> (length d < fuel)%nat ->
  (forall i, (i < length d)%nat ->
     nth_error d i = Some (slot U dflt r ((q - 1 - Z.of_nat i) mod len))) ->
  it_all U dflt fuel r (q, r_pos r) = d.
Proof.
  induction d as [| a t IH]; intros fuel q r Hrl Hp Hq Hm Hfuel Hnth.
  - destruct fuel as [| fuel]; [simpl in Hfuel; lia |].
    rewrite it_all_S. cbn [length Z.of_nat] in Hm.
    destruct (it_prev_wr_stop r q (r_pos r)) as [st' Hstep]; [lia | lia | |].
    + rewrite Hrl.
      destruct (mod_cases len (q - r_pos r) Hlen) as [[Hneg Hmm] | [Hpos Hmm]]; [lia | |];
        rewrite Hmm in Hm; destruct (q =? 0) eqn:Eq;
        [apply Z.eqb_eq in Eq | apply Z.eqb_neq in Eq | apply Z.eqb_eq in Eq | apply Z.eqb_neq in Eq]; lia.
    + rewrite Hstep. reflexivity.
  - destruct fuel as [| fuel]; [simpl in Hfuel; lia |].
    rewrite it_all_S. cbn [length] in Hm, Hfuel.
    set (pos1 := if q =? 0 then r_len r else q).
    assert (Hpos1 : (q = 0 /\ pos1 = len) \/ (0 < q /\ pos1 = q)).
    { unfold pos1. destruct (q =? 0) eqn:Eq; [apply Z.eqb_eq in Eq | apply Z.eqb_neq in Eq]; lia. }
    assert (Hne : pos1 <> r_pos r).
    { destruct (mod_cases len (q - r_pos r) Hlen) as [[Hneg Hmm] | [Hpos Hmm]]; [lia | |];
        rewrite Hmm in Hm; lia. }
    rewrite (it_prev_wr_go r q (r_pos r)) by (fold pos1; lia). fold pos1.
    assert (Hq' : 0 <= pos1 - 1 < len) by lia.
    assert (Hidx0 : (q - 1 - Z.of_nat 0) mod len = pos1 - 1).
    { destruct (mod_cases len (q - 1 - Z.of_nat 0) Hlen) as [[Hneg Hmm] | [Hpos Hmm]];
        [lia | |]; rewrite Hmm; lia. }
    assert (Hhd : Some a = Some (slot U dflt r (pos1 - 1))).
    { rewrite <- Hidx0. specialize (Hnth 0%nat). cbn [nth_error] in Hnth. apply Hnth.
      cbn [length]. lia. }
    inversion Hhd as [Hhd']. rewrite <- Hhd'. f_equal.
    apply IH; [exact Hrl | exact Hp | exact Hq' | | lia |].
    + destruct (mod_cases len (q - r_pos r) Hlen) as [[Hneg Hmm] | [Hpos Hmm]]; [lia | |];
        rewrite Hmm in Hm;
        (destruct (mod_cases len (pos1 - 1 - r_pos r) Hlen) as [[Hneg' Hmm'] | [Hpos' Hmm']];
         [lia | |]); rewrite Hmm'; lia.
    + intros i Hlt. specialize (Hnth (S i)). cbn [nth_error] in Hnth. rewrite Hnth by (cbn [length]; lia).
      f_equal. f_equal.
      assert (Hi : Z.of_nat (S i) < len).
      { destruct (mod_cases len (q - r_pos r) Hlen) as [[Hneg Hmm] | [Hpos Hmm]]; [lia | |];
          rewrite Hmm in Hm; lia. }
      destruct (mod_cases len (q - 1 - Z.of_nat (S i)) Hlen) as [[Hn1 Hm1] | [Hp1 Hm1]]; [lia | |];
        rewrite Hm1;
        (destruct (mod_cases len (pos1 - 1 - 1 - Z.of_nat i) Hlen) as [[Hn2 Hm2] | [Hp2 Hm2]];
         [lia | |]); rewrite Hm2; lia.
Qed.

(* ---------------------------------------------------------------- the relation ring <-> newest-first list *)
Definition rb_rel (r : rb U) (d : list U) : Prop :=
  r_len r = len /\ length (r_buf r) = Z.to_nat len /\
  ((r_pos r = - Z.of_nat (length d) /\ Z.of_nat (length d) <= len /\
    forall i, (i < length d)%nat ->
      nth_error d i = Some (slot U dflt r (Z.of_nat (length d) - 1 - Z.of_nat i)))
   \/
   (1 <= r_pos r <= len /\ Z.of_nat (length d) = len /\
    forall i, (i < length d)%nat ->
      nth_error d i = Some (slot U dflt r ((r_pos r - 1 - Z.of_nat i) mod len)))).

Lemma rb_create_rel : rb_rel (rb_create U dflt len) [].
Proof.
  unfold rb_rel, rb_create. cbn [r_pos r_len r_buf length].
  split; [reflexivity |]. split; [apply repeat_length |].
  left. split; [reflexivity |]. split; [lia |]. intros i Hi. lia.
Qed.

(* observations *)
Lemma rb_iter_rel : forall r d, rb_rel r d -> rb_iter U dflt r = d.
Proof.
  intros r d [Hrl [Hbuf [[Hpos [Hn Hnth]] | [Hpos [Hn Hnth]]]]]; unfold rb_iter, it_init.
  - destruct d as [| a t].
    + cbn [length Z.of_nat] in Hpos. rewrite Hpos. rewrite it_all_S. reflexivity.
    + assert (Ha : Z.abs (r_pos r) = Z.of_nat (length (a :: t))) by lia. rewrite Ha.
      apply it_unwrapped.
      * cbn [length] in Hpos. lia.
      * cbn [length]. lia.
      * rewrite Hrl. lia.
      * exact Hnth.
  - assert (Ha : Z.abs (r_pos r) = r_pos r) by lia. rewrite Ha.
    destruct d as [| a t]; [cbn [length] in Hn; lia |].
    rewrite it_all_S. rewrite it_prev_wr_first by lia.
    assert (Hidx0 : (r_pos r - 1 - Z.of_nat 0) mod len = r_pos r - 1)
      by (replace (r_pos r - 1 - Z.of_nat 0) with (r_pos r - 1) by lia; apply Z.mod_small; lia).
    assert (Hhd : Some a = Some (slot U dflt r (r_pos r - 1))).
    { rewrite <- Hidx0. apply (Hnth 0%nat). cbn [length]. lia. }
    inversion Hhd as [Hhd']. rewrite <- Hhd'. f_equal.
    cbn [length] in Hn.
    apply it_wrapped; [exact Hrl | lia | lia | | rewrite Hrl; lia |].
    + destruct (mod_cases len (r_pos r - 1 - r_pos r) Hlen) as [[Hneg Hmm] | [Hpos' Hmm]];
        [lia | |]; rewrite Hmm; lia.
    + intros i Hlt. specialize (Hnth (S i)). cbn [nth_error] in Hnth.
      rewrite Hnth by (cbn [length]; lia). f_equal. f_equal. f_equal. lia.
Qed.

Lemma rb_peek_rel : forall r d, rb_rel r d -> rb_peek U dflt r = hd_error d.
Proof.
  intros r d [Hrl [Hbuf [[Hpos [Hn Hnth]] | [Hpos [Hn Hnth]]]]]; unfold rb_peek.
  - destruct d as [| a t].
    + cbn [length Z.of_nat] in Hpos. rewrite Hpos. reflexivity.
    + assert (E : (r_pos r =? 0) = false) by (apply Z.eqb_neq; cbn [length] in Hpos; lia).
      rewrite E. specialize (Hnth 0%nat). cbn [nth_error] in Hnth. cbn [hd_error].
      rewrite Hnth by (cbn [length]; lia). f_equal. f_equal. lia.
  - assert (E : (r_pos r =? 0) = false) by (apply Z.eqb_neq; lia). rewrite E.
    destruct d as [| a t]; [cbn [length] in Hn; lia |].
    specialize (Hnth 0%nat). cbn [nth_error] in Hnth. cbn [hd_error].
    rewrite Hnth by (cbn [length]; lia). f_equal. f_equal.
    rewrite Z.mod_small by lia. lia.
Qed.

Lemma rb_num_rel : forall r d, rb_rel r d -> rb_num_cached U r = Z.of_nat (length d).
Proof.
  intros r d [Hrl [Hbuf [[Hpos [Hn Hnth]] | [Hpos [Hn Hnth]]]]]; unfold rb_num_cached.
  - assert (E : (r_pos r <=? 0) = true) by (apply Z.leb_le; lia). rewrite E. lia.
  - assert (E : (r_pos r <=? 0) = false) by (apply Z.leb_gt; lia). rewrite E. lia.
Qed.

Lemma rb_obs_rel : forall r d, rb_rel r d -> rb_obs U dflt r = d_obs U d.
Proof.
  intros r d Hrel. unfold rb_obs, d_obs.
  rewrite (rb_num_rel r d Hrel), (rb_peek_rel r d Hrel), (rb_iter_rel r d Hrel). reflexivity.
Qed.

(* ---------------------------------------------------------------- put *)
Lemma rb_put_alt : forall (r : rb U) x, r_len r = len ->
  rb_put U r x =
    if Z.abs (r_pos r) =? len then mkRB 1 len (set_nth 0 x (r_buf r))
    else mkRB (if r_pos r >? 0 then r_pos r + 1 else r_pos r - 1) len
                (set_nth (Z.to_nat (Z.abs (r_pos r))) x (r_buf r)).
Proof.
  intros r x Hrl. unfold rb_put. rewrite Hrl.
  destruct (r_pos r =? 0) eqn:E0; [| reflexivity].
  apply Z.eqb_eq in E0. rewrite E0. cbn [Z.abs].
  assert (E1 : (0 =? len) = false) by (apply Z.eqb_neq; lia). rewrite E1. reflexivity.
Qed.

Lemma d_put_length : forall (d : list U) x,
  length (d_put U len d x) = Nat.min (Z.to_nat len) (S (length d)).
Proof. intros d x. unfold d_put. rewrite firstn_length. reflexivity. Qed.

Lemma d_put_nth : forall (d : list U) x i, (i < Z.to_nat len)%nat ->
  nth_error (d_put U len d x) i = nth_error (x :: d) i.
Proof. intros d x i Hi. unfold d_put. apply nth_error_firstn_lt. exact Hi. Qed.

Lemma slot_set_eq : forall p l (buf : list U) k x, 0 <= k -> (Z.to_nat k < length buf)%nat ->
  slot U dflt (mkRB p l (set_nth (Z.to_nat k) x buf)) k = x.
Proof.
  intros p l buf k x Hk Hlt. unfold slot. cbn [r_buf]. apply nth_set_nth_eq. exact Hlt.
Qed.

Lemma slot_set_neq : forall p l (buf : list U) k j x, 0 <= k -> 0 <= j -> j <> k ->
  slot U dflt (mkRB p l (set_nth (Z.to_nat k) x buf)) j = nth (Z.to_nat j) buf dflt.
Proof.
  intros p l buf k j x Hk Hj Hne. unfold slot. cbn [r_buf]. apply nth_set_nth_neq. lia.
Qed.

Lemma rb_put_rel : forall r d x, rb_rel r d ->
  rb_rel (rb_put U r x) (d_put U len d x) /\
  ((Z.of_nat (length d) <? len) = true ->
     length (d_put U len d x) = S (length d) /\ (0 <? r_pos (rb_put U r x)) = (0 <? r_pos r)) /\
  ((Z.of_nat (length d) <? len) = false ->
     length (d_put U len d x) = length d /\ (0 <? r_pos (rb_put U r x)) = true).
Proof.
  intros r d x [Hrl [Hbuf Hcase]].
  rewrite (rb_put_alt r x Hrl).
  assert (Hdl := d_put_length d x).
  destruct Hcase as [[Hpos [Hn Hnth]] | [Hpos [Hn Hnth]]].
  - (* filling *)
    assert (Ha : Z.abs (r_pos r) = Z.of_nat (length d)) by lia. rewrite Ha.
    destruct (Z.of_nat (length d) =? len) eqn:E; [apply Z.eqb_eq in E | apply Z.eqb_neq in E].
    + (* full, first overwrite: slot 0 *)
      split; [| split].
      * unfold rb_rel. cbn [r_pos r_len r_buf]. split; [reflexivity |].
        split; [rewrite set_nth_length; exact Hbuf |].
        right. split; [lia |]. split; [lia |].
        intros i Hi. rewrite d_put_nth by lia.
        destruct i as [| i]; cbn [nth_error].
        -- f_equal. rewrite Z.mod_small by lia. symmetry.
           apply (slot_set_eq 1 len (r_buf r) 0 x); [lia | change (Z.to_nat 0) with 0%nat; lia].
        -- rewrite Hnth by lia. f_equal.
           destruct (mod_cases len (1 - 1 - Z.of_nat (S i)) Hlen) as [[Hn1 Hm1] | [Hp1 Hm1]]; [lia | | lia].
           rewrite Hm1. unfold slot at 1.
           rewrite (slot_set_neq 1 len (r_buf r) 0 _ x) by lia. f_equal. lia.
      * intros Hlt. apply Z.ltb_lt in Hlt. lia.
      * intros _. cbn [r_pos]. split; [lia | reflexivity].
    + (* room left: slot n *)
      assert (Eg : (r_pos r >? 0) = false) by (destruct (Z.gtb_spec (r_pos r) 0); [lia | reflexivity]).
      rewrite Eg.
      split; [| split].
      * unfold rb_rel. cbn [r_pos r_len r_buf]. split; [reflexivity |].
        split; [rewrite set_nth_length; exact Hbuf |].
        left. split; [lia |]. split; [lia |].
        intros i Hi. rewrite d_put_nth by lia.
        replace (Z.of_nat (length (d_put U len d x))) with (Z.of_nat (length d) + 1) by lia.
        destruct i as [| i]; cbn [nth_error].
        -- f_equal. symmetry.
           replace (Z.of_nat (length d) + 1 - 1 - Z.of_nat 0) with (Z.of_nat (length d)) by lia.
           apply slot_set_eq; lia.
        -- rewrite Hnth by lia. f_equal. unfold slot at 1.
           rewrite slot_set_neq by lia. f_equal. lia.
      * intros _. cbn [r_pos]. split; [lia |].
        assert (E1 : (0 <? r_pos r - 1) = false) by (apply Z.ltb_ge; lia).
        assert (E2 : (0 <? r_pos r) = false) by (apply Z.ltb_ge; lia).
        rewrite E1, E2. reflexivity.
      * intros Hge. apply Z.ltb_ge in Hge. lia.
  - (* wrapped *)
    assert (Ha : Z.abs (r_pos r) = r_pos r) by lia. rewrite Ha.
    destruct (r_pos r =? len) eqn:E; [apply Z.eqb_eq in E | apply Z.eqb_neq in E].
    + split; [| split].
      * unfold rb_rel. cbn [r_pos r_len r_buf]. split; [reflexivity |].
        split; [rewrite set_nth_length; exact Hbuf |].
        right. split; [lia |]. split; [lia |].
        intros i Hi. rewrite d_put_nth by lia.
        destruct i as [| i]; cbn [nth_error].
        -- f_equal. rewrite Z.mod_small by lia. symmetry.
           apply (slot_set_eq 1 len (r_buf r) 0 x); [lia | change (Z.to_nat 0) with 0%nat; lia].
        -- rewrite Hnth by lia. f_equal.
           destruct (mod_cases len (1 - 1 - Z.of_nat (S i)) Hlen) as [[Hn1 Hm1] | [Hp1 Hm1]]; [lia | | lia].
           destruct (mod_cases len (r_pos r - 1 - Z.of_nat i) Hlen) as [[Hn2 Hm2] | [Hp2 Hm2]]; [lia | lia |].
           rewrite Hm1, Hm2. unfold slot at 1.
           rewrite (slot_set_neq 1 len (r_buf r) 0 _ x) by lia. f_equal. lia.
      * intros Hlt. apply Z.ltb_lt in Hlt. lia.
      * intros _. cbn [r_pos]. split; [lia | reflexivity].
    + assert (Eg : (r_pos r >? 0) = true) by (destruct (Z.gtb_spec (r_pos r) 0); [reflexivity | lia]).
      rewrite Eg.
      split; [| split].
      * unfold rb_rel. cbn [r_pos r_len r_buf]. split; [reflexivity |].
        split; [rewrite set_nth_length; exact Hbuf |].
        right. split; [lia |]. split; [lia |].
        intros i Hi. rewrite d_put_nth by lia.
        destruct i as [| i]; cbn [nth_error].
        -- f_equal. symmetry.
           replace (r_pos r + 1 - 1 - Z.of_nat 0) with (r_pos r) by lia.
           rewrite Z.mod_small by lia. apply slot_set_eq; lia.
        -- rewrite Hnth by lia. f_equal.
           replace (r_pos r + 1 - 1 - Z.of_nat (S i)) with (r_pos r - 1 - Z.of_nat i) by lia.
           destruct (mod_cases len (r_pos r - 1 - Z.of_nat i) Hlen) as [[Hn2 Hm2] | [Hp2 Hm2]];
             [lia | |]; rewrite Hm2; unfold slot at 1; rewrite slot_set_neq by lia; reflexivity.
      * intros Hlt. apply Z.ltb_lt in Hlt. lia.
      * intros _. cbn [r_pos]. split; [lia |]. apply Z.ltb_lt. lia.
Qed.

(* ---------------------------------------------------------------- back (before wrapping) / clear *)
Lemma rb_back_rel : forall r d, rb_rel r d -> r_pos r <= 0 -> rb_rel (rb_back U r) (tl d).
Proof.
  intros r d [Hrl [Hbuf Hcase]] Hnw.
  destruct Hcase as [[Hpos [Hn Hnth]] | [Hpos [Hn Hnth]]]; [| lia].
  unfold rb_back.
  assert (E1 : (r_pos r >? 1) = false) by (destruct (Z.gtb_spec (r_pos r) 1); [lia | reflexivity]).
  assert (E2 : (r_pos r =? 1) = false) by (apply Z.eqb_neq; lia).
  rewrite E1, E2.
  destruct d as [| a t].
  - cbn [length Z.of_nat] in Hpos.
    assert (E3 : (r_pos r <? 0) = false) by (apply Z.ltb_ge; lia). rewrite E3.
    unfold rb_rel. split; [exact Hrl |]. split; [exact Hbuf |].
    left. cbn [tl length Z.of_nat]. split; [lia |]. split; [lia |]. intros i Hi. lia.
  - cbn [length] in Hpos, Hn.
    assert (E3 : (r_pos r <? 0) = true) by (apply Z.ltb_lt; lia). rewrite E3.
    unfold rb_rel. cbn [r_pos r_len r_buf tl]. split; [exact Hrl |]. split; [exact Hbuf |].
    left. split; [lia |]. split; [lia |].
    intros i Hi. specialize (Hnth (S i)). cbn [nth_error] in Hnth.
    rewrite Hnth by (cbn [length]; lia). f_equal. unfold slot. cbn [r_buf]. f_equal. f_equal.
    cbn [length]. lia.
Qed.

Lemma rb_clear_rel : forall r d, rb_rel r d -> rb_rel (rb_clear U r) [].
Proof.
  intros r d [Hrl [Hbuf Hcase]]. unfold rb_rel, rb_clear. cbn [r_pos r_len r_buf length Z.of_nat].
  split; [exact Hrl |]. split; [exact Hbuf |].
  left. split; [reflexivity |]. split; [lia |]. intros i Hi. lia.
Qed.

(* back on a wrapped ring: the reference list is not followed (the oldest units become visible again),
   but the newest unit after the call is the second newest before it *)
Theorem rb_back_wrapped_peek : forall r d, rb_rel r d -> 0 < r_pos r -> (2 <= length d)%nat ->
  rb_peek U dflt (rb_back U r) = nth_error d 1.
Proof.
  intros r d [Hrl [Hbuf Hcase]] Hw H2.
  destruct Hcase as [[Hpos [Hn Hnth]] | [Hpos [Hn Hnth]]]; [lia |].
  rewrite (Hnth 1%nat) by lia. unfold rb_back, rb_peek.
  destruct (r_pos r >? 1) eqn:E1.
  - apply Z.gtb_lt in E1. cbn [r_pos].
    assert (E : (r_pos r - 1 =? 0) = false) by (apply Z.eqb_neq; lia). rewrite E.
    f_equal. unfold slot. cbn [r_buf]. f_equal. f_equal.
    rewrite Z.mod_small by lia. lia.
  - assert (Hp1 : r_pos r = 1) by (destruct (Z.gtb_spec (r_pos r) 1); [discriminate | lia]).
    assert (E2 : (r_pos r =? 1) = true) by (apply Z.eqb_eq; exact Hp1). rewrite E2. cbn [r_pos].
    assert (E : (r_len r =? 0) = false) by (apply Z.eqb_neq; lia). rewrite E.
    f_equal. unfold slot. cbn [r_buf]. f_equal. f_equal.
    destruct (mod_cases len (r_pos r - 1 - Z.of_nat 1) Hlen) as [[Hn1 Hm1] | [Hp2 Hm1]]; [lia | |];
      rewrite Hm1; lia.
Qed.

(* ---------------------------------------------------------------- call sequences *)
Lemma rb_run_refines : forall ops r d,
  rb_rel r d -> back_safe U len (Z.of_nat (length d)) (0 <? r_pos r) ops ->
  rb_run U dflt r ops = d_run U len d ops.
Proof.
  induction ops as [| op t IH]; intros r d Hrel Hsafe.
  - reflexivity.
  - cbn [rb_run d_run]. cbv zeta.
    destruct op as [x | |]; cbn [rb_step d_step]; cbn [back_safe] in Hsafe.
    + destruct (rb_put_rel r d x Hrel) as [Hrel' [Hlt Hge]].
      rewrite (rb_obs_rel _ _ Hrel'). f_equal.
      apply IH; [exact Hrel' |].
      destruct (Z.of_nat (length d) <? len) eqn:E.
      * destruct (Hlt eq_refl) as [Hl Hw]. rewrite Hl, Hw.
        replace (Z.of_nat (S (length d))) with (Z.of_nat (length d) + 1) by lia. exact Hsafe.
      * destruct (Hge eq_refl) as [Hl Hw]. rewrite Hl, Hw. exact Hsafe.
    + destruct Hsafe as [Hw Hsafe]. rewrite Hw in Hsafe. apply Z.ltb_ge in Hw.
      assert (Hrel' : rb_rel (rb_back U r) (tl d)) by (apply rb_back_rel; [exact Hrel | exact Hw]).
      rewrite (rb_obs_rel _ _ Hrel'). f_equal.
      apply IH; [exact Hrel' |].
      assert (Hl : Z.of_nat (length (tl d)) = Z.max 0 (Z.of_nat (length d) - 1))
        by (destruct d; cbn [tl length]; lia).
      rewrite Hl.
      assert (Hw' : (0 <? r_pos (rb_back U r)) = false).
      { destruct Hrel' as [_ [_ [[Hpos _] | [Hpos [Hn _]]]]]; [apply Z.ltb_ge; lia |].
        exfalso. destruct d as [| a d']; cbn [tl length] in *; [lia |].
        destruct Hrel as [_ [_ [[Hq [Hn' _]] | [Hq _]]]]; cbn [length] in *; lia. }
      rewrite Hw'. exact Hsafe.
    + assert (Hrel' : rb_rel (rb_clear U r) []) by (apply (rb_clear_rel r d); exact Hrel).
      rewrite (rb_obs_rel _ _ Hrel'). f_equal.
      apply IH; [exact Hrel' |]. exact Hsafe.
Qed.

End WithLen.

Theorem rb_refines_deque : forall len ops, 0 < len -> back_safe U len 0 false ops ->
  rb_run U dflt (rb_create U dflt len) ops = d_run U len [] ops.
Proof.
  intros len ops Hlen Hsafe.
  apply (rb_run_refines len Hlen); [apply rb_create_rel; exact Hlen |]. exact Hsafe.
Qed.

End RbProofs.
