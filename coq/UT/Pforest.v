(* C18 - executable model of the pool HIERARCHY and REFERENCE COUNTING of src/utils/iwpool.c:
   iwpool_create / iwpool_create_empty / iwpool_create_attach / iwpool_create_empty_attach, iwpool_ref,
   iwpool_destroy (+ iwpool_free_fn), _parent_remove_child, iwpool_user_data_set / _get / _detach, and
   iwpool_alloc on a member of the forest (unit arithmetic of UT/Pool.v).

   Pointer level.  A `struct iwpool` is a cell of a heap indexed by the order of creation (the harness gives the
   same numbers to the pools it creates).  `parent`, `children`, `next` are raw pointers = option nat; a number names
   ONE allocation for ever (no reuse), so a pointer to a released pool stays recognisable: the slot of a released
   struct is [Freed], and every load or store the C code performs through a pointer is a [get]; a [get] of a [Freed]
   slot sets [f_fault] (the model's use-after-free / double-free flag, what ASan or the poisoning quarantine of the
   harness reports).  The log [f_log] records the releases in the order of the free() calls:
     EUnits p n   the n heap units of pool p (2 free() each: heap + unit header)
     EUd p tok    user_data_free_fn(user_data) of pool p
     EFree p      free(pool)
   The bool argument [clr] of destroy is the assignment `c->parent = 0;` in the child loop of iwpool_destroy:
   the code is [clr = true]; [clr = false] is the variant the round-5 seeded change produced (refuted in
   Pforest_proofs.v).  Recursion of iwpool_destroy: fuel; running out of fuel counts as a fault, and the proofs
   show that 2 * (number of pools) + 2 is always enough.
   malloc failures and the int overflow of numrefs are out of scope.  No proofs here. *)
Require Import ZArith List Bool Lia Arith.
Require Import IW.Gen.Facts IW.UT.Pool.
Import ListNotations.

Record cell := mkCell {
  c_refs : Z;                  (* int numrefs *)
  c_parent : option nat;       (* struct iwpool *parent *)
  c_children : option nat;     (* struct iwpool *children: newest attached child *)
  c_next : option nat;         (* struct iwpool *next: next (older) sibling *)
  c_pool : pool;               (* usiz / asiz / unit chain (UT/Pool.v) *)
  c_ud : option nat;           (* void *user_data: None = NULL, Some t = the object the harness calls token t *)
  c_udfn : bool                (* user_data_free_fn != 0 *)
}.

Inductive slot := Live (c : cell) | Freed.

Inductive event := EUnits (id n : nat) | EUd (id : nat) (tok : option nat) | EFree (id : nat).

Record forest := mkF { f_slots : list slot; f_log : list event; f_fault : bool }.

Definition f_empty : forest := mkF [] [] false.

Definition with_refs (c : cell) (n : Z) : cell :=
  mkCell n (c_parent c) (c_children c) (c_next c) (c_pool c) (c_ud c) (c_udfn c).
Definition with_parent (c : cell) (q : option nat) : cell :=
  mkCell (c_refs c) q (c_children c) (c_next c) (c_pool c) (c_ud c) (c_udfn c).
Definition with_children (c : cell) (k : option nat) : cell :=
  mkCell (c_refs c) (c_parent c) k (c_next c) (c_pool c) (c_ud c) (c_udfn c).
Definition with_next (c : cell) (k : option nat) : cell :=
  mkCell (c_refs c) (c_parent c) (c_children c) k (c_pool c) (c_ud c) (c_udfn c).
Definition with_pool (c : cell) (p : pool) : cell :=
  mkCell (c_refs c) (c_parent c) (c_children c) (c_next c) p (c_ud c) (c_udfn c).
Definition with_ud (c : cell) (t : option nat) (fn : bool) : cell :=
  mkCell (c_refs c) (c_parent c) (c_children c) (c_next c) (c_pool c) t fn.

(* a load/store through pointer i: None = the memory has been released (or was never allocated) *)
Definition get (f : forest) (i : nat) : option cell :=
  match nth_error (f_slots f) i with Some (Live c) => Some c | _ => None end.

Fixpoint upd {A : Type} (l : list A) (i : nat) (x : A) : list A :=
  match l with
  | [] => []
  | h :: t => match i with 0 => x :: t | S i' => h :: upd t i' x end
  end.

Definition set_slot (f : forest) (i : nat) (s : slot) : forest := mkF (upd (f_slots f) i s) (f_log f) (f_fault f).
Definition set (f : forest) (i : nat) (c : cell) : forest := set_slot f i (Live c).
Definition fault (f : forest) : forest := mkF (f_slots f) (f_log f) true.
Definition emit (f : forest) (e : event) : forest := mkF (f_slots f) (f_log f ++ [e]) (f_fault f).

(* ---------------------------------------------------------------- creation *)
(* iwpool_create(siz) / iwpool_create_empty(): numrefs = 1, no links, no user data *)
Definition fresh (p : pool) : cell := mkCell 1 None None None p None false.

Definition f_create (f : forest) (p : pool) : forest * nat :=
  (mkF (f_slots f ++ [Live (fresh p)]) (f_log f) (f_fault f), length (f_slots f)).

(* iwpool_create_attach(parent, siz) / iwpool_create_empty_attach(parent):
     res->parent = parent; if (!parent->children) parent->children = res;
     else { res->next = parent->children; parent->children = res; }
   (both branches leave res->next == the old parent->children).  parent == NULL: a plain create. *)
Definition f_attach (f : forest) (parent : option nat) (p : pool) : forest * nat :=
  let '(f1, r) := f_create f p in
  match parent with
  | None => (f1, r)
  | Some q =>
    match get f1 q with
    | None => (fault f1, r)
    | Some qc =>
      let rc := mkCell 1 (Some q) None (c_children qc) p None false in
      (set (set f1 r rc) q (with_children qc (Some r)), r)
    end
  end.

(* iwpool_ref: return ++pool->numrefs *)
Definition f_ref (f : forest) (p : nat) : forest * Z :=
  match get f p with
  | None => (fault f, 0%Z)
  | Some c => let n := (c_refs c + 1)%Z in (set f p (with_refs c n), n)
  end.

(* ---------------------------------------------------------------- _parent_remove_child
   for (c = parent->children, p = 0; c; p = c, c = c->next)
     if (c == child) { c->parent = 0; if (p) p->next = c->next; else parent->children = c->next; break; } *)
Fixpoint prc_walk (fuel : nat) (f : forest) (q p : nat) (prev : option nat) (c : option nat) : forest :=
  match c with
  | None => f
  | Some ci =>
    match fuel with
    | 0 => fault f
    | S fuel' =>
      if ci =? p then
        match get f ci with
        | None => fault f
        | Some cc =>
          let f1 := set f ci (with_parent cc None) in
          match prev with
          | Some pi =>
            match get f1 pi with None => fault f1 | Some pc => set f1 pi (with_next pc (c_next cc)) end
          | None =>
            match get f1 q with None => fault f1 | Some qc => set f1 q (with_children qc (c_next cc)) end
          end
        end
      else
        match get f ci with
        | None => fault f
        | Some cc => prc_walk fuel' f q p (Some ci) (c_next cc)
        end
    end
  end.

Definition prc (f : forest) (q p : nat) : forest :=
  match get f q with
  | None => fault f
  | Some qc => prc_walk (length (f_slots f)) f q p None (c_children qc)
  end.

(* ---------------------------------------------------------------- iwpool_destroy
   if (!pool || --pool->numrefs > 0) return false;
   if (pool->parent) _parent_remove_child(pool->parent, pool);
   for (c = pool->children; c; c = cn) { cn = c->next; c->parent = 0; iwpool_destroy(c); }
   free every unit; if (user_data_free_fn) user_data_free_fn(user_data); free(pool); return true; *)
Fixpoint destroy (clr : bool) (fuel : nat) (f : forest) (p : nat) {struct fuel} : forest * bool :=
  match fuel with
  | 0 => (fault f, false)
  | S fuel' =>
    match get f p with
    | None => (fault f, false)
    | Some c =>
      let n := (c_refs c - 1)%Z in
      let f1 := set f p (with_refs c n) in
      if (0 <? n)%Z then (f1, false)
      else
        let f2 := match c_parent c with Some q => prc f1 q p | None => f1 end in
        match get f2 p with
        | None => (fault f2, false)
        | Some c2 =>
          let f3 := destroy_kids clr fuel' f2 (c_children c2) in
          match get f3 p with
          | None => (fault f3, false)
          | Some c3 =>
            let f4 := emit f3 (EUnits p (length (p_units (c_pool c3)))) in
            let f5 := if c_udfn c3 then emit f4 (EUd p (c_ud c3)) else f4 in
            (emit (set_slot f5 p Freed) (EFree p), true)
          end
        end
    end
  end
with destroy_kids (clr : bool) (fuel : nat) (f : forest) (c : option nat) {struct fuel} : forest :=
  match fuel with
  | 0 => match c with None => f | Some _ => fault f end
  | S fuel' =>
    match c with
    | None => f
    | Some ci =>
      match get f ci with
      | None => fault f
      | Some cc =>
        let cn := c_next cc in
        let f1 := if clr then set f ci (with_parent cc None) else f in
        destroy_kids clr fuel' (fst (destroy clr fuel' f1 ci)) cn
      end
    end
  end.

Definition d_fuel (f : forest) : nat := 2 * length (f_slots f) + 2.

Definition f_destroy_v (clr : bool) (f : forest) (p : nat) : forest * bool := destroy clr (d_fuel f) f p.
(* the code *)
Definition f_destroy (f : forest) (p : nat) : forest * bool := f_destroy_v true f p.

(* ---------------------------------------------------------------- user data, allocation *)
(* iwpool_user_data_set: the old destructor runs on the old data first *)
Definition f_ud_set (f : forest) (p : nat) (tok : option nat) (fn : bool) : forest :=
  match get f p with
  | None => fault f
  | Some c =>
    let f1 := if c_udfn c then emit f (EUd p (c_ud c)) else f in
    set f1 p (with_ud c tok fn)
  end.

Definition f_ud_get (f : forest) (p : nat) : forest * option nat :=
  match get f p with None => (fault f, None) | Some c => (f, c_ud c) end.

(* iwpool_user_data_detach: user_data_free_fn = 0, the data pointer stays *)
Definition f_ud_detach (f : forest) (p : nat) : forest * option nat :=
  match get f p with None => (fault f, None) | Some c => (set f p (with_ud c (c_ud c) false), c_ud c) end.

Definition f_alloc (f : forest) (p n : nat) : forest * (nat * nat) :=
  match get f p with
  | None => (fault f, (0, 0))
  | Some c => let '(pl, w) := p_alloc (c_pool c) n in (set f p (with_pool c pl), w)
  end.

(* ---------------------------------------------------------------- call sequences *)
Inductive fop :=
| FCreate (siz : nat) | FCreateEmpty
| FAttach (parent : option nat) (siz : nat) | FAttachEmpty (parent : option nat)
| FRef (p : nat)
| FDestroy (p : option nat)              (* iwpool_destroy / iwpool_free_fn; None = NULL *)
| FAlloc (p n : nat)
| FUdSet (p : nat) (tok : option nat) (fn : bool)
| FUdDetach (p : nat).

Definition f_step_v (clr : bool) (f : forest) (op : fop) : forest :=
  match op with
  | FCreate siz => fst (f_create f (p_create siz))
  | FCreateEmpty => fst (f_create f p_create_empty)
  | FAttach q siz => fst (f_attach f q (p_create siz))
  | FAttachEmpty q => fst (f_attach f q p_create_empty)
  | FRef p => fst (f_ref f p)
  | FDestroy None => f
  | FDestroy (Some p) => fst (f_destroy_v clr f p)
  | FAlloc p n => fst (f_alloc f p n)
  | FUdSet p tok fn => f_ud_set f p tok fn
  | FUdDetach p => fst (f_ud_detach f p)
  end.
Definition f_step := f_step_v true.

Definition live (f : forest) (i : nat) : bool := match get f i with Some _ => true | None => false end.

(* the caller's side of the contract: a pool that has been released is never passed to the library again *)
Definition op_ok (f : forest) (op : fop) : bool :=
  match op with
  | FCreate _ | FCreateEmpty => true
  | FAttach None _ | FAttachEmpty None => true
  | FAttach (Some q) _ | FAttachEmpty (Some q) => live f q
  | FRef p | FAlloc p _ | FUdSet p _ _ | FUdDetach p => live f p
  | FDestroy None => true
  | FDestroy (Some p) => live f p
  end.

(* calls that break the contract are dropped from the sequence *)
Fixpoint f_run_v (clr : bool) (f : forest) (ops : list fop) : forest :=
  match ops with
  | [] => f
  | op :: t => if op_ok f op then f_run_v clr (f_step_v clr f op) t else f_run_v clr f t
  end.
Definition f_run := f_run_v true.

(* ---------------------------------------------------------------- dropping every reference
   what `pf drain` of the harness does: pools in the order of creation; a pool that is alive and has no parent is
   destroyed numrefs times *)
Fixpoint destroy_n (n : nat) (f : forest) (p : nat) : forest :=
  match n with
  | 0 => f
  | S n' => match get f p with None => f | Some _ => destroy_n n' (fst (f_destroy f p)) p end
  end.

Definition drain_one (f : forest) (p : nat) : forest :=
  match get f p with
  | Some c => match c_parent c with None => destroy_n (Z.to_nat (c_refs c)) f p | Some _ => f end
  | None => f
  end.

Fixpoint drain_from (k i : nat) (f : forest) : forest :=
  match k with 0 => f | S k' => drain_from k' (S i) (drain_one f i) end.

Definition f_drain (f : forest) : forest := drain_from (length (f_slots f)) 0 f.
