Require Import ZArith List. Require Extraction. Require Import ExtrOcamlBasic.
Require Import IW.JSON.Val IW.JSON.Binn IW.JSON.Ptr IW.JSON.Text IW.JSON.BinnAcc IW.Gen.Facts.
Extraction "m.ml" Z.add Z.mul Z.sub Z.div_eucl Z.compare Z.of_nat Z.to_nat Z.opp
  binn_encode binn_decode root_bval binn_clone binn_clone_into_pool
  ptr_parse3 at_tree at_tree2 at_binn at_binn2 jbn_clone rfc6901_at rfc_ptr_parse wf
  dec_node as_json jbl_as_json_binn jbl_type jbl_count jbl_size jbl_members
  jbl_object_get_type jbl_object_get_fill jbl_object_get_i64 jbl_object_get_f64 jbl_object_get_bool jbl_object_get_str
  fits cdom keys_fit enc_size ptr_serialize ptr_cmp.
