Require Import ZArith List. Require Extraction. Require Import ExtrOcamlBasic.
Require Import IW.Lib.CInt IW.FS.Exf IW.Gen.Facts.
Extraction "m.ml" Z.add Z.mul Z.sub Z.div_eucl Z.compare Z.of_nat Z.to_nat Z.opp
  tree_quirks fixed_quirks orig_quirks exfile_open exfile_write exfile_read exfile_copy truncate_lw ensure_size_lw
  add_mmap_lw remove_mmap_lw probe_mmap remap_all zlen os_any os_limit EXF_CRASH EXF_PSIZE
  EXF_E_IO EXF_E_OOB EXF_E_NOT_ALIGNED EXF_E_OVERFLOW EXF_E_MAXOFF EXF_E_POLFAIL EXF_E_OVERLAP EXF_E_NOTMM.
