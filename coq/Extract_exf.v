Require Import ZArith List. Require Extraction. Require Import ExtrOcamlBasic.
Require Import IW.Lib.CInt IW.FS.Exf IW.FS.ExfFile IW.Gen.Facts.
Extraction "m.ml" Z.add Z.mul Z.sub Z.div_eucl Z.compare Z.of_nat Z.to_nat Z.opp
  tree_quirks fixed_quirks orig_quirks exfile_open exfile_open_ro exfile_write_ro exfile_copy_ro exfile_write exfile_read exfile_copy truncate_lw ensure_size_lw
  add_mmap_lw remove_mmap_lw probe_mmap acquire_mmap sync_mmap remap_all step lstep needs_wlock mapped_total zlen
  os_any os_limit os_maplimit os_limits EXF_CRASH EXF_HANG EXF_PSIZE
  EXF_E_IO EXF_E_ERRNO EXF_E_READONLY EXF_E_INVARGS EXF_E_NOT_EXISTS EXF_E_OOB EXF_E_NOT_ALIGNED EXF_E_OVERFLOW EXF_E_MAXOFF EXF_E_POLFAIL
  EXF_E_OVERLAP EXF_E_NOTMM EXF_OTMP EXF_OUNLINK
  norm_opts file_open pf_write pf_read pf_copy pf_close has.
