Require Import ZArith List. Require Extraction. Require Import ExtrOcamlBasic.
Require Import IW.CC.Lts IW.CC.Stw IW.CC.Tp.
(* wrappers with unique names so that the driver does not depend on how extraction renames clashing identifiers *)
Definition stw_cfg := Stw.mkcfg.
Definition stw_init := Stw.init.
Definition stw_step := Stw.step.
Definition stw_hidden := Stw.hidden.
Definition stw_view (s : Stw.st) :=
  (Stw.acc s, (Stw.enq s, (Stw.done s, (Stw.disc s, (Stw.repl s, (Stw.started s, (Stw.queue s ++ Stw.held s,
  (Stw.uaf s, (Stw.freed s, (Stw.w_dead s, Stw.shut s)))))))))).
Definition tp_cfg := Tp.mkcfg.
Definition tp_init := Tp.init.
Definition tp_step := Tp.step.
Definition tp_hidden := Tp.hidden.
Definition tp_waitc := Tp.waitc.
Definition tp_regs := Tp.regs.
Definition tp_busy := Tp.busy.
Definition tp_workers := Tp.workers.
Definition tp_view (c : Tp.cfg) (s : Tp.st) :=
  (Tp.acc s, (Tp.enq s, (Tp.done s, (Tp.disc s, (@nil nat, (Tp.started s, (Tp.queue s ++ Tp.held s,
  (Tp.uaf s, (Tp.freed s, (true, Tp.shut s)))))))))).
Extraction "m.ml" Z.add Z.mul Z.sub Z.div_eucl Z.compare Z.of_nat Z.to_nat Z.opp
  stw_cfg stw_init stw_step stw_hidden stw_view tp_cfg tp_init tp_step tp_hidden tp_waitc tp_regs tp_busy tp_workers tp_view.
