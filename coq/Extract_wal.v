Require Import ZArith List. Require Extraction. Require Import ExtrOcamlBasic.
Require Import IW.Lib.CInt IW.Gen.Facts IW.WAL.Rec IW.WAL.Scan IW.WAL.Replay IW.WAL.Proto IW.WAL.Backup IW.WAL.Hist.
Extraction "m.ml" Z.add Z.mul Z.sub Z.div_eucl Z.compare Z.of_nat Z.to_nat Z.opp
  encode enc_rec rec_size crc32 scan parse wf_log crc_ok crc_full sp_offsets layout_ok
  replay_ops apply_ops recover aop_sig
  run step effect_sig after_effects recovery_effects recover_open
  mk_image split_image open_image backup_run backup_run_w5 set_stage checkpoint
  size sep_fit
  flat hist_ops evs_ops state_after hist_shape no_growth_in_ops no_copy_in_ops hist_range cfg_ok hist_ok ev_okb
  sync_floor done_items.
