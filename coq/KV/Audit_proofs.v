(* Soundness of the two accounting algorithms of the auditor (KV/Audit.v):
   - ranges_disjoint on the sorted list of occupied ranges really means pairwise disjointness;
   - check_map returning no complaint means: a block is marked allocated in the bitmap exactly when it
     lies in one of the occupied ranges ("nothing overlaps and nothing leaks"). *)
Require Import List ZArith Bool Lia Sorted. Import ListNotations.
Require Import IW.KV.Audit.
Local Open Scope Z_scope.

Definition start_le (a b : Z * Z) : Prop := fst a <= fst b.
Definition disj (a b : Z * Z) : Prop := fst a + snd a <= fst b \/ fst b + snd b <= fst a.
Definition inr (b : Z) (r : Z * Z) : Prop := fst r <= b < fst r + snd r.

(* insertion sort *)
Lemma ins_range_in x l y : In y (ins_range x l) <-> y = x \/ In y l.
Proof.
  induction l as [|z l IH]; simpl; [intuition|].
  destruct (fst x <=? fst z); simpl; [intuition|]. rewrite IH. intuition.
Qed.
Lemma sort_ranges_in l y : In y (sort_ranges l) <-> In y l.
Proof.
  induction l as [|x l IH]; simpl; [reflexivity|]. unfold sort_ranges in *. simpl.
  rewrite ins_range_in, IH. intuition.
Qed.
Lemma ins_range_sorted x l : StronglySorted start_le l -> StronglySorted start_le (ins_range x l).
Proof.
  induction l as [|z l IH]; intros Hs; simpl; [repeat constructor|].
  inversion Hs as [|? ? Hs' Hf]; subst.
  destruct (fst x <=? fst z) eqn:E.
  - apply Z.leb_le in E. constructor; [exact Hs|]. constructor; [exact E|].
    rewrite Forall_forall in *. intros y Hy. unfold start_le in *. specialize (Hf y Hy). lia.
  - apply Z.leb_gt in E. constructor; [apply IH; exact Hs'|].
    rewrite Forall_forall in *. intros y Hy. apply ins_range_in in Hy. destruct Hy as [->|Hy].
    + unfold start_le. lia.
    + apply Hf. exact Hy.
Qed.
Lemma sort_ranges_sorted l : StronglySorted start_le (sort_ranges l).
Proof. induction l as [|x l IH]; simpl; [constructor|]. apply ins_range_sorted. exact IH. Qed.

(* adjacent test on a list sorted by start = pairwise disjoint *)
Theorem ranges_disjoint_sound l :
  StronglySorted start_le l -> Forall (fun r => 0 <= snd r) l -> ranges_disjoint l = true ->
  ForallOrdPairs disj l.
Proof.
  induction l as [|[s1 n1] l IH]; intros Hs Hn Hd; [constructor|].
  inversion Hs as [|? ? Hs' Hf]; subst. inversion Hn as [|? ? Hn1 Hn']; subst.
  destruct l as [|[s2 n2] l'].
  - constructor; constructor.
  - simpl in Hd. apply andb_true_iff in Hd. destruct Hd as [H12 Hd]. apply Z.leb_le in H12.
    constructor; [|apply IH; assumption].
    inversion Hs' as [|? ? _ Hf2]; subst.
    rewrite Forall_forall. intros y Hy. left. simpl.
    destruct Hy as [<-|Hy]; [simpl; lia|].
    rewrite Forall_forall in Hf2. specialize (Hf2 y Hy). unfold start_le in Hf2. simpl in Hf2. lia.
Qed.

Section Bitmap.
Variable rd : Z -> Z.
Variable bmoff : Z.
Notation bit := (bm_bit rd bmoff).

Lemma check_free_sound : forall n from, check_free rd n bmoff from = [] ->
  forall b, from <= b < from + Z.of_nat n -> bit b = false.
Proof.
  induction n as [|n IH]; intros from H b Hb; [lia|].
  cbn [check_free] in H. apply app_eq_nil in H. destruct H as [H1 H2].
  destruct (Z.eq_dec b from) as [->|Hne].
  - destruct (bit from); [discriminate|reflexivity].
  - apply (IH (from + 1) H2). lia.
Qed.
Lemma check_used_sound : forall n from, check_used rd n bmoff from = [] ->
  forall b, from <= b < from + Z.of_nat n -> bit b = true.
Proof.
  induction n as [|n IH]; intros from H b Hb; [lia|].
  cbn [check_used] in H. apply app_eq_nil in H. destruct H as [H1 H2].
  destruct (Z.eq_dec b from) as [->|Hne].
  - destruct (bit from); [reflexivity|discriminate].
  - apply (IH (from + 1) H2). lia.
Qed.

(* ranges sorted, disjoint, non-negative, all starting at or after `cur` *)
Fixpoint laid_out (cur : Z) (occ : list (Z * Z)) : Prop :=
  match occ with
  | [] => True
  | (s, n) :: r => cur <= s /\ 0 <= n /\ laid_out (s + n) r
  end.

Lemma laid_out_start : forall occ c r, laid_out c occ -> In r occ -> c <= fst r.
Proof.
  induction occ as [|[s n] occ IH]; intros c r Hl Hin; [destruct Hin|].
  cbn [laid_out] in Hl. destruct Hl as [Hc [Hn Hl]]. destruct Hin as [<-|Hin]; [simpl; lia|].
  specialize (IH _ _ Hl Hin). lia.
Qed.

Theorem check_map_sound : forall occ cur total,
  laid_out cur occ -> cur <= total ->
  check_map rd bmoff cur total occ = [] ->
  forall b, cur <= b < total -> (bit b = true <-> exists r, In r occ /\ inr b r).
Proof.
  induction occ as [|[s n] occ IH]; intros cur total Hl Ht H b Hb.
  - cbn [check_map] in H. split.
    + intros Hbit. assert (Hf : bit b = false) by (apply (check_free_sound _ _ H b); rewrite Z2Nat.id; lia). rewrite Hf in Hbit. discriminate.
    + intros [r [[] _]].
  - cbn [check_map] in H. apply app_eq_nil in H. destruct H as [H1 H]. apply app_eq_nil in H. destruct H as [H2 H3].
    cbn [laid_out] in Hl. destruct Hl as [Hcs [Hn Hl]].
    destruct (Z_lt_ge_dec b s) as [Hlt|Hge].
    + (* before the range: free, and in no range *)
      assert (Hf : bit b = false) by (apply (check_free_sound _ _ H1 b); rewrite Z2Nat.id; lia).
      split; [rewrite Hf; discriminate|].
      intros [r [[<-|Hin] Hr]]; unfold inr in Hr; simpl in Hr; [lia|].
      pose proof (laid_out_start _ _ _ Hl Hin). lia.
    + destruct (Z_lt_ge_dec b (s + n)) as [Hin|Hout].
      * split; [intros _; exists (s, n); split; [left; reflexivity|unfold inr; simpl; lia]|].
        intros _. apply (check_used_sound _ _ H2 b). rewrite Z2Nat.id; lia.
      * (* behind the range: delegate *)
        destruct (Z_le_gt_dec (s + n) total) as [Hst|Hst]; [|lia].
        rewrite (IH (s + n) total Hl Hst H3 b ltac:(lia)).
        split; intros [r [Hr Hi]]; exists r; split; auto.
        -- right. exact Hr.
        -- destruct Hr as [<-|Hr]; [unfold inr in Hi; simpl in Hi; lia|exact Hr].
Qed.
End Bitmap.

(* sorted + disjoint + non-negative ranges are laid out from any point at or before the first start *)
Lemma laid_out_of_disjoint : forall l cur,
  StronglySorted start_le l -> Forall (fun r => 0 <= snd r) l -> ranges_disjoint l = true ->
  (match l with [] => True | r :: _ => cur <= fst r end) -> laid_out cur l.
Proof.
  induction l as [|[s n] l IH]; intros cur Hs Hn Hd Hc; [exact I|].
  inversion Hs as [|? ? Hs' Hf]; subst. inversion Hn as [|? ? Hn1 Hn']; subst.
  cbn [laid_out]. simpl in Hc, Hn1. repeat split; try assumption.
  destruct l as [|[s2 n2] l']; [exact I|].
  simpl in Hd. apply andb_true_iff in Hd. destruct Hd as [H12 Hd]. apply Z.leb_le in H12.
  apply IH; try assumption.
Qed.
