(* C02: iwkv_cursor_copy_val / iwkv_cursor_copy_key - the record under the cursor copied into a caller's buffer of n bytes:
   the full size is reported, at most n bytes are written, and they are the first n bytes of the value / of the key as a
   cursor reports it (number keys as 8 bytes; the compound part next to it). *)
Require Import List ZArith Bool. Import ListNotations.
Require Import IW.KV.Keys IW.KV.Node IW.KV.Cursor IW.KV.Inst.
Local Open Scope Z_scope.

Definition db_ccopyval (d : db) (slot : nat) (n : nat) : option (nat * list Z) :=
  match db_cread d slot with
  | Some (_, v) => Some (length v, firstn n v)
  | None => None
  end.

Definition db_ccopykey (d : db) (slot : nat) (n : nat) : option (nat * Z * list Z) :=
  match db_cread d slot with
  | Some (k, _) => let '(b, comp) := api_key (d_mode d) k in Some (length b, comp, firstn n b)
  | None => None
  end.
