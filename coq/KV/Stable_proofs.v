(* C09: a put leaves every open cursor on its record, and the rest of its forward scan is the old rest plus the new
   record if it lies ahead (scan_stable for insertions and overwrites), for the node model with cursor copies. *)
Require Import List ZArith Bool Lia. Import ListNotations.
Require Import IW.KV.Node IW.KV.Cursor IW.KV.Cursor_proofs.

Section Stable.
Variables K V : Type.
Variable cmp : K -> K -> comparison.
Variable IDXNUM PIVOT : nat.
Variable upd : V -> V -> option V.
Hypothesis idxnum_pos : 1 <= IDXNUM.

Notation chain := (chain K V).
Notation recs := (recs K V).
Notation node := (node K V).

(* put_nodes only locates the node: the mutation itself is put_in on that node and what follows it *)
Lemma put_nodes_locates : forall rest fresh lower k v noover newok r c' ch,
  put_nodes K V cmp IDXNUM PIVOT upd fresh lower rest k v noover newok = (r, c', ch) ->
  exists pre l rest2 c2,
    lower :: rest = pre ++ l :: rest2 /\
    put_in K V cmp IDXNUM PIVOT upd fresh l rest2 k v noover newok = (r, c2, ch) /\
    c' = pre ++ c2.
Proof.
  induction rest as [|nx rest' IH]; intros fresh lower k v noover newok r c' ch H; cbn [put_nodes] in H.
  - exists [], lower, [], c'. split; [reflexivity|]. split; [exact H|reflexivity].
  - destruct (first_le K V cmp (snd nx) k).
    + destruct (put_nodes K V cmp IDXNUM PIVOT upd fresh nx rest' k v noover newok) as [[r0 c0] ch0] eqn:E.
      cbv beta iota in H. inversion H; subst.
      destruct (IH _ _ _ _ _ _ _ _ _ E) as [pre [l [rest2 [c2 [H1 [H2 H3]]]]]].
      exists (lower :: pre), l, rest2, c2. split; [rewrite H1; reflexivity|]. split; [exact H2|rewrite H3; reflexivity].
    + exists [], lower, (nx :: rest'), c'. split; [reflexivity|]. split; [exact H|reflexivity].
Qed.

(* the shapes put_in can produce *)
Inductive put_shape (fresh : nat) (lid : nat) (lrecs : recs) (rest : chain) (e : K * V) : chain -> change -> Prop :=
| ShUpdate idx nv : idx < length lrecs -> found_at K V cmp lrecs (fst e) idx = true ->
    put_shape fresh lid lrecs rest e ((lid, update_at K V lrecs idx nv) :: rest) (ChUpdate lid)
| ShInsert idx : idx <= length lrecs ->
    put_shape fresh lid lrecs rest e ((lid, insert_at K V lrecs idx e) :: rest) (ChInsert lid idx)
| ShUpper uid urecs rest' idx : rest = (uid, urecs) :: rest' -> idx <= length urecs ->
    put_shape fresh lid lrecs rest e ((lid, lrecs) :: (uid, insert_at K V urecs idx e) :: rest') (ChInsert uid idx)
| ShAppend :
    put_shape fresh lid lrecs rest e ((lid, lrecs) :: (fresh, [e]) :: rest) (ChSplit (Some lid) fresh true (nid_of K V rest) fresh 0)
| ShSplitHi idx : PIVOT <= length lrecs -> idx <= length (skipn PIVOT lrecs) ->
    put_shape fresh lid lrecs rest e
      ((lid, firstn PIVOT lrecs) :: (fresh, insert_at K V (skipn PIVOT lrecs) idx e) :: rest)
      (ChSplit (Some lid) fresh false (nid_of K V rest) fresh idx)
| ShSplitLo idx : PIVOT <= length lrecs -> idx <= length (firstn PIVOT lrecs) ->
    put_shape fresh lid lrecs rest e
      ((lid, insert_at K V (firstn PIVOT lrecs) idx e) :: (fresh, skipn PIVOT lrecs) :: rest)
      (ChSplit (Some lid) fresh false (nid_of K V rest) lid idx).

Lemma pos_le (r : recs) k : pos K V cmp r k <= length r.
Proof. induction r as [|[k0 v0] r IH]; simpl; [lia|]. destruct (cmp k0 k); simpl; lia. Qed.

Lemma found_lt (r : recs) k i : found_at K V cmp r k i = true -> i < length r.
Proof. unfold found_at. destruct (nth_error r i) eqn:E; [|discriminate]. intros _. apply nth_error_Some. congruence. Qed.

Lemma put_in_shape fresh lid lrecs rest k v noover newok c' ch :
  PIVOT <= IDXNUM ->
  put_in K V cmp IDXNUM PIVOT upd fresh (lid, lrecs) rest k v noover newok = (POk, c', ch) ->
  put_shape fresh lid lrecs rest (k, v) c' ch.
Proof.
  intros Hpiv. unfold put_in.
  destruct (found_at K V cmp lrecs k (pos K V cmp lrecs k)) eqn:Ef.
  - destruct noover; [discriminate|].
    destruct (nth_error lrecs (pos K V cmp lrecs k)) as [[k1 old]|]; [|discriminate].
    destruct (upd old v) as [nv|]; [|discriminate]. intros H; inversion H; subst.
    apply ShUpdate; [eapply found_lt; eauto|exact Ef].
  - destruct newok; cbn [negb]; [|discriminate].
    destruct (Nat.ltb (length lrecs) IDXNUM) eqn:El.
    + intros H; inversion H; subst. apply ShInsert. apply pos_le.
    + apply Nat.ltb_ge in El.
      destruct rest as [|[uid urecs] rest'].
      * destruct (Nat.eqb (pos K V cmp lrecs k) (length lrecs)) eqn:Ee.
        -- intros H; inversion H; subst. apply ShAppend.
        -- destruct (Nat.ltb PIVOT (pos K V cmp lrecs k)); intros H; inversion H; subst.
           ++ apply ShSplitHi; [lia|apply pos_le].
           ++ apply ShSplitLo; [lia|apply pos_le].
      * destruct (Nat.eqb (pos K V cmp lrecs k) IDXNUM && Nat.ltb (length urecs) IDXNUM)%bool.
        -- intros H; inversion H; subst. eapply ShUpper; [reflexivity|apply pos_le].
        -- destruct (Nat.eqb (pos K V cmp lrecs k) (length lrecs)) eqn:Ee.
           ++ intros H; inversion H; subst. apply ShAppend.
           ++ destruct (Nat.ltb PIVOT (pos K V cmp lrecs k)); intros H; inversion H; subst.
              ** apply ShSplitHi; [lia|apply pos_le].
              ** apply ShSplitLo; [lia|apply pos_le].
Qed.

(* ---- find_node through unchanged parts of a chain ---- *)
Notation ids := (map (@fst nat recs)).

Lemma find_node_skip : forall (A B : chain) pv id, ~ In id (ids A) ->
  find_node K V pv (A ++ B) id = find_node K V (last_id_or K V pv A) B id.
Proof.
  induction A as [|[j rj] A IH]; intros B pv id Hn; [reflexivity|].
  cbn [app find_node]. destruct (Nat.eqb j id) eqn:E.
  - apply Nat.eqb_eq in E. subst. exfalso. apply Hn. left. reflexivity.
  - rewrite IH by (intros H; apply Hn; right; exact H). rewrite last_id_or_cons. reflexivity.
Qed.

Lemma find_node_pre : forall (A X X' : chain) pv id, In id (ids A) -> nid_of K V X = nid_of K V X' ->
  find_node K V pv (A ++ X) id = find_node K V pv (A ++ X') id.
Proof.
  induction A as [|[j rj] A IH]; intros X X' pv id Hin Hx; [destruct Hin|].
  cbn [app find_node]. destruct (Nat.eqb j id) eqn:E.
  - f_equal. f_equal. destruct A as [|[a ra] A']; cbn [app nid_of]; [exact Hx|reflexivity].
  - apply IH; [|exact Hx]. destruct Hin as [Hj|Hin]; [simpl in Hj; apply Nat.eqb_neq in E; congruence|exact Hin].
Qed.

Lemma ids_app (A B : chain) : ids (A ++ B) = ids A ++ ids B.
Proof. apply map_app. Qed.

Lemma load_node_eq (c c' : chain) id : find_node K V None c id = find_node K V None c' id ->
  load_node K V c id = load_node K V c' id.
Proof. intros H. unfold load_node. rewrite H. reflexivity. Qed.

Lemma read_eq (c c' : chain) cur id : on_node cur id = true ->
  find_node K V None c id = find_node K V None c' id -> cursor_read K V c cur = cursor_read K V c' cur.
Proof.
  intros Hon H. unfold cursor_read, cursor_at. unfold on_node in Hon.
  destruct (c_cn cur) as [cc|]; [|reflexivity]. destruct (cc_node cc) as [| |j]; try reflexivity.
  apply Nat.eqb_eq in Hon. subst j. destruct (Nat.ltb (c_pos cur) (cc_pnum cc)); [|reflexivity]. rewrite H. reflexivity.
Qed.


(* ---- what a successful put does to the chain, as one of six effects ---- *)
Inductive put_effect (fresh : nat) (e : K * V) (c : chain) : chain -> change -> Prop :=
| EfUpdate A nid r B idx nv : c = A ++ (nid, r) :: B -> idx < length r -> found_at K V cmp r (fst e) idx = true ->
    put_effect fresh e c (A ++ (nid, update_at K V r idx nv) :: B) (ChUpdate nid)
| EfInsert A nid r B idx : c = A ++ (nid, r) :: B -> idx <= length r ->
    put_effect fresh e c (A ++ (nid, insert_at K V r idx e) :: B) (ChInsert nid idx)
| EfAppend A lid r B : c = A ++ (lid, r) :: B ->
    put_effect fresh e c (A ++ (lid, r) :: (fresh, [e]) :: B) (ChSplit (Some lid) fresh true (nid_of K V B) fresh 0)
| EfFront :
    put_effect fresh e c ((fresh, [e]) :: c) (ChSplit None fresh true (nid_of K V c) fresh 0)
| EfSplitHi A lid r B idx : c = A ++ (lid, r) :: B -> PIVOT <= length r -> idx <= length (skipn PIVOT r) ->
    put_effect fresh e c (A ++ (lid, firstn PIVOT r) :: (fresh, insert_at K V (skipn PIVOT r) idx e) :: B)
               (ChSplit (Some lid) fresh false (nid_of K V B) fresh idx)
| EfSplitLo A lid r B idx : c = A ++ (lid, r) :: B -> PIVOT <= length r -> idx <= length (firstn PIVOT r) ->
    put_effect fresh e c (A ++ (lid, insert_at K V (firstn PIVOT r) idx e) :: (fresh, skipn PIVOT r) :: B)
               (ChSplit (Some lid) fresh false (nid_of K V B) lid idx).

Lemma shape_effect fresh A lid lrecs rest e c2 ch :
  put_shape fresh lid lrecs rest e c2 ch ->
  put_effect fresh e (A ++ (lid, lrecs) :: rest) (A ++ c2) ch.
Proof.
  intros H. destruct H as [idx nv Hi Hfo|idx Hi|uid urecs rest' idx Hr Hi| |idx Hp Hi|idx Hp Hi].
  - eapply EfUpdate; [reflexivity|exact Hi|exact Hfo].
  - eapply EfInsert; [reflexivity|exact Hi].
  - subst rest.
    replace (A ++ (lid, lrecs) :: (uid, insert_at K V urecs idx e) :: rest')
      with ((A ++ [(lid, lrecs)]) ++ (uid, insert_at K V urecs idx e) :: rest') by (rewrite <- app_assoc; reflexivity).
    eapply EfInsert; [rewrite <- app_assoc; reflexivity|exact Hi].
  - eapply EfAppend. reflexivity.
  - eapply EfSplitHi; [reflexivity|exact Hp|exact Hi].
  - eapply EfSplitLo; [reflexivity|exact Hp|exact Hi].
Qed.

Theorem put_chain_effect fresh c k v noover newok c' ch :
  PIVOT <= IDXNUM ->
  put_chain K V cmp IDXNUM PIVOT upd fresh c k v noover newok = (POk, c', ch) ->
  put_effect fresh (k, v) c c' ch.
Proof.
  intros Hpiv H. destruct c as [|[i0 r0] rest]; cbn [put_chain] in H.
  - destruct newok; inversion H; subst. apply EfFront.
  - destruct (first_le K V cmp r0 k).
    + destruct (put_nodes_locates _ _ _ _ _ _ _ _ _ _ H) as [pre [[lid lrecs] [rest2 [c2 [H1 [H2 H3]]]]]].
      rewrite H1, H3. apply shape_effect. eapply put_in_shape; eauto.
    + destruct newok; cbn [negb] in H; [|discriminate].
      destruct (Nat.ltb (length r0) IDXNUM).
      * inversion H; subst. apply (EfInsert fresh (k, v) _ [] i0 r0 rest (pos K V cmp r0 k)); [reflexivity|apply pos_le].
      * inversion H; subst. apply EfFront.
Qed.


(* ---- cursors positioned on a node, holding a fresh copy of it ---- *)
Definition node_cursor (c : chain) (cur : cursor) (id p : nat) : Prop :=
  exists cc, c_cn cur = Some cc /\ load_node K V c id = Some cc /\ c_pos cur = p.

Lemma load_node_node (c : chain) id cc : load_node K V c id = Some cc -> cc_node cc = CnNode id.
Proof. unfold load_node. destruct (find_node K V None c id) as [[[pv r] nx]|]; [|discriminate]. intros H; inversion H; reflexivity. Qed.

Lemma node_cursor_on (c : chain) cur id p : node_cursor c cur id p -> on_node cur id = true.
Proof.
  intros [cc [H1 [H2 _]]]. unfold on_node. rewrite H1. rewrite (load_node_node _ _ _ H2). apply Nat.eqb_refl.
Qed.

Lemma node_cursor_not_on (c : chain) cur id p j : node_cursor c cur id p -> j <> id -> on_node cur j = false.
Proof.
  intros [cc [H1 [H2 _]]] Hne. unfold on_node. rewrite H1. rewrite (load_node_node _ _ _ H2). apply Nat.eqb_neq. congruence.
Qed.

(* a cursor on a node whose entry (links, records) is the same in c and c' is untouched by a change elsewhere *)
Lemma untouched (c c' : chain) cur id p e0 :
  node_cursor c cur id p -> find_node K V None c id = find_node K V None c' id ->
  cursor_read K V c cur = Some e0 ->
  node_cursor c' cur id p /\ cursor_read K V c' cur = Some e0.
Proof.
  intros Hnc Hf Hr. pose proof (node_cursor_on _ _ _ _ Hnc) as Hon.
  destruct Hnc as [cc [H1 [H2 H3]]]. split.
  - exists cc. split; [exact H1|]. split; [|exact H3]. rewrite <- (load_node_eq c c' id Hf). exact H2.
  - rewrite <- (read_eq c c' cur id Hon Hf). exact Hr.
Qed.

(* one node changes its records, nothing else changes *)
Lemma single_change_other (A B : chain) nid r r' id : id <> nid ->
  find_node K V None (A ++ (nid, r) :: B) id = find_node K V None (A ++ (nid, r') :: B) id.
Proof.
  intros Hne. destruct (in_dec Nat.eq_dec id (ids A)) as [Hin|Hnin].
  - apply find_node_pre; [exact Hin|reflexivity].
  - rewrite !find_node_skip by exact Hnin. cbn [find_node].
    assert (E : Nat.eqb nid id = false) by (apply Nat.eqb_neq; congruence). rewrite E. reflexivity.
Qed.

Lemma single_change_self (A B : chain) nid r' : ~ In nid (ids A) ->
  find_node K V None (A ++ (nid, r') :: B) nid = Some (last_id_or K V None A, r', nid_of K V B).
Proof. intros Hn. apply find_node_app. exact Hn. Qed.

Lemma unique_not_in_pre (A B : chain) nid r : ids_unique K V (A ++ (nid, r) :: B) -> ~ In nid (ids A).
Proof. intros H. eapply unique_split. exact H. Qed.

Lemma read_some_pos (c : chain) cur id p e0 A r B :
  node_cursor c cur id p -> c = A ++ (id, r) :: B -> ids_unique K V c ->
  cursor_read K V c cur = Some e0 -> nth_error r p = Some e0 /\ p < length r.
Proof.
  intros [cc [H1 [H2 H3]]] Hc Hu Hr.
  unfold cursor_read, cursor_at in Hr. rewrite H1 in Hr.
  rewrite (load_at K V c A id r B Hc Hu) in H2. inversion H2; subst cc. cbn [cc_node cc_pnum] in Hr.
  rewrite H3 in Hr. destruct (Nat.ltb p (length r)) eqn:El; [|discriminate].
  rewrite (find_at K V c A id r B Hc Hu) in Hr. split; [exact Hr|apply Nat.ltb_lt; exact El].
Qed.

Lemma update_at_nth (r : recs) idx nv p : 
  nth_error (update_at K V r idx nv) p =
  if Nat.eqb p idx then option_map (fun e => (fst e, nv)) (nth_error r p) else nth_error r p.
Proof.
  revert idx p; induction r as [|[k0 v0] r IH]; intros idx p.
  - destruct idx; destruct p; simpl; try reflexivity; destruct (Nat.eqb _ _); reflexivity.
  - destruct idx as [|idx]; destruct p as [|p]; cbn [update_at nth_error Nat.eqb option_map fst]; try reflexivity.
    apply IH.
Qed.

(* THE STABILITY THEOREM for the effects that do not create a node: overwrite and insertion into a node *)
Theorem update_keeps_cursor (A B : chain) nid r idx nv cur id p k0 v0 :
  let c := A ++ (nid, r) :: B in let c' := A ++ (nid, update_at K V r idx nv) :: B in
  ids_unique K V c -> node_cursor c cur id p -> cursor_read K V c cur = Some (k0, v0) ->
  let cur' := fix_cursor K V IDXNUM PIVOT c' (ChUpdate nid) cur in
  node_cursor c' cur' id p /\ c_skip cur' = c_skip cur /\
  exists v', cursor_read K V c' cur' = Some (k0, v') /\ (v' = v0 \/ (id = nid /\ p = idx)).
Proof.
  intros c c' Hu Hnc Hr. cbv zeta. cbn [fix_cursor]. unfold fix_update.
  destruct (Nat.eq_dec id nid) as [->|Hne].
  - rewrite (node_cursor_on _ _ _ _ Hnc).
    pose proof (unique_not_in_pre A B nid r Hu) as Hnin.
    destruct (read_some_pos c cur nid p (k0, v0) A r B Hnc eq_refl Hu Hr) as [Hnth Hp].
    destruct Hnc as [cc [H1 [H2 H3]]].
    unfold with_cn. rewrite H1. unfold set_cn. cbn [c_skip c_pos c_cn c_pend].
    assert (Hl' : load_node K V c' nid = Some {| cc_node := CnNode nid; cc_pnum := length (update_at K V r idx nv);
                                                 cc_p0 := last_id_or K V None A; cc_n0 := nid_of K V B |}).
    { unfold load_node. unfold c'. rewrite single_change_self by exact Hnin. reflexivity. }
    unfold refresh. rewrite (load_node_node _ _ _ H2). rewrite Hl'.
    split; [eexists; split; [reflexivity|split; [exact Hl'|exact H3]]|]. split; [reflexivity|].
    assert (Hlen : length (update_at K V r idx nv) = length r).
    { clear. revert idx; induction r as [|[k1 v1] r IH]; intros [|j]; simpl; try reflexivity. now rewrite IH. }
    rewrite H3.
    rewrite (read_fields K V c' nid p (last_id_or K V None A) (update_at K V r idx nv) (nid_of K V B) _ _ _);
      [|rewrite Hlen; exact Hp|unfold c'; apply single_change_self; exact Hnin].
    rewrite update_at_nth, Hnth. destruct (Nat.eqb p idx) eqn:E; cbn [option_map fst].
    + exists nv. split; [reflexivity|]. right. split; [reflexivity|apply Nat.eqb_eq; exact E].
    + exists v0. split; [reflexivity|left; reflexivity].
  - rewrite (node_cursor_not_on _ _ _ _ nid Hnc) by congruence.
    destruct (untouched c c' cur id p (k0, v0) Hnc (single_change_other A B nid r _ id Hne) Hr) as [H1 H2].
    split; [exact H1|]. split; [reflexivity|]. exists v0. split; [exact H2|left; reflexivity].
Qed.

Theorem insert_keeps_cursor (A B : chain) nid r idx e cur id p k0 v0 :
  let c := A ++ (nid, r) :: B in let c' := A ++ (nid, insert_at K V r idx e) :: B in
  ids_unique K V c -> node_cursor c cur id p -> cursor_read K V c cur = Some (k0, v0) ->
  let cur' := fix_cursor K V IDXNUM PIVOT c' (ChInsert nid idx) cur in
  (exists p', node_cursor c' cur' id p') /\ c_skip cur' = c_skip cur /\ cursor_read K V c' cur' = Some (k0, v0).
Proof.
  intros c c' Hu Hnc Hr. cbv zeta. cbn [fix_cursor].
  destruct (Nat.eq_dec id nid) as [->|Hne].
  - pose proof (unique_not_in_pre A B nid r Hu) as Hnin.
    destruct (read_some_pos c cur nid p (k0, v0) A r B Hnc eq_refl Hu Hr) as [Hnth Hp].
    assert (Hf' : find_node K V None c' nid = Some (last_id_or K V None A, insert_at K V r idx e, nid_of K V B))
      by (unfold c'; apply single_change_self; exact Hnin).
    assert (Hpos : positioned cur nid p).
    { destruct Hnc as [cc [H1 [H2 H3]]]. exists cc. split; [exact H1|]. split; [exact (load_node_node _ _ _ H2)|exact H3]. }
    split; [|split].
    + (* still a fresh node cursor *)
      unfold fix_insert. rewrite (node_cursor_on _ _ _ _ Hnc).
      destruct Hnc as [cc [H1 [H2 H3]]]. unfold with_cn. rewrite H1. unfold set_cn. cbn [c_pos c_cn c_skip c_pend].
      unfold refresh. rewrite (load_node_node _ _ _ H2).
      assert (Hl' : exists cc', load_node K V c' nid = Some cc') by (unfold load_node; rewrite Hf'; eauto).
      destruct Hl' as [cc' Hl']. rewrite Hl'. rewrite H3.
      destruct (Nat.leb idx p); eexists; eexists; (split; [reflexivity|split; [exact Hl'|reflexivity]]).
    + unfold fix_insert. rewrite (node_cursor_on _ _ _ _ Hnc).
      destruct Hnc as [cc [H1 [H2 H3]]]. unfold with_cn. rewrite H1. unfold set_cn. cbn [c_pos c_cn c_skip c_pend].
      rewrite H3. destruct (Nat.leb idx p); reflexivity.
    + rewrite (fix_insert_keeps K V IDXNUM c' cur nid p idx e r _ _ Hpos Hp Hf'). exact Hnth.
  - unfold fix_insert. rewrite (node_cursor_not_on _ _ _ _ nid Hnc) by congruence.
    destruct (untouched c c' cur id p (k0, v0) Hnc (single_change_other A B nid r _ id Hne) Hr) as [H1 H2].
    split; [exists p; exact H1|]. split; [reflexivity|exact H2].
Qed.


(* refreshing the copy of a cursor whose node still exists makes it a fresh node cursor reading slot p of the node *)
Lemma refreshed (c c' : chain) cur id p pv r' nx :
  node_cursor c cur id p -> find_node K V None c' id = Some (pv, r', nx) -> p < length r' ->
  let cur' := with_cn cur (refresh K V IDXNUM c') in
  node_cursor c' cur' id p /\ c_skip cur' = c_skip cur /\ cursor_read K V c' cur' = nth_error r' p.
Proof.
  intros [cc [H1 [H2 H3]]] Hf Hp. cbv zeta. unfold with_cn. rewrite H1. unfold set_cn.
  unfold refresh. rewrite (load_node_node _ _ _ H2).
  assert (Hl : load_node K V c' id = Some {| cc_node := CnNode id; cc_pnum := length r'; cc_p0 := pv; cc_n0 := nx |})
    by (unfold load_node; rewrite Hf; reflexivity).
  rewrite Hl. split; [eexists; split; [reflexivity|split; [exact Hl|exact H3]]|]. split; [reflexivity|].
  rewrite H3. apply (read_fields K V c' id p pv r' nx (length r') _ _ Hp Hf).
Qed.

Lemma find_node_prev_irrelevant (B : chain) b0 r0 id pv pv' : id <> b0 ->
  find_node K V pv ((b0, r0) :: B) id = find_node K V pv' ((b0, r0) :: B) id.
Proof. intros Hne. cbn [find_node]. assert (E : Nat.eqb b0 id = false) by (apply Nat.eqb_neq; congruence). rewrite E. reflexivity. Qed.

Lemma on_ref_some cur id : on_ref cur (Some id) CnHead = on_node cur id.
Proof. unfold on_ref, on_node. destruct (c_cn cur) as [cc|]; reflexivity. Qed.
Lemma on_ref_some_t cur id : on_ref cur (Some id) CnTail = on_node cur id.
Proof. unfold on_ref, on_node. destruct (c_cn cur) as [cc|]; reflexivity. Qed.
Lemma on_ref_none_node (c : chain) cur id p d : node_cursor c cur id p -> on_ref cur None d = false.
Proof.
  intros [cc [H1 [H2 _]]]. unfold on_ref. rewrite H1. rewrite (load_node_node _ _ _ H2). destruct d; reflexivity.
Qed.

Lemma find_node_app2 (A : chain) (x : node) f (rf : recs) b0 rb (B' : chain) :
  ~ In b0 (ids (A ++ [x; (f, rf)])) ->
  find_node K V None (A ++ x :: (f, rf) :: (b0, rb) :: B') b0 = Some (Some f, rb, nid_of K V B').
Proof.
  intros H. replace (A ++ x :: (f, rf) :: (b0, rb) :: B') with ((A ++ [x; (f, rf)]) ++ (b0, rb) :: B')
    by (rewrite <- app_assoc; reflexivity).
  assert (Hl : last_id_or K V None (A ++ [x; (f, rf)]) = Some f) by (unfold last_id_or; rewrite rev_app_distr; reflexivity).
  rewrite <- Hl. exact (find_node_app K V _ None b0 rb B' H).
Qed.

(* a new single-record node appended behind node lid (no record moves) *)
Theorem append_keeps_cursor (A B : chain) lid r fresh e cur id p k0 v0 :
  let c := A ++ (lid, r) :: B in let c' := A ++ (lid, r) :: (fresh, [e]) :: B in
  ids_unique K V c -> ~ In fresh (ids c) -> node_cursor c cur id p -> cursor_read K V c cur = Some (k0, v0) ->
  let cur' := fix_cursor K V IDXNUM PIVOT c' (ChSplit (Some lid) fresh true (nid_of K V B) fresh 0) cur in
  node_cursor c' cur' id p /\ c_skip cur' = c_skip cur /\ cursor_read K V c' cur' = Some (k0, v0).
Proof.
  intros c c' Hu Hfr Hnc Hr. cbv zeta. cbn [fix_cursor]. unfold fix_split. cbn [negb andb]. rewrite on_ref_some.
  pose proof (unique_not_in_pre A B lid r Hu) as HninA.
  assert (HidA : forall j, In j (ids A) -> find_node K V None c j = find_node K V None c' j).
  { intros j Hj. unfold c, c'. apply find_node_pre; [exact Hj|reflexivity]. }
  destruct (Nat.eq_dec id lid) as [->|Hne].
  - (* on the node that got a new successor: refreshed *)
    rewrite (node_cursor_on _ _ _ _ Hnc).
    destruct (read_some_pos c cur lid p (k0, v0) A r B Hnc eq_refl Hu Hr) as [Hnth Hp].
    assert (Hf' : find_node K V None c' lid = Some (last_id_or K V None A, r, Some fresh)).
    { unfold c'. exact (find_node_app K V A None lid r ((fresh, [e]) :: B) HninA). }
    destruct (refreshed c c' cur lid p _ r _ Hnc Hf' Hp) as [R1 [R2 R3]].
    split; [exact R1|]. split; [exact R2|]. rewrite R3. exact Hnth.
  - rewrite (node_cursor_not_on _ _ _ _ lid Hnc) by congruence.
    destruct B as [|[b0 rb] B'].
    + (* lid was the last node: every other node is in A *)
      cbn [nid_of]. rewrite (on_ref_none_node c cur id p CnTail Hnc).
      assert (HinA : In id (ids A)).
      { destruct Hnc as [cc [_ [H2 _]]]. unfold load_node in H2.
        destruct (in_dec Nat.eq_dec id (ids A)) as [Hi|Hni]; [exact Hi|exfalso].
        unfold c in H2. rewrite find_node_skip in H2 by exact Hni. cbn [find_node] in H2.
        assert (E : Nat.eqb lid id = false) by (apply Nat.eqb_neq; congruence). rewrite E in H2. discriminate. }
      destruct (untouched c c' cur id p (k0, v0) Hnc (HidA id HinA) Hr) as [U1 U2]. split; [exact U1|]. split; [reflexivity|exact U2].
    + cbn [nid_of]. rewrite on_ref_some_t.
      destruct (Nat.eq_dec id b0) as [->|Hnb].
      * (* on the following node: its back link changed, refreshed *)
        rewrite (node_cursor_on _ _ _ _ Hnc).
        assert (Hc2 : c = (A ++ [(lid, r)]) ++ (b0, rb) :: B') by (unfold c; rewrite <- app_assoc; reflexivity).
        destruct (read_some_pos c cur b0 p (k0, v0) (A ++ [(lid, r)]) rb B' Hnc Hc2 Hu Hr) as [Hnth Hp].
        assert (Hnb0 : ~ In b0 (ids (A ++ [(lid, r); (fresh, [e])]))).
        { rewrite ids_app. cbn [map fst]. intros Hin. apply in_app_or in Hin.
          assert (Hu2 := Hu). rewrite Hc2 in Hu2. apply unique_not_in_pre in Hu2. rewrite ids_app in Hu2. cbn [map fst] in Hu2.
          destruct Hin as [Hin|[Hin|[Hin|[]]]].
          - apply Hu2. apply in_or_app. left. exact Hin.
          - apply Hu2. apply in_or_app. right. left. exact Hin.
          - apply Hfr. unfold c. rewrite ids_app. apply in_or_app. right. right. left. cbn [fst]. symmetry. exact Hin. }
        assert (Hf' : find_node K V None c' b0 = Some (Some fresh, rb, nid_of K V B')).
        { unfold c'. exact (find_node_app2 A (lid, r) fresh [e] b0 rb B' Hnb0). }
        destruct (refreshed c c' cur b0 p _ rb _ Hnc Hf' Hp) as [R1 [R2 R3]].
        split; [exact R1|]. split; [exact R2|]. rewrite R3. exact Hnth.
      * rewrite (node_cursor_not_on _ _ _ _ b0 Hnc) by congruence.
        assert (Hsame : find_node K V None c id = find_node K V None c' id).
        { destruct (in_dec Nat.eq_dec id (ids A)) as [Hi|Hni]; [apply HidA; exact Hi|].
          unfold c, c'. rewrite !find_node_skip by exact Hni. cbn [find_node].
          assert (E1 : Nat.eqb lid id = false) by (apply Nat.eqb_neq; congruence).
          assert (E2 : Nat.eqb fresh id = false).
          { apply Nat.eqb_neq. intros ->. destruct Hnc as [cc [_ [H2 _]]]. unfold load_node in H2.
            destruct (find_node K V None c id) as [[[pv0 r0] nx0]|] eqn:Ef; [|discriminate].
            apply Hfr. clear - Ef. revert Ef. generalize (@None nat). induction c as [|[j rj] c IH]; intros pv Ef; [discriminate|].
            cbn [find_node] in Ef. destruct (Nat.eqb j id) eqn:E; [left; apply Nat.eqb_eq in E; exact E|right; eapply IH; exact Ef]. }
          rewrite E1, E2. apply find_node_prev_irrelevant. congruence. }
        destruct (untouched c c' cur id p (k0, v0) Hnc Hsame Hr) as [U1 U2]. split; [exact U1|]. split; [reflexivity|exact U2].
Qed.

(* ---- a node replaced by two nodes (split): the entries of the new chain ---- *)
Lemma find_fresh_absent (c : chain) id : ~ In id (ids c) -> forall pv, find_node K V pv c id = None.
Proof.
  induction c as [|[j rj] c IH]; intros Hn pv; [reflexivity|]. cbn [find_node].
  destruct (Nat.eqb j id) eqn:E; [exfalso; apply Hn; left; apply Nat.eqb_eq in E; exact E|].
  apply IH. intros H; apply Hn; right; exact H.
Qed.

Lemma find_some_in (c : chain) id : forall pv x, find_node K V pv c id = Some x -> In id (ids c).
Proof.
  induction c as [|[j rj] c IH]; intros pv x H; [discriminate|]. cbn [find_node] in H.
  destruct (Nat.eqb j id) eqn:E; [left; apply Nat.eqb_eq in E; exact E|right; eapply IH; exact H].
Qed.

Section Two.
Variables (A B : chain) (lid fresh : nat) (r rl ru : recs).
Let c := A ++ (lid, r) :: B.
Let c' := A ++ (lid, rl) :: (fresh, ru) :: B.
Hypothesis Hu : ids_unique K V c.
Hypothesis Hfr : ~ In fresh (ids c).

Lemma two_lid : find_node K V None c' lid = Some (last_id_or K V None A, rl, Some fresh).
Proof. exact (find_node_app K V A None lid rl ((fresh, ru) :: B) (unique_not_in_pre A B lid r Hu)). Qed.

Lemma two_fresh_ne : fresh <> lid.
Proof. intros ->. apply Hfr. unfold c. rewrite ids_app. apply in_or_app. right. left. reflexivity. Qed.

Lemma two_fresh : find_node K V None c' fresh = Some (Some lid, ru, nid_of K V B).
Proof.
  assert (Hn : ~ In fresh (ids (A ++ [(lid, r)]))).
  { intros H. apply Hfr. unfold c. rewrite ids_app in *. apply in_app_or in H. apply in_or_app.
    destruct H as [H|[H|[]]]; [left; exact H|right; left; exact H]. }
  assert (Hn2 : ~ In fresh (ids A)) by (intros H; apply Hn; rewrite ids_app; apply in_or_app; left; exact H).
  unfold c'. rewrite find_node_skip by exact Hn2. cbn [find_node].
  assert (E : Nat.eqb lid fresh = false) by (apply Nat.eqb_neq; intros H; apply two_fresh_ne; congruence).
  rewrite E. rewrite Nat.eqb_refl. reflexivity.
Qed.

Lemma two_next b0 rb (B' : chain) : B = (b0, rb) :: B' ->
  find_node K V None c' b0 = Some (Some fresh, rb, nid_of K V B').
Proof.
  intros HB. assert (Hc2 : c = (A ++ [(lid, r)]) ++ (b0, rb) :: B') by (unfold c; rewrite HB, <- app_assoc; reflexivity).
  assert (Hu2 := Hu). rewrite Hc2 in Hu2. apply unique_not_in_pre in Hu2. rewrite ids_app in Hu2. cbn [map fst] in Hu2.
  assert (Hnb0 : ~ In b0 (ids (A ++ [(lid, rl); (fresh, ru)]))).
  { rewrite ids_app. cbn [map fst]. intros Hin. apply in_app_or in Hin.
    destruct Hin as [Hin|[Hin|[Hin|[]]]].
    - apply Hu2. apply in_or_app. left. exact Hin.
    - apply Hu2. apply in_or_app. right. left. exact Hin.
    - apply Hfr. unfold c. rewrite HB, ids_app. apply in_or_app. right. right. left. cbn [fst]. symmetry. exact Hin. }
  unfold c'. rewrite HB. exact (find_node_app2 A (lid, rl) fresh ru b0 rb B' Hnb0).
Qed.

Lemma two_other id : id <> lid -> id <> fresh -> nid_of K V B <> Some id ->
  find_node K V None c id = find_node K V None c' id.
Proof.
  intros H1 H2 H3. destruct (in_dec Nat.eq_dec id (ids A)) as [Hi|Hni].
  - unfold c, c'. apply find_node_pre; [exact Hi|reflexivity].
  - unfold c, c'. rewrite !find_node_skip by exact Hni. cbn [find_node].
    assert (E1 : Nat.eqb lid id = false) by (apply Nat.eqb_neq; congruence).
    assert (E2 : Nat.eqb fresh id = false) by (apply Nat.eqb_neq; congruence).
    rewrite E1, E2. destruct B as [|[b0 rb] B']; [reflexivity|].
    apply find_node_prev_irrelevant. cbn [nid_of] in H3. congruence.
Qed.

Lemma two_cursor_not_fresh cur id p : node_cursor c cur id p -> id <> fresh.
Proof.
  intros [cc [_ [H2 _]]] ->. unfold load_node in H2.
  destruct (find_node K V None c fresh) as [[[pv0 r0] nx0]|] eqn:Ef; [|discriminate].
  apply Hfr. eapply find_some_in. exact Ef.
Qed.

(* the first stage of the split fix-up *)
Definition stage1 (cur : cursor) : cursor :=
  if on_ref cur (Some lid) CnHead then
    if Nat.leb PIVOT (c_pos cur) then
      match load_node K V c' fresh with
      | Some cc => {| c_cn := Some cc; c_pos := c_pos cur - PIVOT; c_skip := c_skip cur; c_pend := c_pend cur |}
      | None => cur end
    else with_cn cur (refresh K V IDXNUM c')
  else if on_ref cur (nid_of K V B) CnTail then with_cn cur (refresh K V IDXNUM c')
  else cur.

Lemma fix_split_stage tgt idx cur :
  fix_cursor K V IDXNUM PIVOT c' (ChSplit (Some lid) fresh false (nid_of K V B) tgt idx) cur =
  fix_insert K V IDXNUM c' tgt idx (stage1 cur).
Proof. reflexivity. Qed.

Lemma stage1_spec cur id p e0 :
  node_cursor c cur id p -> cursor_read K V c cur = Some e0 ->
  c_skip (stage1 cur) = c_skip cur /\
  ((id = lid /\ p < PIVOT /\ p < length r /\ nth_error r p = Some e0 /\ node_cursor c' (stage1 cur) lid p) \/
   (id = lid /\ PIVOT <= p /\ p < length r /\ nth_error r p = Some e0 /\ node_cursor c' (stage1 cur) fresh (p - PIVOT)) \/
   (id <> lid /\ id <> fresh /\ node_cursor c' (stage1 cur) id p /\ cursor_read K V c' (stage1 cur) = Some e0)).
Proof.
  intros Hnc Hr. unfold stage1. rewrite on_ref_some.
  pose proof (two_cursor_not_fresh cur id p Hnc) as Hnf.
  destruct (Nat.eq_dec id lid) as [->|Hne].
  - rewrite (node_cursor_on _ _ _ _ Hnc).
    destruct (read_some_pos c cur lid p e0 A r B Hnc eq_refl Hu Hr) as [Hnth Hp].
    assert (Hpos : c_pos cur = p) by (destruct Hnc as [cc [_ [_ H3]]]; exact H3). rewrite Hpos.
    destruct (Nat.leb PIVOT p) eqn:El.
    + apply Nat.leb_le in El. unfold load_node. rewrite two_fresh. split; [reflexivity|]. right. left.
      split; [reflexivity|]. split; [exact El|]. split; [exact Hp|]. split; [exact Hnth|].
      eexists. split; [reflexivity|]. split; [|reflexivity]. unfold load_node. rewrite two_fresh. reflexivity.
    + apply Nat.leb_gt in El.
      assert (Hcc : exists cc', load_node K V c' lid = Some cc') by (unfold load_node; rewrite two_lid; eauto).
      destruct Hcc as [cc' Hl']. destruct Hnc as [cc [H1 [H2 H3]]].
      unfold with_cn. rewrite H1. unfold set_cn. cbn [c_skip]. split; [reflexivity|]. left.
      split; [reflexivity|]. split; [exact El|]. split; [exact Hp|]. split; [exact Hnth|].
      unfold refresh. rewrite (load_node_node _ _ _ H2). rewrite Hl'.
      eexists. split; [reflexivity|]. split; [exact Hl'|exact H3].
  - rewrite (node_cursor_not_on _ _ _ _ lid Hnc) by congruence.
    assert (HB : B = [] \/ exists b0 rb B', B = (b0, rb) :: B') by (destruct B as [|[b0 rb] B']; [left; reflexivity|right; eauto]).
    destruct HB as [HB|[b0 [rb [B' HB]]]].
    + assert (Hn : nid_of K V B = None) by (rewrite HB; reflexivity).
      rewrite Hn. rewrite (on_ref_none_node c cur id p CnTail Hnc). split; [reflexivity|]. right. right.
      split; [exact Hne|]. split; [exact Hnf|].
      apply (untouched c c' cur id p e0 Hnc); [|exact Hr]. apply two_other; [exact Hne|exact Hnf|rewrite Hn; discriminate].
    + assert (Hn : nid_of K V B = Some b0) by (rewrite HB; reflexivity).
      rewrite Hn. rewrite on_ref_some_t. destruct (Nat.eq_dec id b0) as [->|Hnb].
      * rewrite (node_cursor_on _ _ _ _ Hnc).
        assert (Hc2 : c = (A ++ [(lid, r)]) ++ (b0, rb) :: B') by (unfold c; rewrite HB, <- app_assoc; reflexivity).
        destruct (read_some_pos c cur b0 p e0 (A ++ [(lid, r)]) rb B' Hnc Hc2 Hu Hr) as [Hnth Hp].
        destruct (refreshed c c' cur b0 p _ rb _ Hnc (two_next b0 rb B' HB) Hp) as [R1 [R2 R3]].
        split; [exact R2|]. right. right. split; [exact Hne|]. split; [exact Hnf|]. split; [exact R1|]. rewrite R3. exact Hnth.
      * rewrite (node_cursor_not_on _ _ _ _ b0 Hnc) by congruence. split; [reflexivity|]. right. right.
        split; [exact Hne|]. split; [exact Hnf|].
        apply (untouched c c' cur id p e0 Hnc); [|exact Hr]. apply two_other; [exact Hne|exact Hnf|rewrite Hn; congruence].
Qed.
End Two.

Lemma node_cursor_read (c : chain) cur id p pv r' nx :
  node_cursor c cur id p -> find_node K V None c id = Some (pv, r', nx) -> p < length r' ->
  cursor_read K V c cur = nth_error r' p.
Proof.
  intros [cc [H1 [H2 H3]]] Hf Hp. unfold load_node in H2. rewrite Hf in H2. inversion H2; subst cc.
  eapply read_positioned; [exact H1|exact H3|exact Hp|exact Hf].
Qed.

Lemma nc_positioned (c : chain) cur id p : node_cursor c cur id p -> positioned cur id p.
Proof. intros [cc [H1 [H2 H3]]]. exists cc. split; [exact H1|]. split; [exact (load_node_node _ _ _ H2)|exact H3]. Qed.

Lemma fix_insert_off (c : chain) cur id p tgt idx : node_cursor c cur id p -> tgt <> id ->
  fix_insert K V IDXNUM c tgt idx cur = cur.
Proof. intros Hnc Hne. unfold fix_insert. rewrite (node_cursor_not_on _ _ _ _ tgt Hnc) by congruence. reflexivity. Qed.

Lemma fix_insert_on (c : chain) cur id p idx x : node_cursor c cur id p -> find_node K V None c id = Some x ->
  let cur' := fix_insert K V IDXNUM c id idx cur in
  (exists p', node_cursor c cur' id p') /\ c_skip cur' = c_skip cur.
Proof.
  intros Hnc Hf. cbv zeta. unfold fix_insert. rewrite (node_cursor_on _ _ _ _ Hnc).
  destruct Hnc as [cc [H1 [H2 H3]]]. unfold with_cn. rewrite H1. unfold set_cn. cbn [c_pos c_cn c_skip c_pend].
  unfold refresh. rewrite (load_node_node _ _ _ H2). rewrite H2.
  destruct (Nat.leb idx (c_pos cur)); (split; [eexists; eexists; split; [reflexivity|split; [exact H2|reflexivity]]|reflexivity]).
Qed.

Lemma nth_firstn_lt (r : recs) n p : p < n -> nth_error (firstn n r) p = nth_error r p.
Proof. revert n p; induction r as [|x r IH]; intros [|n] [|p] H; simpl; try reflexivity; try lia. apply IH. lia. Qed.
Lemma nth_skipn_ge (r : recs) n p : n <= p -> nth_error (skipn n r) (p - n) = nth_error r p.
Proof.
  revert n p; induction r as [|x r IH]; intros [|n] [|p] H; simpl; try reflexivity; try lia.
  - destruct (p - n); reflexivity.
  - apply IH. lia.
Qed.

(* the node is split at the pivot and the new record goes to the new (upper) node *)
Theorem split_hi_keeps_cursor (A B : chain) lid r fresh idx e cur id p k0 v0 :
  let c := A ++ (lid, r) :: B in
  let c' := A ++ (lid, firstn PIVOT r) :: (fresh, insert_at K V (skipn PIVOT r) idx e) :: B in
  ids_unique K V c -> ~ In fresh (ids c) -> node_cursor c cur id p -> cursor_read K V c cur = Some (k0, v0) ->
  let cur' := fix_cursor K V IDXNUM PIVOT c' (ChSplit (Some lid) fresh false (nid_of K V B) fresh idx) cur in
  (exists id' p', node_cursor c' cur' id' p') /\ c_skip cur' = c_skip cur /\ cursor_read K V c' cur' = Some (k0, v0).
Proof.
  intros c c' Hu Hfr Hnc Hr. cbv zeta. unfold c'. rewrite fix_split_stage.
  destruct (stage1_spec A B lid fresh r (firstn PIVOT r) (insert_at K V (skipn PIVOT r) idx e) Hu Hfr cur id p (k0, v0) Hnc Hr) as [Hs [H|[H|H]]].
  - destruct H as [-> [Hlt [Hp [Hnth H1]]]].
    rewrite (fix_insert_off _ _ _ _ fresh idx H1 (two_fresh_ne A B lid fresh r r r Hfr)).
    split; [exists lid, p; exact H1|]. split; [exact Hs|].
    refine (eq_trans (node_cursor_read _ _ _ _ _ _ _ H1 (two_lid A B lid fresh r _ _ Hu) _) _); [rewrite firstn_length; lia|].
    rewrite nth_firstn_lt by exact Hlt. exact Hnth.
  - destruct H as [-> [Hge [Hp [Hnth H1]]]].
    pose proof (two_fresh A B lid fresh r (firstn PIVOT r) (insert_at K V (skipn PIVOT r) idx e) Hfr) as Hf.
    destruct (fix_insert_on _ _ _ _ idx _ H1 Hf) as [[p' Hp'] Hsk].
    split; [exists fresh, p'; exact Hp'|]. split; [rewrite Hsk; exact Hs|].
    refine (eq_trans (fix_insert_keeps K V IDXNUM _ _ fresh (p - PIVOT) idx e (skipn PIVOT r) _ _ (nc_positioned _ _ _ _ H1)
               ltac:(rewrite skipn_length; lia) Hf) _).
    rewrite nth_skipn_ge by exact Hge. exact Hnth.
  - destruct H as [Hne [Hnf [H1 H2]]].
    rewrite (fix_insert_off _ _ _ _ fresh idx H1) by congruence.
    split; [exists id, p; exact H1|]. split; [exact Hs|exact H2].
Qed.

(* the node is split at the pivot and the new record goes to the old (lower) node *)
Theorem split_lo_keeps_cursor (A B : chain) lid r fresh idx e cur id p k0 v0 :
  let c := A ++ (lid, r) :: B in
  let c' := A ++ (lid, insert_at K V (firstn PIVOT r) idx e) :: (fresh, skipn PIVOT r) :: B in
  ids_unique K V c -> ~ In fresh (ids c) -> node_cursor c cur id p -> cursor_read K V c cur = Some (k0, v0) ->
  let cur' := fix_cursor K V IDXNUM PIVOT c' (ChSplit (Some lid) fresh false (nid_of K V B) lid idx) cur in
  (exists id' p', node_cursor c' cur' id' p') /\ c_skip cur' = c_skip cur /\ cursor_read K V c' cur' = Some (k0, v0).
Proof.
  intros c c' Hu Hfr Hnc Hr. cbv zeta. unfold c'. rewrite fix_split_stage.
  destruct (stage1_spec A B lid fresh r (insert_at K V (firstn PIVOT r) idx e) (skipn PIVOT r) Hu Hfr cur id p (k0, v0) Hnc Hr) as [Hs [H|[H|H]]].
  - destruct H as [-> [Hlt [Hp [Hnth H1]]]].
    pose proof (two_lid A B lid fresh r (insert_at K V (firstn PIVOT r) idx e) (skipn PIVOT r) Hu) as Hf.
    destruct (fix_insert_on _ _ _ _ idx _ H1 Hf) as [[p' Hp'] Hsk].
    split; [exists lid, p'; exact Hp'|]. split; [rewrite Hsk; exact Hs|].
    refine (eq_trans (fix_insert_keeps K V IDXNUM _ _ lid p idx e (firstn PIVOT r) _ _ (nc_positioned _ _ _ _ H1)
               ltac:(rewrite firstn_length; lia) Hf) _).
    rewrite nth_firstn_lt by exact Hlt. exact Hnth.
  - destruct H as [-> [Hge [Hp [Hnth H1]]]].
    assert (Hnl : lid <> fresh) by (intros E; apply (two_fresh_ne A B lid fresh r r r Hfr); congruence).
    rewrite (fix_insert_off _ _ _ _ lid idx H1 Hnl).
    split; [exists fresh, (p - PIVOT); exact H1|]. split; [exact Hs|].
    refine (eq_trans (node_cursor_read _ _ _ _ _ _ _ H1 (two_fresh A B lid fresh r _ _ Hfr) _) _); [rewrite skipn_length; lia|].
    rewrite nth_skipn_ge by exact Hge. exact Hnth.
  - destruct H as [Hne [Hnf [H1 H2]]].
    rewrite (fix_insert_off _ _ _ _ lid idx H1) by congruence.
    split; [exists id, p; exact H1|]. split; [exact Hs|exact H2].
Qed.


(* a new single-record node in front of the chain *)
Theorem front_keeps_cursor (c : chain) fresh e cur id p k0 v0 :
  let c' := (fresh, [e]) :: c in
  ids_unique K V c -> ~ In fresh (ids c) -> node_cursor c cur id p -> cursor_read K V c cur = Some (k0, v0) ->
  let cur' := fix_cursor K V IDXNUM PIVOT c' (ChSplit None fresh true (nid_of K V c) fresh 0) cur in
  node_cursor c' cur' id p /\ c_skip cur' = c_skip cur /\ cursor_read K V c' cur' = Some (k0, v0).
Proof.
  intros c' Hu Hfr Hnc Hr. cbv zeta. cbn [fix_cursor]. unfold fix_split. cbn [negb andb].
  rewrite (on_ref_none_node c cur id p CnHead Hnc).
  assert (Hnf : id <> fresh).
  { intros ->. destruct Hnc as [cc [_ [H2 _]]]. unfold load_node in H2.
    destruct (find_node K V None c fresh) as [[[pv0 r0] nx0]|] eqn:Ef; [|discriminate]. apply Hfr. eapply find_some_in. exact Ef. }
  assert (E : Nat.eqb fresh id = false) by (apply Nat.eqb_neq; congruence).
  destruct c as [|[b0 rb] B'] eqn:Ec.
  - destruct Hnc as [cc [_ [H2 _]]]. discriminate.
  - cbn [nid_of]. rewrite on_ref_some_t. destruct (Nat.eq_dec id b0) as [->|Hnb].
    + rewrite (node_cursor_on _ _ _ _ Hnc).
      destruct (read_some_pos _ cur b0 p (k0, v0) [] rb B' Hnc eq_refl Hu Hr) as [Hnth Hp].
      assert (Hf' : find_node K V None c' b0 = Some (Some fresh, rb, nid_of K V B')).
      { unfold c'. cbn [find_node]. rewrite E. rewrite Nat.eqb_refl. reflexivity. }
      destruct (refreshed _ c' cur b0 p _ rb _ Hnc Hf' Hp) as [R1 [R2 R3]].
      split; [exact R1|]. split; [exact R2|]. rewrite R3. exact Hnth.
    + rewrite (node_cursor_not_on _ _ _ _ b0 Hnc) by congruence.
      assert (Hsame : find_node K V None ((b0, rb) :: B') id = find_node K V None c' id).
      { unfold c'. cbn [find_node]. rewrite E.
        assert (E1 : Nat.eqb b0 id = false) by (apply Nat.eqb_neq; congruence). rewrite E1. reflexivity. }
      destruct (untouched _ c' cur id p (k0, v0) Hnc Hsame Hr) as [U1 U2]. split; [exact U1|]. split; [reflexivity|exact U2].
Qed.

(* ---- THE THEOREM: whatever a successful put does, every cursor that was on a record is afterwards on a record
   with the same key; the value it reads is the same, unless the put overwrote exactly that record; the direction
   of its next step (c_skip) is unchanged. ---- *)
Theorem put_keeps_cursor fresh (c : chain) k v noover newok c' ch cur id p k0 v0 :
  PIVOT <= IDXNUM -> ids_unique K V c -> ~ In fresh (ids c) ->
  put_chain K V cmp IDXNUM PIVOT upd fresh c k v noover newok = (POk, c', ch) ->
  node_cursor c cur id p -> cursor_read K V c cur = Some (k0, v0) ->
  let cur' := fix_cursor K V IDXNUM PIVOT c' ch cur in
  (exists id' p', node_cursor c' cur' id' p') /\ c_skip cur' = c_skip cur /\
  exists v', cursor_read K V c' cur' = Some (k0, v') /\ (v' = v0 \/ cmp k0 k = Eq).
Proof.
  intros Hpiv Hu Hfr Hput Hnc Hr. cbv zeta.
  pose proof (put_chain_effect fresh c k v noover newok c' ch Hpiv Hput) as He.
  destruct He as [A nid r B idx nv Hc Hi Hfo|A nid r B idx Hc Hi|A lid r B Hc| |A lid r B idx Hc Hp Hi|A lid r B idx Hc Hp Hi].
  - subst c. destruct (update_keeps_cursor A B nid r idx nv cur id p k0 v0 Hu Hnc Hr) as [H1 [H2 [v' [H3 H4]]]].
    split; [exists id, p; exact H1|]. split; [exact H2|]. exists v'. split; [exact H3|].
    destruct H4 as [H4|[-> ->]]; [left; exact H4|right].
    destruct (read_some_pos _ cur nid idx (k0, v0) A r B Hnc eq_refl Hu Hr) as [Hnth _].
    unfold found_at in Hfo. rewrite Hnth in Hfo. cbn [fst] in Hfo. destruct (cmp k0 k); try discriminate. reflexivity.
  - subst c. destruct (insert_keeps_cursor A B nid r idx (k, v) cur id p k0 v0 Hu Hnc Hr) as [[p' H1] [H2 H3]].
    split; [exists id, p'; exact H1|]. split; [exact H2|]. exists v0. split; [exact H3|left; reflexivity].
  - subst c. destruct (append_keeps_cursor A B lid r fresh (k, v) cur id p k0 v0 Hu Hfr Hnc Hr) as [H1 [H2 H3]].
    split; [exists id, p; exact H1|]. split; [exact H2|]. exists v0. split; [exact H3|left; reflexivity].
  - destruct (front_keeps_cursor c fresh (k, v) cur id p k0 v0 Hu Hfr Hnc Hr) as [H1 [H2 H3]].
    split; [exists id, p; exact H1|]. split; [exact H2|]. exists v0. split; [exact H3|left; reflexivity].
  - subst c. destruct (split_hi_keeps_cursor A B lid r fresh idx (k, v) cur id p k0 v0 Hu Hfr Hnc Hr) as [H1 [H2 H3]].
    split; [exact H1|]. split; [exact H2|]. exists v0. split; [exact H3|left; reflexivity].
  - subst c. destruct (split_lo_keeps_cursor A B lid r fresh idx (k, v) cur id p k0 v0 Hu Hfr Hnc Hr) as [H1 [H2 H3]].
    split; [exact H1|]. split; [exact H2|]. exists v0. split; [exact H3|left; reflexivity].
Qed.

End Stable.
