(* Compound-key databases (IWDB_COMPOUND_KEYS without the integer / real-number flags): a stored key is the varint of the
   compound part followed by the key bytes.  _cmp_keys orders such keys by (key bytes lexicographically, a proper prefix
   first; then the compound part, greater first).  On keys whose compound part is encodable (0 <= c < 2^63) that is a
   strict total order - the three laws the node model (KV/Node_proofs.v) needs, so the refinement theorem holds for
   these databases with no hypothesis left on the comparator.
   Second part: the shortcut of _lx_sblk_cmp_key through the cached 115-byte prefix of a node's lowest key decides
   exactly what the comparison with the complete stored key decides (plain and compound keys). *)
Require Import ZArith List Bool Lia. Import ListNotations.
Require Import IW.Lib.CInt IW.Lib.Vnum IW.Lib.Vnum_proofs IW.KV.Keys IW.KV.Inst IW.KV.Keys_proofs IW.Gen.Facts.
Local Open Scope Z_scope.

Definition cmode : kmode := {| km_vnum := false; km_real := false; km_compound := true |}.
Definition ckey_ok (k : key) : Prop := 0 <= snd k < 2 ^ 63.

(* reference order: bytes first (lookup key against stored key, as in the C code), then the compound part, descending *)
Definition ccmp (a b : key) : comparison :=
  match bcmp (fst b) (fst a) with
  | Eq => if snd a >? snd b then Lt else if snd a <? snd b then Gt else Eq
  | r => r
  end.

Definition sgnc (r : Z) : comparison := if r <? 0 then Lt else if r =? 0 then Eq else Gt.

Lemma skipn_app_len {A} (l r : list A) : skipn (length l) (l ++ r) = r.
Proof. induction l as [|x l IH]; [reflexivity|exact IH]. Qed.

(* the value _cmp_keys computes for a compound key whose stored form starts with a readable varint *)
Lemma cmp_keys_compound (c : Z) (d kd : list Z) (kc : Z) : 0 <= c < 2 ^ 63 ->
  cmp_keys memcmp cmode (set_vnum64 c ++ d) kd kc = (if craw kd d =? 0 then sgn3 c kc else craw kd d).
Proof.
  intros Hc. destruct (vnum64_roundtrip c d Hc) as [Hr _].
  unfold cmp_keys, cmp_keys_prefix, cmode. cbn [km_vnum km_real km_compound orb negb andb]. rewrite Hr.
  rewrite skipn_app_len, app_length, Nat2Z.inj_add.
  replace (Z.of_nat (length (set_vnum64 c)) + Z.of_nat (length d) - Z.of_nat (length (set_vnum64 c))) with (Z.of_nat (length d)) by lia.
  rewrite Bool.andb_true_r. unfold craw.
  destruct (Z.of_nat (length d) <? 1) eqn:E1.
  - assert (d = []) by (destruct d as [|z d']; [reflexivity|exfalso; cbn [length] in E1; rewrite Nat2Z.inj_succ in E1; apply Z.ltb_lt in E1; lia]). subst d. cbn [length].
    assert (Hc2 : cmp2 kd [] = 0) by (destruct kd; reflexivity). rewrite Hc2. cbn [Z.eqb].
    replace (Z.of_nat (length kd) - Z.of_nat 0) with (Z.of_nat (length kd)) by lia.
    destruct (Z.of_nat (length kd) =? 0) eqn:E2; [|reflexivity].
    replace (Z.of_nat 0) with 0 by reflexivity. rewrite E2. reflexivity.
  - destruct (cmp2 kd d =? 0) eqn:E2; [|rewrite E2; reflexivity].
    destruct (Z.of_nat (length kd) =? Z.of_nat (length d)) eqn:E3.
    + assert (E4 : (Z.of_nat (length kd) - Z.of_nat (length d) =? 0) = true) by lia. rewrite E4. reflexivity.
    + assert (E4 : (Z.of_nat (length kd) - Z.of_nat (length d) =? 0) = false) by lia. rewrite E4. reflexivity.
Qed.

Lemma cmp_of_compound (a b : key) : ckey_ok a -> cmp_of cmode a b = ccmp a b.
Proof.
  intros Ha. unfold cmp_of, kcmp, stored. cbn [km_compound cmode].
  rewrite (cmp_keys_compound (snd a) (fst a) (fst b) (snd b) Ha).
  pose proof (craw_bcmp (fst b) (fst a)) as [H1 H2]. unfold ccmp.
  destruct (craw (fst b) (fst a) =? 0) eqn:E0.
  - destruct (bcmp (fst b) (fst a)); try discriminate H2. unfold sgn3.
    destruct (snd a >? snd b) eqn:G1; [reflexivity|]. destruct (snd a <? snd b) eqn:G2; reflexivity.
  - rewrite H1. destruct (bcmp (fst b) (fst a)); try reflexivity; try discriminate H2. rewrite E0. reflexivity.
Qed.

Lemma ccmp_antisym a b : ccmp a b = CompOpp (ccmp b a).
Proof.
  unfold ccmp. rewrite (bcmp_antisym (fst b) (fst a)). destruct (bcmp (fst a) (fst b)); cbn [CompOpp]; try reflexivity.
  destruct (snd a >? snd b) eqn:E1; destruct (snd b >? snd a) eqn:E2; destruct (snd a <? snd b) eqn:E3; destruct (snd b <? snd a) eqn:E4;
    try lia; reflexivity.
Qed.
Lemma ccmp_eq a b : ccmp a b = Eq <-> a = b.
Proof.
  unfold ccmp. split.
  - destruct (bcmp (fst b) (fst a)) eqn:E; try discriminate.
    apply bcmp_eq in E. destruct (snd a >? snd b) eqn:E1; [discriminate|]. destruct (snd a <? snd b) eqn:E2; [discriminate|].
    intros _. destruct a as [a1 a2], b as [b1 b2]; cbn [fst snd] in *. f_equal; [symmetry; exact E|lia].
  - intros ->. rewrite bcmp_refl. destruct (snd b >? snd b) eqn:E1; [lia|]. destruct (snd b <? snd b) eqn:E2; [lia|reflexivity].
Qed.
Lemma ccmp_lt a b : ccmp a b = Lt <-> (bcmp (fst b) (fst a) = Lt \/ (fst b = fst a /\ snd a > snd b)).
Proof.
  unfold ccmp. destruct (bcmp (fst b) (fst a)) eqn:E.
  - apply bcmp_eq in E. destruct (snd a >? snd b) eqn:E1; [split; [intros _; right; split; [exact E|lia]|reflexivity]|].
    destruct (snd a <? snd b) eqn:E2; (split; [discriminate|intros [H|[_ H]]; [discriminate|lia]]).
  - split; [intros _; left; reflexivity|reflexivity].
  - split; [discriminate|intros [H|[H _]]; [discriminate|]]. rewrite H, bcmp_refl in E. discriminate.
Qed.
Lemma ccmp_trans a b c : ccmp a b = Lt -> ccmp b c = Lt -> ccmp a c = Lt.
Proof.
  rewrite !ccmp_lt. intros [H1|[H1 G1]] [H2|[H2 G2]].
  - left. eapply bcmp_trans; eassumption.
  - left. rewrite H2. exact H1.
  - left. rewrite <- H1. exact H2.
  - right. split; [congruence|lia].
Qed.

(* the key type of a compound database: keys with an encodable compound part *)
Definition ckey : Type := { k : key | ckey_ok k }.
Definition ckey_cmp (a b : ckey) : comparison := cmp_of cmode (proj1_sig a) (proj1_sig b).

Theorem compound_cmp_antisym : forall a b : ckey, ckey_cmp a b = CompOpp (ckey_cmp b a).
Proof. intros [a Ha] [b Hb]. unfold ckey_cmp. cbn [proj1_sig]. rewrite !cmp_of_compound by assumption. apply ccmp_antisym. Qed.
Theorem compound_cmp_trans : forall a b c : ckey, ckey_cmp a b = Lt -> ckey_cmp b c = Lt -> ckey_cmp a c = Lt.
Proof. intros [a Ha] [b Hb] [c Hc]. unfold ckey_cmp. cbn [proj1_sig]. rewrite !cmp_of_compound by assumption. apply ccmp_trans. Qed.
Theorem compound_cmp_lt_eq : forall a b c : ckey, ckey_cmp a b = Lt -> ckey_cmp b c = Eq -> ckey_cmp a c = Lt.
Proof.
  intros [a Ha] [b Hb] [c Hc]. unfold ckey_cmp. cbn [proj1_sig]. rewrite !cmp_of_compound by assumption.
  intros H1 H2. apply ccmp_eq in H2. rewrite <- H2. exact H1.
Qed.
(* equal only when identical: bytes and compound part *)
Theorem compound_cmp_eq_iff : forall a b : ckey, ckey_cmp a b = Eq <-> proj1_sig a = proj1_sig b.
Proof. intros [a Ha] [b Hb]. unfold ckey_cmp. cbn [proj1_sig]. rewrite cmp_of_compound by assumption. apply ccmp_eq. Qed.
(* the order a user sees: key bytes ascending towards the end of a forward scan ... *)
Theorem compound_cmp_order : forall a b : ckey,
  ckey_cmp a b = Lt <-> (bcmp (fst (proj1_sig b)) (fst (proj1_sig a)) = Lt
                         \/ (fst (proj1_sig b) = fst (proj1_sig a) /\ snd (proj1_sig a) > snd (proj1_sig b))).
Proof. intros [a Ha] [b Hb]. unfold ckey_cmp. cbn [proj1_sig]. rewrite cmp_of_compound by assumption. apply ccmp_lt. Qed.

(* ------------------------------------------------------------------------------------------------------------------ *)
(* The cached prefix.  A node keeps the first PREFIX_KEY_LEN_V2 bytes of its lowest stored key; _lx_sblk_cmp_key decides
   on them when it can and loads the complete key otherwise.  Whatever it decides is what the complete key decides. *)

Lemma cmp2_firstn_short : forall (n : nat) (a b : list Z), (length a <= n)%nat -> cmp2 a (firstn n b) = cmp2 a b.
Proof.
  induction n as [|n IH]; intros a b Hl.
  - destruct a; [|cbn [length] in Hl; lia]. destruct b; reflexivity.
  - destruct a as [|x a]; [destruct b; reflexivity|]. destruct b as [|y b]; [reflexivity|].
    cbn [firstn cmp2]. destruct (x =? y); [|reflexivity]. apply IH. cbn [length] in Hl. lia.
Qed.
Lemma cmp2_firstn_diff : forall (n : nat) (a b : list Z), cmp2 a (firstn n b) <> 0 -> cmp2 a b = cmp2 a (firstn n b).
Proof.
  induction n as [|n IH]; intros a b Hd.
  - exfalso. apply Hd. destruct a; reflexivity.
  - destruct a as [|x a]; [exfalso; apply Hd; reflexivity|]. destruct b as [|y b]; [reflexivity|].
    cbn [firstn cmp2] in *. destruct (x =? y); [|reflexivity]. apply IH. exact Hd.
Qed.
Lemma sgnc_craw (kd v : list Z) : sgnc (craw kd v) = bcmp kd v.
Proof.
  unfold sgnc. pose proof (craw_bcmp kd v) as [H1 H2]. rewrite H1, H2. destruct (bcmp kd v); reflexivity.
Qed.

Lemma cmp_keys_plain (v kd : list Z) (kc : Z) : cmp_keys memcmp plain v kd kc = craw kd v.
Proof. unfold cmp_keys, cmp_keys_prefix, plain, craw. cbn [km_vnum km_real km_compound orb negb]. rewrite Bool.andb_true_r. reflexivity. Qed.

Lemma firstn_length_le {A} (n : nat) (l : list A) : (length l <= n)%nat -> firstn n l = l.
Proof. intros H. apply firstn_all2. exact H. Qed.

(* plain keys: every stored key, every look-up key *)
Theorem prefix_shortcut_plain : forall (skey kd : list Z) (kc : Z),
  sgnc (sblk_cmp_key_full memcmp plain skey kd kc) = sgnc (cmp_keys memcmp plain skey kd kc).
Proof.
  intros skey kd kc. unfold sblk_cmp_key_full, sblk_cmp_key.
  cbn [km_vnum km_real km_compound plain orb negb andb].
  set (P := Z.to_nat PREFIX_KEY_LEN_V2).
  assert (HP : Z.of_nat P = PREFIX_KEY_LEN_V2) by (unfold P, PREFIX_KEY_LEN_V2; reflexivity).
  destruct (Z.of_nat (length skey) <=? PREFIX_KEY_LEN_V2) eqn:Efull.
  - (* the whole key is cached *)
    cbn [orb]. rewrite firstn_length_le by lia. reflexivity.
  - cbn [orb]. rewrite !Bool.orb_false_r. rewrite Z.add_0_r.
    assert (Hlk : length (firstn P skey) = P) by (rewrite firstn_length; lia).
    rewrite Hlk.
    destruct (Z.of_nat (length kd) <? Z.of_nat P) eqn:Eshort.
    + (* the look-up key is shorter than the cached part: decided on the cached part *)
      rewrite !cmp_keys_plain, !sgnc_craw.
      (* bcmp kd (firstn P skey) = bcmp kd skey when kd is shorter than P <= length skey *)
      assert (G : forall (n : nat) (a b : list Z), (length a < n)%nat -> (n <= length b)%nat -> bcmp a (firstn n b) = bcmp a b).
      { induction n as [|n IH]; intros a b H1 H2; [lia|].
        destruct a as [|x a]; destruct b as [|y b]; cbn [length] in *; try lia; try reflexivity.
        cbn [firstn bcmp]. destruct (x =? y); [|reflexivity]. apply IH; lia. }
      apply G; lia.
    + (* at least as long: a difference within the cached part decides, otherwise the complete key is compared *)
      unfold cmp_keys_prefix. cbn [km_vnum km_real km_compound plain].
      destruct (cmp2 kd (firstn P skey) =? 0) eqn:Ez; [reflexivity|].
      rewrite cmp_keys_plain. unfold craw.
      assert (Hd : cmp2 kd (firstn P skey) <> 0) by lia.
      rewrite (cmp2_firstn_diff P kd skey Hd). rewrite Ez. reflexivity.
Qed.

(* compound keys: stored key = varint of an encodable compound part followed by the key bytes *)
Lemma cmp_keys_prefix_compound (c : Z) (d kd : list Z) (kc : Z) : 0 <= c < 2 ^ 63 ->
  cmp_keys_prefix memcmp cmode (set_vnum64 c ++ d) kd kc =
  (if Z.of_nat (length d) <? 1 then Z.of_nat (length kd) - Z.of_nat (length d) else cmp2 kd d).
Proof.
  intros Hc. destruct (vnum64_roundtrip c d Hc) as [Hr _].
  unfold cmp_keys_prefix, cmode. cbn [km_vnum km_real km_compound]. rewrite Hr.
  rewrite skipn_app_len, app_length, Nat2Z.inj_add.
  replace (Z.of_nat (length (set_vnum64 c)) + Z.of_nat (length d) - Z.of_nat (length (set_vnum64 c))) with (Z.of_nat (length d)) by lia.
  reflexivity.
Qed.

Theorem prefix_shortcut_compound : forall (c : Z) (d kd : list Z) (kc : Z), 0 <= c < 2 ^ 63 ->
  sgnc (sblk_cmp_key_full memcmp cmode (set_vnum64 c ++ d) kd kc) = sgnc (cmp_keys memcmp cmode (set_vnum64 c ++ d) kd kc).
Proof.
  intros c d kd kc Hc. unfold sblk_cmp_key_full, sblk_cmp_key.
  cbn [km_vnum km_real km_compound cmode orb negb andb].
  set (P := Z.to_nat PREFIX_KEY_LEN_V2). set (e := set_vnum64 c).
  assert (HP : P = 115%nat) by reflexivity. clearbody P. subst P.
  destruct (Z.of_nat (length (e ++ d)) <=? PREFIX_KEY_LEN_V2) eqn:Efull.
  - cbn [orb]. apply Z.leb_le in Efull. unfold PREFIX_KEY_LEN_V2 in Efull. rewrite firstn_length_le by lia. reflexivity.
  - cbn [orb]. apply Z.leb_gt in Efull. unfold PREFIX_KEY_LEN_V2 in Efull.
    (* the varint (at most 10 bytes) lies inside the cached part *)
    assert (Hel : (length e <= 10)%nat).
    { apply Nat2Z.inj_le. unfold e. rewrite vnum64_size by exact Hc. unfold IW_VNUMSIZE.
      repeat match goal with |- context [if ?b then _ else _] => destruct b end; cbn; lia. }
    assert (Hfn : firstn 115 (e ++ d) = e ++ firstn (115 - length e) d).
    { rewrite firstn_app. rewrite (firstn_length_le 115 e) by lia. reflexivity. }
    rewrite Hfn. unfold e. rewrite (cmp_keys_prefix_compound c _ kd kc Hc). fold e.
    rewrite app_length, Nat2Z.inj_add in Efull.
    assert (Hdl : (115 - length e <= length d)%nat) by lia.
    rewrite firstn_length, Nat.min_l by exact Hdl.
    assert (E1 : (Z.of_nat (115 - length e) <? 1) = false) by (apply Z.ltb_ge; lia).
    rewrite E1. subst e.
    destruct (cmp2 kd (firstn (115 - length (set_vnum64 c)) d) =? 0) eqn:Ez; [reflexivity|].
    rewrite (cmp_keys_compound c d kd kc Hc). unfold craw.
    assert (Hd : cmp2 kd (firstn (115 - length (set_vnum64 c)) d) <> 0) by (apply Z.eqb_neq; exact Ez).
    rewrite (cmp2_firstn_diff _ kd d Hd). rewrite Ez. cbv beta iota. rewrite Ez. reflexivity.
Qed.

(* non-vacuity: two keys that differ only beyond byte 115, and two that differ only in the compound part *)
Example prefix_shortcut_examples :
  let long1 := repeat 97 120 ++ [1] in let long2 := repeat 97 120 ++ [2] in
  sblk_cmp_key memcmp plain (firstn 115 long1) false long2 0 = None /\
  sgnc (sblk_cmp_key_full memcmp plain long1 long2 0) = Gt /\
  cmp_of cmode ([1; 2], 300) ([1; 2], 7) = Lt /\ cmp_of cmode ([1; 2], 7) ([1; 2; 0], 0) = Gt.
Proof. vm_compute. repeat split; reflexivity. Qed.
