(* C03: records, node contents and the level-0 chain of a database as they lie in the file image.
   Writer side (what _kvblk_addkv puts at a slot): [length of the stored key as a 32-bit variable-length number, stored key
   (compound prefix + key bytes), value]; the slot's (offset, length) pair in the data-block index says where the record
   starts (offset counted back from the end of the block) and how long it is.
   Reader side (what _kvblk_key_peek / _kvblk_value_peek and the independent reader do): key length and step from the
   variable-length number, key = the next `klen` bytes, value = the remaining `len - klen - step` bytes.
   node_recs = the records of one node in slot order (s_pi); chain_recs = the nodes reached from a start block through the
   level-0 links, each with its records.  The read-back theorems are in KV/Records_proofs.v. *)
Require Import List ZArith Bool. Import ListNotations.
Require Import IW.Lib.CInt IW.Lib.Vnum IW.KV.Keys IW.KV.Audit IW.KV.Inst IW.KV.Codec IW.Gen.Facts.
Local Open Scope Z_scope.

Definition write_rec (k v : list Z) : list Z := set_vnum32 (Z.of_nat (length k)) ++ k ++ v.

Fixpoint all_some {A} (l : list (option A)) : option (list A) :=
  match l with
  | [] => Some []
  | None :: _ => None
  | Some x :: r => match all_some r with Some r' => Some (x :: r') | None => None end
  end.

Section Read.
Variable rd : Z -> Z.

Definition slot_rec (blk szpow off len : Z) : option (list Z * list Z) :=
  let p := addr_of blk + 2 ^ szpow - off in
  match rdv rd p with
  | None => None
  | Some (klen, st) =>
    if (klen <? 1) || (klen + st >? len) || (klen >? 70000) then None
    else Some (bytes_at rd (Z.to_nat klen) (p + st), bytes_at rd (Z.to_nat (len - klen - st)) (p + st + klen))
  end.

Definition node_recs (s : sblk) : option (list (list Z * list Z)) :=
  match read_kvblk rd (s_kblk s) with
  | None => None
  | Some kb =>
    all_some (map (fun i => let ol := nthp (k_pidx kb) (Z.to_nat i) in slot_rec (s_kblk s) (k_szpow kb) (fst ol) (snd ol))
                  (firstn (Z.to_nat (s_pnum s)) (s_pi s)))
  end.

Definition chain_recs (fuel : nat) (start : Z) : option (list (list (list Z * list Z))) :=
  match walk rd fuel 0 start [] with
  | None => None
  | Some l => all_some (map (fun b => node_recs (read_sblk rd b)) l)
  end.
End Read.

(* all records of the database with the given id, as a reader that knows only the file format finds them *)
Definition db_recs (rd : Z -> Z) (fsize : Z) (dbid : Z) : option (list (list (list Z * list Z))) :=
  match find_db rd 4096 (first_db rd) dbid with
  | None => None
  | Some dblk => chain_recs rd (walk_fuel fsize) (u32 rd (addr_of dblk + DOFF_N0_U4))
  end.

(* ---- what "the image holds node n" means: the three writers' bytes are where the node says they are ---- *)
Record dnode := { dn_s : sblk; dn_szpow : Z; dn_pidx : list (Z * Z); dn_recs : list (list Z * list Z) }.

(* executable test that an image holds a byte list (used for the examples and by the correspondence check) *)
Definition holdsb (rd : Z -> Z) (o : Z) (bs : list Z) : bool :=
  forallb (fun i => rd (o + Z.of_nat i) =? nth i bs 0) (seq 0 (length bs)).

(* executable form of "the image holds node n" (KV/Records_proofs.v: node_on_diskb_ok) *)
Definition byteb (x : Z) : bool := (0 <=? x) && (x <? 256).
Definition u32b (x : Z) : bool := (0 <=? x) && (x <? 4294967296).
Definition sblk_wfb (s : sblk) : bool :=
  byteb (s_flags s) && byteb (s_lvl s) && byteb (s_lkl s) && byteb (s_pnum s) && byteb (s_bpos s) &&
  u32b (s_p0 s) && u32b (s_kblk s) && Nat.eqb (length (s_pi s)) NIDXA && forallb byteb (s_pi s) &&
  Nat.eqb (length (s_n s)) NSLEV && forallb u32b (s_n s) && (s_lkl s <=? SBLK_LKLEN) &&
  Nat.eqb (length (s_lk s)) (Z.to_nat (s_lkl s)) && forallb byteb (s_lk s).
Definition pair_wfb (p : Z * Z) : bool :=
  (0 <=? fst p) && (fst p <? 9223372036854775808) && (0 <=? snd p) && (snd p <? 9223372036854775808).
Definition rec_atb (rd : Z -> Z) (blk szpow off len : Z) (kv : list Z * list Z) : bool :=
  (1 <=? Z.of_nat (length (fst kv))) && (Z.of_nat (length (fst kv)) <=? 70000) &&
  (len =? Z.of_nat (length (write_rec (fst kv) (snd kv)))) &&
  holdsb rd (addr_of blk + 2 ^ szpow - off) (write_rec (fst kv) (snd kv)).
Fixpoint forall2b {A B} (f : A -> B -> bool) (l : list A) (r : list B) : bool :=
  match l, r with
  | [], [] => true
  | a :: l', b :: r' => f a b && forall2b f l' r'
  | _, _ => false
  end.
Definition node_on_diskb (rd : Z -> Z) (n : dnode) : bool :=
  let s := dn_s n in
  sblk_wfb s && holdsb rd (addr_of (s_blk s)) (write_sblk s) && byteb (dn_szpow n) &&
  Nat.eqb (length (dn_pidx n)) NIDXA && forallb pair_wfb (dn_pidx n) &&
  (Z.of_nat (length (write_pidx (dn_pidx n))) <? 65536) &&
  holdsb rd (addr_of (s_kblk s)) (write_kvblk_head (dn_szpow n) (dn_pidx n)) &&
  forall2b (fun i kv => let ol := nthp (dn_pidx n) (Z.to_nat i) in rec_atb rd (s_kblk s) (dn_szpow n) (fst ol) (snd ol) kv)
           (firstn (Z.to_nat (s_pnum s)) (s_pi s)) (dn_recs n).
Fixpoint chain_on_diskb (rd : Z -> Z) (ns : list dnode) (start : Z) : bool :=
  match ns with
  | [] => start =? 0
  | n :: r => (start =? s_blk (dn_s n)) && negb (start =? 0) && node_on_diskb rd n && chain_on_diskb rd r (nthz (s_n (dn_s n)) 0)
  end.

(* ---- the hypothesis of the read-back theorems, tested on a real image: decode every node of a database, then ask whether
        the image holds the encoding of what was decoded (node block, data-block header + index, every record) ---- *)
Definition decode_node (rd : Z -> Z) (blk : Z) : option dnode :=
  let s := read_sblk rd blk in
  match read_kvblk rd (s_kblk s), node_recs rd s with
  | Some kb, Some recs => Some {| dn_s := s; dn_szpow := k_szpow kb; dn_pidx := k_pidx kb; dn_recs := recs |}
  | _, _ => None
  end.
Definition db_canonical (rd : Z -> Z) (fsize : Z) (dbid : Z) : bool :=
  match find_db rd 4096 (first_db rd) dbid with
  | None => false
  | Some dblk =>
    match walk rd (walk_fuel fsize) 0 (u32 rd (addr_of dblk + DOFF_N0_U4)) [] with
    | None => false
    | Some l => forallb (fun b => match decode_node rd b with Some n => node_on_diskb rd n | None => false end) l
    end
  end.
