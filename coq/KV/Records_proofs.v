(* C03: reading an image that holds what the writers wrote gives back what was written - record, node, whole level-0
   chain of a database.  Together with the node-block and index round trips (Codec_proofs.v) this is the codec half of
   "a cleanly closed store reopens with identical contents": if the image holds the encoding of a chain of nodes, the reader
   returns exactly the records of those nodes, in order.  (That close writes that encoding is the implementation's part;
   it is checked on every real image: re-encoding what the reader decoded gives the bytes that are there, and the reader's
   view equals the implementation's own.) *)
Require Import List ZArith Bool Lia. Import ListNotations.
Require Import IW.Lib.CInt IW.Lib.Vnum IW.Lib.Vnum_proofs IW.KV.Audit IW.KV.Inst IW.KV.Image_proofs IW.KV.Codec IW.KV.Codec_proofs
               IW.KV.Records IW.Gen.Facts.
Local Open Scope Z_scope.

(* the 32-bit macro writes what the 64-bit macro writes for every value it accepts *)
Lemma set_loop_fuel : forall f g num, 0 <= num < 128 ^ Z.of_nat f -> (f <= g)%nat -> set_vnum_loop g num = set_vnum_loop f num.
Proof.
  induction f as [|f IH]; intros g num Hn Hg.
  - change (128 ^ Z.of_nat 0) with 1 in Hn. assert (num = 0) by lia. subst num. destruct g; reflexivity.
  - destruct g as [|g]; [lia|]. rewrite !set_loop_step.
    destruct (num <=? 0) eqn:E0; [reflexivity|]. destruct (0 <? num / 128) eqn:E1; [|reflexivity].
    f_equal. apply IH; [|lia].
    rewrite Nat2Z.inj_succ, Z.pow_succ_r in Hn by lia.
    split; [apply Z.div_pos; lia|apply Z.div_lt_upper_bound; lia].
Qed.
Lemma set_vnum32_is_64 n : 0 <= n < 2 ^ 31 -> set_vnum32 n = set_vnum64 n.
Proof.
  intros Hn. unfold set_vnum32, set_vnum64. rewrite sw32_id by exact Hn. rewrite sw64_id by (change (2 ^ 31) with 2147483648 in Hn; change (2 ^ 63) with 9223372036854775808; lia).
  destruct (n =? 0); [reflexivity|]. symmetry. apply (set_loop_fuel 5 10 n); [|lia].
  change (128 ^ Z.of_nat 5) with (2 ^ 35). lia.
Qed.

Lemma holdsb_holds rd o bs : holdsb rd o bs = true -> holds rd o bs.
Proof.
  unfold holdsb, holds. intros H i Hi. rewrite forallb_forall in H.
  specialize (H i ltac:(apply in_seq; lia)). apply Z.eqb_eq in H. exact H.
Qed.

Lemma bytes_at_holds_prefix rd : forall (a b : list Z) o, holds rd o (a ++ b) -> bytes_at rd (length a) o = a.
Proof. intros a b o H. apply holds_app in H. apply bytes_at_holds. exact (proj1 H). Qed.

(* ---- one record ---- *)
Definition rec_at (rd : Z -> Z) (blk szpow off len : Z) (kv : list Z * list Z) : Prop :=
  let k := fst kv in let v := snd kv in
  1 <= Z.of_nat (length k) <= 70000 /\ len = Z.of_nat (length (write_rec k v)) /\
  holds rd (addr_of blk + 2 ^ szpow - off) (write_rec k v).

Theorem record_roundtrip rd blk szpow off len kv :
  rec_at rd blk szpow off len kv -> slot_rec rd blk szpow off len = Some kv.
Proof.
  destruct kv as [k v]. unfold rec_at. cbn [fst snd]. intros [Hk [Hlen H]].
  unfold slot_rec. set (p := addr_of blk + 2 ^ szpow - off) in *.
  assert (Hkz : 0 <= Z.of_nat (length k) < 2 ^ 31) by (change (2 ^ 31) with 2147483648; lia).
  unfold write_rec in *. rewrite (set_vnum32_is_64 _ Hkz) in *.
  set (e := set_vnum64 (Z.of_nat (length k))) in *.
  pose proof (holds_app _ _ _ _ H) as [H1 H2]. pose proof (holds_app _ _ _ _ H2) as [H3 H4].
  assert (Hk63 : 0 <= Z.of_nat (length k) < 2 ^ 63) by (change (2 ^ 63) with 9223372036854775808; lia).
  rewrite (rdv_reads_set_vnum64 rd p _ Hk63 H1). fold e.
  rewrite !app_length, !Nat2Z.inj_add in Hlen.
  assert (E1 : (Z.of_nat (length k) <? 1) = false) by (apply Z.ltb_ge; lia).
  assert (E2 : (Z.of_nat (length k) + Z.of_nat (length e) >? len) = false) by (rewrite Z.gtb_ltb; apply Z.ltb_ge; lia).
  assert (E3 : (Z.of_nat (length k) >? 70000) = false) by (rewrite Z.gtb_ltb; apply Z.ltb_ge; lia).
  rewrite E1, E2, E3. cbn [orb]. rewrite Nat2Z.id.
  rewrite (bytes_at_holds rd k _ H3).
  replace (Z.to_nat (len - Z.of_nat (length k) - Z.of_nat (length e))) with (length v) by lia.
  replace (p + Z.of_nat (length e) + Z.of_nat (length k)) with (p + Z.of_nat (length e) + Z.of_nat (length k)) by reflexivity.
  rewrite (bytes_at_holds rd v _ H4). reflexivity.
Qed.

(* ---- one node: node block, data-block header + index, one record per used slot ---- *)
Definition node_on_disk (rd : Z -> Z) (n : dnode) : Prop :=
  let s := dn_s n in
  sblk_wf s /\ holds rd (addr_of (s_blk s)) (write_sblk s) /\
  byte (dn_szpow n) /\ length (dn_pidx n) = NIDXA /\ Forall pair_wf (dn_pidx n) /\
  Z.of_nat (length (write_pidx (dn_pidx n))) < 2 ^ 16 /\
  holds rd (addr_of (s_kblk s)) (write_kvblk_head (dn_szpow n) (dn_pidx n)) /\
  Forall2 (fun i kv => let ol := nthp (dn_pidx n) (Z.to_nat i) in rec_at rd (s_kblk s) (dn_szpow n) (fst ol) (snd ol) kv)
          (firstn (Z.to_nat (s_pnum s)) (s_pi s)) (dn_recs n).

Lemma Forall2_imp {A B} (P Q : A -> B -> Prop) : (forall a b, P a b -> Q a b) -> forall l r, Forall2 P l r -> Forall2 Q l r.
Proof. intros HPQ l r H. induction H; constructor; auto. Qed.

Lemma all_some_map_Forall2 {A B} (f : A -> option B) : forall (l : list A) (r : list B),
  Forall2 (fun a b => f a = Some b) l r -> all_some (map f l) = Some r.
Proof.
  induction 1 as [|a b l r Hab _ IH]; [reflexivity|]. cbn [map all_some]. rewrite Hab, IH. reflexivity.
Qed.

Theorem node_roundtrip rd (n : dnode) :
  node_on_disk rd n -> node_recs rd (read_sblk rd (s_blk (dn_s n))) = Some (dn_recs n).
Proof.
  unfold node_on_disk. intros [Hwf [Hs [Hsz [Hpl [Hpf [Hil [Hk Hr]]]]]]].
  rewrite (sblk_roundtrip rd (dn_s n) Hwf Hs).
  unfold node_recs. rewrite (kvblk_head_roundtrip rd _ _ _ Hsz Hpl Hpf Hil Hk). cbn [k_pidx k_szpow].
  apply all_some_map_Forall2.
  eapply Forall2_imp; [|exact Hr]. intros i kv H. cbn beta. apply record_roundtrip. exact H.
Qed.

(* ---- the level-0 chain of a database ---- *)
Fixpoint chain_on_disk (rd : Z -> Z) (ns : list dnode) (start : Z) : Prop :=
  match ns with
  | [] => start = 0
  | n :: r => start = s_blk (dn_s n) /\ start <> 0 /\ node_on_disk rd n /\ chain_on_disk rd r (nthz (s_n (dn_s n)) 0)
  end.

Lemma walk_chain rd : forall (ns : list dnode) (start : Z) (fuel : nat) (acc : list Z),
  chain_on_disk rd ns start -> (length ns < fuel)%nat ->
  walk rd fuel 0 start acc = Some (rev acc ++ map (fun n => s_blk (dn_s n)) ns).
Proof.
  induction ns as [|n r IH]; intros start fuel acc Hc Hf.
  - cbn [chain_on_disk] in Hc. subst start. destruct fuel as [|fuel]; [cbn [length] in Hf; lia|].
    cbn [walk map]. rewrite app_nil_r. reflexivity.
  - cbn [chain_on_disk] in Hc. destruct Hc as [Hs [Hnz [Hn Hr]]].
    destruct fuel as [|fuel]; [cbn [length] in Hf; lia|]. cbn [walk].
    assert (E : (start =? 0) = false) by (apply Z.eqb_neq; exact Hnz). rewrite E.
    destruct Hn as [Hwf [Hh _]]. rewrite Hs. rewrite (sblk_roundtrip rd (dn_s n) Hwf Hh).
    rewrite (IH _ fuel (s_blk (dn_s n) :: acc) Hr ltac:(cbn [length] in Hf; lia)).
    cbn [rev map]. rewrite <- app_assoc. reflexivity.
Qed.

Lemma chain_nodes rd : forall (ns : list dnode) (start : Z), chain_on_disk rd ns start ->
  Forall2 (fun b r => node_recs rd (read_sblk rd b) = Some r) (map (fun n => s_blk (dn_s n)) ns) (map dn_recs ns).
Proof.
  induction ns as [|n r IH]; intros start Hc; [constructor|].
  cbn [chain_on_disk] in Hc. destruct Hc as [_ [_ [Hn Hr]]]. cbn [map]. constructor.
  - apply node_roundtrip. exact Hn.
  - eapply IH. exact Hr.
Qed.

(* reading the image of a chain gives the records of its nodes, node by node, in slot order *)
Theorem chain_roundtrip rd (ns : list dnode) (start : Z) (fuel : nat) :
  chain_on_disk rd ns start -> (length ns < fuel)%nat -> chain_recs rd fuel start = Some (map dn_recs ns).
Proof.
  intros Hc Hf. unfold chain_recs. rewrite (walk_chain rd ns start fuel [] Hc Hf). cbn [rev app].
  apply all_some_map_Forall2. eapply chain_nodes. exact Hc.
Qed.

(* the flat contents a user sees after reopening: all records in chain order *)
Corollary chain_contents_roundtrip rd (ns : list dnode) (start : Z) (fuel : nat) :
  chain_on_disk rd ns start -> (length ns < fuel)%nat ->
  option_map (@concat _) (chain_recs rd fuel start) = Some (concat (map dn_recs ns)).
Proof. intros Hc Hf. rewrite (chain_roundtrip rd ns start fuel Hc Hf). reflexivity. Qed.

(* ---- the executable forms are sound ---- *)
Lemma byteb_ok x : byteb x = true -> byte x.
Proof. unfold byteb, byte. lia. Qed.
Lemma forallb_Forall {A} (f : A -> bool) (P : A -> Prop) : (forall x, f x = true -> P x) -> forall l, forallb f l = true -> Forall P l.
Proof. intros H l Hl. apply Forall_forall. intros x Hx. apply H. rewrite forallb_forall in Hl. exact (Hl x Hx). Qed.
Lemma sblk_wfb_ok s : sblk_wfb s = true -> sblk_wf s.
Proof.
  unfold sblk_wfb, sblk_wf. rewrite !andb_true_iff.
  intros [[[[[[[[[[[[[H1 H2] H3] H4] H5] H6] H7] H8] H9] H10] H11] H12] H13] H14].
  assert (U : forall x, u32b x = true -> 0 <= x < 2 ^ 32) by (intros x Hx; unfold u32b in Hx; change (2 ^ 32) with 4294967296; lia).
  split; [apply byteb_ok; exact H1|]. split; [apply byteb_ok; exact H2|]. split; [apply byteb_ok; exact H3|].
  split; [apply byteb_ok; exact H4|]. split; [apply byteb_ok; exact H5|]. split; [apply U; exact H6|]. split; [apply U; exact H7|].
  split; [apply Nat.eqb_eq; exact H8|]. split; [exact (forallb_Forall _ _ byteb_ok _ H9)|].
  split; [apply Nat.eqb_eq; exact H10|]. split; [exact (forallb_Forall _ _ U _ H11)|].
  split; [apply Z.leb_le; exact H12|]. split; [apply Nat.eqb_eq; exact H13|exact (forallb_Forall _ _ byteb_ok _ H14)].
Qed.
Lemma rec_atb_ok rd blk szpow off len kv : rec_atb rd blk szpow off len kv = true -> rec_at rd blk szpow off len kv.
Proof.
  unfold rec_atb, rec_at. rewrite !andb_true_iff. intros [[[H1 H2] H3] H4].
  split; [lia|]. split; [lia|]. apply holdsb_holds. exact H4.
Qed.
Lemma forall2b_Forall2 {A B} (f : A -> B -> bool) (P : A -> B -> Prop) : (forall a b, f a b = true -> P a b) ->
  forall l r, forall2b f l r = true -> Forall2 P l r.
Proof.
  intros H. induction l as [|a l IH]; intros [|b r] Hf; cbn [forall2b] in Hf; try discriminate; [constructor|].
  apply andb_true_iff in Hf. destruct Hf as [H1 H2]. constructor; [apply H; exact H1|apply IH; exact H2].
Qed.
Lemma node_on_diskb_ok rd n : node_on_diskb rd n = true -> node_on_disk rd n.
Proof.
  unfold node_on_diskb, node_on_disk. rewrite !andb_true_iff. intros [[[[[[[H1 H2] H3] H4] H5] H6] H7] H8].
  split; [apply sblk_wfb_ok; exact H1|]. split; [apply holdsb_holds; exact H2|]. split; [apply byteb_ok; exact H3|].
  split; [apply Nat.eqb_eq; exact H4|].
  split. { refine (forallb_Forall _ _ _ _ H5). intros p Hp. unfold pair_wfb in Hp. unfold pair_wf. change (2 ^ 63) with 9223372036854775808. lia. }
  split; [change (2 ^ 16) with 65536; lia|]. split; [apply holdsb_holds; exact H7|].
  refine (forall2b_Forall2 _ _ _ _ _ H8). intros i kv Hi. cbn beta in *. apply rec_atb_ok. exact Hi.
Qed.
Lemma chain_on_diskb_ok rd : forall ns start, chain_on_diskb rd ns start = true -> chain_on_disk rd ns start.
Proof.
  induction ns as [|n r IH]; intros start H; cbn [chain_on_diskb chain_on_disk] in *; [lia|].
  rewrite !andb_true_iff in H. destruct H as [[[H1 H2] H3] H4].
  split; [lia|]. split; [apply Z.eqb_neq; destruct (start =? 0); [discriminate|reflexivity]|].
  split; [apply node_on_diskb_ok; exact H3|apply IH; exact H4].
Qed.
