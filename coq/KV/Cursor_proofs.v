(* Cursors: a forward scan from before-first returns exactly the records of the chain, in chain order,
   once each; and the list-level facts behind the cursor fix-ups (a cursor keeps pointing at its record
   when records are inserted or removed around it, or when its node is split at the pivot). *)
Require Import List ZArith Bool Lia. Import ListNotations.
Require Import IW.KV.Node IW.KV.Cursor.

Section CursorProofs.
Variables K V : Type.
Variable cmp : K -> K -> comparison.
Variable IDXNUM PIVOT : nat.
Hypothesis idxnum_pos : 1 <= IDXNUM.

Notation chain := (chain K V).
Notation recs := (recs K V).
Notation flat := (flat K V).
Notation find_node := (find_node K V).
Notation nid_of := (nid_of K V).
Notation load_node := (load_node K V).
Notation cursor_to := (cursor_to K V IDXNUM).
Notation cursor_read := (cursor_read K V).

Definition ids_unique (c : chain) : Prop := NoDup (map fst c).
Definition nonempty_nodes (c : chain) : Prop := Forall (fun n : node K V => snd n <> []) c.

(* repeated NEXT, reading the record after each successful move *)
Fixpoint scan_next (fuel : nat) (c : chain) (cur : cursor) : list (K * V) :=
  match fuel with
  | O => []
  | S f =>
    let '(r, cur') := cursor_to c cur CNext in
    match r with
    | CROk => match cursor_read c cur' with Some e => e :: scan_next f c cur' | None => [] end
    | _ => []
    end
  end.

Lemma flat_cons_eq (n : node K V) (c : chain) : flat (n :: c) = snd n ++ flat c.
Proof. reflexivity. Qed.

Definition last_id_or (prev : option nat) (pre : chain) : option nat :=
  match rev pre with (i, _) :: _ => Some i | [] => prev end.

Lemma last_id_or_snoc prev pre i r : last_id_or prev (pre ++ [(i, r)]) = Some i.
Proof. unfold last_id_or. rewrite rev_app_distr. reflexivity. Qed.

Lemma last_id_or_cons prev j rj pre : last_id_or prev ((j, rj) :: pre) = last_id_or (Some j) pre.
Proof.
  unfold last_id_or. cbn [rev]. destruct (@rev (node K V) pre) as [|[i0 r0] l]; reflexivity.
Qed.

Lemma find_node_app : forall pre prev id r rest,
  ~ In id (map fst pre) ->
  find_node prev (pre ++ (id, r) :: rest) id = Some (last_id_or prev pre, r, nid_of rest).
Proof.
  induction pre as [|[j rj] pre IH]; intros prev id r rest Hn; cbn [app find_node].
  - rewrite Nat.eqb_refl. reflexivity.
  - destruct (Nat.eqb j id) eqn:E.
    + apply Nat.eqb_eq in E. subst. exfalso. apply Hn. left. reflexivity.
    + rewrite IH.
      * rewrite last_id_or_cons. reflexivity.
      * intros Hin. apply Hn. right. exact Hin.
Qed.

Lemma unique_split pre id r rest : ids_unique (pre ++ (id, r) :: rest) -> ~ In id (map fst pre).
Proof.
  unfold ids_unique. rewrite map_app. cbn [map fst]. intros H Hin.
  apply NoDup_remove_2 in H. apply H. apply in_or_app. left. exact Hin.
Qed.

Definition at_node (pre : chain) (id : nat) (r : recs) (rest : chain) (p : nat) (pend : pending) : cursor :=
  {| c_cn := Some {| cc_node := CnNode id; cc_pnum := length r; cc_p0 := last_id_or None pre; cc_n0 := nid_of rest |};
     c_pos := p; c_skip := 0%Z; c_pend := pend |}.

Lemma skipn_nth_cons (A : Type) (l : list A) (p : nat) (e : A) :
  nth_error l p = Some e -> skipn p l = e :: skipn (S p) l.
Proof.
  revert p; induction l as [|x l IH]; intros [|p] H; simpl in *; try discriminate.
  - inversion H. reflexivity.
  - apply IH. exact H.
Qed.

Lemma find_at (c pre : chain) id r rest : c = pre ++ (id, r) :: rest -> ids_unique c ->
  find_node None c id = Some (last_id_or None pre, r, nid_of rest).
Proof. intros -> Hu. apply find_node_app. eapply unique_split. exact Hu. Qed.

Lemma read_at (c pre : chain) id r rest p pend e : c = pre ++ (id, r) :: rest -> ids_unique c ->
  nth_error r p = Some e -> cursor_read c (at_node pre id r rest p pend) = Some e.
Proof.
  intros Hc Hu He. unfold Cursor.cursor_read, cursor_at, at_node. cbn [c_cn cc_node c_pos cc_pnum].
  assert (Hlt : Nat.ltb p (length r) = true).
  { apply Nat.ltb_lt. apply nth_error_Some. congruence. }
  rewrite Hlt. cbv iota. rewrite (find_at c pre id r rest Hc Hu). exact He.
Qed.

Lemma load_at (c pre : chain) id r rest : c = pre ++ (id, r) :: rest -> ids_unique c ->
  load_node c id = Some {| cc_node := CnNode id; cc_pnum := length r; cc_p0 := last_id_or None pre; cc_n0 := nid_of rest |}.
Proof. intros Hc Hu. unfold Cursor.load_node. rewrite (find_at c pre id r rest Hc Hu). reflexivity. Qed.

Lemma scan_from_node : forall fuel c pre id r rest p pend,
  c = pre ++ (id, r) :: rest ->
  ids_unique c ->
  nonempty_nodes rest ->
  p < length r ->
  length (skipn (S p) r ++ flat rest) < fuel ->
  scan_next fuel c (at_node pre id r rest p pend) = skipn (S p) r ++ flat rest.
Proof.
  induction fuel as [|fuel IH]; intros c pre id r rest p pend Hc Hu Hne Hp Hf; [lia|].
  cbn [scan_next cursor_to at_node c_cn c_pend c_skip c_pos cc_pnum cc_n0 cc_node].
  change (0 <? 0)%Z with false. cbv iota.
  destruct (Nat.leb (length r) (p + 1)) eqn:El.
  - (* end of this node *)
    apply Nat.leb_le in El.
    assert (Hs : skipn (S p) r = []) by (apply skipn_all2; lia).
    rewrite Hs in *. cbn [app] in *.
    destruct rest as [|[n rn] rest']; cbn [Node.nid_of].
    + reflexivity.
    + assert (Hc' : c = (pre ++ [(id, r)]) ++ (n, rn) :: rest') by (rewrite Hc, <- app_assoc; reflexivity).
      rewrite (load_at c (pre ++ [(id, r)]) n rn rest' Hc' Hu). cbv iota beta.
      inversion Hne as [|x0 l0 Hrn Hne' Heq]. cbn [snd] in Hrn.
      destruct rn as [|e0 rn']; [congruence|].
      change {| c_cn := Some {| cc_node := CnNode n; cc_pnum := length (e0 :: rn');
                                cc_p0 := last_id_or None (pre ++ [(id, r)]); cc_n0 := nid_of rest' |};
                c_pos := 0; c_skip := 0%Z; c_pend := pend |}
        with (at_node (pre ++ [(id, r)]) n (e0 :: rn') rest' 0 pend).
      rewrite (read_at c (pre ++ [(id, r)]) n (e0 :: rn') rest' 0 pend e0 Hc' Hu eq_refl).
      rewrite flat_cons_eq. cbn [snd app]. f_equal.
      rewrite (IH c (pre ++ [(id, r)]) n (e0 :: rn') rest' 0 pend Hc' Hu Hne').
      * reflexivity.
      * cbn [length]. lia.
      * rewrite flat_cons_eq in Hf. cbn [snd app length skipn] in *. lia.
  - (* next slot of the same node *)
    apply Nat.leb_gt in El. cbn [is_db cc_node]. cbv iota.
    assert (Hnth : exists e, nth_error r (p + 1) = Some e).
    { destruct (nth_error r (p + 1)) eqn:E; [eauto|]. apply nth_error_None in E. lia. }
    destruct Hnth as [e He].
    change {| c_cn := Some {| cc_node := CnNode id; cc_pnum := length r; cc_p0 := last_id_or None pre; cc_n0 := nid_of rest |};
              c_pos := p + 1; c_skip := 0%Z; c_pend := pend |}
      with (at_node pre id r rest (p + 1) pend).
    rewrite (read_at c pre id r rest (p + 1) pend e Hc Hu He).
    replace (S p) with (p + 1) by lia.
    rewrite (skipn_nth_cons _ r (p + 1) e He). cbn [app]. f_equal.
    rewrite (IH c pre id r rest (p + 1) pend Hc Hu Hne); [reflexivity|lia|].
    replace (S p) with (p + 1) in Hf by lia. rewrite (skipn_nth_cons _ r (p + 1) e He) in Hf. cbn [app length] in Hf. lia.
Qed.

(* C02: from before-first, NEXT enumerates the whole chain *)
Theorem scan_next_all (c : chain) (cur0 : cursor) (fuel : nat) :
  ids_unique c -> nonempty_nodes c -> length (flat c) < fuel ->
  scan_next fuel c (snd (cursor_to c cur0 CBeforeFirst)) = flat c.
Proof.
  intros Hu Hne Hf. cbn [cursor_to snd].
  destruct fuel as [|fuel]; [lia|].
  cbn [scan_next cursor_to c_cn c_pend c_skip c_pos].
  change (0 <? 0)%Z with false. cbv iota.
  unfold load_head. cbn [cc_pnum cc_n0].
  assert (Hle : Nat.leb IDXNUM (IDXNUM - 1 + 1) = true) by (apply Nat.leb_le; lia). rewrite Hle.
  destruct c as [|[n rn] rest]; cbn [Node.nid_of].
  - reflexivity.
  - assert (Hc : @cons (node K V) (n, rn) rest = @app (node K V) [] (@cons (node K V) (n, rn) rest)) by reflexivity.
    rewrite (load_at _ [] n rn rest Hc Hu). cbv iota beta.
    inversion Hne as [|? ? Hrn Hne']; subst. cbn [snd] in Hrn.
    destruct rn as [|e0 rn']; [congruence|].
    change {| c_cn := Some {| cc_node := CnNode n; cc_pnum := length (e0 :: rn'); cc_p0 := last_id_or None []; cc_n0 := nid_of rest |};
              c_pos := 0; c_skip := 0%Z; c_pend := PNone |}
      with (at_node [] n (e0 :: rn') rest 0 PNone).
    rewrite (read_at _ [] n (e0 :: rn') rest 0 PNone e0 Hc Hu eq_refl).
    rewrite flat_cons_eq. cbn [snd app]. f_equal.
    apply (scan_from_node fuel _ [] n (e0 :: rn') rest 0 PNone Hc Hu Hne').
    + cbn [length]. lia.
    + rewrite flat_cons_eq in Hf. cbn [snd app length skipn] in *. lia.
Qed.

(* repeated PREV *)
Fixpoint scan_prev (fuel : nat) (c : chain) (cur : cursor) : list (K * V) :=
  match fuel with
  | O => []
  | S f =>
    let '(r, cur') := cursor_to c cur CPrev in
    match r with
    | CROk => match cursor_read c cur' with Some e => e :: scan_prev f c cur' | None => [] end
    | _ => []
    end
  end.

Lemma nonempty_app_inv (a b : chain) : nonempty_nodes (a ++ b) -> nonempty_nodes a /\ nonempty_nodes b.
Proof. unfold nonempty_nodes. rewrite Forall_app. tauto. Qed.

Lemma flat_app (a b : chain) : flat (a ++ b) = flat a ++ flat b.
Proof. unfold Node.flat. rewrite map_app, concat_app. reflexivity. Qed.

Lemma firstn_S_nth (A : Type) (l : list A) (p : nat) (e : A) :
  nth_error l p = Some e -> firstn (S p) l = firstn p l ++ [e].
Proof.
  revert p; induction l as [|x l IH]; intros [|p] H; simpl in *; try discriminate.
  - inversion H. reflexivity.
  - rewrite (IH p H). reflexivity.
Qed.

Lemma rev_snoc_split (A F rj : list (K * V)) e : rj = F ++ [e] -> rev (A ++ rj) = e :: rev (A ++ F).
Proof. intros ->. rewrite app_assoc, rev_app_distr. reflexivity. Qed.

Lemma scan_prev_from_node : forall fuel c pre id r rest p pend,
  c = pre ++ (id, r) :: rest ->
  ids_unique c ->
  nonempty_nodes pre ->
  p < length r ->
  length (flat pre ++ firstn p r) < fuel ->
  scan_prev fuel c (at_node pre id r rest p pend) = rev (flat pre ++ firstn p r).
Proof.
  induction fuel as [|fuel IH]; intros c pre id r rest p pend Hc Hu Hne Hp Hf; [lia|].
  cbn [scan_prev cursor_to at_node c_cn c_pend c_skip c_pos cc_pnum cc_p0 cc_node].
  change (0 <? 0)%Z with false. cbv iota.
  destruct p as [|p].
  - (* first slot: go to the previous node *)
    change (Nat.eqb 0 0) with true. cbv iota. cbn [firstn]. rewrite app_nil_r in *.
    destruct (@rev (node K V) pre) as [|[j rj] pre'r] eqn:Er.
    + assert (pre = []) by (destruct pre; [reflexivity|apply (f_equal (@length _)) in Er; rewrite rev_length in Er; discriminate]).
      subst pre. unfold last_id_or. cbn [rev]. reflexivity.
    + assert (Hpre : pre = rev pre'r ++ [(j, rj)]).
      { pose proof (@rev_involutive (node K V) pre) as Hri. rewrite Er in Hri. cbn [rev] in Hri. symmetry. exact Hri. }
      unfold last_id_or at 1. rewrite Er.
      assert (Hc' : c = rev pre'r ++ (j, rj) :: (id, r) :: rest) by (rewrite Hc, Hpre, <- app_assoc; reflexivity).
      rewrite (load_at c (rev pre'r) j rj ((id, r) :: rest) Hc' Hu). cbv iota beta.
      rewrite Hpre in Hne. apply nonempty_app_inv in Hne. destruct Hne as [Hne1 Hne2].
      inversion Hne2 as [|x0 l0 Hrj Hx0]. cbn [snd] in Hrj.
      assert (Hl : 0 < length rj) by (destruct rj; [congruence|simpl; lia]).
      assert (Hnth : exists e, nth_error rj (length rj - 1) = Some e).
      { destruct (nth_error rj (length rj - 1)) eqn:E; [eauto|]. apply nth_error_None in E. lia. }
      destruct Hnth as [e He].
      cbn [cc_pnum].
      change {| c_cn := Some {| cc_node := CnNode j; cc_pnum := length rj; cc_p0 := last_id_or None (rev pre'r);
                                cc_n0 := nid_of ((id, r) :: rest) |};
                c_pos := length rj - 1; c_skip := 0%Z; c_pend := pend |}
        with (at_node (rev pre'r) j rj ((id, r) :: rest) (length rj - 1) pend).
      rewrite (read_at c (rev pre'r) j rj ((id, r) :: rest) (length rj - 1) pend e Hc' Hu He).
      rewrite (IH c (rev pre'r) j rj ((id, r) :: rest) (length rj - 1) pend Hc' Hu Hne1); [|lia|].
      * rewrite Hpre. rewrite flat_app. rewrite flat_cons_eq. cbn [snd]. change (flat []) with (@nil (K * V)). rewrite app_nil_r.
        assert (Hsk : skipn (length rj - 1) rj = [e]).
        { rewrite (skipn_nth_cons _ rj (length rj - 1) e He). rewrite skipn_all2 by lia. reflexivity. }
        symmetry. apply rev_snoc_split. rewrite <- Hsk. symmetry. apply firstn_skipn.
      * rewrite Hpre, flat_app, flat_cons_eq in Hf. cbn [snd] in Hf. change (flat []) with (@nil (K * V)) in Hf.
        rewrite app_nil_r in Hf. rewrite !app_length in *.
        rewrite firstn_length. lia.
  - (* previous slot of the same node *)
    change (Nat.eqb (S p) 0) with false. cbv iota. cbn [is_db cc_node]. cbv iota.
    replace (S p - 1) with p by lia.
    assert (Hnth : exists e, nth_error r p = Some e).
    { destruct (nth_error r p) eqn:E; [eauto|]. apply nth_error_None in E. lia. }
    destruct Hnth as [e He].
    change {| c_cn := Some {| cc_node := CnNode id; cc_pnum := length r; cc_p0 := last_id_or None pre; cc_n0 := nid_of rest |};
              c_pos := p; c_skip := 0%Z; c_pend := pend |}
      with (at_node pre id r rest p pend).
    rewrite (read_at c pre id r rest p pend e Hc Hu He).
    rewrite (IH c pre id r rest p pend Hc Hu Hne); [|lia|].
    + symmetry. apply rev_snoc_split. apply firstn_S_nth. exact He.
    + rewrite (firstn_S_nth _ r p e He) in Hf. rewrite !app_length in *. simpl in Hf. lia.
Qed.

(* C02: from after-last, PREV enumerates the whole chain in reverse *)
Theorem scan_prev_all (c : chain) (cur0 : cursor) (fuel : nat) :
  ids_unique c -> nonempty_nodes c -> length (flat c) < fuel ->
  scan_prev fuel c (snd (cursor_to c cur0 CAfterLast)) = rev (flat c).
Proof.
  intros Hu Hne Hf. cbn [cursor_to snd].
  destruct fuel as [|fuel]; [lia|].
  cbn [scan_prev cursor_to c_cn c_pend c_skip c_pos].
  change (0 <? 0)%Z with false. cbv iota.
  unfold load_tail. cbn [cc_pnum cc_p0]. change (Nat.eqb 0 0) with true. cbv iota.
  unfold Node.last_id.
  destruct (@rev (node K V) c) as [|[j rj] pre'r] eqn:Er.
  - assert (c = []) by (destruct c; [reflexivity|apply (f_equal (@length _)) in Er; rewrite rev_length in Er; discriminate]).
    subst c. reflexivity.
  - assert (Hc : c = rev pre'r ++ (j, rj) :: []).
    { pose proof (@rev_involutive (node K V) c) as Hri. rewrite Er in Hri. cbn [rev] in Hri. symmetry. exact Hri. }
    rewrite (load_at c (rev pre'r) j rj [] Hc Hu). cbv iota beta.
    pose proof Hne as Hne0. rewrite Hc in Hne0. apply nonempty_app_inv in Hne0. destruct Hne0 as [Hne1 Hne2].
    inversion Hne2 as [|x0 l0 Hrj Hx0]. cbn [snd] in Hrj.
    assert (Hl : 0 < length rj) by (destruct rj; [congruence|simpl; lia]).
    assert (Hnth : exists e, nth_error rj (length rj - 1) = Some e).
    { destruct (nth_error rj (length rj - 1)) eqn:E; [eauto|]. apply nth_error_None in E. lia. }
    destruct Hnth as [e He]. cbn [cc_pnum].
    change {| c_cn := Some {| cc_node := CnNode j; cc_pnum := length rj; cc_p0 := last_id_or None (rev pre'r); cc_n0 := nid_of [] |};
              c_pos := length rj - 1; c_skip := 0%Z; c_pend := PNone |}
      with (at_node (rev pre'r) j rj [] (length rj - 1) PNone).
    erewrite read_at; [|exact Hc|exact Hu|exact He].
    erewrite scan_prev_from_node; [|exact Hc|exact Hu|exact Hne1|lia|].
    + replace (flat c) with (flat (rev pre'r) ++ rj).
      2:{ rewrite Hc. rewrite flat_app, flat_cons_eq. cbn [snd]. change (flat []) with (@nil (K * V)). rewrite app_nil_r. reflexivity. }
      assert (Hsk : skipn (length rj - 1) rj = [e]).
      { rewrite (skipn_nth_cons _ rj (length rj - 1) e He). rewrite skipn_all2 by lia. reflexivity. }
      symmetry. apply rev_snoc_split. rewrite <- Hsk. symmetry. apply firstn_skipn.
    + assert (Hfl : flat c = flat (rev pre'r) ++ rj).
      { rewrite Hc. rewrite flat_app, flat_cons_eq. cbn [snd]. change (flat []) with (@nil (K * V)). rewrite app_nil_r. reflexivity. }
      rewrite Hfl in Hf. rewrite !app_length in *. rewrite firstn_length. lia.
Qed.

(* ---- list-level facts behind the fix-up loops: the cursor keeps pointing at its record ---- *)
Lemma insert_keeps_record (r : recs) (idx p : nat) (e : K * V) :
  nth_error (insert_at K V r idx e) (if Nat.leb idx p then S p else p) = nth_error r p \/ length r <= p.
Proof.
  revert idx p; induction r as [|x r IH]; intros idx p.
  - right. simpl. lia.
  - destruct idx as [|idx]; cbn [insert_at Nat.leb].
    + left. reflexivity.
    + destruct p as [|p]; cbn [Nat.leb nth_error].
      * left. reflexivity.
      * destruct (IH idx p) as [H|H]; [left; destruct (Nat.leb idx p); exact H|right; simpl; lia].
Qed.

Lemma remove_keeps_record (r : recs) (idx p : nat) : p <> idx ->
  nth_error (remove_at K V r idx) (if Nat.ltb idx p then p - 1 else p) = nth_error r p.
Proof.
  revert idx p; induction r as [|x r IH]; intros idx p Hne.
  - assert (Hnil : forall n, nth_error (@nil (K * V)) n = None) by (intros [|n]; reflexivity).
    destruct idx; cbn [remove_at]; rewrite !Hnil; reflexivity.
  - destruct idx as [|idx]; cbn [remove_at].
    + destruct p as [|p]; [congruence|]. cbn [Nat.ltb Nat.leb nth_error]. replace (S p - 1) with p by lia. reflexivity.
    + destruct p as [|p]; [reflexivity|].
      change (Nat.ltb (S idx) (S p)) with (Nat.ltb idx p).
      specialize (IH idx p ltac:(lia)).
      destruct (Nat.ltb idx p) eqn:E.
      * apply Nat.ltb_lt in E. replace (S p - 1) with (S (p - 1)) by lia. cbn [nth_error]. exact IH.
      * cbn [nth_error]. exact IH.
Qed.

(* deleting the record under the cursor: the slot now holds the successor (skip_next = 1) *)
Lemma remove_current_successor (r : recs) (idx : nat) :
  nth_error (remove_at K V r idx) idx = nth_error r (S idx).
Proof.
  revert idx; induction r as [|x r IH]; intros [|idx]; cbn [remove_at nth_error]; try reflexivity.
  apply IH.
Qed.

(* a split at the pivot: records behind the pivot are found in the new node at position - PIVOT *)
Lemma split_keeps_record_moved (r : recs) (p : nat) : PIVOT <= p ->
  nth_error (skipn PIVOT r) (p - PIVOT) = nth_error r p.
Proof.
  intros H. rewrite <- (firstn_skipn PIVOT r) at 2.
  destruct (Nat.le_gt_cases (length r) PIVOT) as [Hl|Hl].
  - rewrite skipn_all2 by exact Hl. rewrite firstn_all2 by exact Hl. rewrite app_nil_r.
    destruct (p - PIVOT); simpl; symmetry; apply nth_error_None; lia.
  - rewrite nth_error_app2; rewrite firstn_length; [f_equal; lia|lia].
Qed.
Lemma split_keeps_record_kept (r : recs) (p : nat) : p < PIVOT ->
  nth_error (firstn PIVOT r) p = nth_error r p.
Proof.
  intros H. rewrite <- (firstn_skipn PIVOT r) at 2.
  destruct (Nat.le_gt_cases (length r) p) as [Hl|Hl].
  - rewrite firstn_skipn. transitivity (@None (K * V)); [|symmetry]; apply nth_error_None; [rewrite firstn_length|]; lia.
  - rewrite nth_error_app1; [reflexivity|]. rewrite firstn_length. lia.
Qed.
End CursorProofs.

(* ---- EQ positioning ---- *)
Require Import IW.KV.Spec IW.KV.Node_proofs.
Section CursorEq.
Variables K V : Type.
Variable cmp : K -> K -> comparison.
Variable IDXNUM PIVOT : nat.
Hypothesis pivot_ok : 1 <= PIVOT < IDXNUM.
Hypothesis cmp_lt_eq : forall a b c, cmp a b = Lt -> cmp b c = Eq -> cmp a c = Lt.
Hypothesis cmp_antisym : forall a b, cmp a b = CompOpp (cmp b a).
Hypothesis cmp_trans : forall a b c, cmp a b = Lt -> cmp b c = Lt -> cmp a c = Lt.

Lemma lower_nodes_in : forall rest (n0 : node K V) k, In (lower_nodes K V cmp n0 rest k) (n0 :: rest).
Proof.
  induction rest as [|nx rest IH]; intros n0 k; cbn [lower_nodes]; [left; reflexivity|].
  destruct (first_le K V cmp (snd nx) k); [right; apply IH|left; reflexivity].
Qed.
Lemma lower_of_in (c : chain K V) k n : lower_of K V cmp c k = Some n -> In n c.
Proof.
  unfold lower_of. destruct c as [|n0 rest]; [discriminate|].
  destruct (first_le K V cmp (snd n0) k); [|discriminate]. intros H. inversion H; subst. apply lower_nodes_in.
Qed.

Lemma in_split_unique (c : chain K V) id r : In (id, r) c -> exists pre rest, c = pre ++ (id, r) :: rest.
Proof. intros H. apply in_split in H. exact H. Qed.

Theorem cursor_eq_spec (c : chain K V) (cur : cursor) (k : K) :
  NodeInv K V cmp IDXNUM c -> ids_unique K V c ->
  match cursor_to_key K V cmp c cur false k with
  | (CROk, cur') => exists k' v, cursor_read K V c cur' = Some (k', v) /\ cmp k' k = Eq /\ s_get K V cmp (flat K V c) k = Some v
  | (_, _) => s_get K V cmp (flat K V c) k = None
  end.
Proof.
  intros Hinv Hu.
  pose proof (get_chain_refines K V cmp IDXNUM PIVOT cmp_lt_eq cmp_trans pivot_ok c k Hinv) as Hget.
  unfold get_chain in Hget. unfold cursor_to_key.
  destruct (lower_of K V cmp c k) as [[lid lrecs]|] eqn:El; [|symmetry; exact Hget].
  destruct (in_split_unique c lid lrecs (lower_of_in c k _ El)) as [pre [rest Hc]].
  rewrite (load_at K V c pre lid lrecs rest Hc Hu).
  destruct (found_at K V cmp lrecs k (pos K V cmp lrecs k)) eqn:Ef.
  - unfold found_at in Ef. destruct (nth_error lrecs (pos K V cmp lrecs k)) as [[k1 v1]|] eqn:En; [|discriminate].
    destruct (cmp k1 k) eqn:Ec; try discriminate.
    exists k1, v1. split; [|split; [exact Ec|]].
    + change {| c_cn := Some {| cc_node := CnNode lid; cc_pnum := length lrecs; cc_p0 := last_id_or K V None pre; cc_n0 := nid_of K V rest |};
                c_pos := pos K V cmp lrecs k; c_skip := 0%Z; c_pend := c_pend cur |}
        with (at_node K V pre lid lrecs rest (pos K V cmp lrecs k) (c_pend cur)).
      apply (read_at K V c pre lid lrecs rest _ _ (k1, v1) Hc Hu En).
    + rewrite <- Hget. simpl. reflexivity.
  - symmetry. exact Hget.
Qed.
End CursorEq.

(* ---- cursor-level fix-ups: after the mutation of ONE node (described by what find_node returns before and after),
        the fixed-up cursor reads the same record it read before ---- *)
Section CursorFix.
Variables K V : Type.
Variable IDXNUM PIVOT : nat.
Notation chain := (chain K V).
Notation recs := (recs K V).

Definition positioned (cur : cursor) (id p : nat) : Prop :=
  exists cc, c_cn cur = Some cc /\ cc_node cc = CnNode id /\ c_pos cur = p.

Lemma on_node_positioned cur id p : positioned cur id p -> on_node cur id = true.
Proof. intros [cc [H1 [H2 _]]]. unfold on_node. rewrite H1, H2. apply Nat.eqb_refl. Qed.

Lemma read_positioned (c : chain) cur id p pv r nx pnum :
  c_cn cur = Some {| cc_node := CnNode id; cc_pnum := pnum; cc_p0 := pv; cc_n0 := nx |} -> c_pos cur = p ->
  p < pnum -> find_node K V None c id = Some (pv, r, nx) ->
  cursor_read K V c cur = nth_error r p.
Proof.
  intros Hcn Hp Hlt Hf. unfold cursor_read, cursor_at. rewrite Hcn. cbn [cc_node cc_pnum]. rewrite Hp.
  assert (E : Nat.ltb p pnum = true) by (apply Nat.ltb_lt; exact Hlt). rewrite E. rewrite Hf. reflexivity.
Qed.

Lemma read_fields (c : chain) id p pv r nx pnum skip pend :
  p < pnum -> find_node K V None c id = Some (pv, r, nx) ->
  cursor_read K V c {| c_cn := Some {| cc_node := CnNode id; cc_pnum := pnum; cc_p0 := pv; cc_n0 := nx |};
                       c_pos := p; c_skip := skip; c_pend := pend |} = nth_error r p.
Proof. intros Hlt Hf. eapply read_positioned; [reflexivity|reflexivity|exact Hlt|exact Hf]. Qed.

(* _sblk_addkv / _sblk_addkv2 on the cursor's node *)
Theorem fix_insert_keeps (c' : chain) cur id p idx e r pv nx :
  positioned cur id p -> p < length r ->
  find_node K V None c' id = Some (pv, insert_at K V r idx e, nx) ->
  cursor_read K V c' (fix_insert K V IDXNUM c' id idx cur) = nth_error r p.
Proof.
  intros Hpos Hp Hf. pose proof (on_node_positioned _ _ _ Hpos) as Hon.
  destruct Hpos as [cc [Hcn [Hnode Hcp]]].
  unfold fix_insert. rewrite Hon. unfold with_cn. rewrite Hcn. unfold set_cn. cbn [c_pos c_cn c_skip c_pend].
  unfold refresh. rewrite Hnode. unfold load_node. rewrite Hf.
  assert (Hlen : length (insert_at K V r idx e) = S (length r)).
  { clear. revert idx; induction r as [|x r IH]; intros [|j]; simpl; try reflexivity. now rewrite IH. }
  rewrite Hcp. destruct (Nat.leb idx p) eqn:El.
  - assert (Hlt : p + 1 < length (insert_at K V r idx e)) by (rewrite Hlen; lia).
    rewrite (read_fields c' id (p + 1) pv _ nx _ _ _ Hlt Hf).
    replace (p + 1) with (S p) by lia.
    destruct (insert_keeps_record K V 1 (le_n 1) r idx p e) as [H|H]; [rewrite El in H; exact H|lia].
  - assert (Hlt : p < length (insert_at K V r idx e)) by (rewrite Hlen; lia).
    rewrite (read_fields c' id p pv _ nx _ _ _ Hlt Hf).
    destruct (insert_keeps_record K V 1 (le_n 1) r idx p e) as [H|H]; [rewrite El in H; exact H|lia].
Qed.

(* _sblk_rmkv on the cursor's node, another slot *)
Theorem fix_remove_keeps (c' : chain) cur id p idx r pv nx :
  positioned cur id p -> p < length r -> idx < length r -> p <> idx ->
  find_node K V None c' id = Some (pv, remove_at K V r idx, nx) ->
  cursor_read K V c' (fix_remove K V IDXNUM c' id idx cur) = nth_error r p.
Proof.
  intros Hpos Hp Hi Hne Hf. pose proof (on_node_positioned _ _ _ Hpos) as Hon.
  destruct Hpos as [cc [Hcn [Hnode Hcp]]].
  assert (Hlen : length (remove_at K V r idx) = length r - 1).
  { clear - Hi. revert idx Hi; induction r as [|x r IH]; intros [|j] Hi; simpl in *; try lia. rewrite IH by lia. lia. }
  unfold fix_remove, fix_remove_in. rewrite Hf. rewrite Hon. unfold with_cn. rewrite Hcn. unfold set_cn.
  cbn [c_pos c_cn c_skip c_pend]. unfold refresh. rewrite Hnode. unfold load_node. rewrite Hf. rewrite Hcp.
  assert (E1 : Nat.eqb p idx = false) by (apply Nat.eqb_neq; exact Hne). rewrite E1.
  destruct (Nat.ltb idx p) eqn:El.
  - pose proof (remove_keeps_record K V 1 (le_n 1) r idx p Hne) as H. rewrite El in H.
    apply Nat.ltb_lt in El.
    assert (Hlt : p - 1 < length (remove_at K V r idx)) by (rewrite Hlen; lia).
    rewrite (read_fields c' id (p - 1) pv _ nx _ _ _ Hlt Hf). exact H.
  - pose proof (remove_keeps_record K V 1 (le_n 1) r idx p Hne) as H. rewrite El in H.
    apply Nat.ltb_ge in El.
    assert (Hlt : p < length (remove_at K V r idx)) by (rewrite Hlen; lia).
    rewrite (read_fields c' id p pv _ nx _ _ _ Hlt Hf). exact H.
Qed.

(* _sblk_rmkv on the record under the cursor (not the last slot): the cursor reads the successor and skip_next = 1,
   so the next NEXT does not move - the successor is visited exactly once *)
Theorem fix_remove_current (c' : chain) cur id p r pv nx :
  positioned cur id p -> S p < length r ->
  find_node K V None c' id = Some (pv, remove_at K V r p, nx) ->
  let cur' := fix_remove K V IDXNUM c' id p cur in
  cursor_read K V c' cur' = nth_error r (S p) /\ c_skip cur' = 1%Z.
Proof.
  intros Hpos Hp Hf. pose proof (on_node_positioned _ _ _ Hpos) as Hon.
  destruct Hpos as [cc [Hcn [Hnode Hcp]]].
  assert (Hlen : length (remove_at K V r p) = length r - 1).
  { assert (Hi : p < length r) by lia. clear - Hi. revert p Hi; induction r as [|x r IH]; intros [|j] Hi; simpl in *; try lia. rewrite IH by lia. lia. }
  cbv zeta. unfold fix_remove, fix_remove_in. rewrite Hf. rewrite Hon. unfold with_cn. rewrite Hcn. unfold set_cn.
  cbn [c_pos c_cn c_skip c_pend]. unfold refresh. rewrite Hnode. unfold load_node. rewrite Hf. rewrite Hcp.
  rewrite Nat.eqb_refl.
  assert (E : (negb (Nat.eqb p 0) && Nat.eqb p (length (remove_at K V r p)))%bool = false).
  { rewrite Hlen. destruct (Nat.eqb p 0); [reflexivity|]. simpl. apply Nat.eqb_neq. lia. }
  rewrite E. split; [|reflexivity].
  assert (Hlt : p < length (remove_at K V r p)) by (rewrite Hlen; lia).
  rewrite (read_fields c' id p pv _ nx _ _ _ Hlt Hf).
  apply remove_current_successor.
Qed.
End CursorFix.
