(* The invariant of KV/Inv_proofs.v holds in EVERY state one database of the API-level model (KV/Inst.v) can reach,
   for any sequence of put / delete / cursor open / move / set / delete calls with any arguments and flags, and so
   the hypotheses of the scan-stability theorems are discharged for every reachable state:
   db_scan_stable_put / db_scan_stable_del speak about the model the correspondence check runs against the code. *)
Require Import List ZArith Bool Lia Sorted. Import ListNotations.
Require Import IW.Lib.CInt IW.Lib.Vnum IW.KV.Keys IW.KV.Node IW.KV.Spec IW.KV.Node_proofs IW.KV.Cursor IW.KV.Cursor_proofs
               IW.KV.Stable_proofs IW.KV.ScanStable_proofs IW.KV.StablePrev_proofs IW.KV.StableDel_proofs IW.KV.Inv_proofs IW.KV.Inst IW.Gen.Facts.

(* node size and pivot as the source has them (regenerated): the pivot lies strictly inside a node *)
Lemma pivot_ok_src : 1 <= NPIVOT /\ NPIVOT < NIDX.
Proof. vm_compute. lia. Qed.

Section Db.
Variable m : kmode.
Hypothesis cmp_lt_eq : forall a b c, cmp_of m a b = Lt -> cmp_of m b c = Eq -> cmp_of m a c = Lt.
Hypothesis cmp_antisym : forall a b, cmp_of m a b = CompOpp (cmp_of m b a).
Hypothesis cmp_trans : forall a b c, cmp_of m a b = Lt -> cmp_of m b c = Lt -> cmp_of m a c = Lt.

Notation GInv := (GInv key value (cmp_of m) NIDX).
Notation cur_ok := (cur_ok key value NIDX).

Definition DbInv (d : db) : Prop :=
  d_mode d = m /\ GInv (d_fresh d) (d_chain d) (map snd (d_curs d)).

Lemma db_empty_inv : DbInv (db_empty m).
Proof.
  split; [reflexivity|]. cbn [db_empty d_fresh d_chain d_curs map]. split; [split; constructor|].
  split; [constructor|]. split; [intros id []|constructor].
Qed.

Lemma fix_all_snd (c : dbchain) ch cs : map snd (fix_all c ch cs) = map (fix_cursor key value NIDX NPIVOT c ch) (map snd cs).
Proof. unfold fix_all. rewrite !map_map. reflexivity. Qed.

Lemma cur_get_ok (P : cursor -> Prop) cs slot c : Forall P (map snd cs) -> cur_get cs slot = Some c -> P c.
Proof.
  induction cs as [|[s c0] cs IH]; intros H Hg; cbn [cur_get] in Hg; [discriminate|].
  cbn [map snd] in H. inversion H; subst. destruct (Nat.eqb s slot); [inversion Hg; subst; assumption|apply IH; assumption].
Qed.
Lemma cur_set_ok (P : cursor -> Prop) cs slot c : Forall P (map snd cs) -> P c -> Forall P (map snd (cur_set cs slot c)).
Proof.
  induction cs as [|[s c0] cs IH]; intros H Hc; cbn [cur_set map snd]; [constructor; [exact Hc|constructor]|].
  cbn [map snd] in H. inversion H; subst. destruct (Nat.eqb s slot); cbn [map snd]; constructor; auto.
Qed.
Lemma cur_del_ok (P : cursor -> Prop) cs slot : Forall P (map snd cs) -> Forall P (map snd (cur_del cs slot)).
Proof.
  induction cs as [|[s c0] cs IH]; intros H; cbn [cur_del map snd]; [constructor|].
  cbn [map snd] in H. inversion H; subst. destruct (Nat.eqb s slot); cbn [map snd]; [assumption|constructor; auto].
Qed.

Lemma mutated_put_inv (d : db) k v noover newok updf c' ch :
  DbInv d ->
  put_chain key value (cmp_of m) NIDX NPIVOT updf (d_fresh d) (d_chain d) k v noover newok = (POk, c', ch) ->
  DbInv (mutated d c' ch).
Proof.
  intros [Hm Hg] Hput. split; [exact Hm|]. cbn [mutated d_fresh d_chain d_curs]. rewrite fix_all_snd.
  exact (ginv_put key value (cmp_of m) NIDX NPIVOT updf cmp_lt_eq cmp_antisym cmp_trans pivot_ok_src _ _ _ k v noover newok c' ch Hg Hput).
Qed.

Lemma mutated_del_inv (d : db) k c' ch :
  DbInv d -> del_effect key value (cmp_of m) k (d_chain d) c' ch -> DbInv (mutated d c' ch).
Proof.
  intros [Hm Hg] He. split; [exact Hm|]. cbn [mutated d_fresh d_chain d_curs]. rewrite fix_all_snd.
  assert (Hf : match ch with ChSplit _ _ _ _ _ _ => S (d_fresh d) | _ => d_fresh d end = d_fresh d)
    by (destruct He; reflexivity).
  rewrite Hf.
  exact (ginv_del key value (cmp_of m) NIDX NPIVOT cmp_lt_eq cmp_antisym pivot_ok_src _ _ _ _ k ch Hg He).
Qed.

Theorem db_put_inv (d : db) k comp v flags ph : DbInv d -> DbInv (snd (db_put d k comp v flags ph)).
Proof.
  intros Hd. pose proof Hd as [Hm _]. unfold db_put. destruct (Nat.eqb (length k) 0); [exact Hd|].
  destruct (eff_key (d_mode d) k comp) as [[] ek]; try exact Hd.
  destruct (IW_VNUMSIZE (stored_size (d_mode d) ek) + stored_size (d_mode d) ek + Z.of_nat (length v) >? IWKV_MAX_KVSZ)%Z; [exact Hd|].
  rewrite Hm.
  destruct (put_chain key value (cmp_of m) NIDX NPIVOT _ (d_fresh d) (d_chain d) ek v _ _) as [[r c'] ch] eqn:Hput.
  destruct r; cbn [snd].
  - eapply mutated_put_inv; eauto.
  - exact Hd.
  - destruct (get_chain key value (cmp_of m) (d_chain d) ek); [|exact Hd].
    destruct (has flags FL_INCREMENT); [|exact Hd]. destruct (incr v0 v); exact Hd.
Qed.

Theorem db_del_inv (d : db) k comp : DbInv d -> DbInv (snd (db_del d k comp)).
Proof.
  intros Hd. pose proof Hd as [Hm _]. unfold db_del. destruct (eff_key (d_mode d) k comp) as [[] ek]; try exact Hd.
  rewrite Hm. destruct (del_chain key value (cmp_of m) (d_chain d) ek) as [[c' ch]|] eqn:E; [|exact Hd]. cbn [snd].
  apply (mutated_del_inv d ek c' ch Hd). exact (del_chain_effect key value (cmp_of m) NIDX NPIVOT pivot_ok_src _ _ _ _ E).
Qed.

Lemma move_ok (d : db) slot c0 op k : DbInv d -> cur_ok (d_chain d) c0 -> cur_ok (d_chain d) (snd (db_cursor_move d slot c0 op k)).
Proof.
  intros [Hm Hg] Hc. unfold db_cursor_move.
  pose proof (fun o => ginv_move key value (cmp_of m) NIDX NPIVOT pivot_ok_src _ _ _ c0 o Hg Hc) as Hmv.
  destruct (op =? 1)%Z; [specialize (Hmv CBeforeFirst); destruct (cursor_to key value NIDX (d_chain d) c0 CBeforeFirst); exact Hmv|].
  destruct (op =? 2)%Z; [specialize (Hmv CAfterLast); destruct (cursor_to key value NIDX (d_chain d) c0 CAfterLast); exact Hmv|].
  destruct (op =? 3)%Z; [specialize (Hmv CNext); destruct (cursor_to key value NIDX (d_chain d) c0 CNext); exact Hmv|].
  destruct (op =? 4)%Z; [specialize (Hmv CPrev); destruct (cursor_to key value NIDX (d_chain d) c0 CPrev); exact Hmv|].
  destruct k as [[kb comp]|]; [|cbn [snd]; exact Hc].
  destruct (eff_key (d_mode d) kb comp) as [[] ek]; try (cbn [snd]; exact Hc). rewrite Hm.
  pose proof (ginv_move_key key value (cmp_of m) NIDX NPIVOT pivot_ok_src _ _ _ c0 (op =? 6)%Z ek Hg Hc) as Hk.
  destruct (cursor_to_key key value (cmp_of m) (d_chain d) c0 (op =? 6)%Z ek). exact Hk.
Qed.

Lemma with_curs_inv (d : db) cs : DbInv d -> Forall (cur_ok (d_chain d)) (map snd cs) -> DbInv (with_curs d cs).
Proof. intros [Hm [H1 [H2 [H3 _]]]] Hc. split; [exact Hm|]. cbn [with_curs d_fresh d_chain d_curs]. split; [exact H1|split; [exact H2|split; [exact H3|exact Hc]]]. Qed.

Lemma db_curs_ok (d : db) : DbInv d -> Forall (cur_ok (d_chain d)) (map snd (d_curs d)).
Proof. intros [_ [_ [_ [_ H]]]]. exact H. Qed.

Theorem db_copen_inv (d : db) slot op k : DbInv d -> DbInv (snd (db_copen d slot op k)).
Proof.
  intros Hd. unfold db_copen.
  assert (Hd0 : DbInv (with_curs d (cur_del (d_curs d) slot))) by (apply with_curs_inv; [exact Hd|apply cur_del_ok, db_curs_ok; exact Hd]).
  set (d0 := with_curs d (cur_del (d_curs d) slot)) in *.
  destruct ((op <? 1)%Z || (op >? 6)%Z); [exact Hd0|].
  destruct (match k with Some _ => (op <? 5)%Z | None => false end); [exact Hd0|].
  pose proof (move_ok d0 slot cursor_init op k Hd0 I) as Hmv.
  destruct (db_cursor_move d0 slot cursor_init op k) as [r c]. cbn [snd] in Hmv.
  destruct r; try exact Hd0. cbn [snd]. apply with_curs_inv; [exact Hd0|].
  apply cur_set_ok; [apply db_curs_ok; exact Hd0|exact Hmv].
Qed.

Theorem db_cto_inv (d : db) slot op k : DbInv d -> DbInv (snd (db_cto d slot op k)).
Proof.
  intros Hd. unfold db_cto. destruct (cur_get (d_curs d) slot) as [c0|] eqn:E; [|exact Hd].
  pose proof (cur_get_ok _ _ _ _ (db_curs_ok d Hd) E) as Hc0.
  pose proof (move_ok d slot c0 op k Hd Hc0) as Hmv.
  destruct (db_cursor_move d slot c0 op k) as [r c]. cbn [snd] in *.
  apply with_curs_inv; [exact Hd|]. apply cur_set_ok; [apply db_curs_ok; exact Hd|exact Hmv].
Qed.

Theorem db_cset_inv (d : db) slot v : DbInv d -> DbInv (snd (db_cset d slot v)).
Proof.
  intros Hd. pose proof Hd as [Hm Hg]. unfold db_cset. destruct (cur_get (d_curs d) slot) as [c|]; [|exact Hd].
  destruct (cursor_at c) as [[id i]|]; [|exact Hd].
  destruct (cursor_read key value (d_chain d) c) as [[k v0]|]; [|exact Hd].
  destruct (IW_VNUMSIZE (stored_size (d_mode d) k) + stored_size (d_mode d) k + Z.of_nat (length v) >? IWKV_MAX_KVSZ)%Z; [exact Hd|].
  destruct (upd_by_id key value (d_chain d) id i v) as [c'|] eqn:E; [|exact Hd]. cbn [snd].
  split; [exact Hm|]. cbn [mutated d_fresh d_chain d_curs]. rewrite fix_all_snd.
  exact (ginv_upd key value (cmp_of m) NIDX NPIVOT pivot_ok_src _ _ _ id i v c' Hg E).
Qed.

Theorem db_cdel_inv (d : db) slot : DbInv d -> DbInv (snd (db_cdel d slot)).
Proof.
  intros Hd. unfold db_cdel. destruct (cur_get (d_curs d) slot) as [c|]; [|exact Hd].
  destruct (cursor_at c) as [[id i]|]; [|exact Hd].
  destruct (del_by_id key value None (d_chain d) id i) as [[c' ch]|] eqn:E; [|exact Hd]. cbn [snd].
  destruct (del_by_id_effect key value (cmp_of m) NIDX NPIVOT cmp_antisym pivot_ok_src _ _ _ _ _ E) as [r [k [v [_ [_ He]]]]].
  exact (mutated_del_inv d k c' ch Hd He).
Qed.

(* ---- every reachable state ---- *)
Inductive dbop :=
| OPut (k : list Z) (comp : Z) (v : value) (flags ph : Z)
| ODel (k : list Z) (comp : Z)
| OCopen (slot : nat) (op : Z) (k : option (list Z * Z))
| OCto (slot : nat) (op : Z) (k : option (list Z * Z))
| OCset (slot : nat) (v : value)
| OCdel (slot : nat)
| OCclose (slot : nat).

Definition db_step (d : db) (o : dbop) : db :=
  match o with
  | OPut k comp v flags ph => snd (db_put d k comp v flags ph)
  | ODel k comp => snd (db_del d k comp)
  | OCopen slot op k => snd (db_copen d slot op k)
  | OCto slot op k => snd (db_cto d slot op k)
  | OCset slot v => snd (db_cset d slot v)
  | OCdel slot => snd (db_cdel d slot)
  | OCclose slot => with_curs d (cur_del (d_curs d) slot)
  end.

Theorem db_step_inv (d : db) o : DbInv d -> DbInv (db_step d o).
Proof.
  intros Hd. destruct o; cbn [db_step].
  - apply db_put_inv; exact Hd.
  - apply db_del_inv; exact Hd.
  - apply db_copen_inv; exact Hd.
  - apply db_cto_inv; exact Hd.
  - apply db_cset_inv; exact Hd.
  - apply db_cdel_inv; exact Hd.
  - apply with_curs_inv; [exact Hd|apply cur_del_ok, db_curs_ok; exact Hd].
Qed.

Theorem db_inv_reachable (ops : list dbop) : DbInv (fold_left db_step ops (db_empty m)).
Proof.
  assert (H : forall d, DbInv d -> DbInv (fold_left db_step ops d)).
  { induction ops as [|o ops IH]; intros d Hd; cbn [fold_left]; [exact Hd|]. apply IH. apply db_step_inv. exact Hd. }
  apply H. apply db_empty_inv.
Qed.

(* ---- scan stability for every reachable state of the API-level model ---- *)
Lemma cur_get_fix_all (c : dbchain) ch cs slot :
  cur_get (fix_all c ch cs) slot = option_map (fix_cursor key value NIDX NPIVOT c ch) (cur_get cs slot).
Proof.
  induction cs as [|[s c0] cs IH]; [reflexivity|]. cbn [fix_all map cur_get fst snd].
  destruct (Nat.eqb s slot); [reflexivity|exact IH].
Qed.

Definition rest_of_scan (d : db) (slot : nat) (fuel : nat) : list (key * value) :=
  match cur_get (d_curs d) slot with
  | Some cur => scan_next key value NIDX fuel (d_chain d) cur
  | None => []
  end.

(* a cursor that stands on a record and has no pending-step marker *)
Definition on_record (d : db) (slot : nat) (k0 : key) (v0 : value) : Prop :=
  exists cur id p, cur_get (d_curs d) slot = Some cur /\ node_cursor key value (d_chain d) cur id p /\
                   c_skip cur = 0%Z /\ cursor_read key value (d_chain d) cur = Some (k0, v0).

Theorem db_scan_stable_put (d : db) k comp v flags ph d' slot k0 v0 fuel :
  DbInv d -> db_put d k comp v flags ph = (ROk, d') -> on_record d slot k0 v0 ->
  S (length (flat key value (d_chain d))) < fuel ->
  exists ek nv, eff_key m k comp = (ROk, ek) /\
    (s_get key value (cmp_of m) (flat key value (d_chain d)) ek = None -> nv = v) /\
    rest_of_scan d' slot fuel =
    match cmp_of m k0 ek with
    | Lt => s_put key value (cmp_of m) (rest_of_scan d slot fuel) ek nv
    | _ => rest_of_scan d slot fuel
    end.
Proof.
  intros [Hm [Hinv [Hu [Hb _]]]] Hput [cur [id [p [Hg [Hnc [Hsk Hr]]]]]] Hf.
  unfold db_put in Hput. destruct (Nat.eqb (length k) 0); [inversion Hput|]. rewrite Hm in Hput.
  destruct (eff_key m k comp) as [r ek] eqn:Eek. destruct r; try (inversion Hput; fail).
  destruct (IW_VNUMSIZE (stored_size m ek) + stored_size m ek + Z.of_nat (length v) >? IWKV_MAX_KVSZ)%Z; [inversion Hput|].
  destruct (put_chain key value (cmp_of m) NIDX NPIVOT _ (d_fresh d) (d_chain d) ek v _ _) as [[r c'] ch] eqn:Hpc.
  destruct r.
  - inversion Hput; subst d'. clear Hput.
    assert (Hfr : ~ In (d_fresh d) (map fst (d_chain d))) by (intros H; specialize (Hb _ H); lia).
    destruct (scan_stable_put key value (cmp_of m) NIDX NPIVOT _ cmp_lt_eq cmp_antisym cmp_trans pivot_ok_src
                (d_fresh d) (d_chain d) ek v _ _ c' ch cur id p k0 v0 fuel Hinv Hu Hfr Hpc Hnc Hsk Hr Hf) as [nv [Hnv Hscan]].
    exists ek, nv. split; [reflexivity|]. split; [exact Hnv|].
    unfold rest_of_scan. cbn [mutated d_curs d_chain]. rewrite cur_get_fix_all, Hg. cbn [option_map]. exact Hscan.
  - inversion Hput.
  - destruct (get_chain key value (cmp_of m) (d_chain d) ek); [|inversion Hput].
    destruct (has flags FL_INCREMENT); [|inversion Hput]. destruct (incr v1 v); inversion Hput.
Qed.

Theorem db_scan_stable_del (d : db) k comp d' slot k0 v0 fuel :
  DbInv d -> db_del d k comp = (ROk, d') -> on_record d slot k0 v0 ->
  S (length (flat key value (d_chain d))) < fuel ->
  exists ek, eff_key m k comp = (ROk, ek) /\
    rest_of_scan d' slot fuel = s_del key value (cmp_of m) (rest_of_scan d slot fuel) ek.
Proof.
  intros [Hm [Hinv [Hu _]]] Hdel [cur [id [p [Hg [Hnc [Hsk Hr]]]]]] Hf.
  unfold db_del in Hdel. rewrite Hm in Hdel.
  destruct (eff_key m k comp) as [r ek] eqn:Eek. destruct r; try (inversion Hdel; fail).
  destruct (del_chain key value (cmp_of m) (d_chain d) ek) as [[c' ch]|] eqn:E; [|inversion Hdel].
  inversion Hdel; subst d'. clear Hdel. exists ek. split; [reflexivity|].
  unfold rest_of_scan. cbn [mutated d_curs d_chain]. rewrite cur_get_fix_all, Hg. cbn [option_map].
  apply (scan_stable_del key value (cmp_of m) NIDX NPIVOT cmp_lt_eq cmp_antisym cmp_trans pivot_ok_src ek (d_chain d) c' ch cur id p k0 v0 fuel);
    try assumption.
  exact (del_chain_effect key value (cmp_of m) NIDX NPIVOT pivot_ok_src _ _ _ _ E).
Qed.

(* removal through ANY cursor (possibly the scanning cursor itself) *)
Theorem db_scan_stable_cdel (d : db) dslot d' slot k0 v0 fuel :
  DbInv d -> db_cdel d dslot = (ROk, d') -> on_record d slot k0 v0 ->
  S (length (flat key value (d_chain d))) < fuel ->
  exists dk, rest_of_scan d' slot fuel = s_del key value (cmp_of m) (rest_of_scan d slot fuel) dk.
Proof.
  intros [Hm [Hinv [Hu _]]] Hdel [cur [id [p [Hg [Hnc [Hsk Hr]]]]]] Hf.
  unfold db_cdel in Hdel. destruct (cur_get (d_curs d) dslot) as [dc|]; [|inversion Hdel].
  destruct (cursor_at dc) as [[did di]|]; [|inversion Hdel].
  destruct (del_by_id key value None (d_chain d) did di) as [[c' ch]|] eqn:E; [|inversion Hdel].
  inversion Hdel; subst d'. clear Hdel.
  destruct (del_by_id_effect key value (cmp_of m) NIDX NPIVOT cmp_antisym pivot_ok_src _ _ _ _ _ E) as [r [dk [dv [_ [_ He]]]]].
  exists dk. unfold rest_of_scan. cbn [mutated d_curs d_chain]. rewrite cur_get_fix_all, Hg. cbn [option_map].
  exact (scan_stable_del key value (cmp_of m) NIDX NPIVOT cmp_lt_eq cmp_antisym cmp_trans pivot_ok_src dk (d_chain d) c' ch cur id p k0 v0 fuel
           He Hinv Hu Hnc Hsk Hr Hf).
Qed.

(* ---- the same for backward scans: `rest_of_rscan` is what PREV still delivers, listed in scan order ---- *)
Definition rest_of_rscan (d : db) (slot : nat) (fuel : nat) : list (key * value) :=
  match cur_get (d_curs d) slot with
  | Some cur => rev (scan_prev key value NIDX fuel (d_chain d) cur)
  | None => []
  end.

Theorem db_rscan_stable_put (d : db) k comp v flags ph d' slot k0 v0 fuel :
  DbInv d -> db_put d k comp v flags ph = (ROk, d') -> on_record d slot k0 v0 ->
  S (length (flat key value (d_chain d))) < fuel ->
  exists ek nv, eff_key m k comp = (ROk, ek) /\
    rest_of_rscan d' slot fuel =
    match cmp_of m ek k0 with
    | Lt => s_put key value (cmp_of m) (rest_of_rscan d slot fuel) ek nv
    | _ => rest_of_rscan d slot fuel
    end.
Proof.
  intros [Hm [Hinv [Hu [Hb _]]]] Hput [cur [id [p [Hg [Hnc [Hsk Hr]]]]]] Hf.
  unfold db_put in Hput. destruct (Nat.eqb (length k) 0); [inversion Hput|]. rewrite Hm in Hput.
  destruct (eff_key m k comp) as [r ek] eqn:Eek. destruct r; try (inversion Hput; fail).
  destruct (IW_VNUMSIZE (stored_size m ek) + stored_size m ek + Z.of_nat (length v) >? IWKV_MAX_KVSZ)%Z; [inversion Hput|].
  destruct (put_chain key value (cmp_of m) NIDX NPIVOT _ (d_fresh d) (d_chain d) ek v _ _) as [[r c'] ch] eqn:Hpc.
  destruct r.
  - inversion Hput; subst d'. clear Hput.
    assert (Hfr : ~ In (d_fresh d) (map fst (d_chain d))) by (intros H; specialize (Hb _ H); lia).
    destruct (scan_prev_stable_put key value (cmp_of m) NIDX NPIVOT _ cmp_lt_eq cmp_antisym cmp_trans pivot_ok_src
                (d_fresh d) (d_chain d) ek v _ _ c' ch cur id p k0 v0 fuel Hinv Hu Hfr Hpc Hnc Hsk Hr Hf) as [nv [_ Hscan]].
    exists ek, nv. split; [reflexivity|].
    unfold rest_of_rscan. cbn [mutated d_curs d_chain]. rewrite cur_get_fix_all, Hg. cbn [option_map]. exact Hscan.
  - inversion Hput.
  - destruct (get_chain key value (cmp_of m) (d_chain d) ek); [|inversion Hput].
    destruct (has flags FL_INCREMENT); [|inversion Hput]. destruct (incr v1 v); inversion Hput.
Qed.

Theorem db_rscan_stable_del (d : db) k comp d' slot k0 v0 fuel :
  DbInv d -> db_del d k comp = (ROk, d') -> on_record d slot k0 v0 ->
  S (length (flat key value (d_chain d))) < fuel ->
  exists ek, eff_key m k comp = (ROk, ek) /\
    rest_of_rscan d' slot fuel = s_del key value (cmp_of m) (rest_of_rscan d slot fuel) ek.
Proof.
  intros [Hm [Hinv [Hu _]]] Hdel [cur [id [p [Hg [Hnc [Hsk Hr]]]]]] Hf.
  unfold db_del in Hdel. rewrite Hm in Hdel.
  destruct (eff_key m k comp) as [r ek] eqn:Eek. destruct r; try (inversion Hdel; fail).
  destruct (del_chain key value (cmp_of m) (d_chain d) ek) as [[c' ch]|] eqn:E; [|inversion Hdel].
  inversion Hdel; subst d'. clear Hdel. exists ek. split; [reflexivity|].
  unfold rest_of_rscan. cbn [mutated d_curs d_chain]. rewrite cur_get_fix_all, Hg. cbn [option_map].
  apply (scan_prev_stable_del key value (cmp_of m) NIDX NPIVOT cmp_lt_eq cmp_antisym cmp_trans pivot_ok_src ek (d_chain d) c' ch cur id p k0 v0 fuel);
    try assumption.
  exact (del_chain_effect key value (cmp_of m) NIDX NPIVOT pivot_ok_src _ _ _ _ E).
Qed.

Theorem db_rscan_stable_cdel (d : db) dslot d' slot k0 v0 fuel :
  DbInv d -> db_cdel d dslot = (ROk, d') -> on_record d slot k0 v0 ->
  S (length (flat key value (d_chain d))) < fuel ->
  exists dk, rest_of_rscan d' slot fuel = s_del key value (cmp_of m) (rest_of_rscan d slot fuel) dk.
Proof.
  intros [Hm [Hinv [Hu _]]] Hdel [cur [id [p [Hg [Hnc [Hsk Hr]]]]]] Hf.
  unfold db_cdel in Hdel. destruct (cur_get (d_curs d) dslot) as [dc|]; [|inversion Hdel].
  destruct (cursor_at dc) as [[did di]|]; [|inversion Hdel].
  destruct (del_by_id key value None (d_chain d) did di) as [[c' ch]|] eqn:E; [|inversion Hdel].
  inversion Hdel; subst d'. clear Hdel.
  destruct (del_by_id_effect key value (cmp_of m) NIDX NPIVOT cmp_antisym pivot_ok_src _ _ _ _ _ E) as [r [dk [dv [_ [_ He]]]]].
  exists dk. unfold rest_of_rscan. cbn [mutated d_curs d_chain]. rewrite cur_get_fix_all, Hg. cbn [option_map].
  exact (scan_prev_stable_del key value (cmp_of m) NIDX NPIVOT cmp_lt_eq cmp_antisym cmp_trans pivot_ok_src dk (d_chain d) c' ch cur id p k0 v0 fuel
           He Hinv Hu Hnc Hsk Hr Hf).
Qed.

End Db.
